import Webp.Go.Canon
import Webp.Impl.VP8Kernels
/-
  Line-protocol handlers for the DSP kernels (property C13, kernel half of C04).
  One op per kernel; blocks are 4x4 in raster order (pixels: 16 bytes hex; coefficients: 16
  comma-separated decimals).

  k_idct      <full|dc|ac3|dcinline> <pix16> <coeffs16>          ok <pix16>
  k_dotrans   <code 0..3> <pix16> <coeffs16>                     ok <pix16>
  k_douv      <c0,c1,c2,c3> <pix64> <coeffs64>                   ok <pix64>        (4 blocks, block-major)
  k_dcuv      <pix64> <coeffs64>                                 ok <pix64>        transformDCUV
  k_nzbits    <nzCoeffs> <nz> <dcNz>                             ok <uint32>
  k_iwht      <coeffs16>                                         ok <16 ints>
  k_whtdc     <coeffs16>                                         ok <16 ints>      decoder shortcut
  k_fwht      <coeffs16>                                         ok <16 ints>
  k_fdct      <src16> <ref16>                                    ok <16 ints>
  k_cliptab                                                      ok sclip1=<d> sclip2=<d> clip1=<d> abs0=<d> yuv=<d>
  k_sfilter   <thresh> <n*4 bytes p1p0q0q1>                      ok <go bytes> <rfc bytes> | panic
  k_nfilter   <mb|in> <thresh> <ithresh> <hev> <n*8 bytes>       ok <go bytes> <rfc bytes> | panic
  k_fpred     <thresh2> <ithresh> <hev> <8 bytes>                ok <needsFilter> <needsFilter2> <hev>
  k_pred      <16|8|4> <mode> <top> <left> <tl>                  ok <n*n bytes>
  k_quant     <first> <coeffs16> <sharpen16> <iq> <bias> <dciq> <dcbias>   ok <nz> <16 ints>
  k_dequant   <coeffs16> <dcq> <q>                               ok <16 ints>
  k_yuvrgb    <n*3 bytes y,u,v>                                  ok <n*3 bytes r,g,b> | panic
  k_upsample  <w> <topY> <botY|-> <topU> <topV> <botU> <botV> <aTop|-> <aBot|->   ok <top NRGBA> <bot NRGBA|->
  k_sse       <a> <b>                                            ok <n>
  k_tdisto    <a16> <b16>                                        ok <n>
  k_tdisto16  <a256> <b256>                                      ok <n>            16x16, raster, sum of the 16 blocks
  k_ttrans    <a16>                                              ok <n>
  k_green     <add|sub> <n*4 bytes, little-endian uint32>        ok <n*4 bytes>
-/
namespace Driver.Kernels
open Webp.Go
open Webp.Impl.VP8Kernels

def parseInts (s : String) : Option (Array Int) :=
  if s = "-" then some #[] else ((s.splitOn ",").mapM (fun (x : String) => x.toInt?)).map (·.toArray)

def parseNats (s : String) : Option (Array Nat) :=
  if s = "-" then some #[] else ((s.splitOn ",").mapM (fun (x : String) => x.toNat?)).map (·.toArray)

def parseHex (s : String) : Option ByteArray :=
  if s = "-" then some ByteArray.empty else hexToByteArray s

def accB (b : ByteArray) : Nat → Int := fun i => if i < b.size then ((b.get! i).toNat : Int) else 0

def intsStr (a : Array Int) : String := joinWith "," (a.toList.map toString)

def hexDigit (n : Nat) : Char := if n < 10 then Char.ofNat (48 + n) else Char.ofNat (87 + n)

def bytesHex (b : ByteArray) : String :=
  if b.size = 0 then "-" else
  String.ofList (b.foldl (fun acc x => hexDigit (x.toNat % 16) :: hexDigit (x.toNat / 16) :: acc) []).reverse

/-- pixels come back as bytes; a model value outside `[0,255]` would be a model bug and is made visible -/
def pixHex (n : Nat) (f : Nat → Int) : String := Id.run do
  let mut out := ByteArray.emptyWithCapacity n
  let mut bad := false
  for i in [0:n] do
    let v := f i
    if v < 0 ∨ v > 255 then bad := true
    out := out.push (UInt8.ofNat v.toNat)
  return if bad then "range!" else bytesHex out

def tableDigest (t : Array Int) : String :=
  let b : ByteArray := t.foldl (fun b v => b.push (UInt8.ofNat (v % 256).toNat)) (ByteArray.emptyWithCapacity t.size)
  s!"{b.size}:{(fnv1aArr b).toNat}"

def segOf (b : ByteArray) (o : Nat) : Seg :=
  let g := fun i => ((b.get! (o + i)).toNat : Int)
  ⟨g 0, g 1, g 2, g 3, g 4, g 5, g 6, g 7⟩

def seg4Of (b : ByteArray) (o : Nat) : Seg :=
  let g := fun i => ((b.get! (o + i)).toNat : Int)
  ⟨0, 0, g 0, g 1, g 2, g 3, 0, 0⟩

def pushSeg (b : ByteArray) (s : Seg) : ByteArray :=
  [s.p3, s.p2, s.p1, s.p0, s.q0, s.q1, s.q2, s.q3].foldl (fun b v => b.push (UInt8.ofNat v.toNat)) b

def pushSeg4 (b : ByteArray) (s : Seg) : ByteArray :=
  [s.p1, s.p0, s.q0, s.q1].foldl (fun b v => b.push (UInt8.ofNat v.toNat)) b

/-- run a per-position filter over `n` packed segments; `none` = Go would panic -/
def runSegs (w : Nat) (rd : ByteArray → Nat → Seg) (wr : ByteArray → Seg → ByteArray)
    (go : Seg → Option Seg) (rfc : Seg → Seg) (b : ByteArray) : String := Id.run do
  let n := b.size / w
  let mut g := ByteArray.emptyWithCapacity b.size
  let mut r := ByteArray.emptyWithCapacity b.size
  for i in [0:n] do
    let s := rd b (w * i)
    match go s with
    | none => return "panic"
    | some s' => g := wr g s'
    r := wr r (rfc s)
  return s!"ok {bytesHex g} {bytesHex r}"

def le32 (b : ByteArray) (i : Nat) : UInt32 :=
  (b.get! (4*i)).toUInt32 ||| ((b.get! (4*i+1)).toUInt32 <<< 8) ||| ((b.get! (4*i+2)).toUInt32 <<< 16)
    ||| ((b.get! (4*i+3)).toUInt32 <<< 24)

def push32 (b : ByteArray) (v : UInt32) : ByteArray :=
  (((b.push v.toUInt8).push (v >>> 8).toUInt8).push (v >>> 16).toUInt8).push (v >>> 24).toUInt8

def optHex (s : String) : Option (Option ByteArray) :=
  if s = "-" then some none else (hexToByteArray s).map some

def handle (op : String) (args : List String) : Option String :=
  match op, args with
  | "k_idct", [variant, pix, cs] => do
    let p ← parseHex pix
    let c ← parseInts cs
    if p.size ≠ 16 ∨ c.size ≠ 16 then none
    let f ← match variant with
      | "full" => some (transformOne (acc c) (accB p))
      | "dc" => some (transformDC (acc c) (accB p))
      | "ac3" => some (transformAC3 (acc c) (accB p))
      | "dcinline" => some (dcInline (acc c) (accB p))
      | _ => none
    some s!"ok {pixHex 16 f}"
  | "k_dotrans", [code, pix, cs] => do
    let code ← code.toNat?
    let p ← parseHex pix
    let c ← parseInts cs
    if p.size ≠ 16 ∨ c.size ≠ 16 ∨ code > 3 then none
    some s!"ok {pixHex 16 (doTransform code (acc c) (accB p))}"
  | "k_douv", [codes, pix, cs] => do
    let codes ← parseNats codes
    let p ← parseHex pix
    let c ← parseInts cs
    if p.size ≠ 64 ∨ c.size ≠ 64 ∨ codes.size ≠ 4 then none
    let cb := fun b k => acc c (16 * b + k)
    let pb := fun b k => accB p (16 * b + k)
    some s!"ok {pixHex 64 fun i => doUVTransform (fun b => codes.getD b 0) cb pb (i / 16) (i % 16)}"
  | "k_dcuv", [pix, cs] => do
    let p ← parseHex pix
    let c ← parseInts cs
    if p.size ≠ 64 ∨ c.size ≠ 64 then none
    let cb := fun b k => acc c (16 * b + k)
    let pb := fun b k => accB p (16 * b + k)
    some s!"ok {pixHex 64 fun i => transformDCUV cb pb (i / 16) (i % 16)}"
  | "k_nzbits", [w, nz, dc] => do
    let w ← w.toNat?
    let nz ← nz.toNat?
    let dc ← dc.toNat?
    some s!"ok {(nzCodeBits (UInt32.ofNat w) nz (dc ≠ 0)).toNat}"
  | "k_iwht", [cs] => do
    let c ← parseInts cs
    if c.size ≠ 16 then none
    some s!"ok {intsStr (tab 16 (transformWHT (acc c)))}"
  | "k_whtdc", [cs] => do
    let c ← parseInts cs
    if c.size ≠ 16 then none
    some s!"ok {intsStr (tab 16 (whtDCOnly (acc c)))}"
  | "k_fwht", [cs] => do
    let c ← parseInts cs
    if c.size ≠ 16 then none
    some s!"ok {intsStr (tab 16 (fTransformWHT (acc c)))}"
  | "k_fdct", [src, ref] => do
    let s ← parseHex src
    let r ← parseHex ref
    if s.size ≠ 16 ∨ r.size ≠ 16 then none
    some s!"ok {intsStr (tab 16 (fTransform (accB s) (accB r)))}"
  | "k_cliptab", [] =>
    some s!"ok sclip1={tableDigest sclip1Table} sclip2={tableDigest sclip2Table} clip1={tableDigest clip1Table} abs0={tableDigest abs0Table} yuv={tableDigest yuvClipTable}"
  | "k_sfilter", [thresh, segs] => do
    let t ← thresh.toInt?
    let b ← parseHex segs
    if b.size % 4 ≠ 0 then none
    some (runSegs 4 seg4Of pushSeg4 (simpleFilterGo t) (RFC.simpleSegment t) b)
  | "k_nfilter", [kind, thresh, ithresh, hv, segs] => do
    let t ← thresh.toInt?
    let it ← ithresh.toInt?
    let hv ← hv.toInt?
    let b ← parseHex segs
    if b.size % 8 ≠ 0 then none
    match kind with
    | "mb" => some (runSegs 8 segOf pushSeg (filterLoop26Go t it hv) (RFC.mbFilter hv it t) b)
    | "in" => some (runSegs 8 segOf pushSeg (filterLoop24Go t it hv) (RFC.subblockFilter hv it t) b)
    | _ => none
  | "k_fpred", [thresh2, ithresh, hv, seg] => do
    let t ← thresh2.toInt?
    let it ← ithresh.toInt?
    let hv ← hv.toInt?
    let b ← parseHex seg
    if b.size ≠ 8 then none
    let s := segOf b 0
    match needsFilter s.p1 s.p0 s.q0 s.q1 t, needsFilter2 s.p3 s.p2 s.p1 s.p0 s.q0 s.q1 s.q2 s.q3 t it,
          hev s.p1 s.p0 s.q0 s.q1 hv with
    | some a, some b, some c => some s!"ok {b2s a} {b2s b} {b2s c}"
    | _, _, _ => some "panic"
  | "k_pred", [size, mode, top, left, tl] => do
    let n ← size.toNat?
    let mode ← mode.toNat?
    let t ← parseHex top
    let l ← parseHex left
    let tl ← tl.toInt?
    match n with
    | 16 => if t.size ≠ 16 ∨ l.size ≠ 16 ∨ mode > 6 then none
            else some s!"ok {pixHex 256 fun i => pred16 mode (accB t) (accB l) tl (i % 16) (i / 16)}"
    | 8 => if t.size ≠ 8 ∨ l.size ≠ 8 ∨ mode > 6 then none
           else some s!"ok {pixHex 64 fun i => pred8 mode (accB t) (accB l) tl (i % 8) (i / 8)}"
    | 4 => if t.size ≠ 8 ∨ l.size ≠ 4 ∨ mode > 9 then none
           else some s!"ok {pixHex 16 fun i => pred4 mode (accB t) (accB l) tl (i % 4) (i / 4)}"
    | _ => none
  | "k_quant", [first, cs, sh, iq, bias, dciq, dcbias] => do
    let first ← first.toNat?
    let c ← parseInts cs
    let sh ← parseInts sh
    let iq ← iq.toInt?
    let bias ← bias.toInt?
    let dciq ← dciq.toInt?
    let dcbias ← dcbias.toInt?
    if c.size ≠ 16 ∨ sh.size ≠ 16 then none
    let q : QParams := { iq := iq, bias := bias, dciq := dciq, dcbias := dcbias, sharpen := acc sh }
    some s!"ok {quantNz q first (acc c)} {intsStr (tab 16 (quantLevel q first (acc c)))}"
  | "k_dequant", [cs, dcq, q] => do
    let c ← parseInts cs
    let dcq ← dcq.toInt?
    let q ← q.toInt?
    if c.size ≠ 16 then none
    some s!"ok {intsStr (tab 16 (dequant dcq q (acc c)))}"
  | "k_yuvrgb", [yuv] => do
    let b ← parseHex yuv
    if b.size % 3 ≠ 0 then none
    let mut out := ByteArray.emptyWithCapacity b.size
    for i in [0:b.size / 3] do
      let y : Int := (b.get! (3*i)).toNat
      let u : Int := (b.get! (3*i+1)).toNat
      let v : Int := (b.get! (3*i+2)).toNat
      match yuvToR y v, yuvToG y u v, yuvToB y u with
      | some r, some g, some bl =>
        out := ((out.push (UInt8.ofNat r.toNat)).push (UInt8.ofNat g.toNat)).push (UInt8.ofNat bl.toNat)
      | _, _, _ => return "panic"
    some s!"ok {bytesHex out}"
  | "k_upsample", [w, topY, botY, topU, topV, botU, botV, aTop, aBot] => do
    let w ← w.toNat?
    let topY ← parseHex topY
    let botY ← optHex botY
    let topU ← parseHex topU
    let topV ← parseHex topV
    let botU ← parseHex botU
    let botV ← parseHex botV
    let aTop ← optHex aTop
    let aBot ← optHex aBot
    let cw := (w + 1) / 2
    if w = 0 ∨ topY.size ≠ w ∨ topU.size ≠ cw ∨ topV.size ≠ cw ∨ botU.size ≠ cw ∨ botV.size ≠ cw then none
    let uv := upsampleUV topU topV botU botV w botY.isSome
    let top := nrgbaRow topY uv.1 aTop w
    match botY with
    | none => some s!"ok {bytesHex top} -"
    | some by_ =>
      if by_.size ≠ w then none
      some s!"ok {bytesHex top} {bytesHex (nrgbaRow by_ uv.2 aBot w)}"
  | "k_sse", [a, b] => do
    let a ← parseHex a
    let b ← parseHex b
    if a.size ≠ b.size then none
    some s!"ok {sse (accB a) (accB b) a.size}"
  | "k_tdisto", [a, b] => do
    let a ← parseHex a
    let b ← parseHex b
    if a.size ≠ 16 ∨ b.size ≠ 16 then none
    some s!"ok {tDisto4x4 (accB a) (accB b)}"
  | "k_tdisto16", [a, b] => do
    let a ← parseHex a
    let b ← parseHex b
    if a.size ≠ 256 ∨ b.size ≠ 256 then none
    let blk := fun (m : ByteArray) (bx by_ : Nat) => fun k => accB m (16 * (4 * by_ + k / 4) + 4 * bx + k % 4)
    let d := (List.range 16).foldl (fun s i => s + tDisto4x4 (blk a (i % 4) (i / 4)) (blk b (i % 4) (i / 4))) 0
    some s!"ok {d}"
  | "k_ttrans", [a] => do
    let a ← parseHex a
    if a.size ≠ 16 then none
    some s!"ok {tTransform (accB a)}"
  | "k_green", [kind, px] => do
    let b ← parseHex px
    if b.size % 4 ≠ 0 then none
    let f ← match kind with
      | "add" => some addGreen
      | "sub" => some subGreen
      | _ => none
    let mut out := ByteArray.emptyWithCapacity b.size
    for i in [0:b.size / 4] do
      out := push32 out (f (le32 b i))
    some s!"ok {bytesHex out}"
  | _, _ => none

end Driver.Kernels
