import Webp.Go.Canon
import Webp.Spec.LTransform
import Webp.Impl.LTransform
/-
  Line-protocol handlers for the VP8L transform layer and value codes (property C01).

  Pixels are 8 hex digits `aarrggbb`; pixel arrays are their concatenation (`-` = empty).
  <tiles> is a pixel array too (predictor mode image, multiplier image, or the palette).

  ltpix <fn> <p> <q> [<r>]            ok <px>        one-pixel functions; when the model has an
                                                      implementation form and a specification form
                                                      both are computed and must agree
        fn = add | sub | avg | select | clampfull | clamphalf | addgreen | subgreen | xcfwd | xcinv
             (unary functions ignore <q>; xcfwd/xcinv take <tileword> <pixel>)
  ltpredict <mode> <L> <T> <TR> <TL>  ok <px>        encoder predictPixel (= spec predict)
  ltfwd <kind> <w> <h> <bits> <tiles> <px>    ok <w'> <pxs>   one forward transform (encoder)
  ltinv <kind> <w> <h> <bits> <tiles> <px>    ok <pxs>        one inverse transform (spec = as coded)
        kind = sg | xc | pred | pal ; <w> is the unpacked width for pal
  ltchainfwd <w> <h> <ts> <px>        ok <w'> <pxs>  forward chain, encoder order
  ltchaininv <w> <h> <ts> <px>        ok <pxs>       inverse chain (REPAIRED applyInverseTransforms = spec)
        <ts> = `-` or `;`-separated `kind:bits:tiles`
  lttab codetoplane | planetocode     ok <hex bytes>
  ltprefix <d>                        ok <sym> <nbits> <value> <decoded>
  ltgetcopy <sym> <extra>             ok <value>
  ltplane <xsize> <dist>              ok <code> <decoded-by-Go-model> <decoded-by-spec>
  ltplanedec <xsize> <code>           ok <dist>      PlaneCodeToDistance as coded, any int code

  A disagreement between an implementation-model form and a specification form inside the Lean
  side is printed as `mismatch …` (it would contradict a theorem of Webp.Props.C01).
-/
namespace Driver.LTransform
open Webp.Go
open Webp.Spec.LTransform (Px Xf)

def hex8 (p : UInt32) : String :=
  toHex [(p >>> 24).toUInt8, (p >>> 16).toUInt8, (p >>> 8).toUInt8, p.toUInt8]

def pxsHex (a : Array UInt32) : String :=
  if a.size = 0 then "-" else
  let b : ByteArray := a.foldl (fun (b : ByteArray) (p : UInt32) =>
    (((b.push (p >>> 24).toUInt8).push (p >>> 16).toUInt8).push (p >>> 8).toUInt8).push p.toUInt8)
    (ByteArray.emptyWithCapacity (4 * a.size))
  toHex b.toList

def parsePxs (s : String) : Option (Array UInt32) := do
  let b ← if s = "-" then some ByteArray.empty else hexToByteArray s
  if b.size % 4 ≠ 0 then none
  else
    let n := b.size / 4
    some (Array.ofFn (n := n) fun i =>
      ((b.get! (4 * i.val)).toUInt32 <<< 24) ||| ((b.get! (4 * i.val + 1)).toUInt32 <<< 16) |||
      ((b.get! (4 * i.val + 2)).toUInt32 <<< 8) ||| (b.get! (4 * i.val + 3)).toUInt32)

def parsePx (s : String) : Option UInt32 := do
  let a ← parsePxs s
  if a.size = 1 then some a[0]! else none

def both (impl spec : UInt32) : String :=
  if impl = spec then "ok " ++ hex8 impl else s!"mismatch impl={hex8 impl} spec={hex8 spec}"

def bothArr (pre : String) (impl spec : Array UInt32) : String :=
  if impl = spec then "ok " ++ pre ++ pxsHex impl
  else s!"mismatch impl={pxsHex impl} spec={pxsHex spec}"

def parseXf (s : String) : Option Xf :=
  match s.splitOn ":" with
  | [k, bits, tiles] => do
    let bits ← bits.toNat?
    let tiles ← parsePxs tiles
    match k with
    | "sg" => some .subtractGreen
    | "xc" => some (.crossColor bits tiles)
    | "pred" => some (.predictor bits tiles)
    | "pal" => some (.colorIndex tiles)
    | _ => none
  | _ => none

def parseXfs (s : String) : Option (List Xf) :=
  if s = "-" then some [] else (s.splitOn ";").mapM parseXf

def finalWidth : List Xf → Nat → Nat
  | [], w => w
  | t :: ts, w => finalWidth ts (t.widthAfter w)

def bytesHex (l : List Nat) : String := toHex (l.map UInt8.ofNat)

def handle (op : String) (args : List String) : Option String :=
  match op, args with
  | "ltpix", fn :: rest => do
    let ps ← rest.mapM parsePx
    match fn, ps with
    | "add", [a, b] => some (both (Webp.Impl.LTransform.addPixels a b) (Webp.Spec.LTransform.addPx a b))
    | "sub", [a, b] => some (both (Webp.Impl.LTransform.subPixels a b) (Webp.Spec.LTransform.subPx a b))
    | "avg", [a, b] => some (both (Webp.Impl.LTransform.average2 a b) (Webp.Spec.LTransform.average2 a b))
    | "select", [l, t, tl] => some (both (Webp.Impl.LTransform.selectPred l t tl) (Webp.Spec.LTransform.select l t tl))
    | "clampfull", [a, b, c] =>
      some (both (Webp.Impl.LTransform.clampAddSubFull a b c) (Webp.Spec.LTransform.clampAddSubFull a b c))
    | "clamphalf", [a, c] =>
      some (both (Webp.Impl.LTransform.clampAddSubHalf a c) (Webp.Spec.LTransform.clampAddSubHalf a c))
    | "addgreen", [p, _] => some (both (Webp.Impl.LTransform.addGreenPx p) (Webp.Spec.LTransform.addGreenPx p))
    | "subgreen", [p, _] => some ("ok " ++ hex8 (Webp.Impl.LTransform.subtractGreenPx p))
    | "xcfwd", [m, p] => some ("ok " ++ hex8 (Webp.Impl.LTransform.applyColorTransformPixel m p))
    | "xcinv", [m, p] =>
      some (both (Webp.Impl.LTransform.colorSpaceInvPx m p) (Webp.Spec.LTransform.crossColorInvPx m p))
    | _, _ => none
  | "ltpredict", [mode, l, t, tr, tl] => do
    let mode ← mode.toNat?
    let l ← parsePx l
    let t ← parsePx t
    let tr ← parsePx tr
    let tl ← parsePx tl
    some (both (Webp.Impl.LTransform.predictPixel mode l t tr tl) (Webp.Spec.LTransform.predict mode l t tr tl))
  | "ltfwd", [kind, w, h, bits, tiles, px] => do
    let w ← w.toNat?
    let h ← h.toNat?
    let t ← parseXf s!"{kind}:{bits}:{tiles}"
    let px ← parsePxs px
    some s!"ok {t.widthAfter w} {pxsHex (Webp.Impl.LTransform.forward1 t w h px)}"
  | "ltinv", [kind, w, h, bits, tiles, px] => do
    let w ← w.toNat?
    let h ← h.toNat?
    let t ← parseXf s!"{kind}:{bits}:{tiles}"
    let px ← parsePxs px
    some (bothArr "" (Webp.Impl.LTransform.inverse1 t w h px) (t.inverse w h px))
  | "ltchainfwd", [w, h, ts, px] => do
    let w ← w.toNat?
    let h ← h.toNat?
    let ts ← parseXfs ts
    let px ← parsePxs px
    some s!"ok {finalWidth ts w} {pxsHex (Webp.Impl.LTransform.applyForward h ts w px)}"
  | "ltchaininv", [w, h, ts, px] => do
    let w ← w.toNat?
    let h ← h.toNat?
    let ts ← parseXfs ts
    let px ← parsePxs px
    some (bothArr "" (Webp.Impl.LTransform.applyInverseTransforms h ts w px)
      (Webp.Spec.LTransform.applyInverse h ts w px))
  | "lttab", ["codetoplane"] => some ("ok " ++ bytesHex Webp.Spec.LTransform.codeToPlane)
  | "lttab", ["planetocode"] =>
    if Webp.Impl.LTransform.planeToCodeLUTInit = Webp.Impl.LTransform.planeToCodeLUT then
      some ("ok " ++ bytesHex Webp.Impl.LTransform.planeToCodeLUT)
    else some "mismatch init"
  | "ltprefix", [d] => do
    let d ← d.toNat?
    let (sym, nb, v) := Webp.Impl.LTransform.prefixEncode d
    let dec := Webp.Impl.LTransform.getCopyDistance sym v
    if Webp.Spec.LTransform.prefixDecode sym v = dec ∧ Webp.Spec.LTransform.prefixExtraBits sym = nb then
      some s!"ok {sym} {nb} {v} {dec}"
    else some "mismatch prefix"
  | "ltgetcopy", [sym, extra] => do
    let sym ← sym.toNat?
    let extra ← extra.toNat?
    some s!"ok {Webp.Impl.LTransform.getCopyDistance sym extra}"
  | "ltplane", [xsize, dist] => do
    let xsize ← xsize.toNat?
    let dist ← dist.toNat?
    if xsize = 0 then none
    else
      let code := Webp.Impl.LTransform.distanceToPlaneCode xsize dist
      some s!"ok {code} {Webp.Impl.LTransform.planeCodeToDistance xsize (code : Nat)} {Webp.Spec.LTransform.planeCodeToDistance xsize code}"
  | "ltplanedec", [xsize, code] => do
    let xsize ← xsize.toNat?
    let code ← code.toInt?
    some s!"ok {Webp.Impl.LTransform.planeCodeToDistance xsize code}"
  | _, _ => none

end Driver.LTransform
