import Driver.BoolCoder
import Webp.Impl.BoolCoderFast
/-
  Line-protocol handlers for the register-cached boolean coder paths (`Webp.Impl.BoolCoderFast`).

    boolbatch <b:bit:prob,…>      `PutBitBatchPacked` (in two calls, like the suite's Go side) then Finish
                                  → the line of `boolenc`
    fastrun <hex> <g:prob | s,…>  `fastBit` / `fastSigned(1)` under the `brLoad` / `brSync` protocol on NewBoolReader(hex)
                                  → `ok <results> st=<value>,<range>,<bits>,<pos>,<eof>` (after `brSync`)
-/
namespace Driver.BoolCoderFast
open Webp.Go Webp.Impl.BoolCoder
open Driver.BoolCoder (outBytes listOf)

def parsePair (s : String) : Option (UInt8 × UInt8) :=
  match s.splitOn ":" with
  | ["b", b, p] => do
      let b ← b.toNat?; let p ← p.toNat?
      if b > 255 ∨ p > 255 then none else pure (UInt8.ofNat b, UInt8.ofNat p)
  | _ => none

def parseFastOp (s : String) : Option (Option Nat) :=
  match s.splitOn ":" with
  | ["g", p] => do let p ← p.toNat?; if p > 255 then none else pure (some p)
  | ["s"] => pure none
  | _ => none

def handle (op : String) (args : List String) : Option String :=
  match op, args with
  | "boolbatch", [ops] => do
      let ps ← listOf parsePair ops
      let data : Bytes := ps.flatMap fun (b, p) => [b, p]
      let h := ps.length / 2
      let w := putBitBatchPacked newWriter data h
      let w := putBitBatchPacked w (data.drop (2 * h)) (ps.length - h : Nat)
      if w.panicked then pure "panic"
      else
        pure s!"ok {outBytes (finish w)} st={w.range},{w.value},{w.run},{w.nbBits},{wpos w},{outBytes w.buf}"
  | "fastrun", [hex, ops] => do
      let data ← hexToBytes hex
      let ops ← listOf parseFastOp ops
      let (res, s) := ops.foldl (fun (acc, s) o =>
        match o with
        | some p => let q := fastBitStep s p; (b2s q.1 :: acc, q.2)
        | none => let q := fastSignedStep s; ((if q.1 then "-1" else "1") :: acc, q.2)) ([], fastOpen (newReader data))
      let r := brSync s
      let body := if res.isEmpty then "-" else joinWith "," res.reverse
      pure s!"ok {body} st={r.value},{r.range},{r.bits},{r.pos},{b2s r.eof}"
  | _, _ => none

end Driver.BoolCoderFast
