import Webp.Go.Canon
import Webp.Impl.Parser
import Webp.Impl.Demux
import Webp.Impl.Config
/-  Line-protocol handlers for the container layer.  -/
namespace Driver.Container
open Webp.Go Webp.Impl

def resLine {ε α} (es : ε → String) (f : α → String) : Res ε α → String
  | .ok a => "ok " ++ f a
  | .err e => "err " ++ es e
  | .panic => "panic"
  | .hang => "hang"

def fmtNat : Parser.Format → Nat
  | .undefined => 0 | .vp8 => 1 | .vp8l => 2 | .vp8x => 3

def pFrame (f : Parser.FrameInfo) : String :=
  s!"{f.xOffset},{f.yOffset},{f.width},{f.height},{f.duration},{b2s f.disposeBG},{b2s f.blendNone},{b2s f.hasAlpha},{b2s f.isLossless},{digestOpt f.payload},{digestOpt f.alphaData}"

def pState (s : Parser.State) : String :=
  let f := s.features
  s!"fmt={fmtNat f.format} w={f.width} h={f.height} alpha={b2s f.hasAlpha} anim={b2s f.hasAnim} iccp={b2s f.hasICCP} exif={b2s f.hasEXIF} xmp={b2s f.hasXMP} loop={f.loopCount} bg={f.bgColor} cw={f.canvasWidth} ch={f.canvasHeight} frames=[{joinWith ";" (s.frames.map pFrame)}] chunks=[{joinWith ";" (s.chunks.map fun c => s!"{c.fourcc}:{digest c.payload}")}]"

def dfmtNat : Demux.Format → Nat
  | .undefined => 0 | .lossy => 1 | .lossless => 2 | .extended => 3

def dFrame (f : Demux.FrameInfo) : String :=
  s!"{f.offsetX},{f.offsetY},{f.width},{f.height},{f.duration},{b2s f.disposeBG},{b2s f.blendNone},{b2s f.hasAlpha},{b2s f.isKeyframe},{digestOpt f.data},{digestOpt f.alphaData}"

def dState (s : Demux.State) : String :=
  let f := s.features
  s!"fmt={dfmtNat f.format} w={f.width} h={f.height} alpha={b2s f.hasAlpha} anim={b2s f.hasAnimation} icc={b2s f.hasICC} exif={b2s f.hasEXIF} xmp={b2s f.hasXMP} loop={s.loopCount} bg={s.bgColor} iccd={digestOpt s.iccData} exifd={digestOpt s.exifData} xmpd={digestOpt s.xmpData} frames=[{joinWith ";" (s.frames.map dFrame)}] chunks=[{joinWith ";" (s.chunks.map fun c => s!"{c.id}:{c.size}:{digest c.data}")}]"

def cmStr : Config.ColorModel → String
  | .nrgba => "NRGBA" | .ycbcr => "YCbCr"

def handle (op : String) (args : List String) : Option String :=
  match op, args with
  | "parser", [h] => (hexToBytes h).map fun b => resLine Parser.Err.toString pState (Parser.parse b)
  | "demux", [h] => (hexToBytes h).map fun b => resLine Demux.Err.toString dState (Demux.parseWith true b)
  | "demux0", [h] => (hexToBytes h).map fun b => resLine Demux.Err.toString dState (Demux.parseWith false b)
  | "features", [h] => (hexToBytes h).map fun b =>
      resLine Parser.Err.toString (fun (f : Config.PubFeatures) =>
        s!"w={f.width} h={f.height} alpha={b2s f.hasAlpha} anim={b2s f.hasAnimation} format={f.format} loop={f.loopCount} frames={f.frameCount}")
        (Config.getFeatures b)
  | "config", [h] => (hexToBytes h).map fun b =>
      resLine Parser.Err.toString (fun (c : Config.ImgConfig) => s!"cm={cmStr c.model} w={c.width} h={c.height}")
        (Config.decodeConfigWith true b)
  | "target", [h] => (hexToBytes h).map fun b =>
      resLine Parser.Err.toString (fun (t : Option Config.DecodeTarget) =>
        match t with
        | none => "noframes"
        | some t => s!"lossless={b2s t.isLossless} payload={digest t.payload} alpha={digest t.alpha} cm={cmStr t.model} w={t.width} h={t.height}")
        (Config.decodeTarget b)
  | _, _ => none

end Driver.Container
