import Webp.Go.Canon
import Webp.Spec.VP8L
/-
  Line-protocol handlers for the VP8L spec decoder.

    vp8l <hex>      → `ok w=<w> h=<h> alpha=<0|1> px=<len:fnv> npx=<len:fnv>` | `err header` | `err bitstream`
                       px  = digest of the pixels serialised R,G,B,A (the layout of Go's NRGBA.Pix);
                       npx = same with every alpha-0 pixel replaced by 00000000
    vp8lpx <hex>    → `ok w=<w> h=<h> alpha=<0|1> px=<hex of the R,G,B,A bytes>` | `err …`
    vp8linfo <hex>  → `ok tf=<chain> cache=<bits> meta=<prefix bits> groups=<n> used=<bytes consumed>`
                       | `err <fine error class>`            (Lean-only: used to classify findings)
-/
namespace Driver.VP8L
open Webp.Go Webp.Spec.VP8L

/-- pixels → bytes R,G,B,A; with `norm`, alpha-0 pixels become four zero bytes -/
def rgbaBytes (px : Array UInt32) (norm : Bool) : ByteArray :=
  px.foldl (fun (b : ByteArray) (p : UInt32) =>
    let p := if norm && chA p == 0 then 0 else p
    (((b.push (chR p).toUInt8).push (chG p).toUInt8).push (chB p).toUInt8).push (chA p).toUInt8)
    (ByteArray.emptyWithCapacity (4 * px.size))

def digestArr (b : ByteArray) : String := s!"{b.size}:{(fnv1aArr b).toNat}"

def hexArr (b : ByteArray) : String :=
  if b.size = 0 then "-" else
  let hd (n : UInt8) : UInt8 := if n < 10 then 48 + n else 87 + n
  let bytes := b.foldl (fun (o : ByteArray) c => (o.push (hd (c >>> 4))).push (hd (c &&& 15)))
    (ByteArray.emptyWithCapacity (2 * b.size))
  (String.fromUTF8? bytes).getD ""

def errCoarse (e : Err) : String := if e.isHeader then "err header" else "err bitstream"

def resLine {α} (es : Err → String) (f : α → String) : Res Err α → String
  | .ok a => "ok " ++ f a
  | .err e => es e
  | .panic => "panic"
  | .hang => "hang"

def tfName : Transform × Nat → String
  | (.predictor bits _, _) => s!"pred{bits}"
  | (.crossColor bits _, _) => s!"cross{bits}"
  | (.subtractGreen, _) => "sg"
  | (.colorIndexing pal, _) => s!"ci{pal.size}p{packingBits pal.size}"

def infoLine (r : StreamInfo × Array UInt32 × BitReader) : String :=
  let (info, _, br) := r
  let tf := if info.transforms.isEmpty then "none" else joinWith "+" (info.transforms.toList.map tfName)
  s!"tf={tf} cache={info.params.cacheBits} meta={info.params.prefixBits} groups={info.params.groups.size} used={(br.pos + 7) / 8}"

def handle (op : String) (args : List String) : Option String :=
  match op, args with
  | "vp8l", [h] => (if h = "-" then some ByteArray.empty else hexToByteArray h).map fun b =>
      resLine errCoarse (fun (img : Image) =>
        s!"w={img.width} h={img.height} alpha={b2s img.hasAlpha} px={digestArr (rgbaBytes img.pixels false)} npx={digestArr (rgbaBytes img.pixels true)}")
        (decode b)
  | "vp8lpx", [h] => (if h = "-" then some ByteArray.empty else hexToByteArray h).map fun b =>
      resLine errCoarse (fun (img : Image) =>
        s!"w={img.width} h={img.height} alpha={b2s img.hasAlpha} px={hexArr (rgbaBytes img.pixels false)}")
        (decode b)
  | "vp8linfo", [h] => (if h = "-" then some ByteArray.empty else hexToByteArray h).map fun b =>
      resLine (fun e => "err " ++ e.toString) infoLine (decodeStream b)
  | _, _ => none

end Driver.VP8L
