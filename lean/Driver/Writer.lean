import Webp.Go.Canon
import Webp.Impl.Writer
import Webp.Spec.RiffStill
import Webp.Spec.VP8Layout
import Webp.Spec.VP8.Header
/-  Line-protocol handlers for the container writers and the VP8 frame assembler (C02/C15).  -/
namespace Driver.Writer
open Webp.Go Webp.Impl

/-- written bytes: full hex up to 4 KiB, `len:fnv1a64` digest above -/
def outBytes (b : Bytes) : String :=
  if b.length > 4096 then "d:" ++ digest b else "x:" ++ toHex b

def resLine : Writer.R Bytes → String
  | .ok b => "ok " ++ outBytes b
  | .err e => "err " ++ e.toString
  | .panic => "panic"
  | .hang => "hang"

/-- `-` and `nil` both denote a zero-length blob (the writers only test `len(x) > 0`) -/
def blob (s : String) : Option Bytes := if s = "nil" then some [] else hexToBytes s

def fourccOf (s : String) : Option Nat := (hexToBytes s).bind fun b =>
  if b.length = 4 then some (le32 b 0) else none

def partsOf (s : String) : Option (List Bytes) :=
  if s = "none" then some [] else (s.splitOn ";").mapM hexToBytes

def optD : Option Bytes → String
  | none => "nil"
  | some b => digest b

def layoutLine (l : Webp.Spec.RiffStill.Layout) : String :=
  s!"ext={b2s l.extended} lossless={b2s l.lossless} image={digest l.image} alpha={optD l.alpha} icc={optD l.icc} exif={optD l.exif} xmp={optD l.xmp} flags={l.flags} cw={l.canvasW} ch={l.canvasH} iw={l.imageW} ih={l.imageH} la={b2s l.vp8lAlpha}"

/-- do the list-based layout reader (`Spec.VP8Layout.splitFrame`, what `assembleFrame_parse` is
    proved against) and the spec decoder's `parseFrameTag` + `partitionBounds` agree on this
    payload (same accept/reject; same dimensions, first-partition size, partition byte ranges)? -/
def layoutAgree (n : Nat) (f : ByteArray) : Bool :=
  let l := f.toList
  let a := Webp.Spec.VP8Layout.splitFrame n l
  let b : Option (Nat × Nat × Nat × List (Nat × Nat)) :=
    match Webp.Spec.VP8.parseFrameTag f with
    | .ok hdr =>
      match Webp.Spec.VP8.partitionBounds f { hdr with numParts := n } with
      | .ok bounds => some (hdr.width, hdr.height, hdr.firstPartSize, bounds.toList)
      | _ => none
    | _ => none
  match a, b with
  | none, none => true
  | some la, some (w, h, p0, bounds) =>
    la.width == w && la.height == h && la.part0.length == p0 &&
      la.part0 == (l.drop 10).take p0 &&
      la.parts == bounds.map (fun (s, e) => (l.take e).drop s)
  | _, _ => false

def handle (op : String) (args : List String) : Option String :=
  match op, args with
  | "wsimple", [fc, bs] => do
      let fc ← fourccOf fc
      let bs ← hexToBytes bs
      pure (resLine (Writer.writeRIFFSimple fc bs))
  | "wext", [fc, bs, al, w, h, icc, exif, xmp] => do
      let fc ← fourccOf fc
      let bs ← hexToBytes bs
      let al ← blob al
      let w ← w.toInt?
      let h ← h.toInt?
      let icc ← blob icc
      let exif ← blob exif
      let xmp ← blob xmp
      pure (resLine (Writer.writeRIFFExtended fc bs al w h icc exif xmp))
  | "wriff", [fc, bs, al, w, h, icc, exif, xmp] => do
      let fc ← fourccOf fc
      let bs ← hexToBytes bs
      let al ← blob al
      let w ← w.toInt?
      let h ← h.toInt?
      let icc ← blob icc
      let exif ← blob exif
      let xmp ← blob xmp
      pure (resLine (Writer.writeRIFF fc bs al w h (some { icc, exif, xmp })))
  | "wriffnil", [fc, bs, al, w, h] => do
      let fc ← fourccOf fc
      let bs ← hexToBytes bs
      let al ← blob al
      let w ← w.toInt?
      let h ← h.toInt?
      pure (resLine (Writer.writeRIFF fc bs al w h none))
  | "wstream", [bs] => do
      let bs ← hexToBytes bs
      pure ("ok " ++ outBytes (Writer.streamingWrite bs))
  | "asmframe", [w, h, p0, ps] => do
      let w ← w.toNat?
      let h ← h.toNat?
      let p0 ← hexToBytes p0
      let ps ← partsOf ps
      pure (resLine (Writer.assembleFrame w h p0 ps))
  | "wfspec", [f] => do
      let f ← hexToBytes f
      pure (match Webp.Spec.RiffStill.wellFormed f with
        | .ok l => "ok " ++ layoutLine l
        | .error e => "err " ++ e.toString)
  | "vp8layoutck", [n, f] => do
      let n ← n.toNat?
      let f ← hexToByteArray f
      pure (if n ≥ 1 ∧ layoutAgree n f then "ok agree" else "err disagree")
  | "vp8layout", [n, f] => do
      let n ← n.toNat?
      let f ← hexToBytes f
      pure (match Webp.Spec.VP8Layout.splitFrame n f with
        | some l => s!"ok w={l.width} h={l.height} part0={digest l.part0} parts=[{joinWith ";" (l.parts.map digest)}]"
        | none => "err layout")
  | _, _ => none

end Driver.Writer
