import Webp.Go.Canon
import Webp.Impl.Alpha
/-
  Line-protocol handlers for the ALPH codec (property C07).  `d` = `len:fnv1a64` of a plane.

  alfilter   <f> <w> <h> <plane>                 ok d                 forward filter f ∈ 0..3
  alunfilter <f> <w> <h> <plane>                 ok d                 inverse filter, in place
  alpack     <method> <filter> <pre>             ok <byte>            header byte
  alhdr      <byte>                              ok method filter pre rsrv accepted
  allevels   <q>                                 ok <n>               level count for AlphaQuality q
  alquant    f64|exact <w> <h> <n> <plane>       ok d n=<distinct> min=<m> max=<M>
  alstream   <w> <h> <payload>                   ok <hex>             alphaVP8LStream
  aldec      <w> <h> <data> <oracle>             ok d | err <class>   DecodeAlpha
             oracle = `-` (VP8L decoder not consulted) | `none` (DecodeVP8L failed)
                    | `<dw>,<dh>,<green plane hex>` (what DecodeVP8L returned for the rebuilt stream)
  alfmap     <mode> <effort> <w> <h> <plane>     ok map=<bits> colors=<n> est=<f>
  alenc      <w> <h> <quality> <method> <mode> <effort> <plane> <o0> <o1> <o2> <o3>
                                                 ok hdr=<byte> d | err <class>      EncodeAlpha
             o_k = `-` | `<q>;<m>;<d of green plane>;<stream hex | x>`: value of lossless.Encode
             for that request (x = error).  A request not in the table answers a 1-byte stream,
             which the model turns into `err trunc` (never produced by Go).
  alextract  <alpha samples>                     ok has=<0|1> nil|d   imageHasAlpha / extractAlpha
-/
namespace Driver.Alpha
open Webp.Go
open Webp.Impl.Alpha

def parsePlane (s : String) : Option Plane :=
  if s = "-" then some #[] else (hexToByteArray s).map (·.data)

def planeDigest (p : Plane) : String := s!"{p.size}:{(fnv1aArr (ByteArray.mk p)).toNat}"

def distinctCount (p : Plane) : Nat := numColors p

def resLine (r : Res Err String) : String :=
  match r with
  | .ok s => "ok " ++ s
  | .err e => "err " ++ e.toString
  | .panic => "panic"
  | .hang => "hang"

def noCodec : Codec := { enc := fun _ _ _ _ _ => none, dec := fun _ => none }

def parseDecOracle (s : String) : Option (Bytes → Option Img) :=
  if s = "-" ∨ s = "none" then some (fun _ => none)
  else match s.splitOn "," with
    | [dw, dh, hex] => do
      let dw ← dw.toNat?
      let dh ← dh.toNat?
      let g ← parsePlane hex
      let img : Img := { w := dw, h := dh, px := g.map embedGreen }
      some (fun _ => some img)
    | _ => none

structure EncEntry where
  q : Nat
  m : Nat
  key : String
  out : Option Bytes

def parseEncEntry (s : String) : Option (Option EncEntry) :=
  if s = "-" then some none
  else match s.splitOn ";" with
    | [q, m, key, hex] => do
      let q ← q.toNat?
      let m ← m.toNat?
      let out ← if hex = "x" then some none else (hexToBytes hex).map some
      some (some { q := q, m := m, key := key, out := out })
    | _ => none

def oracleEnc (tab : List EncEntry) : Nat → Nat → Array UInt32 → Nat → Nat → Option Bytes :=
  fun _ _ argb q m =>
    let key := planeDigest (argb.map greenOf)
    match tab.find? (fun e => e.q = q ∧ e.m = m ∧ e.key = key) with
    | some e => e.out
    | none => some [0xBA]

def handle (op : String) (args : List String) : Option String :=
  match op, args with
  | "alfilter", [f, w, h, p] => do
    let f ← f.toNat?; let w ← w.toNat?; let h ← h.toNat?; let p ← parsePlane p
    if f > 3 ∨ p.size ≠ w * h then none
    else some s!"ok {planeDigest (filter (Filter.ofField f) w h p)}"
  | "alunfilter", [f, w, h, p] => do
    let f ← f.toNat?; let w ← w.toNat?; let h ← h.toNat?; let p ← parsePlane p
    if f > 3 ∨ p.size ≠ w * h then none
    else some s!"ok {planeDigest (unfilter (Filter.ofField f) w h p)}"
  | "alpack", [m, f, p] => do
    let m ← m.toNat?; let f ← f.toNat?; let p ← p.toNat?
    some s!"ok {(packHeader m f p).toNat}"
  | "alhdr", [b] => do
    let b ← b.toNat?
    if b > 255 then none
    else
      let hd := unpackHeader (UInt8.ofNat b)
      some s!"ok {hd.method} {hd.filter} {hd.pre} {hd.rsrv} {b2s (headerAccepted (UInt8.ofNat b))}"
  | "allevels", [q] => do
    let q ← q.toNat?
    some s!"ok {alphaLevels q}"
  | "alquant", [model, w, h, n, p] => do
    let num ← if model = "f64" then some Num.f64 else if model = "exact" then some Num.exact else none
    let w ← w.toNat?; let h ← h.toNat?; let n ← n.toNat?; let p ← parsePlane p
    if p.size ≠ w * h then none
    else
      let r := quantizeLevels num p w h n
      some s!"ok {planeDigest r} n={distinctCount r} min={minOf r.toList} max={maxOf r.toList}"
  | "alstream", [w, h, p] => do
    let w ← w.toNat?; let h ← h.toNat?; let p ← hexToBytes p
    some s!"ok {toHex (alphaVP8LStream p w h)}"
  | "aldec", [w, h, d, o] => do
    let w ← w.toInt?; let h ← h.toInt?; let d ← hexToBytes d; let dec ← parseDecOracle o
    some (resLine ((decodeAlpha { noCodec with dec := dec } d w h).bind fun p => .ok (planeDigest p)))
  | "alfmap", [mode, effort, w, h, p] => do
    let mode ← mode.toInt?; let effort ← effort.toNat?; let w ← w.toNat?; let h ← h.toNat?
    let p ← parsePlane p
    if p.size ≠ w * h then none
    else some s!"ok map={getFilterMap p w h mode effort} colors={numColors p} est={estimateBestFilter p w h}"
  | "alenc", [w, h, q, m, mode, effort, p, o0, o1, o2, o3] => do
    let w ← w.toInt?; let h ← h.toInt?; let q ← q.toInt?; let m ← m.toInt?
    let mode ← mode.toInt?; let effort ← effort.toInt?; let p ← parsePlane p
    let tab ← [o0, o1, o2, o3].mapM parseEncEntry
    let codec : Codec := { noCodec with enc := oracleEnc (tab.filterMap id) }
    let r := encodeAlpha Num.f64 codec p w h { quality := q, method := m, filter := mode, effort := effort }
    some (resLine (r.bind fun b =>
      .ok s!"hdr={(b.headD 0).toNat} {planeDigest b.toArray}"))
  | "alextract", [p] => do
    let p ← parsePlane p
    some s!"ok has={b2s (hasAlpha p)} {match extractAlpha p with | none => "nil" | some a => planeDigest a}"
  | _, _ => none

end Driver.Alpha
