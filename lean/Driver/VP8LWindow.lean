import Webp.Go.Canon
import Webp.Spec.VP8L
import Webp.Impl.VP8LWindow
import Webp.Impl.VP8LWindowCex
import Driver.VP8L
/-
  Line-protocol handlers for the WINDOW BUDGET of the VP8L pixel loop (property C03, suite `vp8lwindow`).

  vwdec <w> <h> <hex>     one entropy-coded image (colour-cache info, five prefix codes, pixel data;
                          what the Go decoder's `decodeSubImage` reads), decoded
                            (m) by the MODEL of the Go loop over the 64-bit window reader:
                                header with the specification's readers, tables with `buildTable 8`
                                (= BuildHuffmanTable), flags / packed table with `mkGroup`
                                (= readHuffmanCodes), the reader brought to the first pixel bit by
                                `ReadBits` calls, then `decodePixelLoop (goSource …)` = `readTokenGo`
                                (one loop iteration WITH its refills) + `stepToken`;
                            (s) by the specification (`decodePixels`);
                            (x) by the model with the two refills of the distance part removed
                                (`noDistFills`, seeded change C03_4).
                          ok <len:fnv of the pixels, 4 bytes A,R,G,B each> fl=<c><p><l> sens=<0|1>  |  err fl=… sens=…
                          `fl`: IsTrivialCode, UsePackedTable, IsTrivialLiteral of the group (which path of the
                          loop body ran); `sens=1`: (x) differs from (m), i.e. the stream exposes a missing refill.
                          `mismatch window` when (m) and (s) disagree (contradicts
                          `Webp.Props.C03Window.decodeImageData_eq_spec_window`).
  vwcex                   ok built=<0|1> codes=<0|1> spec=<tok> go=<tok> nofill=<tok>
                          the data of `window_overrun_without_refill`, evaluated natively:
                          `group` / `codes` are BuildHuffmanTable / buildCode of the ladder vectors.
-/
namespace Driver.VP8LWindow
open Webp.Go Webp.Spec.VP8L Webp.Impl.VP8LEntropy Webp.Impl.VP8LWindow Webp.Impl.VP8LFastPaths

def pxBytes (px : Array UInt32) : ByteArray :=
  px.foldl (fun (b : ByteArray) (p : UInt32) =>
    (((b.push (p >>> 24).toUInt8).push (p >>> 16).toUInt8).push (p >>> 8).toUInt8).push p.toUInt8)
    (ByteArray.emptyWithCapacity (4 * px.size))

/-- bring a fresh reader to bit `P` the way the header parser does: `ReadBits` calls -/
def advanceTo (r : Reader) : (fuel : Nat) → (P : Nat) → Reader
  | 0, _ => r
  | f + 1, P =>
    if P = 0 then r
    else
      let n := if P > 24 then 24 else P
      advanceTo (r.readBits n).2 f (P - n)

/-- the five length vectors of one group -/
def readLens5 (cacheBits : Nat) (br : BitReader) : R (List (Array Nat) × BitReader) := do
  let (lg, br) ← readCodeLengthVector (greenAlphabetSize cacheBits) br
  let (lr, br) ← readCodeLengthVector 256 br
  let (lb, br) ← readCodeLengthVector 256 br
  let (la, br) ← readCodeLengthVector 256 br
  let (ld, br) ← readCodeLengthVector numDistanceCodes br
  pure ([lg, lr, lb, la, ld], br)

/-- the token source with the refills of `fs` -/
def sourceWith (fs : FillSites) (g : HTreeGroup) (width : Nat) : TokenSource Reader where
  next := fun _ r => readTokenWith fs g width r

def pixelsOf {σ : Type} : Res Err (Array UInt32 × σ) → Option (Array UInt32)
  | .ok (px, _) => some px
  | _ => none

def isBad {α : Type} : Res Err α → Bool
  | .panic => true
  | .hang => true
  | _ => false

def tokStr : Option Token → String
  | some (.literal a) => s!"l{a.toNat}"
  | some (.copy l d) => s!"c{l}:{d}"
  | some (.cache i) => s!"k{i}"
  | none => "none"

def decodeLine (w h : Nat) (data : ByteArray) : String :=
  let hdr : R ((Nat × List (Array Nat)) × BitReader) := do
    let (cb, br) ← readColorCacheInfo { data }
    let (ls, br) ← readLens5 cb br
    pure ((cb, ls), br)
  match hdr with
  | .ok ((cb, [lg, lr, lb, la, ld]), br) =>
    match buildCode lg, buildCode lr, buildCode lb, buildCode la, buildCode ld,
          buildTable 8 lg, buildTable 8 lr, buildTable 8 lb, buildTable 8 la, buildTable 8 ld with
    | .ok cg, .ok cr, .ok cbl, .ok ca, .ok cd, .ok tg, .ok tr, .ok tb, .ok ta, .ok td =>
      let G : Group := { green := cg, red := cr, blue := cbl, alpha := ca, dist := cd }
      let g := mkGroup ⟨tg, tr, tb, ta, td⟩ ⟨maxLenOf lg, maxLenOf lr, maxLenOf lb, maxLenOf la, maxLenOf ld⟩
      let r := advanceTo (Reader.new data.data) (br.pos / 24 + 2) br.pos
      let p : LoopParams := { width := w, height := h, cacheBits := cb, numGroups := 1 }
      let m := decodePixelLoop (goSource #[g] w) p r
      let s := decodePixels { width := w, height := h, cacheBits := cb, groups := #[G] } br
      let x := decodePixelLoop (sourceWith noDistFills g w) p r
      if isBad m then "panic"
      else if pixelsOf m != pixelsOf s then "mismatch window"
      else
        let sens := b2s (pixelsOf x != pixelsOf m)
        let fl := b2s g.isTrivialCode ++ b2s g.usePackedTable ++ b2s g.isTrivialLiteral
        match pixelsOf m with
        | some px => s!"ok {Driver.VP8L.digestArr (pxBytes px)} fl={fl} sens={sens}"
        | none => s!"err fl={fl} sens={sens}"
    | .ok _, .ok _, .ok _, .ok _, .ok _, _, _, _, _, _ => "mismatch accept"
    | _, _, _, _, _, _, _, _, _, _ => "err fl=--- sens=0"
  | .ok _ => "bad-op"
  | .err _ => "err fl=--- sens=0"
  | .panic => "panic"
  | .hang => "hang"

open Webp.Impl.VP8LWindowCex in
def cexLine : String :=
  let r := (Reader.new stream).advance 31
  s!"ok built={b2s groupIsBuilt} codes={b2s codesAreBuilt} " ++
  s!"spec={tokStr (tokOf (readToken codes 64 { data := ⟨stream⟩, pos := 31 }))} " ++
  s!"go={tokStr (tokOf (readTokenGo group 64 r))} nofill={tokStr (tokOf (readTokenWith noDistFills group 64 r))}"

def handle (op : String) (args : List String) : Option String :=
  match op, args with
  | "vwdec", [w, h, hex] => do
    let w ← w.toNat?
    let h ← h.toNat?
    let data ← if hex = "-" then some ByteArray.empty else hexToByteArray hex
    some (decodeLine w h data)
  | "vwcex", [] => some cexLine
  | _, _ => none

end Driver.VP8LWindow
