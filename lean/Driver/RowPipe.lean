import Webp.Impl.RowPipe
/-
  Line-protocol handler for row-pipeline event traces (C10 tie (ii): traces recorded by the
  `verif` hooks of `encodeFrameParallel` are replayed against the guards of `Impl.RowPipe`).

    pipetrace        <mbW> <mbH> <events>   →  `ok` | `bad <index of first offending event>`
    pipetrace-strict <mbW> <mbH> <events>   →  same, claims must also be in ticket order

  `<events>` is `-` (no event) or a `;`-separated list of
    `c:<w>:<y>`      worker w claimed row y (`y ≥ mbH`: the worker returns)
    `p:<w>:<y>:<x>`  worker w is past `waitFor` for macroblock (y,x) (logged before `signal`)
    `r:<y>`          Phase B is past `waitFor(y, mbW)`
  A syntactically malformed line answers `bad-op` (handler returns `none`).
-/
namespace Driver.RowPipe
open Webp.Impl.RowPipe

def parseEvent (s : String) : Option Event :=
  match s.splitOn ":" with
  | ["c", w, y] => do pure (.claim (← w.toNat?) (← y.toNat?))
  | ["p", w, y, x] => do pure (.proc (← w.toNat?) (← y.toNat?) (← x.toNat?))
  | ["r", y] => do pure (.record (← y.toNat?))
  | _ => none

def parseEvents (s : String) : Option (List Event) :=
  if s = "-" then some [] else (s.splitOn ";").mapM parseEvent

def answer (strict : Bool) (mbW mbH evs : String) : Option String := do
  let w ← mbW.toNat?
  let h ← mbH.toNat?
  let es ← parseEvents evs
  match firstBad strict w h es with
  | none => pure "ok"
  | some i => pure s!"bad {i}"

def handle (op : String) (args : List String) : Option String :=
  match op, args with
  | "pipetrace", [mbW, mbH, evs] => answer false mbW mbH evs
  | "pipetrace-strict", [mbW, mbH, evs] => answer true mbW mbH evs
  | _, _ => none

end Driver.RowPipe
