import Driver.VP8LWindow
import Webp.Impl.VP8LWindow2
/-
  Line-protocol handler for PREFIX-CODE READING on the window reader (property C03, suite `vp8lwindow`,
  leg `codes`).

  vwdec2 <w> <h> <hex>    one entropy-coded image decoded by the MODEL of the Go decoder FROM THE FIRST
                          BIT on the 64-bit window reader: colour-cache info by `ReadBits`, the five
                          prefix codes by `readHuffmanCodeGo` (= readHuffmanCode / readHuffmanCodeLengths
                          with their FillBitWindow / ReadBits pattern, BuildHuffmanTable), flags by
                          `mkGroup`, pixels by `decodePixelLoop (goSource …)`; next to it the
                          specification (`readEntropyCodedImage`).
                          ok <len:fnv of the pixels> | err ; `mismatch codes` when model and specification
                          disagree on success or on the pixels.
-/
namespace Driver.VP8LWindow2
open Webp.Go Webp.Spec.VP8L Webp.Impl.VP8LEntropy Webp.Impl.VP8LWindow Webp.Impl.VP8LFastPaths

def decodeGo (w h : Nat) (data : ByteArray) : Res Err (Array UInt32) :=
  match decodeEntropyImageGo w h (Reader.new data.data) with
  | .ok (px, _) => .ok px
  | .err e => .err e
  | .panic => .panic
  | .hang => .hang

def handle (op : String) (args : List String) : Option String :=
  match op, args with
  | "vwdec2", [w, h, hex] => do
    let w ← w.toNat?
    let h ← h.toNat?
    let data ← if hex = "-" then some ByteArray.empty else hexToByteArray hex
    let m := decodeGo w h data
    let s := readEntropyCodedImage w h { data }
    match m, s with
    | .ok px, .ok (px', _) =>
      if px == px' then some s!"ok {Driver.VP8L.digestArr (Driver.VP8LWindow.pxBytes px)}" else some "mismatch codes"
    | .err _, .err _ => some "err"
    | .panic, _ => some "panic"
    | .hang, _ => some "hang"
    | _, _ => some "mismatch codes"
  | _, _ => none

end Driver.VP8LWindow2
