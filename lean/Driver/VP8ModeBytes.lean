import Driver.VP8HeaderBytes
/-
  Line-protocol handlers for the MODE side of partition 0 at byte level (C06 / C04):

    bmodeprob <top> <left> <i>     → `ok <p>`   the byte `probOfTables` resolves the slot `.bmode top left i` to
                                                (Go's `KBModesProba[top][left][i]`)
    modeemit <mbW> <mbH> <useSeg,updMap> <sp×3> <useSkip,skipProba> <mb;mb;…>
             mb = `isI4,i16mode,uvmode,segment,skip,m0,…,m15`
        → `ok <x:hex | d:len:fnv>`   partition 0 of a frame with a default header (`ResetProba`, one partition) and these
          macroblock modes: `headerOps`, then `emitMBs …`.part0 (`writeMBModes`), `Finish`
    modeparse <width> <height> <part0 hex>
        → `ok <isI4:m0,…,m15:uvmode:segment:skip;…> eof=<0|1>`   `T.parseHeader`, then `T.parseModes` for every macroblock
          in raster order on the reader model (`parseIntraModeRow`), with the probability function of the parsed header
-/
namespace Driver.VP8ModeBytes
open Webp.Go Webp.Impl.VP8Recon Webp.Impl.VP8SyntaxBytes Webp.Impl.VP8HeaderBytes Webp.Impl.BoolCoder
open Driver.VP8Recon (parseInts)
open Driver.VP8HeaderBytes (outBytes freshDec)

def mbLine (m : MBModes) : String :=
  s!"{b2s m.isI4}:{joinWith "," ((List.finRange 16).map fun b => toString (m.imodes b))}:{m.uvmode}:{m.segment}:{b2s m.skip}"

def parseModesFrame (w h : Nat) (part0 : Bytes) : String := Id.run do
  match runR fixedProb (T.parseHeader freshDec) (newReader part0) with
  | none => return "err parse"
  | some (hd, r0) =>
    let mbW := mbCount w
    let mbH := mbCount h
    let prob := hd.prob
    let mut r := r0
    let mut top : Array (Fin 4 → Nat) := Array.replicate mbW (fun _ => 0)
    let mut col : Array (Fin 16 → Nat) := Array.replicate mbW (fun _ => 0)
    let mut out : Array String := Array.mkEmpty (mbW * mbH)
    let mut bad := false
    for _y in [0:mbH] do
      let mut left : Fin 4 → Nat := fun _ => 0
      for x in [0:mbW] do
        let ctx : ModeCtx := { top := top.getD x (fun _ => 0), left := left }
        match runR prob (T.parseModes hd.seg.updateMap hd.useSkipProba (col.getD x (fun _ => 0)) ctx) r with
        | none => bad := true
        | some ((m, c'), r') =>
          r := r'
          -- freeze the functions (keeps closures shallow)
          let tl := (List.finRange 4).map c'.top
          let ll := (List.finRange 4).map c'.left
          let ml := (List.finRange 16).map m.imodes
          top := top.set! x (fun i => tl.getD i.val 0)
          left := fun i => ll.getD i.val 0
          col := col.set! x (fun b => ml.getD b.val 0)
          out := out.push (mbLine { m with imodes := fun b => ml.getD b.val 0 })
    if bad then return "err parse"
    return s!"ok {joinWith ";" out.toList} eof={b2s r.eof}"

def parseMB (s : String) : Option MBDesc := do
  let v ← parseInts s
  if v.length ≠ 21 then none
  let skip := v.getD 4 0 != 0
  pure { isI4 := v.getD 0 0 != 0, i16mode := (v.getD 1 0).toNat, uvmode := (v.getD 2 0).toNat
         segment := (v.getD 3 0).toNat
         i4modes := fun b => (v.getD (5 + b.val) 0).toNat
         -- one chroma coefficient unless the macroblock is to be skipped
         levels := fun b i => if !skip && b = 16 && i.val = 0 then 1 else 0 }

def handle (op : String) (args : List String) : Option String :=
  match op, args with
  | "bmodeprob", [t, l, i] => do
      let t ← t.toNat?; let l ← l.toNat?; let i ← i.toNat?
      pure s!"ok {(probOfTables [] false (fun _ => 255) false 0 (.bmode t l i)).toNat}"
  | "modeemit", [w, h, sg, sp, sk, mbs] => do
      let w ← w.toNat?; let h ← h.toNat?
      let sg ← parseInts sg; let sp ← parseInts sp; let sk ← parseInts sk
      let mbs ← (mbs.splitOn ";").mapM parseMB
      if sg.length ≠ 2 ∨ sp.length ≠ 3 ∨ sk.length ≠ 2 ∨ mbs.length ≠ w * h ∨ w = 0 ∨ h = 0 then none
      let arr := mbs.toArray
      let dflt : MBDesc := { isI4 := false, i16mode := 0, i4modes := fun _ => 0, uvmode := 0, segment := 0, levels := fun _ _ => 0 }
      let hdr : EncHeader :=
        { seg := { useSegment := sg.getD 0 0 != 0, updateMap := sg.getD 1 0 != 0, absoluteDelta := false
                   quantizer := fun _ => 0, filterStrength := fun _ => 0
                   segProbs := fun i => UInt8.ofNat (sp.getD i.val 0).toNat }
          filt := { simple := false, level := 0, sharpness := 0, useLFDelta := false, refLFDelta := fun _ => 0
                    modeLFDelta := fun _ => 0 }
          numParts := 1, baseQ := 0, dqY1DC := 0, dqY2DC := 0, dqY2AC := 0, dqUVDC := 0, dqUVAC := 0
          coef := defaultCoef, useSkip := sk.getD 0 0 != 0, skipProba := UInt8.ofNat (sk.getD 1 0).toNat }
      let fs : FrameSyntax :=
        { mbW := w, numParts := 1, updateMap := hdr.seg.useSegment && hdr.seg.updateMap, useSkip := hdr.useSkip }
      let S := emitMBs (fun k => arr.getD k dflt) fs (List.range (w * h)) TokCtx.init
      pure s!"ok {outBytes (emitPartitionBytes hdr.prob (headerOps hdr) S.part0)}"
  | "modeparse", [w, h, hex] => do
      let w ← w.toNat?; let h ← h.toNat?
      let b ← hexToBytes hex
      pure (parseModesFrame w h b)
  | _, _ => none

end Driver.VP8ModeBytes
