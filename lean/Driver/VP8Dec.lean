import Webp.Go.Canon
import Webp.Impl.VP8DecFilter
import Webp.Impl.VP8DecEdges
/-
  Line-protocol handler for the VP8 decoder's loop-filter parameters (C04: `Webp.Impl.VP8DecFilter`).

    fstr <level> <sharp> <useDelta> <ref0> <mode0> <useSeg> <abs> <fs0,fs1,fs2,fs3> <simple>
        `precomputeFilterStrengths` on a fresh decoder whose headers hold these values
        (`filterType` as `parseFilterHeader` sets it)
        → `ok <limit>,<ilevel>,<hev>,<inner>;…` for (segment 0, i4x4 0), (0, 1), (1, 0), … (3, 1)

    dofilter <filterType> <limit> <ilevel> <hev> <inner> <mbX> <mbY> <yStride> <uvStride> <y> <u> <v>
        `doFilter(mbX, mbY)` (`Webp.Impl.VP8DecEdges.doFilter`) on the three cache planes (hex)
        → `ok <y> <u> <v>` (each `x:<hex>` up to 4096 bytes, else `d:<len>:<fnv1a>`)
-/
namespace Driver.VP8Dec
open Webp.Impl.VP8DecFilter

def b01 (b : Bool) : String := if b then "1" else "0"

def parseBool (s : String) : Option Bool := if s = "1" then some true else if s = "0" then some false else none

def showInfo (f : FInfo) : String := s!"{f.fLimit},{f.fILevel},{f.hevThresh},{b01 f.fInner}"

def handle (op : String) (args : List String) : Option String :=
  match op, args with
  | "fstr", [level, sharp, useDelta, ref0, mode0, useSeg, abs, fs, simple] => do
    let level ← level.toInt?
    let sharp ← sharp.toInt?
    let useDelta ← parseBool useDelta
    let ref0 ← ref0.toInt?
    let mode0 ← mode0.toInt?
    let useSeg ← parseBool useSeg
    let abs ← parseBool abs
    let simple ← parseBool simple
    let fsl ← (fs.splitOn ",").mapM String.toInt?
    if fsl.length ≠ 4 then none
    let hdr : FilterHdr := { level, sharpness := sharp, useLFDelta := useDelta, refLFDelta0 := ref0, modeLFDelta0 := mode0 }
    let seg : SegHdr := { useSegment := useSeg, absoluteDelta := abs, filterStrength := fun s => fsl.getD s 0 }
    let tab := precompute seg hdr (filterTypeOf level simple) (fun _ _ => {})
    let cells := (List.range 4).flatMap fun s => [showInfo (tab s false), showInfo (tab s true)]
    some ("ok " ++ ";".intercalate cells)
  | "dofilter", [ft, limit, ilevel, hev, inner, mbX, mbY, ybps, uvbps, y, u, v] => do
    let ft ← ft.toNat?
    let limit ← limit.toNat?
    let ilevel ← ilevel.toNat?
    let hev ← hev.toNat?
    let inner ← parseBool inner
    let mbX ← mbX.toNat?
    let mbY ← mbY.toNat?
    let ybps ← ybps.toNat?
    let uvbps ← uvbps.toNat?
    let y ← Webp.Go.hexToByteArray y
    let u ← Webp.Go.hexToByteArray u
    let v ← Webp.Go.hexToByteArray v
    let r := Webp.Impl.VP8DecEdges.doFilter ft { limit, ilevel, hevT := hev, inner } mbX mbY ybps uvbps y u v
    let out (b : ByteArray) : String :=
      if b.size > 4096 then "d:" ++ Webp.Go.digest b.toList else "x:" ++ Webp.Go.toHex b.toList
    some s!"ok {out r.1} {out r.2.1} {out r.2.2}"
  | _, _ => none

end Driver.VP8Dec
