import Webp.Go.Canon
import Webp.Spec.VP8
/-
  Line-protocol handlers for the VP8 key-frame spec decoder.

    vp8 <hex> [conv]       → `ok w=<w> h=<h> y=<len:fnv> u=<len:fnv> v=<len:fnv>` | `err header` | `err truncated`
                              planes cropped to w×h (chroma ⌈w/2⌉×⌈h/2⌉), rows packed; loop filter applied
    vp8raw <hex> [conv]    → same line for the reconstruction before the loop filter
    vp8px <hex> [conv]     → `ok w= h= y=<hex> u=<hex> v=<hex>` (filtered planes in full; to locate a difference)
    vp8rawpx <hex> [conv]  → same, unfiltered
    vp8nrgba <hex> <alphahex|-> → `ok w= h= px=<len:fnv>`: R,G,B,A bytes after fancy upsampling + YUV→RGB;
                              alpha plane raw (w·h bytes), `-` = all 255
    vp8info <hex>          → `ok …` header summary, mode histograms, digest of the per-macroblock records,
                              over-read flags | `err <fine class>`           (Lean-only: classifies findings)
    vp8mb <hex> <index>    → the record of one macroblock (modes, segment, skip, eobs, filter parameters)
    vp8tables              → digest of every constant table (values as 16-bit little-endian)

  `conv` is a string of letters selecting *other readings* of the format (see `Webp.Spec.VP8.Conv`):
  `c` no clamp of the segment filter level before the deltas, `a` absolute segment values by default,
  `n` inner-edge skip by coefficient value, `k` inner-edge skip by the skip flag only,
  `s` 16-bit SIMD lanes in the inverse DCT; `-` or absent = the specification.
-/
namespace Driver.VP8
open Webp.Go Webp.Spec.VP8

def digestArr (b : ByteArray) : String := s!"{b.size}:{(fnv1aArr b).toNat}"

def hexArr (b : ByteArray) : String :=
  if b.size = 0 then "-" else
  let hd (n : UInt8) : UInt8 := if n < 10 then 48 + n else 87 + n
  let bytes := b.foldl (fun (o : ByteArray) c => (o.push (hd (c >>> 4))).push (hd (c &&& 15)))
    (ByteArray.emptyWithCapacity (2 * b.size))
  (String.fromUTF8? bytes).getD ""

def errCoarse (e : Err) : String := if e.isTruncated then "err truncated" else "err header"

def resLine {α} (es : Err → String) (f : α → String) : Res Err α → String
  | .ok a => "ok " ++ f a
  | .err e => es e
  | .panic => "panic"
  | .hang => "hang"

def parseConv (s : String) : Conv :=
  { lfClampSegLevel := !s.contains 'c', segDefaultAbsolute := s.contains 'a',
    innerSkipByValue := s.contains 'n', idctSimd16 := s.contains 's',
    innerSkipByFlagOnly := s.contains 'k' }

def bytesArg (h : String) : Option ByteArray :=
  if h = "-" then some ByteArray.empty else hexToByteArray h

def frameLine (f : Frame) : String :=
  s!"w={f.width} h={f.height} y={digestArr f.y} u={digestArr f.u} v={digestArr f.v}"

def framePx (f : Frame) : String :=
  s!"w={f.width} h={f.height} y={hexArr f.y} u={hexArr f.u} v={hexArr f.v}"

def ints (a : Array Int) : String := joinWith "," (a.toList.map toString)
def nats (a : Array Nat) : String := joinWith "," (a.toList.map toString)

def hist (n : Nat) (xs : List Nat) : String :=
  nats ((Array.range n).map fun k => (xs.filter (· = k)).length)

/-- one macroblock record as bytes (for the digest) -/
def mbBytes (m : MBInfo) : ByteArray := Id.run do
  let mut o := ByteArray.empty
  o := o.push m.segment.toUInt8
  o := o.push (if m.skip then 1 else 0)
  o := o.push m.ymode.toUInt8
  for x in m.bmodes do o := o.push x.toUInt8
  o := o.push m.uvmode.toUInt8
  for e in m.eobs do o := o.push e.toUInt8
  return o

def infoLine (r : Decoded) : String :=
  let h := r.hdr
  let mbs := r.mbs.toList
  let bp := mbs.filter (·.ymode = B_PRED)
  let recs := r.mbs.foldl (fun (o : ByteArray) m => o ++ mbBytes m) ByteArray.empty
  joinWith " " [
    s!"w={h.width} h={h.height} ver={h.version} xs={h.xScale} ys={h.yScale} cs={h.colorSpace} clamp={h.clampType}",
    s!"seg={b2s h.seg.enabled} segmap={b2s h.seg.updateMap} segdata={b2s h.seg.updateData} segabs={b2s h.seg.absolute}",
    s!"sq={ints h.seg.quant} sl={ints h.seg.lfLevel} sp={nats h.seg.treeProbs}",
    s!"simple={b2s h.filter.simple} level={h.filter.level} sharp={h.filter.sharpness} lfdelta={b2s h.filter.deltaEnabled}",
    s!"ref={ints h.filter.refDelta} mode={ints h.filter.modeDelta}",
    s!"parts={h.numParts} q={h.quant.yacQi} dq={h.quant.ydcDelta},{h.quant.y2dcDelta},{h.quant.y2acDelta},{h.quant.uvdcDelta},{h.quant.uvacDelta}",
    s!"refresh={b2s h.refreshEntropy} probupd={h.probUpdates} skipen={b2s h.skipEnabled} pskip={h.probSkipFalse}",
    s!"mbs={r.mbs.size} ymodes={hist 5 (mbs.map (·.ymode))} uvmodes={hist 4 (mbs.map (·.uvmode))}",
    s!"bmodes={hist 10 (bp.flatMap (·.bmodes.toList))} segs={hist 4 (mbs.map (·.segment))}",
    s!"skips={(mbs.filter (·.skip)).length} coded={(mbs.filter (·.coded ≠ 0)).length}",
    s!"nzdiff={((List.range r.mbs.size).filter fun i => decide ((r.mbs.getD i {}).coded ≠ 0) != r.nzByValue.getD i false).length}",
    s!"big={(r.bigCoeff.toList.filter id).length}",
    s!"used0={r.usedFirst}/{h.firstPartSize} over0={b2s r.overFirst} overtok={joinWith "," (r.overToken.toList.map b2s)}",
    s!"ff={b2s (r.ffFirst || r.ffToken.any id)}",
    s!"partlen={joinWith "," (r.partBounds.toList.map fun se => toString (se.2 - se.1))}",
    s!"recs={digestArr recs}"]

def mbLine (r : Decoded) (i : Nat) : String :=
  match r.mbs[i]? with
  | none => "none"
  | some m =>
    let fp := filterParams r.hdr {} m
    s!"mb={i} x={i % r.hdr.mbW} y={i / r.hdr.mbW} seg={m.segment} skip={b2s m.skip} ymode={m.ymode} bmodes={nats m.bmodes} uvmode={m.uvmode} coded={m.coded} eobs={nats m.eobs} nzv={b2s (r.nzByValue.getD i false)} big={b2s (r.bigCoeff.getD i false)} level={fp.level} interior={fp.interior} hev={fp.hevThreshold} inner={b2s (filterInner m)}"

/-- table values as 16-bit little-endian bytes -/
def tableBytes (t : Array Nat) : ByteArray :=
  t.foldl (fun (o : ByteArray) v => (o.push (v % 256).toUInt8).push (v / 256).toUInt8) ByteArray.empty

def tablesLine : String :=
  let d (t : Array Nat) : String := digestArr (tableBytes t)
  let cats := Tables.pcat1 ++ #[0] ++ Tables.pcat2 ++ #[0] ++ Tables.pcat3 ++ #[0] ++ Tables.pcat4 ++ #[0]
    ++ Tables.pcat5 ++ #[0] ++ Tables.pcat6 ++ #[0]
  s!"ok coeff={d Tables.defaultCoeffProbs} upd={d Tables.coeffUpdateProbs} bmode={d Tables.kfBModeProbs} ymode={d Tables.kfYModeProbs} uvmode={d Tables.kfUVModeProbs} dc={d Tables.dcQLookup} ac={d Tables.acQLookup} zigzag={d Tables.zigzag} bands={d Tables.coeffBands} cat={d cats}"

def handle (op : String) (args : List String) : Option String :=
  let conv (rest : List String) : Option Conv :=
    match rest with
    | [] => some {}
    | [c] => some (parseConv c)
    | _ => none
  match op, args with
  | "vp8", h :: rest => do
      let b ← bytesArg h; let cv ← conv rest
      pure (resLine errCoarse frameLine (decodeWith cv b))
  | "vp8raw", h :: rest => do
      let b ← bytesArg h; let cv ← conv rest
      pure (resLine errCoarse frameLine (decodeUnfilteredWith cv b))
  | "vp8px", h :: rest => do
      let b ← bytesArg h; let cv ← conv rest
      pure (resLine errCoarse framePx (decodeWith cv b))
  | "vp8rawpx", h :: rest => do
      let b ← bytesArg h; let cv ← conv rest
      pure (resLine errCoarse framePx (decodeUnfilteredWith cv b))
  | "vp8nrgba", [h, a] => do
      let b ← bytesArg h
      let al ← if a = "-" then some none else (hexToByteArray a).map some
      pure (resLine errCoarse (fun (f : Frame) =>
        match al with
        | some p =>
          if p.size ≠ f.width * f.height then "badalpha"
          else s!"w={f.width} h={f.height} px={digestArr (Webp.Spec.Upsample.toNRGBA f al)}"
        | none => s!"w={f.width} h={f.height} px={digestArr (Webp.Spec.Upsample.toNRGBA f none)}") (decode b))
  | "vp8info", [h] => do
      let b ← bytesArg h
      pure (resLine (fun e => "err " ++ e.toString) infoLine (decodeInfo b))
  | "vp8mb", [h, i] => do
      let b ← bytesArg h; let i ← i.toNat?
      pure (resLine (fun e => "err " ++ e.toString) (fun r => mbLine r i) (decodeInfo b))
  | "vp8tables", [] => some tablesLine
  | _, _ => none

end Driver.VP8
