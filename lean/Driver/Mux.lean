import Webp.Go.Canon
import Webp.Impl.Mux
import Webp.Spec.Riff
/-
  Line-protocol handlers for the muxer model and the RIFF walker.

  `mux <ops>`     <ops> = `-` (no call) or `;`-separated calls:
                    AF:<hex>:<dur>:<ox>:<oy>:<blend>:<dispose>   AddFrame(data, &FrameOptions{…})
                    AF0:<hex>                                    AddFrame(data, nil)
                    DM:<i>:<m>   SetFrameDisposeMode     DU:<i>:<ms>  SetFrameDuration
                    LC:<n>       SetLoopCount            CS:<w>:<h>   SetCanvasSize
                    BG:<n>       SetBackgroundColor
                    IC:<blob>  EX:<blob>  XM:<blob>      SetICCProfile / SetEXIF / SetXMP
                    AC:<id>:<blob>                       AddChunk(id, blob)
                  <hex> = lower-case hex, `-` = empty; <blob> = `nil` | `-` (empty, non-nil) | hex;
                  integers in decimal with optional `-` sign.
                  answer: `ok <bytes> n=<NumFrames> e=<per-call error bits>` or
                          `err <class> n=… e=…`; <bytes> = `hex=<hex>` up to 4 KiB else `dig=<len:fnv>`.
  `riffwf <hex>`  `ok <canonical layout>` | `err <why-class>` from `Spec.Riff.wellFormed`.
-/
namespace Driver.Mux
open Webp.Go Webp.Impl Webp.Impl.Mux

def parseBlob (s : String) : Option (Option Bytes) :=
  if s = "nil" then some none else (hexToBytes s).map some

def parseOp (s : String) : Option MuxOp :=
  match s.splitOn ":" with
  | ["AF", h, d, ox, oy, b, dm] => do
    let data ← hexToBytes h
    let d ← d.toInt?; let ox ← ox.toInt?; let oy ← oy.toInt?; let b ← b.toInt?; let dm ← dm.toInt?
    pure (.addFrame data (some { duration := d, offsetX := ox, offsetY := oy, blendMode := b, disposeMode := dm }))
  | ["AF0", h] => do
    let data ← hexToBytes h
    pure (.addFrame data none)
  | ["DM", i, m] => do pure (.setFrameDisposeMode (← i.toInt?) (← m.toInt?))
  | ["DU", i, m] => do pure (.setFrameDuration (← i.toInt?) (← m.toInt?))
  | ["LC", n] => do pure (.setLoopCount (← n.toInt?))
  | ["CS", w, h] => do pure (.setCanvasSize (← w.toInt?) (← h.toInt?))
  | ["BG", n] => do pure (.setBackgroundColor (← n.toNat?))
  | ["IC", b] => do pure (.setICCProfile (← parseBlob b))
  | ["EX", b] => do pure (.setEXIF (← parseBlob b))
  | ["XM", b] => do pure (.setXMP (← parseBlob b))
  | ["AC", id, b] => do pure (.addChunk (← id.toNat?) (← parseBlob b))
  | _ => none

def parseOps (s : String) : Option (List MuxOp) :=
  if s = "-" then some [] else (s.splitOn ";").mapM parseOp

def bytesField (b : Bytes) : String :=
  if b.length ≤ 4096 then "hex=" ++ (if b.isEmpty then "-" else toHex b) else "dig=" ++ digest b

def muxLine (ops : List MuxOp) : String :=
  let s := run ops
  let errs := runErrs {} ops
  let e := if errs.isEmpty then "-" else String.join (errs.map fun x => if x.isSome then "1" else "0")
  let tail := s!" n={s.frames.length} e={e}"
  match assemble s with
  | .ok b => "ok " ++ bytesField b ++ tail
  | .err er => "err " ++ er.toString ++ tail
  | .panic => "panic"
  | .hang => "hang"

open Webp.Spec.Riff in
def layoutLine (l : Layout) : String :=
  let fr (f : FrameLayout) : String :=
    s!"{f.offsetX},{f.offsetY},{f.width},{f.height},{f.duration},{b2s f.blendNone},{b2s f.disposeBG},{b2s f.lossless},{digestOpt f.alpha},{digest f.bitstream}"
  s!"ext={b2s l.extended} cw={l.canvasW} ch={l.canvasH} alpha={b2s l.hasAlpha} anim={b2s l.animated} loop={l.loopCount} bg={l.bgColor} icc={digestOpt l.icc} exif={digestOpt l.exif} xmp={digestOpt l.xmp} frames=[{joinWith ";" (l.frames.map fr)}]"

def handle (op : String) (args : List String) : Option String :=
  match op, args with
  | "mux", [o] => (parseOps o).map muxLine
  | "riffwf", [h] => (hexToBytes h).map fun b =>
      match Webp.Spec.Riff.wellFormed b with
      | .ok l => "ok " ++ layoutLine l
      | .error e => "err " ++ e
  | _, _ => none

end Driver.Mux
