import Webp.Go.Canon
import Webp.Impl.BoolCoder
import Webp.Spec.VP8.Bool
/-
  Line-protocol handlers for the VP8 boolean coder (C06 / C02 / C04: `Webp.Impl.BoolCoder`).

    boolenc  <wops>          run the writer ops on a fresh BoolWriter, then Finish
                             → `ok <bytes> st=<range>,<value>,<run>,<nbBits>,<pos-bits>,<Bytes() before Finish>` | `panic`
    booldec  <hex> <rops>    run the reader ops on NewBoolReader(hex)
                             → `ok <results> st=<value>,<range>,<bits>,<pos>,<eof>`
    boolspec <hex> <probs>   the RFC-style reference decoder `Webp.Spec.VP8.BoolDec` on the same bytes
                             → `ok <bits> over=<0|1>`

  wops (comma separated, `-` = none):  b:<bit>:<prob>  u:<bit>  v:<value>:<n>  s:<value>:<n>
  rops (comma separated, `-` = none):  g:<prob>  a:<prob>  s:<v>  v:<n>  w:<n>
-/
namespace Driver.BoolCoder
open Webp.Go Webp.Impl.BoolCoder

def outBytes (b : Bytes) : String :=
  if b.length > 4096 then "d:" ++ digest b else "x:" ++ toHex b

inductive WOp where
  | bit (b : Bool) (p : Nat)
  | uni (b : Bool)
  | bits (v : Nat) (n : Nat)
  | sbits (v : Int) (n : Int)

def parseWOp (s : String) : Option WOp :=
  match s.splitOn ":" with
  | ["b", b, p] => do
      let b ← b.toInt?
      let p ← p.toNat?
      if p > 256 then none else pure (.bit (b != 0) p)
  | ["u", b] => do
      let b ← b.toInt?
      pure (.uni (b != 0))
  | ["v", v, n] => do
      let v ← v.toNat?
      let n ← n.toInt?
      pure (.bits v n.toNat)
  | ["s", v, n] => do
      let v ← v.toInt?
      let n ← n.toInt?
      pure (.sbits v n)
  | _ => none

def listOf {α} (f : String → Option α) (s : String) : Option (List α) :=
  if s = "-" then some [] else (s.splitOn ",").mapM f

def runW (w : BoolWriter) : WOp → BoolWriter
  | .bit b p => putBit w b p
  | .uni b => putBitUniform w b
  | .bits v n => putBits w v n
  | .sbits v n => putSignedBits w v n

inductive ROp where
  | get (p : Nat)
  | alt (p : Nat)
  | sgn (v : Int)
  | val (n : Nat)
  | sval (n : Nat)

def parseROp (s : String) : Option ROp :=
  match s.splitOn ":" with
  | ["g", p] => do
      let p ← p.toNat?
      if p > 255 then none else pure (.get p)
  | ["a", p] => do
      let p ← p.toNat?
      if p > 255 then none else pure (.alt p)
  | ["s", v] => do
      let v ← v.toInt?
      pure (.sgn v)
  | ["v", n] => do
      let n ← n.toInt?
      pure (.val n.toNat)
  | ["w", n] => do
      let n ← n.toInt?
      pure (.sval n.toNat)
  | _ => none

def runR (r : BoolReader) : ROp → String × BoolReader
  | .get p => let (b, r) := getBit r p; (b2s b, r)
  | .alt p => let (b, r) := getBitAlt r p; (b2s b, r)
  | .sgn v => let (m, r) := getSigned r; (toString (if m then -v else v), r)
  | .val n => let (v, r) := getValue r n; (toString v, r)
  | .sval n => let (v, r) := getSignedValue r n; (toString v, r)

def runRs (r : BoolReader) (ops : List ROp) : List String × BoolReader :=
  let (acc, r) := ops.foldl (fun (acc, r) op => let (s, r) := runR r op; (s :: acc, r)) ([], r)
  (acc.reverse, r)

def specBits (data : Bytes) (probs : List Nat) : String :=
  let arr := ByteArray.mk data.toArray
  let d := Webp.Spec.VP8.BoolDec.init arr 0 arr.size
  let (acc, d) := probs.foldl (fun (acc, d) p => let (b, d) := d.readBool p; (b :: acc, d)) ([], d)
  s!"ok {String.join (acc.reverse.map b2s)} over={b2s d.over}"

def handle (op : String) (args : List String) : Option String :=
  match op, args with
  | "boolenc", [ops] => do
      let ops ← listOf parseWOp ops
      let w := ops.foldl runW newWriter
      if w.panicked then pure "panic"
      else
        let out := finish w
        pure s!"ok {outBytes out} st={w.range},{w.value},{w.run},{w.nbBits},{wpos w},{outBytes w.buf}"
  | "booldec", [hex, ops] => do
      let data ← hexToBytes hex
      let ops ← listOf parseROp ops
      let (res, r) := runRs (newReader data) ops
      let body := if res.isEmpty then "-" else joinWith "," res
      pure s!"ok {body} st={r.value},{r.range},{r.bits},{r.pos},{b2s r.eof}"
  | "boolspec", [hex, probs] => do
      let data ← hexToBytes hex
      let probs ← listOf (fun s => s.toNat?.bind fun p => if p > 255 then none else some p) probs
      pure (specBits data probs)
  | _, _ => none

end Driver.BoolCoder
