import Webp.Go.Canon
import Webp.Impl.VP8Recon
/-
  Line-protocol handlers for the reconstruction model of property C06 (`Webp.Impl.VP8Recon`).

    rmeq <numSegs> <q0,q1,q2,q3> <d1,…,d5>             → `ok m=<s0>;<s1>;<s2>;<s3>`   encoder factors
                                                          (`encQuantMatrix`), each `y1dc,y1ac,y2dc,y2ac,uvdc,uvac`
    rmhdr <numSegs> <q…> <d…> <stale0,…,stale3>        → `ok use=<0|1> abs=<0|1> sq=a,b,c,d m=…`  what the
                                                          decoder derives from `encHeader` (`decQuantMatrix`)
    rmdq <use> <abs> <base> <sq0,…,sq3> <d1,…,d5>      → `ok m=…`  `decQuantMatrix` of an arbitrary header
    rmblk <t> <first> <ctx> <dq0> <dq1> <16 levels> <16 init>
                                                        → `ok ntok=<n> tok=<len:fnv of bit,prob pairs> nz=<ret> out=<16 values>`
                                                          `recordCoeffs` (count = `nzCountFrom`) then `getCoeffs`
    rmfr <mbW> <mbH> <q6> <i4 flags> <levels hex>       → `ok ntok= tok= skip=<n> mb=<skip:coef digest:nzy:nzuv;…> top=<…> topdc=<…>`
                                                          token pass + `parseTokens` over a frame, default probabilities
    rmnz <first> <16 levels>                            → `ok <nzCountFrom>`
    rmdeq <dcq> <acq> <16 levels>                       → `ok <16 values>`   `dequant`
-/
namespace Driver.VP8Recon
open Webp.Go Webp.Impl.VP8Recon Webp.Spec.VP8

def parseInts (s : String) : Option (List Int) :=
  (s.splitOn ",").mapM fun t => t.toInt?

def fin4 (l : List Int) : Fin 4 → Int := fun i => l.getD i.val 0

def matStr (m : QuantMatrix) : String :=
  joinWith "," [toString m.y1dc, toString m.y1ac, toString m.y2dc, toString m.y2ac, toString m.uvdc, toString m.uvac]

def mats (f : Fin 4 → QuantMatrix) : String := joinWith ";" ((List.finRange 4).map fun i => matStr (f i))

def mkEnc (numSegs : Nat) (q d st : List Int) : EncQuant :=
  { numSegs := numSegs, quant := fin4 q, dqY1DC := d.getD 0 0, dqY2DC := d.getD 1 0, dqY2AC := d.getD 2 0,
    dqUVDC := d.getD 3 0, dqUVAC := d.getD 4 0, staleQ := fin4 st }

def coeffsOf (l : List Int) (off : Nat := 0) : Coeffs := fun i => l.getD (off + i.val) 0
def coeffsOfArr (a : Array Int) (off : Nat := 0) : Coeffs := fun i => a.getD (off + i.val) 0
def coeffsStr (c : Coeffs) : String := joinWith "," ((List.finRange 16).map fun i => toString (c i))

def slotProb : Slot → Nat
  | .coef t n ctx i => Tables.defaultCoeffProbs.getD (((t * 8 + Tables.coeffBands.getD n 0) * 3 + ctx) * 11 + i) 0
  | .fixed p => p
  | .bmode _ _ _ => 0
  | .seg _ => 255
  | .skip => 0

def tokBytes (s : Stream) : ByteArray :=
  s.foldl (fun (o : ByteArray) d => (o.push (if d.bit then 1 else 0)).push (slotProb d.slot).toUInt8) ByteArray.empty

def digestArr (b : ByteArray) : String := s!"{b.size}:{(fnv1aArr b).toNat}"

/-- pure-Go inverse WHT; the other kernels are not used by the token layer -/
def K0 : Kernels :=
  refKernels (fun _ _ _ => 0) (fun _ _ _ => 0) (fun _ _ _ => 0)

/-- int16 little-endian pairs → values -/
def int16s (b : ByteArray) : Array Int := Id.run do
  let mut o : Array Int := Array.mkEmpty (b.size / 2)
  for k in [0:b.size / 2] do
    let v : Nat := (b.get! (2 * k)).toNat + 256 * (b.get! (2 * k + 1)).toNat
    o := o.push (if v ≥ 32768 then (v : Int) - 65536 else (v : Int))
  return o

def pushInt16 (o : ByteArray) (v : Int) : ByteArray :=
  let n : Nat := (v % 65536).toNat
  (o.push (n % 256).toUInt8).push (n / 256).toUInt8

/-- `block.Coeffs` (24 blocks) as int16 LE bytes -/
def coefBytes (c : Nat → Coeffs) : ByteArray := Id.run do
  let mut o := ByteArray.emptyWithCapacity 768
  for b in [0:24] do
    for i in List.finRange 16 do
      o := pushInt16 o (c b i)
  return o

structure FrSt where
  toks : Stream := []
  top : Array NzCtx

def frameLine (mbW mbH : Nat) (qm : QuantMatrix) (flags : List Bool) (lv : Array Int) : String := Id.run do
  let n := mbW * mbH
  let desc (i : Nat) : MBDesc :=
    { isI4 := flags.getD i false, i16mode := 0, i4modes := fun _ => 0, uvmode := 0, segment := 0
      levels := fun b => coeffsOfArr lv (400 * i + 16 * b) }
  let numSkip := ((List.range n).filter fun i => (desc i).skip).length
  let useSkip := numSkip > 0
  -- encoder token pass
  let mut topT : Array Nat := Array.replicate mbW 0
  let mut topDC : Array Nat := Array.replicate mbW 0
  let mut toks : Array Stream := Array.mkEmpty n
  for y in [0:mbH] do
    let mut lnz := 0
    let mut lnzDC := 0
    for x in [0:mbW] do
      let c : NzCtx := { tnz := topT.getD x 0, lnz := lnz, tnzDC := topDC.getD x 0, lnzDC := lnzDC }
      let (t, c') := emitTokens (desc (y * mbW + x)) c
      toks := toks.push t
      topT := topT.set! x c'.tnz
      topDC := topDC.set! x c'.tnzDC
      lnz := c'.lnz
      lnzDC := c'.lnzDC
  let all : Stream := toks.foldr (fun t acc => t ++ acc) []
  -- decoder
  let mut s := all
  let mut dT : Array Nat := Array.replicate mbW 0
  let mut dDC : Array Nat := Array.replicate mbW 0
  let mut stale : Array (Nat → Coeffs) := Array.replicate mbW (fun _ => Coeffs.zero)
  let mut parts : Array String := Array.mkEmpty n
  let mut bad := false
  for y in [0:mbH] do
    let mut lnz := 0
    let mut lnzDC := 0
    for x in [0:mbW] do
      let d := desc (y * mbW + x)
      let c : NzCtx := { tnz := dT.getD x 0, lnz := lnz, tnzDC := dDC.getD x 0, lnzDC := lnzDC }
      match parseTokens K0 qm d.isI4 d.skip useSkip (stale.getD x (fun _ => Coeffs.zero)) c s with
      | none => bad := true
      | some (r, c', s') =>
        s := s'
        dT := dT.set! x c'.tnz
        dDC := dDC.set! x c'.tnzDC
        lnz := c'.lnz
        lnzDC := c'.lnzDC
        -- freeze the coefficient functions into an array (keeps closures shallow)
        let cb := coefBytes r.coeffs
        let arr := int16s cb
        stale := stale.set! x (fun b => coeffsOfArr arr (16 * b))
        parts := parts.push s!"{b2s (useSkip && d.skip)}:{digestArr cb}:{r.nonZeroY}:{r.nonZeroUV}"
  if bad then return "err parse"
  let tb := tokBytes all
  return s!"ok ntok={all.length} tok={digestArr tb} skip={numSkip} rest={s.length} mb={joinWith ";" parts.toList} top={joinWith "," (topT.toList.map toString)}/{joinWith "," (dT.toList.map toString)} topdc={joinWith "," (topDC.toList.map toString)}/{joinWith "," (dDC.toList.map toString)}"

def handle (op : String) (args : List String) : Option String :=
  match op, args with
  | "rmeq", [ns, q, d] => do
      let ns ← ns.toNat?; let q ← parseInts q; let d ← parseInts d
      if q.length ≠ 4 ∨ d.length ≠ 5 then none
      pure s!"ok m={mats (encQuantMatrix (mkEnc ns q d []))}"
  | "rmhdr", [ns, q, d, st] => do
      let ns ← ns.toNat?; let q ← parseInts q; let d ← parseInts d; let st ← parseInts st
      if q.length ≠ 4 ∨ d.length ≠ 5 ∨ st.length ≠ 4 then none
      let h := encHeader (mkEnc ns q d st)
      -- without `use_segment` the header carries neither the mode bit nor the four values
      let ab := h.useSegment && h.absolute
      let sq := (List.finRange 4).map fun i => toString (if h.useSegment then h.segQ i else 0)
      pure s!"ok use={b2s h.useSegment} abs={b2s ab} sq={joinWith "," sq} m={mats (decQuantMatrix h)}"
  | "rmdq", [u, a, b, sq, d] => do
      let b ← b.toInt?; let sq ← parseInts sq; let d ← parseInts d
      if sq.length ≠ 4 ∨ d.length ≠ 5 then none
      let h : QuantIdx := { useSegment := u = "1", absolute := a = "1", segQ := fin4 sq, base := b,
                            dqY1DC := d.getD 0 0, dqY2DC := d.getD 1 0, dqY2AC := d.getD 2 0,
                            dqUVDC := d.getD 3 0, dqUVAC := d.getD 4 0 }
      pure s!"ok m={mats (decQuantMatrix h)}"
  | "rmblk", [t, first, ctx, dq0, dq1, lv, ini] => do
      let t ← t.toNat?; let first ← first.toNat?; let ctx ← ctx.toNat?
      let dq0 ← dq0.toInt?; let dq1 ← dq1.toInt?; let lv ← parseInts lv; let ini ← parseInts ini
      if lv.length ≠ 16 ∨ ini.length ≠ 16 then none
      let c := coeffsOf lv
      let toks := recordCoeffs c (nzCountFrom first c) t first ctx
      match getCoeffs t ctx dq0 dq1 first (coeffsOf ini) toks with
      | some (nz, out, rest) =>
        pure s!"ok ntok={toks.length} tok={digestArr (tokBytes toks)} nz={nz} out={coeffsStr out} rest={rest.length}"
      | none => pure "err parse"
  | "rmfr", [w, h, q, fl, hex] => do
      let w ← w.toNat?; let h ← h.toNat?; let q ← parseInts q
      let b ← hexToByteArray hex
      if q.length ≠ 6 ∨ fl.length ≠ w * h ∨ b.size ≠ 800 * w * h ∨ w = 0 ∨ h = 0 then none
      let qm : QuantMatrix := { y1dc := q.getD 0 0, y1ac := q.getD 1 0, y2dc := q.getD 2 0, y2ac := q.getD 3 0,
                                uvdc := q.getD 4 0, uvac := q.getD 5 0 }
      pure (frameLine w h qm (fl.toList.map (· == '1')) (int16s b))
  | "rmnz", [first, lv] => do
      let first ← first.toNat?; let lv ← parseInts lv
      if lv.length ≠ 16 then none
      pure s!"ok {nzCountFrom first (coeffsOf lv)}"
  | "rmdeq", [dcq, acq, lv] => do
      let dcq ← dcq.toInt?; let acq ← acq.toInt?; let lv ← parseInts lv
      if lv.length ≠ 16 then none
      pure s!"ok {coeffsStr (dequant dcq acq (coeffsOf lv))}"
  | "rmeq", _ | "rmhdr", _ | "rmdq", _ | "rmblk", _ | "rmfr", _ | "rmnz", _ | "rmdeq", _ => some "err args"
  | _, _ => none

end Driver.VP8Recon
