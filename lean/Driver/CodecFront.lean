import Webp.Go.Canon
import Webp.Impl.CodecFront
import Webp.Impl.CodecFrontL
import Webp.Spec.VP8L
/-
  Line-protocol handlers for the codec front-end models (C05, codec part).

    vp8front <hex>            → `ok w= h= xs= ys= prof= plen= cs= clamp= seg=… flt=… ftype= nparts=
                                 parts=<off>:<len>,… dqm=… probs=<len:fnv> skip= mbw= mbh= bufs=…`
                                | `err <class>`
                                 (`parseHeaders` + `initFrame` of a fresh decoder; the boolean reader
                                  is the bit-exact model of bitio.BoolReader, `GoBool`)
    vp8img <hex> <alphahex|-> → the image `decodeLossy` hands back when the macroblock loop succeeds:
                                 `ok ycbcr w h ylen cblen crlen ystride cstride` | `ok nrgba w h pixlen stride`
                                 | `err <class>`   (alpha: raw method only; VP8L-coded alpha answers `err alpha`)
    vp8lfront <hex>           → `ok w= h= alpha= tw= cache= hbits= groups=
                                 tf=<type>:<xsize>:<ysize>:<bits>:<datalen>,… bufs=…` | `err <class>`
    vp8lfrontx <hex>          → `ok gmax= depth= pix= stride= allocs=…` (model-only facts)
                                 (`DecodeVP8L` up to its allocations; bit reader / prefix codes /
                                  sub-image pixels come from the VP8L spec model)
    vp8lcopy <len> <pos> <dist> <length>
                              → `ok <newpos> <dlo>:<slo>:<n>,…` | `err bitstream` | `panic` | `hang`
    vp8ldist <xsize> <code>   → `ok <dist>`
    vp8lpal <numColors> <paletteLen> → `ok <len(newMap)>` | `panic`
-/
namespace Driver.CodecFront
open Webp.Go Webp.Impl

def resLine {ε α} (es : ε → String) (f : α → String) : Res ε α → String
  | .ok a => "ok " ++ f a
  | .err e => "err " ++ es e
  | .panic => "panic"
  | .hang => "hang"

def ints (l : List Int) : String := joinWith "|" (l.map toString)
def nats (l : List Nat) : String := joinWith "|" (l.map toString)

/-- no cap: the driver reports what the code asks for -/
def bigCap : Nat := 2 ^ 62

open CodecFront in
def vp8Line (h : Hdr) (b : Bufs) : String :=
  let t := h.tag
  let s := h.seg
  let f := h.filter
  let parts := joinWith "," (h.parts.map fun p => s!"{p.off}:{p.bytes.length}")
  let dqm := joinWith ";" (h.dqm.map fun m =>
    s!"{m.y1dc}.{m.y1ac}.{m.y2dc}.{m.y2ac}.{m.uvdc}.{m.uvac}.{m.uvQuant}")
  let probs := digest (h.coeffProbs.map UInt8.ofNat)
  joinWith " " [
    s!"w={t.width} h={t.height} xs={t.xScale} ys={t.yScale} prof={t.profile} plen={t.partLen}",
    s!"cs={h.colorspace} clamp={h.clampType}",
    s!"seg={b2s s.useSegment},{b2s s.updateMap},{b2s s.absoluteDelta},{ints s.quantizer},{ints s.filterStrength},{nats s.probs}",
    s!"flt={b2s f.simple},{f.level},{f.sharpness},{b2s f.useLFDelta},{ints f.refLFDelta},{ints f.modeLFDelta}",
    s!"ftype={h.filterType} nparts={h.numPartsMinusOne + 1} parts={parts} dqm={dqm} probs={probs}",
    s!"skip={b2s h.useSkipProba},{h.skipP} mbw={h.mbW} mbh={h.mbH}",
    s!"bufs={b.yuvT},{b.mbInfo},{b.fInfo},{b.mbData},{b.slab},{b.intraT},{b.yuvB},{b.cacheY},{b.cacheU},{b.cacheV},{b.cacheYStride},{b.cacheUVStride}"]

open CodecFront in
def vp8front (data : Bytes) : String :=
  let r : R (Hdr × Bufs) := do
    let (h, _) ← parseHeaders GoBool.src data
    let (b, _) ← initFrame bigCap {} h.mbW h.mbH []
    pure (h, b)
  resLine Err.toString (fun (p : Hdr × Bufs) => vp8Line p.1 p.2) r

open CodecFront in
def imgLine : Img → String
  | .ycbcr w h y cb cr ys cs => s!"ycbcr {w} {h} {y} {cb} {cr} {ys} {cs}"
  | .nrgba w h p s => s!"nrgba {w} {h} {p} {s}"
  | .nilYCbCr => "nil"

open CodecFront in
def vp8img (data alpha : Bytes) : String :=
  let codec : Alpha.Codec := ⟨fun _ _ _ _ _ => none, fun _ => none⟩
  resLine Err.toString (fun (p : Img × Mem) => imgLine p.1)
    (decodeLossy GoBool.src bigCap {} codec data alpha true)

/-! ### VP8L: the spec model's reader / prefix codes / pixel loop as the oracle instance -/

open Webp.Spec.VP8L in
structure LS where
  br : BitReader
  /-- reading went past the end (Go: zero bits + sticky flag) -/
  eos : Bool := false
  /-- codes read since the last image data, in stream order -/
  codes : Array Code := #[]

namespace LS
open Webp.Spec.VP8L

def readBits (s : LS) (n : Nat) : Nat × LS :=
  match s.br.readBits n with
  | .ok (v, br) => (v, { s with br })
  | _ => (0, { s with eos := true })

def readCode (s : LS) (alphabet : Nat) : Option LS :=
  match Webp.Spec.VP8L.readCode alphabet s.br with
  | .ok (c, br) => some { s with br, codes := s.codes.push c }
  | _ => none

def imageData (s : LS) (w h : Nat) (m : CodecFrontL.Meta) : Option ((Nat → UInt32) × LS) :=
  let grp (k : Nat) : Group :=
    let i := m.groupSel.getD k 0
    { green := s.codes.getD (5 * i) default, red := s.codes.getD (5 * i + 1) default,
      blue := s.codes.getD (5 * i + 2) default, alpha := s.codes.getD (5 * i + 3) default,
      dist := s.codes.getD (5 * i + 4) default }
  let groups := (Array.range m.numGroups).map grp
  let p : EntropyParams :=
    { width := w, height := h, cacheBits := m.colorCacheBits, prefixBits := m.huffBits,
      entropy := m.huffImage, groups }
  match decodePixels p s.br with
  | .ok (px, br) => some (fun i => px.getD i 0, { s with br, codes := #[] })
  | _ => none

def src : CodecFrontL.LSrc LS :=
  { new := fun b => { br := { data := ByteArray.mk b.toArray } }, readBits := readBits,
    eos := fun s => s.eos, readCode := readCode, imageData := imageData }

end LS

open CodecFrontL in
def vp8lLine (f : Front) : String :=
  let b := f.bufs
  let tf := joinWith "," (f.transforms.map fun t => s!"{t.type}:{t.xsize}:{t.ysize}:{t.bits}:{t.dataLen}")
  joinWith " " [
    s!"w={f.hdr.width} h={f.hdr.height} alpha={b2s f.hdr.hasAlpha} tw={b.tw} cache={f.md.colorCacheBits}",
    s!"hbits={f.md.huffBits} groups={f.md.numGroups}",
    s!"tf={if tf = "" then "-" else tf}",
    s!"bufs={b.numPixOrig},{b.numPixTrans},{b.numAlloc},{b.needed},{b.pixels},{b.argbCache},{b.transformBuf}"]

open CodecFrontL in
def vp8lfront (data : Bytes) : String :=
  resLine Err.toString (fun (p : (Front × Nat × Nat) × CodecFront.Mem) => vp8lLine p.1.1)
    (decodeVP8L LS.src bigCap {} data true)

open CodecFrontL in
/-- facts of the model that the Go hook cannot observe (evidence only) -/
def vp8lfrontx (data : Bytes) : String :=
  resLine Err.toString (fun (p : (Front × Nat × Nat) × CodecFront.Mem) =>
    s!"gmax={p.1.1.md.numGroupsMax} depth={p.1.1.maxDepth} pix={p.1.2.1} stride={p.1.2.2} allocs={joinWith "," (p.2.reverse.map toString)}")
    (decodeVP8L LS.src bigCap {} data true)

open CodecFrontL in
def copyLine (len : Nat) (pos dist length : Int) : String :=
  resLine Err.toString (fun (p : List Move × Int) =>
    s!"{p.2} {joinWith "," (p.1.map fun m => s!"{m.dlo}:{m.slo}:{m.n}")}") (copyStep len len pos dist length)

def handle (op : String) (args : List String) : Option String :=
  match op, args with
  | "vp8front", [h] => (hexToBytes h).map vp8front
  | "vp8img", [h, a] => do
      let d ← hexToBytes h
      let al ← hexToBytes a
      pure (vp8img d al)
  | "vp8lfront", [h] => (hexToBytes h).map vp8lfront
  | "vp8lfrontx", [h] => (hexToBytes h).map vp8lfrontx
  | "vp8lcopy", [l, p, d, n] => do
      let l ← l.toNat?
      let p ← p.toInt?
      let d ← d.toInt?
      let n ← n.toInt?
      pure (copyLine l p d n)
  | "vp8ldist", [x, c] => do
      let x ← x.toNat?
      let c ← c.toInt?
      pure s!"ok {CodecFrontL.planeCodeToDistance x c}"
  | "vp8lpal", [n, pl] => do
      let n ← n.toNat?
      let pl ← pl.toNat?
      let bits := if n > 16 then 0 else if n > 4 then 1 else if n > 2 then 2 else 3
      pure (resLine CodecFrontL.Err.toString (fun (p : Nat × CodecFront.Mem) => toString p.1)
        (CodecFrontL.expandColorMap bigCap n bits pl []))
  | _, _ => none

end Driver.CodecFront
