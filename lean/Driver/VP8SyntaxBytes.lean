import Driver.VP8Recon
import Webp.Impl.VP8SyntaxBytes
/-
  Line-protocol handler for the byte-level syntax model (C06, `Webp.Impl.VP8SyntaxBytes`).

    rmfrb <mbW> <mbH> <q6> <i4 flags> <levels hex>   (the arguments of `rmfr`)
        → `ok bytes=<x:hex | d:len:fnv> mb=<skip:coef digest:nzy:nzuv;…> eof=<0|1>`
      the token pass of the frame (`emitTokens`, default probabilities) written with the `BoolWriter`
      model (`emitPartitionBytes`), then `decodeMB` as the decision tree `T.parseTokens` on the
      `BoolReader` model (`runR`) over those bytes
-/
namespace Driver.VP8SyntaxBytes
open Webp.Go Webp.Impl.VP8Recon Webp.Impl.VP8SyntaxBytes Webp.Impl.BoolCoder
open Driver.VP8Recon (slotProb K0 coefBytes int16s coeffsOfArr digestArr parseInts)

def prob (sl : Slot) : UInt8 := (slotProb sl).toUInt8

def outBytes (b : Bytes) : String :=
  if b.length > 4096 then "d:" ++ digest b else "x:" ++ toHex b

def frameBytesLine (mbW mbH : Nat) (qm : QuantMatrix) (flags : List Bool) (lv : Array Int) : String := Id.run do
  let n := mbW * mbH
  let desc (i : Nat) : MBDesc :=
    { isI4 := flags.getD i false, i16mode := 0, i4modes := fun _ => 0, uvmode := 0, segment := 0
      levels := fun b => coeffsOfArr lv (400 * i + 16 * b) }
  let numSkip := ((List.range n).filter fun i => (desc i).skip).length
  let useSkip := numSkip > 0
  -- encoder token pass
  let mut topT : Array Nat := Array.replicate mbW 0
  let mut topDC : Array Nat := Array.replicate mbW 0
  let mut toks : Array Stream := Array.mkEmpty n
  for y in [0:mbH] do
    let mut lnz := 0
    let mut lnzDC := 0
    for x in [0:mbW] do
      let c : NzCtx := { tnz := topT.getD x 0, lnz := lnz, tnzDC := topDC.getD x 0, lnzDC := lnzDC }
      let (t, c') := emitTokens (desc (y * mbW + x)) c
      toks := toks.push t
      topT := topT.set! x c'.tnz
      topDC := topDC.set! x c'.tnzDC
      lnz := c'.lnz
      lnzDC := c'.lnzDC
  let all : Stream := toks.foldr (fun t acc => t ++ acc) []
  -- the boolean writer
  let bytes := emitPartitionBytes prob [] all
  -- decoder on the boolean reader
  let mut r := newReader bytes
  let mut dT : Array Nat := Array.replicate mbW 0
  let mut dDC : Array Nat := Array.replicate mbW 0
  let mut stale : Array (Nat → Coeffs) := Array.replicate mbW (fun _ => Coeffs.zero)
  let mut parts : Array String := Array.mkEmpty n
  let mut bad := false
  for y in [0:mbH] do
    let mut lnz := 0
    let mut lnzDC := 0
    for x in [0:mbW] do
      let d := desc (y * mbW + x)
      let c : NzCtx := { tnz := dT.getD x 0, lnz := lnz, tnzDC := dDC.getD x 0, lnzDC := lnzDC }
      match runR prob (T.parseTokens K0 qm d.isI4 d.skip useSkip (stale.getD x (fun _ => Coeffs.zero)) c) r with
      | none => bad := true
      | some ((res, c'), r') =>
        r := r'
        dT := dT.set! x c'.tnz
        dDC := dDC.set! x c'.tnzDC
        lnz := c'.lnz
        lnzDC := c'.lnzDC
        let cb := coefBytes res.coeffs
        let arr := int16s cb
        stale := stale.set! x (fun b => coeffsOfArr arr (16 * b))
        parts := parts.push s!"{b2s (useSkip && d.skip)}:{digestArr cb}:{res.nonZeroY}:{res.nonZeroUV}"
  if bad then return "err parse"
  return s!"ok bytes={outBytes bytes} mb={joinWith ";" parts.toList} eof={b2s r.eof}"

def handle (op : String) (args : List String) : Option String :=
  match op, args with
  | "rmfrb", [w, h, q, fl, hex] => do
      let w ← w.toNat?; let h ← h.toNat?; let q ← parseInts q
      let b ← hexToByteArray hex
      if q.length ≠ 6 ∨ fl.length ≠ w * h ∨ b.size ≠ 800 * w * h ∨ w = 0 ∨ h = 0 then none
      let qm : QuantMatrix := { y1dc := q.getD 0 0, y1ac := q.getD 1 0, y2dc := q.getD 2 0, y2ac := q.getD 3 0,
                                uvdc := q.getD 4 0, uvac := q.getD 5 0 }
      pure (frameBytesLine w h qm (fl.toList.map (· == '1')) (int16s b))
  | _, _ => none

end Driver.VP8SyntaxBytes
