import Webp.Go.Canon
import Webp.Impl.Import
/-
  Line-protocol handlers for the pixel import (property C19).

  image on the wire:  <src> <pixhex> <stride> <minX> <minY> <maxX> <maxY>
    <src> = n   *image.NRGBA handed over as such               (fast paths)
            r   *image.RGBA  handed over as such               (fast paths, premultiplied bytes)
            gn  the same NRGBA behind a generic image.Image     (At() returns color.NRGBA)
            gr  the same RGBA  behind a generic image.Image     (At() returns color.RGBA)
    <pixhex> = the whole `Pix` slice (`-` when empty)

  imp_argb    <b|s> <image>          ok <d>      ARGB buffer handed to lossless.Encode[ToWriter]
                                                 (`b` encodeLossless, `s` encodeLosslessToWriter);
                                                 d = digest of the words as bytes A,R,G,B
  imp_hasalpha <w|l> <image>         ok 0|1      webp.imageHasAlpha / lossy.imageHasAlpha
  imp_alpha   <image>                ok <d>      extractAlphaWith(img, true)
  imp_cleanup <image>                ok <d>      the NRGBA copy made by cleanupTransparentAreaLossyWith
                                                 (before block smoothing)
  imp_sharprgb <image>               ok <hex>    the packed RGB buffer handed to sharpyuv.Convert
  imp_y       <amp> <nw> <image>     ok <d>      lossy importImage: the padded Y plane; amp < 0: no
                                                 dithering, else `rg.amp` of the VP8Random;
                                                 nw = worker count of the parallel path
  imp_uvrows  <amp> <nw> <ha> <image> ok <hex>   planar R,G,B,A (interleaved per sample) handed to
                                                 AccumulateRGBA for every row pair, 2*padW samples each
  every op: `panic` when the Go code would panic (index out of range on a malformed image)
-/
namespace Driver.Import
open Webp.Go Webp.Impl.Import

def parseImg (pix stride x0 y0 x1 y1 : String) : Option Img := do
  let b ← if pix = "-" then some ByteArray.empty else hexToByteArray pix
  let stride ← stride.toInt?
  let x0 ← x0.toInt?
  let y0 ← y0.toInt?
  let x1 ← x1.toInt?
  let y1 ← y1.toInt?
  pure { pix := b.data, stride := stride, rect := ⟨x0, y0, x1, y1⟩ }

inductive Src where
  | n | r | gn | gr
  deriving DecidableEq

def parseSrc : String → Option Src
  | "n" => some .n
  | "r" => some .r
  | "gn" => some .gn
  | "gr" => some .gr
  | _ => none

/-- `NRGBAModel.Convert ∘ img.At` of the wrapper -/
def atOf (s : Src) (img : Img) : Int → Int → R RGBA8 :=
  match s with
  | .n | .gn => img.atNRGBA
  | .r | .gr => img.atRGBA

/-- does the type switch of the Go code reach a fast path? (`img.(*image.NRGBA) && validNRGBA`) -/
def direct (s : Src) (img : Img) : Bool :=
  (s = .n || s = .r) && validNRGBA img img.rect.dx img.rect.dy

def pxCount (img : Img) : Nat := (img.rect.dx * img.rect.dy).toNat

def render {α : Type} (f : α → String) : R α → String
  | .ok a => "ok " ++ f a
  | .err _ => "err"
  | .panic => "panic"
  | .hang => "hang"

def argbDigest (a : Array UInt32) : String :=
  let b : ByteArray := a.foldl (fun b (v : UInt32) =>
    (((b.push (v >>> 24).toUInt8).push (v >>> 16).toUInt8).push (v >>> 8).toUInt8).push v.toUInt8)
    (ByteArray.emptyWithCapacity (4 * a.size))
  s!"{b.size}:{(fnv1aArr b).toNat}"

def bytesDigest (a : Array UInt8) : String :=
  let b : ByteArray := ⟨a⟩
  s!"{b.size}:{(fnv1aArr b).toNat}"

def bytesHex (a : Array UInt8) : String := if a.isEmpty then "-" else toHex a.toList

def px4 (a : Array RGBA8) : Array UInt8 :=
  a.foldl (fun b c => (((b.push c.r).push c.g).push c.b).push c.a) (Array.mkEmpty (4 * a.size))

/-! ### the real conversions, for the Y plane (/repo/internal/dsp/yuv.go, random.go) -/

/-- `uint8((16839*r + 33059*g + 6420*b + rounding + (16 << 16)) >> 16)` -/
def rgbToYRounding (r g b : UInt8) (rounding : Int) : UInt8 :=
  let v : Int := 16839 * r.toNat + 33059 * g.toNat + 6420 * b.toNat + rounding + 1048576
  UInt8.ofNat ((v >>> 16) % 256).toNat

structure Rng where
  tab : Array UInt32
  i1 : Nat
  i2 : Nat
  amp : Int

def kRandomTable : Array UInt32 := #[
  0x0de15230, 0x03b31886, 0x775faccb, 0x1c88626a, 0x68385c55, 0x14b3b828,
  0x4a85fef8, 0x49ddb84b, 0x64fcf397, 0x5c550289, 0x4a290000, 0x0d7ec1da,
  0x5940b7ab, 0x5492577d, 0x4e19ca72, 0x38d38c69, 0x0c01ee65, 0x32a1755f,
  0x5437f652, 0x5abb2c32, 0x0faa57b1, 0x73f533e7, 0x685feeda, 0x7563cce2,
  0x6e990e83, 0x4730a7ed, 0x4fc0d9c6, 0x496b153c, 0x4f1403fa, 0x541afb0c,
  0x73990b32, 0x26d7cb1c, 0x6fcc3706, 0x2cbb77d8, 0x75762f2a, 0x6425ccdd,
  0x24b35461, 0x0a7d8715, 0x220414a8, 0x141ebf67, 0x56b41583, 0x73e502e3,
  0x44cab16f, 0x28264d42, 0x73baaefb, 0x0a50ebed, 0x1d6ab6fb, 0x0d3ad40b,
  0x35db3b68, 0x2b081e83, 0x77ce6b95, 0x5181e5f0, 0x78853bbc, 0x009f9494,
  0x27e5ed3c]

def initRandom (amp : Int) : Rng := { tab := kRandomTable, i1 := 0, i2 := 31, amp := amp }

/-- `dsp.RandomBits(rg, 16)` -/
def randomBits16 (rg : Rng) : Int × Rng :=
  let d0 : Int := (rg.tab.getD rg.i1 0).toNat - (rg.tab.getD rg.i2 0).toNat
  let d1 : Int := if d0 < 0 then d0 + 2147483648 else d0
  let tab := rg.tab.setIfInBounds rg.i1 (UInt32.ofNat d1.toNat)
  let i1 := if rg.i1 + 1 = 55 then 0 else rg.i1 + 1
  let i2 := if rg.i2 + 1 = 55 then 0 else rg.i2 + 1
  -- int(int32(uint32(diff) << 1)) >> (32 - 16)
  let u : Int := (d1 * 2) % 4294967296
  let sgn : Int := if u ≥ 2147483648 then u - 4294967296 else u
  let d2 : Int := sgn >>> 16
  let d3 : Int := (d2 * rg.amp) >>> 8
  (d3 + 32768, { tab := tab, i1 := i1, i2 := i2, amp := rg.amp })

/-- Y values are the real ones; the chroma "conversion" is the identity on the planar buffers
    (the harness pushes them through the real `dsp.AccumulateRGBA` / `ConvertRGBA32ToUV*`) -/
def conv : Conv UInt8 (Array RGBA8) Rng where
  rgbToY := fun r g b => rgbToYRounding r g b 32768
  rgbToYR := rgbToYRounding
  rnd := randomBits16
  uv := id
  uvD := fun p s => (p, s)

def padDims (img : Img) : Nat × Nat := (pad16 img.rect.dx, pad16 img.rect.dy)

def yPlaneOp (s : Src) (amp : Int) (nw : Nat) (img : Img) : R (Array UInt8) :=
  let (padW, padH) := padDims img
  let init : Array UInt8 := Array.replicate (padW * padH) 0xA5
  let isDirect := s = .n || s = .r          -- importImage has no validNRGBA guard
  if amp < 0 then
    if isDirect then yDirectPar conv nw img init
    else (yGeneric conv (atOf s img) img.rect (init, none)) >>= fun st => .ok st.1
  else
    if isDirect then (yDirectSer conv img (init, initRandom amp)) >>= fun st => .ok st.1
    else (yGeneric conv (atOf s img) img.rect (init, some (initRandom amp))) >>= fun st => .ok st.1

def uvRowsOp (s : Src) (amp : Int) (nw : Nat) (hasAlpha : Bool) (img : Img) : R (Array UInt8) :=
  let (padW, padH) := padDims img
  let stale : Array RGBA8 := Array.replicate padW ⟨0xA5, 0x5A, 0xC3, 0x3C⟩
  let init : Array (Array RGBA8) := Array.replicate (padH / 2) #[]
  let isDirect := s = .n || s = .r
  let res : R (Array (Array RGBA8)) :=
    if isDirect && amp < 0 then uvDirectPar conv nw hasAlpha img (stale, stale) init
    else
      let extract := if isDirect then extractRowDirect img else extractRowGeneric (atOf s img) img.rect
      (uvSerial conv extract hasAlpha img.rect (stale, stale)
        (init, if amp < 0 then none else some (initRandom amp))) >>= fun st => .ok st.1
  res >>= fun rows => .ok (rows.foldl (fun acc row => acc ++ px4 row) #[])

def pBool (s : String) : Option Bool :=
  if s = "1" then some true else if s = "0" then some false else none

def handle (op : String) (args : List String) : Option String :=
  match op, args with
  | "imp_argb", [mode, src, pix, st, x0, y0, x1, y1] => do
    let s ← parseSrc src
    let img ← parseImg pix st x0 y0 x1 y1
    let init : Array UInt32 := Array.replicate (pxCount img) 0xDEADBEEF
    let r ←
      if mode = "b" then
        some (if direct s img then (if s = .n then encodeLosslessNRGBA img init else encodeLosslessRGBA img init)
              else losslessGeneric (atOf s img) img.rect init)
      else if mode = "s" then
        some (if direct s img then (if s = .n then encodeLosslessToWriterNRGBA img init else encodeLosslessToWriterRGBA img init)
              else losslessGeneric (atOf s img) img.rect init)
      else none
    some (render argbDigest r)
  | "imp_hasalpha", [which, src, pix, st, x0, y0, x1, y1] => do
    let s ← parseSrc src
    let img ← parseImg pix st x0 y0 x1 y1
    let r ←
      if which = "w" then
        some (if direct s img then hasAlphaFast img else hasAlphaGeneric (atOf s img) img.rect)
      else if which = "l" then
        some (if s = .n || s = .r then lossyHasAlphaFast img else lossyHasAlphaGeneric (atOf s img) img.rect)
      else none
    some (render b2s r)
  | "imp_alpha", [src, pix, st, x0, y0, x1, y1] => do
    let s ← parseSrc src
    let img ← parseImg pix st x0 y0 x1 y1
    let init : Array UInt8 := Array.replicate (pxCount img) 0
    some (render bytesDigest
      (if direct s img then extractAlphaFast img init else extractAlphaGeneric (atOf s img) img.rect init))
  | "imp_cleanup", [src, pix, st, x0, y0, x1, y1] => do
    let s ← parseSrc src
    let img ← parseImg pix st x0 y0 x1 y1
    let init : Array UInt8 := Array.replicate (pxCount img * 4) 0
    some (render bytesDigest
      (if direct s img then (if s = .n then cleanupCopyNRGBA img init else cleanupCopyRGBA img init)
       else cleanupCopyGeneric (atOf s img) img.rect init))
  | "imp_sharprgb", [src, pix, st, x0, y0, x1, y1] => do
    let s ← parseSrc src
    let img ← parseImg pix st x0 y0 x1 y1
    let init : Array UInt8 := Array.replicate (pxCount img * 3) 0
    some (render bytesHex
      (if direct s img then sharpRGBFast img init else sharpRGBGeneric (atOf s img) img.rect init))
  | "imp_y", [amp, nw, src, pix, st, x0, y0, x1, y1] => do
    let amp ← amp.toInt?
    let nw ← nw.toNat?
    let s ← parseSrc src
    let img ← parseImg pix st x0 y0 x1 y1
    if nw = 0 then none else
    some (render bytesDigest (yPlaneOp s amp nw img))
  | "imp_uvrows", [amp, nw, ha, src, pix, st, x0, y0, x1, y1] => do
    let amp ← amp.toInt?
    let nw ← nw.toNat?
    let ha ← pBool ha
    let s ← parseSrc src
    let img ← parseImg pix st x0 y0 x1 y1
    if nw = 0 then none else
    some (render bytesHex (uvRowsOp s amp nw ha img))
  | _, _ => none

end Driver.Import
