import Driver.VP8LWindow2
import Webp.Impl.VP8LWindow3
/-
  Line-protocol handler for the LEVEL-0 SEQUENCE on the window reader (property C03, suite `vp8lwindow`,
  leg `stream`).

  vwpay <hex>    a whole VP8L payload decoded by the MODEL of the Go decoder on the 64-bit window reader:
                 signature byte, `NewLosslessReader(data[1:])`, `decodeHeader`, `decodeImageStream(…, true)`
                 (`decodeStreamGo`: transform loop with its sub-images, colour cache, meta codes, groups),
                 `decodeImageData`; the inverse transforms are the specification's.  Same line as op `vp8l`:
                 ok w=<w> h=<h> alpha=<0|1> px=<len:fnv> npx=<len:fnv> | err header | err bitstream
                 `skip remap` when the stream needs the group remapping of readHuffmanCodes (not modelled);
                 `mismatch stream` when model and specification (`Spec.VP8L.decode`) disagree.
-/
namespace Driver.VP8LWindow3
open Webp.Go Webp.Spec.VP8L Webp.Impl.VP8LEntropy Webp.Impl.VP8LWindow

/-- the specification's view of what `readTransform` recorded (= `Webp.Proofs.VP8LWindow.xformSpec`) -/
def xformSpec (x : XForm) : Transform :=
  if x.ty = 0 then .predictor x.bits x.data
  else if x.ty = 1 then .crossColor x.bits x.data
  else if x.ty = 2 then .subtractGreen
  else .colorIndexing (deltaDecodePalette x.data)

def payloadLine (data : ByteArray) : String :=
  if data.size < 5 then "err header"
  else if data.data.getD 0 0 ≠ 0x2f then "err header"
  else
    let m := decodePayloadGo (Reader.new (data.data.extract 1 data.size))
    let s := decode data
    match m with
    | .ok ((w, h, alpha, l0), _) =>
      let ts := l0.transforms.map fun x => (xformSpec x, x.xsize)
      let px := applyInverseTransforms h ts l0.pixels
      match s with
      | .ok img =>
        if img.pixels == px && img.width == w && img.height == h && img.hasAlpha == alpha then
          s!"ok w={w} h={h} alpha={b2s alpha} px={Driver.VP8L.digestArr (Driver.VP8L.rgbaBytes px false)} npx={Driver.VP8L.digestArr (Driver.VP8L.rgbaBytes px true)}"
        else "mismatch stream"
      | _ => "mismatch stream"
    | .err e =>
      if e == remapNotModelled then "skip remap"
      else
        match s with
        | .err _ => if e == .badVersion then "err header" else "err bitstream"
        | _ => "mismatch stream"
    | .panic => "panic"
    | .hang => "hang"

def handle (op : String) (args : List String) : Option String :=
  match op, args with
  | "vwpay", [hex] => do
    let data ← if hex = "-" then some ByteArray.empty else hexToByteArray hex
    some (payloadLine data)
  | _, _ => none

end Driver.VP8LWindow3
