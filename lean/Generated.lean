import Generated.Fields
