import Generated.Fields
import Generated.Shapes
import Generated.Sites
import Generated.Funcs
import Generated.Fingerprints
import Generated.Fills
