import Generated.Fields
import Generated.Shapes
