package main

// Suite "vp8lentropy" — properties C01 / C03, entropy layer of the VP8L codec.
//
// Tie between the Lean models of Webp.Impl.VP8LEntropy and /repo (internal/lossless and
// internal/bitio through verifapi, build tag verif).  Every protocol line is self-contained: the
// Go answer is recomputed from the line alone (goVE), so any finding replays from its line.
//
//   vesize / vetab   buildHuffmanTableSize, BuildHuffmanTable, ReadSymbol (+ FillBitWindow /
//                    PrefetchBits / SetBitPos / IsEndOfStream of the real reader)
//   venextkey        getNextKey
//   vecanon          generateCanonicalCodes (reverseBits)
//   vecltok          BuildCodeLengthTokens
//   vestore          StoreHuffmanCode (+ CreateHuffmanTree(.., 7) as the oracle), LosslessWriter
//   vecopy           copyBlock32
//   veloop           decodeSubImage → readHuffmanCodes + decodeImageData on the stream the encoder's
//                    own emitter writes for the token list (so trivial-code and packed-table fast
//                    paths run whenever the token list makes them applicable)
//   veemit           BackwardReferences2DLocality, Histogram.AddRefs, CreateHuffmanTree (oracle),
//                    StoreHuffmanCode, clearHuffmanTreeIfOnlyOneSymbol, storeImageData, Finish
//   velc             BackwardRefsWithLocalCache
//   vegroup          readHuffmanCodes' IsTrivialLiteral / IsTrivialCode / UsePackedTable, LiteralARB,
//                    buildPackedTable (through StoreHuffmanCode + the decoder's own code reader)
//   vewr / verd      WriteBits/Finish, NewLosslessReader/ReadBits/IsEndOfStream
//
// The Lean driver additionally evaluates the specification next to each implementation model and
// answers `mismatch …` when they differ (that would contradict a theorem of Props/C03 or
// Props/C01Entropy); such a line is reported as a property finding.

import (
	"fmt"
	"runtime"
	"strconv"
	"strings"
	"sync"

	"github.com/deepteams/webp/verifapi"
)

func init() {
	suites["vp8lentropy"] = suiteVP8LEntropy
	for _, op := range []string{"vesize", "vetab", "venextkey", "vecanon", "vecltok", "vestore", "vecopy", "veloop", "veemit", "velc", "vegroup", "vewr", "verd"} {
		replayers[op] = replayVE
	}
}

// ---------- wire form ----------

func veInts(a []int) string {
	if len(a) == 0 {
		return "-"
	}
	s := make([]string, len(a))
	for i, v := range a {
		s[i] = strconv.Itoa(v)
	}
	return strings.Join(s, ",")
}

func veParseInts(s string) ([]int, bool) {
	if s == "-" {
		return nil, true
	}
	var out []int
	for _, f := range strings.Split(s, ",") {
		v, err := strconv.Atoi(f)
		if err != nil || v < 0 {
			return nil, false
		}
		out = append(out, v)
	}
	return out, true
}

func veU8(a []int) []uint8 {
	o := make([]uint8, len(a))
	for i, v := range a {
		o[i] = uint8(v)
	}
	return o
}

func veFromU8(a []uint8) []int {
	o := make([]int, len(a))
	for i, v := range a {
		o[i] = int(v)
	}
	return o
}

type veTok struct {
	kind byte // 'l' 'c' 'k'
	argb uint32
	a, b int // len, dist | idx
}

func veTokStr(ts []veTok) string {
	if len(ts) == 0 {
		return "-"
	}
	s := make([]string, len(ts))
	for i, t := range ts {
		switch t.kind {
		case 'l':
			s[i] = fmt.Sprintf("l%08x", t.argb)
		case 'k':
			s[i] = fmt.Sprintf("k%d", t.a)
		default:
			s[i] = fmt.Sprintf("c%d:%d", t.a, t.b)
		}
	}
	return strings.Join(s, ",")
}

func veParseToks(s string) ([]veTok, bool) {
	if s == "-" {
		return nil, true
	}
	var out []veTok
	for _, f := range strings.Split(s, ",") {
		if len(f) < 2 {
			return nil, false
		}
		switch f[0] {
		case 'l':
			v, err := strconv.ParseUint(f[1:], 16, 32)
			if err != nil || len(f) != 9 {
				return nil, false
			}
			out = append(out, veTok{kind: 'l', argb: uint32(v)})
		case 'k':
			v, err := strconv.Atoi(f[1:])
			if err != nil {
				return nil, false
			}
			out = append(out, veTok{kind: 'k', a: v})
		case 'c':
			p := strings.Split(f[1:], ":")
			if len(p) != 2 {
				return nil, false
			}
			a, e1 := strconv.Atoi(p[0])
			b, e2 := strconv.Atoi(p[1])
			if e1 != nil || e2 != nil {
				return nil, false
			}
			out = append(out, veTok{kind: 'c', a: a, b: b})
		default:
			return nil, false
		}
	}
	return out, true
}

func veRefs(ts []veTok) []verifapi.ERef {
	refs := make([]verifapi.ERef, len(ts))
	for i, t := range ts {
		switch t.kind {
		case 'l':
			refs[i] = verifapi.ERef{Kind: 0, Argb: t.argb}
		case 'k':
			refs[i] = verifapi.ERef{Kind: 1, Idx: t.a}
		default:
			refs[i] = verifapi.ERef{Kind: 2, Len: t.a, Dist: t.b}
		}
	}
	return refs
}

func veTableDigest(t []verifapi.EHuffmanCode) string {
	b := make([]byte, 0, 3*len(t))
	for _, e := range t {
		b = append(b, e.Bits, byte(e.Value>>8), byte(e.Value))
	}
	return digest(b)
}

// ---------- Go answers ----------

// goVE computes the canonical line of the real implementation and names the Go function.
func goVE(f []string) (string, string) {
	atoi := func(s string) int { v, _ := strconv.Atoi(s); return v }
	switch f[0] {
	case "vesize":
		lens, _ := veParseInts(f[2])
		return fmt.Sprintf("ok %d", verifapi.EBuildHuffmanTableSize(atoi(f[1]), lens)), "buildHuffmanTableSize"
	case "venextkey":
		return fmt.Sprintf("ok %d", verifapi.EGetNextKey(uint32(atoi(f[1])), atoi(f[2]))), "getNextKey"
	case "vetab":
		r := atoi(f[1])
		lens, _ := veParseInts(f[2])
		data := unhx(f[3])
		t, e := verifapi.EBuildHuffmanTable(r, lens)
		if e != "" {
			return "err " + e, "BuildHuffmanTable"
		}
		syms, end := verifapi.EDecodeSymbols(t, r, data, atoi(f[4]), atoi(f[5]))
		return fmt.Sprintf("ok n=%d tbl=%s dec=%s end=%s", len(t), veTableDigest(t), veInts(syms), end), "BuildHuffmanTable+ReadSymbol"
	case "vecanon":
		lens, _ := veParseInts(f[1])
		c := verifapi.ECanonicalCodes(veU8(lens))
		o := make([]int, len(c))
		for i, v := range c {
			o[i] = int(v)
		}
		return "ok " + veInts(o), "generateCanonicalCodes"
	case "vecltok":
		lens, _ := veParseInts(f[1])
		codes, extras := verifapi.ECodeLengthTokens(veU8(lens))
		if len(codes) == 0 {
			return "ok -", "BuildCodeLengthTokens"
		}
		s := make([]string, len(codes))
		for i := range codes {
			s[i] = fmt.Sprintf("%d:%d", codes[i], extras[i])
		}
		return "ok " + strings.Join(s, ","), "BuildCodeLengthTokens"
	case "vestore":
		lens, _ := veParseInts(f[1])
		return "ok " + hx(verifapi.EStoreHuffmanCode(veU8(lens))) + " rt=1", "StoreHuffmanCode"
	case "vecopy":
		px, _ := ltPxParse(f[4])
		return "ok " + ltPxHex(verifapi.ECopyBlock32(px, atoi(f[1]), atoi(f[2]), atoi(f[3]))), "copyBlock32"
	case "veloop":
		w, h, cb := atoi(f[1]), atoi(f[2]), atoi(f[3])
		ts, _ := veParseToks(f[4])
		img := verifapi.EEncodeEntropyImage(w, h, cb, veRefs(ts), make([]uint32, w*h+8192))
		px, err := verifapi.EDecodeEntropyImage(img.Bytes, w, h)
		if err != nil {
			return "err", "decodeImageData"
		}
		return "ok " + ltPxHex(px), "decodeImageData"
	case "veemit":
		w, h, cb := atoi(f[1]), atoi(f[2]), atoi(f[3])
		ts, _ := veParseToks(f[4])
		img := verifapi.EEncodeEntropyImage(w, h, cb, veRefs(ts), make([]uint32, w*h+8192))
		return "ok " + hx(img.Bytes) + " dec=1", "storeImageData"
	case "vegroup":
		parts := strings.Split(f[1], ";")
		var lens [5][]uint8
		for j := 0; j < 5; j++ {
			l, _ := veParseInts(parts[j])
			lens[j] = veU8(l)
		}
		cb := 0
		for b := 1; b <= 11; b++ {
			if len(lens[0]) == 280+(1<<uint(b)) {
				cb = b
			}
		}
		g, err := verifapi.EReadGroup(lens, cb)
		if err != nil {
			return "err", "readHuffmanCodes"
		}
		tbl := "-"
		if g.UsePackedTable {
			var bb []byte
			for i := range g.PackedBits {
				v := g.PackedValue[i]
				bb = append(bb, byte(g.PackedBits[i]>>8), byte(g.PackedBits[i]), byte(v>>24), byte(v>>16), byte(v>>8), byte(v))
			}
			tbl = digest(bb)
		}
		return fmt.Sprintf("ok tl=%s tc=%s pk=%s arb=%08x tbl=%s", b2s(g.IsTrivialLiteral), b2s(g.IsTrivialCode),
			b2s(g.UsePackedTable), g.LiteralARB, tbl), "readHuffmanCodes+buildPackedTable"
	case "velc":
		cb := atoi(f[1])
		px, _ := ltPxParse(f[2])
		ts, _ := veParseToks(f[3])
		out := verifapi.ERefsWithLocalCache(px, cb, veRefs(ts))
		ots := make([]veTok, len(out))
		for i, r := range out {
			switch r.Kind {
			case 0:
				ots[i] = veTok{kind: 'l', argb: r.Argb}
			case 1:
				ots[i] = veTok{kind: 'k', a: r.Idx}
			default:
				ots[i] = veTok{kind: 'c', a: r.Len, b: r.Dist}
			}
		}
		return "ok " + veTokStr(ots) + " same=1", "BackwardRefsWithLocalCache"
	case "vewr":
		var vals []uint32
		var ns []int
		if f[1] != "-" {
			for _, c := range strings.Split(f[1], ",") {
				p := strings.Split(c, ":")
				v, _ := strconv.ParseUint(p[0], 10, 32)
				vals = append(vals, uint32(v))
				ns = append(ns, atoi(p[1]))
			}
		}
		return "ok " + hx(verifapi.EWriteBits(vals, ns)), "LosslessWriter.WriteBits"
	case "verd":
		ns, _ := veParseInts(f[2])
		vals, eos := verifapi.EReadBits(unhx(f[1]), ns)
		if len(vals) == 0 {
			return "ok -", "LosslessReader.ReadBits"
		}
		s := make([]string, len(vals))
		for i := range vals {
			s[i] = fmt.Sprintf("%d:%s", vals[i], b2s(eos[i]))
		}
		return "ok " + strings.Join(s, ","), "LosslessReader.ReadBits"
	}
	return "bad-op", f[0]
}

func vePropertyOf(op string) string {
	switch op {
	case "vecanon", "vecltok", "vestore", "veemit", "velc", "vewr":
		return "C01"
	}
	return "C03"
}

// ---------- generators ----------

// veCompleteDepths returns the leaf depths of a random full binary tree with k leaves, depth <= 15.
// skew: 0 = random leaf, 1 = always the deepest splittable leaf, 2 = always the shallowest.
func veCompleteDepths(r *RNG, k, skew int) []int {
	d := []int{0}
	if k == 1 {
		return []int{1 + r.Intn(15)}
	}
	for len(d) < k {
		best := -1
		for try := 0; try < 64 && best < 0; try++ {
			i := r.Intn(len(d))
			if d[i] < 15 {
				best = i
			}
		}
		if skew != 0 {
			best = -1
			for i, v := range d {
				if v >= 15 {
					continue
				}
				if best < 0 || (skew == 1 && v > d[best]) || (skew == 2 && v < d[best]) {
					best = i
				}
			}
		}
		if best < 0 {
			break
		}
		d[best]++
		d = append(d, d[best])
	}
	return d
}

// veLens scatters the depths over an alphabet of size n.
func veLens(r *RNG, n int, depths []int) []int {
	lens := make([]int, n)
	perm := make([]int, n)
	for i := range perm {
		perm[i] = i
	}
	for i := 0; i < len(depths) && i < n; i++ {
		j := i + r.Intn(n-i)
		perm[i], perm[j] = perm[j], perm[i]
		lens[perm[i]] = depths[i]
	}
	return lens
}

var veAlphabets = []int{19, 40, 256, 280, 2328, 2, 3, 24, 296, 1304}

type veBatch struct {
	rep   *Report
	lines []string
	tags  []string
}

func (b *veBatch) add(tag, format string, a ...any) {
	b.lines = append(b.lines, fmt.Sprintf(format, a...))
	b.tags = append(b.tags, tag)
}

func veMaxInt(a []int) int {
	m := 0
	for _, v := range a {
		if v > m {
			m = v
		}
	}
	return m
}

// tableCases: one valid length vector + mutants, with bit strings.
func (b *veBatch) tableCases(r *RNG, ci int) {
	rep := b.rep
	n := veAlphabets[r.Intn(len(veAlphabets))]
	if ci < len(veAlphabets) {
		n = veAlphabets[ci]
	}
	var lens []int
	shape := ""
	switch k := r.Intn(10); {
	case k == 0:
		shape = "single"
		lens = veLens(r, n, veCompleteDepths(r, 1, 0))
	case k == 1:
		shape = "two"
		lens = veLens(r, n, []int{1, 1})
	case k == 2:
		shape = "skew15"
		kk := 16
		if kk > n {
			kk = n
		}
		lens = veLens(r, n, veCompleteDepths(r, kk, 1))
	case k == 3:
		shape = "huffman"
		hist := make([]uint32, n)
		used := 1 + r.Intn(n)
		for i := 0; i < used; i++ {
			hist[r.Intn(n)] += uint32(1 + r.Intn(1<<uint(r.Intn(20))))
		}
		lens = veFromU8(verifapi.ECreateHuffmanTree(hist, 15))
	case k == 4:
		shape = "flat"
		kk := 1 << uint(r.Intn(12))
		for kk > n {
			kk >>= 1
		}
		lens = veLens(r, n, veCompleteDepths(r, kk, 2))
	default:
		shape = "random-tree"
		kk := 2 + r.Intn(n-1)
		if r.Chance(1, 2) && kk > 40 {
			kk = 2 + r.Intn(40)
		}
		lens = veLens(r, n, veCompleteDepths(r, kk, 0))
	}
	rep.Count("table:shape:" + shape)
	rep.Count(fmt.Sprintf("table:alphabet:%d", n))
	rep.Count(fmt.Sprintf("table:maxlen:%d", veMaxInt(lens)))
	variants := [][]int{lens}
	vtag := []string{"valid"}
	// invalid mutants
	nz := []int{}
	for i, v := range lens {
		if v > 0 {
			nz = append(nz, i)
		}
	}
	mut := func(tag string, f func(l []int)) {
		l := append([]int(nil), lens...)
		f(l)
		variants = append(variants, l)
		vtag = append(vtag, tag)
	}
	if len(nz) > 0 {
		i := nz[r.Intn(len(nz))]
		mut("under:drop", func(l []int) { l[i] = 0 })
		if lens[i] < 15 {
			mut("under:longer", func(l []int) { l[i]++ })
		}
		if lens[i] > 1 {
			mut("over:shorter", func(l []int) { l[i]-- })
		}
		mut("over:extra", func(l []int) {
			for j := range l {
				if l[j] == 0 {
					l[j] = 1 + r.Intn(15)
					return
				}
			}
			l[0] = 1
		})
		mut("range:16", func(l []int) { l[i] = 16 + r.Intn(3) })
	}
	mut("allzero", func(l []int) {
		for j := range l {
			l[j] = 0
		}
	})
	if r.Chance(1, 4) {
		mut("arbitrary", func(l []int) {
			for j := range l {
				if r.Chance(1, 3) {
					l[j] = r.Intn(16)
				}
			}
		})
	}
	for vi, l := range variants {
		rep.Count("table:variant:" + strings.SplitN(vtag[vi], ":", 2)[0])
		ls := veInts(l)
		data := r.Bytes(8 + r.Intn(24))
		if r.Chance(1, 5) { // long runs of ones / zeros reach the longest codes
			for i := range data {
				if r.Chance(3, 4) {
					data[i] = 0xff
				}
			}
		}
		b.add("table/"+vtag[vi], "vetab 8 %s %s %d %d", ls, hx(data), r.Intn(9), 40)
		roots := []int{7, 1 + r.Intn(10)}
		for _, rb := range roots {
			b.add("table/"+vtag[vi], "vesize %d %s", rb, ls)
			max := 0
			if veMaxInt(l) <= rb {
				max = 40
			}
			b.add("table/"+vtag[vi], "vetab %d %s %s %d %d", rb, ls, hx(data), r.Intn(9), max)
		}
		b.add("table/"+vtag[vi], "vesize 8 %s", ls)
		if vi == 0 || r.Chance(1, 3) {
			ok := true
			for _, v := range l {
				if v > 15 {
					ok = false
				}
			}
			if ok {
				b.add("canon/"+vtag[vi], "vecanon %s", ls)
			}
		}
	}
	// code-length code tables (alphabet 19, limit 7, root 7) as the decoder builds them
	hist := make([]uint32, 19)
	for i := 0; i < 1+r.Intn(19); i++ {
		hist[r.Intn(19)] += uint32(1 + r.Intn(200))
	}
	cl := veFromU8(verifapi.ECreateHuffmanTree(hist, 7))
	b.add("table/cl7", "vetab 7 %s %s %d %d", veInts(cl), hx(r.Bytes(8+r.Intn(8))), r.Intn(9), 40)
	rep.Count("table:cl7")
}

func (b *veBatch) tokenLensCases(r *RNG) {
	rep := b.rep
	n := veAlphabets[r.Intn(5)]
	lens := make([]int, 0, n)
	prevVals := []int{8, 8, 1 + r.Intn(15), 1 + r.Intn(15), 0}
	for len(lens) < n {
		v := prevVals[r.Intn(len(prevVals))]
		if r.Chance(1, 3) {
			v = r.Intn(16)
		}
		run := 1 + r.Intn(12)
		switch r.Intn(6) {
		case 0:
			run = 1 + r.Intn(3)
		case 1:
			run = 130 + r.Intn(300)
		case 2:
			run = []int{2, 3, 6, 7, 8, 9, 10, 11, 12, 138, 139, 140, 276, 277}[r.Intn(14)]
		}
		for i := 0; i < run && len(lens) < n; i++ {
			lens = append(lens, v)
		}
	}
	rep.Count(fmt.Sprintf("cltok:alphabet:%d", n))
	b.add("cltok", "vecltok %s", veInts(lens))
}

func (b *veBatch) storeCases(r *RNG) {
	rep := b.rep
	n := veAlphabets[r.Intn(5)]
	var lens []int
	kind := ""
	switch r.Intn(7) {
	case 0:
		kind = "empty"
		lens = make([]int, n)
	case 1:
		kind = "one"
		lens = veLens(r, n, []int{1 + r.Intn(15)})
	case 2:
		kind = "two"
		lens = veLens(r, n, []int{1, 1})
	case 3:
		kind = "huffman"
		hist := make([]uint32, n)
		for i := 0; i < 1+r.Intn(n); i++ {
			hist[r.Intn(n)] += uint32(1 + r.Intn(1000))
		}
		lens = veFromU8(verifapi.ECreateHuffmanTree(hist, 15))
	case 4:
		kind = "sparse-tail" // long zero tail → trimmed length
		kk := 2 + r.Intn(10)
		lens = make([]int, n)
		for i, d := range veCompleteDepths(r, kk, 0) {
			lens[i*(1+r.Intn(3))%(n/2+1)] = d
		}
		// repair possible collisions: fall back to a prefix placement
		cnt := 0
		for _, v := range lens {
			if v > 0 {
				cnt++
			}
		}
		if cnt != kk {
			lens = make([]int, n)
			copy(lens, veCompleteDepths(r, kk, 0))
		}
	default:
		kind = "tree"
		kk := 3 + r.Intn(n-2)
		if r.Chance(2, 3) && kk > 30 {
			kk = 3 + r.Intn(28)
		}
		lens = veLens(r, n, veCompleteDepths(r, kk, r.Intn(2)))
	}
	rep.Count("store:kind:" + kind)
	cl := verifapi.ECodeLengthTree(veU8(lens))
	b.add("store/"+kind, "vestore %s %s", veInts(lens), veInts(veFromU8(cl)))
}

func (b *veBatch) copyCases(r *RNG) {
	n := 1 + r.Intn(80)
	px := make([]uint32, n)
	for i := range px {
		px[i] = uint32(r.Next())
	}
	pos := 1 + r.Intn(n)
	if pos > n-1 && n > 1 {
		pos = 1 + r.Intn(n-1)
	}
	if pos >= n {
		pos = n - 1
	}
	if pos < 1 {
		return
	}
	dist := 1 + r.Intn(pos)
	if r.Chance(1, 3) {
		dist = 1 + r.Intn(min(pos, 4))
	}
	length := r.Intn(n - pos + 1)
	switch {
	case dist >= length:
		b.rep.Count("copy:memmove")
	case dist == 1:
		b.rep.Count("copy:fill")
	default:
		b.rep.Count("copy:doubling")
	}
	b.add("copy", "vecopy %d %d %d %s", pos, dist, length, ltPxHex(px))
}

// veTokens builds a token list for a w×h image; bad selects an error to plant (0 = none).
func veTokens(r *RNG, w, h, cb, bad int) []veTok {
	npix := w * h
	ncol := 1 + r.Intn(6)
	if r.Chance(1, 6) {
		ncol = 1 // trivial code
	}
	if r.Chance(1, 6) {
		ncol = 200
	}
	pal := make([]uint32, ncol)
	for i := range pal {
		pal[i] = uint32(r.Next())
		if r.Chance(1, 2) {
			pal[i] |= 0xff000000
		}
		if ncol <= 3 && r.Chance(1, 2) {
			pal[i] &= 0xff00ff00 // few green values, fixed red/blue: trivial literal / packed table
		}
	}
	var ts []veTok
	pos := 0
	badAt := -1
	if bad != 0 {
		badAt = r.Intn(npix)
	}
	for pos < npix {
		if bad != 0 && pos >= badAt {
			switch bad {
			case 1:
				ts = append(ts, veTok{kind: 'c', a: 1 + r.Intn(4), b: pos + 1 + r.Intn(5)})
			default:
				ts = append(ts, veTok{kind: 'c', a: npix - pos + 1 + r.Intn(5), b: 1 + r.Intn(pos+1)})
				if pos == 0 {
					ts[len(ts)-1].b = 1
				}
			}
			return ts
		}
		k := r.Intn(10)
		switch {
		case k < 3 && pos > 0:
			dist := 1 + r.Intn(pos)
			if r.Chance(1, 2) {
				dist = 1 + r.Intn(min(pos, 3))
			}
			if r.Chance(1, 4) && pos >= w {
				dist = w - r.Intn(min(w, 2)) // the row above: plane codes
				if dist < 1 {
					dist = 1
				}
			}
			length := 1 + r.Intn(min(npix-pos, 20))
			if r.Chance(1, 8) {
				length = 1 + r.Intn(npix-pos)
			}
			ts = append(ts, veTok{kind: 'c', a: length, b: dist})
			pos += length
		case k < 5 && cb > 0:
			ts = append(ts, veTok{kind: 'k', a: r.Intn(1 << uint(cb))})
			pos++
		default:
			ts = append(ts, veTok{kind: 'l', argb: pal[r.Intn(ncol)]})
			pos++
		}
	}
	return ts
}

func (b *veBatch) loopCases(r *RNG) {
	rep := b.rep
	w, h := 1+r.Intn(14), 1+r.Intn(9)
	if r.Chance(1, 10) {
		w, h = 1+r.Intn(40), 1+r.Intn(40)
	}
	cb := 0
	if r.Chance(2, 3) {
		cb = 1 + r.Intn(11)
	}
	bad := 0
	if r.Chance(1, 8) {
		bad = 1 + r.Intn(2)
	}
	ts := veTokens(r, w, h, cb, bad)
	rep.Count(fmt.Sprintf("loop:cachebits:%d", cb))
	rep.Count(fmt.Sprintf("loop:bad:%d", bad))
	nl, nc, nk, ov := 0, 0, 0, 0
	for _, t := range ts {
		switch t.kind {
		case 'l':
			nl++
		case 'c':
			nc++
			if t.b < t.a {
				ov++
			}
		default:
			nk++
		}
	}
	rep.CountN("loop:tokens:literal", nl)
	rep.CountN("loop:tokens:copy", nc)
	rep.CountN("loop:tokens:copy-overlapping", ov)
	rep.CountN("loop:tokens:cache", nk)
	s := veTokStr(ts)
	b.add("loop", "veloop %d %d %d %s", w, h, cb, s)
	if bad == 0 {
		img := verifapi.EEncodeEntropyImage(w, h, cb, veRefs(ts), make([]uint32, w*h+8192))
		var ls, cs []string
		for j := 0; j < 5; j++ {
			ls = append(ls, veInts(veFromU8(img.Lens[j])))
			cs = append(cs, veInts(veFromU8(img.CLLens[j])))
		}
		b.add("emit", "veemit %d %d %d %s %s %s", w, h, cb, s, strings.Join(ls, ";"), strings.Join(cs, ";"))
	}
}

// groupCases: five decoder-side length vectors (simple codes already with lengths 1) of varying
// depth, so that trivial-code, trivial-literal, packed-table and general groups all occur.
func (b *veBatch) groupCases(r *RNG) {
	cb := 0
	if r.Chance(1, 3) {
		cb = 1 + r.Intn(11)
	}
	sizes := []int{280, 256, 256, 256, 40}
	if cb > 0 {
		sizes[0] += 1 << uint(cb)
	}
	profile := r.Intn(5) // 0: all single, 1: tiny codes, 2: small, 3: anything, 4: deep green, rest single
	var ls []string
	for j := 0; j < 5; j++ {
		n := sizes[j]
		k := 1
		switch profile {
		case 1:
			k = 1 + r.Intn(2)
		case 2:
			k = 1 + r.Intn(4)
		case 3:
			k = 1 + r.Intn(min(n, 60))
		case 4:
			if j == 0 {
				k = 8 + r.Intn(60)
			}
		}
		if j == 0 && r.Chance(1, 2) && k == 1 && profile > 0 {
			k = 2
		}
		var lens []int
		if k == 1 {
			lens = veLens(r, n, []int{1})
		} else {
			lens = veLens(r, n, veCompleteDepths(r, k, r.Intn(3)))
		}
		ls = append(ls, veInts(lens))
	}
	b.rep.Count(fmt.Sprintf("group:profile:%d", profile))
	var ws []int
	for i := 0; i < 12; i++ {
		ws = append(ws, int(r.Next()&0xffffffff))
	}
	b.add("group", "vegroup %s %s", strings.Join(ls, ";"), veInts(ws))
}

// lcCases: a cache-free token list, the image it stands for (from the Go decoder), and the rewrite.
func (b *veBatch) lcCases(r *RNG) {
	w, h := 1+r.Intn(30), 1
	if r.Chance(1, 3) {
		w = 30 + r.Intn(200)
	}
	ts := veTokens(r, w, h, 0, 0)
	img := verifapi.EEncodeEntropyImage(w, h, 0, veRefs(ts), make([]uint32, w*h+8192))
	px, err := verifapi.EDecodeEntropyImage(img.Bytes, w, h)
	if err != nil {
		return
	}
	cb := r.Intn(12)
	b.rep.Count(fmt.Sprintf("localcache:bits:%d", cb))
	b.add("localcache", "velc %d %s %s", cb, ltPxHex(px), veTokStr(ts))
}

func (b *veBatch) bitCases(r *RNG) {
	// writer
	n := r.Intn(30)
	var cs []string
	masked := true
	for i := 0; i < n; i++ {
		nb := r.Intn(33)
		if r.Chance(1, 3) {
			nb = r.Intn(9)
		}
		var v uint64
		if nb > 0 {
			v = r.Next() & (1<<uint(nb) - 1)
		}
		if r.Chance(1, 40) { // WriteBits does not mask
			v = r.Next() & 0xffffffff
			masked = false
		}
		cs = append(cs, fmt.Sprintf("%d:%d", v, nb))
	}
	if masked {
		b.rep.Count("writer:masked")
	} else {
		b.rep.Count("writer:unmasked-value")
	}
	if len(cs) == 0 {
		b.add("writer", "vewr -")
	} else {
		b.add("writer", "vewr %s", strings.Join(cs, ","))
	}
	// reader
	dl := r.Intn(24)
	data := r.Bytes(dl)
	var ns []int
	total := 0
	for total <= 8*dl+40 && len(ns) < 60 {
		nb := r.Intn(25)
		if r.Chance(1, 50) {
			nb = 25 + r.Intn(8)
		}
		ns = append(ns, nb)
		total += nb
	}
	switch {
	case dl < 8:
		b.rep.Count("reader:len<8")
	case dl == 8:
		b.rep.Count("reader:len=8")
	default:
		b.rep.Count("reader:len>8")
	}
	b.add("reader", "verd %s %s", hx(data), veInts(ns))
}

// ---------- suite ----------

func suiteVP8LEntropy(rep *Report) error {
	rep.Rule = "random prefix-code length vectors (random / skewed-to-15 / flat full binary trees, CreateHuffmanTree outputs, single and two symbols; alphabets 19/40/256/280/2328 and others) with under-/over-subscribed, out-of-range and all-zero mutants, decoded on random bit strings with root sizes 8, 7 and 1..10; canonical codes; code-length RLE tokens with long/short runs; StoreHuffmanCode; copyBlock32 (memmove / fill / doubling); token lists (literals from small palettes, overlapping copies, cache indices, cache bits 0..11, planted copy errors) run through the real emitter and decoder; WriteBits/ReadBits sequences. A case is non-trivial if its protocol line is longer than 24 characters"
	b := &veBatch{rep: rep}
	nTable, nTok, nStore, nCopy, nLoop, nBits := 260, 300, 300, 1500, 1500, 600
	if rep.Tier == "thorough" {
		nTable, nTok, nStore, nCopy, nLoop, nBits = 4000, 5000, 5000, 40000, 40000, 10000
	}
	ci := uint64(0)
	for i := 0; i < nTable; i++ {
		b.tableCases(NewRNG(rep.Seed, ci), i)
		ci++
	}
	for i := 0; i < nTok; i++ {
		b.tokenLensCases(NewRNG(rep.Seed, ci))
		ci++
	}
	for i := 0; i < nStore; i++ {
		b.storeCases(NewRNG(rep.Seed, ci))
		ci++
	}
	for i := 0; i < nCopy; i++ {
		b.copyCases(NewRNG(rep.Seed, ci))
		ci++
	}
	for i := 0; i < nLoop; i++ {
		b.loopCases(NewRNG(rep.Seed, ci))
		ci++
	}
	for i := 0; i < nBits; i++ {
		b.bitCases(NewRNG(rep.Seed, ci))
		ci++
	}
	for i := 0; i < nBits; i++ {
		b.lcCases(NewRNG(rep.Seed, ci))
		ci++
	}
	for i := 0; i < nBits; i++ {
		b.groupCases(NewRNG(rep.Seed, ci))
		ci++
	}
	// getNextKey: exhaustive over lengths 1..15 for small keys, sampled above
	r := NewRNG(rep.Seed, ci)
	for l := 1; l <= 15; l++ {
		for k := 0; k < 40; k++ {
			key := r.Intn(1 << uint(l))
			if k == 0 {
				key = 1<<uint(l) - 1
			}
			b.add("nextkey", "venextkey %d %d", key, l)
		}
	}
	return b.run()
}

func (b *veBatch) run() error {
	rep := b.rep
	gos := make([]string, len(b.lines))
	fns := make([]string, len(b.lines))
	pms := make([]string, len(b.lines))
	{
		var wg sync.WaitGroup
		nw := runtime.NumCPU()
		for wk := 0; wk < nw; wk++ {
			wg.Add(1)
			go func(wk int) {
				defer wg.Done()
				for i := wk; i < len(b.lines); i += nw {
					f := strings.Split(b.lines[i], " ")
					gos[i], pms[i] = guard(func() string {
						g, fn := goVE(f)
						fns[i] = fn
						return g
					})
				}
			}(wk)
		}
		wg.Wait()
	}
	lean, err := RunDriver(b.lines)
	if err != nil {
		return err
	}
	for i, l := range lean {
		op := strings.SplitN(b.lines[i], " ", 2)[0]
		rep.Count("op:" + op)
		if op == "vegroup" && strings.HasPrefix(gos[i], "ok ") {
			fl := strings.Fields(gos[i])
			if len(fl) >= 4 {
				rep.Count("group:flags:" + fl[1] + "," + fl[2] + "," + fl[3])
			}
		}
		if op == "vetab" {
			rep.Count("table:result:" + strings.SplitN(gos[i]+" ", " ", 2)[0])
		}
		rep.Eval(len(b.lines[i]) > 24, []byte(b.lines[i]))
		prop := vePropertyOf(op)
		if gos[i] == "panic" {
			rep.Add(Finding{Kind: "property", Property: prop, Signature: "vp8lentropy:go-panic:" + fns[i],
				Detail: fmt.Sprintf("%s: %s", short(b.lines[i], 200), pms[i]), Input: map[string]any{"op": op, "line": b.lines[i]}})
			continue
		}
		if strings.HasPrefix(l, "mismatch") {
			rep.Add(Finding{Kind: "property", Property: prop, Signature: "vp8lentropy-theorem:" + strings.TrimPrefix(l, "mismatch "),
				Detail: fmt.Sprintf("(%s) %s: implementation model and specification disagree inside Lean: %q (go=%q)", b.tags[i], short(b.lines[i], 160), l, short(gos[i], 120)),
				Input:  map[string]any{"op": op, "line": b.lines[i]}})
			continue
		}
		if l != gos[i] {
			fn := fns[i]
			if fn == "" {
				fn = op
			}
			rep.Add(Finding{Kind: "correspondence", Property: prop, Signature: "vp8lentropy-model:" + fn,
				Detail: fmt.Sprintf("(%s) %s: go=%q lean=%q", b.tags[i], short(b.lines[i], 160), short(gos[i], 200), short(l, 200)),
				Input:  map[string]any{"op": op, "line": b.lines[i]}})
		}
		if i%2503 == 0 {
			rep.Sample(map[string]any{"line": short(b.lines[i], 160), "go": short(gos[i], 100), "tag": b.tags[i]})
		}
	}
	return nil
}

// replayVE re-executes one protocol line on Go and on the Lean driver.
func replayVE(in map[string]any) int {
	line, _ := in["line"].(string)
	f := strings.Split(line, " ")
	if len(f) < 2 {
		fmt.Println("bad replay line")
		return 2
	}
	g, pm := guard(func() string { s, _ := goVE(f); return s })
	lean, err := RunDriver([]string{line})
	if err != nil {
		fmt.Println(err)
		return 2
	}
	fmt.Println("go:  ", short(g, 400), pm)
	fmt.Println("lean:", short(lean[0], 400))
	if g == "panic" || g != lean[0] {
		return 1
	}
	return 0
}
