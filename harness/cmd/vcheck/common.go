package main

import (
	"encoding/hex"
	"encoding/json"
	"fmt"
	"os"
	"sort"
	"strings"
	"sync"
	"sync/atomic"
	"time"
)

// Finding is one disagreement (model vs implementation) or property violation.
type Finding struct {
	Kind      string         `json:"kind"`      // "correspondence" | "property"
	Property  string         `json:"property"`  // Cxx this finding counts against
	Signature string         `json:"signature"` // site/class, compared with known_findings.json
	Detail    string         `json:"detail"`
	Input     map[string]any `json:"input"` // literal inputs for the replay
}

// Report is what a suite run writes for ./check.
type Report struct {
	Suite        string         `json:"suite"`
	Tier         string         `json:"tier"`
	Seed         uint64         `json:"seed"`
	Evaluations  int            `json:"evaluations"`
	Distinct     int            `json:"distinct_nontrivial"`
	Rule         string         `json:"rule"`
	Samples      []any          `json:"samples"`
	Distribution map[string]int `json:"distribution"`
	Findings     []Finding      `json:"findings"`
	Notes        []string       `json:"notes,omitempty"`
	Exhaustive   bool           `json:"exhaustive,omitempty"`
	Extra        map[string]any `json:"extra,omitempty"`

	mu       sync.Mutex
	distinct map[uint64]struct{}
	sigSeen  map[string]int
}

func NewReport(suite, tier string, seed uint64) *Report {
	return &Report{Suite: suite, Tier: tier, Seed: seed, Distribution: map[string]int{},
		distinct: map[uint64]struct{}{}, sigSeen: map[string]int{}, Extra: map[string]any{}}
}

func (r *Report) Count(key string) {
	r.mu.Lock()
	r.Distribution[key]++
	r.mu.Unlock()
}

func (r *Report) CountN(key string, n int) {
	r.mu.Lock()
	r.Distribution[key] += n
	r.mu.Unlock()
}

// Eval records one evaluated case; nontrivial cases are hashed for the distinct count.
func (r *Report) Eval(nontrivial bool, key []byte) {
	r.mu.Lock()
	r.Evaluations++
	if nontrivial {
		r.distinct[fnv1a(key)] = struct{}{}
	}
	r.mu.Unlock()
}

func (r *Report) Sample(v any) {
	r.mu.Lock()
	if len(r.Samples) < 6 {
		r.Samples = append(r.Samples, v)
	}
	r.mu.Unlock()
}

// Add records a finding; at most 5 per signature are kept (shortest inputs first is the caller's job).
func (r *Report) Add(f Finding) {
	r.mu.Lock()
	r.sigSeen[f.Property+"|"+f.Signature]++
	if r.sigSeen[f.Property+"|"+f.Signature] <= 5 {
		r.Findings = append(r.Findings, f)
	}
	r.mu.Unlock()
}

func (r *Report) Write(path string) error {
	r.Distinct = len(r.distinct)
	sort.SliceStable(r.Findings, func(i, j int) bool { return r.Findings[i].Signature < r.Findings[j].Signature })
	b, err := json.MarshalIndent(r, "", " ")
	if err != nil {
		return err
	}
	return os.WriteFile(path, b, 0o644)
}

func fnv1a(b []byte) uint64 {
	h := uint64(14695981039346656037)
	for _, c := range b {
		h ^= uint64(c)
		h *= 1099511628211
	}
	return h
}

func digest(b []byte) string { return fmt.Sprintf("%d:%d", len(b), fnv1a(b)) }

func digestOpt(b []byte) string {
	if b == nil {
		return "nil"
	}
	return digest(b)
}

func b2s(b bool) string {
	if b {
		return "1"
	}
	return "0"
}

func hx(b []byte) string {
	if len(b) == 0 {
		return "-"
	}
	return hex.EncodeToString(b)
}

func unhx(s string) []byte {
	if s == "-" {
		return nil
	}
	b, _ := hex.DecodeString(s)
	return b
}

func join(xs []string, sep string) string { return strings.Join(xs, sep) }

// guard runs f and maps a panic to the canonical line "panic".
func guard(f func() string) (out string, panicMsg string) {
	defer func() {
		if e := recover(); e != nil {
			out = "panic"
			panicMsg = fmt.Sprint(e)
		}
	}()
	return f(), ""
}

// hangLimit is the per-call deadline of guardT (VERIF_HANG_S overrides it, for experiments).
var hangLimit = func() time.Duration {
	if v := os.Getenv("VERIF_HANG_S"); v != "" {
		var n int
		if _, err := fmt.Sscan(v, &n); err == nil && n > 0 {
			return time.Duration(n) * time.Second
		}
	}
	return 20 * time.Second
}()

// hangSeen is set by the first call of guardT that ran into its deadline.
var hangSeen atomic.Bool

// guardT is guard with a deadline: f runs in a goroutine of its own; when it has not returned after
// hangLimit the canonical line is "hang" (the goroutine keeps spinning - it cannot be stopped - so the
// suite must finish up and return its report). Once a hang has been seen, further calls answer
// "skipped" without running f, so that at most one spinning goroutine per worker piles up.
func guardT(f func() string) (out string, panicMsg string) {
	if hangSeen.Load() {
		return "skipped", ""
	}
	type res struct{ out, pm string }
	ch := make(chan res, 1)
	go func() {
		o, p := guard(f)
		ch <- res{o, p}
	}()
	t := time.NewTimer(hangLimit)
	defer t.Stop()
	select {
	case r := <-ch:
		return r.out, r.pm
	case <-t.C:
		hangSeen.Store(true)
		return "hang", ""
	}
}

// hangFinding is the C05 finding of a decode entry point that did not return.
func hangFinding(entry, detail string, input map[string]any) Finding {
	return Finding{Kind: "property", Property: "C05", Signature: "hang:" + entry,
		Detail: fmt.Sprintf("%s did not return within %v: %s", entry, hangLimit, detail), Input: input}
}

func short(s string, n int) string {
	if len(s) <= n {
		return s
	}
	return s[:n] + "…"
}
