package main

import (
	"bufio"
	"bytes"
	"fmt"
	"image"
	"os"
	"os/exec"
	"reflect"
	"runtime"
	"runtime/debug"
	"strconv"
	"strings"
	"sync"
	"sync/atomic"
	"syscall"
	"time"

	webp "github.com/deepteams/webp"
	"github.com/deepteams/webp/animation"
	"github.com/deepteams/webp/mux"
)

func init() {
	suites["c05"] = suiteC05
	suites["c05-child"] = suiteC05Child
	replayers["c05"] = replayC05
}

// replayC05 re-runs all entry points on the literal input of a finding (with the in-process deadline).
func replayC05(in map[string]any) int {
	hs, _ := in["hex"].(string)
	data := unhx(hs)
	res, pm := guardT(func() string { return c05One(data) })
	fmt.Printf("go: %s %s\n", res, pm)
	if res == "hang" {
		fmt.Printf("entry point %v did not return within %v\n", c05Entry.Load(), hangLimit)
	}
	if res == "hang" || res == "panic" || strings.HasPrefix(res, "VIOL") {
		return 1
	}
	return 0
}

// payloadMutate flips bits/bytes inside chunk payloads only (container sizes stay consistent),
// so that the codecs, not the container parser, see the damage.
func payloadMutate(r *RNG, src []byte) []byte {
	b := append([]byte(nil), src...)
	chunks := scanChunks(b)
	if len(chunks) == 0 {
		return b
	}
	n := 1 + r.Intn(4)
	for i := 0; i < n; i++ {
		c := chunks[r.Intn(len(chunks))]
		if c.size <= 0 || c.off+8+c.size > len(b) {
			continue
		}
		p := c.off + 8 + r.Intn(c.size)
		switch r.Intn(4) {
		case 0:
			b[p] ^= 1 << uint(r.Intn(8))
		case 1:
			b[p] = byte(r.Next())
		case 2:
			b[p] = []byte{0, 0xff, 0x7f, 0x80}[r.Intn(4)]
		case 3:
			// zero / randomise a run
			l := 1 + r.Intn(16)
			for k := p; k < p+l && k < c.off+8+c.size; k++ {
				if r.Bool() {
					b[k] = 0
				} else {
					b[k] = byte(r.Next())
				}
			}
		}
	}
	return b
}

func c05Inputs(seed uint64, tier string) ([]cInput, []CountCase) {
	in, seeds := containerInputs(seed, tier)
	var counts []CountCase
	var out []cInput
	for i, x := range in {
		if strings.HasPrefix(x.kind, "sweep") && i%5 != 0 {
			continue
		}
		out = append(out, x)
	}
	n := 8000
	if tier == "thorough" {
		n = 400000
	}
	for i := 0; i < n; i++ {
		r := NewRNG(seed, uint64(9000000+i))
		s := seeds[r.Intn(len(seeds))]
		out = append(out, cInput{payloadMutate(r, s.Data), "payload"})
	}
	// declared-dimension extremes on real files: VP8X canvas / VP8L header / VP8 header / ANMF size fields
	for i := 0; i < 400; i++ {
		r := NewRNG(seed, uint64(9900000+i))
		s := seeds[r.Intn(len(seeds))]
		b := append([]byte(nil), s.Data...)
		switch {
		case len(b) > 30 && string(b[12:16]) == "VP8X":
			copy(b[24:30], r.Bytes(6))
			if r.Bool() {
				copy(b[24:30], []byte{0xff, 0x3f, 0, 0xff, 0x3f, 0})
			}
		case len(b) > 25 && string(b[12:16]) == "VP8L":
			copy(b[21:25], r.Bytes(4))
			b[24] &= 0x1f
		case len(b) > 30 && string(b[12:16]) == "VP8 ":
			copy(b[26:30], r.Bytes(4))
		}
		out = append(out, cInput{b, "dims"})
	}
	// threshold-crossing valid files (WideSeeds: widths around 1024 / 2048 / 4096 x heights 1..4 as lossy,
	// lossy+alpha, lossless and as ANMF frames, small payloads), whole and with payload-only mutations: the
	// per-row buffers of the decode paths (stack scratch of the upsampler, zero pages, row caches) see
	// rows longer than they are on every other input of this suite
	{
		every := 2
		nWideMut := 250
		if tier == "thorough" {
			every, nWideMut = 1, 6000
		}
		wide := WideSeeds(seed, every)
		var extra []cInput
		for _, s := range wide {
			extra = append(extra, cInput{s.Data, "wide"})
		}
		for i := 0; i < nWideMut && len(wide) > 0; i++ {
			r := NewRNG(seed, uint64(9970000+i))
			extra = append(extra, cInput{payloadMutate(r, wide[r.Intn(len(wide))].Data), "wide-payload"})
		}
		// spread over the list (contiguous per-worker ranges)
		merged := make([]cInput, 0, len(out)+len(extra))
		every2 := len(out)/len(extra) + 1
		k := 0
		for i, x := range out {
			merged = append(merged, x)
			if (i+1)%every2 == 0 && k < len(extra) {
				merged = append(merged, extra[k])
				k++
			}
		}
		out = append(merged, extra[k:]...)

		// animations with >= 3 frames of which EXACTLY ONE has a damaged VP8 / VP8L / ALPH payload (all chunk
		// sizes and the frame headers intact, so the container parsers accept the file and only that frame's
		// codec fails): sources are the multi-frame animations of BuildSeeds (mux/*, anim/*), of WideSeeds and
		// the ones built here (3..6 small frames of both codecs through animation.Encoder and mux.Muxer, and
		// 1/2/3/29/30/31 tiny frames - FrameCounts). This is the input class on which DecodeFramesParallel and
		// DecodeFrames must agree frame by frame and on which the caller carries on after the error.
		built, fcs := c05BuildAnims(seed)
		counts = append(counts, fcs...)
		var multi [][]byte
		for _, s := range seeds {
			if len(c05AnimFrames(s.Data)) >= 3 {
				multi = append(multi, s.Data)
			}
		}
		for _, s := range wide {
			if len(c05AnimFrames(s.Data)) >= 3 && len(s.Data) < 20000 {
				multi = append(multi, s.Data)
			}
		}
		var extra2 []cInput
		for _, s := range built {
			extra2 = append(extra2, cInput{s.Data, s.Name})
			if len(c05AnimFrames(s.Data)) >= 3 {
				multi = append(multi, s.Data)
			}
		}
		nOne := 160
		if tier == "thorough" {
			nOne = 8000
		}
		for i := 0; i < nOne && len(multi) > 0; i++ {
			r := NewRNG(seed, uint64(9990000+i))
			if b, what, ok := c05DamageOneFrame(r, multi[i%len(multi)]); ok {
				extra2 = append(extra2, cInput{b, "onedamaged:" + what})
			}
		}
		// metadata chunks whose length sits on the byte thresholds (BlobLens: 8, 1024, 4096, 65536 +-1) in
		// hand-assembled extended files
		metas, mcs := c05MetaLenInputs(seed, tier)
		counts = append(counts, mcs...)
		extra2 = append(extra2, metas...)
		out = c05Spread(out, extra2)
	}
	// streams of the random VP8L writer (gen_vp8l.go) as simple lossless files: codec interiors the
	// encoder never produces - any transform chain, code shapes, cache sizes, and (narrow variant)
	// pictures of width 1..8 full of short 2-D distance codes, among them those that map to a
	// distance below 1. They are spread evenly over the input list (the list is cut into contiguous
	// per-worker ranges and a hanging input costs its worker the 90 s watchdog).
	nSyn := 400
	if tier == "thorough" {
		nSyn = 60000
	}
	syn := make([]cInput, nSyn)
	for i := range syn {
		r := NewRNG(seed, uint64(9950000+i))
		var b []byte
		kind := "synvp8l"
		if i%5 < 3 {
			b, _ = SynVP8LNarrow(r)
			kind = "synvp8l-narrow"
		} else {
			b, _ = SynVP8L(r)
		}
		if len(b) > 12000 {
			// streams with many hundreds of meta prefix-code groups: the decoder's Huffman tables take
			// about 18 KB per group while a group costs the stream about 26 bytes, i.e. the allocation
			// is proportional to the input length but with a constant far above the 64 bytes per input
			// byte of this suite's allocation bound (18.8 MB for a 26 KB stream). That is a question of
			// calibrating the bound, not a behaviour C05 forbids; such streams stay in suite vp8l.
			b, _ = SynVP8LNarrow(NewRNG(seed, uint64(9980000+i)))
			kind = "synvp8l-narrow"
			if len(b) > 12000 {
				b = b[:5]
			}
		}
		syn[i] = cInput{riff(chunk("VP8L", b)), kind}
	}
	merged := make([]cInput, 0, len(out)+len(syn))
	every := len(out)/len(syn) + 1
	k := 0
	for i, x := range out {
		merged = append(merged, x)
		if (i+1)%every == 0 && k < len(syn) {
			merged = append(merged, syn[k])
			k++
		}
	}
	merged = append(merged, syn[k:]...)
	return merged, counts
}

// c05Spread distributes extra evenly over out (the list is cut into contiguous per-worker ranges).
func c05Spread(out, extra []cInput) []cInput {
	if len(extra) == 0 {
		return out
	}
	merged := make([]cInput, 0, len(out)+len(extra))
	every := len(out)/len(extra) + 1
	k := 0
	for i, x := range out {
		merged = append(merged, x)
		if (i+1)%every == 0 && k < len(extra) {
			merged = append(merged, extra[k])
			k++
		}
	}
	return append(merged, extra[k:]...)
}

// c05Span is one sub-chunk (ALPH / VP8 / VP8L) of an ANMF frame: payload offset and size in the file.
type c05Span struct {
	tag       string
	off, size int
}

// c05AnimFrames lists, per ANMF chunk of a well-formed file, the sub-chunks of the frame.
func c05AnimFrames(file []byte) [][]c05Span {
	if len(file) < 20 || string(file[:4]) != "RIFF" || string(file[8:12]) != "WEBP" {
		return nil
	}
	var out [][]c05Span
	for _, c := range scanChunks(file) {
		if c.size < 16 || c.off+8+c.size > len(file) || string(file[c.off:c.off+4]) != "ANMF" {
			continue
		}
		var subs []c05Span
		pos, end := c.off+8+16, c.off+8+c.size
		for pos+8 <= end {
			n := int(uint32(file[pos+4]) | uint32(file[pos+5])<<8 | uint32(file[pos+6])<<16 | uint32(file[pos+7])<<24)
			if n < 0 || pos+8+n > end {
				break
			}
			subs = append(subs, c05Span{string(file[pos : pos+4]), pos + 8, n})
			pos += 8 + n + n&1
		}
		out = append(out, subs)
	}
	return out
}

// c05DamageOneFrame damages the payload bytes of ONE sub-chunk of ONE frame of an animation with at least
// three frames; the first bytes of the payload (VP8L: 5, VP8: 10, ALPH: 1 - what the container-level
// parsers look at) and every size field stay as they are.
func c05DamageOneFrame(r *RNG, file []byte) ([]byte, string, bool) {
	frames := c05AnimFrames(file)
	if len(frames) < 3 {
		return nil, "", false
	}
	for try := 0; try < 8; try++ {
		fi := r.Intn(len(frames))
		subs := frames[fi]
		if len(subs) == 0 {
			continue
		}
		sp := subs[len(subs)-1] // the image chunk comes last
		if len(subs) > 1 && r.Chance(1, 3) {
			sp = subs[r.Intn(len(subs)-1)]
		}
		hdr := map[string]int{"VP8L": 5, "VP8 ": 10, "ALPH": 1}[sp.tag]
		if hdr == 0 || sp.size <= hdr+2 {
			continue
		}
		b := append([]byte(nil), file...)
		p := b[sp.off+hdr : sp.off+sp.size]
		kind := r.Intn(6)
		what := ""
		fill := func(q []byte, mode int) {
			for i := range q {
				switch mode {
				case 0:
					q[i] = 0
				case 1:
					q[i] = 0xff
				default:
					q[i] = byte(r.Next())
				}
			}
		}
		switch kind {
		case 0, 1: // zero / randomise a run in the middle
			l := 2 + r.Intn(mini(30, len(p)-1))
			if l > len(p) {
				l = len(p)
			}
			st := (len(p) - l) / 2
			if len(p)-l > 0 {
				st = r.Intn(len(p) - l + 1)
				if r.Bool() {
					st = (len(p) - l) / 2
				}
			}
			fill(p[st:st+l], []int{0, 2}[kind])
			what = []string{"zero-run", "random-run"}[kind]
		case 2, 3: // the bitstream ends early inside the chunk: its tail is overwritten
			st := len(p)/4 + r.Intn(len(p)/2+1)
			fill(p[st:], []int{0, 1}[kind-2])
			what = []string{"tail-zero", "tail-ff"}[kind-2]
		case 4: // everything behind the header bytes is noise
			fill(p, 2)
			what = "noise-body"
		case 5: // a burst right behind the header (transform / segment / partition headers)
			l := mini(len(p), 1+r.Intn(6))
			fill(p[:l], 2)
			what = "head-burst"
		}
		if bytes.Equal(b, file) {
			continue
		}
		return b, fmt.Sprintf("%s:%s:frame%d/%d", what, strings.TrimSpace(sp.tag), fi, len(frames)), true
	}
	return nil, "", false
}

// c05TinyStreams: a pool of tiny frame bitstreams of both codecs (lossless, lossy, lossy + ALPH) of one size.
func c05TinyStreams(r *RNG, w, h, n int) [][]byte {
	var out [][]byte
	for i := 0; i < n; i++ {
		switch i % 3 {
		case 0:
			out = append(out, rawFrame(r, w, h, true, []int{AlphaNone, AlphaBinary, AlphaGradient}[r.Intn(3)]))
		case 1:
			out = append(out, rawFrame(r, w, h, false, AlphaNone))
		default:
			v, a := lossyWithAlpha(r, w, h, []int{AlphaGradient, AlphaBinary, AlphaFewLevels}[r.Intn(3)], nil)
			out = append(out, alphPrefixed(a, v))
		}
	}
	return out
}

// c05BuildAnims: animations built here - (i) frame counts around the frame thresholds of the code
// (FrameCounts(40): 1, 2, 3 = serial fallback vs parallel frame decoding, 29, 30, 31) out of tiny frames
// through mux.Muxer, (ii) 3..6 small frames of both codecs through mux.Muxer (sub-frames with offsets,
// both blend and dispose modes) and through animation.Encoder (lossless, lossy, mixed).
func c05BuildAnims(seed uint64) ([]Seed, []CountCase) {
	var out []Seed
	var counts []CountCase
	r := NewRNG(seed, 0xC05A0001)
	tiny := c05TinyStreams(r, 2+r.Intn(3), 2+r.Intn(3), 9)
	for ci, fc := range FrameCounts(40) {
		if fc.N < 1 {
			continue
		}
		m := mux.NewMuxer()
		for i := 0; i < fc.N; i++ {
			_ = m.AddFrame(tiny[(i+ci)%len(tiny)], &mux.FrameOptions{Duration: 10 + i, BlendMode: mux.BlendMode(i % 2), DisposeMode: mux.DisposeMode((i / 2) % 2)})
		}
		m.SetLoopCount(ci)
		var buf bytes.Buffer
		if err := m.Assemble(&buf); err == nil {
			out = append(out, Seed{Name: "framecount:" + fc.String(), Data: buf.Bytes()})
			counts = append(counts, fc)
		}
	}
	for k := 0; k < 4; k++ {
		w, h := 8+4*k, 8+3*k
		st := c05TinyStreams(r, w, h, 3)
		sub := c05TinyStreams(r, w/2, h/2, 3)
		m := mux.NewMuxer()
		nf := 3 + (k+int(seed))%4
		for i := 0; i < nf; i++ {
			if i == 0 || i%3 == 0 {
				_ = m.AddFrame(st[(i+k)%3], &mux.FrameOptions{Duration: 20 + i, DisposeMode: mux.DisposeMode(i % 2)})
			} else {
				_ = m.AddFrame(sub[(i+k)%3], &mux.FrameOptions{Duration: 20 + i, OffsetX: 2 * (i % 3), OffsetY: 2 * (k % 2), BlendMode: mux.BlendMode(i % 2), DisposeMode: mux.DisposeMode((i + k) % 2)})
			}
		}
		m.SetCanvasSize(w, h)
		var buf bytes.Buffer
		if err := m.Assemble(&buf); err == nil {
			out = append(out, Seed{Name: fmt.Sprintf("builtanim:mux:%d-frames", nf), Data: buf.Bytes()})
		}
	}
	for k := 0; k < 3; k++ {
		var buf bytes.Buffer
		w, h := 10+3*k, 9+2*k
		enc := animation.NewEncoder(&buf, w, h, &animation.EncodeOptions{Lossless: k == 0, Quality: 70, AllowMixed: k == 2, Kmax: 2 * k})
		nf := 3 + (k+int(seed))%4
		for i := 0; i < nf; i++ {
			// every picture differs from its predecessor everywhere, so that no frame is merged away
			fr := GenImage(r, w, h, []int{ClsNoise, ClsPhoto, ClsPal16}[(i+k)%3], []int{AlphaNone, AlphaBinary, AlphaGradient}[(i+k)%3])
			_ = enc.AddFrame(fr, time.Duration(40+i)*time.Millisecond)
		}
		if err := enc.Close(); err == nil {
			out = append(out, Seed{Name: fmt.Sprintf("builtanim:enc:%d-pictures", nf), Data: buf.Bytes()})
		}
	}
	return out, counts
}

// c05MetaLenInputs: hand-assembled VP8X files (still and two-frame animation) with one ICCP / EXIF / XMP
// chunk whose length is drawn from BlobLens(1<<17).
func c05MetaLenInputs(seed uint64, tier string) ([]cInput, []CountCase) {
	lens := BlobLens(1 << 17)
	n := 5
	if tier == "thorough" {
		n = len(lens)
	}
	var out []cInput
	var counts []CountCase
	r := NewRNG(seed, 0xC05A0002)
	o := webp.DefaultOptions()
	o.Lossless = true
	o.Method = 1
	w, h := 3+r.Intn(6), 2+r.Intn(6)
	vp8l := firstChunkPayload(mustEncode(GenImage(r, w, h, ClsPal16, AlphaNone), o))
	for k := 0; k < n && k < len(lens); k++ {
		c := lens[(k*5+int(seed)*3)%len(lens)]
		if tier == "thorough" {
			c = lens[k]
		}
		blob := r.Bytes(c.N)
		which := (k + int(seed)) % 3
		flag := []byte{0x20, 0x08, 0x04}[which]
		tag := []string{"ICCP", "EXIF", "XMP "}[which]
		var body []byte
		if k%2 == 0 { // still: VP8X [ICCP] VP8L [EXIF] [XMP]
			body = chunk("VP8X", vp8xPayload(flag, w, h))
			if which == 0 {
				body = append(body, chunk(tag, blob)...)
			}
			body = append(body, chunk("VP8L", vp8l)...)
			if which != 0 {
				body = append(body, chunk(tag, blob)...)
			}
		} else { // animation: VP8X [ICCP] ANIM ANMF ANMF ANMF [EXIF] [XMP]
			body = chunk("VP8X", vp8xPayload(flag|0x02, w, h))
			if which == 0 {
				body = append(body, chunk(tag, blob)...)
			}
			body = append(body, chunk("ANIM", []byte{0, 0, 0, 0, 0, 0})...)
			for i := 0; i < 3; i++ {
				ap := append(append(append(append(append(le24(0), le24(0)...), le24(w-1)...), le24(h-1)...), le24(30+i)...), byte(i&1))
				body = append(body, chunk("ANMF", append(ap, chunk("VP8L", vp8l)...))...)
			}
			if which != 0 {
				body = append(body, chunk(tag, blob)...)
			}
		}
		out = append(out, cInput{riff(body), "metalen:" + c.String()})
		counts = append(counts, c)
	}
	return out, counts
}

// suiteC05 (parent): every input goes through all decoding entry points in child processes; a crash
// or hang of a child is attributed to the input it was working on.
func suiteC05(rep *Report) error {
	rep.Rule = "inputs: seed corpus, structure-aware container mutations, hand-assembled layouts, random bytes, RIFF-size sweeps, payload-only mutations (codecs see the damage), declared-dimension extremes, threshold-crossing valid files (widths 1023,1024,1025,1100,2047,2048,2049,4097 x heights 1..4 as lossy, lossy+alpha, lossless and ANMF frames with small payloads - thresholds.go / WideSeeds - whole and payload-mutated), animations built here (1,2,3,29,30,31 tiny frames - FrameCounts - through mux.Muxer; 3..6 small frames of both codecs through mux.Muxer and animation.Encoder), ~160 animations of >= 3 frames with EXACTLY ONE damaged VP8/VP8L/ALPH frame payload (sizes and headers intact: zero/random runs, overwritten tails, noise bodies), hand-assembled VP8X stills/animations with an ICCP/EXIF/XMP chunk of a length on the byte thresholds (BlobLens: 8,1024,4096,65536 +-1), streams of the random VP8L writer as simple lossless files (any transform chain / code shapes / cache sizes; 3 of 5 are pictures of width 1..8 dense in short 2-D distance codes, incl. those mapping to a distance below 1); each input runs through Decode, DecodeConfig, GetFeatures, image.Decode, animation.DecodeBytes->DecodeFrames->NewAnimDecoder->NextFrame*, mux.NewDemuxer+Frame+GetChunk in child processes (panic in any goroutine, hang = 40 s (thorough: 90 s) of the child's CPU time or 3x that of wall time on one input, allocation beyond 64*len + 40*declared_area*(1+frames) + 16 MiB, or a malformed returned image = violation); an independent copy of every parsed animation goes through DecodeFramesParallel and is then USED whatever the call returned: every Frame.Image must be nil or a well-formed image whose dynamic value is not a nil pointer (reflect), Frame.Bounds / NewAnimDecoder / NextFrame up to the first error / Reset / replay must not panic (the play-through is skipped for canvases above 65536 pixels when the parallel call succeeded), and parallel must equal serial (same error, frame i has an image iff it decodes serially, a DecodeFrames retry reports the same error); non-trivial = some entry point accepted the input"
	inputs, countCases := c05Inputs(rep.Seed, rep.Tier)
	for _, c := range countCases {
		CountCount(rep, c)
	}
	dir, err := os.MkdirTemp("", "c05")
	if err != nil {
		return err
	}
	defer os.RemoveAll(dir)
	inFile := dir + "/inputs.txt"
	f, err := os.Create(inFile)
	if err != nil {
		return err
	}
	w := bufio.NewWriterSize(f, 1<<20)
	for _, in := range inputs {
		w.WriteString(hx(in.data))
		w.WriteByte('\n')
	}
	w.Flush()
	f.Close()
	nw := runtime.NumCPU()
	if nw > 12 {
		nw = 12
	}
	// per-input watchdog of the children: no input of the quick tier needs more than a fraction of a
	// second, so 40 s is ample even on a loaded machine; a hanging input costs its worker that long
	hangS := 40
	if rep.Tier == "thorough" {
		hangS = 90
	}
	type res struct {
		status string
		detail string
	}
	results := make([]res, len(inputs))
	var wg sync.WaitGroup
	per := (len(inputs) + nw - 1) / nw
	for k := 0; k < nw; k++ {
		lo, hi := k*per, (k+1)*per
		if hi > len(inputs) {
			hi = len(inputs)
		}
		if lo >= hi {
			continue
		}
		wg.Add(1)
		go func(k, lo, hi int) {
			defer wg.Done()
			for lo < hi {
				outFile := fmt.Sprintf("%s/out_%d_%d.txt", dir, k, lo)
				cmd := exec.Command(os.Args[0], "-suite", "c05-child", "-seed", "0")
				cmd.Env = append(os.Environ(), "C05_INPUT="+inFile, fmt.Sprintf("C05_RANGE=%d:%d", lo, hi), "C05_OUT="+outFile, "GOMEMLIMIT=3GiB", fmt.Sprintf("C05_HANG_S=%d", hangS))
				var eb bytes.Buffer
				cmd.Stderr = &eb
				runErr := cmd.Run()
				last := -1
				if fo, err := os.Open(outFile); err == nil {
					sc := bufio.NewScanner(fo)
					sc.Buffer(make([]byte, 1<<20), 1<<26)
					for sc.Scan() {
						p := strings.SplitN(sc.Text(), " ", 3)
						if len(p) < 2 {
							continue
						}
						i, _ := strconv.Atoi(p[1])
						switch p[0] {
						case "S":
							last = i
						case "R":
							d := ""
							if len(p) > 2 {
								d = p[2]
							}
							st := "ok"
							if strings.HasPrefix(d, "VIOL ") {
								st = "viol"
							}
							results[i] = res{st, d}
						}
					}
					fo.Close()
				}
				if runErr == nil {
					break
				}
				// child died: blame the input it had started
				if last < lo {
					last = lo
				}
				msg := eb.String()
				cls := "crash"
				if strings.Contains(msg, "C05-HANG") {
					cls = "hang"
				}
				results[last] = res{cls, short(firstPanicLine(msg), 300)}
				lo = last + 1
			}
		}(k, lo, hi)
	}
	wg.Wait()
	for i, in := range inputs {
		r := results[i]
		kind := strings.SplitN(in.kind, ":", 2)[0]
		rep.Count("kind:" + kind)
		if kind == "wide" {
			if a, _ := declaredArea(in.data); a > 0 {
				for _, t := range Thresholds {
					if t.Unit == "width" && t.Value >= 1024 && t.Value <= 4096 {
						for _, h := range WideHeights {
							for _, w := range SizesAround(t) {
								if uint64(w*h) == a {
									rep.Count(t.Tag())
								}
							}
						}
					}
				}
			}
		}
		switch r.status {
		case "ok":
			acc := strings.Contains(r.detail, "acc=1")
			rep.Eval(acc, in.data)
			if acc {
				rep.Count("accepted-by-some-entry-point")
			}
			// animations: how many frames failed to decode (the parallel-vs-serial oracle ran on them)
			if k := strings.Index(r.detail, " anim="); k >= 0 {
				f := strings.Fields(r.detail[k+1:])[0]
				rep.Count("anim-frames-failing:" + c05FailBucket(f))
				if kind == "onedamaged" || kind == "framecount" || kind == "builtanim" {
					rep.Count(kind + ":frames-failing:" + c05FailBucket(f))
				}
			}
		case "viol":
			rep.Eval(true, in.data)
			// one input can violate several oracles: "VIOL sig detail ;; VIOL sig detail ..."
			for _, one := range strings.Split(r.detail, c05ViolSep) {
				parts := strings.SplitN(strings.TrimPrefix(one, "VIOL "), " ", 2)
				rep.Add(Finding{Kind: "property", Property: "C05", Signature: parts[0], Detail: fmt.Sprintf("%s (%s, %d bytes)", one, in.kind, len(in.data)),
					Input: map[string]any{"op": "c05", "hex": hx(in.data)}})
			}
		case "crash", "hang":
			rep.Eval(true, in.data)
			sig := r.status + ":" + panicClass(r.detail)
			if r.status == "hang" {
				// "C05-HANG in <entry>: input ..." -> hang:<entry>
				sig = "hang:" + strings.TrimSuffix(strings.SplitN(strings.TrimPrefix(r.detail, "C05-HANG in "), " ", 2)[0], ":")
			}
			rep.Add(Finding{Kind: "property", Property: "C05", Signature: sig, Detail: fmt.Sprintf("child process %s on this input: %s (%s, %d bytes)", r.status, r.detail, in.kind, len(in.data)),
				Input: map[string]any{"op": "c05", "hex": hx(in.data)}})
		default:
			rep.Count("not-run")
		}
	}
	for i := 0; i < len(inputs) && i < 3000; i += 701 {
		rep.Sample(map[string]any{"kind": inputs[i].kind, "hex": short(hx(inputs[i].data), 120), "result": short(results[i].detail, 120)})
	}
	sortFindings(rep)
	return nil
}

const c05ViolSep = " ;; "

// c05FailBucket: "anim=<failing>/<frames>:<path>" -> 0 | 1 | 2+ failing frames, with the decode path
// (serial fallback for <= 2 frames, parallel above).
func c05FailBucket(f string) string {
	var a, b int
	var path string
	f = strings.TrimPrefix(f, "anim=")
	if k := strings.Index(f, ":"); k >= 0 {
		path = f[k+1:]
		f = f[:k]
	}
	fmt.Sscanf(f, "%d/%d", &a, &b)
	switch {
	case a == 0:
		return "0:" + path
	case a == 1:
		return "1:" + path
	}
	return "2+:" + path
}

func firstPanicLine(s string) string {
	for _, l := range strings.Split(s, "\n") {
		if strings.HasPrefix(l, "panic:") || strings.HasPrefix(l, "fatal error:") || strings.Contains(l, "C05-HANG") {
			return l
		}
	}
	if len(s) > 200 {
		return s[:200]
	}
	return s
}

func imageWellFormed(img image.Image) string {
	if img == nil {
		return "nil image with nil error"
	}
	b := img.Bounds()
	if b.Dx() <= 0 || b.Dy() <= 0 {
		return fmt.Sprintf("non-positive bounds %v", b)
	}
	switch im := img.(type) {
	case *image.NRGBA:
		if im.Stride < b.Dx()*4 || len(im.Pix) < (b.Dy()-1)*im.Stride+b.Dx()*4 {
			return fmt.Sprintf("NRGBA buffer too small: len %d stride %d bounds %v", len(im.Pix), im.Stride, b)
		}
	case *image.YCbCr:
		cw, ch := (b.Dx()+1)/2, (b.Dy()+1)/2
		if im.YStride < b.Dx() || len(im.Y) < (b.Dy()-1)*im.YStride+b.Dx() || im.CStride < cw || len(im.Cb) < (ch-1)*im.CStride+cw || len(im.Cr) < (ch-1)*im.CStride+cw {
			return fmt.Sprintf("YCbCr buffers too small for %v", b)
		}
	}
	return ""
}

// declaredArea: the largest picture/canvas area the file's headers declare (best effort, lenient).
func declaredArea(b []byte) (area uint64, frames int) {
	area = 1
	upd := func(w, h int) {
		if a := uint64(w) * uint64(h); a > area {
			area = a
		}
	}
	var walk func(buf []byte, depth int)
	walk = func(buf []byte, depth int) {
		pos := 0
		for pos+8 <= len(buf) {
			n := int(uint32(buf[pos+4]) | uint32(buf[pos+5])<<8 | uint32(buf[pos+6])<<16 | uint32(buf[pos+7])<<24)
			end := pos + 8 + n
			if n < 0 || end > len(buf) || end < pos {
				end = len(buf)
			}
			pl := buf[pos+8 : end]
			switch string(buf[pos : pos+4]) {
			case "VP8X":
				if len(pl) >= 10 {
					upd(1+(int(pl[4])|int(pl[5])<<8|int(pl[6])<<16), 1+(int(pl[7])|int(pl[8])<<8|int(pl[9])<<16))
				}
			case "VP8L":
				if len(pl) >= 5 {
					bits := uint32(pl[1]) | uint32(pl[2])<<8 | uint32(pl[3])<<16 | uint32(pl[4])<<24
					upd(int(bits&0x3fff)+1, int((bits>>14)&0x3fff)+1)
				}
			case "VP8 ":
				if len(pl) >= 10 {
					upd((int(pl[6])|int(pl[7])<<8)&0x3fff, (int(pl[8])|int(pl[9])<<8)&0x3fff)
				}
			case "ANMF":
				frames++
				if len(pl) >= 16 {
					upd(1+(int(pl[6])|int(pl[7])<<8|int(pl[8])<<16), 1+(int(pl[9])|int(pl[10])<<8|int(pl[11])<<16))
					if depth == 0 {
						walk(pl[16:], 1)
					}
				}
			}
			pos = end + n&1
		}
	}
	if len(b) > 12 {
		walk(b[12:], 0)
	}
	return
}

// suiteC05Child executes a range of inputs; one line "S i" before and "R i ..." after each.
func suiteC05Child(rep *Report) error {
	inFile, rng, outFile := os.Getenv("C05_INPUT"), os.Getenv("C05_RANGE"), os.Getenv("C05_OUT")
	var lo, hi int
	fmt.Sscanf(rng, "%d:%d", &lo, &hi)
	fi, err := os.Open(inFile)
	if err != nil {
		return err
	}
	defer fi.Close()
	fo, err := os.Create(outFile)
	if err != nil {
		return err
	}
	defer fo.Close()
	debug.SetGCPercent(50)
	sc := bufio.NewScanner(fi)
	sc.Buffer(make([]byte, 1<<20), 1<<28)
	idx := -1
	var cur int64 = -1
	var curStart time.Time
	var curCPU time.Duration
	var mu sync.Mutex
	limit := 90 * time.Second
	if v, err := strconv.Atoi(os.Getenv("C05_HANG_S")); err == nil && v > 0 {
		limit = time.Duration(v) * time.Second
	}
	go func() { // watchdog
		// An input counts as hanging when this process has burnt `limit` of CPU time on it (a spinning
		// goroutine on an idle machine: after `limit` of wall time, as before) or when 3 x limit of wall
		// time have passed (blocked without using CPU). Measuring CPU time keeps a machine that is
		// overcommitted many times over (a 4-megapixel canvas then takes a minute of wall time) from
		// producing hang findings for inputs that are merely slow.
		for {
			time.Sleep(500 * time.Millisecond)
			mu.Lock()
			c, st, cpu0 := cur, curStart, curCPU
			mu.Unlock()
			if c < 0 {
				continue
			}
			wall, cpu := time.Since(st), c05CPUTime()-cpu0
			if cpu > limit || wall > 3*limit {
				fmt.Fprintf(os.Stderr, "C05-HANG in %s: input %d still running after %v (wall %v, cpu %v)\n", c05Entry.Load().(string), c, limit, wall.Round(time.Second), cpu.Round(time.Second))
				os.Exit(3)
			}
		}
	}()
	for sc.Scan() {
		idx++
		if idx < lo {
			continue
		}
		if idx >= hi {
			break
		}
		data := unhx(sc.Text())
		fmt.Fprintf(fo, "S %d\n", idx)
		fo.Sync()
		mu.Lock()
		cur, curStart, curCPU = int64(idx), time.Now(), c05CPUTime()
		mu.Unlock()
		res := c05One(data)
		mu.Lock()
		cur = -1
		mu.Unlock()
		fmt.Fprintf(fo, "R %d %s\n", idx, res)
	}
	return nil
}

// c05CPUTime: user + system CPU time of this process (all threads).
func c05CPUTime() time.Duration {
	var ru syscall.Rusage
	if err := syscall.Getrusage(syscall.RUSAGE_SELF, &ru); err != nil {
		return 0
	}
	return time.Duration(ru.Utime.Nano() + ru.Stime.Nano())
}

// c05Entry names the entry point the child is in (for the watchdog's message).
var c05Entry atomic.Value

func init() { c05Entry.Store("?") }

// c05One runs all entry points on one input; returns "acc=0|1 ..." or "VIOL <signature> <detail>".
func c05One(data []byte) string {
	area, nfr := declaredArea(data)
	if area > 1<<22 && os.Getenv("C05_BIG") == "" {
		// very large declared pictures: header queries only in-process (full decode is exercised in the
		// thorough tier's big-dimension leg); still must not crash
		s1, pm := guard(func() string { return goConfig(data) })
		if s1 == "panic" {
			return "VIOL panic:DecodeConfig:" + panicClass(pm) + " " + pm
		}
		s2, pm := guard(func() string { return goFeatures(data) })
		if s2 == "panic" {
			return "VIOL panic:GetFeatures:" + panicClass(pm) + " " + pm
		}
		s3, pm := guard(func() string { return goDemux(data) })
		if s3 == "panic" {
			return "VIOL panic:NewDemuxer:" + panicClass(pm) + " " + pm
		}
		return "acc=0 big-declared-area"
	}
	var ms0, ms1 runtime.MemStats
	runtime.ReadMemStats(&ms0)
	acc := 0
	viol := ""
	try := func(name string, f func() string) {
		if viol != "" {
			return
		}
		c05Entry.Store(name)
		s, pm := guard(f)
		if s == "panic" {
			viol = "VIOL panic:" + name + ":" + panicClass(pm) + " " + pm
			return
		}
		if strings.HasPrefix(s, "bad:") {
			viol = "VIOL malformed-result:" + name + " " + s
			return
		}
		if strings.HasPrefix(s, "ok") {
			acc = 1
		}
	}
	try("Decode", func() string {
		img, err := webp.Decode(bytes.NewReader(data))
		if err != nil {
			return "err"
		}
		if w := imageWellFormed(img); w != "" {
			return "bad:" + w
		}
		return "ok"
	})
	try("DecodeConfig", func() string {
		c, err := webp.DecodeConfig(bytes.NewReader(data))
		if err != nil {
			return "err"
		}
		if c.Width <= 0 || c.Height <= 0 || c.ColorModel == nil {
			return fmt.Sprintf("bad:config %dx%d", c.Width, c.Height)
		}
		return "ok"
	})
	try("GetFeatures", func() string { return goFeatures(data) })
	try("image.Decode", func() string {
		img, _, err := image.Decode(bytes.NewReader(data))
		if err != nil {
			return "err"
		}
		if w := imageWellFormed(img); w != "" {
			return "bad:" + w
		}
		return "ok"
	})
	try("NewDemuxer", func() string {
		d, err := mux.NewDemuxer(data)
		if err != nil {
			return "err"
		}
		for i := 0; i < d.NumFrames() && i < 64; i++ {
			if _, err := d.Frame(i); err != nil {
				return "bad:Frame(i) fails for i < NumFrames"
			}
		}
		for _, id := range []mux.ChunkID{mux.FourCCICCP, mux.FourCCEXIF, mux.FourCCXMP, mux.FourCCANIM, 0x4e4b4e55} {
			_, _ = d.GetChunk(id)
		}
		return "ok"
	})
	framesPlayed := 0
	var animA, animB *animation.Animation
	var perr, serr error
	try("animation", func() string {
		a, err := animation.DecodeBytes(data)
		if err != nil {
			return "err"
		}
		if len(a.Frames) > 40 {
			a.Frames = a.Frames[:40]
		}
		// parallel decode on a copy first, then the serial one
		b := *a
		b.Frames = append([]animation.Frame(nil), a.Frames...)
		perr = b.DecodeFramesParallel()
		animB = &b
		serr = a.DecodeFrames()
		animA = a
		if serr != nil {
			return "err-frames"
		}
		dec, err := animation.NewAnimDecoder(a)
		if err != nil {
			return "err-canvas"
		}
		for dec.HasNext() {
			img, _, err := dec.NextFrame()
			if err != nil {
				return "err-next"
			}
			framesPlayed++
			if w := imageWellFormed(img); w != "" {
				return "bad:snapshot " + w
			}
			if img.Bounds().Dx() != a.CanvasWidth || img.Bounds().Dy() != a.CanvasHeight {
				return "bad:snapshot bounds differ from canvas"
			}
		}
		dec.Reset()
		return "ok"
	})
	if viol != "" {
		return viol
	}
	runtime.ReadMemStats(&ms1)
	alloc := ms1.TotalAlloc - ms0.TotalAlloc
	if nfr > 40 {
		nfr = 40
	}
	bound := 64*uint64(len(data)) + 40*area*uint64(2+nfr+framesPlayed) + 16<<20
	if alloc > bound {
		return fmt.Sprintf("VIOL alloc:exceeds-bound allocated %d bytes for %d input bytes, declared area %d, frames %d (bound %d)", alloc, len(data), area, nfr, bound)
	}
	// the copy that went through DecodeFramesParallel is used as a caller would use it, whatever the call
	// returned, and compared frame by frame with the serial decode (outside the allocation window above)
	info := ""
	if animA != nil && animB != nil {
		c05Entry.Store("animation-after-DecodeFramesParallel")
		var viols []string
		viols, info = c05AfterParallel(animA, animB, perr, serr)
		if len(viols) > 0 {
			return strings.Join(viols, c05ViolSep)
		}
	}
	return fmt.Sprintf("acc=%d alloc=%d%s", acc, alloc, info)
}

// c05TypedNil reports whether img is a non-nil interface whose dynamic value is a nil pointer (or other
// nil-able kind) - without calling a method on it.
func c05TypedNil(img image.Image) bool {
	if img == nil {
		return false
	}
	v := reflect.ValueOf(img)
	switch v.Kind() {
	case reflect.Ptr, reflect.Map, reflect.Slice, reflect.Func, reflect.Interface, reflect.Chan, reflect.UnsafePointer:
		return v.IsNil()
	}
	return false
}

func c05ErrClass(err error) string {
	if err == nil {
		return "nil"
	}
	return err.Error()
}

// c05AfterParallel: a is the animation after the serial DecodeFrames (error serr), b an independent copy
// after DecodeFramesParallel (error perr). Oracles:
//
//	(a) every b.Frames[i].Image is nil or a well-formed image whose dynamic value is not a nil pointer;
//	(b) best-effort use of b - Frame.Bounds / HasImage of every frame, NewAnimDecoder, NextFrame up to the
//	    first error, Reset, NextFrame - does not panic, snapshots are well-formed and canvas-sized;
//	(c) parallel == serial: same error; frame i holds an image iff it decodes serially (each frame on its
//	    own when the parallel path ran, i.e. more than 2 frames to decode; exactly the frames the serial
//	    call filled in when it fell back to the serial path); a retry of DecodeFrames on b reports the same
//	    error again (a failed frame is not "already decoded").
func c05AfterParallel(a, b *animation.Animation, perr, serr error) (viols []string, info string) {
	n := len(b.Frames)
	if n != len(a.Frames) {
		return []string{fmt.Sprintf("VIOL anim:parallel-differs-from-serial frame count changed: %d vs %d", n, len(a.Frames))}, ""
	}
	// (a)
	var typedNil []int
	dyn := ""
	for i := range b.Frames {
		img := b.Frames[i].Image
		if img == nil {
			continue
		}
		if c05TypedNil(img) {
			typedNil = append(typedNil, i)
			dyn = fmt.Sprintf("%T", img)
			continue
		}
		if s, pm := guard(func() string { return imageWellFormed(img) }); s == "panic" {
			viols = append(viols, fmt.Sprintf("VIOL panic:animation:%s %s (inspecting frame %d of %d after DecodeFramesParallel, error %q)", panicClass(pm), pm, i, n, c05ErrClass(perr)))
		} else if s != "" {
			viols = append(viols, fmt.Sprintf("VIOL malformed-result:animation bad:frame %d of %d after DecodeFramesParallel: %s", i, n, s))
		}
	}
	if len(typedNil) > 0 {
		viols = append(viols, fmt.Sprintf("VIOL malformed-result:animation decode:typed-nil-image: after DecodeFramesParallel (returned %q) frame(s) %v of %d hold a non-nil image.Image whose dynamic value is a nil %s: HasImage() is true, any method call on the image dereferences nil", c05ErrClass(perr), typedNil, n, dyn))
	}
	// (b)
	s, pm := guard(func() string {
		for i := range b.Frames {
			f := &b.Frames[i]
			if f.HasImage() {
				if bb := f.Bounds(); bb.Dx() <= 0 || bb.Dy() <= 0 {
					return fmt.Sprintf("bad:frame %d has an image with empty bounds %v", i, bb)
				}
			}
		}
		if perr == nil && uint64(b.CanvasWidth)*uint64(b.CanvasHeight) > 1<<16 {
			// every frame decoded: b holds what the serially decoded animation holds, which has been played
			// already; large canvases are not played a second time (three canvas-sized buffers per decoder)
			return "ok"
		}
		dec, err := animation.NewAnimDecoder(b)
		if err != nil {
			return "err-canvas"
		}
		rounds := 1
		if perr != nil {
			rounds = 2 // after a failed call also the replay after Reset
		}
		for round := 0; round < rounds; round++ {
			for k := 0; dec.HasNext(); k++ {
				img, _, err := dec.NextFrame()
				if err != nil {
					if b.Frames[k].HasImage() {
						return fmt.Sprintf("bad:NextFrame fails on frame %d although it has an image: %v", k, err)
					}
					break
				}
				if !b.Frames[k].HasImage() {
					return fmt.Sprintf("bad:NextFrame succeeds on frame %d which has no image", k)
				}
				if w := imageWellFormed(img); w != "" {
					return "bad:snapshot " + w
				}
				if img.Bounds().Dx() != b.CanvasWidth || img.Bounds().Dy() != b.CanvasHeight {
					return "bad:snapshot bounds differ from canvas"
				}
			}
			dec.Reset()
		}
		return "ok"
	})
	switch {
	case s == "panic":
		viols = append(viols, fmt.Sprintf("VIOL panic:animation:%s %s (carrying on after DecodeFramesParallel returned %q: Frame.Bounds / NewAnimDecoder / NextFrame / Reset; %d frames)", panicClass(pm), pm, c05ErrClass(perr), n))
	case strings.HasPrefix(s, "bad:"):
		viols = append(viols, "VIOL malformed-result:animation "+s+fmt.Sprintf(" (after DecodeFramesParallel returned %q)", c05ErrClass(perr)))
	}
	// (c)
	toDecode := 0
	for i := range a.Frames {
		if a.Frames[i].BitstreamData != nil {
			toDecode++
		}
	}
	path := "parallel"
	if toDecode <= 2 {
		path = "serial-fallback"
	}
	want := make([]bool, n)
	failing := 0
	s, pm = guard(func() string {
		failed := false
		for i := range a.Frames {
			switch {
			case a.Frames[i].BitstreamData == nil:
				want[i] = a.Frames[i].Image != nil
			case !failed && a.Frames[i].Image != nil:
				want[i] = true
			case !failed:
				failed = true // the frame DecodeFrames stopped at
				failing++
			case path == "parallel":
				c := *a
				c.Frames = []animation.Frame{a.Frames[i]}
				c.Frames[0].Image = nil
				want[i] = c.DecodeFrames() == nil
				if !want[i] {
					failing++
				}
			}
		}
		return "ok"
	})
	if s == "panic" {
		viols = append(viols, fmt.Sprintf("VIOL panic:animation:%s %s (DecodeFrames on a single frame)", panicClass(pm), pm))
		return viols, ""
	}
	info = fmt.Sprintf(" anim=%d/%d:%s", failing, n, path)
	if (serr == nil) != (failing == 0) {
		viols = append(viols, fmt.Sprintf("VIOL anim:serial-decode-inconsistent DecodeFrames returned %q but %d of %d frames have no image", c05ErrClass(serr), failing, n))
	}
	var diff []string
	if c05ErrClass(perr) != c05ErrClass(serr) {
		diff = append(diff, fmt.Sprintf("DecodeFramesParallel returned %q, DecodeFrames %q", c05ErrClass(perr), c05ErrClass(serr)))
	}
	for i := range b.Frames {
		if has := b.Frames[i].Image != nil; has != want[i] {
			diff = append(diff, fmt.Sprintf("frame %d: image after the parallel call = %v, decodes serially = %v", i, has, want[i]))
		}
	}
	if len(diff) == 0 {
		// retry on b: a frame that failed is still undecoded, so the serial retry must report the same error
		var rerr error
		if s, pm = guard(func() string { rerr = b.DecodeFrames(); return "ok" }); s == "panic" {
			viols = append(viols, fmt.Sprintf("VIOL panic:animation:%s %s (DecodeFrames retry after DecodeFramesParallel)", panicClass(pm), pm))
		} else if c05ErrClass(rerr) != c05ErrClass(serr) {
			diff = append(diff, fmt.Sprintf("DecodeFrames retried on the animation after DecodeFramesParallel returned %q, expected %q", c05ErrClass(rerr), c05ErrClass(serr)))
		}
	}
	if len(diff) > 0 {
		if len(diff) > 4 {
			diff = append(diff[:4], fmt.Sprintf("... %d more", len(diff)-4))
		}
		viols = append(viols, fmt.Sprintf("VIOL anim:parallel-differs-from-serial %s (%d frames, %s path)", strings.Join(diff, "; "), n, path))
	}
	return viols, info
}
