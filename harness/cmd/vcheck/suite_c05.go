package main

import (
	"bufio"
	"bytes"
	"fmt"
	"image"
	"os"
	"os/exec"
	"runtime"
	"runtime/debug"
	"strconv"
	"strings"
	"sync"
	"sync/atomic"
	"time"

	webp "github.com/deepteams/webp"
	"github.com/deepteams/webp/animation"
	"github.com/deepteams/webp/mux"
)

func init() {
	suites["c05"] = suiteC05
	suites["c05-child"] = suiteC05Child
	replayers["c05"] = replayC05
}

// replayC05 re-runs all entry points on the literal input of a finding (with the in-process deadline).
func replayC05(in map[string]any) int {
	hs, _ := in["hex"].(string)
	data := unhx(hs)
	res, pm := guardT(func() string { return c05One(data) })
	fmt.Printf("go: %s %s\n", res, pm)
	if res == "hang" {
		fmt.Printf("entry point %v did not return within %v\n", c05Entry.Load(), hangLimit)
	}
	if res == "hang" || res == "panic" || strings.HasPrefix(res, "VIOL") {
		return 1
	}
	return 0
}

// payloadMutate flips bits/bytes inside chunk payloads only (container sizes stay consistent),
// so that the codecs, not the container parser, see the damage.
func payloadMutate(r *RNG, src []byte) []byte {
	b := append([]byte(nil), src...)
	chunks := scanChunks(b)
	if len(chunks) == 0 {
		return b
	}
	n := 1 + r.Intn(4)
	for i := 0; i < n; i++ {
		c := chunks[r.Intn(len(chunks))]
		if c.size <= 0 || c.off+8+c.size > len(b) {
			continue
		}
		p := c.off + 8 + r.Intn(c.size)
		switch r.Intn(4) {
		case 0:
			b[p] ^= 1 << uint(r.Intn(8))
		case 1:
			b[p] = byte(r.Next())
		case 2:
			b[p] = []byte{0, 0xff, 0x7f, 0x80}[r.Intn(4)]
		case 3:
			// zero / randomise a run
			l := 1 + r.Intn(16)
			for k := p; k < p+l && k < c.off+8+c.size; k++ {
				if r.Bool() {
					b[k] = 0
				} else {
					b[k] = byte(r.Next())
				}
			}
		}
	}
	return b
}

func c05Inputs(seed uint64, tier string) []cInput {
	in, seeds := containerInputs(seed, tier)
	var out []cInput
	for i, x := range in {
		if strings.HasPrefix(x.kind, "sweep") && i%5 != 0 {
			continue
		}
		out = append(out, x)
	}
	n := 8000
	if tier == "thorough" {
		n = 400000
	}
	for i := 0; i < n; i++ {
		r := NewRNG(seed, uint64(9000000+i))
		s := seeds[r.Intn(len(seeds))]
		out = append(out, cInput{payloadMutate(r, s.Data), "payload"})
	}
	// declared-dimension extremes on real files: VP8X canvas / VP8L header / VP8 header / ANMF size fields
	for i := 0; i < 400; i++ {
		r := NewRNG(seed, uint64(9900000+i))
		s := seeds[r.Intn(len(seeds))]
		b := append([]byte(nil), s.Data...)
		switch {
		case len(b) > 30 && string(b[12:16]) == "VP8X":
			copy(b[24:30], r.Bytes(6))
			if r.Bool() {
				copy(b[24:30], []byte{0xff, 0x3f, 0, 0xff, 0x3f, 0})
			}
		case len(b) > 25 && string(b[12:16]) == "VP8L":
			copy(b[21:25], r.Bytes(4))
			b[24] &= 0x1f
		case len(b) > 30 && string(b[12:16]) == "VP8 ":
			copy(b[26:30], r.Bytes(4))
		}
		out = append(out, cInput{b, "dims"})
	}
	// threshold-crossing valid files (WideSeeds: widths around 1024 / 2048 / 4096 x heights 1..4 as lossy,
	// lossy+alpha, lossless and as ANMF frames, small payloads), whole and with payload-only mutations: the
	// per-row buffers of the decode paths (stack scratch of the upsampler, zero pages, row caches) see
	// rows longer than they are on every other input of this suite
	{
		every := 2
		nWideMut := 250
		if tier == "thorough" {
			every, nWideMut = 1, 6000
		}
		wide := WideSeeds(seed, every)
		var extra []cInput
		for _, s := range wide {
			extra = append(extra, cInput{s.Data, "wide"})
		}
		for i := 0; i < nWideMut && len(wide) > 0; i++ {
			r := NewRNG(seed, uint64(9970000+i))
			extra = append(extra, cInput{payloadMutate(r, wide[r.Intn(len(wide))].Data), "wide-payload"})
		}
		// spread over the list (contiguous per-worker ranges)
		merged := make([]cInput, 0, len(out)+len(extra))
		every2 := len(out)/len(extra) + 1
		k := 0
		for i, x := range out {
			merged = append(merged, x)
			if (i+1)%every2 == 0 && k < len(extra) {
				merged = append(merged, extra[k])
				k++
			}
		}
		out = append(merged, extra[k:]...)
	}
	// streams of the random VP8L writer (gen_vp8l.go) as simple lossless files: codec interiors the
	// encoder never produces - any transform chain, code shapes, cache sizes, and (narrow variant)
	// pictures of width 1..8 full of short 2-D distance codes, among them those that map to a
	// distance below 1. They are spread evenly over the input list (the list is cut into contiguous
	// per-worker ranges and a hanging input costs its worker the 90 s watchdog).
	nSyn := 400
	if tier == "thorough" {
		nSyn = 60000
	}
	syn := make([]cInput, nSyn)
	for i := range syn {
		r := NewRNG(seed, uint64(9950000+i))
		var b []byte
		kind := "synvp8l"
		if i%5 < 3 {
			b, _ = SynVP8LNarrow(r)
			kind = "synvp8l-narrow"
		} else {
			b, _ = SynVP8L(r)
		}
		if len(b) > 12000 {
			// streams with many hundreds of meta prefix-code groups: the decoder's Huffman tables take
			// about 18 KB per group while a group costs the stream about 26 bytes, i.e. the allocation
			// is proportional to the input length but with a constant far above the 64 bytes per input
			// byte of this suite's allocation bound (18.8 MB for a 26 KB stream). That is a question of
			// calibrating the bound, not a behaviour C05 forbids; such streams stay in suite vp8l.
			b, _ = SynVP8LNarrow(NewRNG(seed, uint64(9980000+i)))
			kind = "synvp8l-narrow"
			if len(b) > 12000 {
				b = b[:5]
			}
		}
		syn[i] = cInput{riff(chunk("VP8L", b)), kind}
	}
	merged := make([]cInput, 0, len(out)+len(syn))
	every := len(out)/len(syn) + 1
	k := 0
	for i, x := range out {
		merged = append(merged, x)
		if (i+1)%every == 0 && k < len(syn) {
			merged = append(merged, syn[k])
			k++
		}
	}
	merged = append(merged, syn[k:]...)
	return merged
}

// suiteC05 (parent): every input goes through all decoding entry points in child processes; a crash
// or hang of a child is attributed to the input it was working on.
func suiteC05(rep *Report) error {
	rep.Rule = "inputs: seed corpus, structure-aware container mutations, hand-assembled layouts, random bytes, RIFF-size sweeps, payload-only mutations (codecs see the damage), declared-dimension extremes, threshold-crossing valid files (widths 1023,1024,1025,1100,2047,2048,2049,4097 x heights 1..4 as lossy, lossy+alpha, lossless and ANMF frames with small payloads - thresholds.go / WideSeeds - whole and payload-mutated), streams of the random VP8L writer as simple lossless files (any transform chain / code shapes / cache sizes; 3 of 5 are pictures of width 1..8 dense in short 2-D distance codes, incl. those mapping to a distance below 1); each input runs through Decode, DecodeConfig, GetFeatures, image.Decode, animation.DecodeBytes->DecodeFrames->DecodeFramesParallel->NewAnimDecoder->NextFrame*, mux.NewDemuxer+Frame+GetChunk in child processes (panic in any goroutine, hang > 40 s (thorough: 90 s), allocation beyond 64*len + 40*declared_area*(1+frames) + 16 MiB, or a malformed returned image = violation); non-trivial = some entry point accepted the input"
	inputs := c05Inputs(rep.Seed, rep.Tier)
	dir, err := os.MkdirTemp("", "c05")
	if err != nil {
		return err
	}
	defer os.RemoveAll(dir)
	inFile := dir + "/inputs.txt"
	f, err := os.Create(inFile)
	if err != nil {
		return err
	}
	w := bufio.NewWriterSize(f, 1<<20)
	for _, in := range inputs {
		w.WriteString(hx(in.data))
		w.WriteByte('\n')
	}
	w.Flush()
	f.Close()
	nw := runtime.NumCPU()
	if nw > 12 {
		nw = 12
	}
	// per-input watchdog of the children: no input of the quick tier needs more than a fraction of a
	// second, so 40 s is ample even on a loaded machine; a hanging input costs its worker that long
	hangS := 40
	if rep.Tier == "thorough" {
		hangS = 90
	}
	type res struct {
		status string
		detail string
	}
	results := make([]res, len(inputs))
	var wg sync.WaitGroup
	per := (len(inputs) + nw - 1) / nw
	for k := 0; k < nw; k++ {
		lo, hi := k*per, (k+1)*per
		if hi > len(inputs) {
			hi = len(inputs)
		}
		if lo >= hi {
			continue
		}
		wg.Add(1)
		go func(k, lo, hi int) {
			defer wg.Done()
			for lo < hi {
				outFile := fmt.Sprintf("%s/out_%d_%d.txt", dir, k, lo)
				cmd := exec.Command(os.Args[0], "-suite", "c05-child", "-seed", "0")
				cmd.Env = append(os.Environ(), "C05_INPUT="+inFile, fmt.Sprintf("C05_RANGE=%d:%d", lo, hi), "C05_OUT="+outFile, "GOMEMLIMIT=3GiB", fmt.Sprintf("C05_HANG_S=%d", hangS))
				var eb bytes.Buffer
				cmd.Stderr = &eb
				runErr := cmd.Run()
				last := -1
				if fo, err := os.Open(outFile); err == nil {
					sc := bufio.NewScanner(fo)
					sc.Buffer(make([]byte, 1<<20), 1<<26)
					for sc.Scan() {
						p := strings.SplitN(sc.Text(), " ", 3)
						if len(p) < 2 {
							continue
						}
						i, _ := strconv.Atoi(p[1])
						switch p[0] {
						case "S":
							last = i
						case "R":
							d := ""
							if len(p) > 2 {
								d = p[2]
							}
							st := "ok"
							if strings.HasPrefix(d, "VIOL ") {
								st = "viol"
							}
							results[i] = res{st, d}
						}
					}
					fo.Close()
				}
				if runErr == nil {
					break
				}
				// child died: blame the input it had started
				if last < lo {
					last = lo
				}
				msg := eb.String()
				cls := "crash"
				if strings.Contains(msg, "C05-HANG") {
					cls = "hang"
				}
				results[last] = res{cls, short(firstPanicLine(msg), 300)}
				lo = last + 1
			}
		}(k, lo, hi)
	}
	wg.Wait()
	for i, in := range inputs {
		r := results[i]
		kind := strings.SplitN(in.kind, ":", 2)[0]
		rep.Count("kind:" + kind)
		if kind == "wide" {
			if a, _ := declaredArea(in.data); a > 0 {
				for _, t := range Thresholds {
					if t.Unit == "width" && t.Value >= 1024 && t.Value <= 4096 {
						for _, h := range WideHeights {
							for _, w := range SizesAround(t) {
								if uint64(w*h) == a {
									rep.Count(t.Tag())
								}
							}
						}
					}
				}
			}
		}
		switch r.status {
		case "ok":
			acc := strings.Contains(r.detail, "acc=1")
			rep.Eval(acc, in.data)
			if acc {
				rep.Count("accepted-by-some-entry-point")
			}
		case "viol":
			rep.Eval(true, in.data)
			parts := strings.SplitN(strings.TrimPrefix(r.detail, "VIOL "), " ", 2)
			rep.Add(Finding{Kind: "property", Property: "C05", Signature: parts[0], Detail: fmt.Sprintf("%s (%s, %d bytes)", r.detail, in.kind, len(in.data)),
				Input: map[string]any{"op": "c05", "hex": hx(in.data)}})
		case "crash", "hang":
			rep.Eval(true, in.data)
			sig := r.status + ":" + panicClass(r.detail)
			if r.status == "hang" {
				// "C05-HANG in <entry>: input ..." -> hang:<entry>
				sig = "hang:" + strings.TrimSuffix(strings.SplitN(strings.TrimPrefix(r.detail, "C05-HANG in "), " ", 2)[0], ":")
			}
			rep.Add(Finding{Kind: "property", Property: "C05", Signature: sig, Detail: fmt.Sprintf("child process %s on this input: %s (%s, %d bytes)", r.status, r.detail, in.kind, len(in.data)),
				Input: map[string]any{"op": "c05", "hex": hx(in.data)}})
		default:
			rep.Count("not-run")
		}
	}
	for i := 0; i < len(inputs) && i < 3000; i += 701 {
		rep.Sample(map[string]any{"kind": inputs[i].kind, "hex": short(hx(inputs[i].data), 120), "result": short(results[i].detail, 120)})
	}
	sortFindings(rep)
	return nil
}

func firstPanicLine(s string) string {
	for _, l := range strings.Split(s, "\n") {
		if strings.HasPrefix(l, "panic:") || strings.HasPrefix(l, "fatal error:") || strings.Contains(l, "C05-HANG") {
			return l
		}
	}
	if len(s) > 200 {
		return s[:200]
	}
	return s
}

func imageWellFormed(img image.Image) string {
	if img == nil {
		return "nil image with nil error"
	}
	b := img.Bounds()
	if b.Dx() <= 0 || b.Dy() <= 0 {
		return fmt.Sprintf("non-positive bounds %v", b)
	}
	switch im := img.(type) {
	case *image.NRGBA:
		if im.Stride < b.Dx()*4 || len(im.Pix) < (b.Dy()-1)*im.Stride+b.Dx()*4 {
			return fmt.Sprintf("NRGBA buffer too small: len %d stride %d bounds %v", len(im.Pix), im.Stride, b)
		}
	case *image.YCbCr:
		cw, ch := (b.Dx()+1)/2, (b.Dy()+1)/2
		if im.YStride < b.Dx() || len(im.Y) < (b.Dy()-1)*im.YStride+b.Dx() || im.CStride < cw || len(im.Cb) < (ch-1)*im.CStride+cw || len(im.Cr) < (ch-1)*im.CStride+cw {
			return fmt.Sprintf("YCbCr buffers too small for %v", b)
		}
	}
	return ""
}

// declaredArea: the largest picture/canvas area the file's headers declare (best effort, lenient).
func declaredArea(b []byte) (area uint64, frames int) {
	area = 1
	upd := func(w, h int) {
		if a := uint64(w) * uint64(h); a > area {
			area = a
		}
	}
	var walk func(buf []byte, depth int)
	walk = func(buf []byte, depth int) {
		pos := 0
		for pos+8 <= len(buf) {
			n := int(uint32(buf[pos+4]) | uint32(buf[pos+5])<<8 | uint32(buf[pos+6])<<16 | uint32(buf[pos+7])<<24)
			end := pos + 8 + n
			if n < 0 || end > len(buf) || end < pos {
				end = len(buf)
			}
			pl := buf[pos+8 : end]
			switch string(buf[pos : pos+4]) {
			case "VP8X":
				if len(pl) >= 10 {
					upd(1+(int(pl[4])|int(pl[5])<<8|int(pl[6])<<16), 1+(int(pl[7])|int(pl[8])<<8|int(pl[9])<<16))
				}
			case "VP8L":
				if len(pl) >= 5 {
					bits := uint32(pl[1]) | uint32(pl[2])<<8 | uint32(pl[3])<<16 | uint32(pl[4])<<24
					upd(int(bits&0x3fff)+1, int((bits>>14)&0x3fff)+1)
				}
			case "VP8 ":
				if len(pl) >= 10 {
					upd((int(pl[6])|int(pl[7])<<8)&0x3fff, (int(pl[8])|int(pl[9])<<8)&0x3fff)
				}
			case "ANMF":
				frames++
				if len(pl) >= 16 {
					upd(1+(int(pl[6])|int(pl[7])<<8|int(pl[8])<<16), 1+(int(pl[9])|int(pl[10])<<8|int(pl[11])<<16))
					if depth == 0 {
						walk(pl[16:], 1)
					}
				}
			}
			pos = end + n&1
		}
	}
	if len(b) > 12 {
		walk(b[12:], 0)
	}
	return
}

// suiteC05Child executes a range of inputs; one line "S i" before and "R i ..." after each.
func suiteC05Child(rep *Report) error {
	inFile, rng, outFile := os.Getenv("C05_INPUT"), os.Getenv("C05_RANGE"), os.Getenv("C05_OUT")
	var lo, hi int
	fmt.Sscanf(rng, "%d:%d", &lo, &hi)
	fi, err := os.Open(inFile)
	if err != nil {
		return err
	}
	defer fi.Close()
	fo, err := os.Create(outFile)
	if err != nil {
		return err
	}
	defer fo.Close()
	debug.SetGCPercent(50)
	sc := bufio.NewScanner(fi)
	sc.Buffer(make([]byte, 1<<20), 1<<28)
	idx := -1
	var cur int64 = -1
	var curStart time.Time
	var mu sync.Mutex
	limit := 90 * time.Second
	if v, err := strconv.Atoi(os.Getenv("C05_HANG_S")); err == nil && v > 0 {
		limit = time.Duration(v) * time.Second
	}
	go func() { // watchdog
		for {
			time.Sleep(500 * time.Millisecond)
			mu.Lock()
			c, st := cur, curStart
			mu.Unlock()
			if c >= 0 && time.Since(st) > limit {
				fmt.Fprintf(os.Stderr, "C05-HANG in %s: input %d still running after %v\n", c05Entry.Load().(string), c, limit)
				os.Exit(3)
			}
		}
	}()
	for sc.Scan() {
		idx++
		if idx < lo {
			continue
		}
		if idx >= hi {
			break
		}
		data := unhx(sc.Text())
		fmt.Fprintf(fo, "S %d\n", idx)
		fo.Sync()
		mu.Lock()
		cur, curStart = int64(idx), time.Now()
		mu.Unlock()
		res := c05One(data)
		mu.Lock()
		cur = -1
		mu.Unlock()
		fmt.Fprintf(fo, "R %d %s\n", idx, res)
	}
	return nil
}

// c05Entry names the entry point the child is in (for the watchdog's message).
var c05Entry atomic.Value

func init() { c05Entry.Store("?") }

// c05One runs all entry points on one input; returns "acc=0|1 ..." or "VIOL <signature> <detail>".
func c05One(data []byte) string {
	area, nfr := declaredArea(data)
	if area > 1<<22 && os.Getenv("C05_BIG") == "" {
		// very large declared pictures: header queries only in-process (full decode is exercised in the
		// thorough tier's big-dimension leg); still must not crash
		s1, pm := guard(func() string { return goConfig(data) })
		if s1 == "panic" {
			return "VIOL panic:DecodeConfig:" + panicClass(pm) + " " + pm
		}
		s2, pm := guard(func() string { return goFeatures(data) })
		if s2 == "panic" {
			return "VIOL panic:GetFeatures:" + panicClass(pm) + " " + pm
		}
		s3, pm := guard(func() string { return goDemux(data) })
		if s3 == "panic" {
			return "VIOL panic:NewDemuxer:" + panicClass(pm) + " " + pm
		}
		return "acc=0 big-declared-area"
	}
	var ms0, ms1 runtime.MemStats
	runtime.ReadMemStats(&ms0)
	acc := 0
	viol := ""
	try := func(name string, f func() string) {
		if viol != "" {
			return
		}
		c05Entry.Store(name)
		s, pm := guard(f)
		if s == "panic" {
			viol = "VIOL panic:" + name + ":" + panicClass(pm) + " " + pm
			return
		}
		if strings.HasPrefix(s, "bad:") {
			viol = "VIOL malformed-result:" + name + " " + s
			return
		}
		if strings.HasPrefix(s, "ok") {
			acc = 1
		}
	}
	try("Decode", func() string {
		img, err := webp.Decode(bytes.NewReader(data))
		if err != nil {
			return "err"
		}
		if w := imageWellFormed(img); w != "" {
			return "bad:" + w
		}
		return "ok"
	})
	try("DecodeConfig", func() string {
		c, err := webp.DecodeConfig(bytes.NewReader(data))
		if err != nil {
			return "err"
		}
		if c.Width <= 0 || c.Height <= 0 || c.ColorModel == nil {
			return fmt.Sprintf("bad:config %dx%d", c.Width, c.Height)
		}
		return "ok"
	})
	try("GetFeatures", func() string { return goFeatures(data) })
	try("image.Decode", func() string {
		img, _, err := image.Decode(bytes.NewReader(data))
		if err != nil {
			return "err"
		}
		if w := imageWellFormed(img); w != "" {
			return "bad:" + w
		}
		return "ok"
	})
	try("NewDemuxer", func() string {
		d, err := mux.NewDemuxer(data)
		if err != nil {
			return "err"
		}
		for i := 0; i < d.NumFrames() && i < 64; i++ {
			if _, err := d.Frame(i); err != nil {
				return "bad:Frame(i) fails for i < NumFrames"
			}
		}
		for _, id := range []mux.ChunkID{mux.FourCCICCP, mux.FourCCEXIF, mux.FourCCXMP, mux.FourCCANIM, 0x4e4b4e55} {
			_, _ = d.GetChunk(id)
		}
		return "ok"
	})
	framesPlayed := 0
	try("animation", func() string {
		a, err := animation.DecodeBytes(data)
		if err != nil {
			return "err"
		}
		if len(a.Frames) > 40 {
			a.Frames = a.Frames[:40]
		}
		// parallel decode on a copy first, then the serial one
		b := *a
		b.Frames = append([]animation.Frame(nil), a.Frames...)
		_ = b.DecodeFramesParallel()
		if err := a.DecodeFrames(); err != nil {
			return "err-frames"
		}
		dec, err := animation.NewAnimDecoder(a)
		if err != nil {
			return "err-canvas"
		}
		for dec.HasNext() {
			img, _, err := dec.NextFrame()
			if err != nil {
				return "err-next"
			}
			framesPlayed++
			if w := imageWellFormed(img); w != "" {
				return "bad:snapshot " + w
			}
			if img.Bounds().Dx() != a.CanvasWidth || img.Bounds().Dy() != a.CanvasHeight {
				return "bad:snapshot bounds differ from canvas"
			}
		}
		dec.Reset()
		return "ok"
	})
	if viol != "" {
		return viol
	}
	runtime.ReadMemStats(&ms1)
	alloc := ms1.TotalAlloc - ms0.TotalAlloc
	if nfr > 40 {
		nfr = 40
	}
	bound := 64*uint64(len(data)) + 40*area*uint64(2+nfr+framesPlayed) + 16<<20
	if alloc > bound {
		return fmt.Sprintf("VIOL alloc:exceeds-bound allocated %d bytes for %d input bytes, declared area %d, frames %d (bound %d)", alloc, len(data), area, nfr, bound)
	}
	return fmt.Sprintf("acc=%d alloc=%d", acc, alloc)
}
