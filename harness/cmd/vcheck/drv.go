package main

import (
	"bufio"
	"bytes"
	"fmt"
	"os/exec"
	"runtime"
	"strings"
	"sync"
)

// DrvPath is the compiled Lean driver (lean/.lake/build/bin/webpdrv).
var DrvPath string

// RunDriver feeds the lines to parallel webpdrv processes and returns one
// output line per input line, in order.
func RunDriver(lines []string) ([]string, error) {
	n := runtime.NumCPU()
	if n > len(lines) {
		n = len(lines)
	}
	if n == 0 {
		return nil, nil
	}
	out := make([]string, len(lines))
	var wg sync.WaitGroup
	errs := make([]error, n)
	// interleaved split keeps per-worker cost balanced
	for w := 0; w < n; w++ {
		wg.Add(1)
		go func(w int) {
			defer wg.Done()
			var in bytes.Buffer
			var idx []int
			for i := w; i < len(lines); i += n {
				in.WriteString(lines[i])
				in.WriteByte('\n')
				idx = append(idx, i)
			}
			cmd := exec.Command(DrvPath)
			cmd.Stdin = &in
			var ob, eb bytes.Buffer
			cmd.Stdout = &ob
			cmd.Stderr = &eb
			if err := cmd.Run(); err != nil {
				errs[w] = fmt.Errorf("webpdrv: %v: %s", err, eb.String())
				return
			}
			sc := bufio.NewScanner(&ob)
			sc.Buffer(make([]byte, 1<<20), 1<<30)
			k := 0
			for sc.Scan() {
				if k < len(idx) {
					out[idx[k]] = sc.Text()
				}
				k++
			}
			if k != len(idx) {
				errs[w] = fmt.Errorf("webpdrv: %d lines in, %d out (stderr: %s)", len(idx), k, strings.TrimSpace(eb.String()))
			}
		}(w)
	}
	wg.Wait()
	for _, e := range errs {
		if e != nil {
			return out, e
		}
	}
	return out, nil
}
