package main

import "encoding/binary"

type chunkPos struct{ off, size int } // off = header offset, size = payload size field

// scanChunks walks top-level chunks of a RIFF file leniently.
func scanChunks(b []byte) []chunkPos {
	var out []chunkPos
	pos := 12
	for pos+8 <= len(b) {
		n := int(binary.LittleEndian.Uint32(b[pos+4:]))
		out = append(out, chunkPos{pos, n})
		pos += 8 + n + n&1
		if n < 0 || pos < 0 {
			break
		}
	}
	return out
}

var interestingU32 = []uint32{0, 1, 2, 3, 4, 5, 7, 8, 9, 10, 11, 12, 15, 16, 17, 0x7f, 0x80, 0xff, 0x100, 0xffff, 0x10000,
	0xffffff, 0x1000000, 0x7ffffffe, 0x7fffffff, 0x80000000, 0xfffffff5, 0xfffffff6, 0xfffffff7, 0xfffffffe, 0xffffffff}

var fourccs = []string{"VP8 ", "VP8L", "VP8X", "ALPH", "ANIM", "ANMF", "ICCP", "EXIF", "XMP ", "UNKN", "RIFF", "WEBP"}

func fixRIFFSize(b []byte) {
	if len(b) >= 8 {
		binary.LittleEndian.PutUint32(b[4:], uint32(len(b)-8))
	}
}

// Mutate applies 1..3 random structure-aware or blind mutations to a copy of src.
func Mutate(r *RNG, src []byte, others [][]byte) ([]byte, string) {
	b := append([]byte(nil), src...)
	kind := ""
	n := 1 + r.Intn(3)
	for i := 0; i < n; i++ {
		chunks := scanChunks(b)
		switch k := r.Intn(14); k {
		case 0: // bit flip
			if len(b) > 0 {
				p := r.Intn(len(b))
				b[p] ^= 1 << uint(r.Intn(8))
			}
			kind += "bit,"
		case 1: // byte set
			if len(b) > 0 {
				b[r.Intn(len(b))] = byte(r.Next())
			}
			kind += "byte,"
		case 2: // header-area byte
			if len(b) > 0 {
				b[r.Intn(mini(len(b), 48))] = byte(r.Next())
			}
			kind += "hdrbyte,"
		case 3: // truncate
			if len(b) > 0 {
				b = b[:r.Intn(len(b))]
			}
			kind += "trunc,"
		case 4: // truncate and fix riff size
			if len(b) > 12 {
				b = b[:12+r.Intn(len(b)-12)]
				fixRIFFSize(b)
			}
			kind += "truncfix,"
		case 5: // riff size field edit
			if len(b) >= 8 {
				binary.LittleEndian.PutUint32(b[4:], interestingU32[r.Intn(len(interestingU32))])
			}
			kind += "riffsize,"
		case 6: // chunk size field edit
			if len(chunks) > 0 {
				c := chunks[r.Intn(len(chunks))]
				v := interestingU32[r.Intn(len(interestingU32))]
				if r.Bool() {
					v = uint32(c.size + r.Intn(5) - 2)
				}
				binary.LittleEndian.PutUint32(b[c.off+4:], v)
			}
			kind += "chunksize,"
		case 7: // fourcc swap
			if len(chunks) > 0 {
				c := chunks[r.Intn(len(chunks))]
				copy(b[c.off:], fourccs[r.Intn(len(fourccs))])
			}
			kind += "fourcc,"
		case 8: // delete a chunk
			if len(chunks) > 0 {
				c := chunks[r.Intn(len(chunks))]
				end := mini(len(b), c.off+8+c.size+c.size&1)
				b = append(b[:c.off:c.off], b[end:]...)
				if r.Bool() {
					fixRIFFSize(b)
				}
			}
			kind += "delchunk,"
		case 9: // duplicate a chunk
			if len(chunks) > 0 {
				c := chunks[r.Intn(len(chunks))]
				end := mini(len(b), c.off+8+c.size+c.size&1)
				dup := append([]byte(nil), b[c.off:end]...)
				at := chunks[r.Intn(len(chunks))].off
				nb := append([]byte(nil), b[:at]...)
				nb = append(nb, dup...)
				nb = append(nb, b[at:]...)
				b = nb
				if r.Bool() {
					fixRIFFSize(b)
				}
			}
			kind += "dupchunk,"
		case 10: // insert a new small chunk
			at := 12
			if len(chunks) > 0 {
				at = chunks[r.Intn(len(chunks))].off
			}
			if at <= len(b) {
				pl := r.Bytes(r.Intn(20))
				nc := []byte(fourccs[r.Intn(len(fourccs))])
				var sz [4]byte
				binary.LittleEndian.PutUint32(sz[:], uint32(len(pl)))
				nc = append(nc, sz[:]...)
				nc = append(nc, pl...)
				if len(pl)&1 == 1 {
					nc = append(nc, 0)
				}
				nb := append([]byte(nil), b[:at]...)
				nb = append(nb, nc...)
				nb = append(nb, b[at:]...)
				b = nb
				if r.Chance(2, 3) {
					fixRIFFSize(b)
				}
			}
			kind += "inschunk,"
		case 11: // splice tail of another file
			if len(others) > 0 && len(b) > 12 {
				o := others[r.Intn(len(others))]
				oc := scanChunks(o)
				if len(oc) > 0 {
					from := oc[r.Intn(len(oc))].off
					at := 12
					if len(chunks) > 0 {
						at = chunks[r.Intn(len(chunks))].off
					}
					b = append(append([]byte(nil), b[:at]...), o[mini(from, len(o)):]...)
					if r.Chance(2, 3) {
						fixRIFFSize(b)
					}
				}
			}
			kind += "splice,"
		case 12: // VP8X flag / canvas bytes
			if len(b) >= 30 && string(b[12:16]) == "VP8X" {
				p := 20 + r.Intn(10)
				if r.Bool() {
					b[20] ^= 1 << uint(r.Intn(8))
				} else {
					b[p] = byte(r.Next())
				}
			}
			kind += "vp8x,"
		case 13: // bytes inside first 16 bytes of a random chunk payload (codec / ANMF headers)
			if len(chunks) > 0 {
				c := chunks[r.Intn(len(chunks))]
				p := c.off + 8 + r.Intn(24)
				if p < len(b) {
					if r.Bool() {
						b[p] = byte(r.Next())
					} else {
						b[p] ^= 1 << uint(r.Intn(8))
					}
				}
			}
			kind += "payloadhdr,"
		}
	}
	return b, kind
}

// chunk builds a RIFF chunk (with padding).
func chunk(tag string, payload []byte) []byte {
	b := []byte(tag)
	var sz [4]byte
	binary.LittleEndian.PutUint32(sz[:], uint32(len(payload)))
	b = append(b, sz[:]...)
	b = append(b, payload...)
	if len(payload)&1 == 1 {
		b = append(b, 0)
	}
	return b
}

func riff(body []byte) []byte {
	b := []byte("RIFF\x00\x00\x00\x00WEBP")
	b = append(b, body...)
	fixRIFFSize(b)
	return b
}

func le24(v int) []byte { return []byte{byte(v), byte(v >> 8), byte(v >> 16)} }

func vp8xPayload(flags byte, w, h int) []byte {
	p := []byte{flags, 0, 0, 0}
	p = append(p, le24(w-1)...)
	p = append(p, le24(h-1)...)
	return p
}
