package main

// Suite "reconmodel" — property C06, tie between the Lean model Webp.Impl.VP8Recon (the model the
// theorems of Webp/Props/C06.lean are about) and /repo/internal/lossy, by observable:
//
//   setupSegment (encoder factors)                       exact   op rmeq   (hook ReconQuantRoundTrip.Enc)
//   buildSegmentHeader + writeSegmentHeader + writeQuantParams through a real BoolWriter, then
//   parseSegmentHeader + ParseQuant through a real BoolReader                exact   op rmhdr
//   ParseQuant on arbitrary headers (delta mode, negative values, …)          exact   op rmdq
//   RecordCoeffs -> BoolWriter -> BoolReader -> getCoeffsInline, one block    exact   op rmblk (token list, return value, coefficients)
//   rerecordAllTokens (skip branch, recordMBTokens, contexts) -> BoolWriter -> BoolReader -> decodeMB
//   (parseResiduals, WHT step, nzCodeBits, skip path) over small frames        exact   op rmfr
//   QuantizeCoeffs / TrellisQuantizeBlock return value = nzCountFrom(levels)   exact   op rmnz
//   DequantCoeffs = int16(level*q)                                             exact   op rmdeq
// plus, on the real code only:
//   Kind "property"  dequantisation factors of the decoder == encoder for every segment in use (dequant_agree on Go),
//                    decoder coefficients == int16(level*q) and encoder/decoder non-zero contexts equal (frame leg),
//                    |level| <= 2047, SIMD quantiser == pure-Go twin,
//                    the named kernel facts of `KernelFacts` on the kernels this build dispatches to
//                    (decoder dispatch none/DC/AC3/full/TransformUV vs the encoder's ITransformDirect; WHT DC-only
//                    shortcut; predictor table vs direct wrappers) — coefficient blocks inside the range an 8-bit
//                    residual can produce are findings, blocks outside are only counted;
//                    END-TO-END on what the model abstracts (both sides are assumed to use one probability table):
//                    flat pictures with one small low-contrast patch, > 96 macroblocks, mostly < 4 macroblock rows
//                    (serial encoder with mid-stream probability refreshes), FilterStrength 0: webp.Decode's luma must
//                    equal the encoder's reconstruction (signature recon:stream-desync:sparse-tokens:*).

import (
	"encoding/binary"
	"fmt"
	"image"
	"image/color"
	"strconv"
	"strings"
	"sync"

	webp "github.com/deepteams/webp"
	"github.com/deepteams/webp/verifapi"
)

func init() {
	suites["reconmodel"] = suiteReconModel
	replayers["rmline"] = replayReconModelLine
	replayers["reconmodel-e2e"] = replayReconModelE2E
}

func rmInts(xs []int) string {
	s := make([]string, len(xs))
	for i, x := range xs {
		s[i] = strconv.Itoa(x)
	}
	return strings.Join(s, ",")
}

func rmParseInts(s string) []int {
	var out []int
	for _, t := range strings.Split(s, ",") {
		v, _ := strconv.Atoi(t)
		out = append(out, v)
	}
	return out
}

func rmMats(m [4][6]int) string {
	p := make([]string, 4)
	for i := range m {
		p[i] = rmInts(m[i][:])
	}
	return strings.Join(p, ";")
}

func rmTokDigest(t []verifapi.ReconToken) string {
	b := make([]byte, 0, 2*len(t))
	for _, x := range t {
		b = append(b, x.Bit, x.Prob)
	}
	return digest(b)
}

func rmCount(levels []int16, first int) int {
	zz := [16]int{0, 1, 4, 8, 5, 2, 3, 6, 9, 12, 13, 10, 7, 11, 14, 15}
	for n := 15; n >= first; n-- {
		if levels[zz[n]] != 0 {
			return n + 1
		}
	}
	return 0
}

func rmI16(xs []int) (out [16]int16) {
	for i := 0; i < 16 && i < len(xs); i++ {
		out[i] = int16(xs[i])
	}
	return
}

func rmI16s(a [16]int16) []int {
	o := make([]int, 16)
	for i, v := range a {
		o[i] = int(v)
	}
	return o
}

// rmGoLine computes the implementation's canonical line for a driver line.
func rmGoLine(line string) string {
	f := strings.Split(line, " ")
	iv := func(k int) int { v, _ := strconv.Atoi(f[k]); return v }
	switch f[0] {
	case "rmeq", "rmhdr":
		var in verifapi.ReconQuantIn
		in.NumSegs = iv(1)
		copy(in.Quant[:], rmParseInts(f[2]))
		copy(in.DQ[:], rmParseInts(f[3]))
		if f[0] == "rmhdr" {
			for i, v := range rmParseInts(f[4]) {
				in.Stale[i] = int8(v)
			}
		}
		out := verifapi.ReconQuantRoundTrip(in)
		if f[0] == "rmeq" {
			return "ok m=" + rmMats(out.Enc)
		}
		return fmt.Sprintf("ok use=%s abs=%s sq=%s m=%s", b2s(out.UseSegment), b2s(out.Absolute), rmInts(out.SegQ[:]), rmMats(out.Dec))
	case "rmdq":
		var sq [4]int
		var dq [5]int
		copy(sq[:], rmParseInts(f[4]))
		copy(dq[:], rmParseInts(f[5]))
		return "ok m=" + rmMats(verifapi.ReconParseQuant(f[1] == "1", f[2] == "1", sq, iv(3), dq))
	case "rmblk":
		lv := rmI16(rmParseInts(f[6]))
		ini := rmI16(rmParseInts(f[7]))
		first := iv(2)
		toks, nz, out := verifapi.ReconBlockTokens(lv, rmCount(lv[:], first), iv(1), first, iv(3), iv(4), iv(5), ini)
		return fmt.Sprintf("ok ntok=%d tok=%s nz=%d out=%s rest=0", len(toks), rmTokDigest(toks), nz, rmInts(rmI16s(out)))
	case "rmfr":
		w, h := iv(1), iv(2)
		var q [6]int
		copy(q[:], rmParseInts(f[3]))
		raw := unhx(f[5])
		mbs := make([]verifapi.ReconMBIn, w*h)
		for i := range mbs {
			mbs[i].IsI4 = f[4][i] == '1'
			for k := 0; k < 400; k++ {
				mbs[i].Levels[k] = int16(binary.LittleEndian.Uint16(raw[800*i+2*k:]))
			}
		}
		// the model's WHT is the pure-Go transformWHT (exact integers, int16 store); the SSE2/NEON
		// version wraps its intermediate sums to 16 bits for |Y2 coefficient| beyond what a quantiser
		// can produce, which this leg does feed it
		_ = verifapi.DspSetConfig("portable")
		r := verifapi.ReconTokenFrame(w, h, mbs, q)
		_ = verifapi.DspSetConfig("default")
		if r.EOF {
			return "err parse"
		}
		parts := make([]string, len(r.MBs))
		for i, m := range r.MBs {
			cb := make([]byte, 0, 768)
			for _, v := range m.Coeffs {
				cb = binary.LittleEndian.AppendUint16(cb, uint16(v))
			}
			parts[i] = fmt.Sprintf("%s:%s:%d:%d", b2s(m.Skip), digest(cb), m.NonZeroY, m.NonZeroUV)
		}
		u32 := func(xs []uint32) string {
			o := make([]int, len(xs))
			for i, v := range xs {
				o[i] = int(v)
			}
			return rmInts(o)
		}
		u8 := func(xs []uint8) string {
			o := make([]int, len(xs))
			for i, v := range xs {
				o[i] = int(v)
			}
			return rmInts(o)
		}
		return fmt.Sprintf("ok ntok=%d tok=%s skip=%d rest=0 mb=%s top=%s/%s topdc=%s/%s", len(r.Tokens), rmTokDigest(r.Tokens), r.NumSkip,
			strings.Join(parts, ";"), u32(r.EncTopNz), u8(r.DecTopNz), u8(r.EncTopNzDC), u8(r.DecTopNzDC))
	case "rmdeq":
		return "ok " + rmInts(rmI16s(verifapi.ReconDequant(rmI16(rmParseInts(f[3])), iv(1), iv(2))))
	}
	return "bad-op"
}

func replayReconModelLine(in map[string]any) int {
	line, _ := in["line"].(string)
	lean, err := RunDriver([]string{line})
	if err != nil {
		fmt.Println(err)
		return 2
	}
	goL, _ := guard(func() string { return rmGoLine(line) })
	if want, ok := in["go"].(string); ok && strings.HasPrefix(line, "rmnz") {
		goL = want
	}
	fmt.Println("lean:", lean[0])
	fmt.Println("go:  ", goL)
	if lean[0] != goL {
		return 1
	}
	return 0
}

var rmDcTab = []int{4, 5, 6, 7, 8, 9, 10, 10, 11, 12, 13, 14, 15, 16, 17, 17, 18, 19, 20, 20, 21, 21, 22, 22, 23, 23, 24, 25, 25, 26, 27, 28, 29, 30, 31, 32, 33, 34, 35, 36, 37, 37, 38, 39, 40, 41, 42, 43, 44, 45, 46, 46, 47, 48, 49, 50, 51, 52, 53, 54, 55, 56, 57, 58, 59, 60, 61, 62, 63, 64, 65, 66, 67, 68, 69, 70, 71, 72, 73, 74, 75, 76, 76, 77, 78, 79, 80, 81, 82, 83, 84, 85, 86, 87, 88, 89, 91, 93, 95, 96, 98, 100, 101, 102, 104, 106, 108, 110, 112, 114, 116, 118, 122, 124, 126, 128, 130, 132, 134, 136, 138, 140, 143, 145, 148, 151, 154, 157}

// rmQuant draws six plausible dequantisation factors (y1dc y1ac y2dc y2ac uvdc uvac).
func rmQuant(r *RNG) [6]int {
	q := r.Intn(128)
	ac := func(i int) int {
		if i < 0 {
			i = 0
		}
		if i > 127 {
			i = 127
		}
		v := rmDcTab[i] // same order of magnitude; exact AC values come from the matrices leg
		return v + i/2
	}
	y2ac := ac(q) * 155 / 100
	if y2ac < 8 {
		y2ac = 8
	}
	if r.Chance(1, 6) { // the extremes
		return [6]int{157, 284, 314, 440, 132, 284}
	}
	if r.Chance(1, 8) {
		return [6]int{4, 4, 8, 8, 4, 4}
	}
	return [6]int{rmDcTab[q], ac(q), 2 * rmDcTab[q], y2ac, rmDcTab[min(q, 117)], ac(q + r.Intn(11) - 4)}
}

const (
	lvZero = iota
	lvDCOnly
	lvFew
	lvSparse
	lvDense
	lvExtreme
	lvHuge
	numLvClasses
)

var lvNames = []string{"all-zero", "dc-only", "<=3-coeffs", "sparse", "dense", "extreme-2047/2048", "beyond-token-range"}

// rmLevels draws one block of 16 levels (raster order) of the given class.
func rmLevels(r *RNG, cls int) (out [16]int16) {
	zz := [16]int{0, 1, 4, 8, 5, 2, 3, 6, 9, 12, 13, 10, 7, 11, 14, 15}
	small := func() int16 {
		v := []int{1, 1, 1, 2, 2, 3, 4, 5, 6, 7, 10, 11, 18, 19, 34, 35, 66, 67, 68, 100, 500}[r.Intn(21)]
		if r.Bool() {
			v = -v
		}
		return int16(v)
	}
	switch cls {
	case lvZero:
	case lvDCOnly:
		out[0] = small()
	case lvFew:
		for k := 0; k < 1+r.Intn(3); k++ {
			out[zz[r.Intn(3)]] = small()
		}
	case lvSparse:
		for k := 0; k < 1+r.Intn(4); k++ {
			out[r.Intn(16)] = small()
		}
	case lvDense:
		for i := range out {
			if r.Chance(3, 4) {
				out[i] = small()
			}
		}
	case lvExtreme:
		for k := 0; k < 1+r.Intn(5); k++ {
			out[r.Intn(16)] = int16([]int{2047, -2047, 2048, -2048, 2114, -2114, 1024, -1024, 2046}[r.Intn(9)])
		}
	case lvHuge:
		for k := 0; k < 1+r.Intn(3); k++ {
			out[r.Intn(16)] = int16([]int{2115, -2115, 4000, -4000, 32767, -32768, 16384}[r.Intn(7)])
		}
	}
	return
}

func suiteReconModel(rep *Report) error {
	rep.Rule = "ops rmeq/rmhdr over every quantiser index 0..127 x every single delta -15..15 x numSegs 1..4 plus random index/delta/stale combinations (also deltas outside 4 bits); rmdq random headers incl. delta mode; rmblk blocks of 7 level classes x 4 coefficient types x contexts 0..2 x random factors; rmfr frames up to 3x2 macroblocks of skipped/I16/I4 macroblocks; quantiser leg: DCT-like inputs x factors through the real (SIMD) QuantizeCoeffs, its Go twin and the trellis; kernel-fact leg on the dispatched kernels; end-to-end encodes of flat wide pictures with one low-contrast patch; non-trivial = not all levels zero / index or delta non-zero"
	thorough := rep.Tier == "thorough"
	if !driverHas("rmeq") {
		rep.Notes = append(rep.Notes, "driver has no rmeq op: correspondence legs skipped, Go-only legs run")
	}
	var lines []string
	add := func(l string, nontrivial bool) {
		lines = append(lines, l)
		rep.Eval(nontrivial, []byte(l))
	}

	// ---- A. quantiser matrices ----
	for q := 0; q < 128; q++ {
		for k := 0; k < 5; k++ {
			for v := -15; v <= 15; v++ {
				if !thorough && k < 3 && v%5 != 0 && q%8 != 0 { // y deltas are always 0 in this encoder: thin them in quick
					continue
				}
				var d [5]int
				d[k] = v
				ns := 1 + (q+k+v+30)%4
				qs := []int{q, (q * 7) % 128, (q + 31) % 128, 127 - q}
				add(fmt.Sprintf("rmeq %d %s %s", ns, rmInts(qs), rmInts(d[:])), q != 0 || v != 0)
				add(fmt.Sprintf("rmhdr %d %s %s %s", ns, rmInts(qs), rmInts(d[:]), rmInts([]int{(q % 256) - 128, v * 8, -q, 127})), true)
				rep.Count("matrices:exhaustive-single-delta")
			}
		}
	}
	nrand := 3000
	if thorough {
		nrand = 40000
	}
	for i := 0; i < nrand; i++ {
		r := NewRNG(rep.Seed, uint64(1_000_000+i))
		qs := []int{r.Intn(128), r.Intn(128), r.Intn(128), r.Intn(128)}
		var d [5]int
		for k := range d {
			d[k] = r.Intn(31) - 15
			if r.Chance(1, 20) {
				d[k] = r.Intn(61) - 30 // outside what PutSignedBits(·,4) can carry
				rep.Count("matrices:delta-outside-4-bits")
			}
		}
		ns := 1 + r.Intn(4)
		st := []int{r.Intn(256) - 128, r.Intn(256) - 128, r.Intn(256) - 128, r.Intn(256) - 128}
		add(fmt.Sprintf("rmeq %d %s %s", ns, rmInts(qs), rmInts(d[:])), true)
		add(fmt.Sprintf("rmhdr %d %s %s %s", ns, rmInts(qs), rmInts(d[:]), rmInts(st)), true)
		sq := []int{r.Intn(255) - 127, r.Intn(255) - 127, r.Intn(255) - 127, r.Intn(255) - 127}
		add(fmt.Sprintf("rmdq %s %s %d %s %s", b2s(r.Bool()), b2s(r.Bool()), r.Intn(128), rmInts(sq), rmInts([]int{r.Intn(31) - 15, r.Intn(31) - 15, r.Intn(31) - 15, r.Intn(31) - 15, r.Intn(31) - 15})), true)
		rep.Count("matrices:random")

		// dequant_agree on the real code: every segment in use
		inRange := true
		for _, v := range d {
			if v < -15 || v > 15 {
				inRange = false
			}
		}
		if inRange {
			var in verifapi.ReconQuantIn
			in.NumSegs = ns
			copy(in.Quant[:], qs)
			in.DQ = d
			for k, v := range st {
				in.Stale[k] = int8(v)
			}
			out := verifapi.ReconQuantRoundTrip(in)
			for s := 0; s < ns; s++ {
				if out.Dec[s] != out.Enc[s] {
					rep.Add(Finding{Kind: "property", Property: "C06", Signature: "recon-model:dequant-header-mismatch",
						Detail: fmt.Sprintf("segment %d of %d: decoder factors %v from the written header, encoder uses %v (q=%v dq=%v)", s, ns, out.Dec[s], out.Enc[s], qs, d),
						Input:  map[string]any{"op": "rmline", "line": fmt.Sprintf("rmhdr %d %s %s %s", ns, rmInts(qs), rmInts(d[:]), rmInts(st))}})
				}
			}
			rep.Count("matrices:go-dequant-agree-checked")
		}
	}

	// ---- B. one block through RecordCoeffs / getCoeffsInline ----
	nblk := 6000
	if thorough {
		nblk = 120000
	}
	for i := 0; i < nblk; i++ {
		r := NewRNG(rep.Seed, uint64(2_000_000+i))
		cls := i % numLvClasses
		lv := rmLevels(r, cls)
		t := r.Intn(4)
		first := 0
		var ini [16]int16
		if t == 0 {
			first = 1
			ini[0] = int16(r.Intn(4001) - 2000)
			if r.Chance(1, 3) {
				lv[0] = 0
			}
		}
		q := rmQuant(r)
		dq0, dq1 := q[0], q[1]
		if t == 1 {
			dq0, dq1 = q[2], q[3]
		} else if t == 2 {
			dq0, dq1 = q[4], q[5]
		}
		add(fmt.Sprintf("rmblk %d %d %d %d %d %s %s", t, first, r.Intn(3), dq0, dq1, rmInts(rmI16s(lv)), rmInts(rmI16s(ini))), cls != lvZero)
		rep.Count("block:" + lvNames[cls])
		rep.Count(fmt.Sprintf("block:type%d", t))
	}

	// ---- C. small frames through the token pass and decodeMB ----
	nfr := 500
	if thorough {
		nfr = 8000
	}
	sizes := [][2]int{{1, 1}, {2, 1}, {1, 2}, {2, 2}, {3, 2}, {3, 1}}
	for i := 0; i < nfr; i++ {
		r := NewRNG(rep.Seed, uint64(3_000_000+i))
		sz := sizes[r.Intn(len(sizes))]
		n := sz[0] * sz[1]
		q := rmQuant(r)
		flags := make([]byte, n)
		raw := make([]byte, 0, 800*n)
		mbs := make([]verifapi.ReconMBIn, n)
		anyNZ := false
		for m := 0; m < n; m++ {
			isI4 := r.Bool()
			flags[m] = '0'
			if isI4 {
				flags[m] = '1'
			}
			mbs[m].IsI4 = isI4
			kind := r.Intn(5) // 0 skip, 1 sparse, 2 dense, 3 y2-only / dc-only, 4 extremes
			for b := 0; b < 25; b++ {
				var lv [16]int16
				switch kind {
				case 0:
				case 1:
					if r.Chance(1, 3) {
						lv = rmLevels(r, []int{lvDCOnly, lvFew, lvSparse}[r.Intn(3)])
					}
				case 2:
					lv = rmLevels(r, []int{lvFew, lvSparse, lvDense}[r.Intn(3)])
				case 3:
					if b == 24 || (isI4 && r.Chance(1, 4)) {
						lv = rmLevels(r, lvDCOnly)
					}
				case 4:
					if r.Chance(1, 2) {
						lv = rmLevels(r, lvExtreme)
					}
				}
				if !isI4 && b < 16 {
					lv[0] = 0 // encodeI16Residuals clears the DC of every luma block
				}
				if isI4 && b == 24 {
					lv = [16]int16{} // no Y2 block
				}
				copy(mbs[m].Levels[b*16:], lv[:])
			}
			for _, v := range mbs[m].Levels {
				raw = binary.LittleEndian.AppendUint16(raw, uint16(v))
				if v != 0 {
					anyNZ = true
				}
			}
			rep.Count(fmt.Sprintf("frame-mb:kind%d", kind))
		}
		add(fmt.Sprintf("rmfr %d %d %s %s %s", sz[0], sz[1], rmInts(q[:]), string(flags), hx(raw)), anyNZ)
		rep.Count(fmt.Sprintf("frame:%dx%d", sz[0], sz[1]))

		// on the real code: coefficients = int16(level*q) (+ WHT), contexts equal on both sides
		res := verifapi.ReconTokenFrame(sz[0], sz[1], mbs, q)
		bad := ""
		for x := range res.EncTopNz {
			if int(res.EncTopNz[x]) != int(res.DecTopNz[x]) || res.EncTopNzDC[x] != res.DecTopNzDC[x] {
				bad = fmt.Sprintf("non-zero context of column %d: encoder %d/%d, decoder %d/%d", x, res.EncTopNz[x], res.EncTopNzDC[x], res.DecTopNz[x], res.DecTopNzDC[x])
			}
		}
		for m := 0; m < n && bad == ""; m++ {
			if res.MBs[m].Skip {
				continue
			}
			for b := 0; b < 24; b++ {
				dq := [2]int{q[0], q[1]}
				if b >= 16 {
					dq = [2]int{q[4], q[5]}
				}
				for k := 0; k < 16; k++ {
					if !mbs[m].IsI4 && b < 16 && k == 0 {
						continue // from the WHT step; covered by the Lean comparison
					}
					want := int16(int(mbs[m].Levels[b*16+k]) * dq[b2iRM(k > 0)])
					if res.MBs[m].Coeffs[b*16+k] != want {
						bad = fmt.Sprintf("macroblock %d block %d coefficient %d: decoder %d, int16(level*q) %d", m, b, k, res.MBs[m].Coeffs[b*16+k], want)
					}
				}
			}
		}
		if bad != "" || res.EOF {
			rep.Add(Finding{Kind: "property", Property: "C06", Signature: "recon-model:token-frame-drift",
				Detail: bad + fmt.Sprintf(" eof=%v", res.EOF),
				Input:  map[string]any{"op": "rmline", "line": lines[len(lines)-1]}})
		}
	}

	// ---- D. the quantisers' return value, the level clamp, dequantisation ----
	nq := 4000
	if thorough {
		nq = 80000
	}
	var nzGo []string // expected answers of the rmnz / rmdeq lines of this leg
	var nzLines []string
	for i := 0; i < nq; i++ {
		r := NewRNG(rep.Seed, uint64(4_000_000+i))
		var in [16]int16
		amp := []int{3, 20, 200, 2100, 17000, 32767}[r.Intn(6)]
		for k := range in {
			if r.Chance(2, 3) {
				in[k] = int16(r.Intn(2*amp+1) - amp)
			}
		}
		q := rmQuant(r)
		kind := r.Intn(3)
		first := 0
		if kind == 0 && r.Bool() {
			first = 1
		}
		dcq, acq := q[2*kind], q[2*kind+1]
		lv, nz, lvGo, nzG, deq, deqGo := verifapi.ReconQuantize(in, dcq, acq, kind, first)
		desc := fmt.Sprintf("in=%v dcq=%d acq=%d kind=%d first=%d", in, dcq, acq, kind, first)
		inp := map[string]any{"op": "reconmodel-quantize", "in": rmI16s(in), "dcq": dcq, "acq": acq, "kind": kind, "first": first}
		if lv != lvGo || nz != nzG || deq != deqGo {
			// 16-bit lanes: `coeff + sharpen` wraps in the SIMD quantiser for |coeff| within ~100 of 2^15, far
			// beyond what the forward DCT of 8-bit residuals (|coeff| <= ~2100, Y2 <= ~16400) produces; only
			// the relations C06 needs (count = last level + 1, |level| <= 2047) are required there
			if amp <= 17000 {
				rep.Add(Finding{Kind: "correspondence", Property: "C06", Signature: "recon-model:quantize-simd",
					Detail: desc + fmt.Sprintf(": dispatched levels %v nz %d deq %v, pure Go levels %v nz %d deq %v", lv, nz, deq, lvGo, nzG, deqGo), Input: inp})
			} else {
				rep.Count("quantize:simd-differs-from-go-twin-outside-dct-range")
			}
		}
		for _, v := range lv {
			if v > 2047 || v < -2047 {
				rep.Add(Finding{Kind: "property", Property: "C06", Signature: "recon-model:level-above-2047", Detail: desc + fmt.Sprintf(": levels %v", lv), Input: inp})
				break
			}
		}
		if first == 1 && lv[0] != 0 {
			rep.Add(Finding{Kind: "property", Property: "C06", Signature: "recon-model:i16-dc-not-cleared", Detail: desc, Input: inp})
		}
		nzLines = append(nzLines, fmt.Sprintf("rmnz %d %s", first, rmInts(rmI16s(lv))))
		nzGo = append(nzGo, fmt.Sprintf("ok %d", nz))
		rep.Eval(nz > 0, []byte(nzLines[len(nzLines)-1]))
		add(fmt.Sprintf("rmdeq %d %d %s", dcq, acq, rmInts(rmI16s(lv))), nz > 0)
		rep.Count("quantize:QuantizeCoeffs")
		if r.Chance(1, 2) {
			ctxType := []int{3, 1, 2}[kind]
			f2 := 0
			if kind == 0 && r.Bool() {
				ctxType, f2 = 0, 1
			}
			tl, tnz := verifapi.ReconTrellis(in, dcq, acq, kind, f2, ctxType, r.Intn(3), 1+r.Intn(5000))
			nzLines = append(nzLines, fmt.Sprintf("rmnz %d %s", f2, rmInts(rmI16s(tl))))
			nzGo = append(nzGo, fmt.Sprintf("ok %d", tnz))
			for _, v := range tl {
				if v > 2047 || v < -2047 {
					rep.Add(Finding{Kind: "property", Property: "C06", Signature: "recon-model:level-above-2047", Detail: "trellis " + desc + fmt.Sprintf(": levels %v", tl), Input: inp})
					break
				}
			}
			if f2 == 1 && tl[0] != 0 {
				rep.Add(Finding{Kind: "property", Property: "C06", Signature: "recon-model:i16-dc-not-cleared", Detail: "trellis " + desc, Input: inp})
			}
			rep.Count("quantize:TrellisQuantizeBlock")
		}
		if r.Chance(1, 4) { // dequantisation of levels no quantiser produces
			add(fmt.Sprintf("rmdeq %d %d %s", q[2], q[3], rmInts(rmI16s(rmLevels(r, lvExtreme+r.Intn(2))))), true)
		}
	}

	// ---- E. the kernel facts on the dispatched kernels ----
	rmKernelFacts(rep, thorough)

	// ---- F. what the model abstracts: tokens must be coded under the probability table of the header ----
	rmProbaLeg(rep, thorough)

	// ---- run the driver ----
	if !driverHas("rmeq") {
		return nil
	}
	all := append(append([]string{}, lines...), nzLines...)
	lean, err := RunDriver(all)
	if err != nil {
		return err
	}
	for i, l := range all {
		var goL, pm string
		if i < len(lines) {
			goL, pm = guard(func() string { return rmGoLine(l) })
			if pm != "" {
				goL = "panic"
			}
		} else {
			goL = nzGo[i-len(lines)]
		}
		if lean[i] != goL {
			op := strings.SplitN(l, " ", 2)[0]
			sig := map[string]string{"rmeq": "recon-model:encQuantMatrix", "rmhdr": "recon-model:encHeader-decQuantMatrix", "rmdq": "recon-model:decQuantMatrix",
				"rmblk": "recon-model:recordCoeffs-getCoeffs", "rmfr": "recon-model:emitTokens-parseTokens", "rmnz": "recon-model:nzCountFrom", "rmdeq": "recon-model:dequant"}[op]
			rep.Add(Finding{Kind: "correspondence", Property: "C06", Signature: sig,
				Detail: fmt.Sprintf("%s: lean %q, go %q", short(l, 200), short(lean[i], 300), short(goL, 300)),
				Input:  map[string]any{"op": "rmline", "line": l, "go": goL}})
		}
	}
	rep.Sample(map[string]any{"line": lines[0], "lean": lean[0]})
	rep.Sample(map[string]any{"line": short(lines[len(lines)-1], 200), "lean": short(lean[len(lines)-1], 200)})
	return nil
}

func b2iRM(b bool) int {
	if b {
		return 1
	}
	return 0
}

// rmKernelFacts checks the named hypotheses of Webp.Impl.VP8Recon.KernelFacts on the kernels this
// build dispatches to: the decoder's dispatch (doTransform / doUVTransform / the WHT shortcut /
// the predictor table) against what the encoder calls (ITransformDirect, TransformWHT, the direct
// predictor wrappers).
func rmKernelFacts(rep *Report, thorough bool) {
	preds := [][16]byte{}
	for _, v := range []byte{0, 1, 37, 128, 200, 254, 255} {
		var p [16]byte
		for i := range p {
			p[i] = v
		}
		preds = append(preds, p)
	}
	inRange := func(c [16]int16, lim int) bool {
		for _, v := range c {
			if int(v) > lim || int(v) < -lim {
				return false
			}
		}
		return true
	}
	report := func(name string, reach bool, detail string, inp map[string]any) {
		if reach {
			rep.Add(Finding{Kind: "property", Property: "C06", Signature: "recon-model:kernel-fact:" + name, Detail: detail, Input: inp})
		} else {
			rep.Count("kernel-fact-fails-outside-8bit-range:" + name)
		}
	}
	// idct_dc and idct_zero: every int16 DC value
	step := 1
	if !thorough {
		step = 3
	}
	for dc := -32768; dc <= 32767; dc += step {
		var c [16]int16
		c[0] = int16(dc)
		code := 1
		if dc == 0 {
			code = 0
		}
		for _, p := range preds {
			d, e := verifapi.ReconDecTransform(code, c, p), verifapi.ReconEncTransform(c, p)
			if d != e {
				report("idct_dc", inRange(c, 4096), fmt.Sprintf("dc=%d pred=%d: decoder DC path %v, encoder ITransformDirect %v", dc, p[0], d[:4], e[:4]),
					map[string]any{"op": "reconmodel-kernel", "fact": "idct_dc", "dc": dc, "pred": int(p[0])})
				break
			}
		}
		rep.Count("kernel-fact:idct_dc")
		// wht_dc
		w := verifapi.ReconWHT(c)
		want := int16((dc + 3) >> 3)
		for _, v := range w {
			if v != want {
				report("wht_dc", dc >= -20000 && dc <= 20000, fmt.Sprintf("dc=%d: TransformWHT %v, shortcut %d", dc, w, want),
					map[string]any{"op": "reconmodel-kernel", "fact": "wht_dc", "dc": dc})
				break
			}
		}
	}
	n := 60000
	if thorough {
		n = 600000
	}
	for i := 0; i < n; i++ {
		r := NewRNG(rep.Seed, uint64(5_000_000+i))
		amp := []int{8, 100, 1000, 3300, 4096, 12000, 32767}[r.Intn(7)]
		val := func() int16 {
			if r.Chance(1, 10) {
				return int16([]int{amp, -amp}[r.Intn(2)])
			}
			return int16(r.Intn(2*amp+1) - amp)
		}
		var pred [16]byte
		copy(pred[:], r.Bytes(16))
		if r.Chance(1, 4) {
			pred = preds[r.Intn(len(preds))]
		}
		var c [16]int16
		switch i % 3 {
		case 0: // idct_same: full transform
			for k := range c {
				if r.Chance(3, 4) {
					c[k] = val()
				}
			}
			if d, e := verifapi.ReconDecTransform(3, c, pred), verifapi.ReconEncTransform(c, pred); d != e {
				report("idct_same", inRange(c, 4096), fmt.Sprintf("coeffs=%v pred=%v: Transform %v, ITransformDirect %v", c, pred, d, e),
					map[string]any{"op": "reconmodel-kernel", "fact": "idct_same", "coeffs": rmI16s(c), "pred": pred[:]})
			}
			rep.Count("kernel-fact:idct_same")
		case 1: // idct_ac3
			c[0], c[1], c[4] = val(), val(), val()
			if d, e := verifapi.ReconDecTransform(2, c, pred), verifapi.ReconEncTransform(c, pred); d != e {
				report("idct_ac3", inRange(c, 4096), fmt.Sprintf("coeffs=%v pred=%v: TransformAC3 %v, ITransformDirect %v", c, pred, d, e),
					map[string]any{"op": "reconmodel-kernel", "fact": "idct_ac3", "coeffs": rmI16s(c), "pred": pred[:]})
			}
			rep.Count("kernel-fact:idct_ac3")
		case 2: // idct_uv (and the per-block DC path of doUVTransform)
			var cs [64]int16
			var p8 [64]byte
			copy(p8[:], r.Bytes(64))
			bits := uint32(0)
			dcOnly := r.Chance(1, 3)
			lim := true
			for k := 0; k < 4; k++ {
				var blk [16]int16
				code := 0
				switch {
				case r.Chance(1, 4):
				case dcOnly || r.Chance(1, 3):
					blk[0] = val()
					if blk[0] != 0 {
						code = 1
					}
				case r.Chance(1, 2):
					blk[0], blk[1], blk[4] = val(), val(), val()
					code = 2
				default:
					for j := range blk {
						blk[j] = val()
					}
					code = 3
				}
				lim = lim && inRange(blk, 4096)
				copy(cs[16*k:], blk[:])
				bits = bits<<2 | uint32(code)
			}
			if d, e := verifapi.ReconDecUVTransform(bits, cs, p8), verifapi.ReconEncUVTransform(cs, p8); d != e {
				report("idct_uv", lim, fmt.Sprintf("bits=%#x coeffs=%v: doUVTransform and four ITransformDirect differ", bits, cs),
					map[string]any{"op": "reconmodel-kernel", "fact": "idct_uv", "bits": bits, "coeffs": cs[:], "pred": p8[:]})
			}
			rep.Count("kernel-fact:idct_uv")
		}
		if i%10 == 0 { // predictors: table entry (decoder) vs direct wrapper (encoder)
			var top, left [16]byte
			copy(top[:], r.Bytes(16))
			copy(left[:], r.Bytes(16))
			mode := r.Intn(7)
			if d, e := verifapi.ReconPred16(mode, top, left, byte(r.Intn(256))); d != e {
				report("pred16_same", true, fmt.Sprintf("mode %d top=%v left=%v", mode, top, left), map[string]any{"op": "reconmodel-kernel", "fact": "pred16_same", "mode": mode})
			}
			var t8, l8 [8]byte
			copy(t8[:], top[:8])
			copy(l8[:], left[:8])
			if d, e := verifapi.ReconPred8(mode, t8, l8, byte(r.Intn(256))); d != e {
				report("pred8_same", true, fmt.Sprintf("mode %d top=%v left=%v", mode, t8, l8), map[string]any{"op": "reconmodel-kernel", "fact": "pred8_same", "mode": mode})
			}
			rep.Count("kernel-fact:pred_same")
		}
	}
}

// rmE2E encodes a flat picture with one small low-contrast patch (few coefficient tokens, many
// macroblocks) through the public API with the loop filter off and compares the decoded luma with
// the encoder's reconstruction.  Wide and short pictures (more than 96 macroblocks, fewer than 4
// macroblock rows) take the serial encoder with mid-stream probability refreshes at Method >= 3.
func rmE2E(w, h, texW, amp, method, quality int, flat uint8, seed uint64) (diff int, detail string) {
	r := NewRNG(seed, 77)
	img := image.NewNRGBA(image.Rect(0, 0, w, h))
	for y := 0; y < h; y++ {
		for x := 0; x < w; x++ {
			v := flat
			if x < texW && y < 16 {
				v = uint8(int(flat)/2 + r.Intn(amp+1)/2)
			}
			img.SetNRGBA(x, y, color.NRGBA{R: v, G: v, B: v, A: 255})
		}
	}
	var mu sync.Mutex
	var rec *verifapi.LossyRecon
	verifapi.SetAfterEncodeHook(func(rr verifapi.LossyRecon) { mu.Lock(); c := rr; rec = &c; mu.Unlock() })
	defer verifapi.SetAfterEncodeHook(nil)
	o := webp.DefaultOptions()
	o.Lossless = false
	o.Quality = float32(quality)
	o.Method = method
	o.FilterStrength = 0
	file, err := encodeBytes(img, o)
	if err != nil {
		return 0, ""
	}
	d, perr := verifapi.NewContainerParser(file)
	if perr != nil || len(d.Frames()) != 1 || rec == nil {
		return -1, "own output not parseable / no hook call"
	}
	dy, _, _, dys, _, dw, dh, derr := decodeYUV(d.Frames()[0].Payload)
	if derr != nil {
		return -1, "decode error: " + derr.Error()
	}
	if dw != w || dh != h {
		return -1, fmt.Sprintf("decoded %dx%d", dw, dh)
	}
	first := ""
	for y := 0; y < h; y++ {
		for x := 0; x < w; x++ {
			if dy[y*dys+x] != rec.Y[y*rec.YStride+x] {
				if diff == 0 {
					first = fmt.Sprintf("first at (%d,%d): decoded %d, encoder reconstruction %d", x, y, dy[y*dys+x], rec.Y[y*rec.YStride+x])
				}
				diff++
			}
		}
	}
	return diff, first
}

func rmProbaLeg(rep *Report, thorough bool) {
	n := 36
	if thorough {
		n = 400
	}
	sizes := [][2]int{{2000, 48}, {1700, 32}, {1600, 16}, {640, 48}, {176, 160}}
	for i := 0; i < n; i++ {
		r := NewRNG(rep.Seed, uint64(6_000_000+i))
		sz := sizes[i%len(sizes)]
		texW := 16 * (1 + r.Intn(3))
		amp := []int{2, 8, 40}[r.Intn(3)]
		method := 3 + r.Intn(4)
		if i%9 == 8 {
			method = r.Intn(3)
		}
		q := []int{10, 40, 75, 95}[r.Intn(4)]
		flat := uint8(40 + r.Intn(180))
		seed := rep.Seed*1000 + uint64(i)
		diff, detail := rmE2E(sz[0], sz[1], texW, amp, method, q, flat, seed)
		rep.Count(fmt.Sprintf("e2e-sparse:%dx%d", sz[0], sz[1]))
		rep.Eval(true, []byte(fmt.Sprintf("e2e %v %d %d %d %d %d %d", sz, texW, amp, method, q, flat, seed)))
		if diff != 0 {
			cls := "m>=3"
			if method < 3 {
				cls = "m<3"
			}
			rep.Add(Finding{Kind: "property", Property: "C06", Signature: "recon:stream-desync:sparse-tokens:" + cls,
				Detail: fmt.Sprintf("%dx%d flat %d with a %dx16 patch of amplitude %d, Method %d, Quality %d, FilterStrength 0: %d luma samples differ from the encoder's reconstruction; %s",
					sz[0], sz[1], flat, texW, amp, method, q, diff, detail),
				Input: map[string]any{"op": "reconmodel-e2e", "w": sz[0], "h": sz[1], "texw": texW, "amp": amp, "method": method, "quality": q, "flat": int(flat), "seed": seed}})
		}
	}
}

func replayReconModelE2E(in map[string]any) int {
	g := func(k string) int { v, _ := in[k].(float64); return int(v) }
	diff, detail := rmE2E(g("w"), g("h"), g("texw"), g("amp"), g("method"), g("quality"), uint8(g("flat")), uint64(g("seed")))
	fmt.Printf("luma samples differing from the encoder's reconstruction: %d %s\n", diff, detail)
	if diff != 0 {
		return 1
	}
	return 0
}
