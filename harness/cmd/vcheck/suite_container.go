package main

import (
	"fmt"
	"sort"
	"strings"
)

type cInput struct {
	data []byte
	kind string
}

// layoutInputs hand-assembles containers from a chunk vocabulary, including flag mis-statements,
// empty / odd chunks, unknown chunks and metadata before/after the image.
func layoutInputs(r *RNG, seeds []Seed, n int) []cInput {
	var vp8, vp8l, alph [][]byte
	for _, s := range seeds {
		if !s.Still || len(s.Data) < 30 {
			continue
		}
		for _, c := range scanChunks(s.Data) {
			end := c.off + 8 + c.size
			if end > len(s.Data) {
				continue
			}
			pl := s.Data[c.off+8 : end]
			switch string(s.Data[c.off : c.off+4]) {
			case "VP8 ":
				vp8 = append(vp8, pl)
			case "VP8L":
				vp8l = append(vp8l, pl)
			case "ALPH":
				alph = append(alph, pl)
			}
		}
	}
	dims := func(pl []byte, lossless bool) (int, int) {
		if lossless {
			bits := uint32(pl[1]) | uint32(pl[2])<<8 | uint32(pl[3])<<16 | uint32(pl[4])<<24
			return int(bits&0x3fff) + 1, int((bits>>14)&0x3fff) + 1
		}
		return (int(pl[6]) | int(pl[7])<<8) & 0x3fff, (int(pl[8]) | int(pl[9])<<8) & 0x3fff
	}
	var out []cInput
	for i := 0; i < n; i++ {
		var body []byte
		lossless := r.Bool()
		var img []byte
		if lossless {
			img = vp8l[r.Intn(len(vp8l))]
		} else {
			img = vp8[r.Intn(len(vp8))]
		}
		w, h := dims(img, lossless)
		anim := r.Chance(1, 4)
		flags := byte(0)
		withAlph := !lossless && r.Chance(1, 2)
		var a []byte
		if withAlph {
			switch r.Intn(4) {
			case 0:
				a = []byte{} // zero-length ALPH
			default:
				a = alph[r.Intn(len(alph))]
			}
			flags |= 0x10
		}
		withICC, withEXIF, withXMP := r.Chance(1, 3), r.Chance(1, 3), r.Chance(1, 3)
		if withICC {
			flags |= 0x20
		}
		if withEXIF {
			flags |= 0x08
		}
		if withXMP {
			flags |= 0x04
		}
		if anim {
			flags |= 0x02
		}
		// mis-state flags sometimes
		if r.Chance(1, 5) {
			flags ^= []byte{0x10, 0x20, 0x08, 0x04}[r.Intn(4)]
		}
		cw, ch := w, h
		if anim {
			cw, ch = w+2*r.Intn(3), h+2*r.Intn(3)
		}
		if r.Chance(1, 12) {
			cw += r.Intn(3) - 1
			if cw < 1 {
				cw = 1
			}
		}
		body = append(body, chunk("VP8X", vp8xPayload(flags, cw, ch))...)
		if withICC {
			body = append(body, chunk("ICCP", r.Bytes(r.Intn(9)))...)
		}
		if r.Chance(1, 5) {
			body = append(body, chunk("UNKN", r.Bytes(r.Intn(6)))...)
		}
		if withEXIF && r.Bool() {
			body = append(body, chunk("EXIF", r.Bytes(1+r.Intn(9)))...)
			withEXIF = false
		}
		imgChunks := func() []byte {
			var b []byte
			if withAlph {
				b = append(b, chunk("ALPH", a)...)
			}
			if lossless {
				b = append(b, chunk("VP8L", img)...)
			} else {
				b = append(b, chunk("VP8 ", img)...)
			}
			return b
		}
		if anim {
			if !r.Chance(1, 10) {
				ap := []byte{byte(r.Next()), byte(r.Next()), byte(r.Next()), byte(r.Next()), byte(r.Intn(4)), 0}
				if r.Chance(1, 8) {
					ap = ap[:r.Intn(6)]
				}
				body = append(body, chunk("ANIM", ap)...)
			}
			nf := 1 + r.Intn(3)
			for k := 0; k < nf; k++ {
				p := append([]byte{}, le24(r.Intn(3))...)
				p = append(p, le24(r.Intn(3))...)
				p = append(p, le24(w-1)...)
				p = append(p, le24(h-1)...)
				p = append(p, le24(r.Intn(1000))...)
				p = append(p, byte(r.Intn(4)))
				p = append(p, imgChunks()...)
				if r.Chance(1, 6) {
					p = append(p, chunk("UNKN", r.Bytes(3))...)
				}
				body = append(body, chunk("ANMF", p)...)
			}
		} else {
			body = append(body, imgChunks()...)
		}
		if withEXIF {
			body = append(body, chunk("EXIF", r.Bytes(1+r.Intn(9)))...)
		}
		if withXMP {
			body = append(body, chunk("XMP ", r.Bytes(r.Intn(9)))...)
		}
		if r.Chance(1, 6) {
			body = append(body, chunk("UNKN", r.Bytes(r.Intn(5)))...)
		}
		b := riff(body)
		if r.Chance(1, 10) {
			b = append(b, r.Bytes(1+r.Intn(4))...) // trailing garbage after the RIFF payload
		}
		out = append(out, cInput{b, "layout"})
	}
	return out
}

func containerInputs(seed uint64, tier string) ([]cInput, []Seed) {
	rich := tier == "thorough"
	seeds := BuildSeeds(seed, rich)
	var others [][]byte
	for _, s := range seeds {
		others = append(others, s.Data)
	}
	var in []cInput
	for _, s := range seeds {
		in = append(in, cInput{s.Data, "seed"})
	}
	// regression corpus: hand-written edge files (run first)
	in = append(in, corpusInputs()...)
	nMut, nLayout, nRand := 6000, 2500, 500
	if rich {
		nMut, nLayout, nRand = 150000, 40000, 10000
	}
	small := []Seed{}
	for _, s := range seeds {
		if len(s.Data) <= 6000 {
			small = append(small, s)
		}
	}
	for i := 0; i < nMut; i++ {
		r := NewRNG(seed, uint64(1000+i))
		s := small[r.Intn(len(small))]
		b, k := Mutate(r, s.Data, others)
		in = append(in, cInput{b, "mut:" + strings.SplitN(k, ",", 2)[0]})
	}
	in = append(in, layoutInputs(NewRNG(seed, 77), seeds, nLayout)...)
	for i := 0; i < nRand; i++ {
		r := NewRNG(seed, uint64(5000000+i))
		var b []byte
		switch r.Intn(3) {
		case 0:
			b = r.Bytes(r.Intn(64))
		case 1:
			b = append([]byte("RIFF"), r.Bytes(4)...)
			b = append(b, []byte("WEBP")...)
			b = append(b, []byte(fourccs[r.Intn(5)])...)
			b = append(b, r.Bytes(r.Intn(40))...)
		default:
			b = riff(append([]byte(fourccs[r.Intn(5)]), r.Bytes(4+r.Intn(40))...))
		}
		in = append(in, cInput{b, "random"})
	}
	// exhaustive sweep of the low 16 bits (and high 16 bits) of the RIFF size field on three seeds
	nsweep := 0
	for _, s := range seeds {
		if nsweep >= 3 || len(s.Data) > 400 || len(s.Data) < 20 {
			continue
		}
		nsweep++
		step := 97
		if rich {
			step = 1
		}
		for v := 0; v < 65536; v += step {
			b := append([]byte(nil), s.Data...)
			b[4], b[5] = byte(v), byte(v>>8)
			if v%2 == 1 {
				b[6], b[7] = byte(v>>3), byte(v>>11)
			} else {
				b[6], b[7] = 0, 0
			}
			in = append(in, cInput{b, "sweep:riffsize"})
		}
	}
	return in, seeds
}

var containerOps = []struct {
	op string
	f  func([]byte) string
}{
	{"parser", goParser}, {"demux", goDemux}, {"features", goFeatures}, {"config", goConfig},
}

// suiteContainer: correspondence of the Lean container models with the Go parsers on the same bytes.
func suiteContainer(rep *Report) error {
	inputs, _ := containerInputs(rep.Seed, rep.Tier)
	rep.Rule = "inputs: seed corpus (encoder/muxer/animation outputs, testdata), structure-aware mutations, hand-assembled chunk layouts, random bytes, RIFF-size sweeps; each input is parsed by container.NewParser, mux.NewDemuxer, webp.GetFeatures, webp.DecodeConfig and by the Lean models; non-trivial = the parser or demuxer got past the RIFF header; distinct = FNV hash of the bytes"
	var lines []string
	goOut := make([]string, 0, len(inputs)*len(containerOps))
	for _, in := range inputs {
		h := hx(in.data)
		nontrivial := false
		for _, o := range containerOps {
			lines = append(lines, o.op+" "+h)
			s, pm := guard(func() string { return o.f(in.data) })
			if s == "panic" {
				rep.Add(Finding{Kind: "property", Property: "C05", Signature: "panic:" + o.op + ":" + panicClass(pm),
					Detail: "Go " + o.op + " panicked: " + pm, Input: map[string]any{"op": o.op, "hex": h}})
			}
			goOut = append(goOut, s)
			if strings.HasPrefix(s, "ok") || (strings.HasPrefix(s, "err") && !strings.Contains(s, "invalidRIFF") && !strings.Contains(s, "truncated")) {
				nontrivial = true
			}
			rep.Count(o.op + ":" + strings.SplitN(s, " ", 3)[0] + ":" + errOf(s))
		}
		rep.Count("kind:" + strings.SplitN(in.kind, ",", 2)[0])
		rep.Eval(nontrivial, in.data)
	}
	leanOut, err := RunDriver(lines)
	if err != nil {
		return err
	}
	for i := range lines {
		if leanOut[i] != goOut[i] {
			in := inputs[i/len(containerOps)]
			op := containerOps[i%len(containerOps)].op
			rep.Add(Finding{Kind: "correspondence", Property: "", Signature: "container-model:" + op,
				Detail: fmt.Sprintf("op %s (%s): go=%q lean=%q", op, in.kind, short(goOut[i], 400), short(leanOut[i], 400)),
				Input:  map[string]any{"op": op, "hex": hx(in.data)}})
		}
		if leanOut[i] == "panic" || leanOut[i] == "hang" {
			in := inputs[i/len(containerOps)]
			op := containerOps[i%len(containerOps)].op
			rep.Add(Finding{Kind: "property", Property: "C05", Signature: "model-" + leanOut[i] + ":" + op,
				Detail: "Lean model of " + op + " reports " + leanOut[i], Input: map[string]any{"op": op, "hex": hx(in.data)}})
		}
	}
	for i := 0; i < len(inputs) && i < 400; i += 97 {
		rep.Sample(map[string]any{"kind": inputs[i].kind, "hex": short(hx(inputs[i].data), 160), "parser": short(goOut[i*len(containerOps)], 200)})
	}
	sortFindings(rep)
	return nil
}

func errOf(s string) string {
	if strings.HasPrefix(s, "err ") {
		return s[4:]
	}
	return ""
}

func panicClass(msg string) string {
	// strip numbers so that one site yields one signature
	var b strings.Builder
	for _, c := range msg {
		if c >= '0' && c <= '9' {
			continue
		}
		b.WriteRune(c)
	}
	return short(b.String(), 60)
}

// sortFindings keeps the shortest inputs first per signature.
func sortFindings(rep *Report) {
	sort.SliceStable(rep.Findings, func(i, j int) bool {
		hi, _ := rep.Findings[i].Input["hex"].(string)
		hj, _ := rep.Findings[j].Input["hex"].(string)
		return len(hi) < len(hj)
	})
}
