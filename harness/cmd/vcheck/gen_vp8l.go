package main

import (
	"fmt"
	"math/bits"
	"sort"
)

// A small random VP8L *writer*: it emits syntactically plausible lossless streams that the Go
// encoder never produces — any subset/order of transforms, tile bits 2..9, all 16 values of the
// predictor-mode nibble, palettes of 1..256 colours with out-of-range indices, cache bits 1..11,
// meta prefix codes, simple / single-symbol / long normal codes with and without max_symbol and
// repeat codes, near and far backward references — plus occasional deliberate defects
// (incomplete or over-subscribed codes, bad cache bits, repeated transforms, copies out of
// range, short data).  It does not know the final pixels: it is a differential generator only.

type bitW struct {
	b []byte
	n uint // bits written
}

func (w *bitW) put(v uint32, nbits int) {
	for i := 0; i < nbits; i++ {
		if w.n%8 == 0 {
			w.b = append(w.b, 0)
		}
		if (v>>uint(i))&1 == 1 {
			w.b[w.n/8] |= 1 << (w.n % 8)
		}
		w.n++
	}
}

// putCode writes a canonical code word, most significant bit first.
func (w *bitW) putCode(code uint32, length int) {
	for i := length - 1; i >= 0; i-- {
		w.put((code>>uint(i))&1, 1)
	}
}

// canonical code words for a length vector (DEFLATE rule).
func canonCodes(lengths []int) []uint32 {
	var blCount [17]int
	for _, l := range lengths {
		if l > 0 && l <= 15 {
			blCount[l]++
		}
	}
	var next [17]uint32
	code := uint32(0)
	for l := 1; l <= 15; l++ {
		code = (code + uint32(blCount[l-1])) << 1
		if l == 1 {
			code = 0
		}
		next[l] = code
	}
	out := make([]uint32, len(lengths))
	for s, l := range lengths {
		if l > 0 && l <= 15 {
			out[s] = next[l]
			next[l]++
		}
	}
	return out
}

// randomTreeLengths returns n code lengths (≤ maxDepth) of a complete prefix code.
func randomTreeLengths(r *RNG, n, maxDepth int) []int {
	if n <= 1 {
		return []int{1 + r.Intn(3)}
	}
	leaves := []int{1, 1}
	for len(leaves) < n {
		// split a random leaf that is not at the maximum depth
		var cand []int
		for i, d := range leaves {
			if d < maxDepth {
				cand = append(cand, i)
			}
		}
		if len(cand) == 0 {
			break
		}
		i := cand[r.Intn(len(cand))]
		if r.Chance(1, 3) { // prefer shallow leaves sometimes, to get skewed trees
			for _, c := range cand {
				if leaves[c] < leaves[i] {
					i = c
				}
			}
		}
		leaves[i]++
		leaves = append(leaves, leaves[i])
	}
	for len(leaves) < n { // could not fit: pad (over-subscribed; only when n > 2^maxDepth)
		leaves = append(leaves, maxDepth)
	}
	return leaves
}

type synCode struct {
	lengths []int
	codes   []uint32
	single  bool // exactly one used symbol: zero bits
}

func (c *synCode) emit(w *bitW, sym int) {
	if c.single || sym >= len(c.lengths) {
		return
	}
	w.putCode(c.codes[sym], c.lengths[sym])
}

type synGen struct {
	r      *RNG
	w      *bitW
	defect string // first deliberate defect, "" if none
	wild   bool   // allow deliberate defects
	narrow bool   // narrow-image mode: short (2-D) distance codes, small ones above all, are over-represented
	// long-code mode (SynVP8LLong): the green and distance codes are degenerate (maximally skewed) with the
	// symbols of backward references on the 12..15-bit code words, copies are frequent, long (length
	// extra bits) and far (distance extra bits up to what the picture size allows)
	long bool
	// degNum/degDen: probability that a prefix code of the main image is written with the degenerate
	// shape (all modes; 0 = never)
	degNum, degDen int
	// bookkeeping for the report: the largest number of bits a backward reference consumes after the
	// last refill the decoder is entitled to skip (alignment of the token in the 32-bit window + green
	// code [+ length extra bits after their own refill] + distance code + distance extra bits), the
	// longest code word used by a token, and the set of window alignments at which a copy token starts
	maxSpan, maxCodeLen int
	aligns              uint32
	nDegenerate         int
}

func (g *synGen) flaw(name string, num, den int) bool {
	if g.wild && g.r.Chance(num, den) {
		if g.defect == "" {
			g.defect = name
		}
		return true
	}
	return false
}

var clOrder = []int{17, 18, 0, 1, 2, 3, 4, 5, 16, 6, 7, 8, 9, 10, 11, 12, 13, 14, 15}

// skewedLengths returns m >= 16 code lengths of a complete prefix code that is as skewed as a code
// with words of at most 15 bits can be: the chain 1,2,...,14,15,15 and, for every further leaf, a
// split of the deepest leaf that is not yet at depth 15. Ascending order.
func skewedLengths(m int) []int {
	ls := make([]int, 0, m)
	for d := 1; d <= 15; d++ {
		ls = append(ls, d)
	}
	ls = append(ls, 15)
	for len(ls) < m {
		best := -1
		for i, d := range ls {
			if d < 15 && (best < 0 || d > ls[best]) {
				best = i
			}
		}
		if best < 0 {
			break // 2^15 leaves: cannot happen for alphabets <= 2328
		}
		ls[best]++
		ls = append(ls, ls[best])
	}
	sort.Ints(ls)
	return ls
}

// writeCode chooses lengths for the used symbols (plus a few extra) and writes the code.
func (g *synGen) writeCode(alphabet int, used map[int]bool) *synCode {
	return g.writeCodeShaped(alphabet, used, false, nil)
}

// writeCodeShaped: with degenerate set (and an alphabet of at least 16 symbols) the code is a normal
// code whose length vector is skewedLengths: unused symbols complete the tree where fewer than 16
// symbols are used, the symbols for which wantLong holds (default: the highest ones) sit on the
// longest code words, the others on the short ones.
func (g *synGen) writeCodeShaped(alphabet int, used map[int]bool, degenerate bool, wantLong func(sym int) bool) *synCode {
	r, w := g.r, g.w
	syms := make([]int, 0, len(used)+4)
	for s := range used {
		if s < alphabet {
			syms = append(syms, s)
		}
	}
	degenerate = degenerate && alphabet >= 16
	if degenerate {
		have := map[int]bool{}
		for _, s := range syms {
			have[s] = true
		}
		for len(syms) < 16 { // unused symbols completing the tree; they take the short words
			s := r.Intn(alphabet)
			if !have[s] {
				have[s] = true
				syms = append(syms, s)
			}
		}
	}
	if len(syms) == 0 {
		syms = append(syms, r.Intn(mini(alphabet, 4)))
	}
	for k := r.Intn(3); k > 0 && r.Chance(1, 2); k-- { // extra, unused code words
		syms = append(syms, r.Intn(alphabet))
	}
	sort.Ints(syms)
	uniq := syms[:0]
	for i, s := range syms {
		if i == 0 || s != syms[i-1] {
			uniq = append(uniq, s)
		}
	}
	syms = uniq
	c := &synCode{lengths: make([]int, alphabet)}
	// simple code?
	if !degenerate && len(syms) <= 2 && syms[len(syms)-1] < 256 && r.Chance(2, 3) {
		w.put(1, 1)
		w.put(uint32(len(syms)-1), 1)
		s0 := syms[0]
		if len(syms) == 2 && r.Bool() && syms[1] >= 2 { // any order is legal
			s0 = syms[1]
			syms[1] = syms[0]
			syms[0] = s0
		}
		if s0 < 2 && r.Bool() {
			w.put(0, 1)
			w.put(uint32(s0), 1)
		} else {
			w.put(1, 1)
			w.put(uint32(s0), 8)
		}
		for _, s := range syms {
			c.lengths[s] = 1
		}
		if len(syms) == 2 {
			s1 := syms[1]
			if g.flaw("simple-dup", 1, 40) {
				s1 = s0 // duplicate symbol: a one-symbol code
				c.lengths[syms[1]] = 0
			}
			if alphabet < 256 && g.flaw("simple-range", 1, 30) {
				s1 = alphabet + r.Intn(256-alphabet)
			}
			w.put(uint32(s1), 8)
		}
		n := 0
		for _, l := range c.lengths {
			if l > 0 {
				n++
			}
		}
		c.single = n == 1
		c.codes = canonCodes(c.lengths)
		return c
	}
	// normal code
	if degenerate {
		g.nDegenerate++
		ls := skewedLengths(len(syms))
		// order: unused and not-wanted-long symbols first (short words), wanted-long used symbols last
		rank := func(sym int) int {
			k := 0
			if used[sym] {
				k = 1
				if wantLong == nil || wantLong(sym) {
					k = 2
				}
			}
			return k
		}
		ord := append([]int(nil), syms...)
		r2 := NewRNG(r.Next(), 11)
		for i := len(ord) - 1; i > 0; i-- {
			j := r2.Intn(i + 1)
			ord[i], ord[j] = ord[j], ord[i]
		}
		sort.SliceStable(ord, func(i, j int) bool { return rank(ord[i]) < rank(ord[j]) })
		for i, sym := range ord {
			c.lengths[sym] = ls[i]
		}
	} else {
		ls := randomTreeLengths(r, len(syms), 15)
		r2 := NewRNG(r.Next(), 7)
		for i := len(ls) - 1; i > 0; i-- { // shuffle lengths over the symbols
			j := r2.Intn(i + 1)
			ls[i], ls[j] = ls[j], ls[i]
		}
		for i, s := range syms {
			c.lengths[s] = ls[i]
		}
	}
	if len(syms) >= 2 {
		if g.flaw("incomplete", 1, 60) {
			c.lengths[syms[r.Intn(len(syms))]]++ // Kraft < 1 (or length 16 → still invalid)
			if c.lengths[syms[0]] > 15 {
				c.lengths[syms[0]] = 15
			}
		} else if g.flaw("oversubscribed", 1, 60) {
			s := syms[r.Intn(len(syms))]
			if c.lengths[s] > 1 {
				c.lengths[s]--
			}
		}
	}
	c.single = len(syms) == 1
	c.codes = canonCodes(c.lengths)
	w.put(0, 1)
	// tokens of the run-length coded length vector
	type tok struct{ sym, extra, nbits int }
	var toks []tok
	last := alphabet
	for last > 0 && c.lengths[last-1] == 0 {
		last--
	}
	useMax := r.Chance(1, 3)
	end := alphabet
	if useMax {
		end = last
	}
	prev := 8
	for i := 0; i < end; {
		v := c.lengths[i]
		run := 1
		for i+run < end && c.lengths[i+run] == v {
			run++
		}
		switch {
		case v == 0 && run >= 11 && r.Chance(5, 6):
			n := mini(run, 138)
			toks = append(toks, tok{18, n - 11, 7})
			i += n
		case v == 0 && run >= 3 && r.Chance(5, 6):
			n := mini(run, 10)
			toks = append(toks, tok{17, n - 3, 3})
			i += n
		case v != 0 && v == prev && run >= 3 && r.Chance(3, 4):
			n := mini(run, 6)
			toks = append(toks, tok{16, n - 3, 2})
			i += n
		default:
			toks = append(toks, tok{v, 0, 0})
			if v != 0 {
				prev = v
			}
			i++
		}
	}
	if useMax && len(toks) < 2 {
		// max_symbol cannot express fewer than 2 tokens: fall back to the full vector
		useMax = false
		for i := last; i < alphabet; {
			n := mini(alphabet-i, 138)
			if n >= 11 {
				toks = append(toks, tok{18, n - 11, 7})
			} else if n >= 3 {
				toks = append(toks, tok{17, n - 3, 3})
			} else {
				n = 1
				toks = append(toks, tok{0, 0, 0})
			}
			i += n
		}
	}
	if g.flaw("repeat-overflow", 1, 80) {
		toks = append([]tok{{18, 127, 7}}, toks...)
		if alphabet > 300 {
			for k := 0; k < alphabet/138+1; k++ {
				toks = append([]tok{{18, 127, 7}}, toks...)
			}
		}
	}
	// code-length code over the token symbols
	clUsed := map[int]bool{}
	for _, t := range toks {
		clUsed[t.sym] = true
	}
	var clSyms []int
	for s := range clUsed {
		clSyms = append(clSyms, s)
	}
	sort.Ints(clSyms)
	if len(clSyms) < 19 && r.Chance(1, 3) { // an unused extra symbol
		s := r.Intn(19)
		if !clUsed[s] {
			clSyms = append(clSyms, s)
			sort.Ints(clSyms)
		}
	}
	clLen := make([]int, 19)
	cll := randomTreeLengths(r, len(clSyms), 7)
	for i, s := range clSyms {
		clLen[s] = cll[i]
	}
	if len(clSyms) >= 2 && g.flaw("cl-incomplete", 1, 80) {
		clLen[clSyms[0]] = mini(clLen[clSyms[0]]+1, 7)
	}
	clCodes := canonCodes(clLen)
	numCodes := 4
	for i := 18; i >= 4; i-- {
		if clLen[clOrder[i]] != 0 {
			numCodes = i + 1
			break
		}
	}
	if numCodes < 19 && r.Chance(1, 4) {
		numCodes += r.Intn(19 - numCodes + 1)
	}
	w.put(uint32(numCodes-4), 4)
	for i := 0; i < numCodes; i++ {
		w.put(uint32(clLen[clOrder[i]]), 3)
	}
	if useMax {
		w.put(1, 1)
		ms := len(toks)
		if g.flaw("max-symbol-large", 1, 80) {
			ms = alphabet + 1 + r.Intn(4)
		}
		nb := bits.Len(uint(ms - 2))
		n := 0
		for 2+2*n < nb {
			n++
		}
		if n < 7 && r.Chance(1, 4) {
			n++
		}
		w.put(uint32(n), 3)
		w.put(uint32(ms-2), 2+2*n)
	} else {
		w.put(0, 1)
	}
	clSingle := len(clSyms) == 1
	for _, t := range toks {
		if !clSingle {
			w.putCode(clCodes[t.sym], clLen[t.sym])
		}
		w.put(uint32(t.extra), t.nbits)
	}
	return c
}

func prefixEncode(v int) (sym, nbits, extra int) {
	v--
	if v < 4 {
		return v, 0, 0
	}
	h := bits.Len(uint(v)) - 1
	s := (v >> uint(h-1)) & 1
	nbits = h - 1
	return 2*h + s, nbits, v & ((1 << uint(nbits)) - 1)
}

type synTok struct {
	kind            int // 0 literal, 1 copy, 2 cache
	argb            uint32
	lenSym, lenNb   int
	lenEx           int
	distSym, distNb int
	distEx          int
	cacheIdx        int
	group           int
}

// writeImageData writes color-cache-info, (for the ARGB image) meta prefix codes, the prefix
// codes and the pixels of a w×h image whose literal pixels are drawn by pix().
func (g *synGen) writeImageData(w, h int, level0 bool, pix func() uint32) {
	r, bw := g.r, g.w
	cacheBits := 0
	if r.Chance(1, 3) {
		cacheBits = 1 + r.Intn(11)
		if r.Chance(1, 2) {
			cacheBits = 1 + r.Intn(4)
		}
		bw.put(1, 1)
		cb := cacheBits
		if g.flaw("cache-bits", 1, 60) {
			cb = []int{0, 12, 13, 15}[r.Intn(4)]
		}
		bw.put(uint32(cb), 4)
	} else {
		bw.put(0, 1)
	}
	npix := w * h
	numGroups := 1
	prefixBits := 0
	var groupOf []int
	tw := 1
	if level0 {
		if r.Chance(1, 3) {
			bw.put(1, 1)
			prefixBits = 2 + r.Intn(8)
			if r.Chance(2, 3) {
				prefixBits = 2 + r.Intn(2)
			}
			bw.put(uint32(prefixBits-2), 3)
			tw = (w + (1 << uint(prefixBits)) - 1) >> uint(prefixBits)
			th := (h + (1 << uint(prefixBits)) - 1) >> uint(prefixBits)
			numGroups = 1 + r.Intn(4)
			if r.Chance(1, 12) {
				numGroups = 250 + r.Intn(60) // index needs the red byte
			} else if r.Chance(1, 60) {
				numGroups = 990 + r.Intn(40) // around the decoder's 1000-group remapping threshold
			}
			groupOf = make([]int, tw*th)
			maxG := 0
			k := 0
			g.writeImageData(tw, th, false, func() uint32 {
				gi := r.Intn(numGroups)
				groupOf[k%len(groupOf)] = gi
				k++
				if gi > maxG {
					maxG = gi
				}
				return uint32(gi)<<8 | uint32(r.Next())&0xff0000ff
			})
			// the entropy image above may contain copies/cache hits, so groupOf is only a
			// hint; every group up to the declared maximum gets codes for all symbols
			numGroups = maxG + 1
		} else {
			bw.put(0, 1)
		}
	}
	// tokens
	var toks []synTok
	pos := 0
	for pos < npix {
		t := synTok{}
		if groupOf != nil {
			x, y := pos%w, pos/w
			t.group = groupOf[(y>>uint(prefixBits))*tw+(x>>uint(prefixBits))]
		}
		copyNum, copyDen := 1, 6
		if g.long && level0 {
			copyNum, copyDen = 1, 2
			if pos < 48 { // some literal material to copy from
				copyNum = 0
			}
		}
		switch {
		case pos > 0 && r.Chance(copyNum, copyDen):
			t.kind = 1
			length := 1 + r.Intn(mini(npix-pos, 12))
			if r.Chance(1, 8) {
				length = 1 + r.Intn(npix-pos)
			}
			if g.long && level0 && r.Chance(3, 4) {
				// lengths with 3..10 extra bits (up to the format's 4096)
				length = 1 + r.Intn(mini(npix-pos, []int{24, 96, 700, 4096}[r.Intn(4)]))
			}
			if g.flaw("copy-past-end", 1, 120) {
				length = npix - pos + 1 + r.Intn(3)
			}
			var code int
			sel := r.Intn(5)
			if g.narrow && r.Chance(3, 5) {
				sel = 3
			}
			if g.long && level0 && r.Chance(4, 5) {
				sel = 5
			}
			switch sel {
			case 5: // as far back as the picture allows: the most distance extra bits, random low bits
				code = 120 + pos - r.Intn(pos/2+1)
			case 0: // far code: plain distance
				code = 120 + 1 + r.Intn(pos)
			case 1:
				code = 2 // (1,0): previous pixel
			case 2:
				code = 1 // (0,1): pixel above (invalid in the first row)
				if pos < w {
					code = 2
				}
			case 3: // any short code; valid when the target is inside the image
				code = 1 + r.Intn(120)
				if g.narrow && r.Chance(1, 2) {
					// the codes whose (dx,dy) has dy*width + dx < 1 for widths 1..8 all lie in 1..80;
					// the smallest of them in 1..34
					code = 1 + r.Intn(34)
				}
				if pos < 8*w+8 && !g.wild {
					code = 2
				}
			default:
				code = 120 + 1 + r.Intn(mini(pos, 4))
			}
			if g.flaw("copy-before-start", 1, 120) {
				code = 120 + pos + 1 + r.Intn(5)
			}
			t.lenSym, t.lenNb, t.lenEx = prefixEncode(length)
			t.distSym, t.distNb, t.distEx = prefixEncode(code)
			if t.lenSym >= 24 {
				t.lenSym, t.lenNb, t.lenEx = prefixEncode(1)
				length = 1
			}
			pos += length
		case cacheBits > 0 && r.Chance(1, 5):
			t.kind = 2
			t.cacheIdx = r.Intn(1 << uint(cacheBits))
			pos++
		default:
			t.argb = pix()
			pos++
		}
		toks = append(toks, t)
	}
	// symbol statistics per group
	type stats [5]map[int]bool
	st := make([]stats, numGroups)
	for i := range st {
		for j := range st[i] {
			st[i][j] = map[int]bool{}
		}
	}
	for _, t := range toks {
		s := &st[t.group%numGroups]
		switch t.kind {
		case 0:
			s[0][int(t.argb>>8)&0xff] = true
			s[1][int(t.argb>>16)&0xff] = true
			s[2][int(t.argb)&0xff] = true
			s[3][int(t.argb>>24)] = true
		case 1:
			s[0][256+t.lenSym] = true
			s[4][t.distSym] = true
		case 2:
			s[0][280+t.cacheIdx] = true
		}
	}
	greenAlphabet := 280
	if cacheBits > 0 {
		greenAlphabet += 1 << uint(cacheBits)
	}
	if groupOf != nil {
		// groups are assigned from the *intended* entropy image; if it contained copies the
		// real assignment may differ, so give every group every symbol that occurs anywhere
		all := stats{}
		for j := range all {
			all[j] = map[int]bool{}
			for i := range st {
				for s := range st[i][j] {
					all[j][s] = true
				}
			}
		}
		for i := range st {
			if r.Chance(3, 4) {
				st[i] = all
			}
		}
	}
	codes := make([][5]*synCode, numGroups)
	deg := func(strong bool) bool {
		if !level0 {
			return false
		}
		if g.long && strong {
			return r.Chance(5, 6)
		}
		return g.degDen > 0 && r.Chance(g.degNum, g.degDen)
	}
	refSym := func(sym int) bool { return sym >= 256 } // length prefixes and cache indices
	for i := 0; i < numGroups; i++ {
		codes[i][0] = g.writeCodeShaped(greenAlphabet, st[i][0], deg(true), refSym)
		codes[i][1] = g.writeCodeShaped(256, st[i][1], deg(false), nil)
		codes[i][2] = g.writeCodeShaped(256, st[i][2], deg(false), nil)
		codes[i][3] = g.writeCodeShaped(256, st[i][3], deg(false), nil)
		codes[i][4] = g.writeCodeShaped(40, st[i][4], deg(true), nil)
	}
	clen := func(c *synCode, sym int) int {
		if c.single || sym >= len(c.lengths) {
			return 0
		}
		return c.lengths[sym]
	}
	for _, t := range toks {
		c := &codes[t.group%numGroups]
		switch t.kind {
		case 0:
			if level0 {
				for k, sym := range []int{int(t.argb>>8) & 0xff, int(t.argb>>16) & 0xff, int(t.argb) & 0xff, int(t.argb >> 24)} {
					if l := clen(c[k], sym); l > g.maxCodeLen {
						g.maxCodeLen = l
					}
				}
			}
			c[0].emit(bw, int(t.argb>>8)&0xff)
			c[1].emit(bw, int(t.argb>>16)&0xff)
			c[2].emit(bw, int(t.argb)&0xff)
			c[3].emit(bw, int(t.argb>>24))
		case 1:
			if level0 {
				// bits consumed from the window position the decoder has at the start of the token (after
				// its refill: bits read so far mod 32) to the end of the distance extra bits, counting the
				// refill before the length extra bits (kept by every decoder that reads them from the
				// window) but none after it
				gl, dl := clen(c[0], 256+t.lenSym), clen(c[4], t.distSym)
				a := int(bw.n % 32)
				g.aligns |= 1 << uint(a)
				span := a + gl
				if t.lenNb > 0 {
					if span >= 32 {
						span -= 32
					}
					span += t.lenNb
				}
				span += dl + t.distNb
				if span > g.maxSpan {
					g.maxSpan = span
				}
				if gl > g.maxCodeLen {
					g.maxCodeLen = gl
				}
				if dl > g.maxCodeLen {
					g.maxCodeLen = dl
				}
			}
			c[0].emit(bw, 256+t.lenSym)
			bw.put(uint32(t.lenEx), t.lenNb)
			c[4].emit(bw, t.distSym)
			bw.put(uint32(t.distEx), t.distNb)
		case 2:
			c[0].emit(bw, 280+t.cacheIdx)
		}
	}
}

var synPaletteSizes = []int{1, 2, 3, 4, 5, 15, 16, 17, 255, 256}

// SynVP8L writes one random stream; it returns the payload and a short description.
func SynVP8L(r *RNG) ([]byte, string) { return synVP8L(r, 0) }

// SynVP8LNarrow: the same writer on pictures of width 1..8 and 10..70 rows (so that most copies
// start beyond row 8, where every 2-D distance code is inside the picture), short distance codes
// over-represented - among them the codes whose 2-D offset maps to a distance below 1 at that width
// (the specification clamps it to 1); no colour-indexing pixel packing (it would narrow the width
// further only for tiny palettes, which is kept) and no deliberate defects in 5 of 6 streams.
func SynVP8LNarrow(r *RNG) ([]byte, string) { return synVP8L(r, 1) }

// SynVP8LLong: the same writer in long-code mode. The green and the distance code of the main image
// are degenerate (lengths 1,2,...,14,15,15, further leaves split off the deep end) in 5 of 6 codes, with
// the length-prefix symbols and the used distance symbols on the 12..15-bit words; the other three codes
// in 1 of 4; half of the tokens are backward references, most of them long (3..10 length extra bits) and
// as far back as the picture allows (distance extra bits up to 10 on the small pictures; sizeClass picks
// pictures of >= 2^15, 2^16, 2^17 and 2^18 pixels for 14, 15, 16 and 17 extra bits). A backward reference
// then needs up to 15 + 10 + 15 + 18 bits; where it starts in the decoder's 32-bit refill window varies
// from token to token (recorded: aligns, span). Few transforms, 1 stream in 6 with a deliberate defect.
// sizeClass: 0 small (<= 12000 pixels), 1..4 = at least 2^(14+sizeClass) pixels.
func SynVP8LLong(r *RNG, sizeClass int) ([]byte, string) { return synVP8L(r, 2+sizeClass) }

func synVP8L(r *RNG, mode int) ([]byte, string) {
	narrow := mode == 1
	g := &synGen{r: r, w: &bitW{}, wild: r.Chance(1, 3), narrow: narrow, long: mode >= 2, degNum: 1, degDen: 12}
	w, h := 1+r.Intn(12), 1+r.Intn(12)
	switch r.Intn(6) {
	case 0:
		w, h = 1, 1+r.Intn(40)
	case 1:
		w, h = 1+r.Intn(40), 1
	case 2:
		w, h = 1+r.Intn(40), 1+r.Intn(20)
	}
	if narrow {
		g.wild = r.Chance(1, 6)
		w, h = 1+r.Intn(8), 10+r.Intn(61)
		if r.Chance(1, 3) {
			w = 1 + r.Intn(3)
		}
	}
	if g.long {
		g.wild = r.Chance(1, 6)
		g.degNum, g.degDen = 1, 4
		switch mode - 2 {
		case 0:
			w, h = 20+r.Intn(140), 10+r.Intn(70)
			if r.Chance(1, 4) {
				w, h = 1+r.Intn(8), 200+r.Intn(800)
			}
		default:
			minPix := 1 << uint(14+mode-2)
			w = []int{130, 256, 300, 512, 1000, 1024, 2049}[r.Intn(7)]
			h = (minPix+minPix/16)/w + 1 + r.Intn(9)
		}
	}
	bw := g.w
	bw.put(0x2f, 8)
	bw.put(uint32(w-1), 14)
	bw.put(uint32(h-1), 14)
	bw.put(uint32(r.Intn(2)), 1)
	bw.put(0, 3)
	desc := ""
	cur := w
	// transforms: random subset, random order
	order := []int{0, 1, 2, 3}
	for i := 3; i > 0; i-- {
		j := r.Intn(i + 1)
		order[i], order[j] = order[j], order[i]
	}
	nt := r.Intn(5)
	if g.long {
		nt = 0
		if r.Chance(1, 3) {
			nt = 1 + r.Intn(2)
		}
	}
	paletteSize := 0
	for k := 0; k < nt; k++ {
		ty := order[k]
		if k > 0 && g.flaw("dup-transform", 1, 40) {
			ty = order[k-1]
		}
		bw.put(1, 1)
		bw.put(uint32(ty), 2)
		switch ty {
		case 0, 1:
			tb := 2 + r.Intn(8)
			if r.Chance(2, 3) {
				tb = 2 + r.Intn(2)
			}
			bw.put(uint32(tb-2), 3)
			sw := (cur + (1 << uint(tb)) - 1) >> uint(tb)
			sh := (h + (1 << uint(tb)) - 1) >> uint(tb)
			if ty == 0 {
				desc += "pred+"
				g.writeImageData(sw, sh, false, func() uint32 {
					m := uint32(r.Intn(14))
					if r.Chance(1, 20) {
						m = 14 + uint32(r.Intn(2))
					}
					return (uint32(r.Next()) & 0xffff00ff) | (uint32(r.Intn(16))<<12|m<<8)&0xff00
				})
			} else {
				desc += "cross+"
				g.writeImageData(sw, sh, false, func() uint32 { return uint32(r.Next()) })
			}
		case 2:
			desc += "sg+"
		case 3:
			n := synPaletteSizes[r.Intn(len(synPaletteSizes))]
			if r.Chance(1, 3) {
				n = 1 + r.Intn(256)
			}
			paletteSize = n
			bw.put(uint32(n-1), 8)
			few := r.Bool()
			g.writeImageData(n, 1, false, func() uint32 {
				if few {
					return uint32(r.Intn(3))<<24 | uint32(r.Intn(3))<<16 | uint32(r.Intn(3))<<8 | uint32(r.Intn(3))
				}
				return uint32(r.Next())
			})
			switch {
			case n <= 2:
				cur = (cur + 7) / 8
			case n <= 4:
				cur = (cur + 3) / 4
			case n <= 16:
				cur = (cur + 1) / 2
			}
			desc += "ci+"
		}
	}
	bw.put(0, 1)
	// main image: a small set of literal values keeps the alphabets small most of the time
	pmode := r.Intn(4)
	base := uint32(r.Next())
	g.writeImageData(cur, h, true, func() uint32 {
		switch pmode {
		case 0:
			return uint32(r.Next())
		case 1:
			return base ^ uint32(r.Intn(4))<<8 ^ uint32(r.Intn(2))<<16
		case 2:
			if paletteSize > 0 {
				return uint32(r.Intn(256)) << 8
			}
			return uint32(r.Intn(8))<<8 | 0xff000000
		default:
			return base&0xff000000 | uint32(r.Intn(3))<<16 | uint32(r.Intn(5))<<8 | uint32(r.Intn(3))
		}
	})
	out := bw.b
	switch {
	case g.flaw("short-data", 1, 25) && len(out) > 6:
		out = out[:len(out)-1-r.Intn(mini(3, len(out)-6))]
	case r.Chance(1, 4):
		out = append(out, r.Bytes(1+r.Intn(4))...)
	}
	if desc == "" {
		desc = "none+"
	}
	d := desc[:len(desc)-1]
	if narrow {
		d += fmt.Sprintf(" narrow=%dx%d", w, h)
	}
	if g.long {
		d += fmt.Sprintf(" long=%dx%d", w, h)
	}
	if g.nDegenerate > 0 || g.long {
		d += fmt.Sprintf(" deg=%d maxlen=%d span=%d aligns=%08x", g.nDegenerate, g.maxCodeLen, g.maxSpan, g.aligns)
	}
	if g.defect != "" {
		d += " defect=" + g.defect
	}
	return out, d
}

// SynVP8LCross writes a w×h stream (no deliberate defects) with a forced transform chain:
// optionally subtract-green and/or a predictor transform, and always a cross-colour transform
// with the given tile bits whose multipliers are drawn per tile, so that applying the multipliers
// of a wrong tile row changes the pixels.  The main image uses literals from a moderately sized
// set (non-zero green), short copies and cache hits.  Used by the GOMAXPROCS sweep to reach the
// decoder's parallel inverse transforms (>= 100000 pixels) with tile sizes and chunk starts the
// encoder does not produce.
func SynVP8LCross(r *RNG, w, h, crossBits int, withSG bool, predBits int) ([]byte, string) {
	g := &synGen{r: r, w: &bitW{}}
	bw := g.w
	bw.put(0x2f, 8)
	bw.put(uint32(w-1), 14)
	bw.put(uint32(h-1), 14)
	bw.put(uint32(r.Intn(2)), 1)
	bw.put(0, 3)
	desc := ""
	sub := func(tb int) (int, int) {
		return (w + (1 << uint(tb)) - 1) >> uint(tb), (h + (1 << uint(tb)) - 1) >> uint(tb)
	}
	writeCross := func() {
		bw.put(1, 1)
		bw.put(1, 2)
		bw.put(uint32(crossBits-2), 3)
		sw, sh := sub(crossBits)
		g.writeImageData(sw, sh, false, func() uint32 { return uint32(r.Next()) | 0x00210409 })
		desc += "cross" + string(rune('0'+crossBits)) + "+"
	}
	writePred := func() {
		bw.put(1, 1)
		bw.put(0, 2)
		bw.put(uint32(predBits-2), 3)
		sw, sh := sub(predBits)
		g.writeImageData(sw, sh, false, func() uint32 { return 0xff000000 | uint32(r.Intn(14))<<8 })
		desc += "pred" + string(rune('0'+predBits)) + "+"
	}
	// the decoder undoes the transforms in reverse order of appearance; both orders of
	// predictor / cross-colour are legal
	crossFirst := r.Bool()
	if crossFirst {
		writeCross()
	}
	if predBits >= 2 {
		writePred()
	}
	if !crossFirst {
		writeCross()
	}
	if withSG {
		bw.put(1, 1)
		bw.put(2, 2)
		desc += "sg+"
	}
	bw.put(0, 1)
	base := uint32(r.Next())
	g.writeImageData(w, h, true, func() uint32 {
		return base&0xff000000 | uint32(r.Intn(16))<<20 | uint32(1+r.Intn(63))<<10 | uint32(r.Intn(32))<<1
	})
	return bw.b, desc[:len(desc)-1]
}
