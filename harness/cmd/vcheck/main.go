package main

import (
	"flag"
	"fmt"
	"os"
	"time"
)

var suites = map[string]func(*Report) error{
	"container": suiteContainer,
}

func main() {
	suite := flag.String("suite", "", "suite name")
	tier := flag.String("tier", "quick", "quick|thorough")
	seed := flag.Uint64("seed", 1, "seed")
	out := flag.String("out", "", "report json")
	flag.StringVar(&DrvPath, "drv", "/verif/lean/.lake/build/bin/webpdrv", "compiled Lean driver")
	flag.StringVar(&CorpusDir, "corpus", "/verif/corpus", "corpus dir")
	replay := flag.String("replay", "", "replay file (json) to re-execute")
	flag.Parse()
	if *replay != "" {
		os.Exit(runReplay(*replay))
	}
	f, ok := suites[*suite]
	if !ok {
		fmt.Fprintf(os.Stderr, "unknown suite %q\n", *suite)
		os.Exit(2)
	}
	rep := NewReport(*suite, *tier, *seed)
	t0 := time.Now()
	if err := f(rep); err != nil {
		fmt.Fprintf(os.Stderr, "suite %s: infrastructure error: %v\n", *suite, err)
		os.Exit(2)
	}
	rep.Extra["wall_s"] = time.Since(t0).Seconds()
	if *out != "" {
		if err := rep.Write(*out); err != nil {
			fmt.Fprintln(os.Stderr, err)
			os.Exit(2)
		}
	}
	fmt.Printf("suite=%s evaluations=%d distinct=%d findings=%d wall=%.1fs\n", *suite, rep.Evaluations, len(rep.distinct), len(rep.Findings), time.Since(t0).Seconds())
}
