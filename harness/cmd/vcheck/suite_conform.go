package main

import (
	"bytes"
	"encoding/binary"
	"fmt"
	"image"
	"strings"
	"time"

	webp "github.com/deepteams/webp"
	"github.com/deepteams/webp/animation"
	"github.com/deepteams/webp/mux"
)

func init() {
	suites["conform"] = suiteConform
	suites["meta"] = suiteMeta
}

// walkRIFF is the harness's own structural walker (independent of /repo's parsers): returns the
// ordered chunk list or an error string.
type wchunk struct {
	tag     string
	payload []byte
}

func walkRIFF(b []byte) ([]wchunk, string) {
	if len(b) < 12 || string(b[0:4]) != "RIFF" || string(b[8:12]) != "WEBP" {
		return nil, "bad RIFF/WEBP signature"
	}
	sz := int(binary.LittleEndian.Uint32(b[4:]))
	if sz != len(b)-8 {
		return nil, fmt.Sprintf("RIFF size %d but file has %d bytes after the size field", sz, len(b)-8)
	}
	if sz%2 != 0 {
		return nil, "odd RIFF size"
	}
	var out []wchunk
	pos := 12
	for pos < len(b) {
		if pos+8 > len(b) {
			return nil, "truncated chunk header"
		}
		n := int(binary.LittleEndian.Uint32(b[pos+4:]))
		end := pos + 8 + n
		if end > len(b) {
			return nil, "chunk overruns file"
		}
		out = append(out, wchunk{string(b[pos : pos+4]), b[pos+8 : end]})
		if n%2 == 1 {
			if end >= len(b) {
				return nil, "missing pad byte"
			}
			if b[end] != 0 {
				return nil, "non-zero pad byte"
			}
			end++
		}
		pos = end
	}
	return out, ""
}

// checkStillLayout validates chunk order / flags / canvas for a still file written by Encode.
func checkStillLayout(b []byte, w, h int, srcHasAlpha bool, icc, exif, xmp []byte) string {
	cs, e := walkRIFF(b)
	if e != "" {
		return e
	}
	if len(cs) == 0 {
		return "no chunks"
	}
	tags := []string{}
	for _, c := range cs {
		tags = append(tags, c.tag)
	}
	order := strings.Join(tags, ",")
	if cs[0].tag != "VP8X" {
		if len(cs) != 1 || (cs[0].tag != "VP8 " && cs[0].tag != "VP8L") {
			return "simple format must be exactly one image chunk, got " + order
		}
		if len(icc) > 0 || len(exif) > 0 || len(xmp) > 0 {
			return "metadata given but simple format written"
		}
		if cs[0].tag == "VP8 " && srcHasAlpha {
			return "source has transparency but a bare VP8 chunk was written"
		}
		return ""
	}
	p := cs[0].payload
	if len(p) != 10 {
		return "VP8X payload size"
	}
	if p[0]&^0x3e != 0 || p[1] != 0 || p[2] != 0 || p[3] != 0 {
		return "VP8X reserved bits set"
	}
	cw := 1 + int(p[4]) + int(p[5])<<8 + int(p[6])<<16
	ch := 1 + int(p[7]) + int(p[8])<<8 + int(p[9])<<16
	if cw != w || ch != h {
		return fmt.Sprintf("VP8X canvas %dx%d but image is %dx%d", cw, ch, w, h)
	}
	want := []string{"VP8X"}
	flags := byte(0)
	if len(icc) > 0 {
		want = append(want, "ICCP")
		flags |= 0x20
	}
	hasALPH := false
	hasVP8L := false
	for _, c := range cs {
		if c.tag == "ALPH" {
			hasALPH = true
		}
		if c.tag == "VP8L" {
			hasVP8L = true
		}
	}
	if hasALPH {
		want = append(want, "ALPH")
	}
	if hasVP8L {
		want = append(want, "VP8L")
	} else {
		want = append(want, "VP8 ")
	}
	if len(exif) > 0 {
		want = append(want, "EXIF")
		flags |= 0x08
	}
	if len(xmp) > 0 {
		want = append(want, "XMP ")
		flags |= 0x04
	}
	if order != strings.Join(want, ",") {
		return "chunk order " + order + " (expected " + strings.Join(want, ",") + ")"
	}
	alphaBit := false
	for _, c := range cs {
		if c.tag == "VP8L" && len(c.payload) >= 5 {
			alphaBit = c.payload[4]&0x10 != 0
		}
	}
	if hasALPH || alphaBit {
		flags |= 0x10
	}
	if p[0] != flags {
		return fmt.Sprintf("VP8X flags %#02x, chunks imply %#02x", p[0], flags)
	}
	if hasVP8L && srcHasAlpha && !alphaBit {
		return "source has transparency but the VP8L alpha bit is clear"
	}
	if !hasVP8L && srcHasAlpha && !hasALPH {
		return "source has transparency but no ALPH chunk"
	}
	for _, c := range cs {
		switch c.tag {
		case "ICCP":
			if !bytes.Equal(c.payload, icc) {
				return "ICCP payload differs"
			}
		case "EXIF":
			if !bytes.Equal(c.payload, exif) {
				return "EXIF payload differs"
			}
		case "XMP ":
			if !bytes.Equal(c.payload, xmp) {
				return "XMP payload differs"
			}
		}
	}
	return ""
}

func srcHasAlpha(img *image.NRGBA) bool {
	for i := 3; i < len(img.Pix); i += 4 {
		if img.Pix[i] != 255 {
			return true
		}
	}
	return false
}

func randBlob(r *RNG) []byte {
	switch r.Intn(7) {
	case 0:
		return nil
	case 1:
		return r.Bytes(1)
	case 2:
		return r.Bytes(2 + r.Intn(3))
	case 3:
		return []byte("RIFF\x10\x00\x00\x00WEBPVP8 \x04\x00\x00\x00ANMFALPHVP8LVP8X")
	case 4:
		return r.Bytes(31 + 2*r.Intn(40))
	case 5:
		return r.Bytes(64 + 2*r.Intn(40))
	}
	return append([]byte("EXIF\x02\x00\x00\x00xx"), r.Bytes(r.Intn(9))...)
}

// suiteConform: C02 — every successful Encode emits a conformant, self-describing file.
func suiteConform(rep *Report) error {
	rep.Rule = "Encode over image class x alpha class x size x {lossy,lossless} x Quality x Method x presets x Segments x Partitions x Pass x filter settings x SNS x QMin/QMax x TargetSize/TargetPSNR x sharp YUV x dithering x Exact x alpha settings x metadata subsets; each output: independent structural walk (sizes, padding, chunk order, VP8X flags <=> chunks, canvas = image size, alpha flag vs source), Lean RIFF walker (when the driver has riffwf), accepted by webp.Decode with the source's size, and decoded by the independent Lean decoders (VP8L always; VP8 when the driver has vp8) to the same pixels/samples as the Go decoder; non-trivial = image not flat"
	n := 330
	if rep.Tier == "thorough" {
		n = 8000
	}
	sizes := [][2]int{{1, 1}, {2, 3}, {16, 16}, {17, 9}, {33, 31}, {48, 64}, {64, 40}}
	var lines []string
	type pend struct {
		kind string
		want string
		desc string
		hex  string
	}
	var pends []pend
	hasVP8 := driverHas("vp8")
	hasWF := driverHas("riffwf")
	for i := 0; i < n; i++ {
		r := NewRNG(rep.Seed, uint64(i))
		sz := sizes[r.Intn(len(sizes))]
		if i%83 == 0 {
			sz = [2]int{320, 320}
		}
		cls, acls := r.Intn(NumImgClasses), r.Intn(NumAlphaClasses)
		img := GenImage(r, sz[0], sz[1], cls, acls)
		o := webp.DefaultOptions()
		if r.Chance(1, 4) {
			o = webp.OptionsForPreset(webp.Preset(r.Intn(6)), 75)
		}
		o.Lossless = r.Chance(2, 5)
		o.Quality = float32([]int{0, 10, 50, 75, 90, 100}[r.Intn(6)])
		o.Method = r.Intn(7)
		o.Exact = r.Bool()
		if !o.Lossless {
			o.Segments = 1 + r.Intn(4)
			o.Partitions = r.Intn(4)
			o.Pass = []int{1, 2, 10}[r.Intn(3)]
			o.FilterStrength = []int{0, 30, 100, -1}[r.Intn(4)]
			o.FilterSharpness = r.Intn(8)
			o.FilterType = r.Intn(2)
			o.SNSStrength = []int{0, 50, 100}[r.Intn(3)]
			o.AlphaCompression = r.Intn(2)
			o.AlphaFiltering = r.Intn(3)
			o.AlphaQuality = []int{0, 50, 100, -1}[r.Intn(4)]
			o.UseSharpYUV = r.Chance(1, 6)
			o.Preprocessing = r.Intn(4)
			if r.Chance(1, 8) {
				o.TargetSize = 100 + r.Intn(4000)
			} else if r.Chance(1, 10) {
				o.TargetPSNR = float32(25 + r.Intn(20))
			}
			if r.Chance(1, 6) {
				o.QMin, o.QMax = r.Intn(40), 40+r.Intn(61)
			}
		}
		o.ICC, o.EXIF, o.XMP = randBlob(r), randBlob(r), randBlob(r)
		if r.Chance(1, 3) {
			o.ICC, o.EXIF, o.XMP = nil, nil, nil
		}
		desc := fmt.Sprintf("%s lossless=%v q=%v m=%d exact=%v seg=%d part=%d pass=%d fs=%d ts=%d psnr=%v ac=%d af=%d aq=%d syuv=%v pre=%d meta=%d/%d/%d",
			imgDesc(sz[0], sz[1], cls, acls), o.Lossless, o.Quality, o.Method, o.Exact, o.Segments, o.Partitions, o.Pass, o.FilterStrength, o.TargetSize, o.TargetPSNR, o.AlphaCompression, o.AlphaFiltering, o.AlphaQuality, o.UseSharpYUV, o.Preprocessing, len(o.ICC), len(o.EXIF), len(o.XMP))
		file, err := encodeBytes(img, o)
		if err != nil {
			// Encode may refuse, but then nothing about the file is claimed; count it
			rep.Count("encode-error")
			continue
		}
		add := func(sig, detail string) {
			rep.Add(Finding{Kind: "property", Property: "C02", Signature: sig, Detail: desc + ": " + detail,
				Input: map[string]any{"op": "conform", "case": i, "seed": rep.Seed, "desc": desc, "hex": short(hx(file), 8000)}})
		}
		if e := checkStillLayout(file, sz[0], sz[1], srcHasAlpha(img), o.ICC, o.EXIF, o.XMP); e != "" {
			add("conform:structure:"+strings.SplitN(e, " ", 3)[0], e)
		}
		dec, derr := webp.Decode(bytes.NewReader(file))
		if derr != nil {
			add("conform:own-decoder-rejects", derr.Error())
			continue
		}
		if dec.Bounds().Dx() != sz[0] || dec.Bounds().Dy() != sz[1] {
			add("conform:decoded-size", fmt.Sprint(dec.Bounds()))
		}
		ft, ferr := webp.GetFeatures(bytes.NewReader(file))
		if ferr != nil || ft.Width != sz[0] || ft.Height != sz[1] {
			add("conform:declared-size", fmt.Sprintf("GetFeatures %v err=%v", ft, ferr))
		} else if ft.HasAlpha != srcHasAlpha(img) && !(o.Lossless && !srcHasAlpha(img)) {
			// lossless files may legitimately carry the alpha bit only when the source has transparency
			add("conform:alpha-flag", fmt.Sprintf("HasAlpha=%v but source transparency=%v", ft.HasAlpha, srcHasAlpha(img)))
		} else if o.Lossless && ft.HasAlpha && !srcHasAlpha(img) {
			add("conform:alpha-flag", "alpha flag set for a fully opaque source")
		}
		// independent decoders
		cs, _ := walkRIFF(file)
		for _, c := range cs {
			if c.tag == "VP8L" {
				got := toNRGBA(dec)
				lines = append(lines, "vp8l "+hx(c.payload))
				pends = append(pends, pend{"vp8l", digest(got.Pix), desc, short(hx(file), 8000)})
			}
			if c.tag == "VP8 " && hasVP8 {
				y, u, v, ys, uvs, w, h, err := decodeYUV(c.payload)
				if err == nil {
					lines = append(lines, "vp8 "+hx(c.payload))
					pends = append(pends, pend{"vp8", fmt.Sprintf("ok w=%d h=%d y=%s u=%s v=%s", w, h, digest(cropPlaneWH(y, ys, w, h)), digest(cropPlaneWH(u, uvs, (w+1)/2, (h+1)/2)), digest(cropPlaneWH(v, uvs, (w+1)/2, (h+1)/2))), desc, short(hx(file), 8000)})
				}
			}
		}
		if hasWF {
			lines = append(lines, "riffwf "+hx(file))
			pends = append(pends, pend{"riffwf", "", desc, short(hx(file), 8000)})
		}
		rep.Eval(!isFlat(img), append([]byte(desc), img.Pix...))
		rep.Count(fmt.Sprintf("lossless=%v", o.Lossless))
		rep.Count("alpha:" + alphaClassNames[acls])
		if i < 3 {
			rep.Sample(map[string]any{"case": desc, "bytes": len(file)})
		}
	}
	out, err := RunDriver(lines)
	if err != nil {
		return err
	}
	for i, l := range out {
		p := pends[i]
		bad := ""
		switch p.kind {
		case "vp8l":
			// "ok w= h= alpha= px=<digest> npx=..."
			if !strings.HasPrefix(l, "ok ") {
				bad = "independent VP8L decoder rejects the stream: " + l
			} else if !strings.Contains(l, "px="+p.want+" ") {
				bad = "independent VP8L decoder yields other pixels than the package's decoder: " + short(l, 160) + " vs px=" + p.want
			}
			rep.Count("independent:vp8l")
		case "vp8":
			if l != p.want {
				bad = "independent VP8 decoder differs from the package's decoder: " + short(l, 160) + " vs " + short(p.want, 160)
			}
			rep.Count("independent:vp8")
		case "riffwf":
			if !strings.HasPrefix(l, "ok") {
				bad = "Lean RIFF walker rejects the file: " + l
			}
			rep.Count("independent:riffwf")
		}
		if bad != "" {
			rep.Add(Finding{Kind: "property", Property: "C02", Signature: "conform:independent-" + p.kind, Detail: p.desc + ": " + bad,
				Input: map[string]any{"op": "conform", "desc": p.desc, "hex": p.hex}})
		}
	}
	if !hasVP8 {
		rep.Notes = append(rep.Notes, "driver has no vp8 op yet: lossy payloads validated by the package's own decoder and the structural walker only")
	}
	return nil
}

func imageChunks(file []byte) (img, alph []byte) {
	cs, _ := walkRIFF(file)
	for _, c := range cs {
		switch c.tag {
		case "VP8 ", "VP8L":
			img = c.payload
		case "ALPH":
			alph = c.payload
		}
	}
	return
}

// suiteMeta: C15 — metadata is stored byte-exact and never affects the picture.
func suiteMeta(rep *Report) error {
	rep.Rule = "same image encoded without metadata and with every subset of {ICC,EXIF,XMP} over blob lengths {0,1,2..4,odd,even,chunk-like content, 64 KiB (thorough: 100 MB -1/+1)}: image (and ALPH) chunk bytes identical, decoded pixels identical, blobs read back byte-exact through the demuxer, VP8X flags announce exactly the non-empty blobs; animation encoder and muxer with metadata read back through animation.DecodeBytes / Demuxer.GetChunk; non-trivial = at least one non-empty blob"
	n := 120
	if rep.Tier == "thorough" {
		n = 3000
	}
	for i := 0; i < n; i++ {
		r := NewRNG(rep.Seed, uint64(i))
		w, h := 1+r.Intn(40), 1+r.Intn(40)
		cls, acls := r.Intn(NumImgClasses), r.Intn(NumAlphaClasses)
		img := GenImage(r, w, h, cls, acls)
		o := webp.DefaultOptions()
		o.Lossless = r.Bool()
		o.Method = r.Intn(5)
		o.Quality = float32([]int{30, 75, 80}[r.Intn(3)])
		base, err := encodeBytes(img, o)
		if err != nil {
			return err
		}
		baseImg, baseAlph := imageChunks(base)
		basePix := ""
		if d, err := webp.Decode(bytes.NewReader(base)); err == nil {
			basePix = digest(toNRGBA(d).Pix)
		}
		for k := 0; k < 4; k++ {
			o2 := *o
			o2.ICC, o2.EXIF, o2.XMP = randBlob(r), randBlob(r), randBlob(r)
			if k == 3 && rep.Tier == "thorough" && i%200 == 0 {
				o2.EXIF = bytes.Repeat([]byte{0xAB}, 65536+i%2)
			}
			desc := fmt.Sprintf("%s lossless=%v meta=%d/%d/%d", imgDesc(w, h, cls, acls), o.Lossless, len(o2.ICC), len(o2.EXIF), len(o2.XMP))
			file, err := encodeBytes(img, &o2)
			add := func(sig, detail string) {
				rep.Add(Finding{Kind: "property", Property: "C15", Signature: sig, Detail: desc + ": " + detail,
					Input: map[string]any{"op": "meta", "case": i, "k": k, "seed": rep.Seed, "desc": desc, "hex": short(hx(file), 6000)}})
			}
			if err != nil {
				add("meta:encode-error", err.Error())
				continue
			}
			im2, al2 := imageChunks(file)
			if !bytes.Equal(im2, baseImg) || !bytes.Equal(al2, baseAlph) {
				add("meta:bitstream-changed", "image/ALPH chunk bytes differ from the metadata-free encoding")
			}
			if d, err := webp.Decode(bytes.NewReader(file)); err != nil || digest(toNRGBA(d).Pix) != basePix {
				add("meta:pixels-changed", fmt.Sprint("decoded pixels differ / error: ", err))
			}
			dm, derr := mux.NewDemuxer(file)
			if derr != nil {
				add("meta:demux-error", derr.Error())
				continue
			}
			for _, m := range []struct {
				id   mux.ChunkID
				blob []byte
				name string
				flag bool
			}{{mux.FourCCICCP, o2.ICC, "ICC", dm.GetFeatures().HasICC}, {mux.FourCCEXIF, o2.EXIF, "EXIF", dm.GetFeatures().HasEXIF}, {mux.FourCCXMP, o2.XMP, "XMP", dm.GetFeatures().HasXMP}} {
				got, gerr := dm.GetChunk(m.id)
				if len(m.blob) > 0 {
					if gerr != nil || !bytes.Equal(got, m.blob) {
						add("meta:readback:"+m.name, fmt.Sprintf("blob of %d bytes read back as %d bytes (err=%v)", len(m.blob), len(got), gerr))
					}
					if !m.flag {
						add("meta:flag-missing:"+m.name, "blob present but feature flag clear")
					}
				} else {
					if gerr == nil {
						add("meta:phantom:"+m.name, "no blob given but a chunk is present")
					}
					if m.flag {
						add("meta:flag-phantom:"+m.name, "no blob given but feature flag set")
					}
				}
			}
			rep.Eval(len(o2.ICC)+len(o2.EXIF)+len(o2.XMP) > 0, append([]byte(desc), file...))
		}
		// animation encoder with metadata
		if i%4 == 0 {
			var buf bytes.Buffer
			e := animation.NewEncoder(&buf, w, h, &animation.EncodeOptions{Lossless: true, Quality: 50})
			icc, exif, xmp := randBlob(r), randBlob(r), randBlob(r)
			if icc != nil {
				e.SetICCProfile(icc)
			}
			if exif != nil {
				e.SetEXIF(exif)
			}
			if xmp != nil {
				e.SetXMP(xmp)
			}
			img2 := GenImage(r, w, h, cls, acls)
			_ = e.AddFrame(img, 30*time.Millisecond)
			_ = e.AddFrame(img2, 40*time.Millisecond)
			if err := e.Close(); err == nil {
				a, err := animation.DecodeBytes(buf.Bytes())
				if err != nil {
					rep.Add(Finding{Kind: "property", Property: "C15", Signature: "meta:anim-unreadable", Detail: err.Error(), Input: map[string]any{"op": "meta", "hex": short(hx(buf.Bytes()), 6000)}})
				} else {
					for _, m := range []struct {
						name      string
						give, got []byte
					}{{"ICC", icc, a.ICC}, {"EXIF", exif, a.EXIF}, {"XMP", xmp, a.XMP}} {
						if m.give != nil && !bytes.Equal(m.give, m.got) {
							rep.Add(Finding{Kind: "property", Property: "C15", Signature: "meta:anim-readback:" + m.name,
								Detail: fmt.Sprintf("animation %s blob of %d bytes read back as %d bytes", m.name, len(m.give), len(m.got)),
								Input:  map[string]any{"op": "meta", "hex": short(hx(buf.Bytes()), 6000)}})
						}
						if m.give == nil && m.got != nil {
							rep.Add(Finding{Kind: "property", Property: "C15", Signature: "meta:anim-phantom:" + m.name,
								Detail: "no blob given but the animation reader returns one", Input: map[string]any{"op": "meta", "hex": short(hx(buf.Bytes()), 6000)}})
						}
					}
					rep.Count("animation-with-metadata")
				}
			}
		}
		rep.Count(fmt.Sprintf("lossless=%v", o.Lossless))
		if i < 2 {
			rep.Sample(map[string]any{"image": imgDesc(w, h, cls, acls), "base_bytes": len(base)})
		}
	}
	return nil
}
