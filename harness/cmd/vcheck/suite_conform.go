package main

import (
	"bytes"
	"encoding/binary"
	"fmt"
	"image"
	"runtime"
	"runtime/debug"
	"strings"
	"time"

	webp "github.com/deepteams/webp"
	"github.com/deepteams/webp/animation"
	"github.com/deepteams/webp/mux"
	"github.com/deepteams/webp/verifapi"
)

func init() {
	suites["conform"] = suiteConform
	suites["meta"] = suiteMeta
	replayers["meta-cap"] = replayMetaCap
}

// walkRIFF is the harness's own structural walker (independent of /repo's parsers): returns the
// ordered chunk list or an error string.
type wchunk struct {
	tag     string
	payload []byte
}

func walkRIFF(b []byte) ([]wchunk, string) {
	if len(b) < 12 || string(b[0:4]) != "RIFF" || string(b[8:12]) != "WEBP" {
		return nil, "bad RIFF/WEBP signature"
	}
	sz := int(binary.LittleEndian.Uint32(b[4:]))
	if sz != len(b)-8 {
		return nil, fmt.Sprintf("RIFF size %d but file has %d bytes after the size field", sz, len(b)-8)
	}
	if sz%2 != 0 {
		return nil, "odd RIFF size"
	}
	var out []wchunk
	pos := 12
	for pos < len(b) {
		if pos+8 > len(b) {
			return nil, "truncated chunk header"
		}
		n := int(binary.LittleEndian.Uint32(b[pos+4:]))
		end := pos + 8 + n
		if end > len(b) {
			return nil, "chunk overruns file"
		}
		out = append(out, wchunk{string(b[pos : pos+4]), b[pos+8 : end]})
		if n%2 == 1 {
			if end >= len(b) {
				return nil, "missing pad byte"
			}
			if b[end] != 0 {
				return nil, "non-zero pad byte"
			}
			end++
		}
		pos = end
	}
	return out, ""
}

// checkStillLayout validates chunk order / flags / canvas for a still file written by Encode.
func checkStillLayout(b []byte, w, h int, srcHasAlpha bool, icc, exif, xmp []byte) string {
	cs, e := walkRIFF(b)
	if e != "" {
		return e
	}
	if len(cs) == 0 {
		return "no chunks"
	}
	tags := []string{}
	for _, c := range cs {
		tags = append(tags, c.tag)
	}
	order := strings.Join(tags, ",")
	if cs[0].tag != "VP8X" {
		if len(cs) != 1 || (cs[0].tag != "VP8 " && cs[0].tag != "VP8L") {
			return "simple format must be exactly one image chunk, got " + order
		}
		if len(icc) > 0 || len(exif) > 0 || len(xmp) > 0 {
			return "metadata given but simple format written"
		}
		if cs[0].tag == "VP8 " && srcHasAlpha {
			return "source has transparency but a bare VP8 chunk was written"
		}
		return ""
	}
	p := cs[0].payload
	if len(p) != 10 {
		return "VP8X payload size"
	}
	if p[0]&^0x3e != 0 || p[1] != 0 || p[2] != 0 || p[3] != 0 {
		return "VP8X reserved bits set"
	}
	cw := 1 + int(p[4]) + int(p[5])<<8 + int(p[6])<<16
	ch := 1 + int(p[7]) + int(p[8])<<8 + int(p[9])<<16
	if cw != w || ch != h {
		return fmt.Sprintf("VP8X canvas %dx%d but image is %dx%d", cw, ch, w, h)
	}
	want := []string{"VP8X"}
	flags := byte(0)
	if len(icc) > 0 {
		want = append(want, "ICCP")
		flags |= 0x20
	}
	hasALPH := false
	hasVP8L := false
	for _, c := range cs {
		if c.tag == "ALPH" {
			hasALPH = true
		}
		if c.tag == "VP8L" {
			hasVP8L = true
		}
	}
	if hasALPH {
		want = append(want, "ALPH")
	}
	if hasVP8L {
		want = append(want, "VP8L")
	} else {
		want = append(want, "VP8 ")
	}
	if len(exif) > 0 {
		want = append(want, "EXIF")
		flags |= 0x08
	}
	if len(xmp) > 0 {
		want = append(want, "XMP ")
		flags |= 0x04
	}
	if order != strings.Join(want, ",") {
		return "chunk order " + order + " (expected " + strings.Join(want, ",") + ")"
	}
	alphaBit := false
	for _, c := range cs {
		if c.tag == "VP8L" && len(c.payload) >= 5 {
			alphaBit = c.payload[4]&0x10 != 0
		}
	}
	if hasALPH || alphaBit {
		flags |= 0x10
	}
	if p[0] != flags {
		return fmt.Sprintf("VP8X flags %#02x, chunks imply %#02x", p[0], flags)
	}
	if hasVP8L && srcHasAlpha && !alphaBit {
		return "source has transparency but the VP8L alpha bit is clear"
	}
	if !hasVP8L && srcHasAlpha && !hasALPH {
		return "source has transparency but no ALPH chunk"
	}
	for _, c := range cs {
		switch c.tag {
		case "ICCP":
			if !bytes.Equal(c.payload, icc) {
				return "ICCP payload differs"
			}
		case "EXIF":
			if !bytes.Equal(c.payload, exif) {
				return "EXIF payload differs"
			}
		case "XMP ":
			if !bytes.Equal(c.payload, xmp) {
				return "XMP payload differs"
			}
		}
	}
	return ""
}

func srcHasAlpha(img *image.NRGBA) bool {
	for i := 3; i < len(img.Pix); i += 4 {
		if img.Pix[i] != 255 {
			return true
		}
	}
	return false
}

func randBlob(r *RNG) []byte {
	switch r.Intn(7) {
	case 0:
		if r.Bool() {
			return []byte{} // empty but not nil: means "no blob" exactly like nil
		}
		return nil
	case 1:
		return r.Bytes(1)
	case 2:
		return r.Bytes(2 + r.Intn(3))
	case 3:
		return []byte("RIFF\x10\x00\x00\x00WEBPVP8 \x04\x00\x00\x00ANMFALPHVP8LVP8X")
	case 4:
		return r.Bytes(31 + 2*r.Intn(40))
	case 5:
		return r.Bytes(64 + 2*r.Intn(40))
	}
	return append([]byte("EXIF\x02\x00\x00\x00xx"), r.Bytes(r.Intn(9))...)
}

// randEncoderOptions draws from the full option grid (presets, lossy and lossless, Quality incl. > 75,
// Method 0..6, Exact, and for lossy: segments, partitions, passes, filter, SNS, alpha settings, sharp
// YUV, preprocessing, target size / PSNR, QMin/QMax); no metadata.
func randEncoderOptions(r *RNG) *webp.EncoderOptions {
	o := webp.DefaultOptions()
	if r.Chance(1, 4) {
		o = webp.OptionsForPreset(webp.Preset(r.Intn(6)), 75)
	}
	o.Lossless = r.Chance(2, 5)
	o.Quality = float32([]int{0, 10, 50, 75, 90, 100}[r.Intn(6)])
	o.Method = r.Intn(7)
	o.Exact = r.Bool()
	if !o.Lossless {
		o.Segments = 1 + r.Intn(4)
		o.Partitions = r.Intn(4)
		o.Pass = []int{1, 2, 10}[r.Intn(3)]
		o.FilterStrength = []int{0, 30, 100, -1}[r.Intn(4)]
		o.FilterSharpness = r.Intn(8)
		o.FilterType = r.Intn(2)
		o.SNSStrength = []int{0, 50, 100}[r.Intn(3)]
		o.AlphaCompression = r.Intn(2)
		o.AlphaFiltering = r.Intn(3)
		o.AlphaQuality = []int{0, 50, 100, -1}[r.Intn(4)]
		o.UseSharpYUV = r.Chance(1, 6)
		o.Preprocessing = r.Intn(4)
		if r.Chance(1, 8) {
			o.TargetSize = 100 + r.Intn(4000)
		} else if r.Chance(1, 10) {
			o.TargetPSNR = float32(25 + r.Intn(20))
		}
		if r.Chance(1, 6) {
			o.QMin, o.QMax = r.Intn(40), 40+r.Intn(61)
		}
	}
	return o
}

// suiteConform: C02 — every successful Encode emits a conformant, self-describing file.
func suiteConform(rep *Report) error {
	rep.Rule = "Encode over image class x alpha class (incl. sparse: 1..3 non-opaque pixels at raster index 0, 1 or among the last 8) x size x {lossy,lossless} x Quality x Method x presets x Segments x Partitions x Pass x filter settings x SNS x QMin/QMax x TargetSize/TargetPSNR x sharp YUV x dithering x Exact x alpha settings x metadata subsets, plus deterministic legs: pictures with exactly n colours for n around 2 / 4 / 16 / 192 / 256, metadata blobs whose length sits around 8 / 1024 / 4096 / 65536 bytes, lossy noise pictures bracketing 32768 coefficient tokens with 2 / 4 / 8 token partitions; pictures on the numeric thresholds of the code (thresholds.go) and widths 1023..4097 x heights 1..4 with flat/gradient/sparse content; one non-opaque pixel at index 0 / 1 / each of the last 8 positions over sizes with pixel count mod 4 = 0..3, and two-colour pictures whose packed bytes leave runs of unused symbols of lengths around 2/3, 10/11, 138/139/140 and 130..145 in the code-length vector, and banded pictures (dark-noise / flat / smooth / four-colour rows above one bright-noise last tile row; entropy image 3, 7 or 11 tile rows tall at histogram bits 2..5, Method 2..6, lossless Quality 10/50/75, decoded = source); each output: independent structural walk (sizes, padding, chunk order, VP8X flags <=> chunks, canvas = image size, alpha flag vs source), Lean RIFF walker (when the driver has riffwf), accepted by webp.Decode with the source's size, and decoded by the independent Lean decoders (VP8L always; VP8 when the driver has vp8) to the same pixels/samples as the Go decoder; non-trivial = image not flat"
	n := 330
	if rep.Tier == "thorough" {
		n = 8000
	}
	sizes := [][2]int{{1, 1}, {2, 3}, {16, 16}, {17, 9}, {33, 31}, {48, 64}, {64, 40}}
	var lines []string
	type pend struct {
		kind string
		want string
		desc string
		hex  string
	}
	var pends []pend
	hasVP8 := driverHas("vp8")
	hasWF := driverHas("riffwf")
	// extra deterministic legs after the n random cases:
	//   sparse: one non-opaque pixel at raster index 0, 1 and at each of the last 8 positions, over sizes
	//           with pixel count mod 4 = 0..3 (lossless 3 of 4: the alpha flag of the file must follow);
	//   zero-runs: two-colour pictures whose packed bytes leave runs of unused symbols of controlled
	//           lengths in the code-length vector (2/3, 10/11, 138/139/140, 130..145)
	sparsePos := []int{0, 1, -1, -2, -3, -4, -5, -6, -7, -8}
	nSparse := len(SparseAlphaSizes) * len(sparsePos)
	nZero := 90
	if rep.Tier == "thorough" {
		nZero = 2500
	}
	// threshold leg: pictures just below / on / above the numeric thresholds of the code (thresholds.go: row
	// buffers of 1024 / 2048 / 4096 entries, the 100000-pixel parallel threshold, macroblock counts ...) and
	// the wide family (widths 1023..4097 x heights 1..4), cheap content, every codec / alpha combination
	nThrDraw := 10
	if rep.Tier == "thorough" {
		nThrDraw = 1 << 20
	}
	thr := DrawThresholdCases(rep.Seed, 0x02, nThrDraw, ThresholdFilter{MaxPixels: 120000, MinValue: 200})
	for k, w := range WideWidths {
		for _, h := range WideHeights {
			if rep.Tier == "thorough" || (k+h+int(rep.Seed))%4 == 0 {
				thr = append(thr, ThresholdCase{W: w, H: h, T: Threshold{Value: []int{1024, 1024, 1024, 1024, 2048, 2048, 2048, 4096}[k], Unit: "width"}})
			}
		}
	}
	nThr := len(thr)
	// count legs (threshold units without a picture dimension, thresholds.go): pictures with EXACTLY n colours
	// around 2 / 4 / 16 / 192 / 256; metadata blobs whose LENGTH sits around 8 / 1024 / 4096 / 65536 bytes; lossy
	// noise pictures bracketing 32768 coefficient tokens with 2 / 4 / 8 token partitions
	nCol, nBlob, nTok := 5, 4, 2
	if rep.Tier == "thorough" {
		nCol, nBlob, nTok = 1<<20, 1<<20, 1<<20
	}
	colCases := DrawCountCases(rep.Seed, 0x0201, nCol, "colors", 2, 300)
	blobCases := BlobLens(1 << 17)
	if nBlob < len(blobCases) {
		blobCases = DrawCountCases(rep.Seed, 0x0202, nBlob, "bytes", 8, 1<<17)
	}
	tokCases := TokenCases()
	if nTok < len(tokCases) {
		k := int(rep.Seed % uint64(len(tokCases)))
		tokCases = []TokenCase{tokCases[k], tokCases[(k+2)%len(tokCases)]}
	}
	nCount := len(colCases) + len(blobCases) + len(tokCases)
	// banded leg: lossless pictures made of horizontal bands whose entropy image (tile = 2^histogramBits pixels,
	// histogramBits = 7 - Method, 9 - Method in palette mode, clamped to 2..9) is 3, 7 or 11 tile rows tall: the rows
	// above the last are statistically alike (dark noise / flat / smooth / a few colours), the last tile row is noisy
	// in another value range - the entropy image collapses row-wise except for its last row
	nBand := 10
	if rep.Tier == "thorough" {
		nBand = 240
	}
	for i := 0; i < n+nSparse+nZero+nThr+nCount+nBand; i++ {
		r := NewRNG(rep.Seed, uint64(i))
		sz := sizes[r.Intn(len(sizes))]
		if i%83 == 0 && i < n+nSparse+nZero+nThr {
			sz = [2]int{320, 320}
		}
		blobLen, tokParts := -1, 0
		cls, acls := r.Intn(NumImgClasses), r.Intn(NumAlphaClasses)
		var img *image.NRGBA
		idesc := ""
		leg := "random"
		bandMethod := -1
		switch {
		case i >= n+nSparse+nZero+nThr+nCount:
			k := i - (n + nSparse + nZero + nThr + nCount)
			var what string
			img, bandMethod, what = conformBandedImage(r, k)
			sz = [2]int{img.Rect.Dx(), img.Rect.Dy()}
			cls, acls = ClsNoise, AlphaNone
			idesc = fmt.Sprintf("%dx%d/%s", sz[0], sz[1], what)
			leg = "banded"
			rep.Count("banded:" + strings.SplitN(what, " ", 2)[0])
		case i >= n+nSparse+nZero+nThr:
			k := i - (n + nSparse + nZero + nThr)
			switch {
			case k < len(colCases):
				cc := colCases[k]
				sz = [2]int{17 + r.Intn(24), 17 + r.Intn(24)}
				if r.Chance(1, 4) {
					sz = [2]int{300 + r.Intn(30), 1 + r.Intn(3)}
				}
				img = GenColorCountImage(r, sz[0], sz[1], cc.N)
				cls, acls = ClsPal256, AlphaNone
				idesc = fmt.Sprintf("%dx%d/exactly-%d-colours %s", sz[0], sz[1], cc.N, cc.String())
				leg = "colors"
				CountCount(rep, cc)
			case k < len(colCases)+len(blobCases):
				bc := blobCases[k-len(colCases)]
				sz = [2]int{1 + r.Intn(9), 1 + r.Intn(9)}
				img = GenImage(r, sz[0], sz[1], cls, acls)
				idesc = imgDesc(sz[0], sz[1], cls, acls) + " blob-length " + bc.String()
				leg = "blob-length"
				blobLen = bc.N
				CountCount(rep, bc)
			default:
				tk := tokCases[k-len(colCases)-len(blobCases)]
				sz = [2]int{tk.W, tk.H}
				cls, acls = ClsNoise, AlphaNone
				img = GenImage(r, tk.W, tk.H, cls, acls)
				idesc = fmt.Sprintf("%s ~%d tokens (%s)", imgDesc(tk.W, tk.H, cls, acls), tk.Est, tk.T.Tag()[len("threshold:"):])
				leg = "tokens"
				tokParts = 1 + r.Intn(3)
				rep.Count(tk.T.Tag())
			}
		case i >= n+nSparse+nZero:
			tc := thr[i-(n+nSparse+nZero)]
			sz = [2]int{tc.W, tc.H}
			kind := r.Intn(NumCheapClasses)
			acls = []int{AlphaNone, AlphaGradient, AlphaBinary, AlphaSparse, AlphaSemiFlat}[r.Intn(5)]
			cls = ClsFlat
			img = GenCheapImage(r, tc.W, tc.H, kind, acls)
			idesc = cheapDesc(tc.W, tc.H, kind, acls) + " " + tc.String()
			leg = "threshold"
			CountThreshold(rep, tc)
		case i < n:
			img = GenImage(r, sz[0], sz[1], cls, acls)
			idesc = imgDesc(sz[0], sz[1], cls, acls)
		case i < n+nSparse:
			k := i - n
			sz = SparseAlphaSizes[k/len(sparsePos)]
			pos := sparsePos[k%len(sparsePos)]
			var ok bool
			img, ok = GenImageSparseAt(r, sz[0], sz[1], cls, []int{pos}, []byte{0, 100, 254, 1}[k%4])
			if !ok {
				continue
			}
			acls = AlphaSparse
			idesc = fmt.Sprintf("%dx%d/%s/sparse@%d", sz[0], sz[1], imgClassNames[cls], pos)
			leg = "sparse"
		default:
			var what string
			img, sz[0], sz[1], what = GenZeroRunImage(r, r.Chance(1, 3))
			acls = AlphaNone
			if srcHasAlpha(img) {
				acls = AlphaBinary
			}
			idesc = fmt.Sprintf("%dx%d/%s", sz[0], sz[1], what)
			leg = "zero-runs"
		}
		o := randEncoderOptions(r)
		o.ICC, o.EXIF, o.XMP = randBlob(r), randBlob(r), randBlob(r)
		if r.Chance(1, 3) {
			o.ICC, o.EXIF, o.XMP = nil, nil, nil
		}
		switch leg {
		case "banded":
			o.Lossless = true
			o.Method = bandMethod
			o.Quality = float32([]int{10, 50, 75}[r.Intn(3)])
			o.TargetSize, o.TargetPSNR = 0, 0
			if len(o.ICC) > 200 {
				o.ICC = o.ICC[:9]
			}
		case "colors":
			// the colour-count thresholds belong to the lossless encoder (palette, index packing)
			o.Lossless = i%4 != 3
			o.TargetSize, o.TargetPSNR = 0, 0
		case "blob-length":
			// one kind carries a blob of exactly blobLen bytes, the others stay random / absent
			b := r.Bytes(blobLen)
			switch r.Intn(3) {
			case 0:
				o.ICC = b
			case 1:
				o.EXIF = b
			default:
				o.XMP = b
			}
			o.TargetSize, o.TargetPSNR, o.Pass = 0, 0, 1
		case "tokens":
			o.Lossless = false
			o.Quality = float32(tokCases[0].Quality)
			o.Partitions = tokParts
			o.Segments = 1 + r.Intn(4)
			o.TargetSize, o.TargetPSNR, o.Pass, o.QMin, o.QMax = 0, 0, 1, 0, 100
			o.SNSStrength, o.Preprocessing = 0, 0
		case "threshold":
			o.Lossless = i%3 == 0
			o.TargetSize, o.TargetPSNR, o.Pass = 0, 0, 1
			if len(o.ICC) > 200 {
				o.ICC = o.ICC[:7]
			}
		case "sparse":
			if i%4 != 3 {
				o.Lossless = true
			}
		case "zero-runs":
			if i%3 != 2 {
				o.Lossless = true
			} else if !o.Lossless && acls != AlphaNone {
				// the 0/255 alpha plane carries the bit pattern: lossless-compressed, unfiltered ALPH
				o.AlphaCompression, o.AlphaFiltering = 1, 0
			}
		}
		rep.Count("leg:" + leg)
		desc := fmt.Sprintf("%s lossless=%v q=%v m=%d exact=%v seg=%d part=%d pass=%d fs=%d ts=%d psnr=%v ac=%d af=%d aq=%d syuv=%v pre=%d meta=%d/%d/%d",
			idesc, o.Lossless, o.Quality, o.Method, o.Exact, o.Segments, o.Partitions, o.Pass, o.FilterStrength, o.TargetSize, o.TargetPSNR, o.AlphaCompression, o.AlphaFiltering, o.AlphaQuality, o.UseSharpYUV, o.Preprocessing, len(o.ICC), len(o.EXIF), len(o.XMP))
		file, err := encodeBytes(img, o)
		if err != nil {
			// Encode may refuse, but then nothing about the file is claimed; count it
			rep.Count("encode-error")
			continue
		}
		add := func(sig, detail string) {
			rep.Add(Finding{Kind: "property", Property: "C02", Signature: sig, Detail: desc + ": " + detail,
				Input: map[string]any{"op": "conform", "case": i, "seed": rep.Seed, "desc": desc, "hex": short(hx(file), 8000)}})
		}
		if e := checkStillLayout(file, sz[0], sz[1], srcHasAlpha(img), o.ICC, o.EXIF, o.XMP); e != "" {
			add("conform:structure:"+strings.SplitN(e, " ", 3)[0], e)
		}
		dec, derr := webp.Decode(bytes.NewReader(file))
		if derr != nil {
			add("conform:own-decoder-rejects", derr.Error())
			continue
		}
		if dec.Bounds().Dx() != sz[0] || dec.Bounds().Dy() != sz[1] {
			add("conform:decoded-size", fmt.Sprint(dec.Bounds()))
		} else if leg == "banded" && !bytes.Equal(toNRGBA(dec).Pix, img.Pix) {
			// (opaque source, lossless: the decoded picture is the source)
			add("conform:lossless-differs-from-source", "opaque picture encoded lossless does not decode to the source pixels")
		}
		ft, ferr := webp.GetFeatures(bytes.NewReader(file))
		if ferr != nil || ft.Width != sz[0] || ft.Height != sz[1] {
			add("conform:declared-size", fmt.Sprintf("GetFeatures %v err=%v", ft, ferr))
		} else if ft.HasAlpha != srcHasAlpha(img) && !(o.Lossless && !srcHasAlpha(img)) {
			// lossless files may legitimately carry the alpha bit only when the source has transparency
			add("conform:alpha-flag", fmt.Sprintf("HasAlpha=%v but source transparency=%v", ft.HasAlpha, srcHasAlpha(img)))
		} else if o.Lossless && ft.HasAlpha && !srcHasAlpha(img) {
			add("conform:alpha-flag", "alpha flag set for a fully opaque source")
		}
		// independent decoders
		cs, _ := walkRIFF(file)
		for _, c := range cs {
			if c.tag == "VP8L" {
				got := toNRGBA(dec)
				lines = append(lines, "vp8l "+hx(c.payload))
				pends = append(pends, pend{"vp8l", digest(got.Pix), desc, short(hx(file), 8000)})
			}
			if c.tag == "VP8 " && hasVP8 {
				y, u, v, ys, uvs, w, h, err := decodeYUV(c.payload)
				if err == nil {
					lines = append(lines, "vp8 "+hx(c.payload))
					pends = append(pends, pend{"vp8", fmt.Sprintf("ok w=%d h=%d y=%s u=%s v=%s", w, h, digest(cropPlaneWH(y, ys, w, h)), digest(cropPlaneWH(u, uvs, (w+1)/2, (h+1)/2)), digest(cropPlaneWH(v, uvs, (w+1)/2, (h+1)/2))), desc, short(hx(file), 8000)})
				}
			}
		}
		if hasWF {
			lines = append(lines, "riffwf "+hx(file))
			pends = append(pends, pend{"riffwf", "", desc, short(hx(file), 8000)})
		}
		rep.Eval(!isFlat(img), append([]byte(desc), img.Pix...))
		rep.Count(fmt.Sprintf("lossless=%v", o.Lossless))
		rep.Count("alpha:" + alphaClassNames[acls])
		if i < 3 {
			rep.Sample(map[string]any{"case": desc, "bytes": len(file)})
		}
	}
	out, err := RunDriver(lines)
	if err != nil {
		return err
	}
	for i, l := range out {
		p := pends[i]
		bad := ""
		switch p.kind {
		case "vp8l":
			// "ok w= h= alpha= px=<digest> npx=..."
			if !strings.HasPrefix(l, "ok ") {
				bad = "independent VP8L decoder rejects the stream: " + l
			} else if !strings.Contains(l, "px="+p.want+" ") {
				bad = "independent VP8L decoder yields other pixels than the package's decoder: " + short(l, 160) + " vs px=" + p.want
			}
			rep.Count("independent:vp8l")
		case "vp8":
			if l != p.want {
				bad = "independent VP8 decoder differs from the package's decoder: " + short(l, 160) + " vs " + short(p.want, 160)
			}
			rep.Count("independent:vp8")
		case "riffwf":
			if !strings.HasPrefix(l, "ok") {
				bad = "Lean RIFF walker rejects the file: " + l
			}
			rep.Count("independent:riffwf")
		}
		if bad != "" {
			rep.Add(Finding{Kind: "property", Property: "C02", Signature: "conform:independent-" + p.kind, Detail: p.desc + ": " + bad,
				Input: map[string]any{"op": "conform", "desc": p.desc, "hex": p.hex}})
		}
	}
	if !hasVP8 {
		rep.Notes = append(rep.Notes, "driver has no vp8 op yet: lossy payloads validated by the package's own decoder and the structural walker only")
	}
	return nil
}

// conformBandedImage: an opaque picture of horizontal bands for the lossless encoder at the returned Method. The
// entropy image has 3, 7 or 11 tile rows (tile = 2^clamp(7-Method, 2, 9) pixels; kind "few" counts with the
// palette-mode tile 2^clamp(9-Method, 2, 9)); the picture is 2..8 tiles wide, its last tile row may be partial.
// Rows above the last tile row: dark noise / one flat colour / a smooth horizontal ramp / 4 colours; last tile
// row: bright noise (kind "few": 12 other colours).
func conformBandedImage(r *RNG, k int) (*image.NRGBA, int, string) {
	kind := []string{"noise", "noise", "noise", "flat", "noise", "few", "noise", "smooth", "noise", "few"}[k%10]
	method := []int{4, 5, 6, 3, 4, 5, 6, 4, 2, 6}[(k+r.Intn(3))%10]
	bits := 7 - method
	if kind == "few" {
		bits = 9 - method
	}
	if bits < 2 {
		bits = 2
	}
	for bits > 5 { // keep the pictures small: tiles of at most 32 pixels
		method++
		bits--
	}
	tile := 1 << uint(bits)
	rows := []int{3, 7, 11}[(k/2+r.Intn(2))%3]
	if tile == 32 && rows == 11 {
		rows = 7
	}
	wt := 2 + r.Intn(7)
	for wt > 2 && wt*tile*rows*tile > 24000 {
		wt--
	}
	w, h := wt*tile, rows*tile
	if r.Chance(1, 3) {
		h -= r.Intn(tile) // partial last tile row
	}
	if r.Chance(1, 4) && w > tile {
		w -= r.Intn(tile)
	}
	img := image.NewNRGBA(image.Rect(0, 0, w, h))
	var pal [16][3]byte
	for i := range pal {
		pal[i] = [3]byte{byte(r.Next()), byte(r.Next()), byte(r.Next())}
	}
	flat := [3]byte{byte(r.Next()), byte(r.Next()), byte(r.Next())}
	lo, span := 16, 16
	if r.Bool() {
		lo, span = 0, 8+r.Intn(24)
	}
	top := (rows - 1) * tile
	for y := 0; y < h; y++ {
		for x := 0; x < w; x++ {
			o := img.PixOffset(x, y)
			var c [3]byte
			switch {
			case y >= top && kind == "few":
				c = pal[4+r.Intn(12)]
			case y >= top:
				c = [3]byte{byte(128 + r.Intn(100)), byte(128 + r.Intn(100)), byte(128 + r.Intn(100))}
			case kind == "noise":
				c = [3]byte{byte(lo + r.Intn(span)), byte(lo + r.Intn(span)), byte(lo + r.Intn(span))}
			case kind == "flat":
				c = flat
			case kind == "smooth":
				c = [3]byte{byte(x * 100 / w), byte(20 + x*60/w), flat[2] & 63}
			default:
				c = pal[r.Intn(4)]
			}
			img.Pix[o], img.Pix[o+1], img.Pix[o+2], img.Pix[o+3] = c[0], c[1], c[2], 255
		}
	}
	return img, method, fmt.Sprintf("%s banded: %d tile rows of %d px (histogram bits %d), last row noisy", kind, rows, tile, bits)
}

// metaAnimCase: one animation-encoder run with a random metadata setter sequence (see suiteMeta).
func metaAnimCase(rep *Report, r *RNG, i int, img *image.NRGBA, w, h, cls, acls int, forceFrames int) {
	var buf bytes.Buffer
	lossless := r.Chance(2, 3)
	e := animation.NewEncoder(&buf, w, h, &animation.EncodeOptions{Lossless: lossless, Quality: []int{50, 75, 90}[r.Intn(3)]})
	nframes := 1 + r.Intn(3)
	if r.Chance(1, 3) {
		nframes = 1
	}
	if forceFrames > 0 {
		nframes = forceFrames
	}
	names := []string{"ICC", "EXIF", "XMP"}
	var final [3][]byte
	var trace []string
	call := func() {
		k := r.Intn(3)
		var b []byte
		switch r.Intn(5) {
		case 0, 1:
			b = nil
		case 2:
			b = []byte{}
		default:
			for b == nil {
				b = randBlob(r)
			}
		}
		switch k {
		case 0:
			e.SetICCProfile(b)
		case 1:
			e.SetEXIF(b)
		default:
			e.SetXMP(b)
		}
		final[k] = b
		if b == nil {
			trace = append(trace, names[k]+"(nil)")
		} else {
			trace = append(trace, fmt.Sprintf("%s(%d)", names[k], len(b)))
		}
	}
	ncalls := r.Intn(7)
	// slot s: calls made before frame s (s = nframes: after the last frame, before Close)
	slots := make([]int, nframes+1)
	for c := 0; c < ncalls; c++ {
		slots[r.Intn(nframes+1)]++
	}
	frame := img
	for f := 0; f <= nframes; f++ {
		for c := 0; c < slots[f]; c++ {
			call()
		}
		if f == nframes {
			break
		}
		if f > 0 {
			frame = GenImage(r, w, h, cls, acls)
		}
		if err := e.AddFrame(frame, time.Duration(30+10*f)*time.Millisecond); err != nil {
			rep.Count("animation:addframe-error")
			return
		}
		trace = append(trace, "frame")
	}
	desc := fmt.Sprintf("%s lossless=%v frames=%d calls=%s", imgDesc(w, h, cls, acls), lossless, nframes, strings.Join(trace, ","))
	add := func(sig, detail string) {
		rep.Add(Finding{Kind: "property", Property: "C15", Signature: sig, Detail: desc + ": " + detail,
			Input: map[string]any{"op": "meta", "case": i, "seed": rep.Seed, "desc": desc, "hex": short(hx(buf.Bytes()), 6000)}})
	}
	if err := e.Close(); err != nil {
		add("meta:anim-close-error", err.Error())
		return
	}
	file := buf.Bytes()
	held := 0
	for _, b := range final {
		if b != nil {
			held++
		}
	}
	rep.Eval(held > 0, append([]byte(desc), file...))
	if forceFrames == 0 {
		rep.Count(fmt.Sprintf("animation:frames=%d", nframes))
	}
	rep.Count(fmt.Sprintf("animation:kinds-held=%d", held))
	if len(file) >= 16 && string(file[12:16]) != "VP8X" {
		rep.Count("animation:written-as-simple-still")
	}
	for k := range final {
		sawNonNil := false
		for _, t := range trace {
			if strings.HasPrefix(t, names[k]+"(") && t != names[k]+"(nil)" {
				sawNonNil = true
			} else if t == names[k]+"(nil)" && sawNonNil {
				rep.Count("animation:nil-after-blob")
				sawNonNil = false
			}
		}
	}
	a, aerr := animation.DecodeBytes(file)
	if aerr != nil {
		add("meta:anim-unreadable", aerr.Error())
		return
	}
	dm, derr := mux.NewDemuxer(file)
	if derr != nil {
		add("meta:anim-demux-error", derr.Error())
		return
	}
	ft := dm.GetFeatures()
	for k, m := range []struct {
		id   mux.ChunkID
		got  []byte
		flag bool
	}{{mux.FourCCICCP, a.ICC, ft.HasICC}, {mux.FourCCEXIF, a.EXIF, ft.HasEXIF}, {mux.FourCCXMP, a.XMP, ft.HasXMP}} {
		want := final[k]
		chunk, gerr := dm.GetChunk(m.id)
		if want != nil {
			if !bytes.Equal(m.got, want) {
				add("meta:anim-readback:"+names[k], fmt.Sprintf("%s blob of %d bytes (last value set) read back by animation.DecodeBytes as %d bytes", names[k], len(want), len(m.got)))
			}
			if (gerr != nil && len(want) > 0) || !bytes.Equal(chunk, want) {
				add("meta:anim-readback:"+names[k], fmt.Sprintf("%s blob of %d bytes (last value set) read back by Demuxer.GetChunk as %d bytes (err=%v)", names[k], len(want), len(chunk), gerr))
			}
			if !m.flag {
				add("meta:anim-flag-missing:"+names[k], "the muxer holds a blob but the file does not announce it")
			}
		} else {
			if len(m.got) > 0 || gerr == nil {
				add("meta:anim-phantom:"+names[k], fmt.Sprintf("last value set is nil (or never set) but the readers return a chunk (%d bytes, GetChunk err=%v)", len(m.got), gerr))
			}
			if m.flag {
				add("meta:anim-flag-phantom:"+names[k], "last value set is nil (or never set) but the feature flag is set")
			}
		}
	}
	// (the frame count is not compared: the encoder merges a frame that repeats its predecessor)
}

func imageChunks(file []byte) (img, alph []byte) {
	cs, _ := walkRIFF(file)
	for _, c := range cs {
		switch c.tag {
		case "VP8 ", "VP8L":
			img = c.payload
		case "ALPH":
			alph = c.payload
		}
	}
	return
}

// suiteMeta: C15 — metadata is stored byte-exact and never affects the picture.
func suiteMeta(rep *Report) error {
	rep.Rule = "same image - as *image.NRGBA or, 3 of 5, in another storage form: RGBA, Gray, Paletted, NRGBA64, RGBA64, image.Image-only wrapper, sub-image, half of them at a non-zero origin; plus a few pictures on the numeric thresholds of the code with cheap content - encoded (full option grid: presets, lossy/lossless, Quality, Method, Exact - forced on for a third of the transparent pictures, whose alpha-0 pixels carry colour -, segments, partitions, passes, alpha settings, sharp YUV, target size/PSNR) without metadata and with every subset of {ICC,EXIF,XMP} over blob lengths {nil, empty non-nil, 1,2..4,odd,even up to 142 bytes,chunk-like content; thorough: also 65536 / 65537}: image (and ALPH) chunk bytes identical, decoded pixels identical, blobs read back byte-exact through the demuxer, VP8X flags announce exactly the non-empty blobs; animation encoder with 1..3 frames and a random sequence of SetICCProfile/SetEXIF/SetXMP calls (nil, empty and non-empty arguments, repeated, before/between/after the frames): per kind the LAST value set is read back byte-exact through animation.DecodeBytes and Demuxer.GetChunk with exact VP8X flags, whether Close() wrote an animation or a plain still; the same for animations of 1/2/3 and 29/30/31 small frames (frame-count thresholds, 2 per run); cap probe on ONE shared 100 MiB buffer: a blob of exactly MetadataCap = 100 MiB bytes per kind {ICC,EXIF,XMP} through one writer path (webp.Encode of a 1x1 picture lossy / lossless, Muxer.Set*, Muxer.AddChunk; rotated by the seed; thorough: every kind x {cap-1, cap, cap+1} x path) must be accepted and the file must pass container.NewParser, GetFeatures, DecodeConfig, Decode, NewDemuxer + GetChunk (all n bytes back) and animation.DecodeBytes, and cap+1 must be refused by every writer path before anything is written; non-trivial = at least one non-empty blob"
	n := 120
	if rep.Tier == "thorough" {
		n = 3000
	}
	// threshold leg: a few pictures on the numeric thresholds of the code (thresholds.go), cheap content
	nThr := 6
	if rep.Tier == "thorough" {
		nThr = 60
	}
	thr := DrawThresholdCases(rep.Seed, 0x15, nThr, ThresholdFilter{MaxPixels: 120000, MinValue: 200})
	for i := 0; i < n+len(thr); i++ {
		r := NewRNG(rep.Seed, uint64(i))
		w, h := 1+r.Intn(40), 1+r.Intn(40)
		cls, acls := r.Intn(NumImgClasses), r.Intn(NumAlphaClasses)
		var nimg *image.NRGBA
		if i >= n {
			tc := thr[i-n]
			w, h = tc.W, tc.H
			cls, acls = ClsFlat, []int{AlphaNone, AlphaGradient, AlphaSparse, AlphaBinary}[r.Intn(4)]
			nimg = GenCheapImage(r, w, h, r.Intn(NumCheapClasses), acls)
			CountThreshold(rep, tc)
		} else {
			nimg = GenImage(r, w, h, cls, acls)
		}
		// the storage form of the source is a dimension too: the metadata-free and the metadata-carrying
		// path each have a fast path per concrete type and a generic fallback, which must agree. Types of
		// the roundtrip suite (NRGBA, RGBA, Gray, Paletted, NRGBA64, image.Image-only wrapper, sub-image,
		// RGBA64), half of them at a non-zero origin; 2 of 5 stay *image.NRGBA at the origin.
		var img image.Image = nimg
		tname := "NRGBA"
		if r.Chance(3, 5) && w*h <= 20000 {
			img, tname = asType(r, nimg, r.Intn(numImgTypes))
		}
		rep.Count("source-type:" + tname)
		// the full option grid (incl. Exact, Quality > 75, presets, alpha settings): the metadata must not
		// select a different encoding path for any of them
		o := randEncoderOptions(r)
		o.Lossless = r.Bool()
		if i >= n && !o.Lossless {
			o.TargetSize, o.TargetPSNR, o.Pass = 0, 0, 1 // (large pictures: no size search)
		}
		if acls != AlphaNone && r.Chance(1, 3) {
			// pixels that are fully transparent yet carry colour, with Exact on: the colour is part of
			// the picture and the metadata-carrying path must keep it too
			o.Exact = true
		}
		base, err := encodeBytes(img, o)
		if err != nil {
			rep.Count("encode-error")
			continue
		}
		baseImg, baseAlph := imageChunks(base)
		basePix := ""
		if d, err := webp.Decode(bytes.NewReader(base)); err == nil {
			basePix = digest(toNRGBA(d).Pix)
		}
		for k := 0; k < 4; k++ {
			o2 := *o
			o2.ICC, o2.EXIF, o2.XMP = randBlob(r), randBlob(r), randBlob(r)
			if k == 3 && rep.Tier == "thorough" && i%200 == 0 {
				o2.EXIF = bytes.Repeat([]byte{0xAB}, 65536+i%2)
			}
			desc := fmt.Sprintf("%s type=%s lossless=%v q=%v m=%d exact=%v seg=%d part=%d pass=%d ts=%d psnr=%v ac=%d af=%d aq=%d syuv=%v pre=%d meta=%d/%d/%d", imgDesc(w, h, cls, acls), tname, o.Lossless,
				o.Quality, o.Method, o.Exact, o.Segments, o.Partitions, o.Pass, o.TargetSize, o.TargetPSNR, o.AlphaCompression, o.AlphaFiltering, o.AlphaQuality, o.UseSharpYUV, o.Preprocessing, len(o2.ICC), len(o2.EXIF), len(o2.XMP))
			for _, b := range [][]byte{o2.ICC, o2.EXIF, o2.XMP} {
				if b != nil && len(b) == 0 {
					desc += " (a 0 is an empty non-nil blob)"
					rep.Count("blob:empty-non-nil")
					break
				}
			}
			file, err := encodeBytes(img, &o2)
			add := func(sig, detail string) {
				rep.Add(Finding{Kind: "property", Property: "C15", Signature: sig, Detail: desc + ": " + detail,
					Input: map[string]any{"op": "meta", "case": i, "k": k, "seed": rep.Seed, "desc": desc, "hex": short(hx(file), 6000)}})
			}
			if err != nil {
				add("meta:encode-error", err.Error())
				continue
			}
			im2, al2 := imageChunks(file)
			if !bytes.Equal(im2, baseImg) || !bytes.Equal(al2, baseAlph) {
				add("meta:bitstream-changed", "image/ALPH chunk bytes differ from the metadata-free encoding")
			}
			if d, err := webp.Decode(bytes.NewReader(file)); err != nil || digest(toNRGBA(d).Pix) != basePix {
				add("meta:pixels-changed", fmt.Sprint("decoded pixels differ / error: ", err))
			}
			dm, derr := mux.NewDemuxer(file)
			if derr != nil {
				add("meta:demux-error", derr.Error())
				continue
			}
			for _, m := range []struct {
				id   mux.ChunkID
				blob []byte
				name string
				flag bool
			}{{mux.FourCCICCP, o2.ICC, "ICC", dm.GetFeatures().HasICC}, {mux.FourCCEXIF, o2.EXIF, "EXIF", dm.GetFeatures().HasEXIF}, {mux.FourCCXMP, o2.XMP, "XMP", dm.GetFeatures().HasXMP}} {
				got, gerr := dm.GetChunk(m.id)
				if len(m.blob) > 0 {
					if gerr != nil || !bytes.Equal(got, m.blob) {
						add("meta:readback:"+m.name, fmt.Sprintf("blob of %d bytes read back as %d bytes (err=%v)", len(m.blob), len(got), gerr))
					}
					if !m.flag {
						add("meta:flag-missing:"+m.name, "blob present but feature flag clear")
					}
				} else {
					if gerr == nil {
						add("meta:phantom:"+m.name, "no blob given but a chunk is present")
					}
					if m.flag {
						add("meta:flag-phantom:"+m.name, "no blob given but feature flag set")
					}
				}
			}
			rep.Eval(len(o2.ICC)+len(o2.EXIF)+len(o2.XMP) > 0, append([]byte(desc), file...))
		}
		// animation encoder with metadata: 1..3 frames, the three setters driven as a random call
		// sequence (nil / empty / non-empty arguments, repeated calls, before, between and after the
		// frames). Oracle = what animation.go + mux.go implement: the muxer keeps the LAST value handed
		// to each setter, nil included; a kind whose last value is non-nil is written (an empty blob as
		// a zero-length chunk) and announced in the VP8X flags, a kind whose last value is nil (or that
		// was never set) is absent; whatever container form Close() picks (one frame may become a plain
		// still) must not lose a blob the muxer still holds.
		if i%2 == 0 && i < n {
			metaAnimCase(rep, r, i, nimg, w, h, cls, acls, 0)
		}
		rep.Count(fmt.Sprintf("lossless=%v,exact=%v,transparent=%v", o.Lossless, o.Exact, acls != AlphaNone))
		if i < 2 {
			rep.Sample(map[string]any{"image": imgDesc(w, h, cls, acls), "base_bytes": len(base)})
		}
	}
	// animations whose LENGTH sits on the frame-count thresholds (2: serial vs parallel frame decoding; 30: the
	// key-frame cache), small frames, the same random setter sequences
	nfc := 2
	if rep.Tier == "thorough" {
		nfc = 1 << 20
	}
	for k, fc := range DrawCountCases(rep.Seed, 0x1501, nfc, "frames", 2, 40) {
		r := NewRNG(rep.Seed, 0x15F0_0000+uint64(k))
		w, h := 2+r.Intn(7), 2+r.Intn(7)
		cls, acls := []int{ClsNoise, ClsPal16, ClsPhoto, ClsPal256}[r.Intn(4)], r.Intn(NumAlphaClasses)
		metaAnimCase(rep, r, 1_000_000+k, GenImage(r, w, h, cls, acls), w, h, cls, acls, fc.N)
		CountCount(rep, fc)
	}
	metaCapProbe(rep, "C15")
	return nil
}

// ---------------------------------------------------------------------------------------------------
// metadata cap probe: blobs of MetadataCap-1 / MetadataCap / MetadataCap+1 bytes (100 MiB)

// metaCapSink collects a writer's output in one pre-sized buffer that all probes share.
type metaCapSink struct{ b []byte }

func (s *metaCapSink) Write(p []byte) (int, error) { s.b = append(s.b, p...); return len(p), nil }

var metaCapKinds = []string{"ICC", "EXIF", "XMP"}
var metaCapPaths = []string{"encode-lossy", "encode-lossless", "mux-set", "mux-addchunk"}

// metaCapWrite hands a blob of n bytes (a slice of the shared read-only CapBuffer) of the given kind to one writer
// path: webp.Encode of a 1x1 picture (lossy / lossless) or a Muxer holding one 1x1 VP8L frame (Set* / AddChunk).
// Returns the setter's / writer's error (nil = a file was written into sink).
func metaCapWrite(sink *metaCapSink, kind, path, n int) error {
	blob := CapBuffer()[:n:n]
	sink.b = sink.b[:0]
	switch path {
	case 0, 1:
		img := image.NewNRGBA(image.Rect(0, 0, 1, 1))
		img.Pix[0], img.Pix[1], img.Pix[2], img.Pix[3] = 10, 200, 30, 255
		o := webp.DefaultOptions()
		o.Lossless = path == 1
		o.Method = 1
		switch kind {
		case 0:
			o.ICC = blob
		case 1:
			o.EXIF = blob
		default:
			o.XMP = blob
		}
		return webp.Encode(sink, img, o)
	default:
		m := mux.NewMuxer()
		o := webp.DefaultOptions()
		o.Lossless = true
		px := image.NewNRGBA(image.Rect(0, 0, 1, 1))
		px.Pix[1], px.Pix[3] = 77, 255
		if err := m.AddFrame(firstChunkPayload(mustEncode(px, o)), nil); err != nil { // a real 1x1 VP8L bitstream
			return err
		}
		if path == 2 {
			switch kind {
			case 0:
				m.SetICCProfile(blob)
			case 1:
				m.SetEXIF(blob)
			default:
				m.SetXMP(blob)
			}
		} else if err := m.AddChunk([]mux.ChunkID{mux.FourCCICCP, mux.FourCCEXIF, mux.FourCCXMP}[kind], blob); err != nil {
			return err
		}
		return m.Assemble(sink)
	}
}

// metaCapReaders runs every reader of the package on an accepted file that carries a blob of n bytes of the given
// kind and returns (reader, what went wrong) pairs.
func metaCapReaders(file []byte, kind, n int) [][2]string {
	var bad [][2]string
	want := CapBuffer()[:n:n]
	fail := func(reader, format string, a ...any) { bad = append(bad, [2]string{reader, fmt.Sprintf(format, a...)}) }
	// (collect after every reader so that the next 100 MiB copy re-uses the span of the previous one; the memory
	// goes back to the system once, at the end of the probe)
	free := func() { runtime.GC() }
	if st, pm := guard(func() string {
		if _, err := verifapi.NewContainerParser(file); err != nil {
			fail("container.NewParser", "%v", err)
		}
		return "ok"
	}); st == "panic" {
		fail("container.NewParser", "panic: %s", pm)
	}
	free()
	if st, pm := guard(func() string {
		ft, err := webp.GetFeatures(bytes.NewReader(file))
		if err != nil {
			fail("GetFeatures", "%v", err)
		} else if ft.Width != 1 || ft.Height != 1 || ft.Format != "extended" {
			fail("GetFeatures", "reports %+v for a 1x1 extended still", ft)
		}
		return "ok"
	}); st == "panic" {
		fail("GetFeatures", "panic: %s", pm)
	}
	free()
	{
		if st, pm := guard(func() string {
			cf, err := webp.DecodeConfig(bytes.NewReader(file))
			if err != nil {
				fail("DecodeConfig", "%v", err)
			} else if cf.Width != 1 || cf.Height != 1 {
				fail("DecodeConfig", "reports %dx%d for a 1x1 still", cf.Width, cf.Height)
			}
			return "ok"
		}); st == "panic" {
			fail("DecodeConfig", "panic: %s", pm)
		}
		free()
		if st, pm := guard(func() string {
			im, err := webp.Decode(bytes.NewReader(file))
			if err != nil {
				fail("Decode", "%v", err)
			} else if im.Bounds().Dx() != 1 || im.Bounds().Dy() != 1 {
				fail("Decode", "returns %v for a 1x1 still", im.Bounds())
			}
			return "ok"
		}); st == "panic" {
			fail("Decode", "panic: %s", pm)
		}
		free()
	}
	if st, pm := guard(func() string {
		d, err := mux.NewDemuxer(file)
		if err != nil {
			fail("NewDemuxer", "%v", err)
			return "ok"
		}
		got, gerr := d.GetChunk([]mux.ChunkID{mux.FourCCICCP, mux.FourCCEXIF, mux.FourCCXMP}[kind])
		if gerr != nil || !bytes.Equal(got, want) {
			fail("GetChunk", "blob of %d bytes read back as %d bytes (err=%v, equal=%v)", n, len(got), gerr, bytes.Equal(got, want))
		}
		ft := d.GetFeatures()
		if flags := [3]bool{ft.HasICC, ft.HasEXIF, ft.HasXMP}; flags != [3]bool{kind == 0, kind == 1, kind == 2} {
			fail("Demuxer.GetFeatures", "flags icc/exif/xmp %v for one %s blob", flags, metaCapKinds[kind])
		}
		return "ok"
	}); st == "panic" {
		fail("NewDemuxer", "panic: %s", pm)
	}
	free()
	{
		if st, pm := guard(func() string {
			a, err := animation.DecodeBytes(file)
			if err != nil {
				fail("animation.DecodeBytes", "%v", err)
				return "ok"
			}
			got := [][]byte{a.ICC, a.EXIF, a.XMP}[kind]
			if !bytes.Equal(got, want) {
				fail("animation.DecodeBytes", "blob of %d bytes read back as %d bytes", n, len(got))
			}
			return "ok"
		}); st == "panic" {
			fail("animation.DecodeBytes", "panic: %s", pm)
		}
		free()
	}
	return bad
}

// metaCapOne runs one probe (kind x path x n) and files what it finds under prop. Writers must accept n <= cap
// and refuse n > cap before writing anything; every accepted file must pass every reader with the n bytes back.
func metaCapOne(rep *Report, sink *metaCapSink, prop string, kind, path, n int) {
	kname, pname := metaCapKinds[kind], metaCapPaths[path]
	desc := fmt.Sprintf("%s blob of %d bytes (cap%+d) through %s", kname, n, n-MetadataCap, pname)
	in := map[string]any{"op": "meta-cap", "kind": kname, "path": pname, "n": n, "desc": desc}
	add := func(sig, detail string) {
		rep.Add(Finding{Kind: "property", Property: prop, Signature: sig, Detail: desc + ": " + detail, Input: in})
	}
	var werr error
	if st, pm := guard(func() string { werr = metaCapWrite(sink, kind, path, n); return "ok" }); st == "panic" {
		add("meta:cap:"+kname+":writer-panics", pm)
		return
	}
	rep.Count(fmt.Sprintf("cap-probe:%s:%s:cap%+d:accepted=%v", kname, pname, n-MetadataCap, werr == nil))
	rep.Eval(true, []byte(desc))
	switch {
	case werr != nil && n <= MetadataCap:
		add("meta:cap:"+kname+":writer-refuses", "a blob within the documented cap is refused: "+werr.Error())
	case werr != nil:
		if len(sink.b) != 0 {
			add("meta:cap:"+kname+":error-after-write", fmt.Sprintf("the writer returned %v after writing %d bytes", werr, len(sink.b)))
		}
	case n > MetadataCap:
		add("meta:cap:"+kname+":writer-accepts-oversize", fmt.Sprintf("a blob above the cap is written (%d bytes) although no reader of the package accepts it", len(sink.b)))
	default:
		for _, b := range metaCapReaders(sink.b, kind, n) {
			add("meta:cap:"+kname+":"+b[0], fmt.Sprintf("the writer accepts the blob (file of %d bytes) but %s: %s", len(sink.b), b[0], b[1]))
		}
	}
	sink.b = sink.b[:0]
}

// metaCapProbe: quick = per kind one accepted probe at n = cap (writer path rotated by the seed) and the cap+1
// refusal of every writer path (cheap: nothing is written); thorough = kinds x {cap-1, cap, cap+1} x paths. The
// probes run sequentially on ONE shared source buffer and ONE shared output buffer.
func metaCapProbe(rep *Report, prop string) {
	defer debug.SetGCPercent(debug.SetGCPercent(25))
	t0 := time.Now()
	sink := &metaCapSink{b: make([]byte, 0, MetadataCap+(1<<16))}
	for kind := range metaCapKinds {
		for path := range metaCapPaths {
			if rep.Tier == "thorough" {
				for _, n := range []int{MetadataCap - 1, MetadataCap, MetadataCap + 1} {
					metaCapOne(rep, sink, prop, kind, path, n)
				}
				continue
			}
			metaCapOne(rep, sink, prop, kind, path, MetadataCap+1)
			if (kind+int(rep.Seed))%len(metaCapPaths) == path {
				metaCapOne(rep, sink, prop, kind, path, MetadataCap)
			}
		}
	}
	sink.b = nil
	runtime.GC()
	debug.FreeOSMemory()
	rep.Extra["cap_probe_ms"] = time.Since(t0).Milliseconds()
}

// replayMetaCap re-runs one cap probe.
func replayMetaCap(in map[string]any) int {
	kind, path := -1, -1
	for k, s := range metaCapKinds {
		if s == in["kind"] {
			kind = k
		}
	}
	for k, s := range metaCapPaths {
		if s == in["path"] {
			path = k
		}
	}
	n, _ := in["n"].(float64)
	if kind < 0 || path < 0 || n <= 0 {
		fmt.Println("meta-cap: bad input")
		return 2
	}
	rep := NewReport("meta", "replay", 0)
	metaCapOne(rep, &metaCapSink{b: make([]byte, 0, MetadataCap+(1<<16))}, "C15", kind, path, int(n))
	for _, f := range rep.Findings {
		fmt.Printf("%s %s %s: %s\n", f.Kind, f.Property, f.Signature, f.Detail)
	}
	if len(rep.Findings) > 0 {
		return 1
	}
	fmt.Println("no finding")
	return 0
}
