package main

import (
	"bytes"
	"encoding/binary"
	"errors"
	"fmt"
	"math"
	"runtime"
	"runtime/debug"
	"strconv"
	"strings"

	webp "github.com/deepteams/webp"
	"github.com/deepteams/webp/mux"
	"github.com/deepteams/webp/verifapi"
)

func init() {
	suites["mux"] = suiteMux
	replayers["mux"] = replayMux
	replayers["mux-probe"] = func(in map[string]any) int {
		rep := NewReport("mux", "replay", 0)
		probeOversizeMetadata(rep)
		for _, f := range rep.Findings {
			fmt.Printf("%s %s %s: %s\n", f.Kind, f.Property, f.Signature, f.Detail)
		}
		if len(rep.Findings) > 0 {
			return 1
		}
		return 0
	}
}

// probeOversizeMetadata runs the one region that is cheap to reach but too large for the line protocol: a metadata
// blob at and one byte above the 100 MB cap of the readers.  Since b6500d8 `validate` must refuse the larger one with a
// validation error before anything is written (AddChunk already did; SetICCProfile stores it).  Go only — the model's
// answer is `validateWith`'s `limits` check plus the theorem that every accepted state reads back.  Both tiers: the
// blob is a slice of the shared read-only CapBuffer, the file goes into one pre-sized buffer; an accepted file that a
// reader of the package refuses is filed under C14 (the muxer wrote a file nobody can read) and under C15 (a blob
// within the cap is not read back).
func probeOversizeMetadata(rep *Report) {
	const cap = MetadataCap
	defer debug.SetGCPercent(debug.SetGCPercent(25))
	sink := &metaCapSink{b: make([]byte, 0, cap+(1<<16))}
	for _, n := range []int{cap, cap + 1} {
		m := mux.NewMuxer()
		_ = m.AddFrame([]byte{0x2f, 0, 0, 0, 0}, nil)
		m.SetICCProfile(CapBuffer()[:n:n])
		sink.b = sink.b[:0]
		err := m.Assemble(sink)
		in := map[string]any{"op": "mux-probe", "ops": fmt.Sprintf("AF0:2f00000000;IC:<%d bytes of CapBuffer>", n)}
		rep.Count(fmt.Sprintf("probe:icc:%d:assemble-ok=%v", n, err == nil))
		rep.Eval(true, []byte(fmt.Sprintf("probe-icc-%d", n)))
		if err != nil {
			if len(sink.b) != 0 {
				rep.Add(Finding{Kind: "property", Property: "C14", Signature: "mux.Assemble:error-after-write",
					Detail: fmt.Sprintf("Assemble returned %v after writing %d bytes", err, len(sink.b)), Input: in})
			}
			if n <= cap || !errors.Is(err, mux.ErrMuxValidation) {
				rep.Add(Finding{Kind: "correspondence", Signature: "mux-model:metadata-limit",
					Detail: fmt.Sprintf("SetICCProfile(%d bytes): Assemble returned %v; the model expects %s", n, err,
						map[bool]string{true: "success", false: "a validation error"}[n <= cap]), Input: in})
			}
			continue
		}
		if n > cap {
			rep.Add(Finding{Kind: "correspondence", Signature: "mux-model:metadata-limit",
				Detail: fmt.Sprintf("SetICCProfile(%d bytes): Assemble succeeded; the model expects a validation error", n), Input: in})
		}
		d, derr := mux.NewDemuxer(sink.b)
		back := -1
		if derr == nil {
			if got, gerr := d.GetChunk(mux.FourCCICCP); gerr == nil && bytes.Equal(got, CapBuffer()[:n:n]) {
				back = n
			} else {
				back = len(got)
			}
		}
		d = nil
		runtime.GC()
		_, perr := verifapi.NewContainerParser(sink.b)
		runtime.GC()
		if derr != nil || perr != nil {
			rep.Add(Finding{Kind: "property", Property: "C14", Signature: "mux-roundtrip:oversize-metadata-accepted",
				Detail: fmt.Sprintf("SetICCProfile(%d bytes) + Assemble succeed (%d bytes), NewDemuxer: %v, container.NewParser: %v", n, len(sink.b), derr, perr),
				Input:  in})
		}
		if n <= cap && (derr != nil || perr != nil || back != n) {
			rep.Add(Finding{Kind: "property", Property: "C15", Signature: "meta:cap:ICC:mux-readers",
				Detail: fmt.Sprintf("ICC blob of %d bytes (cap%+d) through Muxer.SetICCProfile: Assemble succeeds (%d bytes), NewDemuxer: %v, GetChunk gives %d bytes back, container.NewParser: %v", n, n-cap, len(sink.b), derr, back, perr),
				Input:  in})
		}
	}
	sink.b = nil
	runtime.GC()
	debug.FreeOSMemory()
}

// ---------------------------------------------------------------------------------------------
// op sequences (wire form shared with lean/Driver/Mux.lean)

type muxOp struct {
	kind   string // AF AF0 DM DU LC CS BG IC EX XM AC
	data   []byte // AF/AF0 frame data; IC/EX/XM/AC blob
	isNil  bool   // blob is a nil slice
	a, b   int    // DM/DU: index, value; LC: n; CS: w,h; AF: dur
	ox, oy int
	bl, dm int
	id     uint32
	bg     uint32
}

func blobStr(b []byte, isNil bool) string {
	if isNil {
		return "nil"
	}
	return hx(b)
}

func (o muxOp) String() string {
	switch o.kind {
	case "AF":
		return fmt.Sprintf("AF:%s:%d:%d:%d:%d:%d", hx(o.data), o.a, o.ox, o.oy, o.bl, o.dm)
	case "AF0":
		return "AF0:" + hx(o.data)
	case "DM", "DU", "CS":
		return fmt.Sprintf("%s:%d:%d", o.kind, o.a, o.b)
	case "LC":
		return fmt.Sprintf("LC:%d", o.a)
	case "BG":
		return fmt.Sprintf("BG:%d", o.bg)
	case "IC", "EX", "XM":
		return o.kind + ":" + blobStr(o.data, o.isNil)
	case "AC":
		return fmt.Sprintf("AC:%d:%s", o.id, blobStr(o.data, o.isNil))
	}
	return "?"
}

func opsString(ops []muxOp) string {
	if len(ops) == 0 {
		return "-"
	}
	var s []string
	for _, o := range ops {
		s = append(s, o.String())
	}
	return strings.Join(s, ";")
}

func parseBlob(s string) ([]byte, bool) {
	if s == "nil" {
		return nil, true
	}
	if s == "-" {
		return []byte{}, false
	}
	return unhx(s), false
}

func parseMuxOps(s string) ([]muxOp, error) {
	if s == "-" {
		return nil, nil
	}
	var out []muxOp
	for _, t := range strings.Split(s, ";") {
		f := strings.Split(t, ":")
		n := func(i int) int { v, _ := strconv.ParseInt(f[i], 10, 64); return int(v) }
		o := muxOp{kind: f[0]}
		switch {
		case f[0] == "AF" && len(f) == 7:
			o.data, o.a, o.ox, o.oy, o.bl, o.dm = unhx(f[1]), n(2), n(3), n(4), n(5), n(6)
		case f[0] == "AF0" && len(f) == 2:
			o.data = unhx(f[1])
		case (f[0] == "DM" || f[0] == "DU" || f[0] == "CS") && len(f) == 3:
			o.a, o.b = n(1), n(2)
		case f[0] == "LC" && len(f) == 2:
			o.a = n(1)
		case f[0] == "BG" && len(f) == 2:
			v, _ := strconv.ParseUint(f[1], 10, 32)
			o.bg = uint32(v)
		case (f[0] == "IC" || f[0] == "EX" || f[0] == "XM") && len(f) == 2:
			o.data, o.isNil = parseBlob(f[1])
		case f[0] == "AC" && len(f) == 3:
			v, _ := strconv.ParseUint(f[1], 10, 32)
			o.id = uint32(v)
			o.data, o.isNil = parseBlob(f[2])
		default:
			return nil, fmt.Errorf("bad op %q", t)
		}
		out = append(out, o)
	}
	return out, nil
}

// ---------------------------------------------------------------------------------------------
// shadow: what the caller put in, per the documented meaning of each setter

type shadowFrame struct {
	data                 []byte
	dur, ox, oy, bl, dsp int
}

type shadow struct {
	frames                  []shadowFrame
	icc, exif, xmp          []byte
	hasICC, hasEXIF, hasXMP bool
	bg                      uint32
	loop                    int
	cw, ch                  int
}

func clampI(v, lo, hi int) int {
	if v < lo {
		return lo
	}
	if v > hi {
		return hi
	}
	return v
}

func (s *shadow) apply(o muxOp) {
	switch o.kind {
	case "AF", "AF0":
		if len(o.data) == 0 || len(s.frames) >= 10000 {
			return
		}
		f := shadowFrame{data: o.data}
		if o.kind == "AF" {
			f.dur, f.ox, f.oy, f.bl, f.dsp = clampI(o.a, 0, 0xFFFFFF), o.ox, o.oy, o.bl, o.dm
		}
		s.frames = append(s.frames, f)
	case "DM":
		if o.a >= 0 && o.a < len(s.frames) {
			s.frames[o.a].dsp = o.b
		}
	case "DU":
		if o.a >= 0 && o.a < len(s.frames) {
			s.frames[o.a].dur = clampI(o.b, 0, 0xFFFFFF)
		}
	case "LC":
		s.loop = clampI(o.a, 0, 0xFFFF)
	case "CS":
		s.cw, s.ch = o.a, o.b
		if s.cw > 1<<24 {
			s.cw = 1 << 24
		}
		if s.ch > 1<<24 {
			s.ch = 1 << 24
		}
	case "BG":
		s.bg = o.bg
	case "IC":
		s.icc, s.hasICC = o.data, !o.isNil
	case "EX":
		s.exif, s.hasEXIF = o.data, !o.isNil
	case "XM":
		s.xmp, s.hasXMP = o.data, !o.isNil
	case "AC":
		if len(o.data) > 100*1024*1024 {
			return
		}
		switch o.id {
		case mux.FourCCICCP:
			s.icc, s.hasICC = o.data, !o.isNil
		case mux.FourCCEXIF:
			s.exif, s.hasEXIF = o.data, !o.isNil
		case mux.FourCCXMP:
			s.xmp, s.hasXMP = o.data, !o.isNil
		}
	}
}

// splitFrame separates caller-supplied frame data into (alpha payload, has ALPH prefix, bitstream).
func splitFrame(d []byte) (alpha []byte, hasAlph bool, bs []byte) {
	if len(d) >= 8 && string(d[:4]) == "ALPH" {
		n := int(binary.LittleEndian.Uint32(d[4:8]))
		if 8+n <= len(d) {
			rest := 8 + n
			if n%2 == 1 && rest < len(d) {
				rest++
			}
			return d[8 : 8+n], true, d[rest:]
		}
	}
	return nil, false, d
}

// bitstream header: kind 0 = not a bitstream, 1 = VP8 key frame, 2 = VP8L (version 0)
func bsHeader(bs []byte) (kind, w, h int, alphaBit bool) {
	if len(bs) >= 5 && bs[0] == 0x2f {
		bits := binary.LittleEndian.Uint32(bs[1:5])
		if bits>>29 != 0 {
			return 0, 0, 0, false
		}
		return 2, int(bits&0x3fff) + 1, int((bits>>14)&0x3fff) + 1, (bits>>28)&1 != 0
	}
	if len(bs) >= 10 && bs[0]&1 == 0 && bs[3] == 0x9d && bs[4] == 0x01 && bs[5] == 0x2a {
		w := int(binary.LittleEndian.Uint16(bs[6:8])) & 0x3fff
		h := int(binary.LittleEndian.Uint16(bs[8:10])) & 0x3fff
		if w == 0 || h == 0 {
			return 0, 0, 0, false
		}
		return 1, w, h, false
	}
	return 0, 0, 0, false
}

// frameClass: "vp8", "vp8l", "alph+vp8", "alph+vp8l" (all inside the property's domain), "garbage" otherwise.
func frameClass(d []byte) string {
	_, hasAlph, bs := splitFrame(d)
	k, _, _, _ := bsHeader(bs)
	switch {
	case k == 0:
		return "garbage"
	case hasAlph && k == 1:
		return "alph+vp8"
	case hasAlph && k == 2:
		return "alph+vp8l"
	case k == 1:
		return "vp8"
	}
	return "vp8l"
}

func (s *shadow) animated() bool {
	if len(s.frames) > 1 {
		return true
	}
	for _, f := range s.frames {
		if f.dur != 0 || f.ox != 0 || f.oy != 0 || f.bl != 0 || f.dsp != 0 {
			return true
		}
	}
	return false
}

// canvas the caller asked for: the explicit one, else the extent of the frames.
func (s *shadow) canvas() (int, int) {
	if s.cw > 0 && s.ch > 0 {
		return s.cw, s.ch
	}
	mw, mh := 1, 1
	for _, f := range s.frames {
		_, _, bs := splitFrame(f.data)
		_, w, h, _ := bsHeader(bs)
		if f.ox+w > mw {
			mw = f.ox + w
		}
		if f.oy+h > mh {
			mh = f.oy + h
		}
	}
	return mw, mh
}

// ---------------------------------------------------------------------------------------------
// the real muxer

type muxRun struct {
	line   string
	out    []byte
	err    error
	dirty  bool // Assemble returned an error after writing bytes
	nframe int
	// caller-side observations of the hand-over flavours (see runRealMux)
	optsMutated string // AddFrame changed the caller's FrameOptions
	blobsNote   string // the file follows later changes of a handed-over byte slice (retention; not documented either way)
}

// runRealMux drives mux.Muxer. flav is the CALLER's way of handing things over (the shadow and the Lean model have
// value semantics, so every flavour must give the bytes of the plain one):
//
//	""          a fresh &FrameOptions literal per AddFrame, nothing touched afterwards
//	"shared"    ONE FrameOptions variable, overwritten before every AddFrame
//	"scribble"  a fresh struct per AddFrame, overwritten with other values right after AddFrame returns
//	"sharedptr" consecutive AF ops with equal option values are passed the SAME pointer (then DU / DM on one of them
//	            must not reach the other)
//	"blobs"     frame data and metadata blobs are handed over as private copies that are overwritten afterwards
//	            (observation only: retention of byte slices is not documented either way)
func runRealMux(ops []muxOp, flav string) muxRun {
	m := mux.NewMuxer()
	var bits strings.Builder
	var handed [][]byte
	own := func(b []byte) []byte {
		if flav != "blobs" || len(b) == 0 {
			return b
		}
		c := append([]byte(nil), b...)
		handed = append(handed, c)
		return c
	}
	blob := func(o muxOp) []byte {
		if o.isNil {
			return nil
		}
		if o.data == nil {
			return []byte{}
		}
		return own(o.data)
	}
	mutated := ""
	var shared mux.FrameOptions
	var lastPtr *mux.FrameOptions
	var lastVal mux.FrameOptions
	for _, o := range ops {
		var err error
		switch o.kind {
		case "AF":
			want := mux.FrameOptions{Duration: o.a, OffsetX: o.ox, OffsetY: o.oy, BlendMode: mux.BlendMode(o.bl), DisposeMode: mux.DisposeMode(o.dm)}
			var p *mux.FrameOptions
			switch {
			case flav == "shared":
				shared = want
				p = &shared
			case flav == "sharedptr" && lastPtr != nil && lastVal == want:
				p = lastPtr
			default:
				v := want
				p = &v
			}
			err = m.AddFrame(own(o.data), p)
			if *p != want && mutated == "" {
				mutated = fmt.Sprintf("AddFrame was given %+v and left the caller's struct as %+v", want, *p)
			}
			lastPtr, lastVal = p, want
			if flav == "scribble" {
				*p = mux.FrameOptions{Duration: 777, OffsetX: 8, OffsetY: 6, BlendMode: mux.BlendMode(1 - o.bl&1), DisposeMode: mux.DisposeMode(1 - o.dm&1)}
				lastPtr = nil
			}
		case "AF0":
			err = m.AddFrame(own(o.data), nil)
		case "DM":
			m.SetFrameDisposeMode(o.a, mux.DisposeMode(o.b))
		case "DU":
			m.SetFrameDuration(o.a, o.b)
		case "LC":
			m.SetLoopCount(o.a)
		case "CS":
			m.SetCanvasSize(o.a, o.b)
		case "BG":
			m.SetBackgroundColor(o.bg)
		case "IC":
			m.SetICCProfile(blob(o))
		case "EX":
			m.SetEXIF(blob(o))
		case "XM":
			m.SetXMP(blob(o))
		case "AC":
			err = m.AddChunk(o.id, blob(o))
		}
		if err != nil {
			bits.WriteByte('1')
		} else {
			bits.WriteByte('0')
		}
	}
	for _, h := range handed { // the caller reuses its buffers
		for i := range h {
			h[i] ^= 0x5a
		}
	}
	e := bits.String()
	if e == "" {
		e = "-"
	}
	var buf bytes.Buffer
	err := m.Assemble(&buf)
	tail := fmt.Sprintf(" n=%d e=%s", m.NumFrames(), e)
	r := muxRun{out: buf.Bytes(), err: err, nframe: m.NumFrames(), optsMutated: mutated}
	if err != nil {
		cls := "other"
		switch {
		case errors.Is(err, mux.ErrNoFrames):
			cls = "noFrames"
		case errors.Is(err, mux.ErrMuxValidation):
			cls = "validation"
		case errors.Is(err, mux.ErrFrameEmpty):
			cls = "frameEmpty"
		}
		r.dirty = buf.Len() != 0
		r.line = "err " + cls + tail
		return r
	}
	if buf.Len() <= 4096 {
		r.line = "ok hex=" + hx(buf.Bytes()) + tail
	} else {
		r.line = "ok dig=" + digest(buf.Bytes()) + tail
	}
	return r
}

// ---------------------------------------------------------------------------------------------
// generators

type poolFrame struct {
	data []byte
	cls  string
	w, h int
}

type muxPool struct {
	good    []poolFrame // inside the property's domain, no ALPH+VP8L
	alphL   []poolFrame // ALPH-prefixed VP8L
	garbage []poolFrame
}

func buildMuxPool(seed uint64, rich bool) *muxPool {
	r := NewRNG(seed, 0xA11CE)
	p := &muxPool{}
	add := func(dst *[]poolFrame, d []byte) {
		_, _, bs := splitFrame(d)
		_, w, h, _ := bsHeader(bs)
		*dst = append(*dst, poolFrame{d, frameClass(d), w, h})
	}
	both := func(dst *[]poolFrame, d []byte) {
		// both parities of the payload length: a trailing zero byte after a bitstream is inert for the container
		add(dst, d)
		add(dst, append(append([]byte{}, d...), 0))
	}
	sizes := [][2]int{{1, 1}, {2, 3}, {5, 4}, {8, 8}, {13, 7}, {16, 16}}
	if rich {
		sizes = append(sizes, [2]int{31, 17}, [2]int{64, 48})
	}
	for i, sz := range sizes {
		w, h := sz[0], sz[1]
		opaque := rawFrame(r, w, h, true, AlphaNone)
		opaque[4] &^= 0x10 // the encoder always sets the VP8L alpha bit; the container only looks at the header
		both(&p.good, opaque)
		both(&p.good, rawFrame(r, w, h, true, []int{AlphaBinary, AlphaGradient, AlphaNoise}[i%3]))
		vp8 := rawFrame(r, w, h, false, AlphaNone)
		both(&p.good, vp8)
		v, a := lossyWithAlpha(r, w, h, []int{AlphaGradient, AlphaBinary, AlphaNoise}[i%3], nil)
		both(&p.good, alphPrefixed(a, v))
		if len(a) > 1 {
			both(&p.good, alphPrefixed(a[:len(a)-1], v)) // the other parity of the alpha payload
		}
		if i == 0 {
			both(&p.good, alphPrefixed([]byte{}, v)) // zero-length ALPH payload
		}
		l := rawFrame(r, w, h, true, AlphaBinary)
		both(&p.alphL, alphPrefixed(a, l))
	}
	// frames whose headers do not parse: the muxer's validate skips what it cannot size
	vp8 := rawFrame(r, 4, 4, false, AlphaNone)
	vp8l := rawFrame(r, 4, 4, true, AlphaNone)
	mut := func(d []byte, f func([]byte)) []byte { c := append([]byte{}, d...); f(c); return c }
	for _, g := range [][]byte{
		{0}, {1, 2, 3}, r.Bytes(9), r.Bytes(24), []byte("ALPH"), []byte("ALPH\x00\x00\x00\x00"),
		append([]byte("ALPH\x03\x00\x00\x00"), 1, 2, 3),                // ALPH chunk, no bitstream, odd size without pad
		append([]byte("ALPH\xff\xff\xff\xff"), vp8...),                 // ALPH size runs past the data
		append([]byte("ALPH\x02\x00\x00\x00\x01\x02"), r.Bytes(12)...), // ALPH + garbage
		{0x2f}, {0x2f, 0, 0, 0}, // VP8L signature, short
		mut(vp8l, func(c []byte) { c[4] |= 0x20 }),        // VP8L version 1
		mut(vp8, func(c []byte) { c[0] |= 1 }),            // VP8 inter frame
		mut(vp8, func(c []byte) { c[3] = 0 }),             // VP8 bad start code
		mut(vp8, func(c []byte) { c[6], c[7] = 0, 0 }),    // VP8 width 0
		mut(vp8, func(c []byte) { c[8], c[9] = 0, 0xc0 }), // VP8 height 0 after masking the scale bits
		vp8[:9], vp8l[:4],
	} {
		add(&p.garbage, g)
	}
	return p
}

var metaBlobs = [][]byte{
	{}, {7}, []byte("ab"), []byte("xyz"), []byte("RIFF\x10\x00\x00\x00WEBPVP8 "), []byte("ANMF\x04\x00\x00\x00abcdEXIF"),
	[]byte("VP8X\x0a\x00\x00\x00\x3e\x00\x00\x00\x00\x00\x00\x00\x00\x00"), []byte("ALPH\x01\x00\x00\x00\x00"),
	bytes.Repeat([]byte{0xa5}, 255), bytes.Repeat([]byte("XMP "), 64),
}

var oddInts = []int{0, 0, 0, 1, 2, 3, 10, 99, -1, -2, -1000, 0xFFFFFF, 0x1000000, 0x1FFFFFE, 0x1FFFFFF, 0x2000000, 0x2000001,
	math.MaxInt32, math.MaxInt64, math.MinInt64, math.MaxInt64 - 3}

func genMuxOps(r *RNG, p *muxPool) []muxOp {
	var ops []muxOp
	nf := 1 + r.Intn(8)
	if r.Chance(1, 5) {
		nf = 1 // stills (simple and extended) get a fifth of the histories
	}
	if r.Chance(1, 40) {
		nf = 0
	}
	hostile := r.Chance(1, 5) // out-of-range offsets / canvases / frames outside the domain
	pickFrame := func() poolFrame {
		if hostile && r.Chance(1, 6) {
			return p.garbage[r.Intn(len(p.garbage))]
		}
		if r.Chance(1, 25) {
			return p.alphL[r.Intn(len(p.alphL))]
		}
		return p.good[r.Intn(len(p.good))]
	}
	smallOff := func() int {
		switch r.Intn(6) {
		case 0, 1:
			return 0
		case 2:
			return 2 * r.Intn(20)
		case 3:
			return r.Intn(40) // odd or even
		}
		if hostile {
			return oddInts[r.Intn(len(oddInts))]
		}
		return 1 + 2*r.Intn(8)
	}
	durv := func() int {
		switch r.Intn(6) {
		case 0:
			return 0
		case 1, 2:
			return 1 + r.Intn(2000)
		case 3:
			return oddInts[r.Intn(len(oddInts))]
		case 4:
			return 0xFFFFFF - r.Intn(2)
		}
		return r.Intn(1 << 24)
	}
	mode := func() int {
		switch r.Intn(12) {
		case 0:
			return 2
		case 1:
			return -1
		}
		return r.Intn(2)
	}
	blob := func() ([]byte, bool) {
		switch r.Intn(8) {
		case 0:
			return nil, true
		case 1:
			return []byte{}, false
		case 2:
			return r.Bytes(1 + r.Intn(40)), false
		}
		return metaBlobs[r.Intn(len(metaBlobs))], false
	}
	setter := func(nAdded int) muxOp {
		idx := func() int {
			switch r.Intn(8) {
			case 0:
				return -1
			case 1:
				return nAdded + r.Intn(3)
			case 2:
				return oddInts[r.Intn(len(oddInts))]
			}
			if nAdded == 0 {
				return 0
			}
			return r.Intn(nAdded)
		}
		switch r.Intn(12) {
		case 0:
			return muxOp{kind: "DM", a: idx(), b: mode()}
		case 1:
			return muxOp{kind: "DU", a: idx(), b: durv()}
		case 2:
			v := []int{0, 1, 7, 65535, 65536, -1, 70000, math.MaxInt64, math.MinInt64}[r.Intn(9)]
			return muxOp{kind: "LC", a: v}
		case 3:
			return muxOp{kind: "BG", bg: uint32(r.Next())}
		case 4, 5:
			var w, h int
			switch r.Intn(8) {
			case 0:
				w, h = 0, 0
			case 1:
				w, h = 1+r.Intn(4), 1+r.Intn(4) // usually too small
			case 2:
				w, h = 16+r.Intn(64), 16+r.Intn(64)
			case 3:
				w, h = 200+r.Intn(3), 100+r.Intn(3)
			case 4:
				w, h = []int{0, -5, 1 << 24, 1<<24 + 1, math.MaxInt64, 40}[r.Intn(6)], []int{0, 40, 1 << 24, -1}[r.Intn(4)]
			case 5:
				w, h = 1<<15+r.Intn(2), 1<<15 // area 2^30: the limit of container.Parser
			case 6:
				w, h = 16384, 65535+r.Intn(2)
			default:
				w, h = 64, 64
			}
			return muxOp{kind: "CS", a: w, b: h}
		case 6, 7, 8:
			d, n := blob()
			return muxOp{kind: []string{"IC", "EX", "XM"}[r.Intn(3)], data: d, isNil: n}
		case 9, 10:
			d, n := blob()
			id := []uint32{mux.FourCCICCP, mux.FourCCEXIF, mux.FourCCXMP, 0x4e4b4e55, mux.FourCCANIM, mux.FourCCVP8X, 0}[r.Intn(7)]
			return muxOp{kind: "AC", id: id, data: d, isNil: n}
		}
		return muxOp{kind: "LC", a: r.Intn(10)}
	}
	nset := func() int {
		switch r.Intn(4) {
		case 0:
			return 0
		case 1:
			return 1
		}
		return r.Intn(4)
	}
	for k := nset(); k > 0; k-- {
		ops = append(ops, setter(0))
	}
	still := nf == 1 && r.Chance(1, 2)
	for i := 0; i < nf; i++ {
		f := pickFrame()
		switch {
		case still || r.Chance(1, 8):
			ops = append(ops, muxOp{kind: "AF0", data: f.data})
		case r.Chance(1, 8):
			ops = append(ops, muxOp{kind: "AF", data: f.data, a: []int{0, -3}[r.Intn(2)]}) // explicit all-default options
		default:
			ops = append(ops, muxOp{kind: "AF", data: f.data, a: durv(), ox: smallOff(), oy: smallOff(), bl: mode(), dm: mode()})
		}
		if hostile && r.Chance(1, 30) {
			ops = append(ops, muxOp{kind: "AF0", data: nil}) // empty frame: rejected by AddFrame
		}
		for k := nset(); k > 1; k-- {
			ops = append(ops, setter(i+1))
		}
	}
	for k := nset(); k > 0; k-- {
		ops = append(ops, setter(nf))
	}
	return ops
}

// exhaustive small product: {1,2 frames} × {VP8,VP8L} × {alpha,none} × payload parity × metadata subsets × {duration 0,>0}
func exhaustiveMuxOps(p *muxPool) [][]muxOp {
	pick := func(cls string, alpha bool, odd bool) []byte {
		for _, f := range p.good {
			_, _, bs := splitFrame(f.data)
			_, _, _, abit := bsHeader(bs)
			ok := false
			switch {
			case cls == "vp8" && !alpha:
				ok = f.cls == "vp8"
			case cls == "vp8" && alpha:
				ok = f.cls == "alph+vp8"
			case cls == "vp8l":
				ok = f.cls == "vp8l" && abit == alpha
			}
			if ok && (len(bs)%2 == 1) == odd && f.w >= 2 {
				return f.data
			}
		}
		panic("pool lacks " + cls)
	}
	var variants [][]byte
	for _, cls := range []string{"vp8", "vp8l"} {
		for _, alpha := range []bool{false, true} {
			for _, odd := range []bool{false, true} {
				variants = append(variants, pick(cls, alpha, odd))
			}
		}
	}
	var out [][]muxOp
	meta := func(m int) []muxOp {
		var o []muxOp
		if m&1 != 0 {
			o = append(o, muxOp{kind: "IC", data: []byte("icc")})
		}
		if m&2 != 0 {
			o = append(o, muxOp{kind: "EX", data: []byte("ex")})
		}
		if m&4 != 0 {
			o = append(o, muxOp{kind: "XM", data: []byte{}})
		}
		return o
	}
	for m := 0; m < 8; m++ {
		for _, d0 := range []int{0, 40} {
			for _, v0 := range variants {
				one := append(meta(m), muxOp{kind: "AF", data: v0, a: d0})
				out = append(out, one)
				for _, d1 := range []int{0, 70} {
					for _, v1 := range variants {
						two := append(meta(m), muxOp{kind: "AF", data: v0, a: d0}, muxOp{kind: "AF", data: v1, a: d1, ox: 2, bl: 1})
						out = append(out, two)
					}
				}
			}
		}
	}
	return out
}

// canvasRelations: explicit canvases as a function of the frame (fw, fh): equal, one dimension equal and the other
// larger by d, both larger, too small by one in one dimension.
func canvasRelations(fw, fh int) (rel []string, cs [][2]int) {
	add := func(name string, w, h int) {
		rel = append(rel, name)
		cs = append(cs, [2]int{w, h})
	}
	add("equal", fw, fh)
	for _, d := range []int{1, 2, 16} {
		add(fmt.Sprintf("same-w,h+%d", d), fw, fh+d)
		add(fmt.Sprintf("w+%d,same-h", d), fw+d, fh)
		add(fmt.Sprintf("w+%d,h+%d", d, d), fw+d, fh+d)
	}
	add("w-1", fw-1, fh)
	add("h-1", fw, fh-1)
	return
}

func poolByClass(p *muxPool, cls string) []poolFrame {
	var out []poolFrame
	for _, f := range p.good {
		if f.cls == cls {
			out = append(out, f)
		}
	}
	return out
}

// exhaustiveCanvasOps: {AF0, AF all-default, AF duration 40} x {vp8, vp8l, alph+vp8} x {no metadata, EXIF} x
// {no SetCanvasSize, every canvasRelations entry} with the SetCanvasSize call before the frame and as the LAST call.
func exhaustiveCanvasOps(p *muxPool) [][]muxOp {
	var out [][]muxOp
	for _, cls := range []string{"vp8", "vp8l", "alph+vp8"} {
		fs := poolByClass(p, cls)
		if len(fs) == 0 {
			continue
		}
		f := fs[len(fs)/2]
		for _, g := range fs {
			if g.w >= 5 && g.w != g.h {
				f = g
				break
			}
		}
		_, cs := canvasRelations(f.w, f.h)
		for fl := 0; fl < 3; fl++ {
			af := []muxOp{{kind: "AF0", data: f.data}, {kind: "AF", data: f.data}, {kind: "AF", data: f.data, a: 40}}[fl]
			for meta := 0; meta < 2; meta++ {
				var pre []muxOp
				if meta == 1 {
					pre = append(pre, muxOp{kind: "EX", data: []byte("exif!")})
				}
				out = append(out, append(append([]muxOp{}, pre...), af))
				for _, c := range cs {
					set := muxOp{kind: "CS", a: c[0], b: c[1]}
					out = append(out, append(append(append([]muxOp{}, pre...), set), af))
					out = append(out, append(append(append([]muxOp{}, pre...), af), set))
				}
			}
		}
	}
	return out
}

// genCanvasOps: a random history around ONE frame (any good pool frame; nil / default / ordinary options), 0..2
// other setters, and 1..3 SetCanvasSize calls drawn from canvasRelations of that frame, the last of them often
// the last call of the history.
func genCanvasOps(r *RNG, p *muxPool) []muxOp {
	f := p.good[r.Intn(len(p.good))]
	_, cs := canvasRelations(f.w, f.h)
	setCS := func() muxOp {
		c := cs[r.Intn(len(cs))]
		return muxOp{kind: "CS", a: c[0], b: c[1]}
	}
	var ops []muxOp
	other := func() {
		switch r.Intn(5) {
		case 0:
			ops = append(ops, muxOp{kind: "LC", a: r.Intn(3)})
		case 1:
			ops = append(ops, muxOp{kind: "BG", bg: uint32(r.Next())})
		case 2:
			ops = append(ops, muxOp{kind: []string{"IC", "EX", "XM"}[r.Intn(3)], data: metaBlobs[r.Intn(len(metaBlobs))]})
		}
	}
	if r.Bool() {
		ops = append(ops, setCS())
	}
	other()
	switch r.Intn(4) {
	case 0, 1:
		ops = append(ops, muxOp{kind: "AF0", data: f.data})
	case 2:
		ops = append(ops, muxOp{kind: "AF", data: f.data})
	default:
		ops = append(ops, muxOp{kind: "AF", data: f.data, a: 30 * r.Intn(3), bl: r.Intn(2), dm: r.Intn(2)})
	}
	if r.Chance(1, 3) {
		ops = append(ops, setCS())
	}
	if r.Chance(1, 3) {
		other()
	}
	ops = append(ops, setCS())
	if r.Chance(1, 4) {
		other()
	}
	return ops
}

type flavOps struct {
	ops  []muxOp
	flav string
}

// exhaustiveHandoverOps: two frames (equal or different option values; durations in and out of the clamped range)
// x hand-over flavour {fresh, shared, scribble, sharedptr} x later edit {none, DU on frame 0, DM on frame 1}.
func exhaustiveHandoverOps(p *muxPool) []flavOps {
	var out []flavOps
	fs := poolByClass(p, "vp8")
	ls := poolByClass(p, "vp8l")
	if len(fs) == 0 || len(ls) == 0 {
		return nil
	}
	a, b := fs[0].data, ls[0].data
	type opt struct{ dur, ox, bl, dm int }
	sets := [][2]opt{{{40, 0, 0, 0}, {40, 0, 0, 0}}, {{40, 0, 0, 0}, {70, 2, 1, 1}}, {{-3, 0, 0, 0}, {1 << 24, 0, 1, 0}}, {{0, 0, 0, 0}, {0, 0, 0, 0}}, {{0x1000000, 2, 0, 1}, {5, 2, 0, 1}}}
	for _, st := range sets {
		for _, flav := range []string{"", "shared", "scribble", "sharedptr"} {
			for edit := 0; edit < 3; edit++ {
				ops := []muxOp{{kind: "AF", data: a, a: st[0].dur, ox: st[0].ox, bl: st[0].bl, dm: st[0].dm},
					{kind: "AF", data: b, a: st[1].dur, ox: st[1].ox, bl: st[1].bl, dm: st[1].dm}}
				switch edit {
				case 1:
					ops = append(ops, muxOp{kind: "DU", a: 0, b: 990})
				case 2:
					ops = append(ops, muxOp{kind: "DM", a: 1, b: 1 - st[1].dm})
				}
				out = append(out, flavOps{ops, flav})
			}
		}
	}
	return out
}

// ---------------------------------------------------------------------------------------------
// property checks on the real implementation

func sameBytes(a, b []byte) bool { return bytes.Equal(a, b) }

// expectedLayout is the canonical walker line for what the caller put in (empty when the inputs are outside the domain).
func expectedLayout(s *shadow, simple bool) string {
	anim := s.animated()
	cw, ch := s.canvas()
	alpha := false
	var frs []string
	for _, f := range s.frames {
		a, hasA, bs := splitFrame(f.data)
		k, w, h, abit := bsHeader(bs)
		if hasA || abit {
			alpha = true
		}
		ox, oy, dur, bl, dsp := 0, 0, 0, false, false
		if anim {
			ox, oy, dur, bl, dsp = f.ox/2*2, f.oy/2*2, f.dur, f.bl == 1, f.dsp == 1
		}
		as := "nil"
		if hasA {
			as = digest(a)
		}
		frs = append(frs, fmt.Sprintf("%d,%d,%d,%d,%d,%s,%s,%s,%s,%s", ox, oy, w, h, dur, b2s(bl), b2s(dsp), b2s(k == 2), as, digest(bs)))
	}
	loop, bg := 0, uint32(0)
	if anim {
		loop, bg = s.loop, s.bg
	}
	opt := func(b []byte, has bool) string {
		if !has {
			return "nil"
		}
		return digest(b)
	}
	return fmt.Sprintf("ok ext=%s cw=%d ch=%d alpha=%s anim=%s loop=%d bg=%d icc=%s exif=%s xmp=%s frames=[%s]",
		b2s(!simple), cw, ch, b2s(alpha), b2s(anim), loop, bg, opt(s.icc, s.hasICC), opt(s.exif, s.hasEXIF), opt(s.xmp, s.hasXMP),
		strings.Join(frs, ";"))
}

// checkRoundTrip compares what the Go demuxer / parser / GetFeatures report for `file` with the shadow.
// It returns a list of (signature, detail).
func checkRoundTrip(s *shadow, file []byte) [][2]string {
	var bad [][2]string
	fail := func(sig, format string, a ...any) { bad = append(bad, [2]string{sig, fmt.Sprintf(format, a...)}) }
	anim := s.animated()
	cw, ch := s.canvas()
	d, err := mux.NewDemuxer(file)
	if err != nil {
		fail("demux-rejects", "NewDemuxer: %v", err)
	} else {
		ft := d.GetFeatures()
		if ft.Width != cw || ft.Height != ch {
			fail("canvas-changed", "canvas put in %dx%d, demuxer reports %dx%d (format %v)", cw, ch, ft.Width, ft.Height, ft.Format)
		}
		if ft.HasAnimation != anim {
			fail("anim-flag", "animated=%v, demuxer HasAnimation=%v", anim, ft.HasAnimation)
		}
		if d.NumFrames() != len(s.frames) {
			fail("frame-count", "%d frames in, %d out", len(s.frames), d.NumFrames())
		} else {
			for i, f := range s.frames {
				a, hasA, bs := splitFrame(f.data)
				_, w, h, _ := bsHeader(bs)
				fi, _ := d.Frame(i)
				if !sameBytes(fi.Data, bs) {
					fail("bitstream-changed", "frame %d bitstream %s -> %s", i, digest(bs), digest(fi.Data))
				}
				if (fi.AlphaData != nil) != hasA || !sameBytes(fi.AlphaData, a) {
					fail("alpha-changed", "frame %d alpha %v/%s -> %v/%s", i, hasA, digest(a), fi.AlphaData != nil, digest(fi.AlphaData))
				}
				if fi.Width != w || fi.Height != h {
					fail("frame-size", "frame %d %dx%d -> %dx%d", i, w, h, fi.Width, fi.Height)
				}
				if anim {
					if fi.OffsetX != f.ox/2*2 || fi.OffsetY != f.oy/2*2 {
						fail("offset-changed", "frame %d offset (%d,%d) -> (%d,%d)", i, f.ox, f.oy, fi.OffsetX, fi.OffsetY)
					}
					if fi.Duration != f.dur {
						fail("duration-changed", "frame %d duration %d -> %d", i, f.dur, fi.Duration)
					}
					if (fi.BlendMode == mux.BlendNone) != (f.bl == 1) || (fi.DisposeMode == mux.DisposeBackground) != (f.dsp == 1) {
						fail("flags-changed", "frame %d blend/dispose %d/%d -> %d/%d", i, f.bl, f.dsp, fi.BlendMode, fi.DisposeMode)
					}
				}
			}
		}
		if anim && (d.LoopCount() != s.loop || d.BackgroundColor() != s.bg) {
			fail("anim-params", "loop/bg %d/%d -> %d/%d", s.loop, s.bg, d.LoopCount(), d.BackgroundColor())
		}
		for _, m := range []struct {
			id   mux.ChunkID
			b    []byte
			has  bool
			name string
		}{{mux.FourCCICCP, s.icc, s.hasICC, "icc"}, {mux.FourCCEXIF, s.exif, s.hasEXIF, "exif"}, {mux.FourCCXMP, s.xmp, s.hasXMP, "xmp"}} {
			got, gerr := d.GetChunk(m.id)
			if (gerr == nil) != m.has || !sameBytes(got, m.b) {
				fail("metadata-"+m.name, "%s put in %v/%s, read back %v/%s", m.name, m.has, digest(m.b), gerr == nil, digest(got))
			}
		}
		if ft.HasICC != s.hasICC || ft.HasEXIF != s.hasEXIF || ft.HasXMP != s.hasXMP {
			fail("metadata-flags", "flags icc/exif/xmp %v/%v/%v for blobs %v/%v/%v", ft.HasICC, ft.HasEXIF, ft.HasXMP, s.hasICC, s.hasEXIF, s.hasXMP)
		}
	}
	// the second parser must report the same structure
	p, perr := verifapi.NewContainerParser(file)
	switch {
	case perr != nil && err == nil:
		fail("parsers-disagree:parser-"+containerErrName(perr), "NewDemuxer accepts, container.NewParser: %v", perr)
	case perr == nil && err != nil:
		fail("parsers-disagree:demuxer-"+muxErrName(err), "container.NewParser accepts, NewDemuxer: %v", err)
	case perr == nil && err == nil:
		pf := p.Features()
		df := d.GetFeatures()
		if pf.CanvasWidth != df.Width || pf.CanvasHeight != df.Height || pf.HasAnim != df.HasAnimation ||
			pf.HasICCP != df.HasICC || pf.HasEXIF != df.HasEXIF || pf.HasXMP != df.HasXMP || pf.HasAlpha != df.HasAlpha {
			fail("parsers-disagree", "features: parser %+v demuxer %+v", pf, df)
		}
		if len(p.Frames()) != d.NumFrames() {
			fail("parsers-disagree", "frame count: parser %d demuxer %d", len(p.Frames()), d.NumFrames())
		} else {
			for i, pfr := range p.Frames() {
				fi, _ := d.Frame(i)
				if pfr.XOffset != fi.OffsetX || pfr.YOffset != fi.OffsetY || pfr.Width != fi.Width || pfr.Height != fi.Height ||
					pfr.Duration != fi.Duration || int(pfr.DisposeMethod) != int(fi.DisposeMode) || int(pfr.BlendMethod) != int(fi.BlendMode) ||
					!sameBytes(pfr.Payload, fi.Data) || !sameBytes(pfr.AlphaData, fi.AlphaData) || (pfr.AlphaData != nil) != (fi.AlphaData != nil) ||
					// per-frame HasAlpha is derived; the two parsers differ on a zero-length ALPH payload (not a structural field)
					(pfr.HasAlpha != fi.HasAlpha && !(fi.AlphaData != nil && len(fi.AlphaData) == 0)) {
					fail("parsers-disagree", "frame %d: parser {%d %d %d %d %d %d %d %s %s %v} demuxer {%d %d %d %d %d %d %d %s %s %v}", i,
						pfr.XOffset, pfr.YOffset, pfr.Width, pfr.Height, pfr.Duration, pfr.DisposeMethod, pfr.BlendMethod, digest(pfr.Payload), digestOpt(pfr.AlphaData), pfr.HasAlpha,
						fi.OffsetX, fi.OffsetY, fi.Width, fi.Height, fi.Duration, fi.DisposeMode, fi.BlendMode, digest(fi.Data), digestOpt(fi.AlphaData), fi.HasAlpha)
				}
			}
		}
		if pf.HasAnim && (pf.LoopCount != d.LoopCount() || pf.BGColor != d.BackgroundColor()) {
			fail("parsers-disagree", "loop/bg: parser %d/%d demuxer %d/%d", pf.LoopCount, pf.BGColor, d.LoopCount(), d.BackgroundColor())
		}
	}
	gf, gerr := webp.GetFeatures(bytes.NewReader(file))
	if gerr != nil {
		if perr == nil {
			fail("getfeatures-rejects", "GetFeatures: %v", gerr)
		}
	} else if gf.FrameCount != len(s.frames) || gf.HasAnimation != anim {
		fail("getfeatures", "GetFeatures frames=%d anim=%v for %d frames anim=%v", gf.FrameCount, gf.HasAnimation, len(s.frames), anim)
	}
	return bad
}

type muxCase struct {
	ops    []muxOp
	kind   string
	flav   string // how the caller hands things over: "" fresh literals | shared | scribble | sharedptr | blobs
	run    muxRun
	sh     *shadow
	domain bool // every frame is a VP8 / VP8L bitstream, bare or ALPH-prefixed
	hasAL  bool // some frame is ALPH + VP8L
	wfLine int  // index of the riffwf line, -1 if none
}

func evalMuxCases(rep *Report, cases []*muxCase) error {
	var lines []string
	for _, c := range cases {
		c.run = runRealMux(c.ops, c.flav)
		if c.flav == "blobs" {
			// observation, not a finding: does the file follow changes made to a slice after it was handed over?
			plain := runRealMux(c.ops, "")
			if plain.line != c.run.line {
				plain.blobsNote = "retained"
			}
			c.run = plain
		}
		c.sh = &shadow{}
		for _, o := range c.ops {
			c.sh.apply(o)
		}
		c.domain = true
		for _, f := range c.sh.frames {
			switch frameClass(f.data) {
			case "garbage":
				c.domain = false
			case "alph+vp8l":
				c.hasAL = true
			}
		}
		lines = append(lines, "mux "+opsString(c.ops))
		c.wfLine = -1
		if c.run.err == nil {
			c.wfLine = len(lines)
			lines = append(lines, "riffwf "+hx(c.run.out))
		}
	}
	lean, err := RunDriver(lines)
	if err != nil {
		return err
	}
	li := 0
	for _, c := range cases {
		ops := opsString(c.ops)
		in := map[string]any{"op": "mux", "ops": ops}
		if c.flav != "" {
			in["flavour"] = c.flav
			rep.Count("handover:" + c.flav)
		}
		if c.run.blobsNote != "" {
			rep.Count("handover:blobs:file-follows-later-changes-of-the-slice(undocumented retention)")
		}
		if c.run.optsMutated != "" {
			rep.Add(Finding{Kind: "property", Property: "C14", Signature: "mux-api:addframe-mutates-options",
				Detail: fmt.Sprintf("(%s, %s hand-over) %s: the caller's FrameOptions must be read, not written", c.kind, map[string]string{"": "fresh"}[c.flav]+c.flav, c.run.optsMutated), Input: in})
		}
		muxLean := lean[li]
		li++
		if muxLean != c.run.line {
			rep.Add(Finding{Kind: "correspondence", Signature: "mux-model:assemble",
				Detail: fmt.Sprintf("(%s%s) go=%q lean=%q", c.kind, map[bool]string{true: ", caller hand-over " + c.flav, false: ""}[c.flav != ""], short(c.run.line, 300), short(muxLean, 300)), Input: in})
		}
		if muxLean == "panic" || muxLean == "hang" {
			rep.Add(Finding{Kind: "correspondence", Signature: "mux-model:" + muxLean, Detail: "model reports " + muxLean, Input: in})
		}
		rep.Count("kind:" + c.kind)
		rep.Count(fmt.Sprintf("frames:%d", len(c.sh.frames)))
		if c.run.err != nil {
			rep.Count("assemble:" + strings.SplitN(c.run.line, " ", 3)[1])
			if c.run.dirty {
				rep.Add(Finding{Kind: "property", Property: "C14", Signature: "mux.Assemble:error-after-write",
					Detail: fmt.Sprintf("Assemble returned %v after writing %d bytes", c.run.err, len(c.run.out)), Input: in})
			}
			rep.Eval(len(c.sh.frames) > 0, []byte(ops))
			continue
		}
		wf := lean[li]
		li++
		simple := len(c.run.out) > 16 && string(c.run.out[12:16]) != "VP8X"
		form := "simple"
		if !simple {
			form = "ext-still"
			if c.sh.animated() {
				form = "animated"
			}
		}
		rep.Count("assemble:ok:" + form)
		m := 0
		if c.sh.hasICC {
			m |= 1
		}
		if c.sh.hasEXIF {
			m |= 2
		}
		if c.sh.hasXMP {
			m |= 4
		}
		rep.Count(fmt.Sprintf("meta:%d", m))
		for _, f := range c.sh.frames {
			rep.Count("frame:" + frameClass(f.data) + fmt.Sprintf(":parity%d", len(f.data)%2))
		}
		rep.Eval(true, []byte(ops))
		if !c.domain {
			// outside the property's domain (some frame is not a bitstream): only recorded
			st := "readable"
			if _, e := mux.NewDemuxer(c.run.out); e != nil {
				st = "unreadable"
			}
			rep.Count("outside-domain:accepted:" + st)
			continue
		}
		cls := ""
		if c.hasAL {
			cls = ":alph+vp8l"
		}
		for _, b := range checkRoundTrip(c.sh, c.run.out) {
			sig := b[0]
			if sig == "canvas-changed" && simple {
				sig += ":simple-format"
			}
			rep.Add(Finding{Kind: "property", Property: "C14", Signature: "mux-roundtrip:" + sig + cls, Detail: b[1], Input: in})
		}
		if !strings.HasPrefix(wf, "ok ") {
			rep.Add(Finding{Kind: "property", Property: "C14", Signature: "riff-walker-rejects:" + strings.TrimPrefix(wf, "err ") + cls,
				Detail: "the assembled file is not a well-formed container: " + wf, Input: in})
		} else if exp := expectedLayout(c.sh, simple); exp != wf {
			sig := "riff-walker-layout"
			if simple {
				sig += ":simple-format"
			}
			rep.Add(Finding{Kind: "property", Property: "C14", Signature: sig + cls,
				Detail: fmt.Sprintf("layout put in %q, layout in the file %q", short(exp, 400), short(wf, 400)), Input: in})
		}
	}
	return nil
}

func suiteMux(rep *Report) error {
	rich := rep.Tier == "thorough"
	pool := buildMuxPool(rep.Seed, rich)
	rep.Rule = "random Muxer call sequences (0..8 frames from a pool of real VP8 / VP8L / ALPH+VP8 bitstreams of both payload parities, " +
		"plus ALPH+VP8L and unparseable frames; options incl. odd/negative/huge offsets and durations, out-of-range modes; " +
		"setters and retroactive edits in random order with in/out-of-range indices; canvas explicit/implicit/too small/huge; " +
		"every metadata subset incl. empty non-nil and chunk-like blobs, via Set* and AddChunk), an exhaustive small product, an exhaustive product {one frame: nil / default / duration options} x {vp8, vp8l, alph+vp8} x {no metadata, EXIF} x explicit canvas DERIVED FROM THE FRAME (equal, one dimension equal and the other +1/+2/+16, both larger, one too small by one; set before the frame and as the last call) plus 400 random one-frame histories with such canvases; caller hand-over flavours on a third of the random histories and exhaustively on two-frame histories: one FrameOptions variable reused for every AddFrame, the struct overwritten after AddFrame returns, the same pointer for two frames followed by SetFrameDuration / SetFrameDisposeMode on one of them (bytes must equal the value-semantics model; mux-api:addframe-mutates-options: AddFrame must not write to the caller's struct), byte slices overwritten after hand-over (counted only: retention of slices is undocumented); " +
		"each sequence runs on mux.Muxer and on the Lean model (bytes compared), accepted files go through mux.NewDemuxer, " +
		"container.NewParser, webp.GetFeatures and the Lean RIFF walker; plus a probe of the metadata cap (SetICCProfile with exactly 100 MiB: Assemble must succeed and NewDemuxer / GetChunk / container.NewParser must read the blob back; 100 MiB + 1: a validation error before anything is written); non-trivial = at least one frame was added; distinct = FNV of the op string"
	n := 4000
	if rich {
		n = 150000
	}
	var cases []*muxCase
	for _, ops := range exhaustiveMuxOps(pool) {
		cases = append(cases, &muxCase{ops: ops, kind: "exhaustive"})
	}
	// exhaustive: one still frame x codec x metadata x explicit canvas derived from the frame
	for _, ops := range exhaustiveCanvasOps(pool) {
		cases = append(cases, &muxCase{ops: ops, kind: "exhaustive-canvas"})
	}
	// exhaustive: two frames x how the caller hands the options over x a later edit of one frame
	for _, fo := range exhaustiveHandoverOps(pool) {
		cases = append(cases, &muxCase{ops: fo.ops, kind: "exhaustive-handover", flav: fo.flav})
	}
	rep.Exhaustive = true
	flavs := []string{"shared", "scribble", "sharedptr", "blobs", "shared", "scribble"}
	for i := 0; i < n; i++ {
		r := NewRNG(rep.Seed, uint64(9000000+i))
		c := &muxCase{ops: genMuxOps(r, pool), kind: "random"}
		if i%3 == 2 { // a third of the histories: the caller reuses what it passed in
			c.flav = flavs[(i/3)%len(flavs)]
		}
		cases = append(cases, c)
	}
	// random histories of ONE frame whose canvas setters are derived from that frame
	nCanvas := 400
	if rich {
		nCanvas = 8000
	}
	for i := 0; i < nCanvas; i++ {
		r := NewRNG(rep.Seed, uint64(9800000+i))
		cases = append(cases, &muxCase{ops: genCanvasOps(r, pool), kind: "random-canvas"})
	}
	// evaluate in batches to bound memory
	const batch = 20000
	for i := 0; i < len(cases); i += batch {
		j := mini(i+batch, len(cases))
		if err := evalMuxCases(rep, cases[i:j]); err != nil {
			return err
		}
		for k := i; k < j; k++ {
			if k%997 == 0 {
				rep.Sample(map[string]any{"ops": short(opsString(cases[k].ops), 300), "result": short(cases[k].run.line, 120)})
			}
			cases[k] = nil
		}
	}
	probeOversizeMetadata(rep)
	// shortest inputs first per signature
	sortFindingsBy(rep, "ops")
	return nil
}

func sortFindingsBy(rep *Report, key string) {
	fs := rep.Findings
	for i := 1; i < len(fs); i++ {
		for j := i; j > 0; j-- {
			a, _ := fs[j-1].Input[key].(string)
			b, _ := fs[j].Input[key].(string)
			if len(b) < len(a) {
				fs[j-1], fs[j] = fs[j], fs[j-1]
			} else {
				break
			}
		}
	}
}

// replayMux re-executes one op sequence on the real muxer and on the model.
func replayMux(in map[string]any) int {
	s, _ := in["ops"].(string)
	ops, err := parseMuxOps(s)
	if err != nil {
		fmt.Println(err)
		return 2
	}
	rep := NewReport("mux", "replay", 0)
	c := &muxCase{ops: ops, kind: "replay"}
	if fl, ok := in["flavour"].(string); ok {
		c.flav = fl
	}
	if err := evalMuxCases(rep, []*muxCase{c}); err != nil {
		fmt.Println(err)
		return 2
	}
	fmt.Printf("go:   %s\n", short(c.run.line, 400))
	for _, f := range rep.Findings {
		fmt.Printf("%s %s %s: %s\n", f.Kind, f.Property, f.Signature, f.Detail)
	}
	if len(rep.Findings) > 0 {
		return 1
	}
	return 0
}
