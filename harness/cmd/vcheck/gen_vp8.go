package main

import (
	"fmt"
	"sync"

	"github.com/deepteams/webp/verifapi"
)

// Synthetic VP8 key-frame writer for suite vp8: a boolean ENCODER (RFC 6386 §7.3) and a syntax
// writer (§19.2, §19.3, §13) driven by a random "plan". It is written from the RFC in the RFC's
// mode numbering and shares no code with /repo; only the constant probability tables are taken
// from the Go decoder (they are cross-checked against the Lean tables by op vp8tables).
//
// What the plans cover that the Go encoder never emits: segment maps with per-segment
// absolute/delta quantiser and filter values (incl. out-of-range sums), segmentation enabled
// without segment data, simple/normal filter with reference/mode deltas and any sharpness,
// 1/2/4/8 partitions (also more partitions than macroblock rows, and empty ones), skip flags on or
// off with any probability, all 5 luma / 10 sub-block / 4 chroma modes uniformly at every edge
// position, arbitrary token strings incl. categories 3..6, runs of 16 zero tokens, coefficient
// probability updates (incl. probability 0), versions 0..3, scaling bits, colour-space/clamp bits.

// ---- boolean encoder (RFC 6386 §7.3) ----

type boolEnc struct {
	out      []byte
	rng      uint32
	bottom   uint32
	bitCount int
	nbools   int
}

func newBoolEnc() *boolEnc { return &boolEnc{rng: 255, bitCount: 24} }

func (e *boolEnc) addOne() {
	i := len(e.out) - 1
	for i >= 0 && e.out[i] == 255 {
		e.out[i] = 0
		i--
	}
	if i >= 0 {
		e.out[i]++
	}
}

func (e *boolEnc) put(prob int, b bool) {
	e.nbools++
	split := 1 + (((e.rng - 1) * uint32(prob)) >> 8)
	if b {
		e.bottom += split
		e.rng -= split
	} else {
		e.rng = split
	}
	for e.rng < 128 {
		e.rng <<= 1
		if e.bottom&(1<<31) != 0 {
			e.addOne()
		}
		e.bottom <<= 1
		e.bitCount--
		if e.bitCount == 0 {
			e.out = append(e.out, byte(e.bottom>>24))
			e.bottom &= (1 << 24) - 1
			e.bitCount = 8
		}
	}
}

func (e *boolEnc) flush() []byte {
	c := e.bitCount
	v := e.bottom
	if v&(1<<uint(32-c)) != 0 {
		e.addOne()
	}
	v <<= uint(c & 7)
	c >>= 3
	for c--; c >= 0; c-- {
		v <<= 8
	}
	for c = 3; c >= 0; c-- {
		e.out = append(e.out, byte(v>>24))
		v <<= 8
	}
	return e.out
}

func (e *boolEnc) flag(b bool) { e.put(128, b) }

func (e *boolEnc) literal(n int, v int) {
	for i := n - 1; i >= 0; i-- {
		e.put(128, (v>>uint(i))&1 == 1)
	}
}

// signed: n magnitude bits, then the sign
func (e *boolEnc) signed(n int, v int) {
	m := v
	if m < 0 {
		m = -m
	}
	e.literal(n, m)
	e.flag(v < 0)
}

// optSigned: presence flag, then signed
func (e *boolEnc) optSigned(n int, present bool, v int) {
	e.flag(present)
	if present {
		e.signed(n, v)
	}
}

// tree writes leaf `leaf` of an RFC-style tree (pairs of entries, <= 0 = leaf -value) starting at node start.
func (e *boolEnc) tree(t []int, probs func(node int) int, leaf int, start int) {
	path := treePath(t, leaf, start)
	i := start
	for _, b := range path {
		e.put(probs(i>>1), b)
		k := i
		if b {
			k++
		}
		i = t[k]
	}
}

func treePath(t []int, leaf, start int) []bool {
	var rec func(i int) ([]bool, bool)
	rec = func(i int) ([]bool, bool) {
		for b := 0; b < 2; b++ {
			n := t[i+b]
			if n <= 0 {
				if -n == leaf {
					return []bool{b == 1}, true
				}
				continue
			}
			if p, ok := rec(n); ok {
				return append([]bool{b == 1}, p...), true
			}
		}
		return nil, false
	}
	p, ok := rec(start)
	if !ok {
		panic(fmt.Sprintf("treePath: leaf %d not below node %d", leaf, start))
	}
	return p
}

// ---- trees and tables, RFC numbering ----

var (
	vp8SegmentTree = []int{2, 4, 0, -1, -2, -3}
	vp8KfYModeTree = []int{-4, 2, 4, 6, 0, -1, -2, -3} // DC 0, V 1, H 2, TM 3, B_PRED 4
	vp8UVModeTree  = []int{0, 2, -1, 4, -2, -3}
	vp8BModeTree   = []int{0, 2, -1, 4, -2, 6, 8, 12, -3, 10, -5, -6, -4, 14, -7, 16, -8, -9}
	vp8CoeffTree   = []int{-11, 2, 0, 4, -1, 6, 8, 12, -2, 10, -3, -4, 14, 16, -5, -6, 18, 20, -7, -8, -9, -10}
	// RFC sub-block mode index -> libwebp index (… LD 4, RD 5, VR 6 … ↔ … RD 4, VR 5, LD 6 …)
	vp8RFCToGoBMode = [10]int{0, 1, 2, 3, 6, 4, 5, 7, 8, 9}
	vp8CatBase      = []int{5, 7, 11, 19, 35, 67}
	vp8CatProbs     = [][]int{{159}, {165, 145}, {173, 148, 140}, {176, 155, 140, 135}, {180, 157, 141, 134, 130},
		{254, 254, 243, 230, 196, 177, 153, 140, 133, 130, 129}}
)

type vp8Tabs struct {
	coeff, upd, bmodeRFC, bands, zigzag, dc, ac []int
}

var (
	vp8TabsOnce sync.Once
	vp8TabsVal  vp8Tabs
)

// vp8BModeRFC re-indexes Go's KBModesProba ([top][left][9], libwebp numbering) to RFC numbering.
func vp8BModeRFC(goTab []int) []int {
	out := make([]int, 0, 900)
	for a := 0; a < 10; a++ {
		for l := 0; l < 10; l++ {
			for i := 0; i < 9; i++ {
				out = append(out, goTab[(vp8RFCToGoBMode[a]*10+vp8RFCToGoBMode[l])*9+i])
			}
		}
	}
	return out
}

func vp8Tables() *vp8Tabs {
	vp8TabsOnce.Do(func() {
		t := verifapi.VP8Tables()
		vp8TabsVal = vp8Tabs{coeff: t["coeff"], upd: t["upd"], bmodeRFC: vp8BModeRFC(t["bmode"]), bands: t["bands"], zigzag: t["zigzag"], dc: t["dc"], ac: t["ac"]}
	})
	return &vp8TabsVal
}

// ---- plan ----

type vp8MBPlan struct {
	segment, ymode, uvmode int
	skip                   bool
	bmodes                 [16]int
	// tokens[b] for b = 0..15 Y, 16..19 U, 20..23 V, 24 Y2: the signed token values in scan order
	// starting at the block's first position; len = eob - first. A nil slice is an immediate EOB.
	tokens [25][]int
}

type vp8Plan struct {
	w, h, xs, ys, version       int
	colorSpace, clampType       bool
	segEnabled, segMap, segData bool
	segAbs                      bool
	segQPresent, segLPresent    [4]bool
	segQ, segL                  [4]int
	segProbPresent              [3]bool
	segProb                     [3]int
	simple                      bool
	level, sharp                int
	lfDelta, lfUpdate           bool
	refPresent, modePresent     [4]bool
	ref, mode                   [4]int
	log2parts                   int
	q                           int
	dqPresent                   [5]bool
	dq                          [5]int
	refresh                     bool
	probUpd                     map[int]int // flat index -> new probability
	skipEnabled                 bool
	pskip                       int
	mbs                         []vp8MBPlan
	emptyUnusedParts            bool
	unbounded                   bool
	// padPart >= 0: the non-final token partition padPart is followed by unread bytes so that its
	// declared size is padTo (>= 0x010000: the third byte of the 24-bit size field is non-zero)
	padPart, padTo int
	padSeed        uint64
}

// valueLimits returns, per segment, the largest token magnitude for Y, Y2 and chroma blocks such that
// magnitude x dequantisation factor <= 1023, under either reading of the segment quantiser
// (absolute or added to the frame's).
func (p *vp8Plan) valueLimits() [4][3]int {
	t := vp8Tables()
	var out [4][3]int
	cl := func(v int) int {
		if v < 0 {
			return 0
		}
		if v > 127 {
			return 127
		}
		return v
	}
	d := func(i int) int {
		if p.dqPresent[i] {
			return p.dq[i]
		}
		return 0
	}
	for s := 0; s < 4; s++ {
		out[s] = [3]int{1 << 20, 1 << 20, 1 << 20}
		if p.unbounded {
			continue
		}
		qs := []int{p.q}
		if p.segEnabled {
			v := 0
			if p.segData && p.segQPresent[s] {
				v = p.segQ[s]
			}
			qs = []int{v, p.q + v}
		}
		for _, q := range qs {
			y := maxi(t.dc[cl(q+d(0))], t.ac[cl(q)])
			y2 := maxi(2*t.dc[cl(q+d(1))], maxi(8, t.ac[cl(q+d(2))]*155/100))
			uv := maxi(t.dc[cl(q+d(3))], t.ac[cl(q+d(4))])
			out[s][0] = mini(out[s][0], 1023/y)
			out[s][1] = mini(out[s][1], 1023/y2)
			out[s][2] = mini(out[s][2], 1023/uv)
		}
	}
	return out
}

func (p *vp8Plan) mbW() int { return (p.w + 15) / 16 }
func (p *vp8Plan) mbH() int { return (p.h + 15) / 16 }

func impliedB(ymode int) int {
	switch ymode {
	case 1:
		return 2 // V_PRED -> B_VE_PRED
	case 2:
		return 3 // H_PRED -> B_HE_PRED
	case 3:
		return 1 // TM_PRED -> B_TM_PRED
	}
	return 0
}

// randTokenValue draws a signed token value of magnitude <= limit; big selects the heavy-tailed distribution.
func randTokenValue(r *RNG, big bool, limit int) int {
	var m int
	k := r.Intn(100)
	switch {
	case k < 35:
		m = 0
	case k < 65:
		m = 1
	case k < 80:
		m = 2 + r.Intn(3)
	case k < 88:
		m = 5 + r.Intn(6) // cat1, cat2
	default:
		if !big {
			m = 1 + r.Intn(4)
			break
		}
		switch r.Intn(6) {
		case 0, 1:
			m = 11 + r.Intn(8) // cat3
		case 2:
			m = 19 + r.Intn(16) // cat4
		case 3:
			m = 35 + r.Intn(32) // cat5
		case 4:
			m = 67 + r.Intn(2048) // cat6, up to 2114
		default:
			m = r.Pick([]int{2048, 2047, 2114, 67, 66, 34, 18, 10})
		}
	}
	if m > limit {
		m = limit
	}
	if m != 0 && r.Bool() {
		return -m
	}
	return m
}

// randBlock draws the tokens of one block whose first position is `first`.
func randBlock(r *RNG, first int, density int, big bool, limit int) []int {
	if r.Intn(100) >= density {
		return nil
	}
	if r.Chance(1, 60) { // a run of zero tokens to position 16: "coded" but all coefficients 0
		return make([]int, 16-first)
	}
	n := 1 + r.Intn(16-first)
	if r.Chance(1, 2) {
		n = 1 + r.Intn(mini(3, 16-first))
	}
	t := make([]int, n)
	for i := range t {
		t[i] = randTokenValue(r, big, limit)
	}
	if first+n < 16 && t[n-1] == 0 { // an end-of-block cannot follow a zero token
		t[n-1] = 1 - 2*r.Intn(2)
	}
	return t
}

// SynVP8Plan draws a random plan.
func SynVP8Plan(r *RNG, tier string) *vp8Plan {
	p := &vp8Plan{probUpd: map[int]int{}, padPart: -1}
	switch r.Intn(10) {
	case 0:
		p.w, p.h = 1+r.Intn(16), 1+r.Intn(16)
	case 1, 2, 3:
		p.w, p.h = 1+r.Intn(48), 1+r.Intn(48)
	case 4:
		p.w, p.h = 16*(1+r.Intn(4)), 16*(1+r.Intn(4))
	case 5:
		p.w, p.h = 1+r.Intn(160), 1+r.Intn(16)
	case 6:
		p.w, p.h = 1+r.Intn(16), 1+r.Intn(160)
	default:
		p.w, p.h = 17+r.Intn(48), 17+r.Intn(48)
	}
	if tier == "thorough" && r.Chance(1, 200) {
		p.w, p.h = 280+r.Intn(40), 280+r.Intn(40)
	}
	p.xs, p.ys = r.Intn(4), r.Intn(4)
	if r.Chance(3, 4) {
		p.xs, p.ys = 0, 0
	}
	if r.Chance(1, 3) {
		p.version = r.Intn(4)
	}
	p.colorSpace, p.clampType = r.Chance(1, 8), r.Chance(1, 4)
	sv := func(max int) int { // signed header value, mostly small
		if r.Chance(1, 6) {
			return r.Intn(2*max+1) - max
		}
		return r.Intn(2*mini(max, 20)+1) - mini(max, 20)
	}
	p.segEnabled = r.Chance(3, 5)
	if p.segEnabled {
		p.segMap = r.Chance(4, 5)
		p.segData = r.Chance(5, 6)
		p.segAbs = r.Bool()
		for i := 0; i < 4; i++ {
			p.segQPresent[i] = r.Chance(3, 4)
			p.segLPresent[i] = r.Chance(3, 4)
			if p.segAbs {
				p.segQ[i] = r.Intn(128)
				p.segL[i] = r.Intn(64)
				if r.Chance(1, 10) {
					p.segQ[i], p.segL[i] = -r.Intn(128), -r.Intn(64)
				}
			} else {
				p.segQ[i] = sv(127)
				p.segL[i] = sv(63)
			}
		}
		for i := 0; i < 3; i++ {
			p.segProbPresent[i] = r.Chance(3, 4)
			p.segProb[i] = r.Intn(256)
		}
	}
	p.simple = r.Chance(1, 3)
	p.level = r.Intn(64)
	if r.Chance(1, 8) {
		p.level = 0
	}
	p.sharp = r.Intn(8)
	if r.Chance(1, 3) {
		p.sharp = 0
	}
	p.lfDelta = r.Bool()
	p.lfUpdate = r.Chance(4, 5)
	for i := 0; i < 4; i++ {
		p.refPresent[i], p.modePresent[i] = r.Chance(2, 3), r.Chance(2, 3)
		p.ref[i], p.mode[i] = sv(63), sv(63)
	}
	p.log2parts = r.Intn(4)
	p.q = r.Intn(128)
	if r.Chance(1, 2) {
		p.q = r.Intn(40)
	}
	for i := 0; i < 5; i++ {
		p.dqPresent[i] = r.Chance(1, 2)
		p.dq[i] = r.Intn(31) - 15
	}
	p.refresh = r.Bool()
	nUpd := 0
	switch r.Intn(4) {
	case 0:
	case 1:
		nUpd = 1 + r.Intn(5)
	case 2:
		nUpd = 10 + r.Intn(60)
	default:
		nUpd = r.Intn(400)
	}
	for i := 0; i < nUpd; i++ {
		v := 1 + r.Intn(255)
		if r.Chance(1, 50) {
			v = 0
		}
		p.probUpd[r.Intn(4*8*3*11)] = v
	}
	p.skipEnabled = r.Chance(2, 3)
	p.pskip = r.Intn(256)
	p.emptyUnusedParts = r.Chance(1, 6)

	density := r.Pick([]int{0, 5, 20, 50, 90, 100})
	big := r.Chance(1, 2)
	// coefficient regime: in 7 of 8 frames every dequantised coefficient stays within +-1023 (so that
	// the WHT outputs stay within +-2047, the range of a forward DCT of 8-bit samples, and no 16-bit
	// implementation of the inverse transforms can overflow); 1 of 8 frames is unrestricted
	p.unbounded = r.Chance(1, 8)
	lim := p.valueLimits()
	pBPred := r.Pick([]int{0, 30, 60, 100})
	pSkip := r.Pick([]int{0, 10, 40, 90, 100})
	n := p.mbW() * p.mbH()
	p.mbs = make([]vp8MBPlan, n)
	for i := range p.mbs {
		m := &p.mbs[i]
		if p.segEnabled && p.segMap {
			m.segment = r.Intn(4)
		}
		if p.skipEnabled {
			m.skip = r.Intn(100) < pSkip
		}
		if r.Intn(100) < pBPred {
			m.ymode = 4
			for k := range m.bmodes {
				m.bmodes[k] = r.Intn(10)
			}
		} else {
			m.ymode = r.Intn(4)
			for k := range m.bmodes {
				m.bmodes[k] = impliedB(m.ymode)
			}
		}
		m.uvmode = r.Intn(4)
		if m.skip {
			continue
		}
		first := 0
		if m.ymode != 4 {
			m.tokens[24] = randBlock(r, 0, density, big, lim[m.segment][1])
			first = 1
		}
		for b := 0; b < 16; b++ {
			m.tokens[b] = randBlock(r, first, density, big, lim[m.segment][0])
		}
		for b := 16; b < 24; b++ {
			m.tokens[b] = randBlock(r, 0, density, big, lim[m.segment][2])
		}
	}
	// (drawn last, so that the rest of the plan does not depend on it) a padded non-final token
	// partition: bytes after the last one the boolean decoder consumes are legal and ignored, so the
	// declared partition size can be made to need all three bytes of its 24-bit field
	padDen := 40
	if tier == "thorough" {
		padDen = 300
	}
	if p.log2parts > 0 && r.Chance(1, padDen) {
		p.padPart = r.Intn(1<<uint(p.log2parts) - 1)
		if r.Chance(1, 2) {
			p.padPart = 0
		}
		p.padTo = r.Pick([]int{0x010000, 0x010001, 0x0100ff, 0x010100, 0x01e000, 0x020001, 0x018080})
		p.padSeed = r.Next()
	}
	return p
}

func (p *vp8Plan) desc() string {
	b := 0
	for _, m := range p.mbs {
		if m.ymode == 4 {
			b++
		}
	}
	ft := "normal"
	if p.simple {
		ft = "simple"
	}
	reg := "bounded"
	if p.unbounded {
		reg = "unbounded"
	}
	pad := ""
	if p.padPart >= 0 {
		pad = fmt.Sprintf(" pad=part%d:%#x", p.padPart, p.padTo)
	}
	return fmt.Sprintf("%s %dx%d v%d seg=%s/map=%s/data=%s/abs=%s %s level=%d sharp=%d lfdelta=%s parts=%d q=%d upd=%d skip=%s bpred=%d/%d%s",
		reg, p.w, p.h, p.version, b2s(p.segEnabled), b2s(p.segMap), b2s(p.segData), b2s(p.segAbs), ft, p.level, p.sharp, b2s(p.lfDelta),
		1<<uint(p.log2parts), p.q, len(p.probUpd), b2s(p.skipEnabled), b, len(p.mbs), pad)
}

// ---- writer ----

// writeBlock writes the tokens of one block; returns 1 if the block has a token before its end-of-block.
func writeBlock(e *boolEnc, probs []int, t *vp8Tabs, typ, first, ctx int, toks []int) int {
	i := first
	afterZero := false
	for _, v := range toks {
		pb := ((typ*8+t.bands[i])*3 + ctx) * 11
		pr := func(n int) int { return probs[pb+n] }
		start := 0
		if afterZero {
			start = 2
		}
		m := v
		if m < 0 {
			m = -m
		}
		switch {
		case m == 0:
			e.tree(vp8CoeffTree, pr, 0, start)
			ctx, afterZero = 0, true
		case m <= 4:
			e.tree(vp8CoeffTree, pr, m, start)
		default:
			cat := 5
			for cat >= 0 && m < vp8CatBase[cat] {
				cat--
			}
			e.tree(vp8CoeffTree, pr, 5+cat, start)
			extra := m - vp8CatBase[cat]
			cp := vp8CatProbs[cat]
			for k := 0; k < len(cp); k++ {
				e.put(cp[k], (extra>>uint(len(cp)-1-k))&1 == 1)
			}
		}
		if m != 0 {
			e.flag(v < 0)
			afterZero = false
			if m == 1 {
				ctx = 1
			} else {
				ctx = 2
			}
		}
		i++
	}
	if i < 16 {
		pb := ((typ*8+t.bands[i])*3 + ctx) * 11
		e.tree(vp8CoeffTree, func(n int) int { return probs[pb+n] }, 11, 0)
	}
	if i > first {
		return 1
	}
	return 0
}

// Emit serialises the plan as a VP8 frame.
func (p *vp8Plan) Emit() []byte {
	t := vp8Tables()
	e := newBoolEnc()
	e.flag(p.colorSpace)
	e.flag(p.clampType)
	e.flag(p.segEnabled)
	if p.segEnabled {
		e.flag(p.segMap)
		e.flag(p.segData)
		if p.segData {
			e.flag(p.segAbs)
			for i := 0; i < 4; i++ {
				e.optSigned(7, p.segQPresent[i], p.segQ[i])
			}
			for i := 0; i < 4; i++ {
				e.optSigned(6, p.segLPresent[i], p.segL[i])
			}
		}
		if p.segMap {
			for i := 0; i < 3; i++ {
				e.flag(p.segProbPresent[i])
				if p.segProbPresent[i] {
					e.literal(8, p.segProb[i])
				}
			}
		}
	}
	e.flag(p.simple)
	e.literal(6, p.level)
	e.literal(3, p.sharp)
	e.flag(p.lfDelta)
	if p.lfDelta {
		e.flag(p.lfUpdate)
		if p.lfUpdate {
			for i := 0; i < 4; i++ {
				e.optSigned(6, p.refPresent[i], p.ref[i])
			}
			for i := 0; i < 4; i++ {
				e.optSigned(6, p.modePresent[i], p.mode[i])
			}
		}
	}
	e.literal(2, p.log2parts)
	e.literal(7, p.q)
	for i := 0; i < 5; i++ {
		e.optSigned(4, p.dqPresent[i], p.dq[i])
	}
	e.flag(p.refresh)
	probs := append([]int(nil), t.coeff...)
	for i := 0; i < 4*8*3*11; i++ {
		v, ok := p.probUpd[i]
		e.put(t.upd[i], ok)
		if ok {
			e.literal(8, v)
			probs[i] = v
		}
	}
	e.flag(p.skipEnabled)
	if p.skipEnabled {
		e.literal(8, p.pskip)
	}
	segProb := [3]int{255, 255, 255}
	for i := 0; i < 3; i++ {
		if p.segEnabled && p.segMap && p.segProbPresent[i] {
			segProb[i] = p.segProb[i]
		}
	}

	mbW, mbH := p.mbW(), p.mbH()
	nparts := 1 << uint(p.log2parts)
	parts := make([]*boolEnc, nparts)
	for i := range parts {
		parts[i] = newBoolEnc()
	}
	aboveB := make([]int, 4*mbW)
	aboveNz := make([]int, 9*mbW)
	kfY := []int{145, 156, 163, 128}
	kfUV := []int{142, 114, 183}
	for my := 0; my < mbH; my++ {
		leftB := [4]int{}
		leftNz := [9]int{}
		te := parts[my%nparts]
		for mx := 0; mx < mbW; mx++ {
			m := &p.mbs[my*mbW+mx]
			if p.segEnabled && p.segMap {
				e.tree(vp8SegmentTree, func(n int) int { return segProb[n] }, m.segment, 0)
			}
			if p.skipEnabled {
				e.put(p.pskip, m.skip)
			}
			e.tree(vp8KfYModeTree, func(n int) int { return kfY[n] }, m.ymode, 0)
			if m.ymode == 4 {
				for by := 0; by < 4; by++ {
					for bx := 0; bx < 4; bx++ {
						a, l := aboveB[4*mx+bx], leftB[by]
						e.tree(vp8BModeTree, func(n int) int { return t.bmodeRFC[(a*10+l)*9+n] }, m.bmodes[4*by+bx], 0)
						aboveB[4*mx+bx], leftB[by] = m.bmodes[4*by+bx], m.bmodes[4*by+bx]
					}
				}
			} else {
				for k := 0; k < 4; k++ {
					aboveB[4*mx+k], leftB[k] = impliedB(m.ymode), impliedB(m.ymode)
				}
			}
			e.tree(vp8UVModeTree, func(n int) int { return kfUV[n] }, m.uvmode, 0)

			ab := aboveNz[9*mx : 9*mx+9]
			if m.skip {
				for k := 0; k < 8; k++ {
					ab[k], leftNz[k] = 0, 0
				}
				if m.ymode != 4 {
					ab[8], leftNz[8] = 0, 0
				}
				continue
			}
			first, ytype := 0, 3
			if m.ymode != 4 {
				f := writeBlock(te, probs, t, 1, 0, ab[8]+leftNz[8], m.tokens[24])
				ab[8], leftNz[8] = f, f
				first, ytype = 1, 0
			}
			for by := 0; by < 4; by++ {
				for bx := 0; bx < 4; bx++ {
					f := writeBlock(te, probs, t, ytype, first, ab[bx]+leftNz[by], m.tokens[4*by+bx])
					ab[bx], leftNz[by] = f, f
				}
			}
			for pl := 0; pl < 2; pl++ {
				for by := 0; by < 2; by++ {
					for bx := 0; bx < 2; bx++ {
						ai, li := 4+2*pl+bx, 4+2*pl+by
						f := writeBlock(te, probs, t, 2, 0, ab[ai]+leftNz[li], m.tokens[16+4*pl+2*by+bx])
						ab[ai], leftNz[li] = f, f
					}
				}
			}
		}
	}
	part0 := e.flush()
	var partBytes [][]byte
	for i, pe := range parts {
		if pe.nbools == 0 && p.emptyUnusedParts {
			_ = i
			partBytes = append(partBytes, nil) // a partition nothing is read from may be empty
			continue
		}
		partBytes = append(partBytes, pe.flush())
	}
	if p.padPart >= 0 && p.padPart < nparts-1 && len(partBytes[p.padPart]) < p.padTo {
		pr := &RNG{s: p.padSeed}
		b := append([]byte(nil), partBytes[p.padPart]...)
		b = append(b, pr.Bytes(p.padTo-len(b))...)
		partBytes[p.padPart] = b
	}
	tag := uint32(0) | uint32(p.version)<<1 | 1<<4 | uint32(len(part0))<<5
	out := []byte{byte(tag), byte(tag >> 8), byte(tag >> 16), 0x9d, 0x01, 0x2a,
		byte(p.w), byte(p.w>>8) | byte(p.xs<<6), byte(p.h), byte(p.h>>8) | byte(p.ys<<6)}
	out = append(out, part0...)
	for i := 0; i < nparts-1; i++ {
		n := len(partBytes[i])
		out = append(out, byte(n), byte(n>>8), byte(n>>16))
	}
	for _, b := range partBytes {
		out = append(out, b...)
	}
	return out
}

// SynVP8 returns a synthetic frame and its description.
func SynVP8(r *RNG, tier string) ([]byte, string) {
	p := SynVP8Plan(r, tier)
	return p.Emit(), p.desc()
}
