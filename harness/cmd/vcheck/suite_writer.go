package main

// Suite "writer" — properties C02 (what Encode writes is a well-formed WebP file) and C15 (metadata
// neither changes the image nor gets lost), container-writer side.
//
// Tie between the Lean model Webp.Impl.Writer and the real code, by observable (all exact, verbatim lines):
//   writeRIFFSimple     /repo/encode.go                 hook webp.VerifWriteRIFFSimple      (op wsimple)
//   writeRIFFExtended   /repo/encode.go                 hook webp.VerifWriteRIFFExtended    (op wext)
//   writeRIFF           /repo/encode.go                 hook webp.VerifWriteRIFF            (ops wriff, wriffnil)
//   streaming path      encodeLosslessToWriter + lossless.EncodeToWriter; cannot be entered with an arbitrary
//                       bitstream, so it is tied end to end: webp.Encode(Lossless, no metadata) = F, the model
//                       gets the payload P of F (op wstream) and has to answer F; in Go F must also equal
//                       writeRIFFSimple(VP8L, P). (Synthetic payloads of every length 0..70 are sent to the
//                       streaming model too and compared with the real *buffered* writer.)
//   assembleFrame       /repo/internal/lossy/encode_syntax.go   hook verifapi.AssembleFrame (op asmframe)
// and two independent spec readers used on REAL webp.Encode output:
//   wfspec     RIFF/WebP still walker (Webp.Spec.RiffStill): the harness prints the layout it expects from what
//              it put in (blobs, picture size) and from what the real mux.Demuxer finds; a difference is a
//              property finding (the file is not what the container spec says it should be)
//   vp8layout  VP8 frame layout reader (Webp.Spec.VP8Layout) vs a test-only splitter here, plus
//              assembleFrame(split(payload)) == payload on the real code.
// C15 on the real code: image / ALPH payloads and decoded pixels do not depend on the metadata, metadata reads
// back byte for byte through mux.Demuxer.GetChunk, the VP8X flags announce exactly the non-empty blobs, nil or
// empty blobs produce no chunk (and no VP8X when there is no alpha either).
// Thorough tier only: the D10 probe (a token partition of more than 2^24 bytes).

import (
	"bytes"
	"encoding/binary"
	"encoding/hex"
	"fmt"
	"image"
	"io"
	"math"
	"runtime"
	"strconv"
	"strings"
	"sync"
	"time"

	webp "github.com/deepteams/webp"
	"github.com/deepteams/webp/mux"
	"github.com/deepteams/webp/verifapi"
)

func init() {
	suites["writer"] = suiteWriter
	replayers["wline"] = replayWriterLine
	replayers["wsynth"] = replayWriterSynth
	replayers["writer-e2e"] = replayWriterE2E
	replayers["writer-d10"] = replayWriterD10
	replayers["parked-writer"] = replayParkedWriter
}

// ---------- canonical output ----------

// wOut is the canonical form of written bytes: full hex up to 4 KiB, len:fnv1a64 above.
func wOut(b []byte) string {
	if len(b) > 4096 {
		return "d:" + digest(b)
	}
	return "x:" + hex.EncodeToString(b)
}

func wRes(b []byte, err error) string {
	if err != nil {
		return "err tooLarge" // the only error the writers produce themselves
	}
	return "ok " + wOut(b)
}

// blobTok / blobArg: `nil` = nil slice, `-` = empty non-nil slice, else hex.
func blobTok(b []byte) string {
	if b == nil {
		return "nil"
	}
	if len(b) == 0 {
		return "-"
	}
	return hex.EncodeToString(b)
}

func blobArg(s string) []byte {
	switch s {
	case "nil":
		return nil
	case "-":
		return []byte{}
	}
	b, _ := hex.DecodeString(s)
	return b
}

func fccHex(s string) string { return hex.EncodeToString([]byte(s)) }

func fccVal(h string) uint32 {
	b, _ := hex.DecodeString(h)
	if len(b) != 4 {
		return 0
	}
	return binary.LittleEndian.Uint32(b)
}

// writerGoLine evaluates one protocol line on the real code. ok == false: the line has no Go side of its own
// (wfspec, vp8layout, and wstream on real payloads take their Go answer from webp.Encode).
func writerGoLine(line string) (string, bool) {
	f := strings.Split(line, " ")
	iv := func(k int) int { v, _ := strconv.Atoi(f[k]); return v }
	var fn func() string
	switch {
	case f[0] == "wsimple" && len(f) == 3:
		fn = func() string { return wRes(webp.VerifWriteRIFFSimple(fccVal(f[1]), blobArg(f[2]))) }
	case f[0] == "wstream" && len(f) == 2:
		// synthetic payload: the streaming model against the real buffered writer
		fn = func() string { return wRes(webp.VerifWriteRIFFSimple(fccVal(fccHex("VP8L")), blobArg(f[1]))) }
	case f[0] == "wext" && len(f) == 9:
		fn = func() string {
			return wRes(webp.VerifWriteRIFFExtended(fccVal(f[1]), blobArg(f[2]), blobArg(f[3]), iv(4), iv(5), blobArg(f[6]), blobArg(f[7]), blobArg(f[8])))
		}
	case f[0] == "wriff" && len(f) == 9:
		fn = func() string {
			o := &webp.EncoderOptions{ICC: blobArg(f[6]), EXIF: blobArg(f[7]), XMP: blobArg(f[8])}
			return wRes(webp.VerifWriteRIFF(fccVal(f[1]), blobArg(f[2]), blobArg(f[3]), iv(4), iv(5), o))
		}
	case f[0] == "wriffnil" && len(f) == 6:
		fn = func() string {
			return wRes(webp.VerifWriteRIFF(fccVal(f[1]), blobArg(f[2]), blobArg(f[3]), iv(4), iv(5), nil))
		}
	case f[0] == "asmframe" && len(f) == 5:
		fn = func() string {
			var parts [][]byte
			if f[4] != "none" {
				for _, p := range strings.Split(f[4], ";") {
					parts = append(parts, blobArg(p))
				}
			}
			return "ok " + wOut(verifapi.AssembleFrame(iv(1), iv(2), blobArg(f[3]), parts))
		}
	default:
		return "", false
	}
	g, _ := guard(fn)
	return g, true
}

// ---------- one compared line ----------

type wLine struct {
	fn    string // signature suffix: writeRIFFSimple, writeRIFFExtended, writeRIFF, streaming, assembleFrame, wfspec, vp8layout
	kind  string // count bucket
	line  string
	goL   string
	nontr bool
	in    map[string]any // replay input when the line itself is not enough / too long
}

func wFn(op string) string {
	switch op {
	case "wsimple":
		return "writeRIFFSimple"
	case "wext":
		return "writeRIFFExtended"
	case "wriff", "wriffnil":
		return "writeRIFF"
	case "wstream":
		return "streaming"
	case "asmframe":
		return "assembleFrame"
	}
	return op
}

// ---------- synthetic inputs for the writer models ----------

const (
	mvNil = iota
	mvEmpty
	mvOne
	mvOdd
	mvEven
	mvChunkVP8
	mvChunkALPH
	mvChunkRIFF
	mvChunkVP8X
	mvChunkHuge
	mvChunkSeq
	mvLarge
	numMetaVariants
)

var metaClassNames = []string{"nil", "empty", "one", "odd", "even", "chunklike", "chunklike", "chunklike", "chunklike", "chunklike", "chunklike", "large"}

// metaVariant is a deterministic blob of the given class; salt varies the free bytes.
func metaVariant(k int, salt uint64) []byte {
	r := NewRNG(salt, 70_000_000+uint64(k))
	switch k {
	case mvNil:
		return nil
	case mvEmpty:
		return []byte{}
	case mvOne:
		return r.Bytes(1)
	case mvOdd:
		return r.Bytes(3 + 2*r.Intn(9))
	case mvEven:
		return r.Bytes(2 + 2*r.Intn(9))
	case mvChunkVP8:
		return append([]byte("VP8 \x04\x00\x00\x00"), r.Bytes(4)...)
	case mvChunkALPH:
		return []byte("ALPH")
	case mvChunkRIFF:
		return append([]byte("RIFF\x10\x00\x00\x00WEBP"), r.Bytes(1)...)
	case mvChunkVP8X:
		return append([]byte("VP8X\x0a\x00\x00\x00\x3e"), r.Bytes(9)...)
	case mvChunkHuge:
		return append([]byte("EXIF\xf0\xff\xff\xff"), r.Bytes(5)...) // a complete fake chunk header with a huge size field
	case mvChunkSeq:
		return append([]byte("ICCP\x02\x00\x00\x00abXMP \x01\x00\x00\x00c\x00VP8L\x05\x00\x00\x00\x2f\x00\x00\x00\x10"), r.Bytes(1)...)
	case mvLarge:
		return r.Bytes(300 + r.Intn(3))
	}
	return nil
}

var wSpecialDims = []int{0, -1, -5, 16777216, 16777217, 1 << 32, 1<<32 + 1, -(1 << 24), math.MinInt64, math.MaxInt64, 65536, 16385}
var wBoundaryDims = []int{1, 2, 16383, 16384}

func dimClass(d int) string {
	switch {
	case d == 1 || d == 2 || d == 16383 || d == 16384:
		return "boundary"
	case d >= 1 && d <= 16383:
		return "inrange"
	}
	return "outside"
}

// vp8lHeader is a minimal VP8L bitstream header (signature + packed w-1, h-1, alpha bit, version).
func vp8lHeader(w, h int, alpha bool, extra []byte) []byte {
	bits := uint32(w-1)&0x3fff | (uint32(h-1)&0x3fff)<<14
	if alpha {
		bits |= 1 << 28
	}
	b := []byte{0x2f, 0, 0, 0, 0}
	binary.LittleEndian.PutUint32(b[1:], bits)
	return append(b, extra...)
}

// vp8Header is a minimal VP8 key-frame header.
func vp8Header(w, h int, extra []byte) []byte {
	b := []byte{0x10, 0, 0, 0x9d, 0x01, 0x2a, 0, 0, 0, 0}
	binary.LittleEndian.PutUint16(b[6:], uint16(w&0x3fff))
	binary.LittleEndian.PutUint16(b[8:], uint16(h&0x3fff))
	return append(b, extra...)
}

type wSynth struct {
	seed  uint64
	lines []wLine
	count func(string)
}

func (s *wSynth) rng() *RNG { return NewRNG(s.seed, 60_000_000+uint64(len(s.lines))) }

func (s *wSynth) add(kind, line string, nontr bool) {
	f := strings.SplitN(line, " ", 2)
	goL, _ := writerGoLine(line)
	s.lines = append(s.lines, wLine{fn: wFn(f[0]), kind: kind, line: line, goL: goL, nontr: nontr})
}

func (s *wSynth) lenBucket(what string, n int) {
	switch {
	case n == 0:
		s.count(what + ":len0")
	case n > 4096:
		s.count(what + ":large")
	case n%2 == 1:
		s.count(what + ":odd")
	default:
		s.count(what + ":even")
	}
}

func (s *wSynth) simple(fc string, bs []byte) {
	s.count("fourcc:" + strings.TrimSpace(fc))
	s.lenBucket("bitstream", len(bs))
	s.add("wsimple", "wsimple "+fccHex(fc)+" "+hx(bs), len(bs) > 0)
}

func (s *wSynth) stream(bs []byte) {
	s.add("wstream-synth", "wstream "+hx(bs), len(bs) > 0)
}

func alphaClass(a []byte) string {
	switch {
	case a == nil:
		return "nil"
	case len(a) == 0:
		return "empty"
	case len(a)%2 == 1:
		return "odd"
	}
	return "even"
}

func blobClass(b []byte) string {
	switch {
	case b == nil:
		return "nil"
	case len(b) == 0:
		return "empty"
	case len(b) == 1:
		return "one"
	case len(b) > 4096:
		return "large"
	case len(b) >= 4 && (string(b[:4]) == "VP8 " || string(b[:4]) == "ALPH" || string(b[:4]) == "RIFF" || string(b[:4]) == "VP8X" || string(b[:4]) == "EXIF" || string(b[:4]) == "ICCP"):
		return "chunklike"
	case len(b)%2 == 1:
		return "odd"
	}
	return "even"
}

func subsetName(icc, exif, xmp []byte) string {
	return "subset:icc" + b2s(len(icc) > 0) + "-exif" + b2s(len(exif) > 0) + "-xmp" + b2s(len(xmp) > 0)
}

func (s *wSynth) ext(op, fc string, bs, alpha []byte, w, h int, icc, exif, xmp []byte) {
	s.count("fourcc:" + strings.TrimSpace(fc))
	s.lenBucket("bitstream", len(bs))
	s.count("alpha:" + alphaClass(alpha))
	s.count("meta:icc:" + blobClass(icc))
	s.count("meta:exif:" + blobClass(exif))
	s.count("meta:xmp:" + blobClass(xmp))
	s.count(subsetName(icc, exif, xmp))
	s.count("dims:" + dimClass(w))
	s.count("dims:" + dimClass(h))
	al := blobTok(alpha)
	line := fmt.Sprintf("%s %s %s %s %d %d %s %s %s", op, fccHex(fc), hx(bs), al, w, h, blobTok(icc), blobTok(exif), blobTok(xmp))
	s.add(op, line, len(bs)+len(alpha)+len(icc)+len(exif)+len(xmp) > 0)
}

func (s *wSynth) riffNil(fc string, bs, alpha []byte, w, h int) {
	s.count("alpha:" + alphaClass(alpha))
	s.lenBucket("bitstream", len(bs))
	s.add("wriffnil", fmt.Sprintf("wriffnil %s %s %s %d %d", fccHex(fc), hx(bs), blobTok(alpha), w, h), len(bs)+len(alpha) > 0)
}

func partsTok(parts [][]byte) string {
	if len(parts) == 0 {
		return "none"
	}
	t := make([]string, len(parts))
	for i, p := range parts {
		t[i] = hx(p)
	}
	return strings.Join(t, ";")
}

func (s *wSynth) asm(w, h int, part0 []byte, parts [][]byte) {
	s.count(fmt.Sprintf("asm:parts%d", len(parts)))
	s.lenBucket("part0", len(part0))
	if len(part0) >= 1<<19 {
		s.count("asm:part0-over-19-bits")
	}
	for i, p := range parts {
		if len(p) >= 1<<24 && i < len(parts)-1 {
			s.count("asm:partition-over-24-bits")
		}
	}
	n := len(part0)
	for _, p := range parts {
		n += len(p)
	}
	s.add("asmframe", fmt.Sprintf("asmframe %d %d %s %s", w, h, hx(part0), partsTok(parts)), n > 0)
}

func pickAlpha(r *RNG, k int) []byte {
	switch k {
	case 0:
		return nil
	case 1:
		return []byte{}
	case 2:
		return r.Bytes(1 + 2*r.Intn(12))
	}
	return r.Bytes(2 + 2*r.Intn(12))
}

func pickDim(r *RNG) int {
	switch r.Intn(10) {
	case 0, 1, 2:
		return wBoundaryDims[r.Intn(len(wBoundaryDims))]
	case 3:
		return wSpecialDims[r.Intn(len(wSpecialDims))]
	}
	return 1 + r.Intn(16383)
}

// genWriterSynth builds every synthetic protocol line of the tier; the k-th line only depends on (seed, k).
func genWriterSynth(seed uint64, rich bool, count func(string)) []wLine {
	if count == nil {
		count = func(string) {}
	}
	s := &wSynth{seed: seed, count: count}
	fccs := []string{"VP8 ", "VP8L"}

	// A: every payload length 0..70
	rounds := 1
	if rich {
		rounds = 6
	}
	for round := 0; round < rounds; round++ {
		for n := 0; n <= 70; n++ {
			r := s.rng()
			bs := r.Bytes(n)
			fc := fccs[r.Intn(2)]
			if n%10 == 7 {
				fc = "ABCD"
			}
			s.simple(fc, bs)
			s.simple(fccs[n%2], bs)
			s.stream(bs)
			alpha := pickAlpha(r, r.Intn(4))
			icc, exif, xmp := metaVariant(r.Intn(numMetaVariants), r.Next()), metaVariant(r.Intn(numMetaVariants), r.Next()), metaVariant(r.Intn(numMetaVariants), r.Next())
			w, h := pickDim(r), pickDim(r)
			s.ext("wext", fc, bs, alpha, w, h, icc, exif, xmp)
			s.ext("wriff", fc, bs, alpha, w, h, icc, exif, xmp)
			s.riffNil(fc, bs, alpha, w, h)
			// every blob of length n (or n+1: mixed parities)
			s.ext("wext", fccs[r.Intn(2)], r.Bytes((n+round)%71), r.Bytes(n), pickDim(r), pickDim(r), r.Bytes(n), r.Bytes((n+1)%71), r.Bytes(n))
			s.ext("wriff", fccs[r.Intn(2)], r.Bytes(n), r.Bytes((n+1)%71), pickDim(r), pickDim(r), r.Bytes((n+1)%71), r.Bytes(n), r.Bytes((n+round+1)%71))
		}
	}

	// B: full product alpha{nil,empty,odd,even} x (icc,exif,xmp){nil,empty,odd,chunk-like/even} x bitstream header kind
	bsKinds := []struct {
		fc string
		bs []byte
	}{
		{"VP8 ", vp8Header(5, 7, []byte{1, 2, 3})},
		{"VP8L", vp8lHeader(5, 7, true, []byte{9})},
		{"VP8L", vp8lHeader(5, 7, false, []byte{9, 9})},
	}
	four := func(r *RNG, k int) []byte {
		switch k {
		case 0:
			return nil
		case 1:
			return []byte{}
		case 2:
			return metaVariant([]int{mvOne, mvOdd, mvChunkHuge, mvChunkRIFF}[r.Intn(4)], r.Next())
		}
		return metaVariant([]int{mvEven, mvChunkVP8, mvChunkALPH, mvChunkSeq, mvChunkVP8X}[r.Intn(5)], r.Next())
	}
	for ai := 0; ai < 4; ai++ {
		for ii := 0; ii < 4; ii++ {
			for ei := 0; ei < 4; ei++ {
				for xi := 0; xi < 4; xi++ {
					for _, bk := range bsKinds {
						r := s.rng()
						alpha := pickAlpha(r, ai)
						icc, exif, xmp := four(r, ii), four(r, ei), four(r, xi)
						w, h := wBoundaryDims[r.Intn(4)], wBoundaryDims[r.Intn(4)]
						s.ext("wext", bk.fc, bk.bs, alpha, w, h, icc, exif, xmp)
						s.ext("wriff", bk.fc, bk.bs, alpha, w, h, icc, exif, xmp)
					}
				}
			}
		}
	}
	// every subset of the three ids with every chunk-like / large variant
	for sub := 0; sub < 8; sub++ {
		for v := mvOne; v < numMetaVariants; v++ {
			r := s.rng()
			pick := func(bit int) []byte {
				if sub&bit != 0 {
					return metaVariant(v, r.Next())
				}
				if r.Bool() {
					return []byte{}
				}
				return nil
			}
			icc, exif, xmp := pick(4), pick(2), pick(1)
			bk := bsKinds[r.Intn(3)]
			s.ext("wext", bk.fc, bk.bs, pickAlpha(r, r.Intn(4)), pickDim(r), pickDim(r), icc, exif, xmp)
			s.ext("wriff", bk.fc, bk.bs, pickAlpha(r, r.Intn(2)), pickDim(r), pickDim(r), icc, exif, xmp)
		}
	}

	// C: dimensions — uint32(width-1) and the 24-bit store
	for _, d := range append(append([]int{}, wSpecialDims...), wBoundaryDims...) {
		for _, e := range wBoundaryDims {
			s.ext("wext", "VP8 ", vp8Header(1, 1, nil), nil, d, e, nil, nil, []byte{1})
			s.ext("wext", "VP8L", vp8lHeader(1, 1, false, nil), []byte{}, e, d, []byte{2, 3}, nil, nil)
		}
		s.ext("wriff", "VP8 ", vp8Header(1, 1, nil), []byte{7}, d, d, nil, nil, nil)
		s.riffNil("VP8 ", vp8Header(1, 1, nil), []byte{7, 8}, d, 1)
	}

	// D: the VP8L alpha bit as writeRIFFExtended reads it
	{
		set := vp8lHeader(3, 3, true, nil)
		clr := vp8lHeader(3, 3, false, nil)
		other := append([]byte{}, set...)
		other[0] = 0x2e
		b29 := append([]byte{}, clr...)
		b29[4] |= 0x20
		all := []byte{0x2f, 0xff, 0xff, 0xff, 0xff, 0xff}
		cands := [][]byte{set, clr, other, b29, all, set[:4], set[:1], nil, append(append([]byte{}, set...), 1, 2, 3), append([]byte{0}, set...)}
		for _, bs := range cands {
			for _, fc := range []string{"VP8L", "VP8 ", "ABCD"} {
				s.ext("wext", fc, bs, nil, 3, 3, nil, nil, nil)
				s.ext("wext", fc, bs, nil, 3, 3, []byte{1}, []byte{}, nil)
				s.ext("wriff", fc, bs, nil, 3, 3, nil, []byte{}, nil) // no alpha data, no metadata: simple, whatever the bit says
				s.riffNil(fc, bs, nil, 3, 3)
				s.riffNil(fc, bs, []byte{}, 3, 3)
				s.riffNil(fc, bs, []byte{5}, 3, 3)
			}
		}
	}

	// E: large payloads and the 4096-byte boundary of the canonical output
	for _, n := range []int{4074, 4075, 4076, 4077, 4095, 4096, 4097, 65537, 1<<20 + 1} {
		r := s.rng()
		bs := append(vp8lHeader(64, 64, n%2 == 0, nil), r.Bytes(n-5)...)
		s.simple("VP8L", bs)
		s.stream(bs)
		if n >= 4095 {
			s.ext("wext", "VP8L", bs, nil, 64, 64, metaVariant(mvOdd, r.Next()), nil, metaVariant(mvChunkHuge, r.Next()))
		}
		if n >= 4095 && (rich || n <= 65537) { // quick tier: the 1 MiB payload only through wsimple / wstream / wext
			s.simple("VP8 ", r.Bytes(n))
			s.ext("wriff", "VP8 ", r.Bytes(n), r.Bytes(n/2), 16383, 16383, nil, nil, nil)
			s.riffNil("VP8 ", r.Bytes(n), nil, 1, 1)
		}
	}
	for _, n := range []int{4095, 4096, 65537} {
		r := s.rng()
		s.ext("wext", "VP8 ", vp8Header(9, 9, nil), nil, 9, 9, r.Bytes(n), nil, nil)
		s.ext("wext", "VP8 ", vp8Header(9, 9, nil), r.Bytes(n), 9, 9, nil, r.Bytes(n+1), r.Bytes(3))
		s.ext("wriff", "VP8L", vp8lHeader(9, 9, true, nil), nil, 9, 9, nil, nil, r.Bytes(n))
	}

	// F: assembleFrame
	asmDims := []int{0, 1, 5, 16383, 16384, 16385, 65535, 70000, 1 << 20}
	partCounts := []int{0, 1, 2, 3, 4, 5, 8}
	for round := 0; round < rounds; round++ {
		for n := 0; n <= 70; n++ {
			r := s.rng()
			np := partCounts[(n+round)%len(partCounts)]
			parts := make([][]byte, np)
			for i := range parts {
				if !r.Chance(1, 4) {
					parts[i] = r.Bytes(1 + r.Intn(40))
				}
			}
			dim := func() int {
				if r.Bool() {
					return 1 + r.Intn(16383)
				}
				return asmDims[r.Intn(len(asmDims))]
			}
			s.asm(dim(), dim(), r.Bytes(n), parts)
		}
	}
	{
		r := s.rng()
		s.asm(16, 16, r.Bytes(4097), [][]byte{r.Bytes(65535), r.Bytes(65536), r.Bytes(65537), r.Bytes(1)})
		s.asm(16, 16, r.Bytes(65537), [][]byte{r.Bytes(255), r.Bytes(256), nil, r.Bytes(257), nil, nil, r.Bytes(3), nil})
		for _, n := range []int{1<<19 - 1, 1 << 19, 1<<19 + 5} { // the 19-bit first-partition size field
			s.asm(640, 480, r.Bytes(n), [][]byte{r.Bytes(10), r.Bytes(11)})
		}
		if rich {
			// a token partition that does not fit the 24-bit size field (model level of D10)
			s.asm(5600, 5600, r.Bytes(10), [][]byte{r.Bytes(1<<24 + 3), r.Bytes(200)})
		}
	}
	// real headers through the simple writer
	for _, wh := range [][2]int{{1, 1}, {16383, 16383}, {16384, 2}, {640, 480}} {
		s.simple("VP8 ", vp8Header(wh[0], wh[1], []byte{0xaa}))
		s.simple("VP8L", vp8lHeader(wh[0], wh[1], true, nil))
		s.simple("VP8L", vp8lHeader(wh[0], wh[1], false, []byte{0}))
	}
	return s.lines
}

// ---------- END-TO-END on webp.Encode ----------

type wBase struct {
	Seed, Idx        uint64
	W, H, Cls, ACls  int
	Lossless         bool
	Q, Method, Parts int
	Exact            bool
	Light            bool // fewer metadata combinations (large pictures)
}

func (b wBase) String() string {
	return fmt.Sprintf("%d,%d,%d,%d,%d,%d,%s,%d,%d,%d,%s,%s", b.Seed, b.Idx, b.W, b.H, b.Cls, b.ACls, b2s(b.Lossless), b.Q, b.Method, b.Parts, b2s(b.Exact), b2s(b.Light))
}

func parseWBase(s string) (wBase, bool) {
	f := strings.Split(s, ",")
	if len(f) != 12 {
		return wBase{}, false
	}
	u := func(k int) uint64 { v, _ := strconv.ParseUint(f[k], 10, 64); return v }
	iv := func(k int) int { v, _ := strconv.Atoi(f[k]); return v }
	return wBase{u(0), u(1), iv(2), iv(3), iv(4), iv(5), f[6] == "1", iv(7), iv(8), iv(9), f[10] == "1", f[11] == "1"}, true
}

func (b wBase) image() *image.NRGBA {
	return GenImage(NewRNG(b.Seed, 50_000_000+b.Idx), b.W, b.H, b.Cls, b.ACls)
}

func (b wBase) opts(icc, exif, xmp []byte) *webp.EncoderOptions {
	o := webp.DefaultOptions()
	o.Lossless = b.Lossless
	o.Quality = float32(b.Q)
	o.Method = b.Method
	o.Partitions = b.Parts
	o.Exact = b.Exact
	o.ICC, o.EXIF, o.XMP = icc, exif, xmp
	return o
}

func (b wBase) class() string {
	k := "lossy"
	if b.Lossless {
		k = "lossless"
	}
	if b.ACls != AlphaNone {
		k += "+alpha"
	}
	return k
}

type wCombo struct{ icc, exif, xmp []byte }

// combos lists the metadata given to Encode for one base; combos[0] is the reference (all nil).
func (b wBase) combos() []wCombo {
	r := NewRNG(b.Seed, 51_000_000+b.Idx)
	present := func() []byte { return metaVariant(mvOne+r.Intn(numMetaVariants-mvOne), r.Next()) }
	cs := []wCombo{{nil, nil, nil}}
	for sub := 1; sub < 8; sub++ { // absent = nil
		var c wCombo
		if sub&4 != 0 {
			c.icc = present()
		}
		if sub&2 != 0 {
			c.exif = present()
		}
		if sub&1 != 0 {
			c.xmp = present()
		}
		cs = append(cs, c)
	}
	cs = append(cs, wCombo{[]byte{}, []byte{}, []byte{}}, wCombo{[]byte{}, nil, []byte{}}, wCombo{nil, []byte{}, nil})
	if b.Light {
		full := cs[7]
		return append(cs[:0:0], cs[0], cs[1+r.Intn(6)], full, cs[8], cs[9])
	}
	for sub := 1; sub < 7; sub++ { // absent = empty, non-nil
		c := wCombo{[]byte{}, []byte{}, []byte{}}
		if sub&4 != 0 {
			c.icc = present()
		}
		if sub&2 != 0 {
			c.exif = present()
		}
		if sub&1 != 0 {
			c.xmp = present()
		}
		cs = append(cs, c)
	}
	// changed content: same lengths / other bytes, then other lengths
	full := cs[7]
	flip := func(x []byte) []byte {
		y := append([]byte{}, x...)
		for i := range y {
			y[i] ^= 0x5a
		}
		return y
	}
	cs = append(cs, wCombo{flip(full.icc), flip(full.exif), flip(full.xmp)},
		wCombo{append(flip(full.icc), 1), full.exif, append([]byte{9}, full.xmp...)},
		wCombo{metaVariant(mvLarge, r.Next()), metaVariant(mvChunkHuge, r.Next()), metaVariant(mvChunkSeq, r.Next())})
	return cs
}

func imgHasAlpha(img *image.NRGBA) bool {
	for i := 3; i < len(img.Pix); i += 4 {
		if img.Pix[i] != 255 {
			return true
		}
	}
	return false
}

// pixKey is a digest of the decoded picture (type, size and sample planes).
func pixKey(img image.Image) string {
	switch v := img.(type) {
	case *image.NRGBA:
		return fmt.Sprintf("NRGBA %v %d %s", v.Rect, v.Stride, digest(v.Pix))
	case *image.RGBA:
		return fmt.Sprintf("RGBA %v %d %s", v.Rect, v.Stride, digest(v.Pix))
	case *image.YCbCr:
		return fmt.Sprintf("YCbCr %v %d %d %v %s %s %s", v.Rect, v.YStride, v.CStride, v.SubsampleRatio, digest(v.Y), digest(v.Cb), digest(v.Cr))
	}
	n := toNRGBA(img)
	return fmt.Sprintf("%T %v %s", img, n.Rect, digest(n.Pix))
}

type wFile struct {
	F       []byte
	ext     bool
	P, A    []byte // image payload and ALPH payload as the real demuxer reports them
	demux   *mux.Demuxer
	demuxEr error
	pix     string
	decErr  error
}

func wEncode(img image.Image, o *webp.EncoderOptions) (*wFile, error) {
	var buf bytes.Buffer
	if err := webp.Encode(&buf, img, o); err != nil {
		return nil, err
	}
	f := &wFile{F: buf.Bytes()}
	f.ext = len(f.F) >= 16 && string(f.F[12:16]) == "VP8X"
	d, err := mux.NewDemuxer(f.F)
	f.demux, f.demuxEr = d, err
	if err == nil {
		if fi, e := d.Frame(0); e == nil {
			f.P, f.A = fi.Data, fi.AlphaData
		} else {
			f.demuxEr = e
		}
	}
	return f, nil
}

func (f *wFile) decode() {
	img, err := webp.Decode(bytes.NewReader(f.F))
	f.decErr = err
	if err == nil {
		f.pix = pixKey(img)
	}
}

// splitVP8 is the test-only reader of the VP8 frame layout (frame tag, start code, dimensions, first
// partition, partition size table, token partitions).
func splitVP8(p []byte, n int) (w, h int, part0 []byte, parts [][]byte, ok bool) {
	if len(p) < 10 || n < 1 {
		return
	}
	tag := uint32(p[0]) | uint32(p[1])<<8 | uint32(p[2])<<16
	if tag&1 != 0 || (tag>>1)&7 > 3 || (tag>>4)&1 != 1 {
		return
	}
	if p[3] != 0x9d || p[4] != 0x01 || p[5] != 0x2a {
		return
	}
	p0 := int(tag >> 5)
	w = int(binary.LittleEndian.Uint16(p[6:8])) & 0x3fff
	h = int(binary.LittleEndian.Uint16(p[8:10])) & 0x3fff
	if w == 0 || h == 0 || 10+p0+3*(n-1) > len(p) {
		return
	}
	part0 = p[10 : 10+p0]
	tbl := p[10+p0 : 10+p0+3*(n-1)]
	data := p[10+p0+3*(n-1):]
	for i := 0; i < n-1; i++ {
		sz := int(tbl[3*i]) | int(tbl[3*i+1])<<8 | int(tbl[3*i+2])<<16
		if sz > len(data) {
			return
		}
		parts = append(parts, data[:sz])
		data = data[sz:]
	}
	parts = append(parts, data)
	return w, h, part0, parts, true
}

func vp8LayoutLine(p []byte, n int) (string, int, int, []byte, [][]byte, bool) {
	w, h, part0, parts, ok := splitVP8(p, n)
	if !ok {
		return "err layout", 0, 0, nil, nil, false
	}
	d := make([]string, len(parts))
	for i, q := range parts {
		d[i] = digest(q)
	}
	return fmt.Sprintf("ok w=%d h=%d part0=%s parts=[%s]", w, h, digest(part0), strings.Join(d, ";")), w, h, part0, parts, true
}

func metaDigest(b []byte) string {
	if len(b) == 0 {
		return "nil"
	}
	return digest(b)
}

type wRecheck struct {
	base  wBase
	combo int
	what  string
}

type wBaseResult struct {
	lines   []wLine
	finds   []Finding
	counts  []string
	recheck []wRecheck
	evals   []string
}

func (res *wBaseResult) prop(b wBase, combo int, property, sig, detail string) {
	res.finds = append(res.finds, Finding{Kind: "property", Property: property, Signature: sig, Detail: detail + " (base " + b.String() + ", metadata combination " + strconv.Itoa(combo) + ")",
		Input: map[string]any{"op": "writer-e2e", "base": b.String(), "combo": combo, "gen": "GenImage(NewRNG(seed,50000000+idx),w,h,cls,acls); base = seed,idx,w,h,cls,acls,lossless,quality,method,partitions,exact,light"}})
}

// runWriterBase encodes one picture under every metadata combination and evaluates C02/C15 on the files.
func runWriterBase(b wBase) (res wBaseResult) {
	img := b.image()
	srcAlpha := imgHasAlpha(img)
	combos := b.combos()
	res.counts = append(res.counts, "e2e:base:"+b.class(), fmt.Sprintf("e2e:partitions:%d", 1<<b.Parts))
	var ref *wFile
	for ci, c := range combos {
		e2eIn := map[string]any{"op": "writer-e2e", "base": b.String(), "combo": ci}
		var f *wFile
		var encErr error
		_, pm := guard(func() string { f, encErr = wEncode(img, b.opts(c.icc, c.exif, c.xmp)); return "" })
		res.evals = append(res.evals, fmt.Sprintf("e2e %s %d", b.String(), ci))
		res.counts = append(res.counts, "e2e:encodes", "e2e:"+subsetName(c.icc, c.exif, c.xmp),
			"e2e:meta:icc:"+blobClass(c.icc), "e2e:meta:exif:"+blobClass(c.exif), "e2e:meta:xmp:"+blobClass(c.xmp))
		if pm != "" {
			res.prop(b, ci, "C02", "encode:panic", "webp.Encode panicked: "+pm)
			continue
		}
		if encErr != nil {
			res.prop(b, ci, "C02", "encode:error", "webp.Encode failed on a valid picture: "+encErr.Error())
			continue
		}
		anyMeta := len(c.icc) > 0 || len(c.exif) > 0 || len(c.xmp) > 0
		F := f.F
		// ---- C02: the independent walker ----
		if f.demuxEr != nil {
			res.prop(b, ci, "C02", "encode:not-wellformed:demux-error", "mux.NewDemuxer rejects the encoder's own output: "+f.demuxEr.Error())
		} else {
			wantExt := anyMeta || (!b.Lossless && srcAlpha)
			flags := 0
			la := false
			if b.Lossless && len(f.P) >= 5 {
				la = binary.LittleEndian.Uint32(f.P[1:5])>>28&1 != 0
			}
			alphaTok := "nil"
			if len(f.A) > 0 {
				alphaTok = digest(f.A)
			}
			if wantExt {
				if len(c.icc) > 0 {
					flags |= 0x20
				}
				if len(f.A) > 0 || la {
					flags |= 0x10
				}
				if len(c.exif) > 0 {
					flags |= 0x08
				}
				if len(c.xmp) > 0 {
					flags |= 0x04
				}
			}
			iccT, exifT, xmpT := "nil", "nil", "nil"
			if wantExt {
				iccT, exifT, xmpT = metaDigest(c.icc), metaDigest(c.exif), metaDigest(c.xmp)
			}
			want := fmt.Sprintf("ok ext=%s lossless=%s image=%s alpha=%s icc=%s exif=%s xmp=%s flags=%d cw=%d ch=%d iw=%d ih=%d la=%s",
				b2s(wantExt), b2s(b.Lossless), digest(f.P), alphaTok, iccT, exifT, xmpT, flags, b.W, b.H, b.W, b.H, b2s(la))
			res.lines = append(res.lines, wLine{fn: "wfspec", kind: "wfspec", line: "wfspec " + hex.EncodeToString(F), goL: want, nontr: true, in: e2eIn})
			if !b.Lossless && srcAlpha && len(f.A) == 0 {
				res.prop(b, ci, "C02", "encode:not-wellformed:alpha-missing", "the source has transparency but the file carries no ALPH chunk")
			}
		}
		// ---- the writers on the real pieces: Encode's file = writeRIFF(pieces); model on the same pieces ----
		if f.demuxEr == nil && (len(F) <= 65536 || ci < 3) {
			fc := "VP8 "
			if b.Lossless {
				fc = "VP8L"
			}
			line := fmt.Sprintf("wriff %s %s %s %d %d %s %s %s", fccHex(fc), hx(f.P), blobTok(f.A), b.W, b.H, blobTok(c.icc), blobTok(c.exif), blobTok(c.xmp))
			goL, _ := writerGoLine(line)
			res.lines = append(res.lines, wLine{fn: "writeRIFF", kind: "wriff-real", line: line, goL: goL, nontr: true, in: e2eIn})
			if goL != "ok "+wOut(F) {
				res.prop(b, ci, "C02", "encode:file-ne-writeRIFF", fmt.Sprintf("webp.Encode wrote %s, writeRIFF on the demuxed pieces gives %s", short(wOut(F), 80), short(goL, 80)))
			}
		}
		// ---- streaming path ----
		if b.Lossless && !anyMeta {
			res.counts = append(res.counts, "e2e:streaming-files")
			if len(F) < 20 || int(binary.LittleEndian.Uint32(F[16:20])) > len(F)-20 {
				res.prop(b, ci, "C02", "encode:not-wellformed:short", fmt.Sprintf("streaming output of %d bytes has no complete first chunk", len(F)))
			} else {
				P := F[20 : 20+int(binary.LittleEndian.Uint32(F[16:20]))]
				if len(P)%2 == 1 {
					res.counts = append(res.counts, "e2e:streaming-payload:odd")
				} else {
					res.counts = append(res.counts, "e2e:streaming-payload:even")
				}
				res.lines = append(res.lines, wLine{fn: "streaming", kind: "wstream-real", line: "wstream " + hx(P), goL: "ok " + wOut(F), nontr: true, in: e2eIn})
				buffered, err := webp.VerifWriteRIFFSimple(fccVal(fccHex("VP8L")), P)
				if err != nil || !bytes.Equal(buffered, F) {
					res.prop(b, ci, "C02", "encode:streaming-ne-buffered", fmt.Sprintf("streaming path wrote %d bytes, writeRIFFSimple(VP8L, payload) gives %d bytes (%s vs %s)", len(F), len(buffered), digest(F), digest(buffered)))
				}
			}
		}
		// ---- VP8 frame layout ----
		if !b.Lossless && ci == 0 && f.demuxEr == nil {
			n := 1 << b.Parts
			want, w, h, part0, parts, ok := vp8LayoutLine(f.P, n)
			res.lines = append(res.lines, wLine{fn: "vp8layout", kind: "vp8layout", line: fmt.Sprintf("vp8layout %d %s", n, hx(f.P)), goL: want, nontr: true, in: e2eIn})
			// the list-based layout reader the theorem is proved against vs the spec decoder's ByteArray reader
			res.lines = append(res.lines, wLine{fn: "vp8layoutck", kind: "vp8layoutck", line: fmt.Sprintf("vp8layoutck %d %s", n, hx(f.P)), goL: "ok agree", nontr: true, in: e2eIn})
			if !ok {
				res.prop(b, ci, "C02", "encode:not-wellformed:vp8layout", fmt.Sprintf("the VP8 payload (%d bytes) does not split into a first partition and %d token partitions", len(f.P), n))
			} else {
				nonEmpty := 0
				for _, q := range parts {
					if len(q) > 0 {
						nonEmpty++
					}
				}
				if nonEmpty == n {
					res.counts = append(res.counts, "e2e:vp8layout:all-partitions-nonempty")
				} else {
					res.counts = append(res.counts, "e2e:vp8layout:some-partition-empty")
				}
				if w != b.W || h != b.H {
					res.prop(b, ci, "C02", "encode:not-wellformed:vp8dims", fmt.Sprintf("VP8 header says %dx%d, picture is %dx%d", w, h, b.W, b.H))
				}
				line := fmt.Sprintf("asmframe %d %d %s %s", w, h, hx(part0), partsTok(parts))
				goL, _ := writerGoLine(line)
				res.lines = append(res.lines, wLine{fn: "assembleFrame", kind: "asmframe-real", line: line, goL: goL, nontr: true, in: e2eIn})
				if goL != "ok "+wOut(f.P) {
					res.finds = append(res.finds, Finding{Kind: "correspondence", Property: "C02", Signature: "writer-model:assembleFrame-roundtrip",
						Detail: fmt.Sprintf("assembleFrame(split(payload)) = %s, payload = %s (base %s)", short(goL, 80), short(wOut(f.P), 80), b.String()),
						Input:  map[string]any{"op": "writer-e2e", "base": b.String(), "combo": ci, "line": short(line, 4096)}})
				}
			}
		}
		// ---- C15 ----
		f.decode()
		if f.decErr != nil {
			res.prop(b, ci, "C02", "encode:not-decodable", "webp.Decode rejects the encoder's own output: "+f.decErr.Error())
		}
		if ci == 0 {
			ref = f
		}
		if f.demuxEr == nil {
			// (ii) read back by chunk id; (iii) flags; (iv) no chunk for nil / empty blobs
			feat := f.demux.GetFeatures()
			for _, m := range []struct {
				name string
				id   mux.ChunkID
				blob []byte
				bit  byte
				has  bool
			}{{"ICCP", mux.FourCCICCP, c.icc, 0x20, feat.HasICC}, {"EXIF", mux.FourCCEXIF, c.exif, 0x08, feat.HasEXIF}, {"XMP", mux.FourCCXMP, c.xmp, 0x04, feat.HasXMP}} {
				got, err := f.demux.GetChunk(m.id)
				if len(m.blob) > 0 {
					if err != nil || !bytes.Equal(got, m.blob) {
						res.prop(b, ci, "C15", "encode:metadata-readback", fmt.Sprintf("%s: gave %s, GetChunk returns %s (err %v)", m.name, digest(m.blob), digest(got), err))
					}
				} else if err == nil {
					res.prop(b, ci, "C15", "encode:empty-blob-chunk", fmt.Sprintf("%s: blob is nil/empty but the file has such a chunk of %d bytes", m.name, len(got)))
				}
				announced := f.ext && F[20]&m.bit != 0
				if announced != (len(m.blob) > 0) || m.has != (len(m.blob) > 0) {
					res.prop(b, ci, "C15", "encode:flags-inexact", fmt.Sprintf("%s: blob length %d, VP8X present %v, flag bit %v, Features %v", m.name, len(m.blob), f.ext, announced, m.has))
				}
			}
			if !anyMeta && len(f.A) == 0 {
				if f.ext || (string(F[12:16]) != "VP8 " && string(F[12:16]) != "VP8L") {
					res.prop(b, ci, "C15", "encode:empty-blob-chunk", fmt.Sprintf("no metadata and no alpha, but the first chunk is %q", F[12:16]))
				}
			}
		}
		// (i) image / alpha payloads and pixels do not depend on the metadata
		if ci > 0 && ref != nil && ref.demuxEr == nil && f.demuxEr == nil {
			if !bytes.Equal(f.P, ref.P) || !bytes.Equal(f.A, ref.A) {
				res.recheck = append(res.recheck, wRecheck{b, ci, "chunk"})
			} else if f.decErr == nil && ref.decErr == nil && f.pix != ref.pix {
				res.recheck = append(res.recheck, wRecheck{b, ci, "pixels"})
			}
		}
	}
	return res
}

// wRecheckOne re-runs one suspected metadata dependence in a quiet, sequential state: Encode is not a pure
// function of its arguments on this tree (pooled encoder state, a C11 matter), which must not be reported as C15.
func wRecheckOne(rep *Report, rc wRecheck) {
	b := rc.base
	img := b.image()
	c := b.combos()[rc.combo]
	enc := func(c wCombo) *wFile {
		f, err := wEncode(img, b.opts(c.icc, c.exif, c.xmp))
		if err != nil || f.demuxEr != nil {
			return nil
		}
		f.decode()
		return f
	}
	r1, m1, r2, m2 := enc(wCombo{}), enc(c), enc(wCombo{}), enc(c)
	if r1 == nil || m1 == nil || r2 == nil || m2 == nil {
		return
	}
	same := func(x, y *wFile) bool { return bytes.Equal(x.P, y.P) && bytes.Equal(x.A, y.A) && x.pix == y.pix }
	switch {
	case !same(r1, r2) || !same(m1, m2):
		rep.Count("e2e:recheck:encode-not-deterministic(C11)")
		rep.mu.Lock()
		rep.Notes = append(rep.Notes, "webp.Encode returned different image data for identical arguments (history-dependent encoder state, C11), base "+b.String())
		rep.mu.Unlock()
	case same(r1, m1):
		rep.Count("e2e:recheck:agrees-when-sequential(C11)")
		rep.mu.Lock()
		rep.Notes = append(rep.Notes, "image data differed between two metadata settings only under concurrency/history (C11), base "+b.String())
		rep.mu.Unlock()
	default:
		sig, detail := "encode:image-chunk-depends-on-metadata", fmt.Sprintf("image payload %s / ALPH %s without metadata, %s / %s with metadata", digest(r1.P), digestOpt(r1.A), digest(m1.P), digestOpt(m1.A))
		if bytes.Equal(r1.P, m1.P) && bytes.Equal(r1.A, m1.A) {
			sig, detail = "encode:pixels-depend-on-metadata", fmt.Sprintf("same image data, decoded pictures differ: %s vs %s", r1.pix, m1.pix)
		}
		rep.Add(Finding{Kind: "property", Property: "C15", Signature: sig, Detail: detail + " (base " + b.String() + ", metadata combination " + strconv.Itoa(rc.combo) + ")",
			Input: map[string]any{"op": "writer-e2e", "base": b.String(), "combo": rc.combo}})
	}
}

func writerBases(seed uint64, rich bool) []wBase {
	var bs []wBase
	add := func(w, h, cls, acls int, lossless bool, q, method, parts int, exact, light bool) {
		bs = append(bs, wBase{Seed: seed, Idx: uint64(len(bs)), W: w, H: h, Cls: cls, ACls: acls, Lossless: lossless, Q: q, Method: method, Parts: parts, Exact: exact, Light: light})
	}
	rounds := 1
	if rich {
		rounds = 8
	}
	for round := 0; round < rounds; round++ {
		r := NewRNG(seed, 52_000_000+uint64(round))
		cls := func() int { return r.Intn(NumImgClasses) }
		meth := func() int {
			if rich {
				return r.Intn(7)
			}
			return r.Intn(5)
		}
		// lossless (streaming path without metadata, buffered path with)
		for i, s := range [][2]int{{1, 1}, {2, 3}, {7, 5}, {16, 16}, {33, 17}, {64, 64}, {1, 40}, {50, 1}} {
			add(s[0], s[1], cls(), []int{AlphaNone, AlphaBinary, AlphaGradient, AlphaAllZero, AlphaFewLevels}[(i+round)%5], true, []int{0, 50, 75, 100}[r.Intn(4)], meth(), 0, r.Bool(), false)
		}
		// lossy, Partitions 0..3: tiny pictures and pictures with >= 8 macroblock rows
		for parts := 0; parts <= 3; parts++ {
			add(1+r.Intn(3), 1+r.Intn(3), cls(), AlphaNone, false, 75, meth(), parts, false, false)
			add(5+r.Intn(20), 5+r.Intn(20), cls(), []int{AlphaBinary, AlphaGradient, AlphaFewLevels, AlphaAllZero}[r.Intn(4)], false, []int{10, 50, 90, 100}[r.Intn(4)], meth(), parts, r.Bool(), false)
			add(17+r.Intn(48), 129+r.Intn(40), []int{ClsPhoto, ClsNoise, ClsGradient}[r.Intn(3)], AlphaNone, false, []int{50, 75, 95}[r.Intn(3)], meth(), parts, false, true)
			add(40+r.Intn(30), 130+r.Intn(30), []int{ClsPhoto, ClsNoise, ClsPal16}[r.Intn(3)], []int{AlphaGradient, AlphaNoise, AlphaBinary}[r.Intn(3)], false, 75, meth(), parts, r.Bool(), true)
		}
	}
	// tiny lossless pictures: many payload lengths of both parities through the streaming path
	nTiny := 40
	if rich {
		nTiny = 400
	}
	for k := 0; k < nTiny; k++ {
		r := NewRNG(seed, 53_000_000+uint64(k))
		add(1+r.Intn(9), 1+r.Intn(9), []int{ClsNoise, ClsPhoto, ClsPal4, ClsFlat}[r.Intn(4)], []int{AlphaNone, AlphaNoise, AlphaBinary}[r.Intn(3)], true, []int{0, 75, 100}[r.Intn(3)], r.Intn(5), 0, r.Bool(), true)
	}
	return bs
}

// ---------- D10 probe (thorough tier) ----------

// writerD10 encodes a 5600x5600 opaque noise picture at Quality 100, Method 0, Partitions 1 (two token
// partitions, the first of which exceeds the 24-bit size field of the partition table) and decodes the result.
func writerD10() (what, detail string) {
	const W, H = 5600, 5600
	img := image.NewRGBA(image.Rect(0, 0, W, H))
	s := uint64(0x9E3779B97F4A7C15)
	for i := 0; i < len(img.Pix); i += 4 {
		s ^= s << 13
		s ^= s >> 7
		s ^= s << 17
		img.Pix[i], img.Pix[i+1], img.Pix[i+2], img.Pix[i+3] = byte(s), byte(s>>8), byte(s>>16), 255
	}
	o := webp.DefaultOptions()
	o.Quality, o.Method, o.Partitions = 100, 0, 1
	var buf bytes.Buffer
	if err := webp.Encode(&buf, img, o); err != nil {
		return "", "Encode refused: " + err.Error()
	}
	F := buf.Bytes()
	img = nil
	runtime.GC()
	numbers := fmt.Sprintf("file %d bytes", len(F))
	if len(F) > 30 && string(F[12:16]) == "VP8 " {
		p := F[20:]
		if n := int(binary.LittleEndian.Uint32(F[16:20])); n <= len(p) {
			p = p[:n]
		}
		tag := uint32(p[0]) | uint32(p[1])<<8 | uint32(p[2])<<16
		p0 := int(tag >> 5)
		if 10+p0+3 <= len(p) {
			t := p[10+p0:]
			declared := int(t[0]) | int(t[1])<<8 | int(t[2])<<16
			tokenBytes := len(p) - 10 - p0 - 3
			numbers = fmt.Sprintf("VP8 payload %d bytes, first partition %d, size table declares token partition 0 = %d bytes, token bytes in the file %d (two partitions; 2^24 = 16777216", len(p), p0, declared, tokenBytes)
			if declared+1<<24 <= tokenBytes {
				numbers += fmt.Sprintf("; %d + 2^24 = %d fits the file, i.e. the size was stored modulo 2^24", declared, declared+1<<24)
			}
			numbers += ")"
		}
	}
	_, err := webp.Decode(bytes.NewReader(F))
	if err != nil {
		return "lossy.assembleFrame:partition-size-overflow", "webp.Encode returned nil, webp.Decode of its output fails: " + err.Error() + "; " + numbers
	}
	return "", "decodes; " + numbers
}

const writerD10Gen = "5600x5600 *image.RGBA, alpha 255, R,G,B = low three bytes of xorshift64 (s=0x9E3779B97F4A7C15; s^=s<<13; s^=s>>7; s^=s<<17) per pixel in Pix order; webp.Encode with DefaultOptions, Quality 100, Method 0, Partitions 1"

// ---------- the suite ----------

func suiteWriter(rep *Report) error {
	rich := rep.Tier == "thorough"
	rep.Rule = "(a) synthetic calls of writeRIFFSimple / writeRIFFExtended / writeRIFF (opts and nil opts) / assembleFrame vs the Lean model: every payload length 0..70 plus 4074..4097, 65537, 2^20+1; fourcc VP8/VP8L/ABCD; alpha nil/empty/odd/even; each of ICC/EXIF/XMP nil/empty/1 byte/odd/even/chunk-like (fake VP8, ALPH, RIFF..WEBP, VP8X, a chunk header with size 0xfffffff0, a chunk sequence)/large in full product of presence; width/height at 1, 2, 16383, 16384 and outside (0, negative, 2^24+1, 2^32+1, MinInt64); VP8L headers with the alpha bit set/clear/short; first partitions beyond 19 bits (thorough: a token partition beyond 24 bits); (b) real webp.Encode output (lossless, lossy, with alpha, Partitions 0..3, tiny and >= 8 macroblock rows) under every subset of metadata (nil and empty, changed content): the file vs the independent RIFF walker, the VP8 payload vs the independent layout reader, the streaming path vs its model and vs the buffered writer, assembleFrame(split(payload)) = payload, and C15 (image/ALPH payload and decoded pixels independent of metadata, read-back through mux.Demuxer.GetChunk, exact VP8X flags, no chunk for nil/empty blobs); (c) slow writers: a lossless Encode (3 of 4 on the streaming path) whose first Write blocks until three other encodes (lossless same size, lossless smaller, lossy+alpha) have completed, a writer that cuts every Write into 1..61-byte chunks with runtime.Gosched() before each, and an io.Pipe with a slow consumer, each under GOMAXPROCS(1) and the ambient value: the bytes received must be a well-formed file decoding to the picture of that call and equal the solo encode, the same for the overlapping calls; thorough: the 5600x5600 noise probe. non-trivial = an op with at least one non-empty byte string / every real encode"

	t0 := time.Now()
	lap := func(name string) {
		rep.Extra["t_"+name+"_s"] = math.Round(time.Since(t0).Seconds()*100) / 100
		t0 = time.Now()
	}
	synth := genWriterSynth(rep.Seed, rich, rep.Count)
	lap("synthetic_go")
	for i := range synth {
		if len(synth[i].line) > 1<<16 {
			synth[i].in = map[string]any{"op": "wsynth", "seed": rep.Seed, "tier": rep.Tier, "index": i, "line_prefix": short(synth[i].line, 200)}
		}
	}

	// real encodes, in parallel, results kept in base order
	bases := writerBases(rep.Seed, rich)
	results := make([]wBaseResult, len(bases))
	{
		var wg sync.WaitGroup
		nw := runtime.NumCPU()
		for wk := 0; wk < nw; wk++ {
			wg.Add(1)
			go func(wk int) {
				defer wg.Done()
				for i := wk; i < len(bases); i += nw {
					b := bases[i]
					_, pm := guard(func() string { results[i] = runWriterBase(b); return "" })
					if pm != "" {
						results[i].finds = append(results[i].finds, Finding{Kind: "property", Property: "C02", Signature: "encode:panic", Detail: pm + " (base " + b.String() + ")",
							Input: map[string]any{"op": "writer-e2e", "base": b.String(), "combo": -1}})
					}
				}
			}(wk)
		}
		wg.Wait()
	}
	lap("real_encodes")
	all := synth
	for i := range results {
		res := &results[i]
		all = append(all, res.lines...)
		for _, c := range res.counts {
			rep.Count(c)
		}
		for _, e := range res.evals {
			rep.Eval(true, []byte(e))
		}
		for _, f := range res.finds {
			rep.Add(f)
		}
	}
	for i := range results {
		for _, rc := range results[i].recheck {
			rep.Count("e2e:recheck:" + rc.what)
			wRecheckOne(rep, rc)
		}
	}

	lap("rechecks")
	// slow / blocking writers: other encodes run while a call is inside w.Write
	{
		rounds := 8
		if rich {
			rounds = 120
		}
		parkedWriterLeg(rep, "C02", "encode:slow-writer", rounds, 2)
		lap("slow_writers")
	}
	// the Lean side
	lines := make([]string, len(all))
	for i := range all {
		lines[i] = all[i].line
	}
	lean, err := RunDriver(lines)
	if err != nil {
		return err
	}
	lap("lean_driver")
	for i, it := range all {
		rep.Count("op:" + it.kind)
		tag := strings.SplitN(it.goL, " ", 2)[0]
		if strings.HasPrefix(it.goL, "ok d:") {
			tag = "ok-digest"
		}
		rep.Count("go:" + it.kind + ":" + tag)
		rep.Eval(it.nontr, []byte(it.line))
		if i%977 == 0 || (it.in != nil && i%53 == 0) {
			rep.Sample(map[string]any{"line": short(it.line, 160), "go": short(it.goL, 160), "lean": short(lean[i], 160)})
		}
		if lean[i] == it.goL {
			continue
		}
		in := map[string]any{"op": "wline", "line": it.line, "go": it.goL}
		if it.in != nil {
			in = map[string]any{}
			for k, v := range it.in {
				in[k] = v
			}
			if len(it.line) <= 1<<16 {
				in["line"] = it.line
			}
			in["go"] = it.goL
		}
		detail := fmt.Sprintf("go=%q lean=%q", short(it.goL, 300), short(lean[i], 300))
		if it.goL == "panic" {
			detail += " (Go panicked)"
		}
		if it.fn == "wfspec" {
			// the walker is the independent spec: the file is not what the container spec says it should be
			why := "layout"
			if strings.HasPrefix(lean[i], "err ") {
				why = strings.TrimPrefix(lean[i], "err ")
			} else {
				gf, lf := strings.Fields(it.goL), strings.Fields(lean[i])
				for k := 0; k < len(gf) && k < len(lf); k++ {
					if gf[k] != lf[k] {
						why = strings.SplitN(gf[k], "=", 2)[0]
						break
					}
				}
			}
			rep.Add(Finding{Kind: "property", Property: "C02", Signature: "encode:not-wellformed:" + why, Detail: "expected from the inputs / independent walker on the file: " + detail, Input: in})
			continue
		}
		rep.Add(Finding{Kind: "correspondence", Property: "C02", Signature: "writer-model:" + it.fn, Detail: detail, Input: in})
	}

	if rich {
		rep.Count("d10-probe:5600x5600-noise-q100-m0-partitions1")
		var what, detail string
		_, pm := guard(func() string { what, detail = writerD10(); return "" })
		rep.Eval(true, []byte("d10-probe"))
		if pm != "" {
			what, detail = "encode:panic", pm
		}
		rep.Notes = append(rep.Notes, "D10 probe: "+detail)
		if what != "" {
			rep.Add(Finding{Kind: "property", Property: "C02", Signature: what, Detail: detail, Input: map[string]any{"op": "writer-d10", "gen": writerD10Gen}})
		}
	}
	return nil
}

// ---------- replayers ----------

func replayWriterLine(in map[string]any) int {
	line, _ := in["line"].(string)
	lean, err := RunDriver([]string{line})
	if err != nil {
		fmt.Println(err)
		return 2
	}
	fmt.Println("lean:", short(lean[0], 400))
	goL, ok := writerGoLine(line)
	if !ok || strings.HasPrefix(line, "wstream ") {
		// the Go answer of wfspec / vp8layout / real wstream lines comes from webp.Encode: use the recorded one
		if g, has := in["go"].(string); has {
			goL = g
		}
	}
	fmt.Println("go:  ", short(goL, 400))
	if goL != lean[0] {
		return 1
	}
	return 0
}

func replayWriterSynth(in map[string]any) int {
	seed, _ := in["seed"].(float64)
	tier, _ := in["tier"].(string)
	idx, _ := in["index"].(float64)
	ls := genWriterSynth(uint64(seed), tier == "thorough", nil)
	if int(idx) < 0 || int(idx) >= len(ls) {
		fmt.Println("bad replay input")
		return 2
	}
	return replayWriterLine(map[string]any{"line": ls[int(idx)].line})
}

func replayWriterE2E(in map[string]any) int {
	bs, _ := in["base"].(string)
	b, ok := parseWBase(bs)
	if !ok {
		fmt.Println("bad replay input")
		return 2
	}
	res := runWriterBase(b)
	rep := NewReport("writer", "replay", b.Seed)
	for _, f := range res.finds {
		rep.Add(f)
	}
	for _, rc := range res.recheck {
		wRecheckOne(rep, rc)
	}
	lines := make([]string, len(res.lines))
	for i := range res.lines {
		lines[i] = res.lines[i].line
	}
	lean, err := RunDriver(lines)
	if err != nil {
		fmt.Println(err)
		return 2
	}
	bad := len(rep.Findings)
	for i, it := range res.lines {
		if lean[i] != it.goL {
			bad++
			fmt.Printf("%s: line %s\n  go:   %s\n  lean: %s\n", it.fn, short(it.line, 200), short(it.goL, 400), short(lean[i], 400))
		}
	}
	for _, f := range rep.Findings {
		fmt.Printf("%s %s %s: %s\n", f.Kind, f.Property, f.Signature, f.Detail)
	}
	for _, n := range rep.Notes {
		fmt.Println("note:", n)
	}
	if bad > 0 {
		return 1
	}
	fmt.Printf("go: %d lines agree, no finding\n", len(res.lines))
	return 0
}

func replayWriterD10(in map[string]any) int {
	what, detail := writerD10()
	fmt.Println("go:", what, detail)
	if what != "" {
		return 1
	}
	return 0
}

// ---------- slow / blocking writers (C02: the bytes handed to w are the file; C10: concurrent == solo) ----------
//
// webp.Encode writes to an arbitrary io.Writer. A Write may block (a pipe, a socket whose peer is slow) or
// yield; while it does, other goroutines call Encode. Whatever the package hands to w - possibly a view of a
// pooled buffer - has to stay intact until the last Write has returned. Three writers:
//   gate     the first Write blocks until K other encodes (lossless of the same and of a smaller area, and
//            lossy+alpha, whose alpha plane goes through the lossless encoder as well) have completed
//   gosched  every Write is cut into chunks of 1..61 bytes with a runtime.Gosched() before each
//   pipe     an io.Pipe whose consumer reads 1..97 bytes at a time and yields in between
// each under GOMAXPROCS(1) (one P: a pooled object released by the parked goroutine is the next one handed
// out) and under the ambient value. Oracle: the bytes received are a well-formed file that decodes to the
// picture given to THAT call (lossless: exactly), and they equal the bytes of a solo encode into a
// bytes.Buffer; the same for the K other encodes.

type gateWriter struct {
	buf     bytes.Buffer
	started bool
	reached chan struct{}
	resume  chan struct{}
}

func (g *gateWriter) Write(p []byte) (int, error) {
	if !g.started {
		g.started = true
		close(g.reached)
		<-g.resume
	}
	return g.buf.Write(p)
}

type goschedWriter struct {
	buf bytes.Buffer
	r   *RNG
}

func (g *goschedWriter) Write(p []byte) (int, error) {
	n := 0
	for len(p) > 0 {
		runtime.Gosched()
		k := 1 + g.r.Intn(61)
		if k > len(p) {
			k = len(p)
		}
		g.buf.Write(p[:k])
		p = p[k:]
		n += k
	}
	return n, nil
}

type parkJob struct {
	name string
	img  *image.NRGBA
	o    *webp.EncoderOptions
	solo []byte
}

func (j *parkJob) check(got []byte) (what, detail string) {
	if !bytes.Equal(got, j.solo) {
		what, detail = "bytes-differ-from-solo", fmt.Sprintf("%d bytes %s, solo encode %d bytes %s", len(got), digest(got), len(j.solo), digest(j.solo))
	}
	if _, e := walkRIFF(got); e != "" {
		return "not-wellformed", e
	}
	dec, err := webp.Decode(bytes.NewReader(got))
	if err != nil {
		return "not-decodable", err.Error()
	}
	if dec.Bounds().Dx() != j.img.Rect.Dx() || dec.Bounds().Dy() != j.img.Rect.Dy() {
		return "decoded-size", fmt.Sprint(dec.Bounds())
	}
	if j.o.Lossless {
		if same, why := nrgbaEqual(j.img, toNRGBA(dec), !j.o.Exact); !same {
			return "decodes-to-other-picture", why
		}
	} else if ref, err := webp.Decode(bytes.NewReader(j.solo)); err == nil {
		if same, why := nrgbaEqual(toNRGBA(ref), toNRGBA(dec), false); !same {
			return "decodes-to-other-picture", "vs the solo file: " + why
		}
	}
	return what, detail
}

// parkedWriterLeg runs the slow-writer scenarios; prop is the property the findings count against ("C02" in
// suite writer, "C10" in suite sched), sigPrefix the signature prefix. Returns false when an Encode hung.
func parkedWriterLeg(rep *Report, prop, sigPrefix string, rounds int, salt uint64) bool {
	defer runtime.GOMAXPROCS(runtime.GOMAXPROCS(0))
	ambient := runtime.GOMAXPROCS(0)
	sizes := [][2]int{{48, 40}, {17, 9}, {64, 64}, {120, 90}, {1, 300}, {33, 17}, {1025, 2}, {8, 8}}
	mkJob := func(r *RNG, name string, w, h int, lossless bool, acls int, meta bool) *parkJob {
		cls := []int{ClsNoise, ClsPhoto, ClsPal16, ClsGradient, ClsPal256}[r.Intn(5)]
		o := webp.DefaultOptions()
		o.Lossless = lossless
		o.Method = r.Intn(5)
		o.Quality = float32([]int{25, 50, 75, 90}[r.Intn(4)])
		o.Exact = r.Bool()
		if meta {
			o.EXIF = []byte("Exif\x00\x00parked")
		}
		return &parkJob{name: fmt.Sprintf("%s:%s lossless=%v m=%d q=%v exact=%v meta=%v", name, imgDesc(w, h, cls, acls), lossless, o.Method, o.Quality, o.Exact, meta),
			img: GenImage(r, w, h, cls, acls), o: o}
	}
	for rd := 0; rd < rounds; rd++ {
		r := NewRNG(rep.Seed, 0x7a000000+salt<<16+uint64(rd))
		sz := sizes[(rd+int(rep.Seed))%len(sizes)]
		w, h := sz[0], sz[1]
		// the parked encode: lossless; 3 of 4 without metadata (streaming path: the payload is written
		// straight from the encoder's buffer), 1 of 4 with (buffered path)
		a := mkJob(r, "parked", w, h, true, []int{AlphaNone, AlphaNone, AlphaGradient, AlphaBinary}[r.Intn(4)], rd%4 == 3)
		others := []*parkJob{
			mkJob(r, "other-same-size", w, h, true, AlphaNone, false),
			mkJob(r, "other-smaller", maxi(w/2, 1), maxi(h-1, 1), true, AlphaBinary, false),
			mkJob(r, "other-lossy+alpha", w, h, false, AlphaGradient, false),
		}
		all := append([]*parkJob{a}, others...)
		det := true
		for _, j := range all {
			b1, e1 := encodeBytes(j.img, j.o)
			b2, e2 := encodeBytes(j.img, j.o)
			if e1 != nil || e2 != nil {
				det = false
				break
			}
			if !bytes.Equal(b1, b2) {
				rep.Count("parked:solo-encode-not-deterministic(C11)")
				det = false
				break
			}
			j.solo = append([]byte(nil), b1...)
		}
		if !det {
			continue
		}
		for _, procs := range []int{1, ambient} {
			for _, wk := range []string{"gate", "gosched", "pipe"} {
				runtime.GOMAXPROCS(procs)
				got := make([][]byte, len(all))
				errs := make([]error, len(all))
				runOthers := func(parallel bool) {
					if !parallel {
						for k := 1; k < len(all); k++ {
							got[k], errs[k] = encodeBytes(all[k].img, all[k].o)
						}
						return
					}
					var wg sync.WaitGroup
					for k := 1; k < len(all); k++ {
						wg.Add(1)
						go func(k int) {
							defer wg.Done()
							defer func() {
								if e := recover(); e != nil {
									errs[k] = fmt.Errorf("panic: %v", e)
								}
							}()
							got[k], errs[k] = encodeBytes(all[k].img, all[k].o)
						}(k)
					}
					wg.Wait()
				}
				done := make(chan struct{})
				go func() {
					defer close(done)
					switch wk {
					case "gate":
						gw := &gateWriter{reached: make(chan struct{}), resume: make(chan struct{})}
						fin := make(chan error, 1)
						go func() {
							defer func() {
								if e := recover(); e != nil {
									fin <- fmt.Errorf("panic: %v", e)
								}
							}()
							fin <- webp.Encode(gw, a.img, a.o)
						}()
						select {
						case <-gw.reached: // the encode is now parked inside its first Write
							runOthers(procs != 1)
							close(gw.resume)
							errs[0] = <-fin
						case errs[0] = <-fin: // returned without writing anything
						}
						got[0] = gw.buf.Bytes()
					case "gosched":
						gw := &goschedWriter{r: NewRNG(rep.Seed, 0x7b000000+uint64(rd))}
						var wg sync.WaitGroup
						wg.Add(1)
						go func() {
							defer wg.Done()
							defer func() {
								if e := recover(); e != nil {
									errs[0] = fmt.Errorf("panic: %v", e)
								}
							}()
							errs[0] = webp.Encode(gw, a.img, a.o)
						}()
						runOthers(true)
						wg.Wait()
						got[0] = gw.buf.Bytes()
					case "pipe":
						pr, pw := io.Pipe()
						var col bytes.Buffer
						rdDone := make(chan struct{})
						go func() {
							defer close(rdDone)
							rr := NewRNG(rep.Seed, 0x7c000000+uint64(rd))
							buf := make([]byte, 97)
							for {
								n, err := pr.Read(buf[:1+rr.Intn(97)])
								col.Write(buf[:n])
								if err != nil {
									return
								}
								runtime.Gosched()
							}
						}()
						var wg sync.WaitGroup
						wg.Add(1)
						go func() {
							defer wg.Done()
							defer func() {
								if e := recover(); e != nil {
									errs[0] = fmt.Errorf("panic: %v", e)
								}
								pw.Close()
							}()
							errs[0] = webp.Encode(pw, a.img, a.o)
						}()
						runOthers(true)
						wg.Wait()
						<-rdDone
						got[0] = col.Bytes()
					}
				}()
				select {
				case <-done:
				case <-time.After(120 * time.Second):
					rep.Add(Finding{Kind: "property", Property: prop, Signature: sigPrefix + ":hang:" + wk,
						Detail: fmt.Sprintf("webp.Encode into a %s writer did not return within 120 s (GOMAXPROCS=%d, %s)", wk, procs, a.name),
						Input:  map[string]any{"op": "parked-writer", "seed": rep.Seed, "round": rd, "salt": salt, "writer": wk, "procs": procs}})
					return false
				}
				runtime.GOMAXPROCS(ambient)
				pk := "1"
				if procs != 1 {
					pk = "ambient"
				}
				rep.Count("parked:" + wk + ":GOMAXPROCS=" + pk)
				for k, j := range all {
					rep.Eval(true, []byte(fmt.Sprintf("parked %d %s %d %d %s", rd, wk, procs, k, digest(j.solo))))
					role := "parked-call"
					if k > 0 {
						role = "overlapping-call"
					}
					in := map[string]any{"op": "parked-writer", "seed": rep.Seed, "round": rd, "salt": salt, "writer": wk, "procs": procs, "job": j.name}
					if errs[k] != nil {
						// Encode may fail, but not on these valid pictures
						rep.Add(Finding{Kind: "property", Property: prop, Signature: sigPrefix + ":" + role + ":encode-error", Detail: fmt.Sprintf("%s: %v (writer %s, GOMAXPROCS=%d)", j.name, errs[k], wk, procs), Input: in})
						continue
					}
					if what, detail := j.check(got[k]); what != "" {
						rep.Add(Finding{Kind: "property", Property: prop, Signature: sigPrefix + ":" + role + ":" + what,
							Detail: fmt.Sprintf("%s: Encode returned nil, but %s (%s writer, GOMAXPROCS=%d; %d other encodes ran while the call was inside w.Write)", j.name, detail, wk, procs, len(others)), Input: in})
					}
				}
			}
		}
	}
	return true
}

func replayParkedWriter(in map[string]any) int {
	seed, _ := in["seed"].(float64)
	rd, _ := in["round"].(float64)
	salt, _ := in["salt"].(float64)
	rep := NewReport("parked-writer", "replay", uint64(seed))
	// rounds are independent: re-run rounds 0..rd (cheap) and show the findings
	parkedWriterLeg(rep, "C02", "encode:slow-writer", int(rd)+1, uint64(salt))
	for _, f := range rep.Findings {
		fmt.Printf("%s %s: %s\n", f.Property, f.Signature, f.Detail)
	}
	if len(rep.Findings) > 0 {
		return 1
	}
	fmt.Println("go: every slow-writer scenario produced the solo bytes")
	return 0
}
