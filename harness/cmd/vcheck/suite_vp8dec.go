package main

// Suite "vp8dec" — property C04: tie between the Lean transcription of the VP8 decoder's loop-filter
// PARAMETERS (Webp.Impl.VP8DecFilter: precomputeFilterStrengths + parseFilterHeader's filterType) and the
// real code (hook lossy.VerifFilterStrengths / verifapi.VP8FilterStrengths). The theorem
// Webp.Props.C04Refine.loopfilter_params_eq_spec is about that model; this suite is what ties the model to Go.
//
//	fstr <level> <sharp> <useDelta> <ref0> <mode0> <useSeg> <abs> <fs0,fs1,fs2,fs3> <simple>
//	     -> ok <limit>,<ilevel>,<hev>,<inner>;…   for (segment, i4x4) = (0,0),(0,1),(1,0),…,(3,1)
//	dofilter <filterType> <limit> <ilevel> <hev> <inner> <mbX> <mbY> <yStride> <uvStride> <y> <u> <v>
//	     -> ok <y> <u> <v>   the three cache planes after the real doFilter(mbX, mbY) (hook lossy.VerifDoFilter)
//	        vs Webp.Impl.VP8DecEdges.doFilter: frames of 1..3 x 1..3 macroblocks (strides with 0..8 bytes of padding),
//	        every macroblock position incl. the first row / column, both filter types, limit 0..189, ilevel 1..63,
//	        hev 0..2, inner on/off; plane contents: smooth random walks (filters fire), noise, flat with 4x4 steps,
//	        extremes 0/255
//
// Generation: (a) every level 0..63 x sharpness 0..7 without deltas/segments, and with one fixed delta and
// segment setting per (level, sharpness); (b) random headers: level 0..63, sharpness 0..7, ref/mode deltas
// -63..63 (the 6-bit signed fields) and, 1 in 8, anything in -200..200; segment strengths -63..63 and, 1 in 8,
// any int8; absolute and delta mode; simple and normal filter. All lines are compared verbatim.

import (
	"fmt"

	"github.com/deepteams/webp/verifapi"
)

func init() { suites["vp8dec"] = suiteVP8Dec }

type vp8decCase struct {
	level, sharp, ref0, mode0 int
	useDelta, useSeg, abs     bool
	fs                        [4]int8
	simple                    bool
}

func vd01(b bool) int {
	if b {
		return 1
	}
	return 0
}

func (c vp8decCase) line() string {
	return fmt.Sprintf("fstr %d %d %d %d %d %d %d %d,%d,%d,%d %d", c.level, c.sharp, vd01(c.useDelta), c.ref0, c.mode0,
		vd01(c.useSeg), vd01(c.abs), c.fs[0], c.fs[1], c.fs[2], c.fs[3], vd01(c.simple))
}

func (c vp8decCase) goLine() string {
	t := verifapi.VP8FilterStrengths(c.level, c.sharp, c.useDelta, c.ref0, c.mode0, c.useSeg, c.abs, c.fs, c.simple)
	s := "ok "
	for seg := 0; seg < 4; seg++ {
		for i := 0; i < 2; i++ {
			f := t[seg][i]
			if seg+i > 0 {
				s += ";"
			}
			s += fmt.Sprintf("%d,%d,%d,%d", f.Limit, f.ILevel, f.Hev, vd01(f.Inner))
		}
	}
	return s
}

func suiteVP8Dec(rep *Report) error {
	rep.Rule = "op fstr: every level 0..63 x sharpness 0..7 (plain, and with one delta+segment setting each), plus random headers (deltas -63..63, 1 in 8 up to +-200; segment strengths -63..63, 1 in 8 any int8; absolute/delta mode; simple/normal filter); Go precomputeFilterStrengths on a fresh decoder vs the Lean model, lines verbatim; non-trivial = frame level > 0 (the table is computed)"
	var cases []vp8decCase
	for level := 0; level < 64; level++ {
		for sharp := 0; sharp < 8; sharp++ {
			cases = append(cases, vp8decCase{level: level, sharp: sharp})
			cases = append(cases, vp8decCase{level: level, sharp: sharp, useDelta: true, ref0: (level*7+sharp)%31 - 15, mode0: (level*3+sharp*5)%21 - 10,
				useSeg: true, abs: (level+sharp)%2 == 0, fs: [4]int8{int8(level - 30), int8(63 - level), int8(sharp * 9), -7}, simple: sharp%3 == 0})
		}
	}
	n := 20000
	if rep.Tier == "thorough" {
		n = 400000
	}
	for i := 0; i < n; i++ {
		r := NewRNG(rep.Seed, uint64(i))
		c := vp8decCase{level: r.Intn(64), sharp: r.Intn(8), useDelta: r.Chance(3, 4), useSeg: r.Chance(2, 3), abs: r.Bool(), simple: r.Chance(1, 4)}
		if r.Chance(1, 10) {
			c.level = r.Pick([]int{0, 1, 14, 15, 39, 40, 62, 63})
		}
		d := func() int {
			if r.Chance(1, 8) {
				return r.Intn(401) - 200
			}
			return r.Intn(127) - 63
		}
		c.ref0, c.mode0 = d(), d()
		for k := range c.fs {
			if r.Chance(1, 8) {
				c.fs[k] = int8(r.Intn(256) - 128)
			} else {
				c.fs[k] = int8(r.Intn(127) - 63)
			}
		}
		cases = append(cases, c)
	}
	if err := vp8decDoFilter(rep); err != nil {
		return err
	}
	lines := make([]string, len(cases))
	goOut := make([]string, len(cases))
	for i, c := range cases {
		lines[i] = c.line()
		c := c
		goOut[i], _ = guard(func() string { return c.goLine() })
	}
	lean, err := RunDriver(lines)
	if err != nil {
		return err
	}
	for i, c := range cases {
		rep.Eval(c.level > 0, []byte(lines[i]))
		switch {
		case c.level == 0:
			rep.Count("level:0(frame-not-filtered)")
		case c.level < 15:
			rep.Count("level:1-14")
		case c.level < 40:
			rep.Count("level:15-39")
		default:
			rep.Count("level:40-63")
		}
		rep.Count(fmt.Sprintf("sharpness:%d", c.sharp))
		if c.useSeg {
			if c.abs {
				rep.Count("segments:absolute")
			} else {
				rep.Count("segments:delta")
			}
		}
		if c.useDelta {
			rep.Count("lf-deltas")
		}
		if goOut[i] != lean[i] {
			rep.Add(Finding{Kind: "correspondence", Property: "C04", Signature: "vp8dec:filter-strengths",
				Detail: fmt.Sprintf("go=%q lean=%q", goOut[i], lean[i]), Input: map[string]any{"op": "fstr", "line": lines[i]}})
		}
	}
	return nil
}

func vdOut(b []byte) string {
	if len(b) > 4096 {
		return "d:" + digest(b)
	}
	return "x:" + hexRaw(b)
}

// vp8decPlane draws stride*rows bytes of one of four content classes.
func vp8decPlane(r *RNG, n int, class int, stride int) []byte {
	b := make([]byte, n)
	switch class {
	case 0: // smooth random walk
		v := 40 + r.Intn(176)
		for i := range b {
			v += r.Intn(7) - 3
			if v < 0 {
				v = 0
			}
			if v > 255 {
				v = 255
			}
			b[i] = byte(v)
		}
	case 1: // noise
		copy(b, r.Bytes(n))
	case 2: // flat 4x4 tiles with small steps
		base := 60 + r.Intn(130)
		tiles := make([]int, 64*64)
		for i := range tiles {
			tiles[i] = base + r.Intn(13) - 6
		}
		for i := range b {
			x, y := i%stride, i/stride
			b[i] = byte(tiles[((y/4)%64)*64+(x/4)%64])
		}
	default: // extremes
		for i := range b {
			if r.Chance(1, 2) {
				b[i] = 255
			}
		}
	}
	return b
}

func vp8decDoFilter(rep *Report) error {
	n := 3000
	if rep.Tier == "thorough" {
		n = 60000
	}
	lines := make([]string, n)
	goOut := make([]string, n)
	classes := []string{"walk", "noise", "tiles", "extremes"}
	for i := 0; i < n; i++ {
		r := NewRNG(rep.Seed, uint64(5_000_000+i))
		mbW, mbH := 1+r.Intn(3), 1+r.Intn(3)
		mbX, mbY := r.Intn(mbW), r.Intn(mbH)
		yStride, uvStride := 16*mbW+r.Intn(9), 8*mbW+r.Intn(9)
		class := r.Intn(4)
		y := vp8decPlane(r, yStride*16*mbH, class, yStride)
		u := vp8decPlane(r, uvStride*8*mbH, class, uvStride)
		v := vp8decPlane(r, uvStride*8*mbH, class, uvStride)
		ft := 1 + r.Intn(2)
		limit := r.Intn(190)
		if r.Chance(1, 3) {
			limit = r.Intn(40)
		}
		ilevel, hev, inner := 1+r.Intn(63), r.Intn(3), r.Bool()
		lines[i] = fmt.Sprintf("dofilter %d %d %d %d %d %d %d %d %d %s %s %s", ft, limit, ilevel, hev, vd01(inner), mbX, mbY,
			yStride, uvStride, hexRaw(y), hexRaw(u), hexRaw(v))
		goOut[i], _ = guard(func() string {
			gy, gu, gv := verifapi.VP8DoFilter(ft, limit, ilevel, hev, inner, mbX, mbY, yStride, uvStride, y, u, v)
			changed := "same"
			if string(gy) != string(y) || string(gu) != string(u) || string(gv) != string(v) {
				changed = "changed"
			}
			rep.Count("dofilter:" + classes[class] + ":" + changed)
			return "ok " + vdOut(gy) + " " + vdOut(gu) + " " + vdOut(gv)
		})
		rep.Count(fmt.Sprintf("dofilter:type%d", ft))
		if mbX == 0 || mbY == 0 {
			rep.Count("dofilter:frame-edge-macroblock")
		}
		if limit == 0 {
			rep.Count("dofilter:limit0")
		}
	}
	lean, err := RunDriver(lines)
	if err != nil {
		return err
	}
	for i := range lines {
		rep.Eval(true, []byte(lines[i]))
		if goOut[i] != lean[i] {
			l := lines[i]
			if len(l) > 600 {
				l = l[:600] + "…"
			}
			rep.Add(Finding{Kind: "correspondence", Property: "C04", Signature: "vp8dec:dofilter",
				Detail: fmt.Sprintf("go=%.200q lean=%.200q", goOut[i], lean[i]), Input: map[string]any{"op": "dofilter", "line": l}})
		}
	}
	return nil
}
