package main

// Suite "vp8dec" — property C04: tie between the Lean transcription of the VP8 decoder's loop-filter
// PARAMETERS (Webp.Impl.VP8DecFilter: precomputeFilterStrengths + parseFilterHeader's filterType) and the
// real code (hook lossy.VerifFilterStrengths / verifapi.VP8FilterStrengths). The theorem
// Webp.Props.C04Refine.loopfilter_params_eq_spec is about that model; this suite is what ties the model to Go.
//
//	fstr <level> <sharp> <useDelta> <ref0> <mode0> <useSeg> <abs> <fs0,fs1,fs2,fs3> <simple>
//	     -> ok <limit>,<ilevel>,<hev>,<inner>;…   for (segment, i4x4) = (0,0),(0,1),(1,0),…,(3,1)
//
// Generation: (a) every level 0..63 x sharpness 0..7 without deltas/segments, and with one fixed delta and
// segment setting per (level, sharpness); (b) random headers: level 0..63, sharpness 0..7, ref/mode deltas
// -63..63 (the 6-bit signed fields) and, 1 in 8, anything in -200..200; segment strengths -63..63 and, 1 in 8,
// any int8; absolute and delta mode; simple and normal filter. All lines are compared verbatim.

import (
	"fmt"

	"github.com/deepteams/webp/verifapi"
)

func init() { suites["vp8dec"] = suiteVP8Dec }

type vp8decCase struct {
	level, sharp, ref0, mode0 int
	useDelta, useSeg, abs     bool
	fs                        [4]int8
	simple                    bool
}

func vd01(b bool) int {
	if b {
		return 1
	}
	return 0
}

func (c vp8decCase) line() string {
	return fmt.Sprintf("fstr %d %d %d %d %d %d %d %d,%d,%d,%d %d", c.level, c.sharp, vd01(c.useDelta), c.ref0, c.mode0,
		vd01(c.useSeg), vd01(c.abs), c.fs[0], c.fs[1], c.fs[2], c.fs[3], vd01(c.simple))
}

func (c vp8decCase) goLine() string {
	t := verifapi.VP8FilterStrengths(c.level, c.sharp, c.useDelta, c.ref0, c.mode0, c.useSeg, c.abs, c.fs, c.simple)
	s := "ok "
	for seg := 0; seg < 4; seg++ {
		for i := 0; i < 2; i++ {
			f := t[seg][i]
			if seg+i > 0 {
				s += ";"
			}
			s += fmt.Sprintf("%d,%d,%d,%d", f.Limit, f.ILevel, f.Hev, vd01(f.Inner))
		}
	}
	return s
}

func suiteVP8Dec(rep *Report) error {
	rep.Rule = "op fstr: every level 0..63 x sharpness 0..7 (plain, and with one delta+segment setting each), plus random headers (deltas -63..63, 1 in 8 up to +-200; segment strengths -63..63, 1 in 8 any int8; absolute/delta mode; simple/normal filter); Go precomputeFilterStrengths on a fresh decoder vs the Lean model, lines verbatim; non-trivial = frame level > 0 (the table is computed)"
	var cases []vp8decCase
	for level := 0; level < 64; level++ {
		for sharp := 0; sharp < 8; sharp++ {
			cases = append(cases, vp8decCase{level: level, sharp: sharp})
			cases = append(cases, vp8decCase{level: level, sharp: sharp, useDelta: true, ref0: (level*7+sharp)%31 - 15, mode0: (level*3+sharp*5)%21 - 10,
				useSeg: true, abs: (level+sharp)%2 == 0, fs: [4]int8{int8(level - 30), int8(63 - level), int8(sharp * 9), -7}, simple: sharp%3 == 0})
		}
	}
	n := 20000
	if rep.Tier == "thorough" {
		n = 400000
	}
	for i := 0; i < n; i++ {
		r := NewRNG(rep.Seed, uint64(i))
		c := vp8decCase{level: r.Intn(64), sharp: r.Intn(8), useDelta: r.Chance(3, 4), useSeg: r.Chance(2, 3), abs: r.Bool(), simple: r.Chance(1, 4)}
		if r.Chance(1, 10) {
			c.level = r.Pick([]int{0, 1, 14, 15, 39, 40, 62, 63})
		}
		d := func() int {
			if r.Chance(1, 8) {
				return r.Intn(401) - 200
			}
			return r.Intn(127) - 63
		}
		c.ref0, c.mode0 = d(), d()
		for k := range c.fs {
			if r.Chance(1, 8) {
				c.fs[k] = int8(r.Intn(256) - 128)
			} else {
				c.fs[k] = int8(r.Intn(127) - 63)
			}
		}
		cases = append(cases, c)
	}
	lines := make([]string, len(cases))
	goOut := make([]string, len(cases))
	for i, c := range cases {
		lines[i] = c.line()
		c := c
		goOut[i], _ = guard(func() string { return c.goLine() })
	}
	lean, err := RunDriver(lines)
	if err != nil {
		return err
	}
	for i, c := range cases {
		rep.Eval(c.level > 0, []byte(lines[i]))
		switch {
		case c.level == 0:
			rep.Count("level:0(frame-not-filtered)")
		case c.level < 15:
			rep.Count("level:1-14")
		case c.level < 40:
			rep.Count("level:15-39")
		default:
			rep.Count("level:40-63")
		}
		rep.Count(fmt.Sprintf("sharpness:%d", c.sharp))
		if c.useSeg {
			if c.abs {
				rep.Count("segments:absolute")
			} else {
				rep.Count("segments:delta")
			}
		}
		if c.useDelta {
			rep.Count("lf-deltas")
		}
		if goOut[i] != lean[i] {
			rep.Add(Finding{Kind: "correspondence", Property: "C04", Signature: "vp8dec:filter-strengths",
				Detail: fmt.Sprintf("go=%q lean=%q", goOut[i], lean[i]), Input: map[string]any{"op": "fstr", "line": lines[i]}})
		}
	}
	return nil
}
