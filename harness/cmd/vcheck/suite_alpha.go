package main

// Suite "alpha" — property C07 (lossy encoding preserves alpha exactly by default).
//
// Tie between the Lean model Webp.Impl.Alpha and /repo/internal/lossy/alpha.go, by observable:
//   alphaFilter*/alphaUnfilter*          exact   hooks verifapi.AlphaFilter/AlphaUnfilter         (ops alfilter, alunfilter)
//   quantizeLevels                       exact   vs the binary64 numeric model  (op alquant f64); the exact-rational
//                                        model (op alquant exact) is compared too, a difference there is only counted
//   getFilterMap/estimateBestFilter/getNumColors   exact                                         (op alfmap)
//   alphaVP8LStream                      exact                                                    (op alstream)
//   DecodeAlpha                          exact   every header byte x right/short/long raw payloads; for the lossless
//                                        method the value of lossless.DecodeVP8L is handed to the model (op aldec)
//   EncodeAlpha                          exact   raw method: no oracle; lossless method: the four lossless.Encode
//                                        outputs are handed to the model as its codec oracle       (op alenc)
//   header byte                          exact   vs encodeAlphaInternal's first byte                (op alpack)
//   imageHasAlpha/extractAlphaWith       exact   NRGBA, NRGBA sub-image (also full parent width), RGBA, and the generic
//                                        img.At() path: image.Image-only wrapper, NRGBA64, RGBA64, Paletted (graded-alpha
//                                        palette), Alpha, each on a rectangle with Min=(mx,my), mostly mx != my (op alextract)
//   quality -> level count               the documented mapping in alpha.go's comment vs the model (op allevels)
// plus, on the real code only (Kind "property"): unfilter∘filter = id, DecodeAlpha∘EncodeAlpha = id (quality 100)
// or = quantizeLevels (quality < 100), level count / min / max of quantizeLevels, and END-TO-END
// webp.Encode (lossy) -> webp.Decode over AlphaCompression x AlphaFiltering x AlphaQuality x Method x Exact x pattern
// x storage kind of the source (the nine kinds above) x bounds origin, plus wide pictures (WideWidths x WideHeights) and
// threshold-crossing sizes (thresholds.go) with cheap content, banded planes sized after the tile geometry of the
// compressed plane (alBand*) and planes with exactly n levels around the colour-count thresholds, the last two
// also in the chunk leg DecodeAlpha(EncodeAlpha(a)) = a.

import (
	"bytes"
	"encoding/hex"
	"fmt"
	"image"
	"image/color"
	"os"
	"regexp"
	"runtime"
	"strconv"
	"strings"
	"sync"

	webp "github.com/deepteams/webp"
	"github.com/deepteams/webp/verifapi"
)

func init() {
	suites["alpha"] = suiteAlpha
	replayers["alline"] = replayAlphaLine
	replayers["alpha-e2e"] = replayAlphaE2E
	replayers["alpha-plane"] = replayAlphaPlane
}

// ---------- planes ----------

const (
	plBinary = iota
	plFew
	plGradient
	plNoise
	plRamp
	plFlat
	plSmooth
	plNear
	numPlaneClasses
)

var planeClassNames = []string{"binary", "few", "gradient", "noise", "ramp", "flat", "smooth", "near"}

func genPlane(r *RNG, w, h, cls int) []byte {
	p := make([]byte, w*h)
	blk := 1 + r.Intn(5)
	nl := 3 + r.Intn(6)
	lv := make([]byte, nl)
	for i := range lv {
		lv[i] = byte(r.Next())
	}
	if r.Bool() {
		lv[0], lv[nl-1] = 0, 255
	}
	flat := byte(r.Next())
	if r.Chance(1, 4) {
		flat = 255
	}
	dir := r.Intn(3)
	base := byte(r.Next())
	for y := 0; y < h; y++ {
		for x := 0; x < w; x++ {
			var v byte
			switch cls {
			case plBinary:
				if ((x/blk)+(y/blk))%3 == 0 {
					v = 0
				} else {
					v = 255
				}
			case plFew:
				v = lv[((x/blk)*3+(y/blk))%nl]
			case plGradient:
				switch dir {
				case 0:
					v = byte(x * 255 / maxi(w-1, 1))
				case 1:
					v = byte(y * 255 / maxi(h-1, 1))
				default:
					v = byte((x + y) * 255 / maxi(w+h-2, 1))
				}
			case plNoise:
				v = byte(r.Next())
			case plRamp:
				v = byte(y*w + x)
			case plFlat:
				v = flat
			case plSmooth:
				t := (x*3+y*5)*255/maxi(3*w+5*h, 1) + int(r.Next()%5) - 2
				if t < 0 {
					t = 0
				}
				if t > 255 {
					t = 255
				}
				v = byte(t)
			case plNear:
				v = base + byte(r.Intn(3))
			}
			p[y*w+x] = v
		}
	}
	return p
}

func cropPlane(p []byte, w, x0, y0, cw, ch int) []byte {
	out := make([]byte, cw*ch)
	for y := 0; y < ch; y++ {
		copy(out[y*cw:(y+1)*cw], p[(y0+y)*w+x0:(y0+y)*w+x0+cw])
	}
	return out
}

func planeStats(p []byte) (distinct, mn, mx int) {
	var seen [256]bool
	mn, mx = 255, 0
	for _, v := range p {
		if !seen[v] {
			seen[v] = true
			distinct++
		}
		if int(v) < mn {
			mn = int(v)
		}
		if int(v) > mx {
			mx = int(v)
		}
	}
	return
}

// docAlphaLevels is the quality -> level-count mapping documented in alpha.go
// ("Quality:[0, 70] -> Levels:[2, 16]; Quality:]70, 100] -> Levels:]16, 256]", both linear).
func docAlphaLevels(q int) int {
	if q <= 70 {
		return 2 + q/5
	}
	return 16 + (q-70)*8
}

func alphaErrClass(err error) string {
	m := err.Error()
	for _, p := range []struct{ prefix, cls string }{
		{"alpha: empty data", "empty"}, {"alpha: invalid dimensions", "dims"}, {"alpha: plane too large", "toolarge"},
		{"alpha: truncated uncompressed", "truncated"}, {"alpha: VP8L decode failed", "vp8l"},
		{"alpha: decoded image", "small"}, {"alpha: pixel offset", "oob"}, {"alpha: unknown compression", "method"},
		{"alpha: unknown filter", "filter"}, {"alpha: input too short", "short"}, {"alpha: invalid method", "method"},
		{"alpha: VP8L encode produced truncated", "trunc"}, {"alpha: VP8L encode failed", "vp8l"},
	} {
		if strings.HasPrefix(m, p.prefix) {
			return "err " + p.cls
		}
	}
	return "err other"
}

// ---------- protocol lines: (line, Go's answer) ----------

type alItem struct {
	line  string
	goL   string
	pm    string
	kind  string
	soft  bool                                      // a difference is only counted (exact-rational quantiser model)
	remk  func(w, h int, p []byte) (string, string) // rebuild (line, go) for a cropped plane; nil = not shrinkable
	w, h  int
	plane []byte
	extra map[string]any // added to the finding input (what a replay needs beyond the line), may be nil
	sig   string         // suffix of the finding signature, may be empty
}

func mkFilter(f int) func(w, h int, p []byte) (string, string) {
	return func(w, h int, p []byte) (string, string) {
		g, _ := guard(func() string { return "ok " + digest(verifapi.AlphaFilter(f, p, w, h)) })
		return fmt.Sprintf("alfilter %d %d %d %s", f, w, h, hx(p)), g
	}
}

func mkUnfilter(f int) func(w, h int, p []byte) (string, string) {
	return func(w, h int, p []byte) (string, string) {
		g, _ := guard(func() string {
			c := append([]byte(nil), p...)
			verifapi.AlphaUnfilter(f, c, w, h)
			return "ok " + digest(c)
		})
		return fmt.Sprintf("alunfilter %d %d %d %s", f, w, h, hx(p)), g
	}
}

func mkQuant(model string, n int) func(w, h int, p []byte) (string, string) {
	return func(w, h int, p []byte) (string, string) {
		g, _ := guard(func() string {
			c := append([]byte(nil), p...)
			verifapi.AlphaQuantizeLevels(c, w, h, n)
			d, mn, mx := planeStats(c)
			return fmt.Sprintf("ok %s n=%d min=%d max=%d", digest(c), d, mn, mx)
		})
		return fmt.Sprintf("alquant %s %d %d %d %s", model, w, h, n, hx(p)), g
	}
}

func mkFmap(mode, effort int) func(w, h int, p []byte) (string, string) {
	return func(w, h int, p []byte) (string, string) {
		g, _ := guard(func() string {
			return fmt.Sprintf("ok map=%d colors=%d est=%d", verifapi.AlphaGetFilterMap(p, w, h, mode, effort),
				verifapi.AlphaGetNumColors(p, w, h), verifapi.AlphaEstimateBestFilter(p, w, h))
		})
		return fmt.Sprintf("alfmap %d %d %d %d %s", mode, effort, w, h, hx(p)), g
	}
}

// ---------- storage kinds: how a picture (or an alpha plane) is held in memory ----------

const (
	alStNRGBA    = iota // *image.NRGBA (fast path of imageHasAlpha / extractAlphaWith)
	alStSubNRGBA        // *image.NRGBA sub-image at parent offset (2,1), Stride > 4*w (fast path)
	alStRGBA            // *image.RGBA, premultiplied (fast path)
	alStGeneric         // image.Image-only wrapper over an NRGBA: only At/Bounds/ColorModel (generic path)
	alStNRGBA64         // *image.NRGBA64 (generic path)
	alStRGBA64          // *image.RGBA64, premultiplied (generic path)
	alStPaletted        // *image.Paletted, 256-entry palette whose entry i has alpha i (generic path)
	alStAlpha           // *image.Alpha (generic path)
	alStSubBand         // *image.NRGBA sub-image with x-origin 0 and the parent's full width: Stride == 4*w, parent rows above and below (fast path)
	numAlStorage
)

var alStorageNames = []string{"NRGBA", "subimage", "RGBA", "generic", "NRGBA64", "RGBA64", "Paletted", "Alpha", "subband"}

func alStorageByName(n string) (int, bool) {
	for i, s := range alStorageNames {
		if s == n {
			return i, true
		}
	}
	return 0, false
}

// alPlace = storage kind + Bounds().Min of the source picture handed to the encoder.
type alPlace struct{ st, ox, oy int }

func (p alPlace) isDefault() bool { return p == alPlace{} }
func (p alPlace) String() string {
	return fmt.Sprintf("%s@(%d,%d)", alStorageNames[p.st], p.ox, p.oy)
}

// originClass names the relation between Min.X and Min.Y (row/column origin mix-ups need Min.X != Min.Y).
func (p alPlace) originClass() string {
	switch {
	case p.ox == 0 && p.oy == 0:
		return "zero"
	case p.ox == p.oy:
		return "equal"
	case p.oy == 0:
		return "x-only"
	case p.ox == 0:
		return "y-only"
	case p.ox < 0 || p.oy < 0:
		return "negative"
	}
	return "both"
}

// alOrigins: Bounds().Min values; all but the last three have Min.X != Min.Y.
var alOrigins = [][2]int{{-3, 2}, {5, 0}, {0, 4}, {-7, -2}, {11, 3}, {2, 9}, {-1, -6}, {1, 0}, {0, 1}, {0, -1}, {-2, 0}, {3, -4}, {4, 4}, {-5, -5}, {0, 0}}

func alDrawOrigin(r *RNG) (int, int) {
	o := alOrigins[r.Intn(len(alOrigins))]
	return o[0], o[1]
}

// alGenericImage hides the concrete type: only At()/Bounds()/ColorModel() are available.
type alGenericImage struct{ im image.Image }

func (g alGenericImage) ColorModel() color.Model { return g.im.ColorModel() }
func (g alGenericImage) Bounds() image.Rectangle { return g.im.Bounds() }
func (g alGenericImage) At(x, y int) color.Color { return g.im.At(x, y) }

// alPaletteGraded: entry i has alpha i (so that every alpha value is representable exactly).
func alPaletteGraded() color.Palette {
	pal := make(color.Palette, 256)
	for i := range pal {
		pal[i] = color.NRGBA{byte(i * 3), byte(255 - i), byte(i ^ 0x5a), byte(i)}
	}
	return pal
}

// alStore re-stores the picture src in storage kind pl.st on a rectangle whose Min is (pl.ox, pl.oy). The alpha
// the result holds at (Min.X+x, Min.Y+y) is exactly src's alpha at (x, y) for every kind (RGBA / RGBA64 are
// premultiplied, Paletted / Alpha drop the colours: colours are not part of C07). Deterministic: no RNG.
func alStore(src *image.NRGBA, pl alPlace) image.Image {
	if pl.isDefault() && src.Rect.Min == (image.Point{}) {
		return src
	}
	sb := src.Bounds()
	w, h := sb.Dx(), sb.Dy()
	ox, oy := pl.ox, pl.oy
	rect := image.Rect(ox, oy, ox+w, oy+h)
	each := func(f func(x, y int, c color.NRGBA)) {
		for y := 0; y < h; y++ {
			for x := 0; x < w; x++ {
				f(x, y, src.NRGBAAt(sb.Min.X+x, sb.Min.Y+y))
			}
		}
	}
	switch pl.st {
	case alStSubNRGBA, alStSubBand:
		pr, sr := image.Rect(ox, oy, ox+w+3, oy+h+2), image.Rect(ox+2, oy+1, ox+2+w, oy+1+h)
		if pl.st == alStSubBand {
			pr, sr = image.Rect(ox, oy, ox+w, oy+h+3), image.Rect(ox, oy+1, ox+w, oy+1+h)
		}
		big := image.NewNRGBA(pr)
		for i := range big.Pix {
			big.Pix[i] = 0x55 // alpha 0x55 outside the sub-image: must not be seen
		}
		sub := big.SubImage(sr).(*image.NRGBA)
		each(func(x, y int, c color.NRGBA) { sub.SetNRGBA(sr.Min.X+x, sr.Min.Y+y, c) })
		return sub
	case alStRGBA:
		d := image.NewRGBA(rect)
		each(func(x, y int, c color.NRGBA) { d.Set(ox+x, oy+y, c) })
		return d
	case alStNRGBA64:
		d := image.NewNRGBA64(rect)
		each(func(x, y int, c color.NRGBA) {
			d.SetNRGBA64(ox+x, oy+y, color.NRGBA64{uint16(c.R) * 0x101, uint16(c.G) * 0x101, uint16(c.B) * 0x101, uint16(c.A) * 0x101})
		})
		return d
	case alStRGBA64:
		d := image.NewRGBA64(rect)
		each(func(x, y int, c color.NRGBA) { d.Set(ox+x, oy+y, c) })
		return d
	case alStPaletted:
		d := image.NewPaletted(rect, alPaletteGraded())
		each(func(x, y int, c color.NRGBA) { d.SetColorIndex(ox+x, oy+y, c.A) })
		return d
	case alStAlpha:
		d := image.NewAlpha(rect)
		each(func(x, y int, c color.NRGBA) { d.SetAlpha(ox+x, oy+y, color.Alpha{c.A}) })
		return d
	}
	d := image.NewNRGBA(rect)
	each(func(x, y int, c color.NRGBA) { d.SetNRGBA(ox+x, oy+y, c) })
	if pl.st == alStGeneric {
		return alGenericImage{d}
	}
	return d
}

// imgFromAlphaAt wraps alpha samples into an image of the given storage kind whose Bounds().Min is (ox, oy)
// (for the two sub-image kinds (ox, oy) is the parent's Min). The expected plane of op alextract is p itself:
// the alpha the picture holds at (Min.X+x, Min.Y+y) is p[y*w+x].
func imgFromAlphaAt(p []byte, w, h int, pl alPlace) image.Image {
	img := image.NewNRGBA(image.Rect(0, 0, w, h))
	for y := 0; y < h; y++ {
		for x := 0; x < w; x++ {
			img.SetNRGBA(x, y, color.NRGBA{byte(x * 7), byte(y * 5), 9, p[y*w+x]})
		}
	}
	return alStore(img, pl)
}

// imgFromAlpha: storage kind at the origin.
func imgFromAlpha(p []byte, w, h, kind int) image.Image {
	return imgFromAlphaAt(p, w, h, alPlace{st: kind})
}

func mkExtractAt(pl alPlace) func(w, h int, p []byte) (string, string) {
	return func(w, h int, p []byte) (string, string) {
		g, _ := guard(func() string {
			img := imgFromAlphaAt(p, w, h, pl)
			return fmt.Sprintf("ok has=%s %s", b2s(webp.VerifImageHasAlpha(img)), digestOpt(webp.VerifExtractAlpha(img)))
		})
		return "alextract " + hx(p), g
	}
}

func mkExtract(kind int) func(w, h int, p []byte) (string, string) {
	return mkExtractAt(alPlace{st: kind})
}

func (p alPlace) input() map[string]any {
	return map[string]any{"storage": alStorageNames[p.st], "ox": p.ox, "oy": p.oy}
}

// alPlaceFromInput reads the storage kind and origin of a replay input (absent = NRGBA at the origin).
func alPlaceFromInput(in map[string]any) (alPlace, bool) {
	var pl alPlace
	if n, present := in["storage"].(string); present {
		st, ok := alStorageByName(n)
		if !ok {
			return pl, false
		}
		pl.st = st
	}
	if v, ok := in["ox"].(float64); ok {
		pl.ox = int(v)
	}
	if v, ok := in["oy"].(float64); ok {
		pl.oy = int(v)
	}
	return pl, true
}

// alphaEncOracle computes the four lossless.Encode values EncodeAlpha may ask for.
func alphaEncOracle(p []byte, w, h, quality, effort int) []string {
	out := []string{"-", "-", "-", "-"}
	if w <= 0 || h <= 0 || len(p) < w*h {
		return out
	}
	if quality < 0 {
		quality = 0
	}
	if quality > 100 {
		quality = 100
	}
	if effort < 0 {
		effort = 0
	}
	if effort > 6 {
		effort = 6
	}
	qa := append([]byte(nil), p[:w*h]...)
	reduce := quality < 100
	if reduce {
		verifapi.AlphaQuantizeLevels(qa, w, h, docAlphaLevels(quality))
	}
	q := 8 * effort
	if !reduce && effort == 6 {
		q = 100
	}
	for f := 0; f < 4; f++ {
		src := verifapi.AlphaFilter(f, qa, w, h)
		argb := make([]uint32, w*h)
		for i, a := range src {
			argb[i] = 0xff000000 | uint32(a)<<8
		}
		s, err := verifapi.LosslessEncodeARGB(argb, w, h, q, effort)
		v := "x"
		if err == nil {
			v = hx(s)
		}
		out[f] = fmt.Sprintf("%d;%d;%s;%s", q, effort, digest(src), v)
	}
	return out
}

func mkEnc(quality, method, mode, effort int, wOverride, hOverride *int) func(w, h int, p []byte) (string, string) {
	return func(w, h int, p []byte) (string, string) {
		ew, eh := w, h
		if wOverride != nil {
			ew = *wOverride
		}
		if hOverride != nil {
			eh = *hOverride
		}
		or := []string{"-", "-", "-", "-"}
		if method == 1 {
			guard(func() string { or = alphaEncOracle(p, ew, eh, quality, effort); return "" })
		}
		line := fmt.Sprintf("alenc %d %d %d %d %d %d %s %s", ew, eh, quality, method, mode, effort, hx(p), join(or, " "))
		g, _ := guard(func() string {
			b, err := verifapi.EncodeAlpha(p, ew, eh, &verifapi.AlphaEncoderConfig{Quality: quality, Method: method, Filter: mode, EffortLevel: effort})
			if err != nil {
				return alphaErrClass(err)
			}
			return fmt.Sprintf("ok hdr=%d %s", b[0], digest(b))
		})
		return line, g
	}
}

// goDecLine runs DecodeAlpha and builds the decoder oracle the model needs for the lossless method.
func goDecLine(data []byte, w, h int) (line, goL string) {
	oracle := "-"
	goL, _ = guardT(func() string { // deadline: a decode that does not return is the line "hang"
		if len(data) > 0 && data[0]&3 == 1 && w > 0 && h > 0 && uint64(w)*uint64(h) <= 1<<30 {
			img, err := verifapi.DecodeVP8L(verifapi.AlphaVP8LStream(data[1:], w, h))
			if err != nil {
				oracle = "none"
			} else {
				dw, dh := img.Bounds().Dx(), img.Bounds().Dy()
				g := make([]byte, dw*dh)
				for y := 0; y < dh; y++ {
					for x := 0; x < dw; x++ {
						g[y*dw+x] = img.Pix[img.PixOffset(x, y)+1]
					}
				}
				oracle = fmt.Sprintf("%d,%d,%s", dw, dh, hx(g))
			}
		}
		out, err := verifapi.DecodeAlpha(data, w, h)
		if err != nil {
			return alphaErrClass(err)
		}
		return "ok " + digest(out)
	})
	return fmt.Sprintf("aldec %d %d %s %s", w, h, hx(data), oracle), goL
}

// ---------- batch: run, compare, shrink ----------

// alMaxShrinkPerSig: findings minimised per signature and batch (Report.Add keeps five per signature).
const alMaxShrinkPerSig = 2

type alBatch struct {
	rep   *Report
	items []alItem
}

func (b *alBatch) addPlane(kind string, w, h int, p []byte, mk func(w, h int, p []byte) (string, string), soft bool) {
	b.items = append(b.items, alItem{kind: kind, remk: mk, w: w, h: h, plane: p, soft: soft})
}

// addPlaneX: addPlane with a signature suffix and extra replay input.
func (b *alBatch) addPlaneX(kind, sig string, w, h int, p []byte, mk func(w, h int, p []byte) (string, string), extra map[string]any) {
	b.items = append(b.items, alItem{kind: kind, sig: sig, remk: mk, w: w, h: h, plane: p, extra: extra})
}

func (b *alBatch) addLine(kind, line, goL string) {
	b.items = append(b.items, alItem{kind: kind, line: line, goL: goL})
}

func sameLine(line, goL string) (bool, string, error) {
	l, err := RunDriver([]string{line})
	if err != nil {
		return false, "", err
	}
	return l[0] == goL, l[0], nil
}

// shrinkPlane crops the plane while model and implementation still disagree.
func shrinkPlane(it alItem) (w, h int, p []byte, line, goL, lean string) {
	w, h, p = it.w, it.h, it.plane
	line, goL = it.remk(w, h, p)
	_, lean, _ = sameLine(line, goL)
	for step := 0; step < 40; step++ {
		type cand struct{ x0, y0, cw, ch int }
		var cs []cand
		if w > 1 {
			cs = append(cs, cand{0, 0, w / 2, h}, cand{w - w/2, 0, w / 2, h}, cand{0, 0, w - 1, h}, cand{1, 0, w - 1, h})
		}
		if h > 1 {
			cs = append(cs, cand{0, 0, w, h / 2}, cand{0, h - h/2, w, h / 2}, cand{0, 0, w, h - 1}, cand{0, 1, w, h - 1})
		}
		progress := false
		for _, c := range cs {
			if c.cw < 1 || c.ch < 1 {
				continue
			}
			np := cropPlane(p, w, c.x0, c.y0, c.cw, c.ch)
			nl, ng := it.remk(c.cw, c.ch, np)
			same, ll, err := sameLine(nl, ng)
			if err == nil && !same {
				w, h, p, line, goL, lean = c.cw, c.ch, np, nl, ng, ll
				progress = true
				break
			}
		}
		if !progress {
			break
		}
	}
	return
}

func (b *alBatch) run() error {
	rep := b.rep
	n := len(b.items)
	// Go side, in parallel
	var wg sync.WaitGroup
	nw := runtime.NumCPU()
	for wk := 0; wk < nw; wk++ {
		wg.Add(1)
		go func(wk int) {
			defer wg.Done()
			for i := wk; i < n; i += nw {
				it := &b.items[i]
				if it.remk != nil {
					it.line, it.goL = it.remk(it.w, it.h, it.plane)
				}
			}
		}(wk)
	}
	wg.Wait()
	lines := make([]string, n)
	for i := range b.items {
		lines[i] = b.items[i].line
	}
	lean, err := RunDriver(lines)
	if err != nil {
		return err
	}
	shrunkPerSig := map[string]int{} // shrinking runs the model once per candidate: only the first findings of a signature are minimised
	for i, it := range b.items {
		rep.Count("op:" + it.kind)
		res := strings.SplitN(it.goL, " ", 3)
		tag := res[0]
		if tag == "err" && len(res) > 1 {
			tag += ":" + res[1]
		}
		rep.Count("go:" + it.kind + ":" + tag)
		rep.Eval(len(it.line) > 24, []byte(it.line))
		if i%1499 == 0 {
			rep.Sample(map[string]any{"line": short(it.line, 160), "go": it.goL, "lean": lean[i]})
		}
		if it.goL == "skipped" { // not run: an earlier decode hung and the suite is winding down
			continue
		}
		if it.goL == "hang" {
			in := map[string]any{"op": "alline", "line": it.line}
			rep.Add(hangFinding("DecodeAlpha", "alpha.DecodeAlpha / the VP8L decoder on an ALPH payload ("+it.kind+"); model: "+short(lean[i], 120), in))
			if strings.HasPrefix(lean[i], "ok") {
				rep.Add(Finding{Kind: "property", Property: "C07", Signature: "alpha:decode-hang:" + it.kind,
					Detail: "the model decodes the ALPH payload, alpha.DecodeAlpha does not return: lean=" + short(lean[i], 200), Input: in})
			}
			continue
		}
		if lean[i] == it.goL {
			continue
		}
		if it.soft {
			rep.Count("quant:exact-model-differs-from-float64")
			continue
		}
		if it.kind == "alenc-lossless" && it.remk != nil {
			// The codec values handed to the model come from separate lossless.Encode calls. lossless.Encode
			// is not a function of its arguments alone on this tree (pooled encoder state, a C11 matter):
			// recompute both sides in a quiet, sequential state before calling it a broken tie.
			agreed := false
			for try := 0; try < 3 && !agreed; try++ {
				nl, ng := it.remk(it.w, it.h, it.plane)
				if same, _, err := sameLine(nl, ng); err == nil && same {
					agreed = true
				}
			}
			if agreed {
				rep.Count("alenc-lossless:agrees-on-retry(lossless.Encode history-dependent)")
				note := "lossless.Encode returned different bytes for the same arguments depending on earlier calls (C11): first such line: " + short(it.line, 120)
				rep.mu.Lock()
				if len(rep.Notes) == 0 {
					rep.Notes = append(rep.Notes, note)
				}
				rep.mu.Unlock()
				continue
			}
		}
		in := map[string]any{"op": "alline", "line": it.line}
		detail := fmt.Sprintf("go=%q lean=%q", short(it.goL, 200), short(lean[i], 200))
		if it.remk != nil {
			if shrunkPerSig[it.kind+it.sig] < alMaxShrinkPerSig {
				shrunkPerSig[it.kind+it.sig]++
				w, h, p, line, goL, ll := shrinkPlane(it)
				in = map[string]any{"op": "alline", "line": line, "w": w, "h": h, "plane": hx(p)}
				detail = fmt.Sprintf("shrunk to %dx%d: go=%q lean=%q", w, h, short(goL, 200), short(ll, 200))
			} else {
				in = map[string]any{"op": "alline", "line": it.line, "w": it.w, "h": it.h, "plane": hx(it.plane)}
				detail = fmt.Sprintf("%dx%d (not shrunk): ", it.w, it.h) + detail
			}
		}
		for k, v := range it.extra {
			in[k] = v
		}
		if it.sig != "" {
			detail += " source" + it.sig
		}
		if it.goL == "panic" {
			detail += " (Go panicked)"
		}
		rep.Add(Finding{Kind: "correspondence", Property: "C07", Signature: "alpha-model:" + it.kind + it.sig, Detail: detail, Input: in})
	}
	b.items = b.items[:0]
	return nil
}

// ---------- Go-only component properties ----------

func propFinding(rep *Report, what, cls, detail string, w, h int, p []byte, extra map[string]any) {
	in := map[string]any{"op": "alpha-plane", "what": what, "w": w, "h": h, "plane": hx(p)}
	for k, v := range extra {
		in[k] = v
	}
	rep.Add(Finding{Kind: "property", Property: "C07", Signature: "alpha:" + what + ":" + cls, Detail: detail, Input: in})
}

// checkPlaneProps evaluates the C07 component properties on the real code; returns "" or what failed.
func checkFilterRT(f, w, h int, p []byte) string {
	out := append([]byte(nil), verifapi.AlphaFilter(f, p, w, h)...)
	verifapi.AlphaUnfilter(f, out, w, h)
	if !bytes.Equal(out, p) {
		return fmt.Sprintf("unfilter(filter(a)) != a for filter %d", f)
	}
	return ""
}

func checkQuantProps(n, w, h int, p []byte) (levels, minmax string) {
	c := append([]byte(nil), p...)
	verifapi.AlphaQuantizeLevels(c, w, h, n)
	d, mn, mx := planeStats(c)
	_, smn, smx := planeStats(p)
	if n >= 2 && d > n {
		levels = fmt.Sprintf("quantizeLevels(n=%d) left %d distinct values", n, d)
	}
	if mn != smn || mx != smx {
		minmax = fmt.Sprintf("quantizeLevels(n=%d): source min/max %d/%d, result %d/%d", n, smn, smx, mn, mx)
	}
	return
}

// checkChunkRT: DecodeAlpha(EncodeAlpha(a)) = a (quality 100) or = quantizeLevels(a) (quality < 100).
func checkChunkRT(w, h int, p []byte, quality, method, mode, effort int) string {
	b, err := verifapi.EncodeAlpha(p, w, h, &verifapi.AlphaEncoderConfig{Quality: quality, Method: method, Filter: mode, EffortLevel: effort})
	if err != nil {
		return "EncodeAlpha: " + alphaErrClass(err)
	}
	out, err := verifapi.DecodeAlpha(b, w, h)
	if err != nil {
		return "DecodeAlpha: " + alphaErrClass(err)
	}
	want := append([]byte(nil), p...)
	if quality < 100 {
		verifapi.AlphaQuantizeLevels(want, w, h, docAlphaLevels(quality))
	}
	if !bytes.Equal(out, want) {
		k := 0
		for k < len(out) && out[k] == want[k] {
			k++
		}
		return fmt.Sprintf("DecodeAlpha(EncodeAlpha(a)) differs at index %d (header 0x%02x, %d bytes)", k, b[0], len(b))
	}
	return ""
}

// shrinkPlaneProp crops while check keeps failing.
func shrinkPlaneProp(w, h int, p []byte, check func(w, h int, p []byte) string) (int, int, []byte, string) {
	msg := check(w, h, p)
	for step := 0; step < 60; step++ {
		type cand struct{ x0, y0, cw, ch int }
		var cs []cand
		if w > 1 {
			cs = append(cs, cand{0, 0, w / 2, h}, cand{w - w/2, 0, w / 2, h}, cand{0, 0, w - 1, h}, cand{1, 0, w - 1, h})
		}
		if h > 1 {
			cs = append(cs, cand{0, 0, w, h / 2}, cand{0, h - h/2, w, h / 2}, cand{0, 0, w, h - 1}, cand{0, 1, w, h - 1})
		}
		progress := false
		for _, c := range cs {
			if c.cw < 1 || c.ch < 1 {
				continue
			}
			np := cropPlane(p, w, c.x0, c.y0, c.cw, c.ch)
			if m, _ := guard(func() string { return check(c.cw, c.ch, np) }); m != "" {
				w, h, p, msg = c.cw, c.ch, np, m
				progress = true
				break
			}
		}
		if !progress {
			break
		}
	}
	return w, h, p, msg
}

// ---------- END-TO-END ----------

type e2eOpts struct {
	comp, filt, aq, method int
	exact                  bool
	quality                int
}

func (o e2eOpts) String() string {
	return fmt.Sprintf("%d,%d,%d,%d,%s,%d", o.comp, o.filt, o.aq, o.method, b2s(o.exact), o.quality)
}

func parseE2EOpts(s string) (e2eOpts, bool) {
	f := strings.Split(s, ",")
	if len(f) != 6 {
		return e2eOpts{}, false
	}
	iv := func(k int) int { v, _ := strconv.Atoi(f[k]); return v }
	return e2eOpts{iv(0), iv(1), iv(2), iv(3), f[4] == "1", iv(5)}, true
}

func (o e2eOpts) webp() *webp.EncoderOptions {
	w := webp.DefaultOptions()
	w.Quality = float32(o.quality)
	w.Method = o.method
	w.Exact = o.exact
	w.AlphaCompression = o.comp
	w.AlphaFiltering = o.filt
	w.AlphaQuality = o.aq
	return w
}

func (o e2eOpts) class() string {
	c, f := o.comp, o.filt
	if c < 0 {
		c = 1
	}
	if f < 0 {
		f = 1
	}
	return fmt.Sprintf("c%d-f%d-m%d", c, f, o.method)
}

func alphaOf(img *image.NRGBA) []byte {
	w, h := img.Bounds().Dx(), img.Bounds().Dy()
	p := make([]byte, w*h)
	for y := 0; y < h; y++ {
		for x := 0; x < w; x++ {
			p[y*w+x] = img.Pix[img.PixOffset(img.Rect.Min.X+x, img.Rect.Min.Y+y)+3]
		}
	}
	return p
}

// e2eCheck runs Encode -> Decode and evaluates C07; what == "" means the property held. img is the picture as
// an origin-based NRGBA; the encoder is handed alStore(img, pl), i.e. the same picture (same alpha, exactly) in
// storage kind pl.st on a rectangle with Min = (pl.ox, pl.oy).
func e2eCheck(img *image.NRGBA, o e2eOpts, pl alPlace) (what, detail string) {
	w, h := img.Bounds().Dx(), img.Bounds().Dy()
	src := alphaOf(img)
	_, smn, smx := planeStats(src)
	stored := alStore(img, pl)
	if sb := stored.Bounds(); sb.Dx() != w || sb.Dy() != h {
		return "harness-storage", fmt.Sprintf("stored picture %v, source %dx%d", sb, w, h)
	}
	var buf bytes.Buffer
	if err := webp.Encode(&buf, stored, o.webp()); err != nil {
		return "encode-error", err.Error()
	}
	dec, err := webp.Decode(bytes.NewReader(buf.Bytes()))
	if err != nil {
		return "decode-error", err.Error()
	}
	if dec.Bounds().Dx() != w || dec.Bounds().Dy() != h {
		return "size", fmt.Sprintf("decoded %v, source %dx%d", dec.Bounds(), w, h)
	}
	transparent := smn != 255
	if !transparent {
		if _, ok := dec.(*image.YCbCr); ok {
			return "", ""
		}
		d, mn, _ := planeStats(alphaOf(toNRGBA(dec)))
		if d != 1 || mn != 255 {
			return "opaque-not-opaque", fmt.Sprintf("opaque source decodes to %T with alpha min %d", dec, mn)
		}
		return "", ""
	}
	n, ok := dec.(*image.NRGBA)
	if !ok {
		return "alpha-dropped", fmt.Sprintf("source has alpha (min %d), decoded type %T", smn, dec)
	}
	got := alphaOf(n)
	aq := o.aq
	if aq < 0 {
		aq = 100
	}
	if aq >= 100 {
		if !bytes.Equal(got, src) {
			k := 0
			for k < len(got) && got[k] == src[k] {
				k++
			}
			return "mismatch", fmt.Sprintf("decoded alpha differs from source at (%d,%d): %d vs %d", k%w, k/w, got[k], src[k])
		}
		return "", ""
	}
	d, mn, mx := planeStats(got)
	if d > docAlphaLevels(aq) {
		return "levels", fmt.Sprintf("AlphaQuality %d: %d distinct decoded alpha values, documented at most %d", aq, d, docAlphaLevels(aq))
	}
	if mn != smn || mx != smx {
		return "minmax", fmt.Sprintf("AlphaQuality %d: source alpha min/max %d/%d, decoded %d/%d", aq, smn, smx, mn, mx)
	}
	return "", ""
}

func cropNRGBA(img *image.NRGBA, x0, y0, cw, ch int) *image.NRGBA {
	out := image.NewNRGBA(image.Rect(0, 0, cw, ch))
	for y := 0; y < ch; y++ {
		for x := 0; x < cw; x++ {
			out.SetNRGBA(x, y, img.NRGBAAt(img.Rect.Min.X+x0+x, img.Rect.Min.Y+y0+y))
		}
	}
	return out
}

// e2eCheckG is e2eCheck under guard: a panic is the outcome "panic".
func e2eCheckG(img *image.NRGBA, o e2eOpts, pl alPlace) (what, detail string) {
	_, pm := guard(func() string { what, detail = e2eCheck(img, o, pl); return "" })
	if pm != "" {
		what, detail = "panic", pm
	}
	return
}

// shrinkE2E crops the picture while the same outcome is observed; storage kind and origin are kept.
func shrinkE2E(img *image.NRGBA, o e2eOpts, pl alPlace, what string) (*image.NRGBA, string) {
	_, detail := e2eCheckG(img, o, pl)
	for step := 0; step < 60; step++ {
		w, h := img.Bounds().Dx(), img.Bounds().Dy()
		type cand struct{ x0, y0, cw, ch int }
		var cs []cand
		if w > 1 {
			cs = append(cs, cand{0, 0, w / 2, h}, cand{w - w/2, 0, w / 2, h}, cand{0, 0, w - 1, h}, cand{1, 0, w - 1, h})
		}
		if h > 1 {
			cs = append(cs, cand{0, 0, w, h / 2}, cand{0, h - h/2, w, h / 2}, cand{0, 0, w, h - 1}, cand{0, 1, w, h - 1})
		}
		progress := false
		for _, c := range cs {
			if c.cw < 1 || c.ch < 1 {
				continue
			}
			ni := cropNRGBA(img, c.x0, c.y0, c.cw, c.ch)
			wh, dt := e2eCheckG(ni, o, pl)
			if wh == what {
				img, detail = ni, dt
				progress = true
				break
			}
		}
		if !progress {
			break
		}
	}
	return img, detail
}

type e2eCase struct {
	w, h, cls, acls int
	idx             uint64
	o               e2eOpts
	pl              alPlace        // storage kind and bounds origin of the picture handed to the encoder
	cheap           bool           // content from GenCheapImage (cls = cheap kind) instead of GenImage
	tc              *ThresholdCase // the size crosses this threshold (recorded in the distribution)
	wide            bool           // member of the WideWidths x WideHeights family
	band            *alBand        // alpha plane from genBandedPlane (acls is ignored)
	levels          int            // > 0: alpha plane with exactly this many levels (GenAlphaLevelsImage; cls / acls ignored)
	cc              *CountCase     // the level count sits on this threshold (recorded in the distribution)
}

// alphaName: the alpha class of the case for the distribution.
func (c e2eCase) alphaName() string {
	switch {
	case c.band != nil:
		return "banded-" + alBandVariantNames[c.band.variant]
	case c.levels > 0:
		return "levels"
	}
	return alphaClassNames[c.acls]
}

func (c e2eCase) class() string {
	if c.band != nil {
		return fmt.Sprintf("%dx%d/%s/%s", c.w, c.h, imgClassNames[c.cls], c.band.String())
	}
	if c.levels > 0 {
		return fmt.Sprintf("%dx%d/flat/levels-%d", c.w, c.h, c.levels)
	}
	if c.cheap {
		return cheapDesc(c.w, c.h, c.cls, c.acls)
	}
	return imgDesc(c.w, c.h, c.cls, c.acls)
}

func (c e2eCase) gen(seed uint64) *image.NRGBA {
	r := NewRNG(seed, 40_000_000+c.idx)
	if c.band != nil {
		img := GenImage(r, c.w, c.h, c.cls, AlphaNone)
		for i, a := range genBandedPlane(r, *c.band) {
			img.Pix[4*i+3] = a
		}
		return img
	}
	if c.levels > 0 {
		return GenAlphaLevelsImage(r, c.w, c.h, c.levels)
	}
	if c.cheap {
		return GenCheapImage(r, c.w, c.h, c.cls, c.acls)
	}
	return GenImage(r, c.w, c.h, c.cls, c.acls)
}

// e2eMaxPixHex: pictures with more bytes than this are recorded by their generator parameters, not literally.
const e2eMaxPixBytes = 1 << 16

// e2eInput is the replay input of a case: options, storage kind and origin, and the picture, literally
// (w, h, pix) or - large cheap pictures that were not shrunk - by generator parameters.
func e2eInput(c e2eCase, seed uint64, small *image.NRGBA, shrunk bool, what string) map[string]any {
	in := map[string]any{"op": "alpha-e2e", "class": c.class(), "opts": c.o.String(), "what": what,
		"w": small.Bounds().Dx(), "h": small.Bounds().Dy()}
	for k, v := range c.pl.input() {
		in[k] = v
	}
	if c.cheap && !shrunk && len(small.Pix) > e2eMaxPixBytes {
		in["cheap"] = c.cls
		in["acls"] = c.acls
		in["genseed"] = strconv.FormatUint(seed, 10)
		in["genidx"] = strconv.FormatUint(c.idx, 10)
	} else {
		in["pix"] = hex.EncodeToString(small.Pix)
	}
	return in
}

func runE2E(rep *Report, cases []e2eCase) {
	var shrinkMu sync.Mutex
	shrunkPerSig := map[string]int{}
	var wg sync.WaitGroup
	nw := runtime.NumCPU()
	for wk := 0; wk < nw; wk++ {
		wg.Add(1)
		go func(wk int) {
			defer wg.Done()
			for i := wk; i < len(cases); i += nw {
				c := cases[i]
				img := c.gen(rep.Seed)
				desc := c.class() + " " + c.o.String()
				if !c.pl.isDefault() {
					desc += " " + c.pl.String()
				}
				var what, detail string
				var w2, d2 string
				st, pm := guardT(func() string { w2, d2 = e2eCheck(img, c.o, c.pl); return "" })
				if st == "skipped" {
					continue
				}
				what, detail = w2, d2
				if pm != "" {
					what, detail = "panic", pm
				}
				if st == "hang" {
					what, detail = "hang", fmt.Sprintf("webp.Encode -> webp.Decode did not return within %v", hangLimit)
					rep.Add(hangFinding("Decode", "webp.Encode -> webp.Decode of "+desc, e2eInput(c, rep.Seed, img, false, "hang")))
				}
				rep.Eval((c.acls != AlphaNone || c.band != nil || c.levels > 1) && c.w*c.h > 1, []byte(desc))
				rep.Count("e2e:alpha:" + c.alphaName())
				if c.band != nil {
					rep.Count(fmt.Sprintf("e2e:banded:%dx%d-m%d", c.w, c.h, c.o.method))
				}
				if c.cc != nil {
					CountCount(rep, *c.cc)
					rep.Count("e2e:levels:" + c.cc.String())
				}
				rep.Count("e2e:cfg:" + c.o.class())
				rep.Count("e2e:storage:" + alStorageNames[c.pl.st])
				rep.Count("e2e:origin:" + c.pl.originClass())
				if c.o.exact && c.pl.st >= alStGeneric && c.pl.st <= alStAlpha && c.pl.ox != c.pl.oy && c.acls != AlphaNone {
					rep.Count("e2e:exact+generic-storage+minx!=miny")
				}
				aq := c.o.aq
				if aq < 0 {
					aq = 100
				}
				rep.Count(fmt.Sprintf("e2e:aq:%d", aq))
				switch {
				case c.w == 1 || c.h == 1:
					rep.Count("e2e:size:line")
				case c.w*c.h >= 50000:
					rep.Count("e2e:size:large")
				default:
					rep.Count("e2e:size:small")
				}
				if c.wide {
					rep.Count(fmt.Sprintf("e2e:wide:w%d", c.w))
					rep.Count(fmt.Sprintf("e2e:wide:h%d", c.h))
				}
				if c.tc != nil {
					CountThreshold(rep, *c.tc)
				}
				if i%2999 == 0 {
					rep.Sample(map[string]any{"e2e": desc, "result": what})
				}
				if what == "" {
					continue
				}
				sig := "alpha:" + what + ":" + c.o.class()
				if !c.pl.isDefault() {
					sig += ":" + alStorageNames[c.pl.st]
				}
				shrinkMu.Lock()
				shrunkPerSig[sig]++
				doShrink := shrunkPerSig[sig] <= 5 // Report.Add keeps five per signature
				shrinkMu.Unlock()
				small, shrunk := img, false
				if doShrink && what != "hang" && what != "harness-storage" {
					var d3 string
					small, d3 = shrinkE2E(img, c.o, c.pl, what)
					shrunk = small != img
					if shrunk {
						detail = d3
					}
				}
				rep.Add(Finding{Kind: "property", Property: "C07", Signature: sig,
					Detail: fmt.Sprintf("%s (found on %s, shrunk to %dx%d)", detail, desc, small.Bounds().Dx(), small.Bounds().Dy()),
					Input:  e2eInput(c, rep.Seed, small, shrunk, what)})
			}
		}(wk)
	}
	wg.Wait()
}

// ---------- banded planes: sizes derived from the tile geometry of the compressed plane ----------

// The compressed ALPH payload is a palette-coded VP8L picture whose entropy codes are chosen per tile of side
// T = 2^(9-Method) (32 / 16 / 8 samples at Method 4 / 5 / 6). Every other plane / alpha class of this suite has
// the same statistics from top to bottom and from left to right, so the per-tile entropy image is uniform
// (or one tile row high). A banded plane has a smooth or few-level body and, along one edge, a band of
// noisy / dithered translucent samples whose begin is a multiple of T: footer (rows split..h-1), header
// (mirrored), right (columns split..w-1), left. The sizes give 3, 5, 6, 7 and 11 tile rows / columns, i.e.
// partial trailing groups of tiles at every doubling of the tile size.
type alBandSize struct{ w, h, method int }

var alBandSizes = []alBandSize{{96, 96, 4}, {64, 224, 4}, {64, 96, 5}, {48, 112, 5}, {40, 56, 6}, {64, 88, 6}}

const (
	alBandFooter = iota
	alBandHeader
	alBandRight
	alBandLeft
	numAlBandVariants
)

var (
	alBandVariantNames = []string{"footer", "header", "right", "left"}
	alBandBodyNames    = []string{"periodic", "smooth", "few"}
	alBandBandNames    = []string{"noise4", "noise", "dither", "noise-hi"}
)

type alBand struct {
	w, h, method int
	variant      int // alBandFooter ...
	split        int // first row / column of the band (footer, right); extent of the band is n - split (mirrored for header, left)
	body, band   int // content of the body and of the band
}

func alBandTile(method int) int { return 1 << uint(9-method) }

func (b alBand) String() string {
	return fmt.Sprintf("banded-%s@%d/%s+%s", alBandVariantNames[b.variant], b.split, alBandBodyNames[b.body], alBandBandNames[b.band])
}

func (b alBand) input() map[string]any {
	return map[string]any{"banded": b.String(), "tile": alBandTile(b.method)}
}

// alBandSplits: where a band may begin along an axis of n samples with tile side t: the last tile (n-t rounded
// down to a tile boundary) and the largest multiples of 2t, 4t, 8t below n - deepest (largest group) first.
func alBandSplits(n, t int) []int {
	var out []int
	seen := map[int]bool{}
	for _, g := range []int{8 * t, 4 * t, 2 * t, t} {
		s := (n - 1) / g * g
		if s > 0 && s < n && !seen[s] {
			seen[s] = true
			out = append(out, s)
		}
	}
	return out
}

// genBandedPlane: deterministic in (r, b).
func genBandedPlane(r *RNG, b alBand) []byte {
	w, h := b.w, b.h
	p := make([]byte, w*h)
	nl := 3 + r.Intn(4)
	lv := make([]byte, nl)
	for i := range lv {
		lv[i] = byte(32 + r.Intn(200))
	}
	blk := 2 + r.Intn(5)
	base := byte(40 + r.Intn(150))
	lo := byte(100 + r.Intn(100))
	n := h
	if b.variant == alBandRight || b.variant == alBandLeft {
		n = w
	}
	for y := 0; y < h; y++ {
		for x := 0; x < w; x++ {
			k := y
			if b.variant == alBandRight || b.variant == alBandLeft {
				k = x
			}
			inBand := k >= b.split
			if b.variant == alBandHeader || b.variant == alBandLeft {
				inBand = k < n-b.split
			}
			var v byte
			if inBand {
				switch b.band {
				case 0: // four translucent levels, 16 apart
					v = 200 + byte(r.Intn(4))*16
				case 1:
					v = byte(r.Next())
				case 2: // dither between neighbouring translucent levels
					v = lo + byte(r.Intn(3))
				default:
					v = 128 + byte(r.Intn(128))
				}
			} else {
				switch b.body {
				case 0:
					v = 40 + byte(((x%32)*3+(y%32)*2)&0x7f)
				case 1:
					v = base + byte((x*2+y*3)*60/maxi(2*w+3*h, 1))
				default:
					v = lv[((x/blk)*3+(y/blk))%nl]
				}
			}
			p[y*w+x] = v
		}
	}
	return p
}

// alBandDraw lists the banded planes of a run. Quick: for every size the footer band that begins at the deepest
// split (the trailing partial group of tile rows at the coarsest doubling), plus three drawn from all other
// variants / splits; thorough: every variant x split, three contents each.
func alBandDraw(seed uint64, salt uint64, rich bool) []alBand {
	var out []alBand
	r := NewRNG(seed, 43_000_000+salt)
	content := func(b alBand) alBand {
		b.body, b.band = r.Intn(len(alBandBodyNames)), r.Intn(len(alBandBandNames))
		return b
	}
	// many-level body: body and band certainly end up in different entropy groups (a few-level body packs the
	// samples and mostly leaves one group)
	manyLevels := func(b alBand) alBand {
		b = content(b)
		b.body = r.Intn(2)
		return b
	}
	var others []alBand
	for _, s := range alBandSizes {
		t := alBandTile(s.method)
		for v := 0; v < numAlBandVariants; v++ {
			n := s.h
			if v == alBandRight || v == alBandLeft {
				n = s.w
			}
			for k, sp := range alBandSplits(n, t) {
				b := alBand{w: s.w, h: s.h, method: s.method, variant: v, split: sp}
				if v == alBandFooter && k == 0 {
					out = append(out, manyLevels(b))
					if rich {
						out = append(out, content(b), manyLevels(b))
					}
					continue
				}
				others = append(others, b)
			}
		}
	}
	if rich {
		for _, b := range others {
			out = append(out, content(b), content(b), content(b))
		}
		return out
	}
	for i := len(others) - 1; i > 0; i-- {
		j := r.Intn(i + 1)
		others[i], others[j] = others[j], others[i]
	}
	for _, b := range others[:mini(3, len(others))] {
		out = append(out, content(b))
	}
	return out
}

// alLevelSizes: plane sizes of at least 257 samples for the exact-level-count planes.
var alLevelSizes = [][2]int{{16, 17}, {33, 9}, {20, 20}, {9, 40}, {64, 5}}

// ---------- the suite ----------

func suiteAlpha(rep *Report) error {
	rich := rep.Tier == "thorough"
	rep.Rule = "(a) planes of classes binary/few/gradient/noise/ramp/flat/smooth/near at sizes 1x1, 1xN, Nx1 … 64x64 (thorough: also 320x320): every filter and inverse filter, filter map, quantiser (float64 model exact, rational model counted), header bytes, extractAlpha/imageHasAlpha on the fast-path storages NRGBA / sub-image / RGBA / full-width sub-image band and on the generic-path storages image.Image-only wrapper / NRGBA64 / RGBA64 / Paletted (graded-alpha palette) / Alpha placed on rectangles with Min=(mx,my) drawn from negative, (k,0), (0,k), mixed and equal origins, EncodeAlpha raw and lossless (codec values handed to the model) incl. invalid configurations, all vs the Lean model; on Go alone unfilter(filter)=id, DecodeAlpha(EncodeAlpha)=id or =quantizeLevels, level count and min/max of quantizeLevels; (b) DecodeAlpha on every header byte 0..255 x raw payloads of right/short/long/empty length and on real lossless payloads under all 64 header variants, bad dimensions; (c) webp.Encode(lossy)->webp.Decode over AlphaCompression{0,1,-1} x AlphaFiltering{0,1,2,-1} x AlphaQuality{100,-1} x Method 0..6 x Exact x alpha pattern (decoded alpha == source alpha; opaque sources decode opaque) and AlphaQuality{0,1,50,70,71,99} (distinct decoded values <= documented count, min/max kept); the same oracle over source storage kind (the nine kinds above) x bounds origin (Min.X != Min.Y in most cases) x Exact{false,true}, over wide pictures WideWidths{1023..4097} x WideHeights{1..4} and over a draw of threshold-crossing sizes (width/height/pixels thresholds >= 200 of thresholds.go, at most 120000 pixels; thorough: all of them) with cheap content; BANDED planes / pictures whose size follows the tile geometry T = 2^(9-Method) of the compressed plane - 96x96 and 64x224 at Method 4, 64x96 and 48x112 at Method 5, 40x56 and 64x88 at Method 6 (3, 5, 6, 7, 11 tile rows) - with a periodic / smooth / few-level body and a band of 4-level noise, byte noise, dither or high noise that begins at a multiple of T, 2T, 4T or 8T: per run the footer band at the deepest split of every size (many-level body) plus three of the header / left / right / other-split variants (thorough: all variants x splits, three contents each), filters 0/1/2 rotating, AlphaQuality 100, lossless-compressed alpha, both in the chunk leg DecodeAlpha(EncodeAlpha(a)) = a with EffortLevel = Method and end to end; planes with EXACTLY n alpha levels for n drawn from the colour-count thresholds of thresholds.go (t-1, t, t+1 for t in 2, 4, 16, 192, 256; 8 per run, thorough all; GenAlphaLevelsImage, recorded as threshold:<t>colors) in the chunk leg (fast + none/best filter, raw), as filter-map lines against the model at effort 3 and 4, and end to end; a panic anywhere in Encode->Decode is a finding. non-trivial = protocol line with a payload / image with transparency and more than one pixel"

	b := &alBatch{rep: rep}

	// ---- documented level mapping vs model ----
	{
		src, err := os.ReadFile(verifapi.AlphaSource())
		if err != nil {
			return fmt.Errorf("read alpha.go: %v", err)
		}
		re := regexp.MustCompile(`Quality:([\[\]])(\d+), (\d+)\] -> Levels:([\[\]])(\d+), (\d+)\]`)
		ms := re.FindAllStringSubmatch(string(src), -1)
		if len(ms) != 2 {
			rep.Add(Finding{Kind: "property", Property: "C07", Signature: "alpha:doc-levels:missing",
				Detail: "the quality -> levels documentation lines of alpha.go were not found", Input: map[string]any{"op": "alline", "line": "allevels 0"}})
		}
		var lines []string
		for q := 0; q <= 100; q++ {
			lines = append(lines, fmt.Sprintf("allevels %d", q))
		}
		lv, err := RunDriver(lines)
		if err != nil {
			return err
		}
		model := make([]int, 101)
		for q := range model {
			model[q], _ = strconv.Atoi(strings.TrimPrefix(lv[q], "ok "))
			rep.Eval(true, []byte(lines[q]))
			if model[q] != docAlphaLevels(q) {
				rep.Add(Finding{Kind: "correspondence", Property: "C07", Signature: "alpha-model:allevels",
					Detail: fmt.Sprintf("q=%d model %d harness %d", q, model[q], docAlphaLevels(q)), Input: map[string]any{"op": "alline", "line": lines[q]}})
			}
		}
		for _, m := range ms {
			qlo, _ := strconv.Atoi(m[2])
			qhi, _ := strconv.Atoi(m[3])
			llo, _ := strconv.Atoi(m[5])
			lhi, _ := strconv.Atoi(m[6])
			bad := ""
			if m[1] == "[" && model[qlo] != llo {
				bad = fmt.Sprintf("levels(%d) = %d, documented %d", qlo, model[qlo], llo)
			}
			if m[1] == "]" && !(model[qlo+1] > llo) {
				bad = fmt.Sprintf("levels(%d) = %d, documented > %d", qlo+1, model[qlo+1], llo)
			}
			if model[qhi] != lhi {
				bad = fmt.Sprintf("levels(%d) = %d, documented %d", qhi, model[qhi], lhi)
			}
			for q := qlo; q < qhi; q++ {
				if model[q] > model[q+1] {
					bad = fmt.Sprintf("levels not monotone at %d", q)
				}
			}
			rep.Count("doc:levels-range-checked")
			if bad != "" {
				rep.Add(Finding{Kind: "property", Property: "C07", Signature: "alpha:doc-levels:range",
					Detail: "code/model disagrees with the documented mapping " + m[0] + ": " + bad, Input: map[string]any{"op": "alline", "line": "allevels " + m[3]}})
			}
		}
	}

	// ---- (a) components ----
	sizes := [][2]int{{1, 1}, {1, 2}, {2, 1}, {1, 17}, {17, 1}, {2, 2}, {3, 3}, {4, 4}, {5, 3}, {8, 8}, {16, 16}, {33, 17}, {64, 64}, {64, 1}, {1, 64}, {6, 7}}
	nRand := 10
	if rich {
		nRand = 120
		sizes = append(sizes, [2]int{320, 320}, [2]int{1, 300}, [2]int{300, 1}, [2]int{127, 3}, [2]int{3, 129})
	}
	type pl struct {
		w, h, cls int
		p         []byte
	}
	var planes []pl
	idx := uint64(0)
	for cls := 0; cls < numPlaneClasses; cls++ {
		for _, s := range sizes {
			idx++
			planes = append(planes, pl{s[0], s[1], cls, genPlane(NewRNG(rep.Seed, 30_000_000+idx), s[0], s[1], cls)})
		}
		for k := 0; k < nRand; k++ {
			idx++
			r := NewRNG(rep.Seed, 30_000_000+idx)
			w, h := 1+r.Intn(64), 1+r.Intn(64)
			planes = append(planes, pl{w, h, cls, genPlane(r, w, h, cls)})
		}
	}
	modes := []int{0, 4, 5, 1, 2, 3, -1, 6}
	type propJob struct {
		pl
		k int
	}
	var jobs []propJob
	for k, q := range planes {
		r := NewRNG(rep.Seed, 31_000_000+uint64(k))
		big := q.w*q.h > 64*64
		rep.Count("plane:" + planeClassNames[q.cls])
		switch {
		case q.w == 1 || q.h == 1:
			rep.Count("plane-size:line")
		case big:
			rep.Count("plane-size:large")
		default:
			rep.Count("plane-size:small")
		}
		for f := 0; f < 4; f++ {
			b.addPlane("alfilter", q.w, q.h, q.p, mkFilter(f), false)
			b.addPlane("alunfilter", q.w, q.h, q.p, mkUnfilter(f), false)
		}
		b.addPlane("alfmap", q.w, q.h, q.p, mkFmap(4, r.Intn(7)), false)
		b.addPlane("alfmap", q.w, q.h, q.p, mkFmap(modes[r.Intn(len(modes))], r.Intn(7)), false)
		qs := []int{r.Intn(100), []int{0, 1, 50, 70, 71, 99}[r.Intn(6)]}
		for _, qq := range qs {
			b.addPlane("alquant-f64", q.w, q.h, q.p, mkQuant("f64", docAlphaLevels(qq)), false)
			if !big {
				b.addPlane("alquant-exact", q.w, q.h, q.p, mkQuant("exact", docAlphaLevels(qq)), true)
			}
		}
		if r.Chance(1, 6) {
			b.addPlane("alquant-f64", q.w, q.h, q.p, mkQuant("f64", []int{0, 1, 2, 3, 255, 256, 257}[r.Intn(7)]), false)
		}
		if !big {
			b.addPlane("alextract", q.w, q.h, q.p, mkExtract(r.Intn(3)), false)
			// storage kinds and bounds origins: one more fast-path placement (any of the four fast-path kinds, any
			// origin) and one generic-path placement (kinds 3..7) per plane; draws from a generator of their own
			rs := NewRNG(rep.Seed, 30_500_000+uint64(k))
			fast := alPlace{st: []int{alStNRGBA, alStSubNRGBA, alStRGBA, alStSubBand, alStSubBand}[rs.Intn(5)]}
			fast.ox, fast.oy = alDrawOrigin(rs)
			gen := alPlace{st: alStGeneric + rs.Intn(alStAlpha-alStGeneric+1)}
			gen.ox, gen.oy = alDrawOrigin(rs)
			for _, pl := range []alPlace{fast, gen} {
				rep.Count("alextract:storage:" + alStorageNames[pl.st])
				rep.Count("alextract:origin:" + pl.originClass())
				b.addPlaneX("alextract", ":"+alStorageNames[pl.st], q.w, q.h, q.p, mkExtractAt(pl), pl.input())
			}
		}
		// EncodeAlpha: raw, and lossless with the codec oracle
		b.addPlane("alenc-raw", q.w, q.h, q.p, mkEnc([]int{100, 100, r.Intn(100), 99, 0}[r.Intn(5)], 0, modes[r.Intn(len(modes))], r.Intn(7), nil, nil), false)
		if !big && (rich || k%3 == 0) {
			qual := []int{100, 100, 100, r.Intn(100), 70}[r.Intn(5)]
			b.addPlane("alenc-lossless", q.w, q.h, q.p, mkEnc(qual, 1, modes[r.Intn(len(modes))], r.Intn(7), nil, nil), false)
		}
		jobs = append(jobs, propJob{q, k})
	}
	// ramp: every quality, raw (ties the level count used by EncodeAlpha to the model's alphaLevels)
	{
		ramp := genPlane(NewRNG(rep.Seed, 1), 16, 16, plRamp)
		for q := -3; q <= 103; q++ {
			b.addPlane("alenc-raw", 16, 16, ramp, mkEnc(q, 0, 4, 4, nil, nil), false)
		}
		// invalid configurations
		zero, neg, big := 0, -4, 17
		noise := genPlane(NewRNG(rep.Seed, 2), 4, 4, plNoise)
		for _, m := range []int{-1, 2, 7} {
			b.addPlane("alenc-invalid", 4, 4, noise, mkEnc(100, m, 4, 4, nil, nil), false)
		}
		b.addPlane("alenc-invalid", 4, 4, noise, mkEnc(100, 0, 4, 4, &zero, nil), false)
		b.addPlane("alenc-invalid", 4, 4, noise, mkEnc(100, 1, 4, 4, nil, &neg), false)
		b.addPlane("alenc-invalid", 4, 4, noise, mkEnc(100, 0, 4, 4, &big, nil), false) // input too short
		for _, e := range []int{-2, 7, 100} {
			b.addPlane("alenc-raw", 4, 4, noise, mkEnc(100, 0, 4, e, nil, nil), false)
			b.addPlane("alenc-lossless", 4, 4, noise, mkEnc(100, 1, 5, e, nil, nil), false)
		}
	}
	// header bytes
	{
		flat := make([]byte, 64*64)
		one := []byte{7}
		for f := 0; f < 4; f++ {
			for _, red := range []bool{false, true} {
				for m := 0; m < 2; m++ {
					p, w, h := one, 1, 1
					if m == 1 {
						p, w, h = flat, 64, 64
					}
					goL, _ := guard(func() string {
						res, _, err := verifapi.AlphaEncodeInternal(p, w, h, m, f, red, 4)
						if err != nil {
							return alphaErrClass(err)
						}
						return fmt.Sprintf("ok %d", res[0])
					})
					pre := 0
					if red {
						pre = 1
					}
					b.addLine("alpack", fmt.Sprintf("alpack %d %d %d", m, f, pre), goL)
				}
			}
		}
		for _, wh := range [][2]int{{1, 1}, {5, 7}, {16384, 16384}, {16385, 3}, {300, 20000}} {
			pay := []byte{1, 2, 3}
			goL, _ := guard(func() string { return "ok " + hx(verifapi.AlphaVP8LStream(pay, wh[0], wh[1])) })
			b.addLine("alstream", fmt.Sprintf("alstream %d %d %s", wh[0], wh[1], hx(pay)), goL)
		}
	}

	// ---- (b) DecodeAlpha on hand-built payloads ----
	{
		dims := [][2]int{{1, 1}, {3, 2}, {4, 4}, {1, 5}}
		if rich {
			dims = append(dims, [2]int{7, 3}, [2]int{16, 9})
		}
		for hdr := 0; hdr < 256; hdr++ {
			for di, d := range dims {
				area := d[0] * d[1]
				r := NewRNG(rep.Seed, 32_000_000+uint64(hdr*16+di))
				for _, n := range []int{area, area - 1, area + 3, 0} {
					data := append([]byte{byte(hdr)}, r.Bytes(n)...)
					line, goL := goDecLine(data, d[0], d[1])
					b.addLine("aldec-raw", line, goL)
				}
			}
		}
		// bad dimensions / empty data
		for _, c := range []struct {
			data []byte
			w, h int
		}{{nil, 2, 2}, {[]byte{0}, 0, 2}, {[]byte{0}, 2, -1}, {[]byte{0, 1, 2, 3, 4}, 40000, 40000}, {[]byte{0, 1}, 1 << 15, 1 << 15},
			{[]byte{0, 1}, 1<<15 + 1, 1 << 15}, {[]byte{4, 9}, 1, 1}, {[]byte{12, 9, 8}, 1, 2}} {
			line, goL := goDecLine(c.data, c.w, c.h)
			b.addLine("aldec-dims", line, goL)
		}
		// real lossless payloads under every header variant with method bits = 1 (and 2, 3)
		nReal := 6
		if rich {
			nReal = 40
		}
		for k := 0; k < nReal; k++ {
			r := NewRNG(rep.Seed, 33_000_000+uint64(k))
			w, h := 1+r.Intn(24), 1+r.Intn(24)
			p := genPlane(r, w, h, []int{plBinary, plFew, plGradient, plSmooth, plFlat}[r.Intn(5)])
			res, _, err := verifapi.AlphaEncodeInternal(p, w, h, 1, r.Intn(4), false, r.Intn(7))
			if err != nil || res[0]&3 != 1 {
				rep.Count("aldec-real:skipped-raw-fallback")
				continue
			}
			for hi := 0; hi < 64; hi++ {
				for _, m := range []int{1, 2, 3} {
					data := append([]byte{byte(hi<<2 | m)}, res[1:]...)
					line, goL := goDecLine(data, w, h)
					b.addLine("aldec-lossless", line, goL)
				}
			}
			// wrong canvas dimensions for the same payload
			for _, wh := range [][2]int{{w + 1, h}, {w, h + 1}, {maxi(w-1, 1), h}} {
				line, goL := goDecLine(res, wh[0], wh[1])
				b.addLine("aldec-lossless-dims", line, goL)
			}
		}
	}
	if err := b.run(); err != nil {
		return err
	}
	if hangSeen.Load() {
		rep.Notes = append(rep.Notes, "suite stopped early: a Go decode call did not return (see the hang finding)")
		return nil
	}

	// ---- Go-only component properties (parallel) ----
	{
		var wg sync.WaitGroup
		nw := runtime.NumCPU()
		for wk := 0; wk < nw; wk++ {
			wg.Add(1)
			go func(wk int) {
				defer wg.Done()
				for i := wk; i < len(jobs); i += nw {
					j := jobs[i]
					r := NewRNG(rep.Seed, 34_000_000+uint64(j.k))
					cls := planeClassNames[j.cls]
					for f := 1; f < 4; f++ {
						f := f
						chk := func(w, h int, p []byte) string { return checkFilterRT(f, w, h, p) }
						rep.Eval(j.w*j.h > 1, []byte(fmt.Sprintf("rt %d %d %d %d", f, j.w, j.h, j.k)))
						if m, _ := guard(func() string { return chk(j.w, j.h, j.p) }); m != "" {
							w, h, p, msg := shrinkPlaneProp(j.w, j.h, j.p, chk)
							propFinding(rep, "filter-roundtrip", fmt.Sprintf("f%d", f), msg, w, h, p, map[string]any{"filter": f})
						}
					}
					for _, q := range []int{r.Intn(100), []int{0, 1, 50, 70, 71, 99}[r.Intn(6)]} {
						n := docAlphaLevels(q)
						rep.Eval(true, []byte(fmt.Sprintf("qp %d %d %d %d", n, j.w, j.h, j.k)))
						var lv, mm string
						guard(func() string { lv, mm = checkQuantProps(n, j.w, j.h, j.p); return "" })
						if lv != "" {
							w, h, p, msg := shrinkPlaneProp(j.w, j.h, j.p, func(w, h int, p []byte) string { a, _ := checkQuantProps(n, w, h, p); return a })
							propFinding(rep, "quant-levels", cls, msg, w, h, p, map[string]any{"n": n})
						}
						if mm != "" {
							w, h, p, msg := shrinkPlaneProp(j.w, j.h, j.p, func(w, h int, p []byte) string { _, a := checkQuantProps(n, w, h, p); return a })
							propFinding(rep, "quant-minmax", cls, msg, w, h, p, map[string]any{"n": n})
						}
					}
					if j.w*j.h <= 64*64 || i%4 == 0 {
						nCfg := 2
						if rich {
							nCfg = 6
						}
						for c := 0; c < nCfg; c++ {
							quality := []int{100, 100, 100, r.Intn(100)}[r.Intn(4)]
							method, mode, effort := r.Intn(2), modes[r.Intn(3)], r.Intn(7)
							chk := func(w, h int, p []byte) string { return checkChunkRT(w, h, p, quality, method, mode, effort) }
							rep.Eval(true, []byte(fmt.Sprintf("crt %d %d %d %d %d %d %d", quality, method, mode, effort, j.w, j.h, j.k)))
							rep.Count(fmt.Sprintf("chunk-rt:method%d-mode%d", method, mode))
							m, pm := guardT(func() string { return chk(j.w, j.h, j.p) })
							if m == "skipped" {
								continue
							}
							if m == "hang" {
								in := map[string]any{"op": "alpha-plane", "what": "chunk-roundtrip", "w": j.w, "h": j.h, "plane": hx(j.p), "quality": quality, "method": method, "mode": mode, "effort": effort}
								rep.Add(hangFinding("DecodeAlpha", fmt.Sprintf("DecodeAlpha(EncodeAlpha(a)) on a %dx%d %s plane, quality %d method %d filter %d effort %d", j.w, j.h, cls, quality, method, mode, effort), in))
								rep.Add(Finding{Kind: "property", Property: "C07", Signature: fmt.Sprintf("alpha:chunk-roundtrip-hang:c%d-mode%d-m%d", method, mode, effort),
									Detail: "DecodeAlpha(EncodeAlpha(a)) does not return", Input: in})
								continue
							}
							if m != "" {
								w, h, p, msg := shrinkPlaneProp(j.w, j.h, j.p, chk)
								propFinding(rep, "chunk-roundtrip", fmt.Sprintf("c%d-mode%d-m%d", method, mode, effort), msg+" "+pm, w, h, p,
									map[string]any{"quality": quality, "method": method, "mode": mode, "effort": effort})
							}
						}
					}
				}
			}(wk)
		}
		wg.Wait()
	}

	// ---- chunk round trip of the banded planes (tile geometry) and of planes with exactly n levels ----
	bands := alBandDraw(rep.Seed, 0, rich)
	kLevels := 8
	if rich {
		kLevels = 1 << 20
	}
	var levelCases []CountCase
	for _, cc := range DrawCountCases(rep.Seed, 0xa1c0, kLevels, "colors", 2, 260) {
		if cc.N >= 1 && cc.N <= 256 { // 257 levels do not exist
			levelCases = append(levelCases, cc)
		}
	}
	{
		type rtJob struct {
			w, h                          int
			p                             []byte
			quality, method, mode, effort int
			cls                           string
			extra                         map[string]any
		}
		var rts []rtJob
		for k, bd := range bands {
			r := NewRNG(rep.Seed, 44_000_000+uint64(k))
			p := genBandedPlane(r, bd)
			mode := []int{0, 4, 5}[(k+int(rep.Seed%3))%3]
			rep.Count("chunk-rt:banded:" + alBandVariantNames[bd.variant])
			rep.Count(fmt.Sprintf("chunk-rt:banded:%dx%d-m%d", bd.w, bd.h, bd.method))
			rts = append(rts, rtJob{bd.w, bd.h, p, 100, 1, mode, bd.method, "banded", bd.input()})
			b.addPlane("alfmap", bd.w, bd.h, p, mkFmap(mode, bd.method), false)
		}
		for k, cc := range levelCases {
			r := NewRNG(rep.Seed, 45_000_000+uint64(k))
			sz := alLevelSizes[r.Intn(len(alLevelSizes))]
			p := alphaOf(GenAlphaLevelsImage(r, sz[0], sz[1], cc.N))
			if d, _, _ := planeStats(p); d != cc.N {
				rep.Add(Finding{Kind: "correspondence", Property: "C07", Signature: "alpha-harness:levels-generator",
					Detail: fmt.Sprintf("GenAlphaLevelsImage(%dx%d, %d) has %d levels", sz[0], sz[1], cc.N, d), Input: map[string]any{"op": "alline", "line": "allevels 0"}})
			}
			CountCount(rep, cc)
			rep.Count("chunk-rt:levels:" + cc.String())
			effort := r.Intn(7)
			for _, mode := range []int{4, []int{0, 5}[r.Intn(2)]} {
				rts = append(rts, rtJob{sz[0], sz[1], p, 100, 1, mode, effort, "levels", map[string]any{"levels": cc.N}})
			}
			rts = append(rts, rtJob{sz[0], sz[1], p, 100, 0, 4, effort, "levels", map[string]any{"levels": cc.N}})
			// the filter choice of EncodeAlpha (16 / 192 levels) vs the model, at both effort classes
			b.addPlane("alfmap", sz[0], sz[1], p, mkFmap(4, 3), false)
			b.addPlane("alfmap", sz[0], sz[1], p, mkFmap(4, 4), false)
		}
		if err := b.run(); err != nil {
			return err
		}
		doRT := func(i int) {
			j := rts[i]
			chk := func(w, h int, p []byte) string { return checkChunkRT(w, h, p, j.quality, j.method, j.mode, j.effort) }
			rep.Eval(true, []byte(fmt.Sprintf("crt-%s %d %d %d %d %d %d %d", j.cls, j.quality, j.method, j.mode, j.effort, j.w, j.h, i)))
			rep.Count(fmt.Sprintf("chunk-rt:method%d-mode%d", j.method, j.mode))
			in := map[string]any{"quality": j.quality, "method": j.method, "mode": j.mode, "effort": j.effort}
			for k, v := range j.extra {
				in[k] = v
			}
			m, pm := guardT(func() string { return chk(j.w, j.h, j.p) })
			switch {
			case m == "skipped" || m == "":
			case m == "hang":
				hin := map[string]any{"op": "alpha-plane", "what": "chunk-roundtrip", "w": j.w, "h": j.h, "plane": hx(j.p)}
				for k, v := range in {
					hin[k] = v
				}
				rep.Add(hangFinding("DecodeAlpha", fmt.Sprintf("DecodeAlpha(EncodeAlpha(a)) on a %dx%d %s plane, quality %d method %d filter %d effort %d", j.w, j.h, j.cls, j.quality, j.method, j.mode, j.effort), hin))
				rep.Add(Finding{Kind: "property", Property: "C07", Signature: fmt.Sprintf("alpha:chunk-roundtrip-hang:c%d-mode%d-m%d", j.method, j.mode, j.effort),
					Detail: "DecodeAlpha(EncodeAlpha(a)) does not return", Input: hin})
			default:
				w, h, p, msg := shrinkPlaneProp(j.w, j.h, j.p, chk)
				propFinding(rep, "chunk-roundtrip", fmt.Sprintf("c%d-mode%d-m%d", j.method, j.mode, j.effort),
					fmt.Sprintf("%s %s (found on a %dx%d %s plane %v, shrunk to %dx%d)", msg, pm, j.w, j.h, j.cls, j.extra, w, h), w, h, p, in)
			}
		}
		var wg sync.WaitGroup
		nw := runtime.NumCPU()
		for wk := 0; wk < nw; wk++ {
			wg.Add(1)
			go func(wk int) {
				defer wg.Done()
				for i := wk; i < len(rts); i += nw {
					doRT(i)
				}
			}(wk)
		}
		wg.Wait()
	}

	if hangSeen.Load() {
		rep.Notes = append(rep.Notes, "suite stopped early: a Go decode call did not return (see the hang finding)")
		return nil
	}

	// ---- (c) END-TO-END ----
	var cases []e2eCase
	eidx := uint64(0)
	alphaClasses := []int{AlphaBinary, AlphaFewLevels, AlphaGradient, AlphaNoise, AlphaAllZero, AlphaSemiFlat, AlphaSparse}
	smallSizes := [][2]int{{1, 1}, {1, 19}, {23, 1}, {2, 2}, {7, 5}, {16, 16}, {17, 33}, {33, 17}, {40, 24}, {64, 64}, {64, 3}, {5, 61}}
	add := func(w, h, cls, acls int, o e2eOpts) {
		eidx++
		cases = append(cases, e2eCase{w: w, h: h, cls: cls, acls: acls, idx: eidx, o: o})
	}
	rounds := 1
	if rich {
		rounds = 5
	}
	for round := 0; round < rounds; round++ {
		for _, comp := range []int{0, 1, -1} {
			for _, filt := range []int{0, 1, 2, -1} {
				for _, aq := range []int{100, -1} {
					for method := 0; method <= 6; method++ {
						for _, exact := range []bool{false, true} {
							r := NewRNG(rep.Seed, 35_000_000+uint64(len(cases)))
							o := e2eOpts{comp, filt, aq, method, exact, []int{0, 50, 75, 100}[r.Intn(4)]}
							if rich {
								for _, acls := range alphaClasses {
									s := smallSizes[r.Intn(len(smallSizes))]
									add(s[0], s[1], r.Intn(NumImgClasses), acls, o)
								}
							} else {
								s := smallSizes[r.Intn(len(smallSizes))]
								add(s[0], s[1], r.Intn(NumImgClasses), alphaClasses[r.Intn(len(alphaClasses))], o)
							}
						}
					}
				}
			}
		}
	}
	// opaque sources
	nOpaque := 30
	if rich {
		nOpaque = 300
	}
	for k := 0; k < nOpaque; k++ {
		r := NewRNG(rep.Seed, 36_000_000+uint64(k))
		s := smallSizes[r.Intn(len(smallSizes))]
		add(s[0], s[1], r.Intn(NumImgClasses), AlphaNone, e2eOpts{r.Intn(3) - 1, r.Intn(4) - 1, []int{100, -1, 50, 0}[r.Intn(4)], r.Intn(7), r.Bool(), 75})
	}
	// quantised alpha
	qrounds := 1
	if rich {
		qrounds = 4
	}
	for round := 0; round < qrounds; round++ {
		for _, aq := range []int{0, 1, 50, 70, 71, 99} {
			for _, comp := range []int{0, 1} {
				for _, filt := range []int{0, 1, 2} {
					nM := 4
					if rich {
						nM = 7
					}
					for m := 0; m < nM; m++ {
						r := NewRNG(rep.Seed, 37_000_000+uint64(len(cases)))
						method := m
						if !rich {
							method = r.Intn(7)
						}
						acls := []int{AlphaGradient, AlphaNoise, AlphaFewLevels, AlphaBinary, AlphaGradient, AlphaNoise}[r.Intn(6)]
						s := smallSizes[2+r.Intn(len(smallSizes)-2)]
						add(s[0], s[1], r.Intn(NumImgClasses), acls, e2eOpts{comp, filt, aq, method, r.Bool(), 75})
					}
				}
			}
		}
	}
	if rich {
		// few-level masks at Method 5/6 (the region of the repaired VP8L in-place inverse-transform defect)
		for k := 0; k < 3500; k++ {
			r := NewRNG(rep.Seed, 38_000_000+uint64(k))
			w, h := 9+r.Intn(56), 9+r.Intn(56)
			if k%7 == 0 {
				w, h = 33, 17
			}
			acls := []int{AlphaBinary, AlphaFewLevels}[r.Intn(2)]
			add(w, h, r.Intn(NumImgClasses), acls, e2eOpts{[]int{1, -1}[r.Intn(2)], r.Intn(4) - 1, 100, 5 + r.Intn(2), r.Bool(), []int{50, 75, 90, 100}[r.Intn(4)]})
		}
		// 320x320 (crosses the parallel-encoder thresholds), 1xN, Nx1
		for _, comp := range []int{0, 1} {
			for _, filt := range []int{0, 1, 2} {
				for method := 0; method <= 6; method++ {
					r := NewRNG(rep.Seed, 39_000_000+uint64(len(cases)))
					acls := alphaClasses[r.Intn(4)]
					add(320, 320, []int{ClsPhoto, ClsPal4, ClsGradient}[r.Intn(3)], acls, e2eOpts{comp, filt, []int{100, -1, 100, 50}[r.Intn(4)], method, r.Bool(), 75})
					add(1, 200+r.Intn(300), ClsPhoto, alphaClasses[r.Intn(4)], e2eOpts{comp, filt, 100, method, r.Bool(), 75})
					add(200+r.Intn(300), 1, ClsNoise, alphaClasses[r.Intn(4)], e2eOpts{comp, filt, 100, method, r.Bool(), 75})
				}
			}
		}
	}
	// storage kind of the source x bounds origin x Exact (the encoder's alpha extraction and its transparent-area
	// clean-up have one code path per concrete image type; the generic path addresses pixels by Bounds().Min)
	stRounds := 6
	if rich {
		stRounds = 60
	}
	for round := 0; round < stRounds; round++ {
		for st := 0; st < numAlStorage; st++ {
			for _, exact := range []bool{false, true} {
				r := NewRNG(rep.Seed, 41_000_000+uint64(len(cases)))
				pl := alPlace{st: st}
				pl.ox, pl.oy = alDrawOrigin(r)
				if st == alStNRGBA && pl.ox == 0 && pl.oy == 0 {
					pl.ox, pl.oy = -3, 2 // NRGBA at the origin is what every other case uses
				}
				o := e2eOpts{r.Intn(3) - 1, r.Intn(4) - 1, []int{100, -1, 100, 100, 50, 0}[r.Intn(6)], r.Intn(7), exact, []int{0, 50, 75, 100}[r.Intn(4)]}
				acls := alphaClasses[r.Intn(len(alphaClasses))]
				if r.Chance(1, 12) {
					acls = AlphaNone
				}
				s := smallSizes[r.Intn(len(smallSizes))]
				eidx++
				cases = append(cases, e2eCase{w: s[0], h: s[1], cls: r.Intn(NumImgClasses), acls: acls, idx: eidx, o: o, pl: pl})
			}
		}
	}
	// wide pictures (row scratch buffers of the decoder's upsampler / alpha application: 1024, 2048, 4096 pixels)
	// and threshold-crossing sizes, cheap content
	{
		cheapAlpha := []int{AlphaGradient, AlphaBinary, AlphaSparse, AlphaSemiFlat, AlphaFewLevels, AlphaGradient, AlphaBinary, AlphaAllZero}
		addCheap := func(w, h int, tc *ThresholdCase, wide bool, salt uint64) {
			r := NewRNG(rep.Seed, 42_000_000+salt)
			pl := alPlace{}
			if r.Chance(1, 4) {
				pl.st = r.Intn(numAlStorage)
				pl.ox, pl.oy = alDrawOrigin(r)
			}
			acls := cheapAlpha[r.Intn(len(cheapAlpha))]
			if r.Chance(1, 10) {
				acls = AlphaNone
			}
			method := r.Intn(7)
			if w*h > 60000 && !rich {
				method = r.Intn(3)
			}
			o := e2eOpts{r.Intn(3) - 1, r.Intn(4) - 1, []int{100, -1, 100, 50}[r.Intn(4)], method, r.Bool(), []int{50, 75, 90}[r.Intn(3)]}
			eidx++
			cases = append(cases, e2eCase{w: w, h: h, cls: r.Intn(NumCheapClasses), acls: acls, idx: eidx, o: o, pl: pl, cheap: true, tc: tc, wide: wide})
		}
		wrounds := 1
		if rich {
			wrounds = 6
		}
		salt := uint64(0)
		for round := 0; round < wrounds; round++ {
			for _, w := range WideWidths {
				for _, h := range WideHeights {
					salt++
					addCheap(w, h, nil, true, salt)
				}
			}
		}
		tf := ThresholdFilter{Units: []string{"width", "height", "pixels"}, MaxPixels: 120000, MinValue: 200}
		tcs := DrawThresholdCases(rep.Seed, 0xa1fa, 10, tf)
		if rich {
			tcs = ThresholdCases(tf)
		}
		for k := range tcs {
			salt++
			addCheap(tcs[k].W, tcs[k].H, &tcs[k], false, salt)
		}
		rep.CountN("e2e:threshold-cases-available", len(ThresholdCases(tf)))
	}
	// banded alpha planes (tile geometry of the compressed plane) and planes with exactly n levels: lossless-compressed
	// alpha, AlphaQuality 100, decoded alpha == source alpha
	e2eBands := alBandDraw(rep.Seed, 1, rich)
	for k := range e2eBands {
		bd := e2eBands[k]
		r := NewRNG(rep.Seed, 46_000_000+uint64(k))
		o := e2eOpts{[]int{1, 1, -1}[r.Intn(3)], (k + int(rep.Seed%3) + 1) % 3, []int{100, 100, -1}[r.Intn(3)], bd.method, r.Bool(), []int{50, 75, 90}[r.Intn(3)]}
		eidx++
		cases = append(cases, e2eCase{w: bd.w, h: bd.h, cls: []int{ClsPhoto, ClsFlat, ClsGradient, ClsPal16}[r.Intn(4)], idx: eidx, o: o, band: &bd})
	}
	for k := range levelCases {
		cc := levelCases[k]
		r := NewRNG(rep.Seed, 47_000_000+uint64(k))
		sz := alLevelSizes[r.Intn(len(alLevelSizes))]
		for _, filt := range []int{1, []int{0, 2}[r.Intn(2)]} {
			o := e2eOpts{[]int{1, 1, 0, -1}[r.Intn(4)], filt, []int{100, -1}[r.Intn(2)], r.Intn(7), r.Bool(), []int{50, 75, 100}[r.Intn(3)]}
			eidx++
			cases = append(cases, e2eCase{w: sz[0], h: sz[1], idx: eidx, o: o, levels: cc.N, cc: &cc})
		}
	}
	rep.CountN("e2e:encodes", len(cases))
	runE2E(rep, cases)
	return nil
}

// ---------- replayers ----------

// replayAlphaLine re-executes one protocol line whose Go answer can be recomputed from the line itself.
func replayAlphaLine(in map[string]any) int {
	line, _ := in["line"].(string)
	f := strings.Split(line, " ")
	lean, err := RunDriver([]string{line})
	if err != nil {
		fmt.Println(err)
		return 2
	}
	fmt.Println("lean:", lean[0])
	iv := func(k int) int { v, _ := strconv.Atoi(f[k]); return v }
	var goL string
	switch f[0] {
	case "alfilter":
		_, goL = mkFilter(iv(1))(iv(2), iv(3), unhx(f[4]))
	case "alunfilter":
		_, goL = mkUnfilter(iv(1))(iv(2), iv(3), unhx(f[4]))
	case "alquant":
		_, goL = mkQuant(f[1], iv(4))(iv(2), iv(3), unhx(f[5]))
	case "alfmap":
		_, goL = mkFmap(iv(1), iv(2))(iv(3), iv(4), unhx(f[5]))
	case "alextract":
		p := unhx(f[1])
		w, h := len(p), 1
		if iw, ok := in["w"].(float64); ok {
			if ih, ok := in["h"].(float64); ok && int(iw)*int(ih) == len(p) {
				w, h = int(iw), int(ih)
			}
		}
		pl, ok := alPlaceFromInput(in)
		if !ok {
			fmt.Println("bad replay input: unknown storage kind")
			return 2
		}
		fmt.Printf("source: %dx%d %s\n", w, h, pl)
		_, goL = mkExtractAt(pl)(w, h, p)
	case "aldec":
		_, goL = goDecLine(unhx(f[3]), iv(1), iv(2))
	case "alenc":
		var l2 string
		w, h := iv(1), iv(2)
		l2, goL = mkEnc(iv(3), iv(4), iv(5), iv(6), &w, &h)(w, h, unhx(f[7]))
		if l2 != line {
			ll, err := RunDriver([]string{l2})
			if err == nil {
				lean = ll
				fmt.Println("lean (codec values recomputed):", lean[0])
			}
		}
	case "alstream":
		goL, _ = guard(func() string { return "ok " + hx(verifapi.AlphaVP8LStream(unhx(f[3]), iv(1), iv(2))) })
	case "allevels":
		goL = fmt.Sprintf("ok %d", docAlphaLevels(iv(1)))
	default:
		fmt.Println("no Go side for", f[0])
		return 2
	}
	fmt.Println("go:  ", goL)
	if goL != lean[0] {
		return 1
	}
	return 0
}

// replayAlphaPlane re-evaluates a Go-only component property.
func replayAlphaPlane(in map[string]any) int {
	what, _ := in["what"].(string)
	num := func(k string) int { v, _ := in[k].(float64); return int(v) }
	hs, _ := in["plane"].(string)
	p, w, h := unhx(hs), num("w"), num("h")
	msg, pm := guard(func() string {
		switch what {
		case "filter-roundtrip":
			return checkFilterRT(num("filter"), w, h, p)
		case "quant-levels":
			a, _ := checkQuantProps(num("n"), w, h, p)
			return a
		case "quant-minmax":
			_, a := checkQuantProps(num("n"), w, h, p)
			return a
		case "chunk-roundtrip":
			return checkChunkRT(w, h, p, num("quality"), num("method"), num("mode"), num("effort"))
		}
		return "unknown check " + what
	})
	fmt.Println("go:", msg, pm)
	if msg != "" {
		return 1
	}
	return 0
}

// replayAlphaE2E re-runs Encode -> Decode on the recorded picture (literal pixels, or the generator parameters of a
// large cheap picture), options, storage kind and bounds origin.
func replayAlphaE2E(in map[string]any) int {
	num := func(k string) int { v, _ := in[k].(float64); return int(v) }
	w, h := num("w"), num("h")
	os_, _ := in["opts"].(string)
	o, ok := parseE2EOpts(os_)
	pl, okp := alPlaceFromInput(in)
	if !ok || !okp || w < 1 || h < 1 {
		fmt.Println("bad replay input")
		return 2
	}
	var img *image.NRGBA
	if ps, lit := in["pix"].(string); lit {
		pix, err := hex.DecodeString(ps)
		if err != nil || len(pix) != 4*w*h {
			fmt.Println("bad replay input")
			return 2
		}
		img = image.NewNRGBA(image.Rect(0, 0, w, h))
		copy(img.Pix, pix)
	} else {
		gs, _ := in["genseed"].(string)
		gi, _ := in["genidx"].(string)
		seed, e1 := strconv.ParseUint(gs, 10, 64)
		idx, e2 := strconv.ParseUint(gi, 10, 64)
		if _, isCheap := in["cheap"].(float64); !isCheap || e1 != nil || e2 != nil {
			fmt.Println("bad replay input")
			return 2
		}
		img = e2eCase{w: w, h: h, cls: num("cheap"), acls: num("acls"), idx: idx, cheap: true}.gen(seed)
	}
	fmt.Printf("source: %dx%d %s opts %s\n", w, h, pl, o)
	what, detail := e2eCheckG(img, o, pl)
	fmt.Printf("go: %s %s\n", what, detail)
	if what != "" {
		return 1
	}
	return 0
}
