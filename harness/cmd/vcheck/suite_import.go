package main

// Suite "import" — property C19 (the encoder reads exactly the caller's pixels: placement,
// stride, origin and the image type do not matter; bytes outside the bounds are never read
// into the output; the caller's image is never written).
//
// Tie between the Lean model Webp.Impl.Import and /repo, by observable:
//   encodeLossless / encodeLosslessToWriter import loops   exact, through the lossless round trip
//                                                          (hook webp.VerifImportARGB)              op imp_argb
//   webp.imageHasAlpha / lossy.imageHasAlpha               exact (hooks)                            op imp_hasalpha
//   extractAlphaWith(img,true)                             exact (hook)                             op imp_alpha
//   cleanupTransparentAreaLossyWith copy loops             exact on pictures without alpha-0 pixels op imp_cleanup
//   sharpYUVConvert RGB buffer                             two-stage: model buffer -> real sharpyuv.Convert
//                                                          == real sharpYUVConvert planes           op imp_sharprgb
//   lossy.importImage Y plane                              exact (hook verifapi.ImportPlanes)       op imp_y
//   lossy.importImage chroma rows                          two-stage: model planar rows -> real
//                                                          AccumulateRGBA/ConvertRGBA32ToUV[Dithered]
//                                                          == real U/V planes                       op imp_uvrows
// and the property itself, end to end on the real webp.Encode: every placement of the same
// pixels gives a byte-identical file; outside bytes are irrelevant; caller buffers unchanged;
// and none of this depends on what the process encoded before (the lossy encoder object and
// its import scratch rows are pooled): plane imports run on an encoder that has just imported
// another picture (hook verifapi.ImportPlanesAfter), placements are re-encoded right after a
// prior picture with equal macroblock dimensions, and a mismatch that does not show again on
// re-run is reported as ":history-dependent" (counter "nonreproducible"), never dropped.

import (
	"bytes"
	"fmt"
	"image"
	"image/color"
	"runtime"
	"sort"
	"strconv"
	"strings"
	"sync"
	"sync/atomic"
	"time"

	webp "github.com/deepteams/webp"
	"github.com/deepteams/webp/verifapi"
)

func init() {
	suites["import"] = suiteImport
	replayers["impcase"] = replayImpCase
	replayers["impline"] = replayImpLine
}

// ---------- generic wrappers (implement only image.Image) ----------

type impGenNRGBA struct{ m *image.NRGBA }

func (g impGenNRGBA) ColorModel() color.Model { return color.NRGBAModel }
func (g impGenNRGBA) Bounds() image.Rectangle { return g.m.Rect }
func (g impGenNRGBA) At(x, y int) color.Color { return g.m.NRGBAAt(x, y) }

type impGenRGBA struct{ m *image.RGBA }

func (g impGenRGBA) ColorModel() color.Model { return color.RGBAModel }
func (g impGenRGBA) Bounds() image.Rectangle { return g.m.Rect }
func (g impGenRGBA) At(x, y int) color.Color { return g.m.RGBAAt(x, y) }

// impGenConv shows the NRGBA pixels through an arbitrary colour conversion.
type impGenConv struct {
	m     *image.NRGBA
	model color.Model
	conv  func(color.NRGBA) color.Color
}

func (g impGenConv) ColorModel() color.Model { return g.model }
func (g impGenConv) Bounds() image.Rectangle { return g.m.Rect }
func (g impGenConv) At(x, y int) color.Color { return g.conv(g.m.NRGBAAt(x, y)) }

// ---------- wire form of an image (Part B) ----------

type impWire struct {
	src    string // n | r | gn | gr
	pix    []byte
	stride int
	rect   image.Rectangle
}

func (m impWire) String() string {
	return fmt.Sprintf("%s %s %d %d %d %d %d", m.src, hx(m.pix), m.stride, m.rect.Min.X, m.rect.Min.Y, m.rect.Max.X, m.rect.Max.Y)
}

// wellFormed is validNRGBA/validRGBA for a non-empty rectangle.
func (m impWire) wellFormed() bool {
	w, h := m.rect.Dx(), m.rect.Dy()
	return w > 0 && h > 0 && m.stride >= 4*w && len(m.pix) >= (h-1)*m.stride+4*w
}

func (m impWire) image(pix []byte) image.Image {
	switch m.src {
	case "n":
		return &image.NRGBA{Pix: pix, Stride: m.stride, Rect: m.rect}
	case "r":
		return &image.RGBA{Pix: pix, Stride: m.stride, Rect: m.rect}
	case "gn":
		return impGenNRGBA{&image.NRGBA{Pix: pix, Stride: m.stride, Rect: m.rect}}
	case "gr":
		return impGenRGBA{&image.RGBA{Pix: pix, Stride: m.stride, Rect: m.rect}}
	}
	return nil
}

func parseImpWire(f []string) (impWire, bool) {
	if len(f) != 7 {
		return impWire{}, false
	}
	var m impWire
	m.src = f[0]
	if m.src != "n" && m.src != "r" && m.src != "gn" && m.src != "gr" {
		return m, false
	}
	m.pix = unhx(f[1])
	var v [5]int
	for i := 0; i < 5; i++ {
		n, err := strconv.Atoi(f[2+i])
		if err != nil {
			return m, false
		}
		v[i] = n
	}
	m.stride = v[0]
	m.rect = image.Rectangle{Min: image.Point{X: v[1], Y: v[2]}, Max: image.Point{X: v[3], Y: v[4]}}
	return m, true
}

// impDither maps the wire amplitude back to a cfg.Dithering value with
// int(float32(256)*d) == amp (what dsp.InitRandom computes); amp < 0: no dithering.
func impDither(amp int) float32 {
	switch {
	case amp < 0:
		return 0
	case amp == 0:
		return 1.0 / 1024 // > 0 (serial dithered path) but amplitude 0
	default:
		return float32(amp) / 256
	}
}

func impAmpOf(d float32) int {
	if d <= 0 {
		return -1
	}
	if d > 1 {
		return 256
	}
	return int(float32(256) * d)
}

func ycbcrEqual(a, b *image.YCbCr) bool {
	return a.Rect == b.Rect && a.YStride == b.YStride && a.CStride == b.CStride &&
		bytes.Equal(a.Y, b.Y) && bytes.Equal(a.Cb, b.Cb) && bytes.Equal(a.Cr, b.Cr)
}

func ycbcrDigest(a *image.YCbCr) string {
	return "y=" + digest(a.Y) + ",cb=" + digest(a.Cb) + ",cr=" + digest(a.Cr)
}

// ---- history-aware plane import (imp_y / imp_uvrows) ----
//
// The Lean model makes the imported planes a function of the image alone. The real importImage
// runs on a pooled VP8Encoder whose scratch rows (serialPlanar*, the UV workers' planar buffers)
// survive from the previous picture, so a line is evaluated on an encoder object that has just
// imported a PRIOR picture of the same macroblock dimensions (hook verifapi.ImportPlanesAfter).
// The prior is a function of the line's hash: the driver line, and the model's answer, are
// unchanged, and the impline replay rebuilds the same prior.
var impPriorKinds = []string{"", "gen-alpha", "dither-alpha", "nrgba-alpha", "gen-opaque", "gen-alpha", "dither-alpha"}

func impPriorKind(line string) string {
	return impPriorKinds[(fnv1a([]byte(line))>>20)%uint64(len(impPriorKinds))]
}

var impPriorReused, impPriorNotReused atomic.Int64

// impPriorFor builds the prior picture (same macroblock dimensions as w x h) and its config.
func impPriorFor(line string, w, h int) (kind string, img image.Image, cfg verifapi.LossyEncodeConfig) {
	kind = impPriorKind(line)
	if kind == "" {
		return
	}
	hash := fnv1a([]byte(line))
	pw := 16*((w+15)>>4-1) + 1 + int(hash>>8&15)
	ph := 16*((h+15)>>4-1) + 1 + int(hash>>12&15)
	m := &image.NRGBA{Pix: impPriorPixels(hash, pw, ph, kind != "gen-opaque"), Stride: 4 * pw, Rect: image.Rect(0, 0, pw, ph)}
	cfg = verifapi.LossyDefaultConfig(75)
	cfg.HasAlpha = 1
	switch kind {
	case "gen-alpha":
		img = impGenNRGBA{m}
	case "dither-alpha":
		img = m
		cfg.Dithering = 0.5
	case "nrgba-alpha":
		img = m
	case "gen-opaque":
		img = impGenNRGBA{m}
		cfg.HasAlpha = 0
	}
	return
}

// impPriorPixels: noise colours; alpha a mix of 0, partial and 255 (or all 255).
func impPriorPixels(seed uint64, w, h int, alpha bool) []byte {
	pix := NewRNG(seed, 0x9a10).Bytes(4 * w * h)
	for i := 3; i < len(pix); i += 4 {
		switch a := pix[i]; {
		case !alpha || a > 170:
			pix[i] = 255
		case a < 90:
			pix[i] = 0
		}
	}
	return pix
}

// impPlanes is verifapi.ImportPlanes, preceded by the line's prior import on the same encoder.
func impPlanes(line string, img image.Image, cfg verifapi.LossyEncodeConfig, w, h int) (y, u, v []byte, ys, uvs, mbW, mbH int, note string) {
	kind, prior, pcfg := impPriorFor(line, w, h)
	if kind == "" {
		y, u, v, ys, uvs, mbW, mbH = verifapi.ImportPlanes(img, cfg)
		return
	}
	var reused bool
	y, u, v, ys, uvs, mbW, mbH, reused = verifapi.ImportPlanesAfter(prior, pcfg, img, cfg, 6)
	if reused {
		impPriorReused.Add(1)
	} else {
		impPriorNotReused.Add(1)
	}
	note = fmt.Sprintf(" [on the encoder that had just imported a %v %s picture: reused=%v]", prior.Bounds().Size(), kind, reused)
	return
}

// impCheckLine evaluates one driver line on the real code and compares with the model's
// answer. match == true: tie holds for this line. goDesc is what Go produced (a canonical
// line for the verbatim ops, a description for the two-stage ops). callerMod reports that
// the hook changed the image it was given.
func impCheckLine(line, lean string) (match bool, goDesc string, callerMod bool) {
	f := strings.Fields(line)
	if len(f) < 8 {
		return false, "bad-line", false
	}
	op := f[0]
	m, ok := parseImpWire(f[len(f)-7:])
	if !ok {
		return false, "bad-line", false
	}
	args := f[1 : len(f)-7]
	// The model has no notion of capacity: image.NRGBA.NRGBAAt slices Pix[i:i+4:i+4], which
	// Go checks against cap(Pix), not len(Pix). Pin cap == len so that "too short" means the same
	// on both sides.
	pix := make([]byte, len(m.pix))
	copy(pix, m.pix)
	pix = pix[:len(pix):len(pix)]
	img := m.image(pix)
	w, h := m.rect.Dx(), m.rect.Dy()
	defer func() { callerMod = !bytes.Equal(pix, m.pix) }()

	var note string // which prior import preceded the one under test (imp_y / imp_uvrows)
	lossyCfg := func(amp, ha int) verifapi.LossyEncodeConfig {
		cfg := verifapi.LossyDefaultConfig(75)
		cfg.Dithering = impDither(amp)
		cfg.HasAlpha = ha
		return cfg
	}

	switch op {
	case "imp_argb":
		if len(args) != 1 {
			return false, "bad-line", false
		}
		g, _ := guard(func() string {
			words, err := webp.VerifImportARGB(img, args[0] == "s")
			if err != nil {
				return "err"
			}
			b := make([]byte, 0, 4*len(words))
			for _, v := range words {
				b = append(b, byte(v>>24), byte(v>>16), byte(v>>8), byte(v))
			}
			return "ok " + digest(b)
		})
		return g == lean, g, false
	case "imp_hasalpha":
		if len(args) != 1 {
			return false, "bad-line", false
		}
		if args[0] == "l" && !m.wellFormed() {
			return true, "skipped-malformed", false // the lossy package has no validNRGBA guard; never fed malformed values
		}
		g, _ := guard(func() string {
			if args[0] == "l" {
				return "ok " + b2s(verifapi.ImportHasAlpha(img))
			}
			return "ok " + b2s(webp.VerifImportHasAlpha(img))
		})
		return g == lean, g, false
	case "imp_alpha":
		g, _ := guard(func() string { return "ok " + digest(webp.VerifImportExtractAlpha(img)) })
		return g == lean, g, false
	case "imp_cleanup":
		g, _ := guard(func() string {
			n := webp.VerifImportCleanup(img)
			if n == nil {
				return "err not-nrgba"
			}
			if n.Stride != 4*w || n.Rect != image.Rect(0, 0, w, h) {
				return fmt.Sprintf("err layout stride=%d rect=%v", n.Stride, n.Rect)
			}
			return "ok " + digest(n.Pix)
		})
		return g == lean, g, false
	case "imp_sharprgb":
		var same bool
		g, _ := guard(func() string {
			realYUV, err := webp.VerifImportSharpYUV(img)
			if err != nil {
				return "err"
			}
			d := "ok real:" + ycbcrDigest(realYUV)
			if !strings.HasPrefix(lean, "ok ") {
				return d
			}
			rgb := unhx(lean[3:])
			if len(rgb) != w*h*3 {
				return fmt.Sprintf("%s model-rgb-len=%d want %d", d, len(rgb), w*h*3)
			}
			via, err := webp.VerifImportSharpFromRGB(rgb, w, h)
			if err != nil {
				return d + " model-rgb:convert-error"
			}
			same = ycbcrEqual(realYUV, via)
			return d + " model-rgb:" + ycbcrDigest(via)
		})
		if g == "panic" || g == "err" {
			return g == lean, g, false
		}
		return same, g, false
	case "imp_y":
		if len(args) != 2 || !m.wellFormed() {
			return true, "skipped-malformed", false
		}
		amp, _ := strconv.Atoi(args[0])
		g, _ := guard(func() string {
			y, _, _, ys, _, mbW, mbH, n := impPlanes(line, img, lossyCfg(amp, int(fnv1a([]byte(line))&1)), w, h)
			note = n
			if ys != mbW*16 || len(y) != mbW*16*mbH*16 {
				return fmt.Sprintf("err layout ystride=%d mbW=%d mbH=%d len=%d", ys, mbW, mbH, len(y))
			}
			return "ok " + digest(y)
		})
		return g == lean, g + note, false
	case "imp_uvrows":
		if len(args) != 3 || !m.wellFormed() {
			return true, "skipped-malformed", false
		}
		amp, _ := strconv.Atoi(args[0])
		ha, _ := strconv.Atoi(args[2])
		var same bool
		g, _ := guard(func() string {
			cfg := lossyCfg(amp, ha)
			_, u, v, _, uvs, mbW, mbH, n := impPlanes(line, img, cfg, w, h)
			note = n
			padW, padH := mbW*16, mbH*16
			pairs, uvW := padH/2, (padW+1)>>1
			d := "ok real:u=" + digest(u) + ",v=" + digest(v)
			if uvs < uvW || len(u) < (pairs-1)*uvs+uvW || len(v) < (pairs-1)*uvs+uvW {
				return fmt.Sprintf("err layout uvstride=%d len=%d", uvs, len(u))
			}
			if !strings.HasPrefix(lean, "ok ") {
				return d
			}
			planar := unhx(lean[3:])
			if len(planar) != pairs*2*padW*4 {
				return fmt.Sprintf("%s model-planar-len=%d want %d", d, len(planar), pairs*2*padW*4)
			}
			mu, mv := verifapi.ImportUVFromPlanar(planar, padW, pairs, cfg.Dithering, padW*padH)
			same = true
			for r := 0; r < pairs; r++ {
				if !bytes.Equal(u[r*uvs:r*uvs+uvW], mu[r*uvW:(r+1)*uvW]) || !bytes.Equal(v[r*uvs:r*uvs+uvW], mv[r*uvW:(r+1)*uvW]) {
					same = false
					d += fmt.Sprintf(" first-differing-row-pair=%d", r)
					break
				}
			}
			return d + " model:u=" + digest(mu) + ",v=" + digest(mv)
		})
		if g == "panic" || strings.HasPrefix(g, "err") {
			return g == lean, g + note, false
		}
		return same, g + note, false
	}
	return false, "bad-op", false
}

func replayImpLine(in map[string]any) int {
	line, _ := in["line"].(string)
	l, err := RunDriver([]string{line})
	if err != nil {
		fmt.Println(err)
		return 2
	}
	match, g, cm := impCheckLine(line, l[0])
	fmt.Printf("go:   %s\nlean: %s\n", short(g, 300), short(l[0], 300))
	if cm {
		fmt.Println("caller's Pix was modified by the hook")
	}
	if !match || cm {
		return 1
	}
	return 0
}

// ---------- picture generation shared by both parts ----------

// impTweak sprinkles translucent pixels with small / boundary alpha values (the interesting
// ones for un-premultiplication).
func impTweak(r *RNG, img *image.NRGBA, mode int) {
	if mode == 0 {
		return
	}
	alphas := []byte{1, 2, 3, 5, 6, 7, 9, 17, 127, 128, 129, 254}
	for i := 0; i+3 < len(img.Pix); i += 4 {
		if r.Chance(1, 3) {
			img.Pix[i+3] = alphas[r.Intn(len(alphas))]
			if mode == 2 { // colours near the alpha value
				for k := 0; k < 3; k++ {
					img.Pix[i+k] = byte(r.Next())
				}
			}
		}
	}
}

func impHasZeroAlpha(pix []byte) bool {
	for i := 3; i < len(pix); i += 4 {
		if pix[i] == 0 {
			return true
		}
	}
	return false
}

func impAlphaKind(pix []byte) string {
	opaque, zero, trans := 0, 0, 0
	for i := 3; i < len(pix); i += 4 {
		switch pix[i] {
		case 255:
			opaque++
		case 0:
			zero++
		default:
			trans++
		}
	}
	switch {
	case trans > 0:
		return "translucent"
	case zero > 0:
		return "binary"
	}
	return "opaque"
}

func impFlat(pix []byte) bool {
	for i := 4; i+3 < len(pix); i += 4 {
		if !bytes.Equal(pix[i:i+4], pix[0:4]) {
			return false
		}
	}
	return true
}

// premultiply the tight NRGBA picture the way image/color does (RGBAModel).
func impPremul(pix []byte) []byte {
	out := make([]byte, len(pix))
	for i := 0; i+3 < len(pix); i += 4 {
		c := color.RGBAModel.Convert(color.NRGBA{R: pix[i], G: pix[i+1], B: pix[i+2], A: pix[i+3]}).(color.RGBA)
		out[i], out[i+1], out[i+2], out[i+3] = c.R, c.G, c.B, c.A
	}
	return out
}

// ---------- embeddings for Part B ----------

// impEmbed lays the tight w×h picture (4 bytes per pixel) out in a buffer; returns the
// Pix slice as the image type would hold it, the stride and the rectangle.
func impEmbed(r *RNG, kind string, w, h int, tight []byte) (pix []byte, stride int, rect image.Rectangle) {
	switch kind {
	case "origin":
		return append([]byte(nil), tight...), 4 * w, image.Rect(0, 0, w, h)
	case "shift":
		mx, my := r.Intn(41)-20, r.Intn(41)-20
		if mx == 0 && my == 0 {
			mx = -7
		}
		return append([]byte(nil), tight...), 4 * w, image.Rect(mx, my, mx+w, my+h)
	case "pad":
		stride = 4*w + 1 + r.Intn(13) // not necessarily a multiple of 4
		pix = r.Bytes(h*stride + r.Intn(9))
		for y := 0; y < h; y++ {
			copy(pix[y*stride:], tight[y*4*w:(y+1)*4*w])
		}
		return pix, stride, image.Rect(0, 0, w, h)
	case "band":
		// full-width band of a taller garbage-filled parent: Stride == 4*w although Pix runs on to
		// the end of the parent's buffer (rows below the band); no outside alpha byte is 255
		oy, eb := []int{0, 1, 3}[r.Intn(3)], 1+r.Intn(2)
		py := 0
		if r.Chance(1, 3) {
			py = r.Intn(21) - 10
		}
		parent := image.NewNRGBA(image.Rect(0, py, w, py+oy+h+eb))
		copy(parent.Pix, r.Bytes(len(parent.Pix)))
		impNoOpaqueAlpha(parent.Pix)
		copy(parent.Pix[parent.PixOffset(0, py+oy):], tight)
		sub := parent.SubImage(image.Rect(0, py+oy, w, py+oy+h)).(*image.NRGBA)
		return sub.Pix, sub.Stride, sub.Rect
	case "tail":
		// tight stride at the origin, 1..64 garbage bytes after the last row
		pix = append(append([]byte(nil), tight...), impNoOpaqueAlpha(r.Bytes(1+r.Intn(64)))...)
		return pix, 4 * w, image.Rect(0, 0, w, h)
	case "corner":
		// view into the bottom-right corner of a parent: Stride > 4*w and Pix stops exactly at the last
		// in-bounds pixel, len(Pix) = (h-1)*Stride + 4*w < h*Stride
		ox, oy := 1+r.Intn(4), r.Intn(3)
		px, py := 0, 0
		if r.Chance(1, 3) {
			px, py = r.Intn(21)-10, r.Intn(21)-10
		}
		parent := image.NewNRGBA(image.Rect(px, py, px+ox+w, py+oy+h))
		copy(parent.Pix, r.Bytes(len(parent.Pix)))
		for y := 0; y < h; y++ {
			copy(parent.Pix[parent.PixOffset(px+ox, py+oy+y):], tight[y*4*w:(y+1)*4*w])
		}
		sub := parent.SubImage(image.Rect(px+ox, py+oy, px+ox+w, py+oy+h)).(*image.NRGBA)
		return sub.Pix[:len(sub.Pix):len(sub.Pix)], sub.Stride, sub.Rect
	default: // "sub": SubImage of a larger parent whose own origin may be non-zero
		ox, oy := r.Intn(4), r.Intn(4)
		if ox == 0 && oy == 0 {
			ox = 1
		}
		er, eb := r.Intn(3), r.Intn(3)
		px, py := 0, 0
		if r.Chance(1, 3) {
			px, py = r.Intn(21)-10, r.Intn(21)-10
		}
		parent := image.NewNRGBA(image.Rect(px, py, px+ox+w+er, py+oy+h+eb))
		copy(parent.Pix, r.Bytes(len(parent.Pix)))
		for y := 0; y < h; y++ {
			copy(parent.Pix[parent.PixOffset(px+ox, py+oy+y):], tight[y*4*w:(y+1)*4*w])
		}
		sub := parent.SubImage(image.Rect(px+ox, py+oy, px+ox+w, py+oy+h)).(*image.NRGBA)
		return sub.Pix, sub.Stride, sub.Rect
	}
}

// impNoOpaqueAlpha rewrites every alpha position (index 3 mod 4) holding 255: garbage that a
// has-alpha scan must not look at.
func impNoOpaqueAlpha(b []byte) []byte {
	for i := 3; i < len(b); i += 4 {
		if b[i] == 255 {
			b[i] = byte(i*37) & 0x7f
		}
	}
	return b
}

type impLine struct {
	line      string
	malformed bool
}

func impGenLines(seed uint64, nPics int, rep *Report) []impLine {
	var out []impLine
	webpOps := []string{"imp_argb b", "imp_argb s", "imp_hasalpha w", "imp_alpha", "imp_cleanup", "imp_sharprgb"}
	sizes := []int{1, 2, 3, 4, 5, 7, 8, 9, 15, 16, 17}
	dithers := []float32{1.0, 0.96875, 0.5, 0.84179688, 0.002, 0.3}
	nwMax := runtime.GOMAXPROCS(0)
	for i := 0; i < nPics; i++ {
		r := NewRNG(seed, uint64(i))
		w, h := sizes[r.Intn(len(sizes))], sizes[r.Intn(len(sizes))]
		switch r.Intn(12) {
		case 0:
			w = 1
		case 1:
			h = 1
		case 2:
			w, h = 33, 1+r.Intn(4)
		case 3:
			w, h = 1+r.Intn(4), 33
		case 4:
			w, h = 1+r.Intn(24), 1+r.Intn(24)
		}
		if i%60 == 59 { // a few large ones (the model is slow on them)
			big := []int{31, 32, 33, 47, 48}
			w, h = big[r.Intn(len(big))], big[r.Intn(len(big))]
		}
		cls, acls := r.Intn(NumImgClasses), r.Intn(NumAlphaClasses)
		if r.Chance(1, 4) {
			cls = ClsNoise
		}
		if i%3 == 1 { // has-alpha scans are only observable on opaque pictures
			acls = AlphaNone
		}
		pic := GenImage(r, w, h, cls, acls)
		if acls != AlphaNone && r.Chance(1, 2) {
			impTweak(r, pic, 1+r.Intn(2))
		}
		tight := pic.Pix
		rep.Count("corr-pic:" + impAlphaKind(tight))
		premul := impPremul(tight)
		noZero := !impHasZeroAlpha(tight)

		embs := []string{"origin", "sub", "pad", "shift", "band", "tail", "corner"}
		for _, emb := range embs {
			// src kinds: NRGBA bytes as n/gn; premultiplied bytes as r/gr; now and then the raw
			// (invalid as premultiplied: c > a) bytes as r/gr
			type variant struct {
				src   string
				bytes []byte
				tag   string
			}
			vs := []variant{{"n", tight, "nrgba"}, {"gn", tight, "nrgba"}, {"r", premul, "premul"}, {"gr", premul, "premul"}}
			if r.Chance(1, 3) {
				vs = append(vs, variant{"r", tight, "invalid-premul"}, variant{"gr", tight, "invalid-premul"})
			}
			for _, v := range vs {
				pix, stride, rect := impEmbed(r, emb, w, h, v.bytes)
				m := impWire{src: v.src, pix: pix, stride: stride, rect: rect}
				padH := 16 * ((h + 15) >> 4)
				nws := []int{1, 2, 3, 7, mini(nwMax, padH), padH}
				nw := nws[r.Intn(len(nws))]
				amp := -1
				if r.Chance(1, 2) {
					amp = impAmpOf(dithers[r.Intn(len(dithers))])
				}
				ops := append([]string(nil), webpOps...)
				ops = append(ops, "imp_hasalpha l",
					fmt.Sprintf("imp_y %d %d", amp, nw),
					fmt.Sprintf("imp_uvrows %d %d %d", amp, nw, r.Intn(2)))
				// sample ops per image: small pictures get all of them
				nOps := len(ops)
				if w*h > 64 {
					nOps = 3
				}
				if w*h > 300 {
					nOps = 2
				}
				for k := 0; k < nOps; k++ {
					j := k + r.Intn(len(ops)-k)
					ops[k], ops[j] = ops[j], ops[k]
					op := ops[k]
					if op == "imp_cleanup" && !noZero {
						rep.Count("corr-skip:cleanup-zero-alpha")
						continue
					}
					out = append(out, impLine{line: op + " " + m.String()})
					rep.Count("corr:" + strings.Fields(op)[0] + ":" + v.src)
					rep.Count("corr-emb:" + emb + ":" + v.tag)
				}
			}
		}

		// malformed images: webp-level ops only (validNRGBA guard, At() fallback)
		if i%3 == 0 {
			base := append([]byte(nil), tight...)
			if r.Bool() { // no zero byte at all: cleanup stays comparable whatever bytes At() ends up reading
				for k := range base {
					if base[k] == 0 {
						base[k] = 1
					}
				}
			}
			hasZero := bytes.IndexByte(base, 0) >= 0
			type mal struct {
				kind   string
				pix    []byte
				stride int
				rect   image.Rectangle
			}
			var ms []mal
			ms = append(ms, mal{"short-by-some", base[:len(base)-1-r.Intn(mini(len(base), 9))], 4 * w, image.Rect(0, 0, w, h)})
			ms = append(ms, mal{"empty", nil, 4 * w, image.Rect(0, 0, w, h)})
			if w > 1 {
				ms = append(ms, mal{"stride-small", base, 4 * (w - 1), image.Rect(0, 0, w, h)})
				ms = append(ms, mal{"stride-odd-small", base, 4*w - 1 - r.Intn(3), image.Rect(0, 0, w, h)})
			}
			ms = append(ms, mal{"stride-zero", base, 0, image.Rect(0, 0, w, h)})
			ms = append(ms, mal{"rect-taller", base, 4 * w, image.Rect(0, 0, w, h+1)})
			ms = append(ms, mal{"rect-wider", base, 4 * w, image.Rect(0, 0, w+1, h)})
			ms = append(ms, mal{"rect-shift-short", base[:len(base)-4], 4 * w, image.Rect(3, -2, 3+w, -2+h)})
			for _, ml := range ms {
				src := []string{"n", "r", "gn", "gr"}[r.Intn(4)]
				m := impWire{src: src, pix: ml.pix, stride: ml.stride, rect: ml.rect}
				for _, op := range webpOps {
					if op == "imp_cleanup" && hasZero {
						continue
					}
					if w*h > 64 && !r.Chance(1, 3) {
						continue
					}
					out = append(out, impLine{line: op + " " + m.String(), malformed: true})
					rep.Count("corr-malformed:" + ml.kind)
					rep.Count("corr:" + strings.Fields(op)[0] + ":" + src)
				}
			}
		}
	}
	return out
}

// ---------- Part C: placements of the same pixels ----------

type impOpts struct {
	lossless, exact, sharp, dither bool
	method, quality                int
}

func (o impOpts) String() string {
	return fmt.Sprintf("l%s:x%s:s%s:d%s:m%d:q%d", b2s(o.lossless), b2s(o.exact), b2s(o.sharp), b2s(o.dither), o.method, o.quality)
}

func parseImpOpts(s string) (impOpts, bool) {
	var o impOpts
	var l, x, sh, d int
	n, err := fmt.Sscanf(s, "l%d:x%d:s%d:d%d:m%d:q%d", &l, &x, &sh, &d, &o.method, &o.quality)
	if err != nil || n != 6 {
		return o, false
	}
	o.lossless, o.exact, o.sharp, o.dither = l == 1, x == 1, sh == 1, d == 1
	return o, true
}

func (o impOpts) path() string {
	p := "lossy"
	switch {
	case o.lossless:
		p = "lossless"
	case o.sharp:
		p = "lossy-sharp"
	case o.dither:
		p = "lossy-dither"
	}
	if o.exact {
		p += "-exact"
	}
	return p
}

func (o impOpts) build() *webp.EncoderOptions {
	e := webp.DefaultOptions()
	e.Lossless = o.lossless
	e.Exact = o.exact
	e.UseSharpYUV = o.sharp
	if o.dither {
		e.Preprocessing = 2
	}
	e.Method = o.method
	e.Quality = float32(o.quality)
	return e
}

func impAllOpts() (lossless, lossy []impOpts) {
	for _, x := range []bool{false, true} {
		for _, m := range []int{0, 4} {
			for _, q := range []int{40, 75} {
				lossless = append(lossless, impOpts{lossless: true, exact: x, method: m, quality: q})
			}
			for _, q := range []int{50, 90} {
				for _, s := range []bool{false, true} {
					for _, d := range []bool{false, true} {
						lossy = append(lossy, impOpts{exact: x, sharp: s, dither: d, method: m, quality: q})
					}
				}
			}
		}
	}
	return
}

// impPlaced is one way of handing the picture to Encode.
type impPlaced struct {
	img    image.Image
	buf    []byte           // the caller's whole backing buffer (parent Pix for sub-images)
	hdr    func() string    // Stride/Rect/len(Pix) of the image value handed over
	inside func(i int) bool // byte i of buf belongs to a pixel inside the bounds (nil: all)
}

func (p *impPlaced) checksum() string {
	return fmt.Sprintf("%d:%d|%s", len(p.buf), fnv1a(p.buf), p.hdr())
}

// mutateOutside flips bytes outside the bounds: all of them (mode 0) or a random subset.
func (p *impPlaced) mutateOutside(r *RNG) int {
	if p.inside == nil {
		return 0
	}
	all := r.Bool()
	n := 0
	for i := range p.buf {
		if p.inside(i) {
			continue
		}
		if all || r.Bool() {
			p.buf[i] ^= byte(1 + r.Intn(255))
			n++
		}
	}
	return n
}

var impPlacements = []string{"sub11", "sub30", "sub05", "pad4", "pad12", "shift", "band", "tail", "generic", "generic64", "genericRGBA64", "genericRGBA", "rgba-generic", "rgba-sub", "rgba-band", "rgba-tail", "corner", "rgba-corner"}

// impRefOf names the placement whose encoding must be reproduced.
func impRefOf(pl string) string {
	if strings.HasPrefix(pl, "rgba-") {
		return "rgba"
	}
	// "corner" (NRGBA) is compared with the origin placement like every other NRGBA form
	return "origin"
}

func nrgbaHdr(m *image.NRGBA) func() string {
	return func() string { return fmt.Sprintf("%d %v %d %d", m.Stride, m.Rect, len(m.Pix), cap(m.Pix)) }
}

func rgbaHdr(m *image.RGBA) func() string {
	return func() string { return fmt.Sprintf("%d %v %d %d", m.Stride, m.Rect, len(m.Pix), cap(m.Pix)) }
}

// impPlace builds the placement; nil with a reason when the placement cannot show the same
// non-premultiplied colours (generic premultiplied models on translucent pixels).
func impPlace(name string, w, h int, tight []byte, gseed uint64) (*impPlaced, string) {
	g := NewRNG(gseed, uint64(len(name))*131+uint64(name[len(name)-1]))
	origin := func() *image.NRGBA {
		return &image.NRGBA{Pix: append([]byte(nil), tight...), Stride: 4 * w, Rect: image.Rect(0, 0, w, h)}
	}
	sub := func(ox, oy int, src []byte) (pix []byte, stride int, inside func(int) bool, pw, ph int) {
		er, eb := 1+g.Intn(3), 1+g.Intn(3)
		pw, ph = ox+w+er, oy+h+eb
		stride = 4 * pw
		pix = g.Bytes(stride * ph)
		for y := 0; y < h; y++ {
			copy(pix[(oy+y)*stride+4*ox:], src[y*4*w:(y+1)*4*w])
		}
		inside = func(i int) bool {
			row, col := i/stride, (i%stride)/4
			return row >= oy && row < oy+h && col >= ox && col < ox+w
		}
		return
	}
	roundTrips := func(conv func(color.NRGBA) color.Color) bool {
		for i := 0; i+3 < len(tight); i += 4 {
			c := color.NRGBA{R: tight[i], G: tight[i+1], B: tight[i+2], A: tight[i+3]}
			if color.NRGBAModel.Convert(conv(c)).(color.NRGBA) != c {
				return false
			}
		}
		return true
	}
	switch name {
	case "origin":
		m := origin()
		return &impPlaced{img: m, buf: m.Pix, hdr: nrgbaHdr(m)}, ""
	case "sub11", "sub30", "sub05":
		ox, oy := int(name[3]-'0'), int(name[4]-'0')
		pix, _, inside, pw, ph := sub(ox, oy, tight)
		parent := &image.NRGBA{Pix: pix, Stride: 4 * pw, Rect: image.Rect(0, 0, pw, ph)}
		m := parent.SubImage(image.Rect(ox, oy, ox+w, oy+h)).(*image.NRGBA)
		return &impPlaced{img: m, buf: parent.Pix, hdr: nrgbaHdr(m), inside: inside}, ""
	case "pad4", "pad12":
		pad := 4
		if name == "pad12" {
			pad = 12
		}
		stride := 4*w + pad
		pix := g.Bytes(h*stride + 1 + g.Intn(9))
		for y := 0; y < h; y++ {
			copy(pix[y*stride:], tight[y*4*w:(y+1)*4*w])
		}
		m := &image.NRGBA{Pix: pix, Stride: stride, Rect: image.Rect(0, 0, w, h)}
		inside := func(i int) bool { return i/stride < h && i%stride < 4*w }
		return &impPlaced{img: m, buf: pix, hdr: nrgbaHdr(m), inside: inside}, ""
	case "shift":
		m := origin()
		m.Rect = image.Rect(-7, 13, -7+w, 13+h)
		return &impPlaced{img: m, buf: m.Pix, hdr: nrgbaHdr(m)}, ""
	case "band", "rgba-band":
		// full-width band of a taller parent: Stride == 4*w, yet Pix runs on over the rows below the
		// band to the end of the parent's buffer; no alpha position outside the band holds 255
		src := tight
		if name == "rgba-band" {
			src = impPremul(tight)
		}
		oy, eb := []int{0, 1, 3}[g.Intn(3)], 1+g.Intn(2)
		stride, ph := 4*w, oy+h+eb
		pix := impNoOpaqueAlpha(g.Bytes(stride * ph))
		copy(pix[oy*stride:], src)
		inside := func(i int) bool { return i >= oy*stride && i < (oy+h)*stride }
		if name == "rgba-band" {
			parent := &image.RGBA{Pix: pix, Stride: stride, Rect: image.Rect(0, 0, w, ph)}
			m := parent.SubImage(image.Rect(0, oy, w, oy+h)).(*image.RGBA)
			return &impPlaced{img: m, buf: pix, hdr: rgbaHdr(m), inside: inside}, ""
		}
		parent := &image.NRGBA{Pix: pix, Stride: stride, Rect: image.Rect(0, 0, w, ph)}
		m := parent.SubImage(image.Rect(0, oy, w, oy+h)).(*image.NRGBA)
		return &impPlaced{img: m, buf: pix, hdr: nrgbaHdr(m), inside: inside}, ""
	case "tail", "rgba-tail":
		// origin, tight stride, but len(Pix) = h*Stride + 1..64 garbage bytes and cap(Pix) > len(Pix)
		src := tight
		if name == "rgba-tail" {
			src = impPremul(tight)
		}
		n, extra, spare := 4*w*h, 1+g.Intn(64), 1+g.Intn(32)
		whole := make([]byte, n+extra+spare)
		copy(whole, src)
		copy(whole[n:], impNoOpaqueAlpha(g.Bytes(extra+spare)))
		pix := whole[:n+extra]
		inside := func(i int) bool { return i < n }
		if name == "rgba-tail" {
			m := &image.RGBA{Pix: pix, Stride: 4 * w, Rect: image.Rect(0, 0, w, h)}
			return &impPlaced{img: m, buf: whole, hdr: rgbaHdr(m), inside: inside}, ""
		}
		m := &image.NRGBA{Pix: pix, Stride: 4 * w, Rect: image.Rect(0, 0, w, h)}
		return &impPlaced{img: m, buf: whole, hdr: nrgbaHdr(m), inside: inside}, ""
	case "generic":
		m := origin()
		return &impPlaced{img: impGenNRGBA{m}, buf: m.Pix, hdr: nrgbaHdr(m)}, ""
	case "generic64", "genericRGBA64", "genericRGBA":
		var conv func(color.NRGBA) color.Color
		var model color.Model
		switch name {
		case "generic64":
			model = color.NRGBA64Model
			conv = func(c color.NRGBA) color.Color {
				return color.NRGBA64{R: uint16(c.R) * 257, G: uint16(c.G) * 257, B: uint16(c.B) * 257, A: uint16(c.A) * 257}
			}
		case "genericRGBA64":
			model = color.RGBA64Model
			conv = func(c color.NRGBA) color.Color { return color.RGBA64Model.Convert(c) }
		default:
			model = color.RGBAModel
			conv = func(c color.NRGBA) color.Color { return color.RGBAModel.Convert(c) }
		}
		if !roundTrips(conv) {
			return nil, "colours-do-not-round-trip"
		}
		m := origin()
		return &impPlaced{img: impGenConv{m: m, model: model, conv: conv}, buf: m.Pix, hdr: nrgbaHdr(m)}, ""
	case "rgba":
		m := &image.RGBA{Pix: impPremul(tight), Stride: 4 * w, Rect: image.Rect(0, 0, w, h)}
		return &impPlaced{img: m, buf: m.Pix, hdr: rgbaHdr(m)}, ""
	case "rgba-generic":
		m := &image.RGBA{Pix: impPremul(tight), Stride: 4 * w, Rect: image.Rect(0, 0, w, h)}
		return &impPlaced{img: impGenRGBA{m}, buf: m.Pix, hdr: rgbaHdr(m)}, ""
	case "corner", "rgba-corner":
		// view into the bottom-right corner of a parent, sliced tight: Stride = 4*(ox+w) > 4*w and Pix stops
		// exactly at the last in-bounds pixel: len(Pix) = cap(Pix) = (h-1)*Stride + 4*w < h*Stride
		src := tight
		if name == "rgba-corner" {
			src = impPremul(tight)
		}
		ox, oy := 1+g.Intn(3), g.Intn(3)
		pw, ph := ox+w, oy+h
		stride := 4 * pw
		pix := g.Bytes(stride * ph)
		for y := 0; y < h; y++ {
			copy(pix[(oy+y)*stride+4*ox:], src[y*4*w:(y+1)*4*w])
		}
		inside := func(i int) bool {
			row, col := i/stride, (i%stride)/4
			return row >= oy && row < oy+h && col >= ox
		}
		view := pix[oy*stride+4*ox:]
		view = view[:len(view):len(view)]
		rect := image.Rect(ox, oy, ox+w, oy+h)
		if name == "rgba-corner" {
			m := &image.RGBA{Pix: view, Stride: stride, Rect: rect}
			return &impPlaced{img: m, buf: pix, hdr: rgbaHdr(m), inside: inside}, ""
		}
		m := &image.NRGBA{Pix: view, Stride: stride, Rect: rect}
		return &impPlaced{img: m, buf: pix, hdr: nrgbaHdr(m), inside: inside}, ""
	case "rgba-sub":
		pix, _, inside, pw, ph := sub(2, 1, impPremul(tight))
		parent := &image.RGBA{Pix: pix, Stride: 4 * pw, Rect: image.Rect(0, 0, pw, ph)}
		m := parent.SubImage(image.Rect(2, 1, 2+w, 1+h)).(*image.RGBA)
		return &impPlaced{img: m, buf: parent.Pix, hdr: rgbaHdr(m), inside: inside}, ""
	}
	return nil, "unknown-placement"
}

// impExtra is one of the extra Part C pictures: a threshold-crossing size, an exact colour count or an exact
// number of alpha levels.
type impExtra struct {
	kind string // size | colors | alpha-levels
	tc   ThresholdCase
	cc   CountCase
}

func (e impExtra) String() string {
	if e.kind == "size" {
		return e.tc.String()
	}
	return e.kind + "=" + e.cc.String()
}

type impEnc struct {
	data     []byte
	status   string // "ok" | "err" | "panic"
	modified bool   // the caller's buffer or image header changed during Encode
}

func (a impEnc) same(b impEnc) bool { return a.status == b.status && bytes.Equal(a.data, b.data) }

func (a impEnc) String() string {
	if a.status != "ok" {
		return a.status
	}
	return fmt.Sprintf("%d bytes (%s)", len(a.data), digest(a.data))
}

func firstDiff(a, b []byte) int {
	n := mini(len(a), len(b))
	for i := 0; i < n; i++ {
		if a[i] != b[i] {
			return i
		}
	}
	return n
}

// impEncode runs the real webp.Encode and checks that the caller's memory is unchanged.
func impEncode(p *impPlaced, o impOpts) (res impEnc) {
	before := p.checksum()
	defer func() {
		if e := recover(); e != nil {
			res.status = "panic"
		}
		res.modified = p.checksum() != before
	}()
	var buf bytes.Buffer
	if err := webp.Encode(&buf, p.img, o.build()); err != nil {
		res.status = "err"
		return
	}
	res.status, res.data = "ok", buf.Bytes()
	return
}

// impHist is a mismatch that was observed but did not show again in every serial re-run.
type impHist struct {
	c     impCase
	seen  string // what was observed
	again bool   // it did show in some re-run
	pic   string
}

// impCase is a replayable (and shrinkable) violation candidate.
type impCase struct {
	Check     string // identity | outside-bytes | caller-modified
	W, H      int
	Pix       []byte // tight NRGBA picture
	Placement string
	Opts      string
	GSeed     uint64
	Prior     string // identity only: what the process encodes immediately before the placement ("" = nothing)
}

func (c *impCase) signature() string {
	o, _ := parseImpOpts(c.Opts)
	switch c.Check {
	case "outside-bytes":
		return "import:" + c.Placement + ":outside-bytes"
	case "caller-modified":
		return "import:" + c.Placement + ":caller-modified"
	}
	if c.Prior != "" {
		return "import:" + c.Placement + ":" + o.path() + ":after-" + c.Prior
	}
	return "import:" + c.Placement + ":" + o.path()
}

// histSignature names a mismatch that does not show on every attempt: placement and codec only
// (which option set / prior happened to expose it is in the detail).
func (c *impCase) histSignature() string {
	o, _ := parseImpOpts(c.Opts)
	what := "lossy"
	switch {
	case c.Check != "identity":
		what = c.Check
	case o.lossless:
		what = "lossless"
	}
	return "import:" + c.Placement + ":" + what + ":history-dependent"
}

func (c *impCase) input() map[string]any {
	return map[string]any{"op": "impcase", "check": c.Check, "w": c.W, "h": c.H, "pix": hx(c.Pix),
		"placement": c.Placement, "opts": c.Opts, "gseed": strconv.FormatUint(c.GSeed, 10), "prior": c.Prior}
}

// ---- the history leg: an earlier encode of another picture with equal macroblock dimensions ----
//
// lossy.NewEncoder recycles a pooled VP8Encoder when ceil(w/16) x ceil(h/16) match, so the picture
// encoded immediately before decides what the import's scratch buffers hold. C19 quantifies over
// the image value only: the encoding of a placement must equal the reference encoding whatever was
// encoded before. Each prior is built to leave a different part of the encoder dirty.
var impPriorsLossy = []string{"dither-alpha", "generic-exact-alpha", "nrgba-alpha", "generic-opaque"}

const impPriorLossless = "lossless-alpha"

// impPriorEncode encodes the prior picture of kind for a w x h picture (a function of gseed, w, h).
func impPriorEncode(kind string, w, h int, gseed uint64, o impOpts) string {
	pw := mini(16*((w+15)>>4-1)+1+int(gseed>>3&15), 16383)
	ph := mini(16*((h+15)>>4-1)+1+int(gseed>>7&15), 16383)
	m := &image.NRGBA{Pix: impPriorPixels(gseed^uint64(w*131+h), pw, ph, kind != "generic-opaque"), Stride: 4 * pw, Rect: image.Rect(0, 0, pw, ph)}
	var img image.Image = m
	e := webp.DefaultOptions()
	e.Method = o.method
	switch kind {
	case "dither-alpha": // serial import of a *image.NRGBA, alpha rows copied
		e.Preprocessing = 2
	case "generic-exact-alpha": // serial import through At(), alpha rows copied (Exact: no NRGBA clean-up copy)
		img, e.Exact = impGenNRGBA{m}, true
	case "nrgba-alpha": // row-parallel import, alpha rows copied into the pooled UV workers
	case "generic-opaque": // serial import, opaque
		img = impGenNRGBA{m}
	case impPriorLossless:
		e.Lossless, e.Quality = true, float32(o.quality)
	default:
		return "unknown-prior"
	}
	st, _ := guard(func() string {
		var buf bytes.Buffer
		if err := webp.Encode(&buf, img, e); err != nil {
			return "err"
		}
		return "ok"
	})
	return st
}

// run re-executes the case from scratch; violated == true when the property fails.
func (c *impCase) run() (violated bool, detail string) {
	o, ok := parseImpOpts(c.Opts)
	if !ok || c.W < 1 || c.H < 1 || len(c.Pix) != 4*c.W*c.H {
		return false, "bad case"
	}
	p, why := impPlace(c.Placement, c.W, c.H, c.Pix, c.GSeed)
	if p == nil {
		return false, "placement not applicable: " + why
	}
	switch c.Check {
	case "identity":
		ref, _ := impPlace(impRefOf(c.Placement), c.W, c.H, c.Pix, c.GSeed)
		a := impEncode(ref, o)
		if c.Prior != "" {
			// the pool hands the prior's encoder to the next NewEncoder of the same goroutine almost always;
			// three rounds make up for a garbage collection or a migration in between (a correct import never differs)
			for round := 0; round < 3; round++ {
				if st := impPriorEncode(c.Prior, c.W, c.H, c.GSeed, o); st != "ok" {
					return false, "prior encode: " + st
				}
				b := impEncode(p, o)
				if !a.same(b) {
					return true, fmt.Sprintf("%s (first encode of the run): %s vs %s encoded right after a %s picture with the same macroblock dimensions: %s, first difference at byte %d",
						impRefOf(c.Placement), a, c.Placement, c.Prior, b, firstDiff(a.data, b.data))
				}
			}
			return false, "identical: " + a.String()
		}
		b := impEncode(p, o)
		if a.same(b) {
			return false, "identical: " + a.String()
		}
		return true, fmt.Sprintf("%s: %s vs %s: %s, first difference at byte %d", impRefOf(c.Placement), a, c.Placement, b, firstDiff(a.data, b.data))
	case "outside-bytes":
		a := impEncode(p, o)
		n := p.mutateOutside(NewRNG(c.GSeed, 77))
		b := impEncode(p, o)
		if a.same(b) {
			return false, "identical: " + a.String()
		}
		return true, fmt.Sprintf("%s before: %s, after changing %d bytes outside the bounds: %s, first difference at byte %d", c.Placement, a, n, b, firstDiff(a.data, b.data))
	case "caller-modified":
		before := p.checksum()
		cp := append([]byte(nil), p.buf...)
		impEncode(p, o)
		after := p.checksum()
		if before == after {
			return false, "unchanged"
		}
		return true, fmt.Sprintf("caller buffer/header changed by Encode: %s -> %s, first changed byte %d", before, after, firstDiff(cp, p.buf))
	}
	return false, "bad check"
}

// reproduces: the violation shows in every one of n fresh serial runs.
func (c *impCase) reproduces(n int) (all bool, any bool, detail string) {
	all = true
	for i := 0; i < n; i++ {
		v, d := c.run()
		if v {
			any = true
			detail = d
		} else {
			all = false
		}
	}
	return
}

func (c *impCase) crop(x0, y0, w, h int) impCase {
	d := *c
	d.W, d.H = w, h
	d.Pix = make([]byte, 0, 4*w*h)
	for y := 0; y < h; y++ {
		d.Pix = append(d.Pix, c.Pix[((y0+y)*c.W+x0)*4:((y0+y)*c.W+x0+w)*4]...)
	}
	return d
}

// shrink crops from right/bottom/left/top (halves first, then single rows/columns) while
// the violation persists.
func (c *impCase) shrink() impCase {
	cur := *c
	budget := 400
	for progress := true; progress && budget > 0; {
		progress = false
		w, h := cur.W, cur.H
		cands := [][4]int{
			{0, 0, (w + 1) / 2, h}, {0, 0, w, (h + 1) / 2}, {w / 2, 0, w - w/2, h}, {0, h / 2, w, h - h/2},
			{0, 0, w - 1, h}, {0, 0, w, h - 1}, {1, 0, w - 1, h}, {0, 1, w, h - 1},
		}
		for _, k := range cands {
			if k[2] < 1 || k[3] < 1 || (k[2] == w && k[3] == h) {
				continue
			}
			d := cur.crop(k[0], k[1], k[2], k[3])
			budget--
			if all, _, _ := d.reproduces(2); all {
				cur = d
				progress = true
				break
			}
		}
	}
	return cur
}

func impNum(v any) int {
	switch t := v.(type) {
	case float64:
		return int(t)
	case int:
		return t
	}
	return 0
}

func replayImpCase(in map[string]any) int {
	c := impCase{W: impNum(in["w"]), H: impNum(in["h"])}
	c.Check, _ = in["check"].(string)
	c.Placement, _ = in["placement"].(string)
	c.Opts, _ = in["opts"].(string)
	ps, _ := in["pix"].(string)
	c.Pix = unhx(ps)
	gs, _ := in["gseed"].(string)
	c.GSeed, _ = strconv.ParseUint(gs, 10, 64)
	c.Prior, _ = in["prior"].(string)
	all, anyV, d := c.reproduces(3)
	if !anyV {
		_, d = c.run()
	}
	fmt.Printf("%s %dx%d %s %s prior=%q: %s\n", c.Check, c.W, c.H, c.Placement, c.Opts, c.Prior, d)
	if note, _ := in["note"].(string); note != "" {
		fmt.Println("recorded with the finding:", note)
	}
	if all {
		return 1
	}
	if anyV {
		fmt.Println("violation shows only in some of 3 runs: the encoding depends on what the process encoded before (still a C19 violation: same picture, two storage forms, different files)")
		return 1
	}
	return 0
}

func impPixDesc(c *impCase) string {
	if c.W*c.H > 4 {
		return ""
	}
	var sb strings.Builder
	sb.WriteString("; NRGBA pixels")
	for i := 0; i+3 < len(c.Pix); i += 4 {
		fmt.Fprintf(&sb, " (%d,%d,%d,%d)", c.Pix[i], c.Pix[i+1], c.Pix[i+2], c.Pix[i+3])
	}
	if strings.HasPrefix(c.Placement, "rgba") {
		pm := impPremul(c.Pix)
		sb.WriteString(" = premultiplied RGBA")
		for i := 0; i+3 < len(pm); i += 4 {
			back := color.NRGBAModel.Convert(color.RGBA{R: pm[i], G: pm[i+1], B: pm[i+2], A: pm[i+3]}).(color.NRGBA)
			fmt.Fprintf(&sb, " (%d,%d,%d,%d) [color.NRGBAModel: (%d,%d,%d,%d)]", pm[i], pm[i+1], pm[i+2], pm[i+3], back.R, back.G, back.B, back.A)
		}
	}
	return sb.String()
}

// ---------- the suite ----------

func suiteImport(rep *Report) error {
	rich := rep.Tier == "thorough"
	// option sets per picture: quick = all 8 lossless + 12 of the 32 lossy ones (rotating, so that
	// every combination is covered every 8 pictures); thorough = the full product
	nCorrPics, nPics, nLossless, nLossy := 400, 300, 8, 12
	if rich {
		nCorrPics, nPics, nLossless, nLossy = 3000, 5000, 8, 32
	}
	rep.Rule = "pictures from GenImage (8 colour classes x 7 alpha classes, plus sprinkled low/boundary alpha values; a third forced opaque, because has-alpha scans are only observable on opaque pictures), sizes 1..48 with emphasis on 1xN, Nx1 and the 8/16/17/32/33 boundaries; Part B: each picture is embedded at the origin, as a SubImage of a garbage-filled parent (also with a non-zero parent origin), as a full-width band of a taller parent (Stride == 4w with trailing rows whose alpha bytes are never 255), with 1..64 trailing garbage bytes after a tight picture, as a view into the bottom-right corner of a parent whose Pix stops exactly at the last in-bounds pixel (Stride > 4w, len(Pix) = (h-1)*Stride+4w < h*Stride), with padded (also non-multiple-of-4) stride, with a shifted Rect, as *image.NRGBA / *image.RGBA (properly premultiplied, and deliberately invalid c>a) and behind image.Image-only wrappers, plus malformed Pix/Stride/Rect values for the guarded webp-level functions, and every import loop of encode.go and lossy/encode.go is compared with the Lean model; the plane imports (imp_y, imp_uvrows) run for 6 lines out of 7 on a VP8Encoder object that has just imported another picture of the same macroblock dimensions (alpha through At(), alpha with dithering, alpha on the row-parallel path, opaque through At(); hook ImportPlanesAfter, pool reuse verified by pointer), the model answer being a function of the image alone; Part C: webp.Encode of 18 placements of the same pixels (3 sub-images, 2 paddings, shifted Rect, full-width band, trailing bytes with cap>len, corner view sliced tight at the last in-bounds pixel, 4 generic wrappers, RGBA vs generic RGBA / RGBA sub-image / band / tail / corner view) under lossless/lossy x Exact x SharpYUV x dithering x Method{0,4} x 2 qualities must be byte-identical to the origin encoding, stay identical after every/some outside byte is changed, leave the caller's whole buffer and header unchanged, and (5 option sets per picture) still equal the reference when the placement is encoded right after another picture with equal macroblock dimensions (dithered alpha, generic Exact alpha, NRGBA alpha, generic opaque, lossless alpha); about 10 extra pictures per run have threshold-crossing sizes (thresholds.go: widths/heights 256..16383, pixel counts 1000..100000, 510 macroblocks, 3/4/6 macroblock rows) with cheap content, 4 pictures have an exact number of colours around 2/4/16/192/256 (lossless option sets, Exact off and on) and 4 have exactly 16, 17, 192, 193 alpha levels (lossy option sets, Exact off and on), all 18 placements each; a mismatch that does not show again when re-run is reported as ':history-dependent', never dropped (counter nonreproducible); non-trivial = the picture has at least two different pixel values (a wrong offset, stride or conversion would change the imported data) and the comparison was actually carried out; distinct = FNV of picture + placement + option set [+ prior] (Part C) or of the driver line (Part B)"

	impPriorReused.Store(0)
	impPriorNotReused.Store(0)

	// ----- Part B: correspondence with the Lean model -----
	t0 := time.Now()
	lines := impGenLines(rep.Seed, nCorrPics, rep)
	ls := make([]string, len(lines))
	for i, l := range lines {
		ls[i] = l.line
	}
	lean, err := RunDriver(ls)
	if err != nil {
		return err
	}
	rep.Extra["corr_driver_wall_s"] = time.Since(t0).Seconds()
	type lineRes struct {
		match, callerMod bool
		goDesc           string
	}
	lres := make([]lineRes, len(lines))
	{
		var wg sync.WaitGroup
		nw := runtime.NumCPU()
		for wk := 0; wk < nw; wk++ {
			wg.Add(1)
			go func(wk int) {
				defer wg.Done()
				for i := wk; i < len(lines); i += nw {
					m, g, cm := impCheckLine(ls[i], lean[i])
					lres[i] = lineRes{m, cm, g}
				}
			}(wk)
		}
		wg.Wait()
	}
	for i, l := range lines {
		f := strings.Fields(l.line)
		op, src := f[0], f[len(f)-7]
		rep.Eval(true, []byte(l.line))
		switch {
		case lean[i] == "panic":
			rep.Count("corr-result:panic")
		case strings.HasPrefix(lean[i], "ok"):
			rep.Count("corr-result:ok")
		default:
			rep.Count("corr-result:" + short(lean[i], 12))
		}
		if lres[i].callerMod {
			rep.Add(Finding{Kind: "property", Property: "C19", Signature: "import:" + op + ":caller-modified",
				Detail: "the function behind " + op + " wrote into the caller's Pix", Input: map[string]any{"op": "impline", "line": l.line}})
		}
		prior := ""
		if op == "imp_y" || op == "imp_uvrows" {
			if prior = impPriorKind(l.line); prior != "" && !strings.HasPrefix(lres[i].goDesc, "skipped") {
				rep.Count("corr-prior:" + op + ":" + prior)
			}
		}
		if lres[i].match {
			continue
		}
		// A tie failure must be stable: the function behind the op is a function of its argument. When
		// the re-evaluation agrees with the model, the real code returned two different answers for the
		// same image value in one process, i.e. the import depends on what the process did before. That
		// is reported (C19: the result depends on the picture only), never dropped.
		if m2, g2, _ := impCheckLine(l.line, lean[i]); m2 {
			rep.Count("nonreproducible")
			rep.Count("nonreproducible:corr:" + op + ":" + src)
			if len(rep.Notes) < 12 {
				rep.Notes = append(rep.Notes, "correspondence mismatch did not reproduce on re-evaluation (reported as history-dependent): "+short(l.line, 120))
			}
			rep.Add(Finding{Kind: "property", Property: "C19", Signature: "import:" + op + ":" + src + ":history-dependent",
				Detail: fmt.Sprintf("line %q: first evaluation go %s, lean %s; second evaluation of the same line in the same process agrees with the model (go %s): the function behind %s returned two different results for one image value, so its result depends on earlier calls (pooled encoder state), not on the picture alone; a replay in a fresh process need not reproduce",
					short(l.line, 160), short(lres[i].goDesc, 240), short(lean[i], 120), short(g2, 240), op),
				Input: map[string]any{"op": "impline", "line": l.line, "note": "history dependent: seen in the suite process, second evaluation matched"}})
			continue
		}
		sig := "import:" + op + ":" + src
		if prior != "" {
			sig += ":dirty-encoder" // evaluated on an encoder that had just imported another picture (kind in the detail)
		}
		rep.Add(Finding{Kind: "correspondence", Property: "C19", Signature: sig,
			Detail: fmt.Sprintf("line %q: go %s, lean %s", short(l.line, 160), short(lres[i].goDesc, 360), short(lean[i], 120)),
			Input:  map[string]any{"op": "impline", "line": l.line}})
	}
	rep.CountN("corr-prior:encoder-reused", int(impPriorReused.Load()))
	rep.CountN("corr-prior:encoder-not-reused", int(impPriorNotReused.Load()))
	rep.Extra["corr_lines"] = len(lines)
	rep.Extra["corr_wall_s"] = time.Since(t0).Seconds()
	t1 := time.Now()
	rep.Sample(map[string]any{"line": short(ls[0], 200), "lean": short(lean[0], 80), "go": short(lres[0].goDesc, 80)})

	// ----- Part C: the property end to end -----
	allLL, allLY := impAllOpts()
	sizes := []int{1, 2, 3, 5, 7, 8, 9, 15, 16, 17, 23, 31, 32, 33, 47, 48}
	// pictures whose size sits just below / on / just above a numeric threshold of the code (row
	// buffers, pixel counts, macroblock counts, the serial/pipelined encoder switch); cheap content
	nThr, nThrRows := 8, 2
	if rich {
		nThr, nThrRows = 30, 6
	}
	thr := DrawThresholdCases(rep.Seed, 0x1909, nThr, ThresholdFilter{Units: []string{"width", "height", "pixels", "mbs", "mbrows"}, MinValue: 200, MaxPixels: 120000})
	thr = append(thr, DrawThresholdCases(rep.Seed, 0x190a, nThrRows, ThresholdFilter{Units: []string{"mbrows"}, MaxPixels: 120000})...)
	for _, tc := range thr {
		CountThreshold(rep, tc)
	}
	rep.Extra["threshold_cases"] = fmt.Sprint(thr)
	// pictures with an exact number of colours (lossless path: palette packing 2 / 4 / 16, palette vs none at
	// 256) and with an exact number of alpha levels (lossy path: the alpha filter choice at 16 and 192 levels)
	nCol := 4
	if rich {
		nCol = 15
	}
	var extras []impExtra
	for _, tc := range thr {
		extras = append(extras, impExtra{kind: "size", tc: tc})
	}
	for _, cc := range DrawCountCases(rep.Seed, 0x190b, nCol, "colors", 2, 300) {
		CountCount(rep, cc)
		extras = append(extras, impExtra{kind: "colors", cc: cc})
	}
	for _, t := range Thresholds {
		if t.Unit == "colors" && (t.Value == 16 || t.Value == 192) {
			for rel := 0; rel <= 1; rel++ {
				cc := CountCase{N: t.Value + rel, T: t, Rel: rel}
				CountCount(rep, cc)
				extras = append(extras, impExtra{kind: "alpha-levels", cc: cc})
			}
		}
	}
	rep.Extra["count_cases"] = fmt.Sprint(extras[len(thr):])
	nAll := nPics + len(extras)
	histSel := func(k int) bool { return k == 0 || k == 4 || k == 5 || k == 10 }
	if rich {
		histSel = func(k int) bool { return k%5 == 0 }
	}

	type picOut struct {
		cands []impCase // violation candidates that reproduced serially
		hist  []impHist // mismatches that were seen once and did not show again in serial re-runs
	}
	outs := make([]picOut, nAll)
	var notesMu sync.Mutex
	doPic := func(i int) {
		r := NewRNG(rep.Seed, 1_000_000+uint64(i))
		var w, h, acls, tweak int
		var pic *image.NRGBA
		var desc, clsName string
		isThr := i >= nPics
		if isThr && extras[i-nPics].kind != "size" {
			// exact colour / alpha-level counts on a small picture (at least 301 pixels)
			ex := extras[i-nPics]
			w = 17 + r.Intn(16)
			h = (300+w)/w + r.Intn(3)
			if ex.kind == "colors" {
				pic = GenColorCountImage(r, w, h, ex.cc.N)
			} else {
				pic = GenAlphaLevelsImage(r, w, h, ex.cc.N)
			}
			acls = AlphaNone
			desc, clsName = fmt.Sprintf("%dx%d/%s=%s", w, h, ex.kind, ex.cc.String()), "count-"+ex.kind
		} else if isThr {
			tc := extras[i-nPics].tc
			w, h = tc.W, tc.H
			kind := 1 + r.Intn(NumCheapClasses-1)
			acls = AlphaNone
			if r.Chance(1, 2) {
				acls = []int{AlphaGradient, AlphaBinary, AlphaSparse, AlphaSemiFlat}[r.Intn(4)]
			}
			pic = GenCheapImage(r, w, h, kind, acls)
			desc, clsName = cheapDesc(w, h, kind, acls)+" "+tc.String(), "cheap-"+cheapNames[kind]
		} else {
			switch r.Intn(8) {
			case 0:
				w, h = 1, 1+r.Intn(48)
			case 1:
				w, h = 1+r.Intn(48), 1
			case 2, 3:
				w, h = 1+r.Intn(48), 1+r.Intn(48)
			case 4:
				w, h = 1+r.Intn(4), 1+r.Intn(4)
			default:
				w, h = sizes[r.Intn(len(sizes))], sizes[r.Intn(len(sizes))]
			}
			var cls int
			cls, acls = r.Intn(NumImgClasses), r.Intn(NumAlphaClasses)
			if r.Chance(1, 3) {
				acls = AlphaNone
			}
			pic = GenImage(r, w, h, cls, acls)
			if acls != AlphaNone && r.Chance(1, 2) {
				tweak = 1 + r.Intn(2)
			}
			impTweak(r, pic, tweak)
			desc, clsName = imgDesc(w, h, cls, acls), imgClassNames[cls]
		}
		tight := pic.Pix
		flat := impFlat(tight)
		akind := impAlphaKind(tight)
		rep.Count("pic:" + clsName + "/" + akind)
		rep.Count(fmt.Sprintf("size:w%%16=%d,h%%16=%d", mini(w%16, 2), mini(h%16, 2)))
		switch {
		case isThr:
			rep.Count("shape:threshold")
		case w == 1 || h == 1:
			rep.Count("shape:line")
		case w*h <= 64:
			rep.Count("shape:small")
		default:
			rep.Count("shape:large")
		}
		if i < 3 || i == nPics {
			rep.Sample(map[string]any{"picture": desc, "tweak": tweak})
		}
		pdig := fnv1a(tight)
		gseed := r.Next() >> 12

		// classify a mismatch that was just observed: it either shows in both of two serial re-runs
		// (shrinkable candidate) or it does not (history dependence; reported all the same)
		classify := func(c impCase, seen string) {
			all, anyV, _ := c.reproduces(2)
			if all {
				outs[i].cands = append(outs[i].cands, c)
				return
			}
			rep.Count("nonreproducible")
			rep.Count("nonreproducible:" + c.histSignature())
			outs[i].hist = append(outs[i].hist, impHist{c: c, seen: seen, again: anyV, pic: desc})
			notesMu.Lock()
			if len(rep.Notes) < 12 {
				rep.Notes = append(rep.Notes, fmt.Sprintf("mismatch %s %s %s on %s did not reproduce serially (again in some run: %v): reported as history-dependent", c.Check, c.Placement, c.Opts, desc, anyV))
			}
			notesMu.Unlock()
		}

		type optSet struct {
			o     impOpts
			prior string
		}
		var sets []optSet
		if isThr && extras[i-nPics].kind == "colors" {
			j := i - nPics // lossless only, Exact off and on, one of them right after another lossless picture
			sets = []optSet{{allLL[j%4], ""}, {allLL[4+(j+1)%4], impPriorLossless}, {allLL[(3*j+2)%len(allLL)], ""}}
		} else if isThr && extras[i-nPics].kind == "alpha-levels" {
			j := i - nPics // lossy only, Exact off and on
			sets = []optSet{{allLY[(5*j)%16], impPriorsLossy[j%len(impPriorsLossy)]}, {allLY[16+(5*j+3)%16], ""}, {allLY[(7*j+9)%len(allLY)], ""}}
		} else if isThr {
			j := i - nPics
			sets = []optSet{{allLL[(2*j)%len(allLL)], ""}, {allLY[(5*j)%len(allLY)], impPriorsLossy[j%len(impPriorsLossy)]}, {allLY[(5*j+17)%len(allLY)], ""}}
		} else {
			for k := 0; k < nLossless; k++ {
				prior := ""
				if k == 0 {
					prior = impPriorLossless
				}
				sets = append(sets, optSet{allLL[(i*nLossless+k)%len(allLL)], prior})
			}
			nh := 0
			for k := 0; k < nLossy; k++ {
				prior := ""
				if histSel(k) {
					prior = impPriorsLossy[(i+nh)%len(impPriorsLossy)]
					nh++
				}
				sets = append(sets, optSet{allLY[(i*nLossy+k)%len(allLY)], prior})
			}
		}
		for _, set := range sets {
			o := set.o
			rep.Count("opts:" + o.String())
			rep.Count("path:" + o.path())
			refs := map[string]impEnc{}
			for _, refName := range []string{"origin", "rgba"} {
				p, _ := impPlace(refName, w, h, tight, gseed)
				e := impEncode(p, o)
				refs[refName] = e
				if e.status != "ok" {
					rep.Count("encode-" + e.status + ":" + refName)
				}
				if e.modified {
					outs[i].cands = append(outs[i].cands, impCase{"caller-modified", w, h, tight, refName, o.String(), gseed, ""})
				}
			}
			for _, pl := range impPlacements {
				key := []byte(fmt.Sprintf("%d|%dx%d|%s|%s", pdig, w, h, pl, o.String()))
				p, why := impPlace(pl, w, h, tight, gseed)
				if p == nil {
					rep.Count("skipped:" + pl + ":" + why)
					rep.Eval(false, key)
					continue
				}
				rep.Count("placement:" + pl)
				e := impEncode(p, o)
				rep.Eval(!flat, key)
				c := impCase{"identity", w, h, tight, pl, o.String(), gseed, ""}
				ref := refs[impRefOf(pl)]
				if e.modified {
					cm := c
					cm.Check = "caller-modified"
					outs[i].cands = append(outs[i].cands, cm)
				}
				identical := e.same(ref)
				if identical {
					rep.Count("cmp:identical")
				} else {
					rep.Count("cmp:different:" + pl + ":" + akind)
					classify(c, fmt.Sprintf("%s: %s vs %s: %s, first difference at byte %d", impRefOf(pl), ref, pl, e, firstDiff(ref.data, e.data)))
				}
				if p.inside != nil {
					n := p.mutateOutside(NewRNG(gseed, 77))
					e2 := impEncode(p, o)
					rep.Count("outside:checked")
					rep.CountN("outside:bytes-changed", n)
					if !e2.same(e) {
						co := c
						co.Check = "outside-bytes"
						classify(co, fmt.Sprintf("%s before: %s, after changing %d bytes outside the bounds: %s, first difference at byte %d", pl, e, n, e2, firstDiff(e.data, e2.data)))
					}
					if e2.modified {
						cm := c
						cm.Check = "caller-modified"
						outs[i].cands = append(outs[i].cands, cm)
					}
				}
				if set.prior != "" {
					// the same placement once more, right after this goroutine encoded another picture with
					// equal macroblock dimensions: the result must still be the reference encoding
					p2, _ := impPlace(pl, w, h, tight, gseed)
					st := impPriorEncode(set.prior, w, h, gseed, o)
					e3 := impEncode(p2, o)
					rep.Count("prior:" + set.prior + ":" + st)
					rep.Eval(!flat, append(key, ("|after-"+set.prior)...))
					cp := c
					cp.Prior = set.prior
					if e3.modified {
						cm := c
						cm.Check = "caller-modified"
						outs[i].cands = append(outs[i].cands, cm)
					}
					switch {
					case e3.same(ref):
						rep.Count("cmp-after-prior:identical")
					case !identical:
						rep.Count("cmp-after-prior:different-without-prior-too") // already a candidate above
					default:
						rep.Count("cmp-after-prior:different:" + pl + ":" + akind)
						classify(cp, fmt.Sprintf("%s: %s vs %s encoded right after a %s picture: %s, first difference at byte %d", impRefOf(pl), ref, pl, set.prior, e3, firstDiff(ref.data, e3.data)))
					}
				}
			}
		}
	}
	{
		// work queue: the (large) threshold pictures first
		order := make([]int, 0, nAll)
		for i := nPics; i < nAll; i++ {
			order = append(order, i)
		}
		for i := 0; i < nPics; i++ {
			order = append(order, i)
		}
		var next, thrNanos, picNanos atomic.Int64
		defer func() {
			rep.Extra["encode_threshold_pictures_busy_s"] = float64(thrNanos.Load()) / 1e9
			rep.Extra["encode_small_pictures_busy_s"] = float64(picNanos.Load()) / 1e9
		}()
		var wg sync.WaitGroup
		for wk := 0; wk < runtime.NumCPU(); wk++ {
			wg.Add(1)
			go func() {
				defer wg.Done()
				for {
					k := int(next.Add(1)) - 1
					if k >= len(order) {
						return
					}
					tp := time.Now()
					doPic(order[k])
					if order[k] >= nPics {
						thrNanos.Add(int64(time.Since(tp)))
					} else {
						picNanos.Add(int64(time.Since(tp)))
					}
				}
			}()
		}
		wg.Wait()
	}
	rep.Extra["encode_wall_s"] = time.Since(t1).Seconds()

	// violations: per signature shrink the first few (in picture order), report the smallest
	bySig := map[string][]impCase{}
	total := map[string]int{}
	var sigs []string
	for i := range outs {
		for _, c := range outs[i].cands {
			s := c.signature()
			if total[s] == 0 {
				sigs = append(sigs, s)
			}
			total[s]++
			if len(bySig[s]) < 8 {
				bySig[s] = append(bySig[s], c)
			}
		}
	}
	sort.Strings(sigs)
	var late []impHist // candidates that stopped reproducing after the collection phase
	for _, s := range sigs {
		rep.CountN("violations:"+s, total[s])
		cs := bySig[s]
		type pair struct{ orig, shr impCase }
		prs := make([]pair, len(cs))
		var swg sync.WaitGroup
		for k := range cs {
			swg.Add(1)
			go func(k int) {
				defer swg.Done()
				prs[k] = pair{cs[k], cs[k].shrink()}
			}(k)
		}
		swg.Wait()
		sort.SliceStable(prs, func(a, b int) bool { return prs[a].shr.W*prs[a].shr.H < prs[b].shr.W*prs[b].shr.H })
		seen := map[string]bool{}
		for k := range prs {
			c := prs[k].shr
			id := fmt.Sprintf("%dx%d|%x|%s", c.W, c.H, fnv1a(c.Pix), c.Opts)
			if seen[id] {
				continue
			}
			seen[id] = true
			all, _, d := c.reproduces(2)
			note := ""
			if !all {
				// Shrinking crops the picture (other macroblock dimensions) and runs 8 shrinkers at once, so a
				// violation that needs a particular recycled encoder can get lost on the way. The candidate DID
				// reproduce twice before shrinking: report it unshrunk rather than not at all.
				c = prs[k].orig
				var anyV bool
				all, anyV, d = c.reproduces(2)
				if !all {
					rep.Count("nonreproducible")
					rep.Count("nonreproducible:" + c.histSignature())
					late = append(late, impHist{c: c, seen: "reproduced in two serial re-runs when first seen, no longer after shrinking: " + d, again: anyV, pic: fmt.Sprintf("%dx%d picture", c.W, c.H)})
					continue
				}
				rep.Count("reported-unshrunk")
				note = "; not shrinkable (the shrunk case stopped reproducing: the difference depends on which pooled encoder object is reused)"
			}
			rep.Add(Finding{Kind: "property", Property: "C19", Signature: s,
				Detail: fmt.Sprintf("%dx%d picture, options %s: %s%s (%d occurrences in this run)%s", c.W, c.H, c.Opts, d, impPixDesc(&c), total[s], note),
				Input:  c.input()})
		}
	}

	// mismatches that did not reproduce: the same picture in two storage forms gave two different
	// files in this process, although not on every attempt. C19 says the file depends on the picture
	// only, whatever the process did before, so each is a finding (distinct signature, unshrunk).
	var hists []impHist
	for i := range outs {
		hists = append(hists, outs[i].hist...)
	}
	hists = append(hists, late...)
	htotal := map[string]int{}
	for _, hc := range hists {
		htotal[hc.c.histSignature()]++
	}
	sort.SliceStable(hists, func(a, b int) bool { return hists[a].c.W*hists[a].c.H < hists[b].c.W*hists[b].c.H })
	for _, hc := range hists {
		s := hc.c.histSignature()
		in := hc.c.input()
		in["note"] = "history dependent: " + hc.seen
		rep.Add(Finding{Kind: "property", Property: "C19", Signature: s,
			Detail: fmt.Sprintf("%s, check %s, options %s, prior %q: seen in the suite process: %s; did not show in every one of 2 serial re-runs (in some: %v), so the encoding of this picture depends on what was encoded before (recycled encoder state) and on the storage form; a replay in a fresh process need not reproduce (%d occurrences in this run)",
				hc.pic, hc.c.Check, hc.c.Opts, hc.c.Prior, hc.seen, hc.again, htotal[s]),
			Input: in})
	}

	nonrepro := rep.Distribution["nonreproducible"]
	rep.CountN("nonreproducible", 0) // visible also when zero
	rep.Extra["nonreproducible"] = nonrepro
	if nonrepro > 0 {
		rep.Notes = append(rep.Notes, fmt.Sprintf("nonreproducible = %d: mismatches that were observed once and did not show again when re-run; every one is reported as a C19 finding with a ':history-dependent' signature", nonrepro))
	}
	return nil
}
