package main

// Suite "import" — property C19 (the encoder reads exactly the caller's pixels: placement,
// stride, origin and the image type do not matter; bytes outside the bounds are never read
// into the output; the caller's image is never written).
//
// Tie between the Lean model Webp.Impl.Import and /repo, by observable:
//   encodeLossless / encodeLosslessToWriter import loops   exact, through the lossless round trip
//                                                          (hook webp.VerifImportARGB)              op imp_argb
//   webp.imageHasAlpha / lossy.imageHasAlpha               exact (hooks)                            op imp_hasalpha
//   extractAlphaWith(img,true)                             exact (hook)                             op imp_alpha
//   cleanupTransparentAreaLossyWith copy loops             exact on pictures without alpha-0 pixels op imp_cleanup
//   sharpYUVConvert RGB buffer                             two-stage: model buffer -> real sharpyuv.Convert
//                                                          == real sharpYUVConvert planes           op imp_sharprgb
//   lossy.importImage Y plane                              exact (hook verifapi.ImportPlanes)       op imp_y
//   lossy.importImage chroma rows                          two-stage: model planar rows -> real
//                                                          AccumulateRGBA/ConvertRGBA32ToUV[Dithered]
//                                                          == real U/V planes                       op imp_uvrows
// and the property itself, end to end on the real webp.Encode: every placement of the same
// pixels gives a byte-identical file; outside bytes are irrelevant; caller buffers unchanged.

import (
	"bytes"
	"fmt"
	"image"
	"image/color"
	"runtime"
	"sort"
	"strconv"
	"strings"
	"sync"
	"time"

	webp "github.com/deepteams/webp"
	"github.com/deepteams/webp/verifapi"
)

func init() {
	suites["import"] = suiteImport
	replayers["impcase"] = replayImpCase
	replayers["impline"] = replayImpLine
}

// ---------- generic wrappers (implement only image.Image) ----------

type impGenNRGBA struct{ m *image.NRGBA }

func (g impGenNRGBA) ColorModel() color.Model { return color.NRGBAModel }
func (g impGenNRGBA) Bounds() image.Rectangle { return g.m.Rect }
func (g impGenNRGBA) At(x, y int) color.Color { return g.m.NRGBAAt(x, y) }

type impGenRGBA struct{ m *image.RGBA }

func (g impGenRGBA) ColorModel() color.Model { return color.RGBAModel }
func (g impGenRGBA) Bounds() image.Rectangle { return g.m.Rect }
func (g impGenRGBA) At(x, y int) color.Color { return g.m.RGBAAt(x, y) }

// impGenConv shows the NRGBA pixels through an arbitrary colour conversion.
type impGenConv struct {
	m     *image.NRGBA
	model color.Model
	conv  func(color.NRGBA) color.Color
}

func (g impGenConv) ColorModel() color.Model { return g.model }
func (g impGenConv) Bounds() image.Rectangle { return g.m.Rect }
func (g impGenConv) At(x, y int) color.Color { return g.conv(g.m.NRGBAAt(x, y)) }

// ---------- wire form of an image (Part B) ----------

type impWire struct {
	src    string // n | r | gn | gr
	pix    []byte
	stride int
	rect   image.Rectangle
}

func (m impWire) String() string {
	return fmt.Sprintf("%s %s %d %d %d %d %d", m.src, hx(m.pix), m.stride, m.rect.Min.X, m.rect.Min.Y, m.rect.Max.X, m.rect.Max.Y)
}

// wellFormed is validNRGBA/validRGBA for a non-empty rectangle.
func (m impWire) wellFormed() bool {
	w, h := m.rect.Dx(), m.rect.Dy()
	return w > 0 && h > 0 && m.stride >= 4*w && len(m.pix) >= (h-1)*m.stride+4*w
}

func (m impWire) image(pix []byte) image.Image {
	switch m.src {
	case "n":
		return &image.NRGBA{Pix: pix, Stride: m.stride, Rect: m.rect}
	case "r":
		return &image.RGBA{Pix: pix, Stride: m.stride, Rect: m.rect}
	case "gn":
		return impGenNRGBA{&image.NRGBA{Pix: pix, Stride: m.stride, Rect: m.rect}}
	case "gr":
		return impGenRGBA{&image.RGBA{Pix: pix, Stride: m.stride, Rect: m.rect}}
	}
	return nil
}

func parseImpWire(f []string) (impWire, bool) {
	if len(f) != 7 {
		return impWire{}, false
	}
	var m impWire
	m.src = f[0]
	if m.src != "n" && m.src != "r" && m.src != "gn" && m.src != "gr" {
		return m, false
	}
	m.pix = unhx(f[1])
	var v [5]int
	for i := 0; i < 5; i++ {
		n, err := strconv.Atoi(f[2+i])
		if err != nil {
			return m, false
		}
		v[i] = n
	}
	m.stride = v[0]
	m.rect = image.Rectangle{Min: image.Point{X: v[1], Y: v[2]}, Max: image.Point{X: v[3], Y: v[4]}}
	return m, true
}

// impDither maps the wire amplitude back to a cfg.Dithering value with
// int(float32(256)*d) == amp (what dsp.InitRandom computes); amp < 0: no dithering.
func impDither(amp int) float32 {
	switch {
	case amp < 0:
		return 0
	case amp == 0:
		return 1.0 / 1024 // > 0 (serial dithered path) but amplitude 0
	default:
		return float32(amp) / 256
	}
}

func impAmpOf(d float32) int {
	if d <= 0 {
		return -1
	}
	if d > 1 {
		return 256
	}
	return int(float32(256) * d)
}

func ycbcrEqual(a, b *image.YCbCr) bool {
	return a.Rect == b.Rect && a.YStride == b.YStride && a.CStride == b.CStride &&
		bytes.Equal(a.Y, b.Y) && bytes.Equal(a.Cb, b.Cb) && bytes.Equal(a.Cr, b.Cr)
}

func ycbcrDigest(a *image.YCbCr) string {
	return "y=" + digest(a.Y) + ",cb=" + digest(a.Cb) + ",cr=" + digest(a.Cr)
}

// impCheckLine evaluates one driver line on the real code and compares with the model's
// answer. match == true: tie holds for this line. goDesc is what Go produced (a canonical
// line for the verbatim ops, a description for the two-stage ops). callerMod reports that
// the hook changed the image it was given.
func impCheckLine(line, lean string) (match bool, goDesc string, callerMod bool) {
	f := strings.Fields(line)
	if len(f) < 8 {
		return false, "bad-line", false
	}
	op := f[0]
	m, ok := parseImpWire(f[len(f)-7:])
	if !ok {
		return false, "bad-line", false
	}
	args := f[1 : len(f)-7]
	// The model has no notion of capacity: image.NRGBA.NRGBAAt slices Pix[i:i+4:i+4], which
	// Go checks against cap(Pix), not len(Pix). Pin cap == len so that "too short" means the same
	// on both sides.
	pix := make([]byte, len(m.pix))
	copy(pix, m.pix)
	pix = pix[:len(pix):len(pix)]
	img := m.image(pix)
	w, h := m.rect.Dx(), m.rect.Dy()
	defer func() { callerMod = !bytes.Equal(pix, m.pix) }()

	lossyCfg := func(amp, ha int) verifapi.LossyEncodeConfig {
		cfg := verifapi.LossyDefaultConfig(75)
		cfg.Dithering = impDither(amp)
		cfg.HasAlpha = ha
		return cfg
	}

	switch op {
	case "imp_argb":
		if len(args) != 1 {
			return false, "bad-line", false
		}
		g, _ := guard(func() string {
			words, err := webp.VerifImportARGB(img, args[0] == "s")
			if err != nil {
				return "err"
			}
			b := make([]byte, 0, 4*len(words))
			for _, v := range words {
				b = append(b, byte(v>>24), byte(v>>16), byte(v>>8), byte(v))
			}
			return "ok " + digest(b)
		})
		return g == lean, g, false
	case "imp_hasalpha":
		if len(args) != 1 {
			return false, "bad-line", false
		}
		if args[0] == "l" && !m.wellFormed() {
			return true, "skipped-malformed", false // the lossy package has no validNRGBA guard; never fed malformed values
		}
		g, _ := guard(func() string {
			if args[0] == "l" {
				return "ok " + b2s(verifapi.ImportHasAlpha(img))
			}
			return "ok " + b2s(webp.VerifImportHasAlpha(img))
		})
		return g == lean, g, false
	case "imp_alpha":
		g, _ := guard(func() string { return "ok " + digest(webp.VerifImportExtractAlpha(img)) })
		return g == lean, g, false
	case "imp_cleanup":
		g, _ := guard(func() string {
			n := webp.VerifImportCleanup(img)
			if n == nil {
				return "err not-nrgba"
			}
			if n.Stride != 4*w || n.Rect != image.Rect(0, 0, w, h) {
				return fmt.Sprintf("err layout stride=%d rect=%v", n.Stride, n.Rect)
			}
			return "ok " + digest(n.Pix)
		})
		return g == lean, g, false
	case "imp_sharprgb":
		var same bool
		g, _ := guard(func() string {
			realYUV, err := webp.VerifImportSharpYUV(img)
			if err != nil {
				return "err"
			}
			d := "ok real:" + ycbcrDigest(realYUV)
			if !strings.HasPrefix(lean, "ok ") {
				return d
			}
			rgb := unhx(lean[3:])
			if len(rgb) != w*h*3 {
				return fmt.Sprintf("%s model-rgb-len=%d want %d", d, len(rgb), w*h*3)
			}
			via, err := webp.VerifImportSharpFromRGB(rgb, w, h)
			if err != nil {
				return d + " model-rgb:convert-error"
			}
			same = ycbcrEqual(realYUV, via)
			return d + " model-rgb:" + ycbcrDigest(via)
		})
		if g == "panic" || g == "err" {
			return g == lean, g, false
		}
		return same, g, false
	case "imp_y":
		if len(args) != 2 || !m.wellFormed() {
			return true, "skipped-malformed", false
		}
		amp, _ := strconv.Atoi(args[0])
		g, _ := guard(func() string {
			y, _, _, ys, _, mbW, mbH := verifapi.ImportPlanes(img, lossyCfg(amp, int(fnv1a([]byte(line))&1)))
			if ys != mbW*16 || len(y) != mbW*16*mbH*16 {
				return fmt.Sprintf("err layout ystride=%d mbW=%d mbH=%d len=%d", ys, mbW, mbH, len(y))
			}
			return "ok " + digest(y)
		})
		return g == lean, g, false
	case "imp_uvrows":
		if len(args) != 3 || !m.wellFormed() {
			return true, "skipped-malformed", false
		}
		amp, _ := strconv.Atoi(args[0])
		ha, _ := strconv.Atoi(args[2])
		var same bool
		g, _ := guard(func() string {
			cfg := lossyCfg(amp, ha)
			_, u, v, _, uvs, mbW, mbH := verifapi.ImportPlanes(img, cfg)
			padW, padH := mbW*16, mbH*16
			pairs, uvW := padH/2, (padW+1)>>1
			d := "ok real:u=" + digest(u) + ",v=" + digest(v)
			if uvs < uvW || len(u) < (pairs-1)*uvs+uvW || len(v) < (pairs-1)*uvs+uvW {
				return fmt.Sprintf("err layout uvstride=%d len=%d", uvs, len(u))
			}
			if !strings.HasPrefix(lean, "ok ") {
				return d
			}
			planar := unhx(lean[3:])
			if len(planar) != pairs*2*padW*4 {
				return fmt.Sprintf("%s model-planar-len=%d want %d", d, len(planar), pairs*2*padW*4)
			}
			mu, mv := verifapi.ImportUVFromPlanar(planar, padW, pairs, cfg.Dithering, padW*padH)
			same = true
			for r := 0; r < pairs; r++ {
				if !bytes.Equal(u[r*uvs:r*uvs+uvW], mu[r*uvW:(r+1)*uvW]) || !bytes.Equal(v[r*uvs:r*uvs+uvW], mv[r*uvW:(r+1)*uvW]) {
					same = false
					d += fmt.Sprintf(" first-differing-row-pair=%d", r)
					break
				}
			}
			return d + " model:u=" + digest(mu) + ",v=" + digest(mv)
		})
		if g == "panic" || strings.HasPrefix(g, "err") {
			return g == lean, g, false
		}
		return same, g, false
	}
	return false, "bad-op", false
}

func replayImpLine(in map[string]any) int {
	line, _ := in["line"].(string)
	l, err := RunDriver([]string{line})
	if err != nil {
		fmt.Println(err)
		return 2
	}
	match, g, cm := impCheckLine(line, l[0])
	fmt.Printf("go:   %s\nlean: %s\n", short(g, 300), short(l[0], 300))
	if cm {
		fmt.Println("caller's Pix was modified by the hook")
	}
	if !match || cm {
		return 1
	}
	return 0
}

// ---------- picture generation shared by both parts ----------

// impTweak sprinkles translucent pixels with small / boundary alpha values (the interesting
// ones for un-premultiplication).
func impTweak(r *RNG, img *image.NRGBA, mode int) {
	if mode == 0 {
		return
	}
	alphas := []byte{1, 2, 3, 5, 6, 7, 9, 17, 127, 128, 129, 254}
	for i := 0; i+3 < len(img.Pix); i += 4 {
		if r.Chance(1, 3) {
			img.Pix[i+3] = alphas[r.Intn(len(alphas))]
			if mode == 2 { // colours near the alpha value
				for k := 0; k < 3; k++ {
					img.Pix[i+k] = byte(r.Next())
				}
			}
		}
	}
}

func impHasZeroAlpha(pix []byte) bool {
	for i := 3; i < len(pix); i += 4 {
		if pix[i] == 0 {
			return true
		}
	}
	return false
}

func impAlphaKind(pix []byte) string {
	opaque, zero, trans := 0, 0, 0
	for i := 3; i < len(pix); i += 4 {
		switch pix[i] {
		case 255:
			opaque++
		case 0:
			zero++
		default:
			trans++
		}
	}
	switch {
	case trans > 0:
		return "translucent"
	case zero > 0:
		return "binary"
	}
	return "opaque"
}

func impFlat(pix []byte) bool {
	for i := 4; i+3 < len(pix); i += 4 {
		if !bytes.Equal(pix[i:i+4], pix[0:4]) {
			return false
		}
	}
	return true
}

// premultiply the tight NRGBA picture the way image/color does (RGBAModel).
func impPremul(pix []byte) []byte {
	out := make([]byte, len(pix))
	for i := 0; i+3 < len(pix); i += 4 {
		c := color.RGBAModel.Convert(color.NRGBA{R: pix[i], G: pix[i+1], B: pix[i+2], A: pix[i+3]}).(color.RGBA)
		out[i], out[i+1], out[i+2], out[i+3] = c.R, c.G, c.B, c.A
	}
	return out
}

// ---------- embeddings for Part B ----------

// impEmbed lays the tight w×h picture (4 bytes per pixel) out in a buffer; returns the
// Pix slice as the image type would hold it, the stride and the rectangle.
func impEmbed(r *RNG, kind string, w, h int, tight []byte) (pix []byte, stride int, rect image.Rectangle) {
	switch kind {
	case "origin":
		return append([]byte(nil), tight...), 4 * w, image.Rect(0, 0, w, h)
	case "shift":
		mx, my := r.Intn(41)-20, r.Intn(41)-20
		if mx == 0 && my == 0 {
			mx = -7
		}
		return append([]byte(nil), tight...), 4 * w, image.Rect(mx, my, mx+w, my+h)
	case "pad":
		stride = 4*w + 1 + r.Intn(13) // not necessarily a multiple of 4
		pix = r.Bytes(h*stride + r.Intn(9))
		for y := 0; y < h; y++ {
			copy(pix[y*stride:], tight[y*4*w:(y+1)*4*w])
		}
		return pix, stride, image.Rect(0, 0, w, h)
	default: // "sub": SubImage of a larger parent whose own origin may be non-zero
		ox, oy := r.Intn(4), r.Intn(4)
		if ox == 0 && oy == 0 {
			ox = 1
		}
		er, eb := r.Intn(3), r.Intn(3)
		px, py := 0, 0
		if r.Chance(1, 3) {
			px, py = r.Intn(21)-10, r.Intn(21)-10
		}
		parent := image.NewNRGBA(image.Rect(px, py, px+ox+w+er, py+oy+h+eb))
		copy(parent.Pix, r.Bytes(len(parent.Pix)))
		for y := 0; y < h; y++ {
			copy(parent.Pix[parent.PixOffset(px+ox, py+oy+y):], tight[y*4*w:(y+1)*4*w])
		}
		sub := parent.SubImage(image.Rect(px+ox, py+oy, px+ox+w, py+oy+h)).(*image.NRGBA)
		return sub.Pix, sub.Stride, sub.Rect
	}
}

type impLine struct {
	line      string
	malformed bool
}

func impGenLines(seed uint64, nPics int, rep *Report) []impLine {
	var out []impLine
	webpOps := []string{"imp_argb b", "imp_argb s", "imp_hasalpha w", "imp_alpha", "imp_cleanup", "imp_sharprgb"}
	sizes := []int{1, 2, 3, 4, 5, 7, 8, 9, 15, 16, 17}
	dithers := []float32{1.0, 0.96875, 0.5, 0.84179688, 0.002, 0.3}
	nwMax := runtime.GOMAXPROCS(0)
	for i := 0; i < nPics; i++ {
		r := NewRNG(seed, uint64(i))
		w, h := sizes[r.Intn(len(sizes))], sizes[r.Intn(len(sizes))]
		switch r.Intn(12) {
		case 0:
			w = 1
		case 1:
			h = 1
		case 2:
			w, h = 33, 1+r.Intn(4)
		case 3:
			w, h = 1+r.Intn(4), 33
		case 4:
			w, h = 1+r.Intn(24), 1+r.Intn(24)
		}
		if i%60 == 59 { // a few large ones (the model is slow on them)
			big := []int{31, 32, 33, 47, 48}
			w, h = big[r.Intn(len(big))], big[r.Intn(len(big))]
		}
		cls, acls := r.Intn(NumImgClasses), r.Intn(NumAlphaClasses)
		if r.Chance(1, 4) {
			cls = ClsNoise
		}
		pic := GenImage(r, w, h, cls, acls)
		if acls != AlphaNone && r.Chance(1, 2) {
			impTweak(r, pic, 1+r.Intn(2))
		}
		tight := pic.Pix
		rep.Count("corr-pic:" + impAlphaKind(tight))
		premul := impPremul(tight)
		noZero := !impHasZeroAlpha(tight)

		embs := []string{"origin", "sub", "pad", "shift"}
		for _, emb := range embs {
			// src kinds: NRGBA bytes as n/gn; premultiplied bytes as r/gr; now and then the raw
			// (invalid as premultiplied: c > a) bytes as r/gr
			type variant struct {
				src   string
				bytes []byte
				tag   string
			}
			vs := []variant{{"n", tight, "nrgba"}, {"gn", tight, "nrgba"}, {"r", premul, "premul"}, {"gr", premul, "premul"}}
			if r.Chance(1, 3) {
				vs = append(vs, variant{"r", tight, "invalid-premul"}, variant{"gr", tight, "invalid-premul"})
			}
			for _, v := range vs {
				pix, stride, rect := impEmbed(r, emb, w, h, v.bytes)
				m := impWire{src: v.src, pix: pix, stride: stride, rect: rect}
				padH := 16 * ((h + 15) >> 4)
				nws := []int{1, 2, 3, 7, mini(nwMax, padH), padH}
				nw := nws[r.Intn(len(nws))]
				amp := -1
				if r.Chance(1, 2) {
					amp = impAmpOf(dithers[r.Intn(len(dithers))])
				}
				ops := append([]string(nil), webpOps...)
				ops = append(ops, "imp_hasalpha l",
					fmt.Sprintf("imp_y %d %d", amp, nw),
					fmt.Sprintf("imp_uvrows %d %d %d", amp, nw, r.Intn(2)))
				// sample ops per image: small pictures get all of them
				nOps := len(ops)
				if w*h > 64 {
					nOps = 3
				}
				if w*h > 300 {
					nOps = 2
				}
				for k := 0; k < nOps; k++ {
					j := k + r.Intn(len(ops)-k)
					ops[k], ops[j] = ops[j], ops[k]
					op := ops[k]
					if op == "imp_cleanup" && !noZero {
						rep.Count("corr-skip:cleanup-zero-alpha")
						continue
					}
					out = append(out, impLine{line: op + " " + m.String()})
					rep.Count("corr:" + strings.Fields(op)[0] + ":" + v.src)
					rep.Count("corr-emb:" + emb + ":" + v.tag)
				}
			}
		}

		// malformed images: webp-level ops only (validNRGBA guard, At() fallback)
		if i%3 == 0 {
			base := append([]byte(nil), tight...)
			if r.Bool() { // no zero byte at all: cleanup stays comparable whatever bytes At() ends up reading
				for k := range base {
					if base[k] == 0 {
						base[k] = 1
					}
				}
			}
			hasZero := bytes.IndexByte(base, 0) >= 0
			type mal struct {
				kind   string
				pix    []byte
				stride int
				rect   image.Rectangle
			}
			var ms []mal
			ms = append(ms, mal{"short-by-some", base[:len(base)-1-r.Intn(mini(len(base), 9))], 4 * w, image.Rect(0, 0, w, h)})
			ms = append(ms, mal{"empty", nil, 4 * w, image.Rect(0, 0, w, h)})
			if w > 1 {
				ms = append(ms, mal{"stride-small", base, 4 * (w - 1), image.Rect(0, 0, w, h)})
				ms = append(ms, mal{"stride-odd-small", base, 4*w - 1 - r.Intn(3), image.Rect(0, 0, w, h)})
			}
			ms = append(ms, mal{"stride-zero", base, 0, image.Rect(0, 0, w, h)})
			ms = append(ms, mal{"rect-taller", base, 4 * w, image.Rect(0, 0, w, h+1)})
			ms = append(ms, mal{"rect-wider", base, 4 * w, image.Rect(0, 0, w+1, h)})
			ms = append(ms, mal{"rect-shift-short", base[:len(base)-4], 4 * w, image.Rect(3, -2, 3+w, -2+h)})
			for _, ml := range ms {
				src := []string{"n", "r", "gn", "gr"}[r.Intn(4)]
				m := impWire{src: src, pix: ml.pix, stride: ml.stride, rect: ml.rect}
				for _, op := range webpOps {
					if op == "imp_cleanup" && hasZero {
						continue
					}
					if w*h > 64 && !r.Chance(1, 3) {
						continue
					}
					out = append(out, impLine{line: op + " " + m.String(), malformed: true})
					rep.Count("corr-malformed:" + ml.kind)
					rep.Count("corr:" + strings.Fields(op)[0] + ":" + src)
				}
			}
		}
	}
	return out
}

// ---------- Part C: placements of the same pixels ----------

type impOpts struct {
	lossless, exact, sharp, dither bool
	method, quality                int
}

func (o impOpts) String() string {
	return fmt.Sprintf("l%s:x%s:s%s:d%s:m%d:q%d", b2s(o.lossless), b2s(o.exact), b2s(o.sharp), b2s(o.dither), o.method, o.quality)
}

func parseImpOpts(s string) (impOpts, bool) {
	var o impOpts
	var l, x, sh, d int
	n, err := fmt.Sscanf(s, "l%d:x%d:s%d:d%d:m%d:q%d", &l, &x, &sh, &d, &o.method, &o.quality)
	if err != nil || n != 6 {
		return o, false
	}
	o.lossless, o.exact, o.sharp, o.dither = l == 1, x == 1, sh == 1, d == 1
	return o, true
}

func (o impOpts) path() string {
	p := "lossy"
	switch {
	case o.lossless:
		p = "lossless"
	case o.sharp:
		p = "lossy-sharp"
	case o.dither:
		p = "lossy-dither"
	}
	if o.exact {
		p += "-exact"
	}
	return p
}

func (o impOpts) build() *webp.EncoderOptions {
	e := webp.DefaultOptions()
	e.Lossless = o.lossless
	e.Exact = o.exact
	e.UseSharpYUV = o.sharp
	if o.dither {
		e.Preprocessing = 2
	}
	e.Method = o.method
	e.Quality = float32(o.quality)
	return e
}

func impAllOpts() (lossless, lossy []impOpts) {
	for _, x := range []bool{false, true} {
		for _, m := range []int{0, 4} {
			for _, q := range []int{40, 75} {
				lossless = append(lossless, impOpts{lossless: true, exact: x, method: m, quality: q})
			}
			for _, q := range []int{50, 90} {
				for _, s := range []bool{false, true} {
					for _, d := range []bool{false, true} {
						lossy = append(lossy, impOpts{exact: x, sharp: s, dither: d, method: m, quality: q})
					}
				}
			}
		}
	}
	return
}

// impPlaced is one way of handing the picture to Encode.
type impPlaced struct {
	img    image.Image
	buf    []byte           // the caller's whole backing buffer (parent Pix for sub-images)
	hdr    func() string    // Stride/Rect/len(Pix) of the image value handed over
	inside func(i int) bool // byte i of buf belongs to a pixel inside the bounds (nil: all)
}

func (p *impPlaced) checksum() string {
	return fmt.Sprintf("%d:%d|%s", len(p.buf), fnv1a(p.buf), p.hdr())
}

// mutateOutside flips bytes outside the bounds: all of them (mode 0) or a random subset.
func (p *impPlaced) mutateOutside(r *RNG) int {
	if p.inside == nil {
		return 0
	}
	all := r.Bool()
	n := 0
	for i := range p.buf {
		if p.inside(i) {
			continue
		}
		if all || r.Bool() {
			p.buf[i] ^= byte(1 + r.Intn(255))
			n++
		}
	}
	return n
}

var impPlacements = []string{"sub11", "sub30", "sub05", "pad4", "pad12", "shift", "generic", "generic64", "genericRGBA64", "genericRGBA", "rgba-generic", "rgba-sub"}

// impRefOf names the placement whose encoding must be reproduced.
func impRefOf(pl string) string {
	if strings.HasPrefix(pl, "rgba-") {
		return "rgba"
	}
	return "origin"
}

func nrgbaHdr(m *image.NRGBA) func() string {
	return func() string { return fmt.Sprintf("%d %v %d %d", m.Stride, m.Rect, len(m.Pix), cap(m.Pix)) }
}

func rgbaHdr(m *image.RGBA) func() string {
	return func() string { return fmt.Sprintf("%d %v %d %d", m.Stride, m.Rect, len(m.Pix), cap(m.Pix)) }
}

// impPlace builds the placement; nil with a reason when the placement cannot show the same
// non-premultiplied colours (generic premultiplied models on translucent pixels).
func impPlace(name string, w, h int, tight []byte, gseed uint64) (*impPlaced, string) {
	g := NewRNG(gseed, uint64(len(name))*131+uint64(name[len(name)-1]))
	origin := func() *image.NRGBA {
		return &image.NRGBA{Pix: append([]byte(nil), tight...), Stride: 4 * w, Rect: image.Rect(0, 0, w, h)}
	}
	sub := func(ox, oy int, src []byte) (pix []byte, stride int, inside func(int) bool, pw, ph int) {
		er, eb := 1+g.Intn(3), 1+g.Intn(3)
		pw, ph = ox+w+er, oy+h+eb
		stride = 4 * pw
		pix = g.Bytes(stride * ph)
		for y := 0; y < h; y++ {
			copy(pix[(oy+y)*stride+4*ox:], src[y*4*w:(y+1)*4*w])
		}
		inside = func(i int) bool {
			row, col := i/stride, (i%stride)/4
			return row >= oy && row < oy+h && col >= ox && col < ox+w
		}
		return
	}
	roundTrips := func(conv func(color.NRGBA) color.Color) bool {
		for i := 0; i+3 < len(tight); i += 4 {
			c := color.NRGBA{R: tight[i], G: tight[i+1], B: tight[i+2], A: tight[i+3]}
			if color.NRGBAModel.Convert(conv(c)).(color.NRGBA) != c {
				return false
			}
		}
		return true
	}
	switch name {
	case "origin":
		m := origin()
		return &impPlaced{img: m, buf: m.Pix, hdr: nrgbaHdr(m)}, ""
	case "sub11", "sub30", "sub05":
		ox, oy := int(name[3]-'0'), int(name[4]-'0')
		pix, _, inside, pw, ph := sub(ox, oy, tight)
		parent := &image.NRGBA{Pix: pix, Stride: 4 * pw, Rect: image.Rect(0, 0, pw, ph)}
		m := parent.SubImage(image.Rect(ox, oy, ox+w, oy+h)).(*image.NRGBA)
		return &impPlaced{img: m, buf: parent.Pix, hdr: nrgbaHdr(m), inside: inside}, ""
	case "pad4", "pad12":
		pad := 4
		if name == "pad12" {
			pad = 12
		}
		stride := 4*w + pad
		pix := g.Bytes(h*stride + 1 + g.Intn(9))
		for y := 0; y < h; y++ {
			copy(pix[y*stride:], tight[y*4*w:(y+1)*4*w])
		}
		m := &image.NRGBA{Pix: pix, Stride: stride, Rect: image.Rect(0, 0, w, h)}
		inside := func(i int) bool { return i/stride < h && i%stride < 4*w }
		return &impPlaced{img: m, buf: pix, hdr: nrgbaHdr(m), inside: inside}, ""
	case "shift":
		m := origin()
		m.Rect = image.Rect(-7, 13, -7+w, 13+h)
		return &impPlaced{img: m, buf: m.Pix, hdr: nrgbaHdr(m)}, ""
	case "generic":
		m := origin()
		return &impPlaced{img: impGenNRGBA{m}, buf: m.Pix, hdr: nrgbaHdr(m)}, ""
	case "generic64", "genericRGBA64", "genericRGBA":
		var conv func(color.NRGBA) color.Color
		var model color.Model
		switch name {
		case "generic64":
			model = color.NRGBA64Model
			conv = func(c color.NRGBA) color.Color {
				return color.NRGBA64{R: uint16(c.R) * 257, G: uint16(c.G) * 257, B: uint16(c.B) * 257, A: uint16(c.A) * 257}
			}
		case "genericRGBA64":
			model = color.RGBA64Model
			conv = func(c color.NRGBA) color.Color { return color.RGBA64Model.Convert(c) }
		default:
			model = color.RGBAModel
			conv = func(c color.NRGBA) color.Color { return color.RGBAModel.Convert(c) }
		}
		if !roundTrips(conv) {
			return nil, "colours-do-not-round-trip"
		}
		m := origin()
		return &impPlaced{img: impGenConv{m: m, model: model, conv: conv}, buf: m.Pix, hdr: nrgbaHdr(m)}, ""
	case "rgba":
		m := &image.RGBA{Pix: impPremul(tight), Stride: 4 * w, Rect: image.Rect(0, 0, w, h)}
		return &impPlaced{img: m, buf: m.Pix, hdr: rgbaHdr(m)}, ""
	case "rgba-generic":
		m := &image.RGBA{Pix: impPremul(tight), Stride: 4 * w, Rect: image.Rect(0, 0, w, h)}
		return &impPlaced{img: impGenRGBA{m}, buf: m.Pix, hdr: rgbaHdr(m)}, ""
	case "rgba-sub":
		pix, _, inside, pw, ph := sub(2, 1, impPremul(tight))
		parent := &image.RGBA{Pix: pix, Stride: 4 * pw, Rect: image.Rect(0, 0, pw, ph)}
		m := parent.SubImage(image.Rect(2, 1, 2+w, 1+h)).(*image.RGBA)
		return &impPlaced{img: m, buf: parent.Pix, hdr: rgbaHdr(m), inside: inside}, ""
	}
	return nil, "unknown-placement"
}

type impEnc struct {
	data     []byte
	status   string // "ok" | "err" | "panic"
	modified bool   // the caller's buffer or image header changed during Encode
}

func (a impEnc) same(b impEnc) bool { return a.status == b.status && bytes.Equal(a.data, b.data) }

func (a impEnc) String() string {
	if a.status != "ok" {
		return a.status
	}
	return fmt.Sprintf("%d bytes (%s)", len(a.data), digest(a.data))
}

func firstDiff(a, b []byte) int {
	n := mini(len(a), len(b))
	for i := 0; i < n; i++ {
		if a[i] != b[i] {
			return i
		}
	}
	return n
}

// impEncode runs the real webp.Encode and checks that the caller's memory is unchanged.
func impEncode(p *impPlaced, o impOpts) (res impEnc) {
	before := p.checksum()
	defer func() {
		if e := recover(); e != nil {
			res.status = "panic"
		}
		res.modified = p.checksum() != before
	}()
	var buf bytes.Buffer
	if err := webp.Encode(&buf, p.img, o.build()); err != nil {
		res.status = "err"
		return
	}
	res.status, res.data = "ok", buf.Bytes()
	return
}

// impCase is a replayable (and shrinkable) violation candidate.
type impCase struct {
	Check     string // identity | outside-bytes | caller-modified
	W, H      int
	Pix       []byte // tight NRGBA picture
	Placement string
	Opts      string
	GSeed     uint64
}

func (c *impCase) signature() string {
	o, _ := parseImpOpts(c.Opts)
	switch c.Check {
	case "outside-bytes":
		return "import:" + c.Placement + ":outside-bytes"
	case "caller-modified":
		return "import:" + c.Placement + ":caller-modified"
	}
	return "import:" + c.Placement + ":" + o.path()
}

func (c *impCase) input() map[string]any {
	return map[string]any{"op": "impcase", "check": c.Check, "w": c.W, "h": c.H, "pix": hx(c.Pix),
		"placement": c.Placement, "opts": c.Opts, "gseed": strconv.FormatUint(c.GSeed, 10)}
}

// run re-executes the case from scratch; violated == true when the property fails.
func (c *impCase) run() (violated bool, detail string) {
	o, ok := parseImpOpts(c.Opts)
	if !ok || c.W < 1 || c.H < 1 || len(c.Pix) != 4*c.W*c.H {
		return false, "bad case"
	}
	p, why := impPlace(c.Placement, c.W, c.H, c.Pix, c.GSeed)
	if p == nil {
		return false, "placement not applicable: " + why
	}
	switch c.Check {
	case "identity":
		ref, _ := impPlace(impRefOf(c.Placement), c.W, c.H, c.Pix, c.GSeed)
		a := impEncode(ref, o)
		b := impEncode(p, o)
		if a.same(b) {
			return false, "identical: " + a.String()
		}
		return true, fmt.Sprintf("%s: %s vs %s: %s, first difference at byte %d", impRefOf(c.Placement), a, c.Placement, b, firstDiff(a.data, b.data))
	case "outside-bytes":
		a := impEncode(p, o)
		n := p.mutateOutside(NewRNG(c.GSeed, 77))
		b := impEncode(p, o)
		if a.same(b) {
			return false, "identical: " + a.String()
		}
		return true, fmt.Sprintf("%s before: %s, after changing %d bytes outside the bounds: %s, first difference at byte %d", c.Placement, a, n, b, firstDiff(a.data, b.data))
	case "caller-modified":
		before := p.checksum()
		cp := append([]byte(nil), p.buf...)
		impEncode(p, o)
		after := p.checksum()
		if before == after {
			return false, "unchanged"
		}
		return true, fmt.Sprintf("caller buffer/header changed by Encode: %s -> %s, first changed byte %d", before, after, firstDiff(cp, p.buf))
	}
	return false, "bad check"
}

// reproduces: the violation shows in every one of n fresh serial runs.
func (c *impCase) reproduces(n int) (all bool, any bool, detail string) {
	all = true
	for i := 0; i < n; i++ {
		v, d := c.run()
		if v {
			any = true
			detail = d
		} else {
			all = false
		}
	}
	return
}

func (c *impCase) crop(x0, y0, w, h int) impCase {
	d := *c
	d.W, d.H = w, h
	d.Pix = make([]byte, 0, 4*w*h)
	for y := 0; y < h; y++ {
		d.Pix = append(d.Pix, c.Pix[((y0+y)*c.W+x0)*4:((y0+y)*c.W+x0+w)*4]...)
	}
	return d
}

// shrink crops from right/bottom/left/top (halves first, then single rows/columns) while
// the violation persists.
func (c *impCase) shrink() impCase {
	cur := *c
	budget := 400
	for progress := true; progress && budget > 0; {
		progress = false
		w, h := cur.W, cur.H
		cands := [][4]int{
			{0, 0, (w + 1) / 2, h}, {0, 0, w, (h + 1) / 2}, {w / 2, 0, w - w/2, h}, {0, h / 2, w, h - h/2},
			{0, 0, w - 1, h}, {0, 0, w, h - 1}, {1, 0, w - 1, h}, {0, 1, w, h - 1},
		}
		for _, k := range cands {
			if k[2] < 1 || k[3] < 1 || (k[2] == w && k[3] == h) {
				continue
			}
			d := cur.crop(k[0], k[1], k[2], k[3])
			budget--
			if all, _, _ := d.reproduces(2); all {
				cur = d
				progress = true
				break
			}
		}
	}
	return cur
}

func impNum(v any) int {
	switch t := v.(type) {
	case float64:
		return int(t)
	case int:
		return t
	}
	return 0
}

func replayImpCase(in map[string]any) int {
	c := impCase{W: impNum(in["w"]), H: impNum(in["h"])}
	c.Check, _ = in["check"].(string)
	c.Placement, _ = in["placement"].(string)
	c.Opts, _ = in["opts"].(string)
	ps, _ := in["pix"].(string)
	c.Pix = unhx(ps)
	gs, _ := in["gseed"].(string)
	c.GSeed, _ = strconv.ParseUint(gs, 10, 64)
	all, anyV, d := c.reproduces(3)
	if !anyV {
		_, d = c.run()
	}
	fmt.Printf("%s %dx%d %s %s: %s\n", c.Check, c.W, c.H, c.Placement, c.Opts, d)
	if all {
		return 1
	}
	if anyV {
		fmt.Println("violation shows only in some of 3 runs (history dependence, not C19)")
	}
	return 0
}

func impPixDesc(c *impCase) string {
	if c.W*c.H > 4 {
		return ""
	}
	var sb strings.Builder
	sb.WriteString("; NRGBA pixels")
	for i := 0; i+3 < len(c.Pix); i += 4 {
		fmt.Fprintf(&sb, " (%d,%d,%d,%d)", c.Pix[i], c.Pix[i+1], c.Pix[i+2], c.Pix[i+3])
	}
	if strings.HasPrefix(c.Placement, "rgba") {
		pm := impPremul(c.Pix)
		sb.WriteString(" = premultiplied RGBA")
		for i := 0; i+3 < len(pm); i += 4 {
			back := color.NRGBAModel.Convert(color.RGBA{R: pm[i], G: pm[i+1], B: pm[i+2], A: pm[i+3]}).(color.NRGBA)
			fmt.Fprintf(&sb, " (%d,%d,%d,%d) [color.NRGBAModel: (%d,%d,%d,%d)]", pm[i], pm[i+1], pm[i+2], pm[i+3], back.R, back.G, back.B, back.A)
		}
	}
	return sb.String()
}

// ---------- the suite ----------

func suiteImport(rep *Report) error {
	rich := rep.Tier == "thorough"
	// option sets per picture: quick = all 8 lossless + 12 of the 32 lossy ones (rotating, so that
	// every combination is covered every 8 pictures); thorough = the full product
	nCorrPics, nPics, nLossless, nLossy := 400, 300, 8, 12
	if rich {
		nCorrPics, nPics, nLossless, nLossy = 3000, 5000, 8, 32
	}
	rep.Rule = "pictures from GenImage (8 colour classes x 7 alpha classes, plus sprinkled low/boundary alpha values), sizes 1..48 with emphasis on 1xN, Nx1 and the 8/16/17/32/33 boundaries; Part B: each picture is embedded at the origin, as a SubImage of a garbage-filled parent (also with a non-zero parent origin), with padded (also non-multiple-of-4) stride, with a shifted Rect, as *image.NRGBA / *image.RGBA (properly premultiplied, and deliberately invalid c>a) and behind image.Image-only wrappers, plus malformed Pix/Stride/Rect values for the guarded webp-level functions, and every import loop of encode.go and lossy/encode.go is compared with the Lean model; Part C: webp.Encode of 12 placements of the same pixels (3 sub-images, 2 paddings, shifted Rect, 4 generic wrappers, RGBA vs generic RGBA, RGBA sub-image) under lossless/lossy x Exact x SharpYUV x dithering x Method{0,4} x 2 qualities must be byte-identical to the origin encoding, stay identical after every/some outside byte is changed, and leave the caller's whole buffer and header unchanged; non-trivial = the picture has at least two different pixel values (a wrong offset, stride or conversion would change the imported data) and the comparison was actually carried out; distinct = FNV of picture + placement + option set (Part C) or of the driver line (Part B)"

	// ----- Part B: correspondence with the Lean model -----
	t0 := time.Now()
	lines := impGenLines(rep.Seed, nCorrPics, rep)
	ls := make([]string, len(lines))
	for i, l := range lines {
		ls[i] = l.line
	}
	lean, err := RunDriver(ls)
	if err != nil {
		return err
	}
	type lineRes struct {
		match, callerMod bool
		goDesc           string
	}
	lres := make([]lineRes, len(lines))
	{
		var wg sync.WaitGroup
		nw := runtime.NumCPU()
		for wk := 0; wk < nw; wk++ {
			wg.Add(1)
			go func(wk int) {
				defer wg.Done()
				for i := wk; i < len(lines); i += nw {
					m, g, cm := impCheckLine(ls[i], lean[i])
					lres[i] = lineRes{m, cm, g}
				}
			}(wk)
		}
		wg.Wait()
	}
	for i, l := range lines {
		f := strings.Fields(l.line)
		op, src := f[0], f[len(f)-7]
		rep.Eval(true, []byte(l.line))
		switch {
		case lean[i] == "panic":
			rep.Count("corr-result:panic")
		case strings.HasPrefix(lean[i], "ok"):
			rep.Count("corr-result:ok")
		default:
			rep.Count("corr-result:" + short(lean[i], 12))
		}
		if lres[i].callerMod {
			rep.Add(Finding{Kind: "property", Property: "C19", Signature: "import:" + op + ":caller-modified",
				Detail: "the function behind " + op + " wrote into the caller's Pix", Input: map[string]any{"op": "impline", "line": l.line}})
		}
		if lres[i].match {
			continue
		}
		// a tie failure must be stable (the Go side is deterministic; re-evaluate once)
		if m2, _, _ := impCheckLine(l.line, lean[i]); m2 {
			rep.Count("nonreproducible")
			rep.Notes = append(rep.Notes, "correspondence mismatch did not reproduce on re-evaluation: "+short(l.line, 120))
			continue
		}
		rep.Add(Finding{Kind: "correspondence", Property: "C19", Signature: "import:" + op + ":" + src,
			Detail: fmt.Sprintf("line %q: go %s, lean %s", short(l.line, 160), short(lres[i].goDesc, 240), short(lean[i], 120)),
			Input:  map[string]any{"op": "impline", "line": l.line}})
	}
	rep.Extra["corr_lines"] = len(lines)
	rep.Extra["corr_wall_s"] = time.Since(t0).Seconds()
	t1 := time.Now()
	rep.Sample(map[string]any{"line": short(ls[0], 200), "lean": short(lean[0], 80), "go": short(lres[0].goDesc, 80)})

	// ----- Part C: the property end to end -----
	allLL, allLY := impAllOpts()
	sizes := []int{1, 2, 3, 5, 7, 8, 9, 15, 16, 17, 23, 31, 32, 33, 47, 48}
	type picOut struct {
		cands []impCase // violation candidates that reproduced serially
	}
	outs := make([]picOut, nPics)
	var notesMu sync.Mutex
	var wg sync.WaitGroup
	nw := runtime.NumCPU()
	for wk := 0; wk < nw; wk++ {
		wg.Add(1)
		go func(wk int) {
			defer wg.Done()
			for i := wk; i < nPics; i += nw {
				r := NewRNG(rep.Seed, 1_000_000+uint64(i))
				var w, h int
				switch r.Intn(8) {
				case 0:
					w, h = 1, 1+r.Intn(48)
				case 1:
					w, h = 1+r.Intn(48), 1
				case 2, 3:
					w, h = 1+r.Intn(48), 1+r.Intn(48)
				case 4:
					w, h = 1+r.Intn(4), 1+r.Intn(4)
				default:
					w, h = sizes[r.Intn(len(sizes))], sizes[r.Intn(len(sizes))]
				}
				cls, acls := r.Intn(NumImgClasses), r.Intn(NumAlphaClasses)
				if r.Chance(1, 3) {
					acls = AlphaNone
				}
				pic := GenImage(r, w, h, cls, acls)
				tweak := 0
				if acls != AlphaNone && r.Chance(1, 2) {
					tweak = 1 + r.Intn(2)
				}
				impTweak(r, pic, tweak)
				tight := pic.Pix
				flat := impFlat(tight)
				akind := impAlphaKind(tight)
				rep.Count("pic:" + imgClassNames[cls] + "/" + akind)
				rep.Count(fmt.Sprintf("size:w%%16=%d,h%%16=%d", mini(w%16, 2), mini(h%16, 2)))
				switch {
				case w == 1 || h == 1:
					rep.Count("shape:line")
				case w*h <= 64:
					rep.Count("shape:small")
				default:
					rep.Count("shape:large")
				}
				if i < 3 {
					rep.Sample(map[string]any{"picture": imgDesc(w, h, cls, acls), "tweak": tweak})
				}
				pdig := fnv1a(tight)
				gseed := r.Next() >> 12

				var sets []impOpts
				for k := 0; k < nLossless; k++ {
					sets = append(sets, allLL[(i*nLossless+k)%len(allLL)])
				}
				for k := 0; k < nLossy; k++ {
					sets = append(sets, allLY[(i*nLossy+k)%len(allLY)])
				}
				for _, o := range sets {
					rep.Count("opts:" + o.String())
					rep.Count("path:" + o.path())
					refs := map[string]impEnc{}
					for _, refName := range []string{"origin", "rgba"} {
						p, _ := impPlace(refName, w, h, tight, gseed)
						e := impEncode(p, o)
						refs[refName] = e
						if e.status != "ok" {
							rep.Count("encode-" + e.status + ":" + refName)
						}
						if e.modified {
							outs[i].cands = append(outs[i].cands, impCase{"caller-modified", w, h, tight, refName, o.String(), gseed})
						}
					}
					for _, pl := range impPlacements {
						key := []byte(fmt.Sprintf("%d|%dx%d|%s|%s", pdig, w, h, pl, o.String()))
						p, why := impPlace(pl, w, h, tight, gseed)
						if p == nil {
							rep.Count("skipped:" + pl + ":" + why)
							rep.Eval(false, key)
							continue
						}
						rep.Count("placement:" + pl)
						e := impEncode(p, o)
						rep.Eval(!flat, key)
						c := impCase{"identity", w, h, tight, pl, o.String(), gseed}
						if e.modified {
							cm := c
							cm.Check = "caller-modified"
							outs[i].cands = append(outs[i].cands, cm)
						}
						if e.same(refs[impRefOf(pl)]) {
							rep.Count("cmp:identical")
						} else {
							rep.Count("cmp:different:" + pl + ":" + akind)
							if all, anyV, _ := c.reproduces(2); all {
								outs[i].cands = append(outs[i].cands, c)
							} else {
								rep.Count("nonreproducible")
								notesMu.Lock()
								if len(rep.Notes) < 12 {
									rep.Notes = append(rep.Notes, fmt.Sprintf("mismatch %s %s on %s did not reproduce serially (again in some run: %v): history dependence is a different property", pl, o.String(), imgDesc(w, h, cls, acls), anyV))
								}
								notesMu.Unlock()
							}
						}
						if p.inside != nil {
							n := p.mutateOutside(NewRNG(gseed, 77))
							e2 := impEncode(p, o)
							rep.Count("outside:checked")
							rep.CountN("outside:bytes-changed", n)
							if !e2.same(e) {
								co := c
								co.Check = "outside-bytes"
								if all, _, _ := co.reproduces(2); all {
									outs[i].cands = append(outs[i].cands, co)
								} else {
									rep.Count("nonreproducible")
								}
							}
							if e2.modified {
								cm := c
								cm.Check = "caller-modified"
								outs[i].cands = append(outs[i].cands, cm)
							}
						}
					}
				}
			}
		}(wk)
	}
	wg.Wait()
	rep.Extra["encode_wall_s"] = time.Since(t1).Seconds()

	// violations: per signature shrink the first few (in picture order), report the smallest
	bySig := map[string][]impCase{}
	total := map[string]int{}
	var sigs []string
	for i := range outs {
		for _, c := range outs[i].cands {
			s := c.signature()
			if total[s] == 0 {
				sigs = append(sigs, s)
			}
			total[s]++
			if len(bySig[s]) < 8 {
				bySig[s] = append(bySig[s], c)
			}
		}
	}
	sort.Strings(sigs)
	for _, s := range sigs {
		rep.CountN("violations:"+s, total[s])
		cs := bySig[s]
		shr := make([]impCase, len(cs))
		var swg sync.WaitGroup
		for k := range cs {
			swg.Add(1)
			go func(k int) {
				defer swg.Done()
				shr[k] = cs[k].shrink()
			}(k)
		}
		swg.Wait()
		sort.SliceStable(shr, func(a, b int) bool { return shr[a].W*shr[a].H < shr[b].W*shr[b].H })
		seen := map[string]bool{}
		for k := range shr {
			c := shr[k]
			id := fmt.Sprintf("%dx%d|%x|%s", c.W, c.H, c.Pix, c.Opts)
			if seen[id] {
				continue
			}
			seen[id] = true
			all, _, d := c.reproduces(2)
			if !all {
				rep.Count("nonreproducible")
				continue
			}
			rep.Add(Finding{Kind: "property", Property: "C19", Signature: s,
				Detail: fmt.Sprintf("%dx%d picture, options %s: %s%s (%d occurrences in this run)", c.W, c.H, c.Opts, d, impPixDesc(&c), total[s]),
				Input:  c.input()})
		}
	}
	return nil
}
