package main

import (
	"bytes"
	"fmt"
	"image"
	"image/color"
	"io"
	"runtime"
	"strings"

	webp "github.com/deepteams/webp"
	"github.com/deepteams/webp/animation"
	"github.com/deepteams/webp/mux"
)

func init() {
	suites["roundtrip"] = suiteRoundtrip
	suites["c16"] = suiteC16
	suites["c17"] = suiteC17
	replayers["c17"] = replayC17
}

// replayC17 re-runs the three entry points (both reader flavours) on one prefix of the file of a finding.
func replayC17(in map[string]any) int {
	hs, _ := in["hex"].(string)
	data := unhx(hs)
	n := len(data)
	if v, ok := in["prefix"].(float64); ok && int(v) >= 0 && int(v) <= len(data) {
		n = int(v)
	}
	line := func(rd func([]byte) io.Reader, b []byte) string {
		d, pm := guard(func() string {
			im, err := webp.Decode(rd(b))
			if err != nil {
				return "err"
			}
			return digest(toNRGBA(im).Pix) + imgModelName(im) + im.Bounds().String()
		})
		c, pm2 := guard(func() string {
			cf, err := webp.DecodeConfig(rd(b))
			if err != nil {
				return "err"
			}
			return fmt.Sprintf("ok cm=%s w=%d h=%d", cmName(cf.ColorModel), cf.Width, cf.Height)
		})
		f, pm3 := guard(func() string {
			s := goFeatures(b)
			if strings.HasPrefix(s, "err") {
				return "err"
			}
			return s
		})
		return fmt.Sprintf("decode=%s%s | config=%s%s | features=%s%s", d, pm, c, pm2, f, pm3)
	}
	plain := func(b []byte) io.Reader { return bytes.NewReader(b) }
	stream := func(b []byte) io.Reader { return streamOnly{bytes.NewReader(b)} }
	full := line(plain, data)
	fmt.Printf("full file (%d bytes):      %s\n", len(data), full)
	rc := 0
	for _, fl := range []struct {
		name string
		rd   func([]byte) io.Reader
	}{{"bytes.Reader", plain}, {"reader without Len", stream}} {
		got := line(fl.rd, data[:n:n])
		fmt.Printf("prefix %d, %s: %s\n", n, fl.name, got)
		gp, fp := strings.Split(got, " | "), strings.Split(full, " | ")
		for k := range gp {
			v := strings.SplitN(gp[k], "=", 2)[1]
			if strings.HasPrefix(v, "panic") || (v != "err" && gp[k] != fp[k]) {
				rc = 1
			}
		}
	}
	return rc
}

// genericImage hides the concrete type so that only At()/Bounds()/ColorModel() are available.
type genericImage struct{ im image.Image }

func (g genericImage) ColorModel() color.Model { return g.im.ColorModel() }
func (g genericImage) Bounds() image.Rectangle { return g.im.Bounds() }
func (g genericImage) At(x, y int) color.Color { return g.im.At(x, y) }

// asType converts the NRGBA picture to another Go image type; ok=false when not representable.
func asType(r *RNG, src *image.NRGBA, kind int) (image.Image, string) {
	img, name := asTypeAt(r, src, kind, image.Point{})
	if kind >= 1 && kind <= 7 && kind != 5 && kind != 6 && r.Chance(1, 2) {
		// same picture with a non-zero origin (translated bounds)
		off := image.Pt(1+r.Intn(9), 1+r.Intn(9))
		if r.Chance(1, 4) {
			off = image.Pt(-1-r.Intn(5), 2)
		}
		img, name = asTypeAt(r, src, kind, off)
		name += "+origin"
	}
	if kind == 5 && r.Chance(1, 2) {
		inner, n2 := asTypeAt(r, src, 2+r.Intn(3), image.Pt(3, 7))
		return genericImage{inner}, "generic(" + n2 + "+origin)"
	}
	return img, name
}

// setAll copies src into dst (translated by off) through the generic Set.
func setAll(dst interface {
	Set(x, y int, c color.Color)
}, src *image.NRGBA, off image.Point) {
	b := src.Bounds()
	for y := b.Min.Y; y < b.Max.Y; y++ {
		for x := b.Min.X; x < b.Max.X; x++ {
			dst.Set(x+off.X, y+off.Y, src.NRGBAAt(x, y))
		}
	}
}

func asTypeAt(r *RNG, src *image.NRGBA, kind int, off image.Point) (image.Image, string) {
	b := src.Bounds()
	if off != (image.Point{}) {
		ob := b.Add(off)
		switch kind {
		case 1:
			d := image.NewRGBA(ob)
			setAll(d, src, off)
			return d, "RGBA"
		case 2:
			d := image.NewGray(ob)
			setAll(d, src, off)
			return d, "Gray"
		case 3:
			im, _ := asTypeAt(r, src, 3, image.Point{})
			p := im.(*image.Paletted)
			d := image.NewPaletted(ob, p.Palette)
			setAll(d, src, off)
			return d, "Paletted"
		case 4:
			d := image.NewNRGBA64(ob)
			setAll(d, src, off)
			return d, "NRGBA64"
		case 7:
			d := image.NewRGBA64(ob)
			setAll(d, src, off)
			return d, "RGBA64"
		}
	}
	switch kind {
	case 0:
		return src, "NRGBA"
	case 1:
		dst := image.NewRGBA(b)
		for y := b.Min.Y; y < b.Max.Y; y++ {
			for x := b.Min.X; x < b.Max.X; x++ {
				dst.Set(x, y, src.NRGBAAt(x, y))
			}
		}
		return dst, "RGBA"
	case 2:
		dst := image.NewGray(b)
		for y := b.Min.Y; y < b.Max.Y; y++ {
			for x := b.Min.X; x < b.Max.X; x++ {
				dst.Set(x, y, src.NRGBAAt(x, y))
			}
		}
		return dst, "Gray"
	case 3:
		pal := color.Palette{}
		seen := map[color.NRGBA]bool{}
		for y := b.Min.Y; y < b.Max.Y && len(pal) < 256; y++ {
			for x := b.Min.X; x < b.Max.X && len(pal) < 256; x++ {
				c := src.NRGBAAt(x, y)
				if !seen[c] {
					seen[c] = true
					pal = append(pal, c)
				}
			}
		}
		dst := image.NewPaletted(b, pal)
		for y := b.Min.Y; y < b.Max.Y; y++ {
			for x := b.Min.X; x < b.Max.X; x++ {
				dst.Set(x, y, src.NRGBAAt(x, y))
			}
		}
		return dst, "Paletted"
	case 4:
		dst := image.NewNRGBA64(b)
		for y := b.Min.Y; y < b.Max.Y; y++ {
			for x := b.Min.X; x < b.Max.X; x++ {
				dst.Set(x, y, src.NRGBAAt(x, y))
			}
		}
		return dst, "NRGBA64"
	case 5:
		return genericImage{src}, "generic"
	case 6:
		// sub-image with non-zero origin and larger stride
		parent := image.NewNRGBA(image.Rect(0, 0, b.Dx()+5, b.Dy()+3))
		for i := range parent.Pix {
			parent.Pix[i] = byte(r.Next())
		}
		sub := parent.SubImage(image.Rect(3, 2, 3+b.Dx(), 2+b.Dy())).(*image.NRGBA)
		for y := 0; y < b.Dy(); y++ {
			for x := 0; x < b.Dx(); x++ {
				sub.SetNRGBA(3+x, 2+y, src.NRGBAAt(b.Min.X+x, b.Min.Y+y))
			}
		}
		return sub, "subimage"
	case 7:
		dst := image.NewRGBA64(b)
		for y := b.Min.Y; y < b.Max.Y; y++ {
			for x := b.Min.X; x < b.Max.X; x++ {
				dst.Set(x, y, src.NRGBAAt(x, y))
			}
		}
		return dst, "RGBA64"
	}
	return src, "NRGBA"
}

const numImgTypes = 8

// expectedNRGBA is the picture "read as non-premultiplied 8-bit RGBA".
func expectedNRGBA(img image.Image) *image.NRGBA {
	b := img.Bounds()
	dst := image.NewNRGBA(image.Rect(0, 0, b.Dx(), b.Dy()))
	for y := 0; y < b.Dy(); y++ {
		for x := 0; x < b.Dx(); x++ {
			dst.SetNRGBA(x, y, color.NRGBAModel.Convert(img.At(b.Min.X+x, b.Min.Y+y)).(color.NRGBA))
		}
	}
	return dst
}

// suiteRoundtrip: C01 end to end — webp.Encode(Lossless) then webp.Decode reproduces every pixel.
func suiteRoundtrip(rep *Report) error {
	rep.Rule = "image class x alpha class x size (1x1, 1xN, Nx1, around 2^k +-1, ragged; every 97th case >= 100000 pixels with prime/odd height - 256x401, 317x331, 400x251, 1000x101, 101x1000, 7x14293 ... - decoded under the ambient GOMAXPROCS and under two of {2,3,5,7} (thorough: all four); plus a leg of sizes just below/on/above the numeric thresholds of the code - thresholds.go - with flat/gradient/sparse content) x Go image type {NRGBA,RGBA,Gray,Paletted,NRGBA64,generic,subimage,RGBA64} x Quality {0,10,24,25,49,50,74,75,89,90,100} x Method 0..6 x Exact x metadata, plus a sweep of one non-opaque pixel at raster index 0 / 1 / each of the last 8 positions (sizes with pixel count mod 4 = 0..3) and two-colour pictures with controlled runs of unused symbols (2/3, 10/11, 138/139/140, 130..145) in the code-length vector; decoded pixels compared with NRGBAModel.Convert(src.At) (alpha-0 pixels may be transparent black unless Exact); non-trivial = image has >= 2 distinct pixels; distinct = hash of (pixels, options)"
	n := 700
	if rep.Tier == "thorough" {
		n = 20000
	}
	quals := []float32{0, 10, 24, 25, 49, 50, 74, 75, 89, 90, 100}
	sizes := [][2]int{{1, 1}, {1, 17}, {23, 1}, {2, 2}, {3, 5}, {7, 8}, {8, 8}, {9, 7}, {15, 16}, {16, 17}, {17, 33}, {31, 32}, {33, 17}, {64, 48}, {65, 3}, {96, 96}}
	// two deterministic legs after the n random cases (see suiteConform): one non-opaque pixel at raster
	// index 0 / 1 / each of the last 8 positions over sizes with pixel count mod 4 = 0..3, and two-colour
	// pictures with controlled runs of unused symbols in the code-length vector
	sparsePos := []int{0, 1, -1, -2, -3, -4, -5, -6, -7, -8}
	nSparse := len(SparseAlphaSizes) * len(sparsePos)
	nZero := 90
	if rep.Tier == "thorough" {
		nZero = 3000
	}
	// pictures above the decoder's 100000-pixel parallel threshold (inverse transforms and the
	// ARGB->NRGBA conversion are then split by rows over GOMAXPROCS workers): prime / odd heights, so
	// that height % workers != 0 for every worker count, next to the old 320x320
	bigSizes := [][2]int{{256, 401}, {317, 331}, {400, 251}, {320, 320}, {1000, 101}, {101, 1000}, {333, 307}, {7, 14293}}
	// threshold leg: sizes just below / on / just above the numeric thresholds of the code (thresholds.go),
	// cheap content
	nThrDraw := 14
	if rep.Tier == "thorough" {
		nThrDraw = 1 << 20 // all
	}
	thr := DrawThresholdCases(rep.Seed, 0x01, nThrDraw, ThresholdFilter{MaxPixels: 140000, MinValue: 200})
	nThr := len(thr)
	defer runtime.GOMAXPROCS(runtime.GOMAXPROCS(0))
	ambient := runtime.GOMAXPROCS(0)
	nBigSeen := 0
	for i := 0; i < n+nSparse+nZero+nThr; i++ {
		r := NewRNG(rep.Seed, uint64(i))
		sz := sizes[r.Intn(len(sizes))]
		if i%97 == 0 && i < n {
			sz = bigSizes[(nBigSeen+int(rep.Seed))%len(bigSizes)]
			nBigSeen++
			if rep.Tier == "thorough" && i%970 == 0 {
				sz = [2]int{1 + r.Intn(2100), 1 + r.Intn(40)}
			}
		}
		cls, acls := r.Intn(NumImgClasses), r.Intn(NumAlphaClasses)
		var base *image.NRGBA
		idesc := ""
		switch {
		case i >= n+nSparse+nZero:
			tc := thr[i-(n+nSparse+nZero)]
			sz = [2]int{tc.W, tc.H}
			kind := r.Intn(NumCheapClasses)
			acls = []int{AlphaNone, AlphaNone, AlphaGradient, AlphaSparse, AlphaBinary}[r.Intn(5)]
			cls = ClsFlat
			base = GenCheapImage(r, tc.W, tc.H, kind, acls)
			idesc = cheapDesc(tc.W, tc.H, kind, acls) + " " + tc.String()
			CountThreshold(rep, tc)
		case i < n:
			base = GenImage(r, sz[0], sz[1], cls, acls)
			idesc = imgDesc(sz[0], sz[1], cls, acls)
		case i < n+nSparse:
			k := i - n
			sz = SparseAlphaSizes[k/len(sparsePos)]
			pos := sparsePos[k%len(sparsePos)]
			var ok bool
			base, ok = GenImageSparseAt(r, sz[0], sz[1], cls, []int{pos}, []byte{0, 100, 254, 1}[k%4])
			if !ok {
				continue
			}
			acls = AlphaSparse
			idesc = fmt.Sprintf("%dx%d/%s/sparse@%d", sz[0], sz[1], imgClassNames[cls], pos)
		default:
			var what string
			base, sz[0], sz[1], what = GenZeroRunImage(r, r.Chance(1, 3))
			cls, acls = ClsPal2, AlphaNone
			if anyNonOpaque(base) {
				acls = AlphaBinary
			}
			idesc = fmt.Sprintf("%dx%d/%s", sz[0], sz[1], what)
		}
		kind := r.Intn(numImgTypes)
		if i >= n+nSparse && kind == 2 {
			kind = 0 // (Gray would merge the two colours' meaning; keep the bit pattern)
		}
		if sz[0]*sz[1] > 50000 {
			kind = []int{0, 0, 5, 6}[r.Intn(4)]
		}
		img, tname := asType(r, base, kind)
		o := &webp.EncoderOptions{Lossless: true, Quality: quals[r.Intn(len(quals))], Method: r.Intn(7), Exact: r.Bool()}
		if r.Chance(1, 5) {
			o.ICC, o.EXIF = []byte("icc"), []byte("exif-data")
		}
		if r.Chance(1, 8) {
			// lossy-only options must not matter
			o.SNSStrength, o.Segments, o.AlphaQuality = r.Intn(101), 1+r.Intn(4), r.Intn(101)
		}
		desc := fmt.Sprintf("%s type=%s q=%v m=%d exact=%v meta=%v", idesc, tname, o.Quality, o.Method, o.Exact, o.ICC != nil)
		want := expectedNRGBA(img)
		file, err := encodeBytes(img, o)
		if err != nil {
			rep.Add(Finding{Kind: "property", Property: "C01", Signature: "roundtrip:encode-error", Detail: desc + ": " + err.Error(),
				Input: map[string]any{"op": "roundtrip", "case": i, "seed": rep.Seed, "desc": desc}})
			continue
		}
		dec, err := webp.Decode(bytes.NewReader(file))
		if err != nil {
			rep.Add(Finding{Kind: "property", Property: "C01", Signature: "roundtrip:decode-error", Detail: desc + ": " + err.Error(),
				Input: map[string]any{"op": "roundtrip", "case": i, "seed": rep.Seed, "desc": desc, "hex": hx(file)}})
			continue
		}
		got, ok := dec.(*image.NRGBA)
		if !ok {
			got = toNRGBA(dec)
		}
		same, why := nrgbaEqual(want, got, !o.Exact)
		if !same {
			rep.Add(Finding{Kind: "property", Property: "C01", Signature: "roundtrip:pixels:" + tname + fmt.Sprintf(":exact=%v", o.Exact),
				Detail: desc + ": " + why, Input: map[string]any{"op": "roundtrip", "case": i, "seed": rep.Seed, "desc": desc, "hex": short(hx(file), 4000)}})
		}
		if sz[0]*sz[1] >= 90000 {
			// the same file decoded with other worker counts (the decoder splits rows over GOMAXPROCS
			// workers above 100000 pixels): every one must reproduce the source
			procs := []int{2, 3, 5, 7}
			if rep.Tier != "thorough" {
				procs = []int{procs[(i+int(rep.Seed))%4], procs[(i+int(rep.Seed)+1)%4]}
			}
			for _, p := range procs {
				runtime.GOMAXPROCS(p)
				d2, err2 := webp.Decode(bytes.NewReader(file))
				runtime.GOMAXPROCS(ambient)
				rep.Count(fmt.Sprintf("big-decode:GOMAXPROCS=%d", p))
				if err2 != nil {
					rep.Add(Finding{Kind: "property", Property: "C01", Signature: "roundtrip:decode-error", Detail: fmt.Sprintf("%s (GOMAXPROCS=%d): %v", desc, p, err2),
						Input: map[string]any{"op": "roundtrip", "case": i, "seed": rep.Seed, "desc": desc, "procs": p, "hex": short(hx(file), 4000)}})
					continue
				}
				if same2, why2 := nrgbaEqual(want, toNRGBA(d2), !o.Exact); !same2 {
					rep.Add(Finding{Kind: "property", Property: "C01", Signature: "roundtrip:pixels:" + tname + fmt.Sprintf(":exact=%v", o.Exact),
						Detail: fmt.Sprintf("%s (decoded with GOMAXPROCS=%d): %s", desc, p, why2), Input: map[string]any{"op": "roundtrip", "case": i, "seed": rep.Seed, "desc": desc, "procs": p, "hex": short(hx(file), 4000)}})
				}
			}
			rep.Count(fmt.Sprintf("big:%dx%d", sz[0], sz[1]))
		}
		if ft, ferr := webp.GetFeatures(bytes.NewReader(file)); ferr == nil && anyNonOpaque(got) && !ft.HasAlpha {
			rep.Add(Finding{Kind: "property", Property: "C16", Signature: "features:alpha-flag-missing", Detail: desc + ": decoded image has a non-opaque pixel but GetFeatures.HasAlpha is false",
				Input: map[string]any{"op": "roundtrip", "case": i, "seed": rep.Seed, "desc": desc, "hex": short(hx(file), 4000)}})
		}
		if i%5 == 0 {
			// registered-format path
			im2, name, err := image.Decode(bytes.NewReader(file))
			if err != nil || name != "webp" || im2.Bounds() != got.Bounds() {
				rep.Add(Finding{Kind: "property", Property: "C16", Signature: "dispatch:image.Decode", Detail: fmt.Sprintf("%s: image.Decode name=%q err=%v", desc, name, err),
					Input: map[string]any{"op": "roundtrip", "case": i, "seed": rep.Seed, "hex": short(hx(file), 4000)}})
			}
		}
		nontrivial := !isFlat(want)
		rep.Eval(nontrivial, append([]byte(desc), want.Pix...))
		rep.Count("type:" + tname)
		rep.Count(fmt.Sprintf("method:%d", o.Method))
		rep.Count("class:" + imgClassNames[cls] + "/" + alphaClassNames[acls])
		if i < 3 {
			rep.Sample(map[string]any{"case": desc, "bytes": len(file)})
		}
	}
	return nil
}

func isFlat(img *image.NRGBA) bool {
	for i := 4; i < len(img.Pix); i++ {
		if img.Pix[i] != img.Pix[i%4] {
			return false
		}
	}
	return true
}

// anyNonOpaque reports whether a decoded image has a pixel with alpha < 255.
func anyNonOpaque(img image.Image) bool {
	switch im := img.(type) {
	case *image.YCbCr:
		return false
	case *image.NRGBA:
		for i := 3; i < len(im.Pix); i += 4 {
			if im.Pix[i] != 255 {
				return true
			}
		}
		return false
	}
	b := img.Bounds()
	for y := b.Min.Y; y < b.Max.Y; y++ {
		for x := b.Min.X; x < b.Max.X; x++ {
			if _, _, _, a := img.At(x, y).RGBA(); a != 0xffff {
				return true
			}
		}
	}
	return false
}

// suiteC16: header queries agree with a full decode; container views agree with one another.
func suiteC16(rep *Report) error {
	rep.Rule = "inputs: encoder / muxer / animation-encoder outputs (seed corpus, plus fresh encodes: threshold-crossing files - widths 1023..4097 x heights 1..4 as lossy, lossy+alpha, lossless, animation, and pictures on the numeric thresholds of thresholds.go -, one non-opaque pixel at raster index 0 / 1 / each of the last 8 positions over sizes with pixel count mod 4 = 0..3, lossless with/without metadata and lossy, and random pictures over all alpha classes), hand-assembled well-formed containers (VP8X with/without ALPH incl. zero-length, odd/empty/unknown chunks, metadata before/after, flags over/under-stating), and mutations that Decode still accepts; for each accepted still: DecodeConfig, GetFeatures, image.DecodeConfig vs the decoded image (size, colour model, format name, alpha flag for package-written files); for well-formed files: GetFeatures / DecodeConfig / Demuxer / animation.DecodeBytes agree on canvas, animation flag, frame count, loop count; non-trivial = Decode accepted or the file is animated"
	inputs, seeds := containerInputs(rep.Seed, rep.Tier)
	_ = seeds
	// freshly encoded files (package-written, so the alpha flag must cover every non-opaque decoded
	// pixel): one non-opaque pixel at raster index 0 / 1 / each of the last 8 positions over sizes with
	// pixel count mod 4 = 0..3, lossless (with and without metadata) and lossy; and random pictures
	// over all alpha classes
	{
		var fresh []cInput
		k := 0
		enc := func(img image.Image, lossless bool, meta bool, r *RNG) {
			o := webp.DefaultOptions()
			o.Lossless = lossless
			o.Method = r.Intn(7)
			o.Quality = float32([]int{20, 75, 100}[r.Intn(3)])
			o.Exact = r.Bool()
			if meta {
				o.EXIF = []byte("Exif\x00\x00c16")
			}
			if b, err := encodeBytes(img, o); err == nil {
				fresh = append(fresh, cInput{b, "enc-fresh"})
			}
		}
		for _, sz := range SparseAlphaSizes {
			for _, pos := range []int{0, 1, -1, -2, -3, -4, -5, -6, -7, -8} {
				k++
				r := NewRNG(rep.Seed, 0x1600000+uint64(k))
				img, ok := GenImageSparseAt(r, sz[0], sz[1], r.Intn(NumImgClasses), []int{pos}, []byte{100, 0, 254, 1}[k%4])
				if !ok {
					continue
				}
				enc(img, true, k%2 == 0, r)
				if k%3 == 0 {
					enc(img, false, k%2 == 1, r)
				}
			}
		}
		nr := 60
		if rep.Tier == "thorough" {
			nr = 1500
		}
		for i := 0; i < nr; i++ {
			r := NewRNG(rep.Seed, 0x1610000+uint64(i))
			sz := SparseAlphaSizes[r.Intn(len(SparseAlphaSizes))]
			if r.Bool() {
				sz = [2]int{1 + r.Intn(24), 1 + r.Intn(24)}
			}
			enc(GenImage(r, sz[0], sz[1], r.Intn(NumImgClasses), r.Intn(NumAlphaClasses)), r.Chance(2, 3), r.Chance(1, 3), r)
		}
		// threshold-crossing files written by the package: the wide family (widths 1023..4097 x heights 1..4 as
		// lossy, lossy+alpha, lossless, animation) and a few pictures on the other numeric thresholds
		every := 4
		nThr := 8
		if rep.Tier == "thorough" {
			every, nThr = 1, 80
		}
		for _, s := range WideSeeds(rep.Seed, every) {
			fresh = append(fresh, cInput{s.Data, "enc-fresh"})
			rep.Count("fresh:wide")
		}
		for k, tc := range DrawThresholdCases(rep.Seed, 0x16, nThr, ThresholdFilter{MaxPixels: 120000, MinValue: 200}) {
			r := NewRNG(rep.Seed, 0x1620000+uint64(k))
			enc(GenCheapImage(r, tc.W, tc.H, r.Intn(NumCheapClasses), []int{AlphaNone, AlphaGradient, AlphaSparse, AlphaBinary}[r.Intn(4)]), r.Bool(), r.Chance(1, 3), r)
			CountThreshold(rep, tc)
		}
		inputs = append(fresh, inputs...)
	}
	accepted := 0
	for idx, in := range inputs {
		if strings.HasPrefix(in.kind, "sweep") && idx%7 != 0 {
			continue
		}
		data := in.data
		var img image.Image
		var derr error
		func() {
			defer func() {
				if e := recover(); e != nil {
					derr = fmt.Errorf("panic: %v", e)
				}
			}()
			img, derr = webp.Decode(bytes.NewReader(data))
		}()
		wellFormed := in.kind == "seed" || in.kind == "enc-fresh"
		pkgWritten := in.kind == "seed" || in.kind == "enc-fresh"
		if derr == nil && img != nil && !isAnimatedFile(data) {
			accepted++
			cfg, cerr := webp.DecodeConfig(bytes.NewReader(data))
			ft, ferr := webp.GetFeatures(bytes.NewReader(data))
			add := func(sig, detail string) {
				rep.Add(Finding{Kind: "property", Property: "C16", Signature: sig, Detail: fmt.Sprintf("%s (%s, %d bytes)", detail, in.kind, len(data)),
					Input: map[string]any{"op": "c16", "hex": hx(data)}})
			}
			if cerr != nil {
				add("config:fails-where-decode-succeeds", "DecodeConfig error "+cerr.Error())
			} else {
				if cfg.Width != img.Bounds().Dx() || cfg.Height != img.Bounds().Dy() {
					add("config:size", fmt.Sprintf("DecodeConfig %dx%d, decoded %v", cfg.Width, cfg.Height, img.Bounds()))
				}
				if cfg.ColorModel != img.ColorModel() {
					add("config:colour-model", fmt.Sprintf("DecodeConfig %s, decoded %s", cmName(cfg.ColorModel), imgModelName(img)))
				}
			}
			if ferr != nil {
				add("features:fails-where-decode-succeeds", "GetFeatures error "+ferr.Error())
			} else {
				if ft.Width != img.Bounds().Dx() || ft.Height != img.Bounds().Dy() {
					add("features:size", fmt.Sprintf("GetFeatures %dx%d, decoded %v", ft.Width, ft.Height, img.Bounds()))
				}
				want := map[string]string{"VP8 ": "lossy", "VP8L": "lossless", "VP8X": "extended"}[string(data[12:16])]
				if ft.Format != want {
					add("features:format-name", fmt.Sprintf("format %q for first chunk %q", ft.Format, string(data[12:16])))
				}
				if pkgWritten && anyNonOpaque(img) && !ft.HasAlpha {
					add("features:alpha-flag-missing", "decoded image has a non-opaque pixel but HasAlpha is false")
				}
			}
			if c2, name, err := image.DecodeConfig(bytes.NewReader(data)); err != nil || name != "webp" || (cerr == nil && (c2.Width != cfg.Width || c2.Height != cfg.Height)) {
				add("dispatch:image.DecodeConfig", fmt.Sprintf("name=%q err=%v", name, err))
			}
			rep.Count("accepted:" + strings.SplitN(in.kind, ":", 2)[0])
		}
		// container views on well-formed files (seeds; layouts are checked where both parsers accept and the file is self-consistent)
		if wellFormed {
			viewsAgree(rep, data, in.kind)
		}
		rep.Eval(derr == nil, data)
	}
	rep.Extra["decode_accepted"] = accepted
	// hand-assembled well-formed layouts: build consistent ones explicitly
	r := NewRNG(rep.Seed, 4242)
	nl := 600
	if rep.Tier == "thorough" {
		nl = 20000
	}
	for _, in := range wellFormedLayouts(r, seeds, nl) {
		viewsAgree(rep, in.data, in.kind)
		img, err := webp.Decode(bytes.NewReader(in.data))
		if err == nil && !isAnimatedFile(in.data) {
			cfg, cerr := webp.DecodeConfig(bytes.NewReader(in.data))
			if cerr != nil || cfg.ColorModel != img.ColorModel() || cfg.Width != img.Bounds().Dx() || cfg.Height != img.Bounds().Dy() {
				rep.Add(Finding{Kind: "property", Property: "C16", Signature: "config:layout-mismatch",
					Detail: fmt.Sprintf("hand-assembled layout: DecodeConfig (%v %s %dx%d) vs decoded (%s %v)", cerr, cmName(cfg.ColorModel), cfg.Width, cfg.Height, imgModelName(img), img.Bounds()),
					Input:  map[string]any{"op": "c16", "hex": hx(in.data)}})
			}
		}
		rep.Eval(true, in.data)
		rep.Count("layout:" + in.kind)
	}
	return nil
}

// viewsAgree compares GetFeatures, DecodeConfig, Demuxer and animation.DecodeBytes on one file.
func viewsAgree(rep *Report, data []byte, kind string) {
	ft, ferr := webp.GetFeatures(bytes.NewReader(data))
	d, derr := mux.NewDemuxer(data)
	a, aerr := animation.DecodeBytes(data)
	add := func(sig, detail string) {
		rep.Add(Finding{Kind: "property", Property: "C16", Signature: "views:" + sig, Detail: fmt.Sprintf("%s (%s)", detail, kind),
			Input: map[string]any{"op": "c16", "hex": hx(data)}})
	}
	if (ferr == nil) != (derr == nil) || (derr == nil) != (aerr == nil) {
		add("accept-disagree", fmt.Sprintf("GetFeatures err=%v, NewDemuxer err=%v, animation.DecodeBytes err=%v", ferr, derr, aerr))
		return
	}
	if ferr != nil {
		return
	}
	p := goParserCanvas(data)
	df := d.GetFeatures()
	if p.cw != df.Width || p.ch != df.Height || a.CanvasWidth != df.Width || a.CanvasHeight != df.Height {
		add("canvas", fmt.Sprintf("parser canvas %dx%d, demuxer %dx%d, animation %dx%d", p.cw, p.ch, df.Width, df.Height, a.CanvasWidth, a.CanvasHeight))
	}
	if ft.HasAnimation != df.HasAnimation {
		add("animation-flag", fmt.Sprintf("GetFeatures %v, demuxer %v", ft.HasAnimation, df.HasAnimation))
	}
	if ft.FrameCount != d.NumFrames() || len(a.Frames) != d.NumFrames() {
		add("frame-count", fmt.Sprintf("GetFeatures %d, demuxer %d, animation %d", ft.FrameCount, d.NumFrames(), len(a.Frames)))
	}
	if ft.LoopCount != d.LoopCount() || a.LoopCount != d.LoopCount() {
		add("loop-count", fmt.Sprintf("GetFeatures %d, demuxer %d, animation %d", ft.LoopCount, d.LoopCount(), a.LoopCount))
	}
	if !ft.HasAnimation {
		cfg, cerr := webp.DecodeConfig(bytes.NewReader(data))
		if cerr != nil || cfg.Width != ft.Width || cfg.Height != ft.Height {
			add("config-vs-features", fmt.Sprintf("DecodeConfig %dx%d err=%v, GetFeatures %dx%d", cfg.Width, cfg.Height, cerr, ft.Width, ft.Height))
		}
	}
}

type canvasWH struct{ cw, ch int }

func goParserCanvas(data []byte) canvasWH {
	s := goParser(data)
	var c canvasWH
	for _, f := range strings.Fields(s) {
		if strings.HasPrefix(f, "cw=") {
			fmt.Sscanf(f, "cw=%d", &c.cw)
		}
		if strings.HasPrefix(f, "ch=") {
			fmt.Sscanf(f, "ch=%d", &c.ch)
		}
	}
	return c
}

// wellFormedLayouts assembles self-consistent containers (still canvas = image size, frames inside canvas,
// ANIM before ANMF, exact RIFF size) that vary everything C16 lists as allowed.
func wellFormedLayouts(r *RNG, seeds []Seed, n int) []cInput {
	var vp8, vp8l, alph [][]byte
	for _, s := range seeds {
		if !s.Still || len(s.Data) < 30 {
			continue
		}
		for _, c := range scanChunks(s.Data) {
			end := c.off + 8 + c.size
			if end > len(s.Data) {
				continue
			}
			pl := s.Data[c.off+8 : end]
			switch string(s.Data[c.off : c.off+4]) {
			case "VP8 ":
				vp8 = append(vp8, pl)
			case "VP8L":
				vp8l = append(vp8l, pl)
			case "ALPH":
				alph = append(alph, pl)
			}
		}
	}
	dims := func(pl []byte, lossless bool) (int, int) {
		if lossless {
			bits := uint32(pl[1]) | uint32(pl[2])<<8 | uint32(pl[3])<<16 | uint32(pl[4])<<24
			return int(bits&0x3fff) + 1, int((bits>>14)&0x3fff) + 1
		}
		return (int(pl[6]) | int(pl[7])<<8) & 0x3fff, (int(pl[8]) | int(pl[9])<<8) & 0x3fff
	}
	var out []cInput
	for i := 0; i < n; i++ {
		lossless := r.Bool()
		var img []byte
		if lossless {
			img = vp8l[r.Intn(len(vp8l))]
		} else {
			img = vp8[r.Intn(len(vp8))]
		}
		w, h := dims(img, lossless)
		anim := r.Chance(1, 3)
		flags := byte(0)
		kind := "still"
		var a []byte
		withAlph := !lossless && r.Chance(1, 2)
		if withAlph {
			if r.Chance(1, 4) {
				a = []byte{}
				kind += "+alph0"
			} else {
				// an ALPH payload of matching dimensions is needed for Decode; raw alpha of w*h bytes
				a = append([]byte{0}, bytes.Repeat([]byte{byte(r.Next())}, w*h)...)
				kind += "+alph"
			}
			flags |= 0x10
		}
		icc, exif, xmp := r.Chance(1, 3), r.Chance(1, 3), r.Chance(1, 3)
		if icc {
			flags |= 0x20
		}
		if exif {
			flags |= 0x08
		}
		if xmp {
			flags |= 0x04
		}
		if r.Chance(1, 4) { // flags over/under-stating optional chunks
			flags ^= []byte{0x10, 0x20, 0x08, 0x04}[r.Intn(4)]
			kind += "+flagskew"
		}
		var body []byte
		cw, ch := w, h
		nf := 1
		offs := [][2]int{}
		if anim {
			kind = "anim"
			flags |= 0x02
			nf = 1 + r.Intn(3)
			for k := 0; k < nf; k++ {
				ox, oy := 2*r.Intn(3), 2*r.Intn(3)
				offs = append(offs, [2]int{ox, oy})
				if ox+w > cw {
					cw = ox + w
				}
				if oy+h > ch {
					ch = oy + h
				}
			}
		}
		body = append(body, chunk("VP8X", vp8xPayload(flags, cw, ch))...)
		if icc {
			body = append(body, chunk("ICCP", r.Bytes(r.Intn(7)))...)
		}
		if r.Chance(1, 4) {
			body = append(body, chunk("UNKN", r.Bytes(r.Intn(6)))...)
			kind += "+unknown"
		}
		imgChunks := func() []byte {
			var b []byte
			if withAlph {
				b = append(b, chunk("ALPH", a)...)
			}
			if lossless {
				b = append(b, chunk("VP8L", img)...)
			} else {
				b = append(b, chunk("VP8 ", img)...)
			}
			return b
		}
		metaBefore := r.Bool()
		if exif && metaBefore {
			body = append(body, chunk("EXIF", r.Bytes(1+r.Intn(7)))...)
		}
		if anim {
			body = append(body, chunk("ANIM", []byte{byte(r.Next()), byte(r.Next()), byte(r.Next()), byte(r.Next()), byte(r.Intn(5)), byte(r.Intn(2))})...)
			for k := 0; k < nf; k++ {
				p := append([]byte{}, le24(offs[k][0]/2)...)
				p = append(p, le24(offs[k][1]/2)...)
				p = append(p, le24(w-1)...)
				p = append(p, le24(h-1)...)
				p = append(p, le24(r.Intn(500))...)
				p = append(p, byte(r.Intn(4)))
				p = append(p, imgChunks()...)
				body = append(body, chunk("ANMF", p)...)
			}
		} else {
			body = append(body, imgChunks()...)
		}
		if exif && !metaBefore {
			body = append(body, chunk("EXIF", r.Bytes(1+r.Intn(7)))...)
		}
		if xmp {
			body = append(body, chunk("XMP ", r.Bytes(r.Intn(8)))...)
		}
		if r.Chance(1, 5) {
			body = append(body, chunk("UNKN", r.Bytes(r.Intn(5)))...)
		}
		out = append(out, cInput{riff(body), kind})
	}
	return out
}

// suiteC17: every proper prefix of every valid still either fails or gives the full file's result.
func suiteC17(rep *Report) error {
	rep.Rule = "valid still files (wide stills of widths 1023..4097 x heights 1..4 with small payloads, lossy with 1/2/4/8 partitions, lossless, lossy+alpha raw/compressed, extended with metadata before and after the image, odd payloads, testdata); for EVERY prefix length 0..len-1: Decode, DecodeConfig and GetFeatures - Decode and DecodeConfig both through a bytes.Reader and through a reader that offers only Read (no Len()) - must fail or equal the full-file result (exhaustive per file); a panic of any entry point is a finding (C05 and C17), not the end of the suite; the same prefixes go through the Lean container model (features/config ops) for correspondence; non-trivial = prefix length > 12"
	r := NewRNG(rep.Seed, 17)
	nfiles := 40
	maxLen := 3500
	if rep.Tier == "thorough" {
		nfiles = 600
		maxLen = 20000
	}
	var files []Seed
	for _, s := range BuildSeeds(rep.Seed, rep.Tier == "thorough") {
		if s.Still && !isAnimatedFile(s.Data) && len(s.Data) <= maxLen {
			files = append(files, s)
		}
	}
	// threshold-crossing stills with small payloads (wide rows: widths 1023..4097 x heights 1..4)
	{
		nWide := 5
		if rep.Tier == "thorough" {
			nWide = 60
		}
		for _, s := range WideSeeds(rep.Seed, 3) {
			if nWide > 0 && s.Still && len(s.Data) <= 1500 {
				files = append(files, s)
				rep.Count("file:wide")
				nWide--
			}
		}
	}
	for k := 0; len(files) < nfiles && k < nfiles*3; k++ {
		w, h := 1+r.Intn(40), 1+r.Intn(40)
		img := GenImage(r, w, h, r.Intn(NumImgClasses), r.Intn(NumAlphaClasses))
		o := webp.DefaultOptions()
		o.Lossless = r.Chance(1, 3)
		o.Method = r.Intn(7)
		o.Quality = float32(20 + r.Intn(80))
		o.Partitions = r.Intn(4)
		o.AlphaCompression = r.Intn(2)
		if r.Chance(1, 3) {
			o.EXIF = r.Bytes(1 + r.Intn(9))
		}
		if r.Chance(1, 4) {
			o.ICC = r.Bytes(1 + r.Intn(9))
		}
		if r.Chance(1, 4) {
			o.XMP = r.Bytes(r.Intn(9) + 1)
		}
		b, err := encodeBytes(img, o)
		if err != nil || len(b) > maxLen {
			continue
		}
		files = append(files, Seed{fmt.Sprintf("gen/%dx%d/lossless=%v/part=%d/meta=%v", w, h, o.Lossless, o.Partitions, o.EXIF != nil || o.ICC != nil || o.XMP != nil), b, true})
		if r.Chance(1, 3) {
			// metadata AFTER and BEFORE the image via the muxer
			icc, xmp := r.Bytes(1+r.Intn(5)), r.Bytes(1+r.Intn(5))
			if st, pm := guard(func() string {
				d, err := mux.NewDemuxer(b)
				if err != nil {
					return "err"
				}
				f, _ := d.Frame(0)
				m := mux.NewMuxer()
				data := f.Data
				if len(f.AlphaData) > 0 {
					data = alphPrefixed(f.AlphaData, f.Data)
				}
				_ = m.AddFrame(data, nil)
				m.SetICCProfile(icc)
				m.SetXMP(xmp)
				var mb bytes.Buffer
				if m.Assemble(&mb) == nil && mb.Len() <= maxLen {
					files = append(files, Seed{"mux-still", mb.Bytes(), true})
				}
				return "ok"
			}); st == "panic" {
				rep.Add(Finding{Kind: "property", Property: "C05", Signature: "panic:NewDemuxer:" + panicClass(pm), Detail: "demuxing / re-muxing an encoder output panicked: " + pm,
					Input: map[string]any{"op": "c17", "hex": hx(b), "prefix": len(b)}})
			}
		}
	}
	rep.Exhaustive = false
	var lines []string
	var goOut []string
	type ref struct {
		file int
		n    int
		op   string
	}
	var refs []ref
	// every call into /repo runs under guard(): a panic is a finding (C05 panic:<entry>:<class> and C17
	// prefix:<entry>:panics), not the end of the suite
	decodeLine := func(rd io.Reader) (string, string) {
		return guard(func() string {
			im, err := webp.Decode(rd)
			if err != nil {
				return "err"
			}
			return digest(toNRGBA(im).Pix) + imgModelName(im) + im.Bounds().String()
		})
	}
	for fi, f := range files {
		fullPix, fpm := decodeLine(bytes.NewReader(f.Data))
		if fullPix == "err" || fullPix == "panic" {
			rep.Add(Finding{Kind: "property", Property: "C17", Signature: "prefix:seed-not-decodable", Detail: f.Name + ": " + fullPix + " " + fpm,
				Input: map[string]any{"op": "c17", "hex": hx(f.Data)}})
			continue
		}
		fullCfg, _ := guard(func() string { return goConfig(f.Data) })
		fullFt, _ := guard(func() string { return goFeatures(f.Data) })
		if s, _ := decodeLine(streamOnly{bytes.NewReader(f.Data)}); s != fullPix {
			rep.Add(Finding{Kind: "property", Property: "C17", Signature: "prefix:decode:full-file-differs-stream-reader", Detail: f.Name + ": Decode through a reader without Len() gives " + short(s, 60) + " on the whole file",
				Input: map[string]any{"op": "c17", "hex": hx(f.Data), "prefix": len(f.Data)}})
		}
		for n := 0; n < len(f.Data); n++ {
			p := f.Data[:n:n]
			in := map[string]any{"op": "c17", "hex": hx(f.Data), "prefix": n}
			add := func(sig, detail string) {
				rep.Add(Finding{Kind: "property", Property: "C17", Signature: "prefix:" + sig,
					Detail: fmt.Sprintf("%s, prefix %d of %d bytes: %s", f.Name, n, len(f.Data), detail), Input: in})
			}
			panicked := func(entry, pm string) {
				rep.Add(Finding{Kind: "property", Property: "C05", Signature: "panic:" + entry + ":" + panicClass(pm), Detail: entry + " panicked on a prefix: " + pm, Input: in})
				add(strings.ToLower(strings.TrimPrefix(strings.TrimPrefix(entry, "Decode"), "Get"))+":panics", entry+" panicked: "+pm)
			}
			s, pm := decodeLine(bytes.NewReader(p))
			if s == "panic" {
				rep.Add(Finding{Kind: "property", Property: "C05", Signature: "panic:Decode:" + panicClass(pm), Detail: "Decode panicked on a prefix: " + pm, Input: in})
				add("decode:panics", "Decode panicked: "+pm)
			} else if s != "err" && s != fullPix {
				add("decode:differs", "Decode returned a different picture than the full file")
			}
			// the same prefix through a reader that offers nothing but Read (no Len(), no ReadFrom): the
			// package then collects the bytes in a buffer of its own, with spare capacity behind them
			s2, pm2 := decodeLine(streamOnly{bytes.NewReader(p)})
			if s2 == "panic" {
				rep.Add(Finding{Kind: "property", Property: "C05", Signature: "panic:Decode:" + panicClass(pm2), Detail: "Decode (stream reader) panicked on a prefix: " + pm2, Input: in})
				add("decode:panics", "Decode (reader without Len) panicked: "+pm2)
			} else if s2 != "err" && s2 != fullPix {
				add("decode:differs-stream-reader", "Decode through a reader without Len() returned a different picture than the full file")
			} else if (s == "err") != (s2 == "err") && s != "panic" {
				add("decode:reader-kinds-disagree", fmt.Sprintf("bytes.Reader: %s, reader without Len(): %s", short(s, 20), short(s2, 20)))
			}
			c, cpm := guard(func() string { return goConfig(p) })
			if c == "panic" {
				panicked("DecodeConfig", cpm)
			} else if !strings.HasPrefix(c, "err") && c != fullCfg {
				add("config:differs", fmt.Sprintf("DecodeConfig %q vs full %q", c, fullCfg))
			}
			if c2, cpm2 := guard(func() string {
				cf, err := webp.DecodeConfig(streamOnly{bytes.NewReader(p)})
				if err != nil {
					return "err " + containerErrName(err)
				}
				return fmt.Sprintf("ok cm=%s w=%d h=%d", cmName(cf.ColorModel), cf.Width, cf.Height)
			}); c2 == "panic" {
				panicked("DecodeConfig", cpm2)
			} else if !strings.HasPrefix(c2, "err") && c2 != fullCfg {
				add("config:differs-stream-reader", fmt.Sprintf("DecodeConfig (reader without Len) %q vs full %q", c2, fullCfg))
			}
			ft, fpm := guard(func() string { return goFeatures(p) })
			if ft == "panic" {
				panicked("GetFeatures", fpm)
			} else if !strings.HasPrefix(ft, "err") && ft != fullFt {
				add("features:differs", fmt.Sprintf("GetFeatures %q vs full %q", ft, fullFt))
			}
			rep.Eval(n > 12, append([]byte(fmt.Sprintf("%d:%d:", fi, n)), p...))
			if fi < 12 {
				h := hx(p)
				lines = append(lines, "features "+h, "config "+h)
				goOut = append(goOut, ft, c)
				refs = append(refs, ref{fi, n, "features"}, ref{fi, n, "config"})
			}
		}
		rep.Count("file:" + strings.SplitN(f.Name, "/", 2)[0])
		if fi < 4 {
			rep.Sample(map[string]any{"file": f.Name, "len": len(f.Data), "prefixes": len(f.Data)})
		}
	}
	rep.Extra["files"] = len(files)
	rep.Extra["exhaustive_per_file"] = true
	lean, err := RunDriver(lines)
	if err != nil {
		return err
	}
	for i := range lines {
		if lean[i] != goOut[i] {
			rf := refs[i]
			rep.Add(Finding{Kind: "correspondence", Property: "", Signature: "container-model:" + rf.op,
				Detail: fmt.Sprintf("prefix %d of %s: go=%q lean=%q", rf.n, files[rf.file].Name, short(goOut[i], 200), short(lean[i], 200)),
				Input:  map[string]any{"op": rf.op, "hex": hx(files[rf.file].Data[:rf.n])}})
		}
	}
	return nil
}

// streamOnly hides every method of a reader except Read (no Len, Size, ReadFrom, WriteTo, Seek ...).
type streamOnly struct{ r io.Reader }

func (s streamOnly) Read(p []byte) (int, error) { return s.r.Read(p) }

// isAnimatedFile: VP8X header with the animation flag set.
func isAnimatedFile(b []byte) bool {
	return len(b) >= 21 && string(b[12:16]) == "VP8X" && b[20]&2 != 0
}
