package main

import (
	"bytes"
	"fmt"
	"image"
	"image/color"
	"io"
	"runtime"
	"strings"
	"time"

	webp "github.com/deepteams/webp"
	"github.com/deepteams/webp/animation"
	"github.com/deepteams/webp/mux"
	"github.com/deepteams/webp/verifapi"
)

func init() {
	suites["roundtrip"] = suiteRoundtrip
	suites["c16"] = suiteC16
	suites["c17"] = suiteC17
	replayers["c17"] = replayC17
	replayers["c16"] = replayC16
	for _, op := range []string{"roundtrip-farmatch", "roundtrip-threshold", "roundtrip-colors"} {
		replayers[op] = replayRoundtripLeg
	}
}

// replayRoundtripLeg regenerates one case of the deterministic legs of suite roundtrip from (seed, tier, index).
func replayRoundtripLeg(in map[string]any) int {
	num := func(k string) int { v, _ := in[k].(float64); return int(v) }
	tier, _ := in["tier"].(string)
	rep := NewReport("roundtrip", tier, uint64(num("seed")))
	st, pm := guard(func() string {
		switch in["op"] {
		case "roundtrip-farmatch":
			e2eFarRun(rep, num("k"))
		case "roundtrip-threshold":
			e2eMegaRun(rep, num("k"))
		default:
			e2eColorRun(rep, num("j"), num("t"))
		}
		return "ok"
	})
	if st == "panic" {
		fmt.Println("replay: bad case index:", pm)
		return 2
	}
	for _, f := range rep.Findings {
		fmt.Printf("%s %s %s: %s\n", f.Kind, f.Property, f.Signature, f.Detail)
	}
	if len(rep.Findings) > 0 {
		return 1
	}
	fmt.Println("round trip ok:", in["desc"])
	return 0
}

// replayC16 prints the header views of one file next to what Decode returns and re-runs the C16 comparisons.
func replayC16(in map[string]any) int {
	hs, _ := in["hex"].(string)
	data := unhx(hs)
	rep := NewReport("c16", "replay", 0)
	img, derr := webp.Decode(bytes.NewReader(data))
	cfg, cerr := webp.DecodeConfig(bytes.NewReader(data))
	fmt.Printf("Decode: err=%v", derr)
	if derr == nil {
		fmt.Printf(" %s %v", imgModelName(img), img.Bounds())
	}
	fmt.Printf("\nDecodeConfig: err=%v %s %dx%d\nGetFeatures: %s\n", cerr, cmName(cfg.ColorModel), cfg.Width, cfg.Height, goFeatures(data))
	if derr == nil && !isAnimatedFile(data) {
		if cerr != nil || cfg.ColorModel != img.ColorModel() || cfg.Width != img.Bounds().Dx() || cfg.Height != img.Bounds().Dy() {
			rep.Add(Finding{Kind: "property", Property: "C16", Signature: "config:mismatch", Detail: "DecodeConfig does not describe the decoded image"})
		}
	}
	viewsAgree(rep, data, "replay")
	for _, f := range rep.Findings {
		fmt.Printf("%s %s %s: %s\n", f.Kind, f.Property, f.Signature, f.Detail)
	}
	if len(rep.Findings) > 0 {
		return 1
	}
	return 0
}

// replayC17 re-runs the three entry points (both reader flavours) on one prefix of the file of a finding.
func replayC17(in map[string]any) int {
	hs, _ := in["hex"].(string)
	data := unhx(hs)
	n := len(data)
	if v, ok := in["prefix"].(float64); ok && int(v) >= 0 && int(v) <= len(data) {
		n = int(v)
	}
	line := func(rd func([]byte) io.Reader, b []byte) string {
		d, pm := guard(func() string {
			im, err := webp.Decode(rd(b))
			if err != nil {
				return "err"
			}
			return digest(toNRGBA(im).Pix) + imgModelName(im) + im.Bounds().String()
		})
		c, pm2 := guard(func() string {
			cf, err := webp.DecodeConfig(rd(b))
			if err != nil {
				return "err"
			}
			return fmt.Sprintf("ok cm=%s w=%d h=%d", cmName(cf.ColorModel), cf.Width, cf.Height)
		})
		f, pm3 := guard(func() string {
			s := goFeatures(b)
			if strings.HasPrefix(s, "err") {
				return "err"
			}
			return s
		})
		return fmt.Sprintf("decode=%s%s | config=%s%s | features=%s%s", d, pm, c, pm2, f, pm3)
	}
	plain := func(b []byte) io.Reader { return bytes.NewReader(b) }
	stream := func(b []byte) io.Reader { return streamOnly{bytes.NewReader(b)} }
	full := line(plain, data)
	fmt.Printf("full file (%d bytes):      %s\n", len(data), full)
	rc := 0
	for _, fl := range []struct {
		name string
		rd   func([]byte) io.Reader
	}{{"bytes.Reader", plain}, {"reader without Len", stream}} {
		got := line(fl.rd, data[:n:n])
		fmt.Printf("prefix %d, %s: %s\n", n, fl.name, got)
		gp, fp := strings.Split(got, " | "), strings.Split(full, " | ")
		for k := range gp {
			v := strings.SplitN(gp[k], "=", 2)[1]
			if strings.HasPrefix(v, "panic") || (v != "err" && gp[k] != fp[k]) {
				rc = 1
			}
		}
	}
	return rc
}

// genericImage hides the concrete type so that only At()/Bounds()/ColorModel() are available.
type genericImage struct{ im image.Image }

func (g genericImage) ColorModel() color.Model { return g.im.ColorModel() }
func (g genericImage) Bounds() image.Rectangle { return g.im.Bounds() }
func (g genericImage) At(x, y int) color.Color { return g.im.At(x, y) }

// asType converts the NRGBA picture to another Go image type; ok=false when not representable.
func asType(r *RNG, src *image.NRGBA, kind int) (image.Image, string) {
	img, name := asTypeAt(r, src, kind, image.Point{})
	if kind >= 1 && kind <= 7 && kind != 5 && kind != 6 && r.Chance(1, 2) {
		// same picture with a non-zero origin (translated bounds)
		off := image.Pt(1+r.Intn(9), 1+r.Intn(9))
		if r.Chance(1, 4) {
			off = image.Pt(-1-r.Intn(5), 2)
		}
		img, name = asTypeAt(r, src, kind, off)
		name += "+origin"
	}
	if kind == 5 && r.Chance(1, 2) {
		inner, n2 := asTypeAt(r, src, 2+r.Intn(3), image.Pt(3, 7))
		return genericImage{inner}, "generic(" + n2 + "+origin)"
	}
	return img, name
}

// setAll copies src into dst (translated by off) through the generic Set.
func setAll(dst interface {
	Set(x, y int, c color.Color)
}, src *image.NRGBA, off image.Point) {
	b := src.Bounds()
	for y := b.Min.Y; y < b.Max.Y; y++ {
		for x := b.Min.X; x < b.Max.X; x++ {
			dst.Set(x+off.X, y+off.Y, src.NRGBAAt(x, y))
		}
	}
}

func asTypeAt(r *RNG, src *image.NRGBA, kind int, off image.Point) (image.Image, string) {
	b := src.Bounds()
	if off != (image.Point{}) {
		ob := b.Add(off)
		switch kind {
		case 1:
			d := image.NewRGBA(ob)
			setAll(d, src, off)
			return d, "RGBA"
		case 2:
			d := image.NewGray(ob)
			setAll(d, src, off)
			return d, "Gray"
		case 3:
			im, _ := asTypeAt(r, src, 3, image.Point{})
			p := im.(*image.Paletted)
			d := image.NewPaletted(ob, p.Palette)
			setAll(d, src, off)
			return d, "Paletted"
		case 4:
			d := image.NewNRGBA64(ob)
			setAll(d, src, off)
			return d, "NRGBA64"
		case 7:
			d := image.NewRGBA64(ob)
			setAll(d, src, off)
			return d, "RGBA64"
		}
	}
	switch kind {
	case 0:
		return src, "NRGBA"
	case 1:
		dst := image.NewRGBA(b)
		for y := b.Min.Y; y < b.Max.Y; y++ {
			for x := b.Min.X; x < b.Max.X; x++ {
				dst.Set(x, y, src.NRGBAAt(x, y))
			}
		}
		return dst, "RGBA"
	case 2:
		dst := image.NewGray(b)
		for y := b.Min.Y; y < b.Max.Y; y++ {
			for x := b.Min.X; x < b.Max.X; x++ {
				dst.Set(x, y, src.NRGBAAt(x, y))
			}
		}
		return dst, "Gray"
	case 3:
		pal := color.Palette{}
		seen := map[color.NRGBA]bool{}
		for y := b.Min.Y; y < b.Max.Y && len(pal) < 256; y++ {
			for x := b.Min.X; x < b.Max.X && len(pal) < 256; x++ {
				c := src.NRGBAAt(x, y)
				if !seen[c] {
					seen[c] = true
					pal = append(pal, c)
				}
			}
		}
		dst := image.NewPaletted(b, pal)
		for y := b.Min.Y; y < b.Max.Y; y++ {
			for x := b.Min.X; x < b.Max.X; x++ {
				dst.Set(x, y, src.NRGBAAt(x, y))
			}
		}
		return dst, "Paletted"
	case 4:
		dst := image.NewNRGBA64(b)
		for y := b.Min.Y; y < b.Max.Y; y++ {
			for x := b.Min.X; x < b.Max.X; x++ {
				dst.Set(x, y, src.NRGBAAt(x, y))
			}
		}
		return dst, "NRGBA64"
	case 5:
		return genericImage{src}, "generic"
	case 6:
		// sub-image with non-zero origin and larger stride
		parent := image.NewNRGBA(image.Rect(0, 0, b.Dx()+5, b.Dy()+3))
		for i := range parent.Pix {
			parent.Pix[i] = byte(r.Next())
		}
		sub := parent.SubImage(image.Rect(3, 2, 3+b.Dx(), 2+b.Dy())).(*image.NRGBA)
		for y := 0; y < b.Dy(); y++ {
			for x := 0; x < b.Dx(); x++ {
				sub.SetNRGBA(3+x, 2+y, src.NRGBAAt(b.Min.X+x, b.Min.Y+y))
			}
		}
		return sub, "subimage"
	case 7:
		dst := image.NewRGBA64(b)
		for y := b.Min.Y; y < b.Max.Y; y++ {
			for x := b.Min.X; x < b.Max.X; x++ {
				dst.Set(x, y, src.NRGBAAt(x, y))
			}
		}
		return dst, "RGBA64"
	}
	return src, "NRGBA"
}

const numImgTypes = 8

// expectedNRGBA is the picture "read as non-premultiplied 8-bit RGBA".
func expectedNRGBA(img image.Image) *image.NRGBA {
	b := img.Bounds()
	dst := image.NewNRGBA(image.Rect(0, 0, b.Dx(), b.Dy()))
	for y := 0; y < b.Dy(); y++ {
		for x := 0; x < b.Dx(); x++ {
			dst.SetNRGBA(x, y, color.NRGBAModel.Convert(img.At(b.Min.X+x, b.Min.Y+y)).(color.NRGBA))
		}
	}
	return dst
}

// suiteRoundtrip: C01 end to end — webp.Encode(Lossless) then webp.Decode reproduces every pixel.
func suiteRoundtrip(rep *Report) error {
	rep.Rule = "image class x alpha class x size (1x1, 1xN, Nx1, around 2^k +-1, ragged; every 97th case >= 100000 pixels with prime/odd height - 256x401, 317x331, 400x251, 1000x101, 101x1000, 7x14293 ... - decoded under the ambient GOMAXPROCS and under two of {2,3,5,7} (thorough: all four); plus a leg of sizes just below/on/above the numeric thresholds of the code - thresholds.go - with flat/gradient/sparse content, one of them per run on the 2^20-pixel threshold at Method 0; pictures with exactly n colours for n around 2 / 4 / 16 / 192 / 256; and the far-match class: pictures of more than 2^20 pixels - 1024x1100, 2048x560, 1100x1024 - whose noise band over 17..256 colours repeats with period D = 2^20-121 / -120 (last legal backward distance) / -119 / -60 / -1 / 2^20, Quality 76 / 90 / 100, Method 0..2, two per run, thorough: the whole grid plus width 4096 at Quality 51..75 and full-colour noise) x Go image type {NRGBA,RGBA,Gray,Paletted,NRGBA64,generic,subimage,RGBA64} x Quality {0,10,24,25,49,50,74,75,89,90,100} x Method 0..6 x Exact x metadata, plus a sweep of one non-opaque pixel at raster index 0 / 1 / each of the last 8 positions (sizes with pixel count mod 4 = 0..3) and two-colour pictures with controlled runs of unused symbols (2/3, 10/11, 138/139/140, 130..145) in the code-length vector; decoded pixels compared with NRGBAModel.Convert(src.At) (alpha-0 pixels may be transparent black unless Exact); non-trivial = image has >= 2 distinct pixels; distinct = hash of (pixels, options)"
	n := 700
	if rep.Tier == "thorough" {
		n = 20000
	}
	quals := []float32{0, 10, 24, 25, 49, 50, 74, 75, 89, 90, 100}
	sizes := [][2]int{{1, 1}, {1, 17}, {23, 1}, {2, 2}, {3, 5}, {7, 8}, {8, 8}, {9, 7}, {15, 16}, {16, 17}, {17, 33}, {31, 32}, {33, 17}, {64, 48}, {65, 3}, {96, 96}}
	// two deterministic legs after the n random cases (see suiteConform): one non-opaque pixel at raster
	// index 0 / 1 / each of the last 8 positions over sizes with pixel count mod 4 = 0..3, and two-colour
	// pictures with controlled runs of unused symbols in the code-length vector
	sparsePos := []int{0, 1, -1, -2, -3, -4, -5, -6, -7, -8}
	nSparse := len(SparseAlphaSizes) * len(sparsePos)
	nZero := 90
	if rep.Tier == "thorough" {
		nZero = 3000
	}
	// pictures above the decoder's 100000-pixel parallel threshold (inverse transforms and the
	// ARGB->NRGBA conversion are then split by rows over GOMAXPROCS workers): prime / odd heights, so
	// that height % workers != 0 for every worker count, next to the old 320x320
	bigSizes := [][2]int{{256, 401}, {317, 331}, {400, 251}, {320, 320}, {1000, 101}, {101, 1000}, {333, 307}, {7, 14293}}
	// threshold leg: sizes just below / on / just above the numeric thresholds of the code (thresholds.go),
	// cheap content
	nThrDraw := 14
	if rep.Tier == "thorough" {
		nThrDraw = 1 << 20 // all
	}
	thr := DrawThresholdCases(rep.Seed, 0x01, nThrDraw, ThresholdFilter{MaxPixels: 140000, MinValue: 200})
	nThr := len(thr)
	defer runtime.GOMAXPROCS(runtime.GOMAXPROCS(0))
	ambient := runtime.GOMAXPROCS(0)
	nBigSeen := 0
	for i := 0; i < n+nSparse+nZero+nThr; i++ {
		r := NewRNG(rep.Seed, uint64(i))
		sz := sizes[r.Intn(len(sizes))]
		if i%97 == 0 && i < n {
			sz = bigSizes[(nBigSeen+int(rep.Seed))%len(bigSizes)]
			nBigSeen++
			if rep.Tier == "thorough" && i%970 == 0 {
				sz = [2]int{1 + r.Intn(2100), 1 + r.Intn(40)}
			}
		}
		cls, acls := r.Intn(NumImgClasses), r.Intn(NumAlphaClasses)
		var base *image.NRGBA
		idesc := ""
		switch {
		case i >= n+nSparse+nZero:
			tc := thr[i-(n+nSparse+nZero)]
			sz = [2]int{tc.W, tc.H}
			kind := r.Intn(NumCheapClasses)
			acls = []int{AlphaNone, AlphaNone, AlphaGradient, AlphaSparse, AlphaBinary}[r.Intn(5)]
			cls = ClsFlat
			base = GenCheapImage(r, tc.W, tc.H, kind, acls)
			idesc = cheapDesc(tc.W, tc.H, kind, acls) + " " + tc.String()
			CountThreshold(rep, tc)
		case i < n:
			base = GenImage(r, sz[0], sz[1], cls, acls)
			idesc = imgDesc(sz[0], sz[1], cls, acls)
		case i < n+nSparse:
			k := i - n
			sz = SparseAlphaSizes[k/len(sparsePos)]
			pos := sparsePos[k%len(sparsePos)]
			var ok bool
			base, ok = GenImageSparseAt(r, sz[0], sz[1], cls, []int{pos}, []byte{0, 100, 254, 1}[k%4])
			if !ok {
				continue
			}
			acls = AlphaSparse
			idesc = fmt.Sprintf("%dx%d/%s/sparse@%d", sz[0], sz[1], imgClassNames[cls], pos)
		default:
			var what string
			base, sz[0], sz[1], what = GenZeroRunImage(r, r.Chance(1, 3))
			cls, acls = ClsPal2, AlphaNone
			if anyNonOpaque(base) {
				acls = AlphaBinary
			}
			idesc = fmt.Sprintf("%dx%d/%s", sz[0], sz[1], what)
		}
		kind := r.Intn(numImgTypes)
		if i >= n+nSparse && kind == 2 {
			kind = 0 // (Gray would merge the two colours' meaning; keep the bit pattern)
		}
		if sz[0]*sz[1] > 50000 {
			kind = []int{0, 0, 5, 6}[r.Intn(4)]
		}
		img, tname := asType(r, base, kind)
		o := &webp.EncoderOptions{Lossless: true, Quality: quals[r.Intn(len(quals))], Method: r.Intn(7), Exact: r.Bool()}
		if r.Chance(1, 5) {
			o.ICC, o.EXIF = []byte("icc"), []byte("exif-data")
		}
		if r.Chance(1, 8) {
			// lossy-only options must not matter
			o.SNSStrength, o.Segments, o.AlphaQuality = r.Intn(101), 1+r.Intn(4), r.Intn(101)
		}
		desc := fmt.Sprintf("%s type=%s q=%v m=%d exact=%v meta=%v", idesc, tname, o.Quality, o.Method, o.Exact, o.ICC != nil)
		want := expectedNRGBA(img)
		file, err := encodeBytes(img, o)
		if err != nil {
			rep.Add(Finding{Kind: "property", Property: "C01", Signature: "roundtrip:encode-error", Detail: desc + ": " + err.Error(),
				Input: map[string]any{"op": "roundtrip", "case": i, "seed": rep.Seed, "desc": desc}})
			continue
		}
		dec, err := webp.Decode(bytes.NewReader(file))
		if err != nil {
			rep.Add(Finding{Kind: "property", Property: "C01", Signature: "roundtrip:decode-error", Detail: desc + ": " + err.Error(),
				Input: map[string]any{"op": "roundtrip", "case": i, "seed": rep.Seed, "desc": desc, "hex": hx(file)}})
			continue
		}
		got, ok := dec.(*image.NRGBA)
		if !ok {
			got = toNRGBA(dec)
		}
		same, why := nrgbaEqual(want, got, !o.Exact)
		if !same {
			rep.Add(Finding{Kind: "property", Property: "C01", Signature: "roundtrip:pixels:" + tname + fmt.Sprintf(":exact=%v", o.Exact),
				Detail: desc + ": " + why, Input: map[string]any{"op": "roundtrip", "case": i, "seed": rep.Seed, "desc": desc, "hex": short(hx(file), 4000)}})
		}
		if sz[0]*sz[1] >= 90000 {
			// the same file decoded with other worker counts (the decoder splits rows over GOMAXPROCS
			// workers above 100000 pixels): every one must reproduce the source
			procs := []int{2, 3, 5, 7}
			if rep.Tier != "thorough" {
				procs = []int{procs[(i+int(rep.Seed))%4], procs[(i+int(rep.Seed)+1)%4]}
			}
			for _, p := range procs {
				runtime.GOMAXPROCS(p)
				d2, err2 := webp.Decode(bytes.NewReader(file))
				runtime.GOMAXPROCS(ambient)
				rep.Count(fmt.Sprintf("big-decode:GOMAXPROCS=%d", p))
				if err2 != nil {
					rep.Add(Finding{Kind: "property", Property: "C01", Signature: "roundtrip:decode-error", Detail: fmt.Sprintf("%s (GOMAXPROCS=%d): %v", desc, p, err2),
						Input: map[string]any{"op": "roundtrip", "case": i, "seed": rep.Seed, "desc": desc, "procs": p, "hex": short(hx(file), 4000)}})
					continue
				}
				if same2, why2 := nrgbaEqual(want, toNRGBA(d2), !o.Exact); !same2 {
					rep.Add(Finding{Kind: "property", Property: "C01", Signature: "roundtrip:pixels:" + tname + fmt.Sprintf(":exact=%v", o.Exact),
						Detail: fmt.Sprintf("%s (decoded with GOMAXPROCS=%d): %s", desc, p, why2), Input: map[string]any{"op": "roundtrip", "case": i, "seed": rep.Seed, "desc": desc, "procs": p, "hex": short(hx(file), 4000)}})
				}
			}
			rep.Count(fmt.Sprintf("big:%dx%d", sz[0], sz[1]))
		}
		if ft, ferr := webp.GetFeatures(bytes.NewReader(file)); ferr == nil && anyNonOpaque(got) && !ft.HasAlpha {
			rep.Add(Finding{Kind: "property", Property: "C16", Signature: "features:alpha-flag-missing", Detail: desc + ": decoded image has a non-opaque pixel but GetFeatures.HasAlpha is false",
				Input: map[string]any{"op": "roundtrip", "case": i, "seed": rep.Seed, "desc": desc, "hex": short(hx(file), 4000)}})
		}
		if i%5 == 0 {
			// registered-format path
			im2, name, err := image.Decode(bytes.NewReader(file))
			if err != nil || name != "webp" || im2.Bounds() != got.Bounds() {
				rep.Add(Finding{Kind: "property", Property: "C16", Signature: "dispatch:image.Decode", Detail: fmt.Sprintf("%s: image.Decode name=%q err=%v", desc, name, err),
					Input: map[string]any{"op": "roundtrip", "case": i, "seed": rep.Seed, "hex": short(hx(file), 4000)}})
			}
		}
		nontrivial := !isFlat(want)
		rep.Eval(nontrivial, append([]byte(desc), want.Pix...))
		rep.Count("type:" + tname)
		rep.Count(fmt.Sprintf("method:%d", o.Method))
		rep.Count("class:" + imgClassNames[cls] + "/" + alphaClassNames[acls])
		if i < 3 {
			rep.Sample(map[string]any{"case": desc, "bytes": len(file)})
		}
	}
	e2eColorCountLeg(rep)
	e2eFarMatchLeg(rep)
	return nil
}

// e2eRoundtripNRGBA: one lossless Encode / Decode of an *image.NRGBA at the origin, compared on Pix directly
// (pictures of a million pixels: no per-pixel At()). Encode runs under guard(): a panic is a C01 finding.
// `in` describes the case for the replayer; procs > 0 decodes once more under that GOMAXPROCS.
func e2eRoundtripNRGBA(rep *Report, src *image.NRGBA, o *webp.EncoderOptions, desc string, in map[string]any, procs int) int {
	var file []byte
	var eerr error
	if st, pm := guard(func() string { file, eerr = encodeBytes(src, o); return "ok" }); st == "panic" {
		rep.Add(Finding{Kind: "property", Property: "C01", Signature: "roundtrip:encode-panic", Detail: desc + ": Encode panicked: " + pm, Input: in})
		return 0
	}
	if eerr != nil {
		rep.Add(Finding{Kind: "property", Property: "C01", Signature: "roundtrip:encode-error", Detail: desc + ": " + eerr.Error(), Input: in})
		return 0
	}
	check := func(tag string) {
		var dec image.Image
		var derr error
		if st, pm := guard(func() string { dec, derr = webp.Decode(bytes.NewReader(file)); return "ok" }); st == "panic" {
			derr = fmt.Errorf("panic: %s", pm)
		}
		if derr != nil {
			rep.Add(Finding{Kind: "property", Property: "C01", Signature: "roundtrip:decode-error", Detail: desc + tag + ": Encode succeeded (" + fmt.Sprint(len(file)) + " bytes), Decode: " + derr.Error(), Input: in})
			return
		}
		got, ok := dec.(*image.NRGBA)
		if !ok {
			got = toNRGBA(dec)
		}
		if got.Rect == src.Rect && got.Stride == src.Stride && bytes.Equal(got.Pix, src.Pix) {
			return
		}
		if same, why := nrgbaEqual(src, got, !o.Exact); !same {
			rep.Add(Finding{Kind: "property", Property: "C01", Signature: "roundtrip:pixels:NRGBA" + fmt.Sprintf(":exact=%v", o.Exact), Detail: desc + tag + ": " + why, Input: in})
		}
	}
	check("")
	if procs > 0 {
		old := runtime.GOMAXPROCS(procs)
		check(fmt.Sprintf(" (decoded with GOMAXPROCS=%d)", procs))
		runtime.GOMAXPROCS(old)
	}
	return len(file)
}

// e2eColorCountLeg: pictures with EXACTLY n colours for n just below / on / above the colour-count thresholds of
// the lossless encoder (2 / 4 / 16: 8 / 4 / 2 palette indices per byte; 256 / 257: palette vs no palette; 192),
// every colour occurring, short runs; a few per run (all in the thorough tier).
func e2eColorCountLeg(rep *Report) {
	k := 5
	if rep.Tier == "thorough" {
		k = 1 << 20
	}
	reps := 1
	if rep.Tier == "thorough" {
		reps = 12
	}
	for j := range DrawCountCases(rep.Seed, 0x0101, k, "colors", 2, 300) {
		for t := 0; t < reps; t++ {
			e2eColorRun(rep, j, t)
		}
	}
}

// e2eColorRun runs repetition t of colour-count case j.
func e2eColorRun(rep *Report, j, t int) {
	k := 5
	if rep.Tier == "thorough" {
		k = 1 << 20
	}
	cc := DrawCountCases(rep.Seed, 0x0101, k, "colors", 2, 300)[j]
	r := NewRNG(rep.Seed, 0x01C0_0000+uint64(j*64+t))
	w, h := 17+r.Intn(30), 17+r.Intn(30)
	if r.Chance(1, 4) {
		w, h = 300+r.Intn(40), 1+r.Intn(3) // one to three long rows (w >= 300 > 257)
	}
	img := GenColorCountImage(r, w, h, cc.N)
	o := &webp.EncoderOptions{Lossless: true, Quality: []float32{0, 25, 50, 75, 90, 100}[r.Intn(6)], Method: r.Intn(7), Exact: r.Bool()}
	desc := fmt.Sprintf("%dx%d/exactly-%d-colours %s q=%v m=%d exact=%v", w, h, cc.N, cc.String(), o.Quality, o.Method, o.Exact)
	in := map[string]any{"op": "roundtrip-colors", "seed": rep.Seed, "tier": rep.Tier, "j": j, "t": t, "w": w, "h": h, "colors": cc.N, "q": o.Quality, "m": o.Method, "exact": o.Exact, "desc": desc}
	e2eRoundtripNRGBA(rep, img, o, desc, in, 0)
	CountCount(rep, cc)
	rep.Count("class:exact-colours")
	rep.Eval(cc.N >= 2, append([]byte(desc), img.Pix...))
}

// e2eFarMatchImage: a w x h opaque picture with pixel[i] = pixel[i-D] for every raster index i >= D. The first T
// pixels are noise over ncol colours (17..256 colours: a palette without pixel packing, so one pixel stays one
// symbol in the backward-reference stage; ncol = 0: full-colour noise), the pixels up to D are filler rows of one
// colour each (cheap: runs, matches one pixel / one row back), and from index D on the picture repeats itself, so
// the ONLY match of the repeated noise lies exactly D pixels back.
func e2eFarMatchImage(r *RNG, w, h, D, T, ncol int) *image.NRGBA {
	img := image.NewNRGBA(image.Rect(0, 0, w, h))
	base := uint32(r.Next())
	col := func(k uint32) (byte, byte, byte) {
		v := base + k*0x010305
		return byte(v), byte(v >> 8), byte(v >> 16)
	}
	n := w * h
	pix := img.Pix
	for i := 0; i < n; i++ {
		o := 4 * i
		if i >= D {
			copy(pix[o:o+4], pix[4*(i-D):4*(i-D)+4])
			continue
		}
		var a, b, c byte
		switch {
		case i < T && ncol > 0:
			a, b, c = col(uint32(r.Next()>>20) % uint32(ncol))
		case i < T:
			v := r.Next()
			a, b, c = byte(v), byte(v>>8), byte(v>>16)
		case ncol > 0:
			a, b, c = col(uint32((i/w)*7+3) % uint32(ncol))
		default:
			v := uint32(i/w) * 0x9E3779B1
			a, b, c = byte(v), byte(v>>8), byte(v>>16)
		}
		pix[o], pix[o+1], pix[o+2], pix[o+3] = a, b, c, 255
	}
	return img
}

type e2eFarCase struct {
	w, h, D, T, ncol int
	q                float32
	m                int
}

// e2eWindow is the largest backward distance of the format's encoder side: 2^20 - 120 (the 120 short plane codes
// are mapped in front of the plain distances, and distance + 120 must stay within the 40 distance prefix codes).
const e2eWindow = 1<<20 - 120

// e2eFarMatchLeg: pictures of MORE than 2^20 pixels whose content repeats about 2^20 pixels back, Quality > 75
// (the encoder searches the full window only above 75; at 51..75 for widths >= 4096): D just inside the window
// (2^20-121, 2^20-120: the match must be found and must round-trip), and just outside it (2^20-119, 2^20-60,
// 2^20-1, 2^20: a match at that distance has no legal distance code - the encoder must not use it). Plus one
// picture on the '1<<20 pixels' threshold with cheap content at Method 0.
func e2eFarCases(seed uint64, tier string) []e2eFarCase {
	ds := []int{e2eWindow - 1, e2eWindow, e2eWindow + 1, 1<<20 - 60, 1<<20 - 1, 1 << 20}
	dims := [][2]int{{1024, 1100}, {2048, 560}, {1100, 1024}}
	qs := []float32{76, 90, 100}
	var cases []e2eFarCase
	s := int(seed % 1000)
	if tier == "thorough" {
		for di, D := range ds {
			// every D with every Quality (size rotated) and with every size (Quality rotated)
			for qi, q := range qs {
				d := dims[(di+qi+s)%3]
				cases = append(cases, e2eFarCase{d[0], d[1], D, 0, []int{40, 256, 17, 200}[(di+qi+s)%4], q, (di + qi + s) % 3})
			}
			for wi := 1; wi < 3; wi++ {
				d := dims[(di+1+wi+s)%3] // (the sizes the loop above did not pair with qs[1])
				cases = append(cases, e2eFarCase{d[0], d[1], D, 0, []int{97, 23, 256}[(di+wi+s)%3], qs[1], (di + wi + s) % 3})
			}
			// width >= 4096: the full window is already searched at Quality 51..75
			cases = append(cases, e2eFarCase{4096, 300, D, 0, 64, []float32{51, 60, 75}[(di+s)%3], (di + s) % 3})
			// the whole head is noise (T = D), 256 colours and full colour
			cases = append(cases, e2eFarCase{1024, 1100, D, D, 256, qs[(di+s)%3], 0}, e2eFarCase{1024, 1100, D, D, 0, qs[(di+s+1)%3], 1})
		}
	} else {
		// quick: one picture just outside the window, one on a boundary value drawn by the seed
		d0, d1 := dims[s%3], dims[(s+1)%3]
		cases = append(cases,
			e2eFarCase{d0[0], d0[1], 1<<20 - 60, 0, []int{40, 200, 97}[s%3], qs[s%3], s % 3},
			e2eFarCase{d1[0], d1[1], []int{e2eWindow, e2eWindow + 1, 1<<20 - 1, 1 << 20, e2eWindow - 1}[s%5], 0, []int{64, 23, 256}[(s/3)%3], qs[(s+1)%3], (s + 1) % 3})
	}
	return cases
}

func e2eFarMatchLeg(rep *Report) {
	for k := range e2eFarCases(rep.Seed, rep.Tier) {
		e2eFarRun(rep, k)
	}
	// the '1<<20 pixels' threshold itself (pictures of 2^20 -/+ a few pixels), cheap content, Method 0
	nT := 1
	if rep.Tier == "thorough" {
		nT = 1 << 20
	}
	for k := range DrawThresholdCases(rep.Seed, 0x0120, nT, e2eMegaFilter) {
		e2eMegaRun(rep, k)
	}
}

var e2eMegaFilter = ThresholdFilter{Units: []string{"pixels"}, MinValue: 1 << 20, MaxPixels: 1<<20 + 1<<12}

// e2eFarRun runs far-match case k of the (seed, tier) list.
func e2eFarRun(rep *Report, k int) {
	s := int(rep.Seed % 1000)
	c := e2eFarCases(rep.Seed, rep.Tier)[k]
	r := NewRNG(rep.Seed, 0x01FA_0000+uint64(k))
	if c.T == 0 {
		c.T = c.w*c.h - c.D + 1000 + r.Intn(20000) // the noise band covers the repeated tail
	}
	img := e2eFarMatchImage(r, c.w, c.h, c.D, c.T, c.ncol)
	o := &webp.EncoderOptions{Lossless: true, Quality: c.q, Method: c.m, Exact: r.Bool()}
	desc := fmt.Sprintf("%dx%d/far-match period=%d (2^20%+d) noise=%d colours=%d q=%v m=%d exact=%v", c.w, c.h, c.D, c.D-(1<<20), c.T, c.ncol, c.q, c.m, o.Exact)
	in := map[string]any{"op": "roundtrip-farmatch", "seed": rep.Seed, "tier": rep.Tier, "k": k, "w": c.w, "h": c.h, "period": c.D, "noise": c.T, "colors": c.ncol, "q": c.q, "m": c.m, "exact": o.Exact, "desc": desc}
	procs := 0
	if k%2 == 0 {
		procs = []int{2, 3, 5, 7}[(k/2+s)%4]
	}
	n := e2eRoundtripNRGBA(rep, img, o, desc, in, procs)
	rep.Count("class:far-match")
	rep.Count(fmt.Sprintf("far-match:period=2^20%+d", c.D-(1<<20)))
	rep.Count(fmt.Sprintf("far-match:q=%v", c.q))
	rep.Eval(true, []byte(desc))
	if k < 2 {
		rep.Sample(map[string]any{"case": desc, "bytes": n})
	}
}

// e2eMegaRun runs case k of the 2^20-pixel threshold draw.
func e2eMegaRun(rep *Report, k int) {
	nT := 1
	if rep.Tier == "thorough" {
		nT = 1 << 20
	}
	tc := DrawThresholdCases(rep.Seed, 0x0120, nT, e2eMegaFilter)[k]
	r := NewRNG(rep.Seed, 0x01FB_0000+uint64(k))
	kind := r.Intn(NumCheapClasses)
	img := GenCheapImage(r, tc.W, tc.H, kind, AlphaNone)
	o := &webp.EncoderOptions{Lossless: true, Quality: []float32{50, 76, 100}[r.Intn(3)], Method: 0, Exact: r.Bool()}
	desc := fmt.Sprintf("%s %s q=%v m=0 exact=%v", cheapDesc(tc.W, tc.H, kind, AlphaNone), tc.String(), o.Quality, o.Exact)
	in := map[string]any{"op": "roundtrip-threshold", "seed": rep.Seed, "tier": rep.Tier, "k": k, "w": tc.W, "h": tc.H, "cheap": kind, "q": o.Quality, "exact": o.Exact, "desc": desc}
	e2eRoundtripNRGBA(rep, img, o, desc, in, 0)
	CountThreshold(rep, tc)
	rep.Eval(kind != CheapFlat, []byte(desc))
}

func isFlat(img *image.NRGBA) bool {
	for i := 4; i < len(img.Pix); i++ {
		if img.Pix[i] != img.Pix[i%4] {
			return false
		}
	}
	return true
}

// anyNonOpaque reports whether a decoded image has a pixel with alpha < 255.
func anyNonOpaque(img image.Image) bool {
	switch im := img.(type) {
	case *image.YCbCr:
		return false
	case *image.NRGBA:
		for i := 3; i < len(im.Pix); i += 4 {
			if im.Pix[i] != 255 {
				return true
			}
		}
		return false
	}
	b := img.Bounds()
	for y := b.Min.Y; y < b.Max.Y; y++ {
		for x := b.Min.X; x < b.Max.X; x++ {
			if _, _, _, a := img.At(x, y).RGBA(); a != 0xffff {
				return true
			}
		}
	}
	return false
}

// suiteC16: header queries agree with a full decode; container views agree with one another.
func suiteC16(rep *Report) error {
	rep.Rule = "inputs: encoder / muxer / animation-encoder outputs (seed corpus, plus fresh encodes: threshold-crossing files - widths 1023..4097 x heights 1..4 as lossy, lossy+alpha, lossless, animation, and pictures on the numeric thresholds of thresholds.go -, one non-opaque pixel at raster index 0 / 1 / each of the last 8 positions over sizes with pixel count mod 4 = 0..3, lossless with/without metadata and lossy, and random pictures over all alpha classes), muxer-assembled extended stills and animations (AddFrame with ALPH-prefixed data; animations whose first frame is smaller than the canvas and / or at a non-zero offset), muxer- and animation-encoder-assembled (Set*/AddFrame/Assemble, Set*/AddRawFrame/Close) stills and animations of 1..3 frames carrying ICC / EXIF / XMP blobs of odd length 1,3,5,7,9 alone and combined (RIFF size field = file size, all views accept), hand-assembled VP8X stills with a stray ANIM chunk (loop count != 0) before / after the image chunk or last (every reader: not animated, 1 frame, loop count 0), hand-assembled well-formed containers (VP8X with/without ALPH incl. zero-length, odd/empty/unknown chunks, metadata before/after, flags over/under-stating; animations of 1..3 frames of different sizes and codecs at offsets 0/2/4 on a canvas equal to or larger than their extent), every ALPH plane drawn from {all 255, all 0, all 254, one uniform value, 255 except one pixel, noise, gradient} x {raw, VP8L-compressed} x filter 0..3 x pre-processing bits (written by the package's own alpha encoder), and mutations that Decode still accepts; for each accepted still: DecodeConfig, GetFeatures, image.DecodeConfig vs the decoded image (size, colour model, format name, alpha flag for package-written files); for well-formed files: GetFeatures / DecodeConfig / Demuxer / animation.DecodeBytes agree on canvas, animation flag, frame count, loop count - for animations DecodeConfig and image.DecodeConfig must report the VP8X canvas, not the first frame; non-trivial = Decode accepted or the file is animated"
	inputs, seeds := containerInputs(rep.Seed, rep.Tier)
	_ = seeds
	// freshly encoded files (package-written, so the alpha flag must cover every non-opaque decoded
	// pixel): one non-opaque pixel at raster index 0 / 1 / each of the last 8 positions over sizes with
	// pixel count mod 4 = 0..3, lossless (with and without metadata) and lossy; and random pictures
	// over all alpha classes
	{
		var fresh []cInput
		k := 0
		enc := func(img image.Image, lossless bool, meta bool, r *RNG) {
			o := webp.DefaultOptions()
			o.Lossless = lossless
			o.Method = r.Intn(7)
			o.Quality = float32([]int{20, 75, 100}[r.Intn(3)])
			o.Exact = r.Bool()
			if meta {
				o.EXIF = []byte("Exif\x00\x00c16")
			}
			if b, err := encodeBytes(img, o); err == nil {
				fresh = append(fresh, cInput{b, "enc-fresh"})
			}
		}
		for _, sz := range SparseAlphaSizes {
			for _, pos := range []int{0, 1, -1, -2, -3, -4, -5, -6, -7, -8} {
				k++
				r := NewRNG(rep.Seed, 0x1600000+uint64(k))
				img, ok := GenImageSparseAt(r, sz[0], sz[1], r.Intn(NumImgClasses), []int{pos}, []byte{100, 0, 254, 1}[k%4])
				if !ok {
					continue
				}
				enc(img, true, k%2 == 0, r)
				if k%3 == 0 {
					enc(img, false, k%2 == 1, r)
				}
			}
		}
		nr := 60
		if rep.Tier == "thorough" {
			nr = 1500
		}
		for i := 0; i < nr; i++ {
			r := NewRNG(rep.Seed, 0x1610000+uint64(i))
			sz := SparseAlphaSizes[r.Intn(len(SparseAlphaSizes))]
			if r.Bool() {
				sz = [2]int{1 + r.Intn(24), 1 + r.Intn(24)}
			}
			enc(GenImage(r, sz[0], sz[1], r.Intn(NumImgClasses), r.Intn(NumAlphaClasses)), r.Chance(2, 3), r.Chance(1, 3), r)
		}
		// threshold-crossing files written by the package: the wide family (widths 1023..4097 x heights 1..4 as
		// lossy, lossy+alpha, lossless, animation) and a few pictures on the other numeric thresholds
		every := 4
		nThr := 8
		if rep.Tier == "thorough" {
			every, nThr = 1, 80
		}
		for _, s := range WideSeeds(rep.Seed, every) {
			fresh = append(fresh, cInput{s.Data, "enc-fresh"})
			rep.Count("fresh:wide")
		}
		for k, tc := range DrawThresholdCases(rep.Seed, 0x16, nThr, ThresholdFilter{MaxPixels: 120000, MinValue: 200}) {
			r := NewRNG(rep.Seed, 0x1620000+uint64(k))
			enc(GenCheapImage(r, tc.W, tc.H, r.Intn(NumCheapClasses), []int{AlphaNone, AlphaGradient, AlphaSparse, AlphaBinary}[r.Intn(4)]), r.Bool(), r.Chance(1, 3), r)
			CountThreshold(rep, tc)
		}
		// muxer-assembled files whose ALPH plane is drawn from the plane classes (all 255, all 0, all 254, one
		// uniform value, 255 except one pixel, noise, gradient) in every ALPH encoding (raw, filters 1..3,
		// pre-processing bits, VP8L-compressed): extended stills (AddFrame with ALPH-prefixed data, no options)
		// and animations whose first frame is smaller than the canvas and / or sits at a non-zero offset
		nm := 48
		if rep.Tier == "thorough" {
			nm = 1200
		}
		for i := 0; i < nm; i++ {
			r := NewRNG(rep.Seed, 0x1630000+uint64(i))
			sz := [][2]int{{1, 1}, {2, 3}, {5, 4}, {8, 8}, {13, 7}, {16, 16}, {17, 33}, {33, 9}}[r.Intn(8)]
			w, h := sz[0], sz[1]
			frame := func(w, h, cls, enc int) []byte {
				vp8 := rawFrame(r, w, h, false, AlphaNone)
				a, tags := e2eAlphPayload(r, w, h, cls, enc)
				for _, t := range tags {
					rep.Count("mux-fresh:alph:" + t)
				}
				return alphPrefixed(a, vp8)
			}
			m := mux.NewMuxer()
			cls, enc := i%e2eNumPlaneClasses, (i/e2eNumPlaneClasses)%e2eNumAlphEncodings
			kind := "mux-fresh"
			if i%3 != 2 {
				_ = m.AddFrame(frame(w, h, cls, enc), nil)
			} else {
				// animation: first frame w x h at (ox, oy), canvas larger than the first frame
				ox, oy := 2*r.Intn(3), 2*r.Intn(3)
				_ = m.AddFrame(frame(w, h, cls, enc), &mux.FrameOptions{Duration: 30, OffsetX: ox, OffsetY: oy, BlendMode: mux.BlendMode(r.Intn(2))})
				w2, h2 := w+2*r.Intn(4), h+1+r.Intn(5)
				if r.Bool() {
					_ = m.AddFrame(rawFrame(r, w2, h2, true, AlphaBinary), &mux.FrameOptions{Duration: 40, DisposeMode: mux.DisposeMode(r.Intn(2))})
				} else {
					_ = m.AddFrame(frame(w2, h2, r.Intn(e2eNumPlaneClasses), r.Intn(e2eNumAlphEncodings)), &mux.FrameOptions{Duration: 40, OffsetX: 2 * r.Intn(2)})
				}
				if r.Chance(1, 3) {
					m.SetCanvasSize(w2+ox+2*r.Intn(5), h2+oy+r.Intn(7))
				}
				m.SetLoopCount(r.Intn(4))
			}
			var mb bytes.Buffer
			if err := m.Assemble(&mb); err == nil {
				fresh = append(fresh, cInput{mb.Bytes(), kind})
			} else {
				rep.Count("mux-fresh:assemble-error")
			}
		}
		// muxer- and animation-encoder-assembled files carrying ICC / EXIF / XMP blobs of ODD length (1, 3, 5, 7, 9
		// bytes; now and then an even one), alone and combined, stills and animations of 1..3 frames: every chunk is
		// padded to an even extent, so the RIFF size field, the chunk walk of the strict parser and the walk of the
		// demuxer must all account for the pad byte - including the one after the LAST chunk of the file
		fresh = append(fresh, e2eOddMetaFiles(rep)...)
		inputs = append(fresh, inputs...)
	}
	accepted := 0
	for idx, in := range inputs {
		if strings.HasPrefix(in.kind, "sweep") && idx%7 != 0 {
			continue
		}
		data := in.data
		var img image.Image
		var derr error
		func() {
			defer func() {
				if e := recover(); e != nil {
					derr = fmt.Errorf("panic: %v", e)
				}
			}()
			img, derr = webp.Decode(bytes.NewReader(data))
		}()
		wellFormed := in.kind == "seed" || in.kind == "enc-fresh" || in.kind == "mux-fresh"
		pkgWritten := wellFormed
		if derr == nil && img != nil && !isAnimatedFile(data) {
			accepted++
			cfg, cerr := webp.DecodeConfig(bytes.NewReader(data))
			ft, ferr := webp.GetFeatures(bytes.NewReader(data))
			add := func(sig, detail string) {
				rep.Add(Finding{Kind: "property", Property: "C16", Signature: sig, Detail: fmt.Sprintf("%s (%s, %d bytes)", detail, in.kind, len(data)),
					Input: map[string]any{"op": "c16", "hex": hx(data)}})
			}
			if cerr != nil {
				add("config:fails-where-decode-succeeds", "DecodeConfig error "+cerr.Error())
			} else {
				if cfg.Width != img.Bounds().Dx() || cfg.Height != img.Bounds().Dy() {
					add("config:size", fmt.Sprintf("DecodeConfig %dx%d, decoded %v", cfg.Width, cfg.Height, img.Bounds()))
				}
				if cfg.ColorModel != img.ColorModel() {
					add("config:colour-model", fmt.Sprintf("DecodeConfig %s, decoded %s", cmName(cfg.ColorModel), imgModelName(img)))
				}
			}
			if ferr != nil {
				add("features:fails-where-decode-succeeds", "GetFeatures error "+ferr.Error())
			} else {
				if ft.Width != img.Bounds().Dx() || ft.Height != img.Bounds().Dy() {
					add("features:size", fmt.Sprintf("GetFeatures %dx%d, decoded %v", ft.Width, ft.Height, img.Bounds()))
				}
				want := map[string]string{"VP8 ": "lossy", "VP8L": "lossless", "VP8X": "extended"}[string(data[12:16])]
				if ft.Format != want {
					add("features:format-name", fmt.Sprintf("format %q for first chunk %q", ft.Format, string(data[12:16])))
				}
				if pkgWritten && anyNonOpaque(img) && !ft.HasAlpha {
					add("features:alpha-flag-missing", "decoded image has a non-opaque pixel but HasAlpha is false")
				}
			}
			if c2, name, err := image.DecodeConfig(bytes.NewReader(data)); err != nil || name != "webp" || (cerr == nil && (c2.Width != cfg.Width || c2.Height != cfg.Height)) {
				add("dispatch:image.DecodeConfig", fmt.Sprintf("name=%q err=%v", name, err))
			}
			rep.Count("accepted:" + strings.SplitN(in.kind, ":", 2)[0])
		}
		// container views on well-formed files (seeds; layouts are checked where both parsers accept and the file is self-consistent)
		if wellFormed {
			viewsAgree(rep, data, in.kind)
		}
		rep.Eval(derr == nil, data)
	}
	rep.Extra["decode_accepted"] = accepted
	// hand-assembled well-formed layouts: build consistent ones explicitly
	r := NewRNG(rep.Seed, 4242)
	nl := 600
	if rep.Tier == "thorough" {
		nl = 20000
	}
	for _, in := range wellFormedLayouts(r, seeds, nl, rep.Count) {
		viewsAgree(rep, in.data, in.kind)
		img, err := webp.Decode(bytes.NewReader(in.data))
		if err == nil && !isAnimatedFile(in.data) {
			cfg, cerr := webp.DecodeConfig(bytes.NewReader(in.data))
			if cerr != nil || cfg.ColorModel != img.ColorModel() || cfg.Width != img.Bounds().Dx() || cfg.Height != img.Bounds().Dy() {
				rep.Add(Finding{Kind: "property", Property: "C16", Signature: "config:layout-mismatch",
					Detail: fmt.Sprintf("hand-assembled layout: DecodeConfig (%v %s %dx%d) vs decoded (%s %v)", cerr, cmName(cfg.ColorModel), cfg.Width, cfg.Height, imgModelName(img), img.Bounds()),
					Input:  map[string]any{"op": "c16", "hex": hx(in.data)}})
			}
		}
		rep.Eval(true, in.data)
		rep.Count("layout:" + in.kind)
	}
	// VP8X stills (animation flag clear) with a stray ANIM chunk (loop count != 0): the chunk must be ignored by
	// every reader - not animated, one frame, loop count 0 everywhere
	for _, in := range e2eStrayAnimStills(rep) {
		viewsAgree(rep, in.data, in.kind)
		e2eStillIsStill(rep, in.data, in.kind)
		rep.Eval(true, in.data)
		rep.Count("layout:" + in.kind)
	}
	return nil
}

// e2eRIFFSizeExact: the RIFF size field of a package-written file covers the file exactly (padding included).
func e2eRIFFSizeExact(rep *Report, data []byte, kind string) {
	if len(data) < 12 {
		return
	}
	n := int(data[4]) | int(data[5])<<8 | int(data[6])<<16 | int(data[7])<<24
	if n+8 != len(data) || len(data)%2 != 0 {
		rep.Add(Finding{Kind: "property", Property: "C16", Signature: "views:riff-size-vs-file",
			Detail: fmt.Sprintf("package-written file of %d bytes announces RIFF size %d (+8 = %d) (%s)", len(data), n, n+8, kind),
			Input:  map[string]any{"op": "c16", "hex": hx(data)}})
	}
}

// e2eOddMetaFiles: mux.Muxer (Set*/AddFrame/Assemble) and animation.AnimEncoder (Set*/AddRawFrame/Close) outputs
// with odd-length metadata blobs. which: bit 0 ICC, bit 1 EXIF, bit 2 XMP (all 7 combinations in turn).
func e2eOddMetaFiles(rep *Report) []cInput {
	n := 42
	if rep.Tier == "thorough" {
		n = 840
	}
	var out []cInput
	for i := 0; i < n; i++ {
		r := NewRNG(rep.Seed, 0x1640000+uint64(i))
		which := 1 + i%7
		blob := func() []byte {
			l := []int{1, 3, 5, 7, 9}[r.Intn(5)]
			if r.Chance(1, 8) {
				l = 2 + 2*r.Intn(4)
			}
			rep.Count(fmt.Sprintf("odd-meta:len%%2=%d", l%2))
			return r.Bytes(l)
		}
		var icc, exif, xmp []byte
		if which&1 != 0 {
			icc = blob()
		}
		if which&2 != 0 {
			exif = blob()
		}
		if which&4 != 0 {
			xmp = blob()
		}
		sz := [][2]int{{1, 1}, {3, 2}, {8, 8}, {13, 7}, {16, 16}, {17, 9}}[r.Intn(6)]
		w, h := sz[0], sz[1]
		nf := 1 + (i/7)%3
		one := func() []byte {
			switch r.Intn(3) {
			case 0:
				return rawFrame(r, w, h, true, []int{AlphaNone, AlphaBinary}[r.Intn(2)])
			case 1:
				return rawFrame(r, w, h, false, AlphaNone)
			}
			a, _ := e2eAlphPayload(r, w, h, r.Intn(e2eNumPlaneClasses), r.Intn(e2eNumAlphEncodings))
			return alphPrefixed(a, rawFrame(r, w, h, false, AlphaNone))
		}
		var buf bytes.Buffer
		var err error
		tag := ""
		if i%2 == 0 {
			tag = "muxer"
			m := mux.NewMuxer()
			if icc != nil {
				m.SetICCProfile(icc)
			}
			if exif != nil {
				m.SetEXIF(exif)
			}
			if xmp != nil {
				m.SetXMP(xmp)
			}
			for k := 0; k < nf; k++ {
				if nf == 1 {
					_ = m.AddFrame(one(), nil)
				} else {
					_ = m.AddFrame(one(), &mux.FrameOptions{Duration: 20 + k, BlendMode: mux.BlendMode(r.Intn(2)), DisposeMode: mux.DisposeMode(r.Intn(2))})
				}
			}
			if nf > 1 {
				m.SetLoopCount(r.Intn(4))
			}
			err = m.Assemble(&buf)
		} else {
			tag = "animenc"
			e := animation.NewEncoder(&buf, w, h, &animation.EncodeOptions{LoopCount: r.Intn(4)})
			if e == nil {
				continue
			}
			if icc != nil {
				e.SetICCProfile(icc)
			}
			if exif != nil {
				e.SetEXIF(exif)
			}
			if xmp != nil {
				e.SetXMP(xmp)
			}
			for k := 0; k < nf; k++ {
				_ = e.AddRawFrame(one(), time.Duration(20+k)*time.Millisecond, 0, 0, animation.BlendMethod(r.Intn(2)), animation.DisposeMethod(r.Intn(2)))
			}
			err = e.Close()
		}
		if err != nil {
			rep.Count("odd-meta:assemble-error:" + tag)
			continue
		}
		data := append([]byte{}, buf.Bytes()...)
		rep.Count(fmt.Sprintf("odd-meta:%s:frames=%d", tag, nf))
		rep.Count(fmt.Sprintf("odd-meta:icc=%v,exif=%v,xmp=%v", icc != nil, exif != nil, xmp != nil))
		e2eRIFFSizeExact(rep, data, "mux-fresh")
		out = append(out, cInput{data, "mux-fresh"})
	}
	return out
}

// e2eStrayAnimStills: hand-assembled VP8X stills whose animation flag is clear but which carry an ANIM chunk
// (6 bytes or longer, loop count 1..65535, random background colour) before or after the image chunk(s).
func e2eStrayAnimStills(rep *Report) []cInput {
	n := 24
	if rep.Tier == "thorough" {
		n = 400
	}
	var out []cInput
	for i := 0; i < n; i++ {
		r := NewRNG(rep.Seed, 0x1650000+uint64(i))
		sz := [][2]int{{1, 1}, {3, 2}, {8, 8}, {13, 7}, {16, 16}}[r.Intn(5)]
		w, h := sz[0], sz[1]
		flags := byte(0)
		var imgc []byte
		switch i % 3 {
		case 0:
			imgc = chunk("VP8L", rawFrame(r, w, h, true, AlphaNone))
		case 1:
			imgc = chunk("VP8 ", rawFrame(r, w, h, false, AlphaNone))
		default:
			a, _ := e2eAlphPayload(r, w, h, r.Intn(e2eNumPlaneClasses), r.Intn(e2eNumAlphEncodings))
			imgc = append(chunk("ALPH", a), chunk("VP8 ", rawFrame(r, w, h, false, AlphaNone))...)
			flags |= 0x10
		}
		loop := 1 + r.Intn(65535)
		if r.Chance(1, 3) {
			loop = 1 + r.Intn(9)
		}
		ap := []byte{byte(r.Next()), byte(r.Next()), byte(r.Next()), byte(r.Next()), byte(loop), byte(loop >> 8)}
		if r.Chance(1, 5) {
			ap = append(ap, r.Bytes(1+r.Intn(3))...)
		}
		anim := chunk("ANIM", ap)
		exif := r.Chance(1, 3)
		if exif {
			flags |= 0x08
		}
		body := chunk("VP8X", vp8xPayload(flags, w, h))
		pos := (i / 3) % 3
		if pos == 0 {
			body = append(body, anim...)
		}
		body = append(body, imgc...)
		if pos == 1 {
			body = append(body, anim...)
		}
		if exif {
			body = append(body, chunk("EXIF", r.Bytes(1+r.Intn(7)))...)
		}
		if pos == 2 {
			body = append(body, anim...)
		}
		out = append(out, cInput{riff(body), fmt.Sprintf("still+stray-anim:%s", []string{"before-image", "after-image", "last"}[pos])})
	}
	return out
}

// e2eStillIsStill: a file without the VP8X animation flag is a still for every reader: Decode accepts it,
// GetFeatures / Demuxer say not animated, one frame, loop count 0; animation.DecodeBytes gives one frame, loop 0.
func e2eStillIsStill(rep *Report, data []byte, kind string) {
	add := func(sig, detail string) {
		rep.Add(Finding{Kind: "property", Property: "C16", Signature: "views:" + sig, Detail: fmt.Sprintf("%s (%s)", detail, kind),
			Input: map[string]any{"op": "c16", "hex": hx(data)}})
	}
	ft, ferr := webp.GetFeatures(bytes.NewReader(data))
	d, derr := mux.NewDemuxer(data)
	a, aerr := animation.DecodeBytes(data)
	_, xerr := webp.Decode(bytes.NewReader(data))
	if ferr != nil || derr != nil || aerr != nil || xerr != nil {
		add("still-rejected", fmt.Sprintf("still with a stray ANIM chunk: GetFeatures err=%v, NewDemuxer err=%v, animation.DecodeBytes err=%v, Decode err=%v", ferr, derr, aerr, xerr))
		return
	}
	if ft.HasAnimation || d.GetFeatures().HasAnimation || ft.FrameCount != 1 || d.NumFrames() != 1 || len(a.Frames) != 1 ||
		ft.LoopCount != 0 || d.LoopCount() != 0 || a.LoopCount != 0 {
		add("still-not-still", fmt.Sprintf("animation flag clear, stray ANIM chunk: GetFeatures anim=%v frames=%d loop=%d; demuxer anim=%v frames=%d loop=%d; animation.DecodeBytes frames=%d loop=%d",
			ft.HasAnimation, ft.FrameCount, ft.LoopCount, d.GetFeatures().HasAnimation, d.NumFrames(), d.LoopCount(), len(a.Frames), a.LoopCount))
	}
}

// viewsAgree compares GetFeatures, DecodeConfig, Demuxer and animation.DecodeBytes on one file.
func viewsAgree(rep *Report, data []byte, kind string) {
	ft, ferr := webp.GetFeatures(bytes.NewReader(data))
	d, derr := mux.NewDemuxer(data)
	a, aerr := animation.DecodeBytes(data)
	add := func(sig, detail string) {
		rep.Add(Finding{Kind: "property", Property: "C16", Signature: "views:" + sig, Detail: fmt.Sprintf("%s (%s)", detail, kind),
			Input: map[string]any{"op": "c16", "hex": hx(data)}})
	}
	if (ferr == nil) != (derr == nil) || (derr == nil) != (aerr == nil) {
		add("accept-disagree", fmt.Sprintf("GetFeatures err=%v, NewDemuxer err=%v, animation.DecodeBytes err=%v", ferr, derr, aerr))
		return
	}
	if ferr != nil {
		return
	}
	p := goParserCanvas(data)
	df := d.GetFeatures()
	if p.cw != df.Width || p.ch != df.Height || a.CanvasWidth != df.Width || a.CanvasHeight != df.Height {
		add("canvas", fmt.Sprintf("parser canvas %dx%d, demuxer %dx%d, animation %dx%d", p.cw, p.ch, df.Width, df.Height, a.CanvasWidth, a.CanvasHeight))
	}
	if ft.HasAnimation != df.HasAnimation {
		add("animation-flag", fmt.Sprintf("GetFeatures %v, demuxer %v", ft.HasAnimation, df.HasAnimation))
	}
	if ft.FrameCount != d.NumFrames() || len(a.Frames) != d.NumFrames() {
		add("frame-count", fmt.Sprintf("GetFeatures %d, demuxer %d, animation %d", ft.FrameCount, d.NumFrames(), len(a.Frames)))
	}
	if ft.LoopCount != d.LoopCount() || a.LoopCount != d.LoopCount() {
		add("loop-count", fmt.Sprintf("GetFeatures %d, demuxer %d, animation %d", ft.LoopCount, d.LoopCount(), a.LoopCount))
	}
	cfg, cerr := webp.DecodeConfig(bytes.NewReader(data))
	if !ft.HasAnimation {
		if cerr != nil || cfg.Width != ft.Width || cfg.Height != ft.Height {
			add("config-vs-features", fmt.Sprintf("DecodeConfig %dx%d err=%v, GetFeatures %dx%d", cfg.Width, cfg.Height, cerr, ft.Width, ft.Height))
		}
		return
	}
	// animations: every header query reports the CANVAS - the VP8X fields themselves, GetFeatures, DecodeConfig,
	// image.DecodeConfig, the demuxer and the animation reader - whatever size and position the first frame has
	xw, xh := e2eVP8XCanvas(data)
	c2, name, err2 := image.DecodeConfig(bytes.NewReader(data))
	if cerr != nil || err2 != nil || name != "webp" || cfg.Width != df.Width || cfg.Height != df.Height || c2.Width != df.Width || c2.Height != df.Height ||
		cfg.Width != a.CanvasWidth || cfg.Height != a.CanvasHeight || (xw > 0 && (cfg.Width != xw || cfg.Height != xh)) {
		add("config-vs-canvas", fmt.Sprintf("animation: DecodeConfig %dx%d (err=%v), image.DecodeConfig %dx%d (%q, err=%v); VP8X canvas %dx%d, demuxer %dx%d, animation.DecodeBytes %dx%d%s",
			cfg.Width, cfg.Height, cerr, c2.Width, c2.Height, name, err2, xw, xh, df.Width, df.Height, a.CanvasWidth, a.CanvasHeight, e2eFirstFrameDesc(d)))
	}
	if ft.Width != df.Width || ft.Height != df.Height || (xw > 0 && (df.Width != xw || df.Height != xh)) {
		add("features-vs-canvas", fmt.Sprintf("animation: GetFeatures %dx%d, VP8X canvas %dx%d, demuxer %dx%d%s", ft.Width, ft.Height, xw, xh, df.Width, df.Height, e2eFirstFrameDesc(d)))
	}
	if f0, err := d.Frame(0); err == nil {
		if f0.Width < df.Width || f0.Height < df.Height {
			rep.Count("anim:first-frame-smaller-than-canvas")
		}
		if f0.OffsetX != 0 || f0.OffsetY != 0 {
			rep.Count("anim:first-frame-at-offset")
		}
	}
	rep.Count("anim:config-vs-canvas-checked")
}

// e2eVP8XCanvas reads the canvas fields of a leading VP8X chunk by hand (0, 0 when the file has none).
func e2eVP8XCanvas(b []byte) (int, int) {
	if len(b) < 30 || string(b[12:16]) != "VP8X" {
		return 0, 0
	}
	return 1 + int(b[24]) + int(b[25])<<8 + int(b[26])<<16, 1 + int(b[27]) + int(b[28])<<8 + int(b[29])<<16
}

func e2eFirstFrameDesc(d *mux.Demuxer) string {
	f0, err := d.Frame(0)
	if err != nil {
		return ""
	}
	return fmt.Sprintf("; first frame %dx%d at (%d,%d)", f0.Width, f0.Height, f0.OffsetX, f0.OffsetY)
}

// ALPH plane classes and encodings (hand-assembled and muxer-assembled files draw from both).
const (
	e2ePlaneOpaque   = iota // all 255: a PRESENT plane that happens to be opaque everywhere
	e2ePlaneZero            // all 0
	e2ePlane254             // all 254
	e2ePlaneUniform         // one random value
	e2ePlaneOneHole         // 255 except one pixel (first / last / random position)
	e2ePlaneNoise           // noise
	e2ePlaneGradient        // horizontal ramp
	e2eNumPlaneClasses
)

var e2ePlaneNames = []string{"all255", "all0", "all254", "uniform", "255-but-one", "noise", "gradient"}

// encodings: method (0 raw, 1 VP8L) x filter 0..3 x pre-processing bit
const e2eNumAlphEncodings = 16

func e2eAlphPlane(r *RNG, w, h, cls int) []byte {
	p := make([]byte, w*h)
	u := byte(r.Next())
	for i := range p {
		switch cls {
		case e2ePlaneOpaque, e2ePlaneOneHole:
			p[i] = 255
		case e2ePlaneZero:
			p[i] = 0
		case e2ePlane254:
			p[i] = 254
		case e2ePlaneUniform:
			p[i] = u
		case e2ePlaneNoise:
			p[i] = byte(r.Next())
		default:
			p[i] = byte((i % w) * 255 / maxi(w-1, 1))
		}
	}
	if cls == e2ePlaneOneHole {
		p[[]int{0, len(p) - 1, r.Intn(len(p))}[r.Intn(3)]] = []byte{0, 1, 128, 254}[r.Intn(4)]
	}
	return p
}

// e2eAlphPayload: an ALPH chunk payload for a w x h plane of class cls in encoding enc (bit 0: VP8L-compressed,
// bits 1-2: prediction filter 0..3, bit 3: pre-processing bits set), written by the package's own alpha encoder
// (verifapi.AlphaEncodeInternal; it stores the filtered plane raw when compression does not pay).
func e2eAlphPayload(r *RNG, w, h, cls, enc int) ([]byte, []string) {
	plane := e2eAlphPlane(r, w, h, cls)
	method, filter, pre := enc&1, (enc>>1)&3, enc&8 != 0
	if w*h > 40000 {
		method = 0 // (large planes: raw only)
	}
	out, _, err := verifapi.AlphaEncodeInternal(plane, w, h, method, filter, pre, r.Intn(7))
	if err != nil || len(out) == 0 {
		out = append([]byte{0}, plane...)
		method, filter, pre = 0, 0, false
	}
	return out, []string{"plane=" + e2ePlaneNames[cls], fmt.Sprintf("enc=%s/filter%d", []string{"raw", "vp8l"}[int(out[0]&3)&1], (out[0]>>2)&3), fmt.Sprintf("pre-processing-bits=%d", out[0]>>4&3)}
}

type canvasWH struct{ cw, ch int }

func goParserCanvas(data []byte) canvasWH {
	s := goParser(data)
	var c canvasWH
	for _, f := range strings.Fields(s) {
		if strings.HasPrefix(f, "cw=") {
			fmt.Sscanf(f, "cw=%d", &c.cw)
		}
		if strings.HasPrefix(f, "ch=") {
			fmt.Sscanf(f, "ch=%d", &c.ch)
		}
	}
	return c
}

// wellFormedLayouts assembles self-consistent containers (still canvas = image size, frames inside canvas,
// ANIM before ANMF, exact RIFF size) that vary everything C16 lists as allowed. ALPH chunks: zero-length, or a
// plane drawn from the plane classes (all 255, all 0, all 254, one uniform value, 255 except one pixel, noise,
// gradient) in every ALPH encoding (raw / VP8L-compressed x filters 0..3 x pre-processing bits). Animations: 1..3
// frames, each with its own bitstream (sizes differ), offsets 0/2/4, canvas = extent of the frames or larger - so
// the first frame is often smaller than the canvas and / or away from the origin.
func wellFormedLayouts(r *RNG, seeds []Seed, n int, count func(string)) []cInput {
	var vp8, vp8l [][]byte
	for _, s := range seeds {
		if !s.Still || len(s.Data) < 30 {
			continue
		}
		for _, c := range scanChunks(s.Data) {
			end := c.off + 8 + c.size
			if end > len(s.Data) {
				continue
			}
			pl := s.Data[c.off+8 : end]
			switch string(s.Data[c.off : c.off+4]) {
			case "VP8 ":
				vp8 = append(vp8, pl)
			case "VP8L":
				vp8l = append(vp8l, pl)
			}
		}
	}
	dims := func(pl []byte, lossless bool) (int, int) {
		if lossless {
			bits := uint32(pl[1]) | uint32(pl[2])<<8 | uint32(pl[3])<<16 | uint32(pl[4])<<24
			return int(bits&0x3fff) + 1, int((bits>>14)&0x3fff) + 1
		}
		return (int(pl[6]) | int(pl[7])<<8) & 0x3fff, (int(pl[8]) | int(pl[9])<<8) & 0x3fff
	}
	type frameImg struct {
		pl       []byte
		lossless bool
		w, h     int
		alph     []byte // nil: no ALPH chunk
		hasAlph  bool
	}
	// one image chunk (+ optional ALPH) of a random seed bitstream
	pick := func(lossless bool) (frameImg, string) {
		f := frameImg{lossless: lossless}
		if lossless {
			f.pl = vp8l[r.Intn(len(vp8l))]
		} else {
			f.pl = vp8[r.Intn(len(vp8))]
		}
		f.w, f.h = dims(f.pl, lossless)
		tag := ""
		if !lossless && r.Chance(1, 2) {
			f.hasAlph = true
			if r.Chance(1, 5) {
				f.alph = []byte{}
				tag = "+alph0"
			} else {
				// an ALPH payload of matching dimensions is needed for Decode
				var tags []string
				f.alph, tags = e2eAlphPayload(r, f.w, f.h, r.Intn(e2eNumPlaneClasses), r.Intn(e2eNumAlphEncodings))
				for _, t := range tags {
					count("layout-alph:" + t)
				}
				tag = "+alph"
			}
		}
		return f, tag
	}
	imgChunks := func(f frameImg) []byte {
		var b []byte
		if f.hasAlph {
			b = append(b, chunk("ALPH", f.alph)...)
		}
		if f.lossless {
			b = append(b, chunk("VP8L", f.pl)...)
		} else {
			b = append(b, chunk("VP8 ", f.pl)...)
		}
		return b
	}
	var out []cInput
	for i := 0; i < n; i++ {
		lossless := r.Bool()
		anim := r.Chance(1, 3)
		flags := byte(0)
		kind := "still"
		var frames []frameImg
		offs := [][2]int{}
		cw, ch := 0, 0
		if anim {
			kind = "anim"
			flags |= 0x02
			nf := 1 + r.Intn(3)
			for k := 0; k < nf; k++ {
				fl := lossless
				if r.Chance(1, 3) {
					fl = !fl // mixed codecs
				}
				f, _ := pick(fl)
				frames = append(frames, f)
				ox, oy := 2*r.Intn(3), 2*r.Intn(3)
				offs = append(offs, [2]int{ox, oy})
				cw, ch = maxi(cw, ox+f.w), maxi(ch, oy+f.h)
				if f.hasAlph {
					flags |= 0x10
				}
			}
			if r.Chance(1, 4) {
				cw, ch = cw+r.Intn(4), ch+r.Intn(4) // canvas larger than the extent of the frames
			}
			if frames[0].w < cw || frames[0].h < ch {
				count("layout-anim:first-frame-smaller-than-canvas")
			}
			if offs[0] != [2]int{0, 0} {
				count("layout-anim:first-frame-at-offset")
			}
		} else {
			f, tag := pick(lossless)
			frames = append(frames, f)
			kind += tag
			cw, ch = f.w, f.h
			if f.hasAlph {
				flags |= 0x10
			}
		}
		icc, exif, xmp := r.Chance(1, 3), r.Chance(1, 3), r.Chance(1, 3)
		if icc {
			flags |= 0x20
		}
		if exif {
			flags |= 0x08
		}
		if xmp {
			flags |= 0x04
		}
		if r.Chance(1, 4) { // flags over/under-stating optional chunks
			flags ^= []byte{0x10, 0x20, 0x08, 0x04}[r.Intn(4)]
			kind += "+flagskew"
		}
		var body []byte
		body = append(body, chunk("VP8X", vp8xPayload(flags, cw, ch))...)
		if icc {
			body = append(body, chunk("ICCP", r.Bytes(r.Intn(7)))...)
		}
		if r.Chance(1, 4) {
			body = append(body, chunk("UNKN", r.Bytes(r.Intn(6)))...)
			kind += "+unknown"
		}
		metaBefore := r.Bool()
		if exif && metaBefore {
			body = append(body, chunk("EXIF", r.Bytes(1+r.Intn(7)))...)
		}
		if anim {
			body = append(body, chunk("ANIM", []byte{byte(r.Next()), byte(r.Next()), byte(r.Next()), byte(r.Next()), byte(r.Intn(5)), byte(r.Intn(2))})...)
			for k, f := range frames {
				p := append([]byte{}, le24(offs[k][0]/2)...)
				p = append(p, le24(offs[k][1]/2)...)
				p = append(p, le24(f.w-1)...)
				p = append(p, le24(f.h-1)...)
				p = append(p, le24(r.Intn(500))...)
				p = append(p, byte(r.Intn(4)))
				p = append(p, imgChunks(f)...)
				body = append(body, chunk("ANMF", p)...)
			}
		} else {
			body = append(body, imgChunks(frames[0])...)
		}
		if exif && !metaBefore {
			body = append(body, chunk("EXIF", r.Bytes(1+r.Intn(7)))...)
		}
		if xmp {
			body = append(body, chunk("XMP ", r.Bytes(r.Intn(8)))...)
		}
		if r.Chance(1, 5) {
			body = append(body, chunk("UNKN", r.Bytes(r.Intn(5)))...)
		}
		out = append(out, cInput{riff(body), kind})
	}
	return out
}

// suiteC17: every proper prefix of every valid still either fails or gives the full file's result.
func suiteC17(rep *Report) error {
	rep.Rule = "valid still files (wide stills of widths 1023..4097 x heights 1..4 with small payloads, lossy with 1/2/4/8 partitions, lossless, lossy+alpha raw/compressed, extended with metadata before and after the image, odd payloads, testdata); for EVERY prefix length 0..len-1: Decode, DecodeConfig and GetFeatures - Decode and DecodeConfig both through a bytes.Reader and through a reader that offers only Read (no Len()) - must fail or equal the full-file result (exhaustive per file); a panic of any entry point is a finding (C05 and C17), not the end of the suite; the same prefixes go through the Lean container model (features/config ops) for correspondence; non-trivial = prefix length > 12"
	r := NewRNG(rep.Seed, 17)
	nfiles := 40
	maxLen := 3500
	if rep.Tier == "thorough" {
		nfiles = 600
		maxLen = 20000
	}
	var files []Seed
	for _, s := range BuildSeeds(rep.Seed, rep.Tier == "thorough") {
		if s.Still && !isAnimatedFile(s.Data) && len(s.Data) <= maxLen {
			files = append(files, s)
		}
	}
	// threshold-crossing stills with small payloads (wide rows: widths 1023..4097 x heights 1..4)
	{
		nWide := 5
		if rep.Tier == "thorough" {
			nWide = 60
		}
		for _, s := range WideSeeds(rep.Seed, 3) {
			if nWide > 0 && s.Still && len(s.Data) <= 1500 {
				files = append(files, s)
				rep.Count("file:wide")
				nWide--
			}
		}
	}
	for k := 0; len(files) < nfiles && k < nfiles*3; k++ {
		w, h := 1+r.Intn(40), 1+r.Intn(40)
		img := GenImage(r, w, h, r.Intn(NumImgClasses), r.Intn(NumAlphaClasses))
		o := webp.DefaultOptions()
		o.Lossless = r.Chance(1, 3)
		o.Method = r.Intn(7)
		o.Quality = float32(20 + r.Intn(80))
		o.Partitions = r.Intn(4)
		o.AlphaCompression = r.Intn(2)
		if r.Chance(1, 3) {
			o.EXIF = r.Bytes(1 + r.Intn(9))
		}
		if r.Chance(1, 4) {
			o.ICC = r.Bytes(1 + r.Intn(9))
		}
		if r.Chance(1, 4) {
			o.XMP = r.Bytes(r.Intn(9) + 1)
		}
		b, err := encodeBytes(img, o)
		if err != nil || len(b) > maxLen {
			continue
		}
		files = append(files, Seed{fmt.Sprintf("gen/%dx%d/lossless=%v/part=%d/meta=%v", w, h, o.Lossless, o.Partitions, o.EXIF != nil || o.ICC != nil || o.XMP != nil), b, true})
		if r.Chance(1, 3) {
			// metadata AFTER and BEFORE the image via the muxer
			icc, xmp := r.Bytes(1+r.Intn(5)), r.Bytes(1+r.Intn(5))
			if st, pm := guard(func() string {
				d, err := mux.NewDemuxer(b)
				if err != nil {
					return "err"
				}
				f, _ := d.Frame(0)
				m := mux.NewMuxer()
				data := f.Data
				if len(f.AlphaData) > 0 {
					data = alphPrefixed(f.AlphaData, f.Data)
				}
				_ = m.AddFrame(data, nil)
				m.SetICCProfile(icc)
				m.SetXMP(xmp)
				var mb bytes.Buffer
				if m.Assemble(&mb) == nil && mb.Len() <= maxLen {
					files = append(files, Seed{"mux-still", mb.Bytes(), true})
				}
				return "ok"
			}); st == "panic" {
				rep.Add(Finding{Kind: "property", Property: "C05", Signature: "panic:NewDemuxer:" + panicClass(pm), Detail: "demuxing / re-muxing an encoder output panicked: " + pm,
					Input: map[string]any{"op": "c17", "hex": hx(b), "prefix": len(b)}})
			}
		}
	}
	rep.Exhaustive = false
	var lines []string
	var goOut []string
	type ref struct {
		file int
		n    int
		op   string
	}
	var refs []ref
	// every call into /repo runs under guard(): a panic is a finding (C05 panic:<entry>:<class> and C17
	// prefix:<entry>:panics), not the end of the suite
	decodeLine := func(rd io.Reader) (string, string) {
		return guard(func() string {
			im, err := webp.Decode(rd)
			if err != nil {
				return "err"
			}
			return digest(toNRGBA(im).Pix) + imgModelName(im) + im.Bounds().String()
		})
	}
	for fi, f := range files {
		fullPix, fpm := decodeLine(bytes.NewReader(f.Data))
		if fullPix == "err" || fullPix == "panic" {
			rep.Add(Finding{Kind: "property", Property: "C17", Signature: "prefix:seed-not-decodable", Detail: f.Name + ": " + fullPix + " " + fpm,
				Input: map[string]any{"op": "c17", "hex": hx(f.Data)}})
			continue
		}
		fullCfg, _ := guard(func() string { return goConfig(f.Data) })
		fullFt, _ := guard(func() string { return goFeatures(f.Data) })
		if s, _ := decodeLine(streamOnly{bytes.NewReader(f.Data)}); s != fullPix {
			rep.Add(Finding{Kind: "property", Property: "C17", Signature: "prefix:decode:full-file-differs-stream-reader", Detail: f.Name + ": Decode through a reader without Len() gives " + short(s, 60) + " on the whole file",
				Input: map[string]any{"op": "c17", "hex": hx(f.Data), "prefix": len(f.Data)}})
		}
		for n := 0; n < len(f.Data); n++ {
			p := f.Data[:n:n]
			in := map[string]any{"op": "c17", "hex": hx(f.Data), "prefix": n}
			add := func(sig, detail string) {
				rep.Add(Finding{Kind: "property", Property: "C17", Signature: "prefix:" + sig,
					Detail: fmt.Sprintf("%s, prefix %d of %d bytes: %s", f.Name, n, len(f.Data), detail), Input: in})
			}
			panicked := func(entry, pm string) {
				rep.Add(Finding{Kind: "property", Property: "C05", Signature: "panic:" + entry + ":" + panicClass(pm), Detail: entry + " panicked on a prefix: " + pm, Input: in})
				add(strings.ToLower(strings.TrimPrefix(strings.TrimPrefix(entry, "Decode"), "Get"))+":panics", entry+" panicked: "+pm)
			}
			s, pm := decodeLine(bytes.NewReader(p))
			if s == "panic" {
				rep.Add(Finding{Kind: "property", Property: "C05", Signature: "panic:Decode:" + panicClass(pm), Detail: "Decode panicked on a prefix: " + pm, Input: in})
				add("decode:panics", "Decode panicked: "+pm)
			} else if s != "err" && s != fullPix {
				add("decode:differs", "Decode returned a different picture than the full file")
			}
			// the same prefix through a reader that offers nothing but Read (no Len(), no ReadFrom): the
			// package then collects the bytes in a buffer of its own, with spare capacity behind them
			s2, pm2 := decodeLine(streamOnly{bytes.NewReader(p)})
			if s2 == "panic" {
				rep.Add(Finding{Kind: "property", Property: "C05", Signature: "panic:Decode:" + panicClass(pm2), Detail: "Decode (stream reader) panicked on a prefix: " + pm2, Input: in})
				add("decode:panics", "Decode (reader without Len) panicked: "+pm2)
			} else if s2 != "err" && s2 != fullPix {
				add("decode:differs-stream-reader", "Decode through a reader without Len() returned a different picture than the full file")
			} else if (s == "err") != (s2 == "err") && s != "panic" {
				add("decode:reader-kinds-disagree", fmt.Sprintf("bytes.Reader: %s, reader without Len(): %s", short(s, 20), short(s2, 20)))
			}
			c, cpm := guard(func() string { return goConfig(p) })
			if c == "panic" {
				panicked("DecodeConfig", cpm)
			} else if !strings.HasPrefix(c, "err") && c != fullCfg {
				add("config:differs", fmt.Sprintf("DecodeConfig %q vs full %q", c, fullCfg))
			}
			if c2, cpm2 := guard(func() string {
				cf, err := webp.DecodeConfig(streamOnly{bytes.NewReader(p)})
				if err != nil {
					return "err " + containerErrName(err)
				}
				return fmt.Sprintf("ok cm=%s w=%d h=%d", cmName(cf.ColorModel), cf.Width, cf.Height)
			}); c2 == "panic" {
				panicked("DecodeConfig", cpm2)
			} else if !strings.HasPrefix(c2, "err") && c2 != fullCfg {
				add("config:differs-stream-reader", fmt.Sprintf("DecodeConfig (reader without Len) %q vs full %q", c2, fullCfg))
			}
			ft, fpm := guard(func() string { return goFeatures(p) })
			if ft == "panic" {
				panicked("GetFeatures", fpm)
			} else if !strings.HasPrefix(ft, "err") && ft != fullFt {
				add("features:differs", fmt.Sprintf("GetFeatures %q vs full %q", ft, fullFt))
			}
			rep.Eval(n > 12, append([]byte(fmt.Sprintf("%d:%d:", fi, n)), p...))
			if fi < 12 {
				h := hx(p)
				lines = append(lines, "features "+h, "config "+h)
				goOut = append(goOut, ft, c)
				refs = append(refs, ref{fi, n, "features"}, ref{fi, n, "config"})
			}
		}
		rep.Count("file:" + strings.SplitN(f.Name, "/", 2)[0])
		if fi < 4 {
			rep.Sample(map[string]any{"file": f.Name, "len": len(f.Data), "prefixes": len(f.Data)})
		}
	}
	rep.Extra["files"] = len(files)
	rep.Extra["exhaustive_per_file"] = true
	lean, err := RunDriver(lines)
	if err != nil {
		return err
	}
	for i := range lines {
		if lean[i] != goOut[i] {
			rf := refs[i]
			rep.Add(Finding{Kind: "correspondence", Property: "", Signature: "container-model:" + rf.op,
				Detail: fmt.Sprintf("prefix %d of %s: go=%q lean=%q", rf.n, files[rf.file].Name, short(goOut[i], 200), short(lean[i], 200)),
				Input:  map[string]any{"op": rf.op, "hex": hx(files[rf.file].Data[:rf.n])}})
		}
	}
	return nil
}

// streamOnly hides every method of a reader except Read (no Len, Size, ReadFrom, WriteTo, Seek ...).
type streamOnly struct{ r io.Reader }

func (s streamOnly) Read(p []byte) (int, error) { return s.r.Read(p) }

// isAnimatedFile: VP8X header with the animation flag set.
func isAnimatedFile(b []byte) bool {
	return len(b) >= 21 && string(b[12:16]) == "VP8X" && b[20]&2 != 0
}
