package main

import (
	"bytes"
	"fmt"
	"image"
	"os"
	"path/filepath"
	"time"

	webp "github.com/deepteams/webp"
	"github.com/deepteams/webp/animation"
	"github.com/deepteams/webp/mux"
)

// Seed is a valid (or deliberately structured) WebP file with a label.
type Seed struct {
	Name  string
	Data  []byte
	Still bool
}

func mustEncode(img image.Image, o *webp.EncoderOptions) []byte {
	var buf bytes.Buffer
	if err := webp.Encode(&buf, img, o); err != nil {
		panic(fmt.Sprintf("corpus encode: %v", err))
	}
	return buf.Bytes()
}

// stripRIFF returns the first chunk payload of a simple file (VP8/VP8L bitstream).
func firstChunkPayload(file []byte) []byte {
	n := int(file[16]) | int(file[17])<<8 | int(file[18])<<16 | int(file[19])<<24
	return file[20 : 20+n]
}

// rawFrame returns a bare bitstream for muxer input.
func rawFrame(r *RNG, w, h int, lossless bool, acls int) []byte {
	img := GenImage(r, w, h, r.Intn(NumImgClasses), acls)
	o := webp.DefaultOptions()
	o.Lossless = lossless
	o.Method = 2
	if !lossless {
		// bare VP8 only (alpha handled by caller)
		img2 := GenImage(r, w, h, ClsPhoto, AlphaNone)
		return firstChunkPayload(mustEncode(img2, o))
	}
	return firstChunkPayload(mustEncode(img, o))
}

// lossyWithAlpha returns (vp8 bitstream, alph payload) from an extended still.
func lossyWithAlpha(r *RNG, w, h int, acls int, o *webp.EncoderOptions) (vp8, alph []byte) {
	img := GenImage(r, w, h, ClsPhoto, acls)
	if o == nil {
		o = webp.DefaultOptions()
		o.Method = 2
	}
	file := mustEncode(img, o)
	d, err := mux.NewDemuxer(file)
	if err != nil {
		panic(err)
	}
	f, _ := d.Frame(0)
	return f.Data, f.AlphaData
}

func alphPrefixed(alph, vp8 []byte) []byte {
	var b bytes.Buffer
	b.WriteString("ALPH")
	n := len(alph)
	b.Write([]byte{byte(n), byte(n >> 8), byte(n >> 16), byte(n >> 24)})
	b.Write(alph)
	if n&1 == 1 {
		b.WriteByte(0)
	}
	b.Write(vp8)
	return b.Bytes()
}

// BuildSeeds produces the deterministic seed corpus (encoder, muxer and animation outputs + testdata).
func BuildSeeds(seed uint64, rich bool) []Seed {
	var out []Seed
	r := NewRNG(seed, 0xC0FFEE)
	add := func(name string, data []byte, still bool) {
		out = append(out, Seed{name, data, still})
	}
	// testdata
	files, _ := filepath.Glob("/repo/testdata/*.webp")
	for _, f := range files {
		if b, err := os.ReadFile(f); err == nil {
			add("testdata/"+filepath.Base(f), b, true)
		}
	}
	sizes := [][2]int{{1, 1}, {7, 5}, {16, 16}, {17, 33}}
	if rich {
		sizes = append(sizes, [2]int{40, 24}, [2]int{3, 70})
	}
	meta := [][3][]byte{{nil, nil, nil}, {[]byte("ICCDATA"), nil, nil}, {nil, []byte("EXIF\x00\x01"), []byte("<x:xmp/>")}, {[]byte("i"), []byte("ee"), []byte("xxx")}}
	for si, sz := range sizes {
		for _, lossless := range []bool{false, true} {
			for ai, acls := range []int{AlphaNone, AlphaBinary, AlphaGradient} {
				o := webp.DefaultOptions()
				o.Lossless = lossless
				o.Method = 1 + (si+ai)%4
				m := meta[(si+ai)%len(meta)]
				o.ICC, o.EXIF, o.XMP = m[0], m[1], m[2]
				if !lossless {
					o.Partitions = (si + ai) % 4
					o.AlphaCompression = ai % 2
				}
				img := GenImage(r, sz[0], sz[1], (si*3+ai)%NumImgClasses, acls)
				add(fmt.Sprintf("enc/%dx%d/lossless=%v/alpha=%s/meta=%d", sz[0], sz[1], lossless, alphaClassNames[acls], (si+ai)%len(meta)), mustEncode(img, o), true)
			}
		}
	}
	// muxer outputs: stills and animations of both codecs, with/without alpha, metadata, unknown chunks
	for k := 0; k < 6; k++ {
		m := mux.NewMuxer()
		nf := 1 + k%3
		w, h := 4+2*k, 6+k
		for i := 0; i < nf; i++ {
			var data []byte
			switch (k + i) % 3 {
			case 0:
				data = rawFrame(r, w, h, true, AlphaBinary)
			case 1:
				data = rawFrame(r, w, h, false, AlphaNone)
			default:
				v, a := lossyWithAlpha(r, w, h, AlphaGradient, nil)
				data = alphPrefixed(a, v)
			}
			_ = m.AddFrame(data, &mux.FrameOptions{Duration: 10 * (i + 1), OffsetX: 2 * (i % 2), OffsetY: 2 * (k % 2),
				BlendMode: mux.BlendMode(i % 2), DisposeMode: mux.DisposeMode((i + k) % 2)})
		}
		if k%2 == 1 {
			m.SetICCProfile([]byte("icc-profile"))
			m.SetXMP([]byte("xmp"))
		}
		if k%3 == 2 {
			m.SetEXIF([]byte("exif!"))
			_ = m.AddChunk(mux.ChunkID(0x4e4b4e55), []byte("unknown-chunk")) // "UNKN"
		}
		m.SetLoopCount(k)
		m.SetBackgroundColor(uint32(0x11223344 * (k + 1)))
		var buf bytes.Buffer
		if err := m.Assemble(&buf); err == nil {
			add(fmt.Sprintf("mux/%d", k), buf.Bytes(), nf == 1 && (k+0)%3 != 2)
		}
	}
	// animation encoder outputs
	for k := 0; k < 4; k++ {
		var buf bytes.Buffer
		w, h := 12+k, 10
		enc := animation.NewEncoder(&buf, w, h, &animation.EncodeOptions{Lossless: k%2 == 0, Quality: 60, LoopCount: k, AllowMixed: k == 3, Kmax: k})
		base := GenImage(r, w, h, ClsPal16, []int{AlphaNone, AlphaBinary, AlphaFewLevels, AlphaGradient}[k])
		for i := 0; i < 2+k; i++ {
			fr := image.NewNRGBA(base.Rect)
			copy(fr.Pix, base.Pix)
			for j := 0; j < 5; j++ {
				x, y := r.Intn(w), r.Intn(h)
				fr.Pix[fr.PixOffset(x, y)] ^= 0x55
			}
			_ = enc.AddFrame(fr, time.Duration(30+i)*time.Millisecond)
			base = fr
		}
		if err := enc.Close(); err == nil {
			add(fmt.Sprintf("anim/%d", k), buf.Bytes(), false)
		}
	}
	return out
}
