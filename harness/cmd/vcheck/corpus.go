package main

import (
	"bytes"
	"fmt"
	"image"
	"os"
	"path/filepath"
	"time"

	webp "github.com/deepteams/webp"
	"github.com/deepteams/webp/animation"
	"github.com/deepteams/webp/mux"
)

// Seed is a valid (or deliberately structured) WebP file with a label.
type Seed struct {
	Name  string
	Data  []byte
	Still bool
}

func mustEncode(img image.Image, o *webp.EncoderOptions) []byte {
	var buf bytes.Buffer
	if err := webp.Encode(&buf, img, o); err != nil {
		panic(fmt.Sprintf("corpus encode: %v", err))
	}
	return buf.Bytes()
}

// stripRIFF returns the first chunk payload of a simple file (VP8/VP8L bitstream).
func firstChunkPayload(file []byte) []byte {
	n := int(file[16]) | int(file[17])<<8 | int(file[18])<<16 | int(file[19])<<24
	return file[20 : 20+n]
}

// rawFrame returns a bare bitstream for muxer input.
func rawFrame(r *RNG, w, h int, lossless bool, acls int) []byte {
	img := GenImage(r, w, h, r.Intn(NumImgClasses), acls)
	o := webp.DefaultOptions()
	o.Lossless = lossless
	o.Method = 2
	if !lossless {
		// bare VP8 only (alpha handled by caller)
		img2 := GenImage(r, w, h, ClsPhoto, AlphaNone)
		return firstChunkPayload(mustEncode(img2, o))
	}
	return firstChunkPayload(mustEncode(img, o))
}

// lossyWithAlpha returns (vp8 bitstream, alph payload) from an extended still.
func lossyWithAlpha(r *RNG, w, h int, acls int, o *webp.EncoderOptions) (vp8, alph []byte) {
	img := GenImage(r, w, h, ClsPhoto, acls)
	if o == nil {
		o = webp.DefaultOptions()
		o.Method = 2
	}
	file := mustEncode(img, o)
	d, err := mux.NewDemuxer(file)
	if err != nil {
		panic(err)
	}
	f, _ := d.Frame(0)
	return f.Data, f.AlphaData
}

func alphPrefixed(alph, vp8 []byte) []byte {
	var b bytes.Buffer
	b.WriteString("ALPH")
	n := len(alph)
	b.Write([]byte{byte(n), byte(n >> 8), byte(n >> 16), byte(n >> 24)})
	b.Write(alph)
	if n&1 == 1 {
		b.WriteByte(0)
	}
	b.Write(vp8)
	return b.Bytes()
}

// BuildSeeds produces the deterministic seed corpus (encoder, muxer and animation outputs + testdata).
func BuildSeeds(seed uint64, rich bool) []Seed {
	var out []Seed
	r := NewRNG(seed, 0xC0FFEE)
	add := func(name string, data []byte, still bool) {
		out = append(out, Seed{name, data, still})
	}
	// testdata
	files, _ := filepath.Glob("/repo/testdata/*.webp")
	for _, f := range files {
		if b, err := os.ReadFile(f); err == nil {
			add("testdata/"+filepath.Base(f), b, true)
		}
	}
	sizes := [][2]int{{1, 1}, {7, 5}, {16, 16}, {17, 33}}
	if rich {
		sizes = append(sizes, [2]int{40, 24}, [2]int{3, 70})
	}
	meta := [][3][]byte{{nil, nil, nil}, {[]byte("ICCDATA"), nil, nil}, {nil, []byte("EXIF\x00\x01"), []byte("<x:xmp/>")}, {[]byte("i"), []byte("ee"), []byte("xxx")}}
	for si, sz := range sizes {
		for _, lossless := range []bool{false, true} {
			for ai, acls := range []int{AlphaNone, AlphaBinary, AlphaGradient} {
				o := webp.DefaultOptions()
				o.Lossless = lossless
				o.Method = 1 + (si+ai)%4
				m := meta[(si+ai)%len(meta)]
				o.ICC, o.EXIF, o.XMP = m[0], m[1], m[2]
				if !lossless {
					o.Partitions = (si + ai) % 4
					o.AlphaCompression = ai % 2
				}
				img := GenImage(r, sz[0], sz[1], (si*3+ai)%NumImgClasses, acls)
				add(fmt.Sprintf("enc/%dx%d/lossless=%v/alpha=%s/meta=%d", sz[0], sz[1], lossless, alphaClassNames[acls], (si+ai)%len(meta)), mustEncode(img, o), true)
			}
		}
	}
	// muxer outputs: stills and animations of both codecs, with/without alpha, metadata, unknown chunks
	for k := 0; k < 6; k++ {
		m := mux.NewMuxer()
		nf := 1 + k%3
		w, h := 4+2*k, 6+k
		for i := 0; i < nf; i++ {
			var data []byte
			switch (k + i) % 3 {
			case 0:
				data = rawFrame(r, w, h, true, AlphaBinary)
			case 1:
				data = rawFrame(r, w, h, false, AlphaNone)
			default:
				v, a := lossyWithAlpha(r, w, h, AlphaGradient, nil)
				data = alphPrefixed(a, v)
			}
			_ = m.AddFrame(data, &mux.FrameOptions{Duration: 10 * (i + 1), OffsetX: 2 * (i % 2), OffsetY: 2 * (k % 2),
				BlendMode: mux.BlendMode(i % 2), DisposeMode: mux.DisposeMode((i + k) % 2)})
		}
		if k%2 == 1 {
			m.SetICCProfile([]byte("icc-profile"))
			m.SetXMP([]byte("xmp"))
		}
		if k%3 == 2 {
			m.SetEXIF([]byte("exif!"))
			_ = m.AddChunk(mux.ChunkID(0x4e4b4e55), []byte("unknown-chunk")) // "UNKN"
		}
		m.SetLoopCount(k)
		m.SetBackgroundColor(uint32(0x11223344 * (k + 1)))
		var buf bytes.Buffer
		if err := m.Assemble(&buf); err == nil {
			add(fmt.Sprintf("mux/%d", k), buf.Bytes(), nf == 1 && (k+0)%3 != 2)
		}
	}
	// animation encoder outputs
	for k := 0; k < 4; k++ {
		var buf bytes.Buffer
		w, h := 12+k, 10
		enc := animation.NewEncoder(&buf, w, h, &animation.EncodeOptions{Lossless: k%2 == 0, Quality: 60, LoopCount: k, AllowMixed: k == 3, Kmax: k})
		base := GenImage(r, w, h, ClsPal16, []int{AlphaNone, AlphaBinary, AlphaFewLevels, AlphaGradient}[k])
		for i := 0; i < 2+k; i++ {
			fr := image.NewNRGBA(base.Rect)
			copy(fr.Pix, base.Pix)
			for j := 0; j < 5; j++ {
				x, y := r.Intn(w), r.Intn(h)
				fr.Pix[fr.PixOffset(x, y)] ^= 0x55
			}
			_ = enc.AddFrame(fr, time.Duration(30+i)*time.Millisecond)
			base = fr
		}
		if err := enc.Close(); err == nil {
			add(fmt.Sprintf("anim/%d", k), buf.Bytes(), false)
		}
	}
	return out
}

// WideSeeds: valid files with a small payload but a long row - the sizes of WideWidths x WideHeights
// (around the 1024 / 2048 / 4096-entry row buffers; heights 1..4: no line pair, one pair, pair + single
// last row, two pairs) - as lossy, lossy+alpha (VP8X + ALPH + VP8), lossless and as ANMF frames of a
// two-frame animation (frame 0 canvas-sized, frame 1 a sub-frame with DisposeBackground). Content is
// flat / gradient / sparse marks, so every file is a few hundred bytes to a few KB. every > 1 keeps each
// every-th (w, h) pair per kind, rotated by the seed.
func WideSeeds(seed uint64, every int) []Seed {
	var out []Seed
	if every < 1 {
		every = 1
	}
	k := 0
	for _, w := range WideWidths {
		for _, h := range WideHeights {
			k++
			for kind := 0; kind < 4; kind++ {
				if (k+kind+int(seed))%every != 0 {
					continue
				}
				r := NewRNG(seed, 0xD1DE0000+uint64(k*4+kind))
				cheap := r.Intn(NumCheapClasses)
				name := fmt.Sprintf("wide/%dx%d/%s/", w, h, cheapNames[cheap])
				o := webp.DefaultOptions()
				o.Method = 1 + r.Intn(4)
				o.Quality = float32([]int{30, 75, 90}[r.Intn(3)])
				switch kind {
				case 0: // lossy, opaque
					out = append(out, Seed{name + "lossy", mustEncode(GenCheapImage(r, w, h, cheap, AlphaNone), o), true})
				case 1: // lossy + alpha
					o.AlphaCompression = r.Intn(2)
					o.AlphaFiltering = r.Intn(3)
					acls := []int{AlphaGradient, AlphaBinary, AlphaSparse, AlphaSemiFlat}[r.Intn(4)]
					out = append(out, Seed{name + "lossy+alpha=" + alphaClassNames[acls], mustEncode(GenCheapImage(r, w, h, cheap, acls), o), true})
				case 2: // lossless
					o.Lossless = true
					acls := []int{AlphaNone, AlphaGradient, AlphaSparse}[r.Intn(3)]
					out = append(out, Seed{name + "lossless/alpha=" + alphaClassNames[acls], mustEncode(GenCheapImage(r, w, h, cheap, acls), o), true})
				case 3: // animation: ANMF frames of both codecs
					m := mux.NewMuxer()
					f0 := GenCheapImage(r, w, h, cheap, AlphaGradient)
					file := mustEncode(f0, o)
					d, err := mux.NewDemuxer(file)
					if err != nil {
						continue
					}
					fr, err := d.Frame(0)
					if err != nil {
						continue
					}
					data := fr.Data
					if len(fr.AlphaData) > 0 {
						data = alphPrefixed(fr.AlphaData, fr.Data)
					}
					_ = m.AddFrame(data, &mux.FrameOptions{Duration: 40, DisposeMode: mux.DisposeMode(r.Intn(2))})
					// sub-frame: full width (or starting at x = 1000), all rows but the first, dispose to background
					ox := 0
					if r.Bool() && w > 1002 {
						ox = 1000
					}
					oy := 0
					if h > 1 {
						oy = 2 * ((h - 1) / 2)
						if oy >= h {
							oy = 0
						}
					}
					o2 := webp.DefaultOptions()
					o2.Lossless = true
					o2.Method = 2
					sub := GenCheapImage(r, w-ox, h-oy, (cheap+1)%NumCheapClasses, AlphaBinary)
					_ = m.AddFrame(firstChunkPayload(mustEncode(sub, o2)), &mux.FrameOptions{Duration: 50, OffsetX: ox, OffsetY: oy, DisposeMode: mux.DisposeBackground, BlendMode: mux.BlendMode(r.Intn(2))})
					small := GenCheapImage(r, mini(w, 9), 1, CheapGradient, AlphaSemiFlat)
					_ = m.AddFrame(firstChunkPayload(mustEncode(small, o2)), &mux.FrameOptions{Duration: 60, OffsetX: 2 * r.Intn(3), BlendMode: mux.BlendAlpha})
					var buf bytes.Buffer
					if err := m.Assemble(&buf); err == nil {
						out = append(out, Seed{name + "anim", buf.Bytes(), false})
					}
				}
			}
		}
	}
	return out
}
