package main

// Suite "c01full" — property C01, the per-input certificate of the API-level round-trip theorem.
//
// Lean proves (Webp/Props/C01Full.lean `encode_decode_roundtrip`): for EVERY stream plan that is valid
// for the imported pixels (`ValidPlanFor`), Decode(Encode-with-that-plan) is the source picture. What
// stays per input is "the real encoder's search emitted such a plan". This suite checks exactly that
// hypothesis on real webp.Encode outputs, without running any decoder on the file:
//
//   Go:   img (any Go image type), opts (Method 0..6 x Quality x Exact x metadata) -> webp.Encode -> file
//         source pixels = color.NRGBAModel.Convert(img.At(x, y))
//   Lean: op c01full (Driver/C01Full.lean): take the VP8L payload out of the file with the container
//         model, RECONSTRUCT the plan from the payload (untrusted extractor), then evaluate
//           file    = the model emitter + model container writer, fed with the plan, give the file
//                     byte for byte                       (encodeAPIWith plan w h meta = ok file)
//           stream  = PlanCheck.streamValid plan           (⇒ StreamValidMeta, validPlanFor_sound)
//           encodes = PlanCheck.planEncodes plan (norm exact pixels)   (⇒ PlanEncodes)
//         all three 1  =>  by the theorem the file decodes to the source picture.
//
// The expected answer is the constant `ok file=1 stream=1 encodes=1 …`; the trailing fields
// (groups, bits, cb, xf, ntok) are statistics of the reconstructed plan and feed the distribution.

import (
	"bytes"
	"encoding/json"
	"fmt"
	"image"
	"os"
	"path/filepath"
	"runtime"
	"strconv"
	"strings"
	"sync"

	webp "github.com/deepteams/webp"
)

func init() {
	suites["c01full"] = suiteC01Full
	replayers["c01full"] = replayC01Full
	replayers["c07alph"] = replayC07Alph
}

type c01Case struct {
	desc  string
	line  string
	tname string
	cls   string
	o     *webp.EncoderOptions
	w, h  int
	thr   *ThresholdCase
	err   error
	flat  bool
	img   image.Image
	file  []byte
}

func c01Pixels(img image.Image) (string, bool) {
	want := expectedNRGBA(img)
	b := make([]byte, 0, len(want.Pix))
	for i := 0; i+3 < len(want.Pix); i += 4 {
		b = append(b, want.Pix[i+3], want.Pix[i], want.Pix[i+1], want.Pix[i+2])
	}
	return hx(b), isFlat(want)
}

var c01Quals = []float32{0, 10, 24, 25, 49, 50, 74, 75, 89, 90, 100}
var c01Sizes = [][2]int{{1, 1}, {1, 17}, {23, 1}, {2, 2}, {3, 5}, {7, 8}, {8, 8}, {9, 7}, {15, 16}, {16, 17}, {17, 33}, {31, 32}, {33, 17}, {64, 48}, {65, 3}, {96, 96}, {128, 40}, {40, 130}}
var c01Big = [][2]int{{317, 331}, {256, 401}, {1000, 101}, {7, 14293}, {320, 320}, {101, 1000}}

// c01Gen builds case i of a run: a deterministic function of (seed, tier, i).
func c01Gen(seed uint64, tier string, i int) c01Case {
	n, nBig, nThr := c01Counts(tier)
	r := NewRNG(seed, uint64(i))
	var c c01Case
	var base *image.NRGBA
	cls, acls := r.Intn(NumImgClasses), r.Intn(NumAlphaClasses)
	switch {
	case i < n:
		sz := c01Sizes[r.Intn(len(c01Sizes))]
		if i%c01RemapEvery == 5 {
			sz = c01RemapSizes[r.Intn(len(c01RemapSizes))]
			cls = []int{ClsNoise, ClsNoise, ClsPhoto, ClsGradient}[r.Intn(4)]
		}
		base = GenImage(r, sz[0], sz[1], cls, acls)
		c.desc = imgDesc(sz[0], sz[1], cls, acls)
		c.cls = imgClassNames[cls] + "/" + alphaClassNames[acls]
	case i < n+nBig:
		sz := c01Big[(i-n+int(seed))%len(c01Big)]
		base = GenImage(r, sz[0], sz[1], cls, acls)
		c.desc = imgDesc(sz[0], sz[1], cls, acls)
		c.cls = imgClassNames[cls] + "/" + alphaClassNames[acls]
	default:
		thr := DrawThresholdCases(seed, 0x0c01, nThr, ThresholdFilter{MaxPixels: 140000, MinValue: 200})
		k := i - n - nBig
		if k >= len(thr) {
			return c01Fixed(k - len(thr))
		}
		tc := thr[k]
		kind := r.Intn(NumCheapClasses)
		acls = []int{AlphaNone, AlphaNone, AlphaGradient, AlphaSparse, AlphaBinary}[r.Intn(5)]
		base = GenCheapImage(r, tc.W, tc.H, kind, acls)
		c.desc = cheapDesc(tc.W, tc.H, kind, acls) + " " + tc.String()
		c.cls = "cheap/" + alphaClassNames[acls]
		c.thr = &tc
	}
	kind := r.Intn(numImgTypes)
	b := base.Bounds()
	if b.Dx()*b.Dy() > 50000 {
		kind = []int{0, 0, 5, 6}[r.Intn(4)]
	}
	img, tname := asType(r, base, kind)
	o := &webp.EncoderOptions{Lossless: true, Quality: c01Quals[r.Intn(len(c01Quals))], Method: r.Intn(7), Exact: r.Bool()}
	if i < n && i%c01RemapEvery == 5 {
		o.Method = 4 + r.Intn(3)
		o.Quality = []float32{90, 100, 100}[r.Intn(3)]
		c.cls = "remap-leg:" + c.cls
	} else if i%7 == 3 { // full Method x Quality-class coverage on a fixed sub-grid
		o.Method = (i / 7) % 7
		o.Quality = c01Quals[(i/49)%len(c01Quals)]
	}
	icc, exif, xmp := "-", "-", "-"
	if r.Chance(1, 5) {
		o.ICC, o.EXIF = []byte("icc"), []byte("exif-data")
		icc, exif = hx(o.ICC), hx(o.EXIF)
		if r.Chance(1, 2) {
			o.XMP = []byte("<x/>")
			xmp = hx(o.XMP)
		}
	}
	c.o, c.tname, c.w, c.h = o, tname, b.Dx(), b.Dy()
	c.desc = fmt.Sprintf("%s type=%s q=%v m=%d exact=%v meta=%v", c.desc, tname, o.Quality, o.Method, o.Exact, o.ICC != nil)
	file, err := encodeBytes(img, o)
	if err != nil {
		c.err = err
		return c
	}
	px, flat := c01Pixels(img)
	c.flat = flat
	c.img, c.file = img, file
	ex := 0
	if o.Exact {
		ex = 1
	}
	c.line = fmt.Sprintf("c01full %d %d %d %s %s %s %s %s", c.w, c.h, ex, icc, exif, xmp, hx(file), px)
	return c
}

// ---- fixed regression cases (both tiers): defect D15, "unused trailing histogram" ----
//
// The 96x96 noise picture with gradient alpha of corpus/C01/d15_unused_trailing_histogram_replay.json:
// before /repo a7369f2, Quality 100 with Method 5 or 6 made GetHistoImageSymbols return two histograms
// with every tile mapped to the first; encodeStream wrote two prefix-code groups, the decoder read
// max(symbol)+1 = one, and Encode + Decode succeeded with every pixel wrong. Method {5,6} x Exact x
// {NRGBA, RGBA64} = 8 cases.
const c01NumFixed = 8

var (
	c01D15Once sync.Once
	c01D15Img  *image.NRGBA
)

func c01D15Picture() *image.NRGBA {
	c01D15Once.Do(func() {
		b, err := os.ReadFile(filepath.Join(CorpusDir, "C01", "d15_unused_trailing_histogram_replay.json"))
		if err != nil {
			return
		}
		var rp struct {
			Input struct {
				Line string `json:"line"`
			} `json:"input"`
		}
		if json.Unmarshal(b, &rp) != nil {
			return
		}
		f := strings.Fields(rp.Input.Line)
		if len(f) != 9 || f[1] != "96" || f[2] != "96" {
			return
		}
		px := unhx(f[8])
		if len(px) != 96*96*4 {
			return
		}
		im := image.NewNRGBA(image.Rect(0, 0, 96, 96))
		for i := 0; i+3 < len(px); i += 4 {
			im.Pix[i], im.Pix[i+1], im.Pix[i+2], im.Pix[i+3] = px[i+1], px[i+2], px[i+3], px[i]
		}
		c01D15Img = im
	})
	return c01D15Img
}

func c01Fixed(k int) c01Case {
	var c c01Case
	base := c01D15Picture()
	if k < 0 || k >= c01NumFixed {
		c.err = fmt.Errorf("no such case")
		return c
	}
	if base == nil {
		c.err = fmt.Errorf("corpus/C01/d15_unused_trailing_histogram_replay.json missing or unreadable")
		return c
	}
	o := &webp.EncoderOptions{Lossless: true, Quality: 100, Method: 5 + k%2, Exact: (k/2)%2 == 0}
	var img image.Image = base
	tname := "NRGBA"
	if k/4 == 1 {
		img, tname = asTypeAt(NewRNG(1, uint64(k)), base, 7, image.Point{})
	}
	c.o, c.tname, c.w, c.h = o, tname, 96, 96
	c.cls = "fixed:d15-unused-trailing-histogram"
	c.desc = fmt.Sprintf("96x96/noise/gradient (corpus C01 D15) type=%s q=100 m=%d exact=%v meta=false", tname, o.Method, o.Exact)
	file, err := encodeBytes(img, o)
	if err != nil {
		c.err = err
		return c
	}
	px, flat := c01Pixels(img)
	c.flat = flat
	c.img, c.file = img, file
	ex := 0
	if o.Exact {
		ex = 1
	}
	c.line = fmt.Sprintf("c01full %d %d %d - - - %s %s", c.w, c.h, ex, hx(file), px)
	return c
}

func c01Counts(tier string) (n, nBig, nThr int) {
	if tier == "thorough" {
		return 6000, 24, 1 << 20
	}
	return 330, 2, 6
}

// every c01RemapEvery-th random case is drawn from the "remap" leg: busy content, many histogram
// tiles (Method 4..6 => histogram bits 3..2), Quality >= 90 (GetHistoImageSymbols then re-assigns
// every tile to its cheapest cluster - histogramRemap - and a cluster can end up without tiles)
const c01RemapEvery = 6

var c01RemapSizes = [][2]int{{64, 48}, {96, 96}, {128, 40}, {40, 130}, {72, 72}, {48, 100}}

// c01Fields parses `ok k=v k=v …`.
func c01Fields(l string) map[string]string {
	m := map[string]string{}
	for _, f := range strings.Fields(l) {
		if kv := strings.SplitN(f, "=", 2); len(kv) == 2 {
			m[kv[0]] = kv[1]
		}
	}
	return m
}

func suiteC01Full(rep *Report) error {
	rep.Rule = "real webp.Encode(Lossless) outputs over image class x alpha class x size (1x1, 1xN, Nx1, 2^k+-1, ragged, 128x40, 40x130; a few >= 100000 pixels; a leg of sizes just below/on/above the numeric thresholds of the code - thresholds.go - with cheap content) x Go image type {NRGBA,RGBA,Gray,Paletted,NRGBA64,generic,subimage,RGBA64} x Quality {0,10,24,25,49,50,74,75,89,90,100} x Method 0..6 (every 7th case walks the full Method x Quality grid; every 6th random case is a remap leg: busy content, Quality >= 90, Method 4..6) x Exact x metadata {none, ICC+EXIF, ICC+EXIF+XMP}; plus 8 fixed regression cases (defect D15: the 96x96 noise/gradient-alpha picture of corpus/C01 at Quality 100, Method 5/6, Exact on/off, NRGBA and RGBA64); for each file the Lean driver reconstructs the stream plan from the bytes and evaluates the hypotheses of Props/C01Full.encode_decode_roundtrip (model emitter+container reproduce the file; plan valid; plan stands for norm(Exact, source pixels)); plus leg c07alph: real ALPH chunks of lossy Encode (AlphaQuality 100, AlphaFiltering -1..2, Method 0..6, all alpha classes) - the plan is reconstructed from alphaVP8LStream(payload) and the hypotheses of Props/C07Lossless.alph_certificate_implies_roundtrip are checked; non-trivial = picture has >= 2 distinct pixels (c07alph: lossless method chosen); distinct = hash of (description, file)"
	n, nBig, nThr := c01Counts(rep.Tier)
	thr := DrawThresholdCases(rep.Seed, 0x0c01, nThr, ThresholdFilter{MaxPixels: 140000, MinValue: 200})
	total := n + nBig + len(thr) + c01NumFixed
	const batch = 256
	for lo := 0; lo < total; lo += batch {
		hi := lo + batch
		if hi > total {
			hi = total
		}
		cases := make([]c01Case, hi-lo)
		var lines []string
		var idx []int
		pms := make([]string, hi-lo)
		{
			var wg sync.WaitGroup
			nw := runtime.NumCPU()
			for wk := 0; wk < nw; wk++ {
				wg.Add(1)
				go func(wk int) {
					defer wg.Done()
					for i := lo + wk; i < hi; i += nw {
						_, pms[i-lo] = guard(func() string {
							cases[i-lo] = c01Gen(rep.Seed, rep.Tier, i)
							cases[i-lo].img, cases[i-lo].file = nil, nil // only the arbiter needs them; it regenerates
							return ""
						})
					}
				}(wk)
			}
			wg.Wait()
		}
		for i := lo; i < hi; i++ {
			pm := pms[i-lo]
			c := &cases[i-lo]
			if pm != "" {
				rep.Add(Finding{Kind: "property", Property: "C01", Signature: "c01full:encode-panic", Detail: c.desc + ": " + pm,
					Input: map[string]any{"op": "c01full", "case": i, "seed": rep.Seed, "tier": rep.Tier}})
				continue
			}
			if c.err != nil {
				rep.Add(Finding{Kind: "property", Property: "C01", Signature: "c01full:encode-error", Detail: c.desc + ": " + c.err.Error(),
					Input: map[string]any{"op": "c01full", "case": i, "seed": rep.Seed, "tier": rep.Tier}})
				continue
			}
			lines = append(lines, c.line)
			idx = append(idx, i)
		}
		lean, err := RunDriver(lines)
		if err != nil {
			return err
		}
		for k, l := range lean {
			i := idx[k]
			c := &cases[i-lo]
			in := map[string]any{"op": "c01full", "case": i, "seed": rep.Seed, "tier": rep.Tier, "desc": c.desc}
			if len(c.line) < 6000 {
				in["line"] = c.line
			}
			f := c01Fields(l)
			if !strings.HasPrefix(l, "ok ") || f["file"] != "1" || f["stream"] != "1" || f["encodes"] != "1" {
				// the certificate fails: only now is the real decoder run, as the arbiter between "the
				// encoder wrote a stream that does not stand for the source" (property) and "the model /
				// checker does not cover this stream" (correspondence)
				if why := c01Arbiter(rep.Seed, rep.Tier, i); why != "" {
					rep.Add(Finding{Kind: "property", Property: "C01", Signature: "c01full:certificate-fails:" + why,
						Detail: fmt.Sprintf("%s: no valid plan reproduces the file (%s) and webp.Decode of the file: %s", c.desc, short(l, 160), why), Input: in})
					continue
				}
			}
			switch {
			case !strings.HasPrefix(l, "ok "):
				rep.Add(Finding{Kind: "correspondence", Property: "C01", Signature: "c01full-model:" + strings.ReplaceAll(l, " ", "-"),
					Detail: fmt.Sprintf("%s: the plan of a real Encode output cannot be reconstructed by the model: lean=%q", c.desc, short(l, 120)), Input: in})
				continue
			case f["file"] != "1":
				rep.Add(Finding{Kind: "correspondence", Property: "C01", Signature: "c01full-model:emitter",
					Detail: fmt.Sprintf("%s: model emitter + container writer fed with the reconstructed plan do not reproduce the file: %s", c.desc, l), Input: in})
			case f["stream"] != "1":
				rep.Add(Finding{Kind: "property", Property: "C01", Signature: "c01full:plan-invalid",
					Detail: fmt.Sprintf("%s: the stream Encode wrote is not a valid plan (StreamValidMeta fails): %s", c.desc, l), Input: in})
			case f["encodes"] != "1":
				rep.Add(Finding{Kind: "property", Property: "C01", Signature: "c01full:plan-not-source:" + c.tname + fmt.Sprintf(":exact=%v", c.o.Exact),
					Detail: fmt.Sprintf("%s: the plan Encode wrote does not stand for the source pixels (PlanEncodes fails): %s", c.desc, l), Input: in})
			}
			rep.Eval(!c.flat, []byte(c.desc+"|"+strconv.Itoa(len(c.line))+"|"+short(c.line, 4000)))
			rep.Count("type:" + c.tname)
			rep.Count(fmt.Sprintf("method:%d", c.o.Method))
			rep.Count(fmt.Sprintf("quality:%v", c.o.Quality))
			rep.Count(fmt.Sprintf("exact:%v", c.o.Exact))
			rep.Count(fmt.Sprintf("metadata:%v", c.o.ICC != nil))
			rep.Count("class:" + c.cls)
			if c.thr != nil {
				CountThreshold(rep, *c.thr)
			}
			if c.w*c.h >= 90000 {
				rep.Count(fmt.Sprintf("big:%dx%d", c.w, c.h))
			}
			g, _ := strconv.Atoi(f["groups"])
			switch {
			case g <= 1:
				rep.Count("plan:groups=1")
			case g <= 4:
				rep.Count(fmt.Sprintf("plan:groups=%d (meta prefix image)", g))
			default:
				rep.Count("plan:groups>=5 (meta prefix image)")
			}
			if g > 1 {
				rep.Count("plan:histoBits=" + f["bits"])
			}
			rep.Count("plan:cacheBits=" + f["cb"])
			rep.Count("plan:transforms=" + f["xf"])
			if k == 0 && lo == 0 {
				rep.Sample(map[string]any{"case": c.desc, "lean": l})
			}
		}
	}
	return c07Leg(rep)
}

// ---- leg "c07alph": the certificate for real ALPH chunks (property C07 <- C01) ----
//
// Lossy Encode of a picture with transparency stores the alpha plane in an ALPH chunk; with the
// lossless method the chunk is a VP8L stream of the filtered, green-embedded plane WITHOUT its five
// header bytes. The driver rebuilds the stream as DecodeAlpha does (alphaVP8LStream), reconstructs the
// plan and checks (payload = stream minus header, validPlanFor for the filtered plane) - the hypotheses
// of Props/C07Lossless.alph_certificate_implies_roundtrip. AlphaQuality is 100 (no level quantisation:
// the stored plane is the source plane).
type c07Case struct {
	desc, line string
	filt, meth int
	err        error
	skip       bool
}

var c07Sizes = [][2]int{{1, 1}, {2, 3}, {7, 8}, {16, 16}, {17, 33}, {33, 17}, {64, 48}, {96, 96}, {128, 40}, {1, 40}, {40, 1}}

func c07Gen(seed uint64, i int) c07Case {
	r := NewRNG(seed, 0xa1f0_0000+uint64(i))
	var c c07Case
	sz := c07Sizes[r.Intn(len(c07Sizes))]
	cls := r.Intn(NumImgClasses)
	acls := 1 + r.Intn(NumAlphaClasses-1) // not opaque
	base := GenImage(r, sz[0], sz[1], cls, acls)
	img, tname := asType(r, base, []int{0, 0, 1, 4, 5, 6, 7}[r.Intn(7)])
	o := &webp.EncoderOptions{Lossless: false, Quality: float32(r.Intn(101)), Method: r.Intn(7), Exact: r.Bool(),
		AlphaCompression: 1, AlphaFiltering: []int{-1, 0, 1, 2}[r.Intn(4)], AlphaQuality: 100}
	c.filt, c.meth = o.AlphaFiltering, o.Method
	c.desc = fmt.Sprintf("%s type=%s lossy q=%v m=%d alphaFiltering=%d", imgDesc(sz[0], sz[1], cls, acls), tname, o.Quality, o.Method, o.AlphaFiltering)
	file, err := encodeBytes(img, o)
	if err != nil {
		c.err = err
		return c
	}
	cs, e := walkRIFF(file)
	if e != "" {
		c.err = fmt.Errorf("walkRIFF: %s", e)
		return c
	}
	var alph []byte
	for _, ch := range cs {
		if ch.tag == "ALPH" {
			alph = ch.payload
		}
	}
	want := expectedNRGBA(img)
	if alph == nil {
		c.skip = true // the picture is opaque as seen through this image type (e.g. alpha all 255 after conversion)
		return c
	}
	plane := make([]byte, 0, len(want.Pix)/4)
	for k := 3; k < len(want.Pix); k += 4 {
		plane = append(plane, want.Pix[k])
	}
	c.line = fmt.Sprintf("c07alph %d %d %s %s", sz[0], sz[1], hx(alph), hx(plane))
	return c
}

func c07Leg(rep *Report) error {
	n := 120
	if rep.Tier == "thorough" {
		n = 2500
	}
	cases := make([]c07Case, n)
	pms := make([]string, n)
	var wg sync.WaitGroup
	nw := runtime.NumCPU()
	for wk := 0; wk < nw; wk++ {
		wg.Add(1)
		go func(wk int) {
			defer wg.Done()
			for i := wk; i < n; i += nw {
				_, pms[i] = guard(func() string { cases[i] = c07Gen(rep.Seed, i); return "" })
			}
		}(wk)
	}
	wg.Wait()
	var lines []string
	var idx []int
	for i := range cases {
		c := &cases[i]
		in := map[string]any{"op": "c07alph", "case": i, "seed": rep.Seed}
		switch {
		case pms[i] != "":
			rep.Add(Finding{Kind: "property", Property: "C07", Signature: "c07alph:encode-panic", Detail: c.desc + ": " + pms[i], Input: in})
		case c.err != nil:
			rep.Add(Finding{Kind: "property", Property: "C07", Signature: "c07alph:encode-error", Detail: c.desc + ": " + c.err.Error(), Input: in})
		case c.skip:
			rep.Count("c07alph:no-ALPH-chunk (opaque through this image type)")
		default:
			lines = append(lines, c.line)
			idx = append(idx, i)
		}
	}
	lean, err := RunDriver(lines)
	if err != nil {
		return err
	}
	for k, l := range lean {
		i := idx[k]
		c := &cases[i]
		in := map[string]any{"op": "c07alph", "case": i, "seed": rep.Seed, "desc": c.desc}
		if len(c.line) < 6000 {
			in["line"] = c.line
		}
		f := c01Fields(l)
		rep.Count("c07alph:method=" + f["method"])
		rep.Count("c07alph:filter=" + f["filter"])
		rep.Count(fmt.Sprintf("c07alph:alphaFiltering=%d", c.filt))
		switch {
		case !strings.HasPrefix(l, "ok "):
			rep.Add(Finding{Kind: "correspondence", Property: "C07", Signature: "c07alph-model:" + strings.ReplaceAll(l, " ", "-"),
				Detail: fmt.Sprintf("%s: the plan of a real ALPH chunk cannot be reconstructed: lean=%q", c.desc, short(l, 120)), Input: in})
		case f["method"] != "1":
			// raw chunk: Props/C07.alpha_chunk_roundtrip_raw needs no certificate
		case f["payload"] != "1":
			rep.Add(Finding{Kind: "correspondence", Property: "C07", Signature: "c07alph-model:emitter",
				Detail: fmt.Sprintf("%s: the model emitter fed with the reconstructed plan does not reproduce the ALPH payload: %s", c.desc, l), Input: in})
		case f["valid"] != "1":
			rep.Add(Finding{Kind: "property", Property: "C07", Signature: "c07alph:certificate-fails",
				Detail: fmt.Sprintf("%s: the ALPH payload is not a valid plan for the filtered, green-embedded source plane: %s", c.desc, l), Input: in})
		default:
			rep.Count("c07alph:plan:transforms=" + f["xf"])
			rep.Count("c07alph:plan:cacheBits=" + f["cb"])
		}
		rep.Eval(f["method"] == "1", []byte(c.desc+"|"+short(c.line, 4000)))
	}
	return nil
}

func replayC07Alph(in map[string]any) int {
	line, _ := in["line"].(string)
	if line == "" {
		seed, _ := in["seed"].(float64)
		ci, _ := in["case"].(float64)
		c := c07Gen(uint64(seed), int(ci))
		if c.err != nil || c.skip {
			fmt.Println("cannot regenerate:", c.err, c.skip)
			return 2
		}
		fmt.Println("case:", c.desc)
		line = c.line
	}
	lean, err := RunDriver([]string{line})
	if err != nil {
		fmt.Println(err)
		return 2
	}
	fmt.Println("lean:", short(lean[0], 400))
	f := c01Fields(lean[0])
	if !strings.HasPrefix(lean[0], "ok ") || (f["method"] == "1" && (f["payload"] != "1" || f["valid"] != "1")) {
		return 1
	}
	return 0
}

// c01Arbiter re-creates case i, decodes the file with the real decoder and compares with the source
// ("" = decodes to the source picture).
func c01Arbiter(seed uint64, tier string, i int) string {
	c := c01Gen(seed, tier, i)
	if c.err != nil || c.img == nil {
		return ""
	}
	dec, err := webp.Decode(bytes.NewReader(c.file))
	if err != nil {
		return "decode-error"
	}
	same, _ := nrgbaEqual(expectedNRGBA(c.img), toNRGBA(dec), !c.o.Exact)
	if !same {
		return "decoded-pixels-differ"
	}
	return ""
}

// replayC01Full regenerates the case (same seed, tier, index), re-encodes and re-evaluates the certificate.
func replayC01Full(in map[string]any) int {
	line, _ := in["line"].(string)
	if line == "" {
		seed, _ := in["seed"].(float64)
		ci, _ := in["case"].(float64)
		tier, _ := in["tier"].(string)
		if tier == "" {
			tier = "quick"
		}
		c := c01Gen(uint64(seed), tier, int(ci))
		if c.err != nil {
			fmt.Println("encode error:", c.err)
			return 1
		}
		fmt.Println("case:", c.desc)
		line = c.line
	}
	if dump, _ := in["dump"].(string); dump != "" {
		// write the protocol line to a file (for manual experiments with the driver)
		_ = os.WriteFile(dump, []byte(line+"\n"), 0o644)
	}
	lean, err := RunDriver([]string{line})
	if err != nil {
		fmt.Println(err)
		return 2
	}
	fmt.Println("lean:", short(lean[0], 400))
	f := c01Fields(lean[0])
	if !strings.HasPrefix(lean[0], "ok ") || f["file"] != "1" || f["stream"] != "1" || f["encodes"] != "1" {
		return 1
	}
	return 0
}
