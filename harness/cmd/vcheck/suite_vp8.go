package main

import (
	"bytes"
	"fmt"
	"image"
	"os"
	"path/filepath"
	"runtime"
	"sort"
	"strings"
	"time"
	"unsafe"

	webp "github.com/deepteams/webp"
	"github.com/deepteams/webp/mux"
	"github.com/deepteams/webp/verifapi"
)

// Suite vp8: whole-frame differential test of the Go VP8 key-frame decoder (lossy.DecodeFrame)
// against the Lean spec decoder Webp.Spec.VP8.decode (driver ops vp8 / vp8px / vp8info / vp8nrgba
// / vp8tables), property C04 (VP8 part + fancy upsampling / YUV->RGB).

func init() {
	suites["vp8"] = suiteVP8
	replayers["vp8"] = replayVP8
	replayers["vp8retain"] = replayVP8Retain
}

type vp8Case struct {
	payload []byte
	kind    string // enc | testdata | corpus | syn | mut:<what>
	desc    string
}

// vp8Payload returns the payload of the first "VP8 " chunk of a RIFF/WebP file.
func vp8Payload(file []byte) []byte {
	if len(file) < 20 || string(file[:4]) != "RIFF" || string(file[8:12]) != "WEBP" {
		return nil
	}
	for _, c := range scanChunks(file) {
		if string(file[c.off:c.off+4]) == "VP8 " {
			end := c.off + 8 + c.size
			if end > len(file) {
				end = len(file)
			}
			return file[c.off+8 : end]
		}
	}
	return nil
}

func vp8Dims(p []byte) (w, h int, ok bool) {
	if len(p) < 10 {
		return 0, 0, false
	}
	return (int(p[6]) | int(p[7])<<8) & 0x3fff, (int(p[8]) | int(p[9])<<8) & 0x3fff, true
}

type vp8Planes struct {
	w, h    int
	y, u, v []byte
}

func goVP8Decode(data []byte) (string, *vp8Planes) {
	w, h, y, u, v, err := verifapi.VP8DecodeFrame(data)
	if err != nil {
		return "err " + verifapi.VP8ErrorClass(err), nil
	}
	return fmt.Sprintf("ok w=%d h=%d y=%s u=%s v=%s", w, h, digest(y), digest(u), digest(v)), &vp8Planes{w, h, y, u, v}
}

func goVP8(data []byte) string { l, _ := goVP8Decode(data); return l }

// vp8ParsePx parses an "ok w= h= y=<hex> u=<hex> v=<hex>" line.
func vp8ParsePx(line string) *vp8Planes {
	if !strings.HasPrefix(line, "ok ") {
		return nil
	}
	p := &vp8Planes{}
	for _, f := range strings.Fields(line)[1:] {
		kv := strings.SplitN(f, "=", 2)
		if len(kv) != 2 {
			continue
		}
		switch kv[0] {
		case "w":
			fmt.Sscan(kv[1], &p.w)
		case "h":
			fmt.Sscan(kv[1], &p.h)
		case "y":
			p.y = unhx(kv[1])
		case "u":
			p.u = unhx(kv[1])
		case "v":
			p.v = unhx(kv[1])
		}
	}
	return p
}

// vp8FirstDiff names the first plane that differs and the macroblock of its first differing sample.
func vp8FirstDiff(a, b *vp8Planes) (plane string, mbX, mbY, count int) {
	if a == nil || b == nil || a.w != b.w || a.h != b.h {
		return "dims", 0, 0, 0
	}
	cw := (a.w + 1) / 2
	type pl struct {
		name   string
		x, y   []byte
		stride int
		mb     int
	}
	for _, p := range []pl{{"Y", a.y, b.y, a.w, 16}, {"U", a.u, b.u, cw, 8}, {"V", a.v, b.v, cw, 8}} {
		if bytes.Equal(p.x, p.y) || len(p.x) != len(p.y) {
			continue
		}
		first := -1
		n := 0
		for i := range p.x {
			if p.x[i] != p.y[i] {
				if first < 0 {
					first = i
				}
				n++
			}
		}
		return p.name, (first % p.stride) / p.mb, (first / p.stride) / p.mb, n
	}
	return "none", 0, 0, 0
}

func vp8InfoField(info, key string) string {
	for _, f := range strings.Fields(info) {
		if strings.HasPrefix(f, key+"=") {
			return f[len(key)+1:]
		}
	}
	return "?"
}

// vp8Class is the stream class used in signatures: filter type, segmentation, partitions.
func vp8Class(info string) string {
	if !strings.HasPrefix(info, "ok ") {
		return strings.ReplaceAll(info, " ", "-")
	}
	ft := "normal"
	if vp8InfoField(info, "simple") == "1" {
		ft = "simple"
	}
	if vp8InfoField(info, "level") == "0" {
		ft = "off"
	}
	return fmt.Sprintf("filter=%s:seg=%s:parts=%s", ft, vp8InfoField(info, "seg"), vp8InfoField(info, "parts"))
}

// other readings of the format the driver can decode under (see Webp.Spec.VP8.Conv)
// Other readings of the format the driver can decode under (Webp.Spec.VP8.Conv); a frame on which Go
// differs from the specification is re-decoded under every combination to name the deviation:
//
//	k  sub-block edges are left unfiltered only for macroblocks whose skip FLAG is set
//	a  segment values are absolute when segmentation is enabled without segment data
//	c  the segment-adjusted loop-filter level is not clamped to 0..63 before the ref/mode deltas
//	s  inverse DCTs handed to the SSE2/AVX2 kernels wrap in 16-bit lanes (matters only for coefficients beyond 12 bits)
//	n  "macroblock has no coefficients" (inner edges unfiltered) is decided by VALUE (libwebp: blocks whose
//	   only tokens are explicit zeros count as empty), the specification decides by TOKEN (end-of-block position)
var vp8ConvNames = map[byte]string{
	'k': "inner-edges-filtered-unless-skip-flag",
	'a': "segment-values-absolute-without-segment-data",
	'c': "lf-level-not-clamped-after-segment",
	's': "idct-16bit-simd-lanes",
	'n': "inner-skip-by-value",
}

var vp8Convs = func() []struct{ flag, name string } {
	var out []struct{ flag, name string }
	letters := "kacsn"
	for n := 1; n <= len(letters); n++ { // fewer deviations first
		for m := 1; m < 1<<uint(len(letters)); m++ {
			cnt, f, nm := 0, "", ""
			for b := 0; b < len(letters); b++ {
				if m&(1<<uint(b)) != 0 {
					cnt++
					f += string(letters[b])
					if nm != "" {
						nm += "+"
					}
					nm += vp8ConvNames[letters[b]]
				}
			}
			if cnt == n {
				out = append(out, struct{ flag, name string }{f, nm})
			}
		}
	}
	return out
}()

type vp8Run struct {
	rep     *Report
	kept    map[string][]Finding
	totals  map[string]int
	phase   map[string]float64
	stopped bool // a Go decode hung: finish up and return the report
}

func (v *vp8Run) add(f Finding) {
	key := f.Property + "|" + f.Signature
	v.totals[key]++
	l := append(v.kept[key], f)
	sort.SliceStable(l, func(i, j int) bool {
		hi, _ := l[i].Input["hex"].(string)
		hj, _ := l[j].Input["hex"].(string)
		return len(hi) < len(hj)
	})
	if len(l) > 5 {
		l = l[:5]
	}
	v.kept[key] = l
}

// batch decodes every case with Go and with the Lean spec decoder and files the disagreements.
func (v *vp8Run) batch(all []vp8Case, infoAll bool) error {
	rep := v.rep
	t0 := time.Now()
	goOut := make([]string, len(all))
	goPanic := make([]string, len(all))
	parallelDo(len(all), func(i int) {
		goOut[i], goPanic[i] = guardT(func() string { return goVP8(all[i].payload) })
	})
	v.phase["go-decode"] += time.Since(t0).Seconds()
	if hangSeen.Load() {
		// a decode did not return: file it (with the specification's verdict on the same bytes) and let
		// the suite finish up - the spinning goroutine cannot be recovered
		var hl []string
		var hi []int
		for i := range all {
			if goOut[i] == "hang" {
				hi = append(hi, i)
				hl = append(hl, "vp8 "+hx(all[i].payload))
			}
		}
		lo, err := RunDriver(hl)
		if err != nil {
			return err
		}
		for k, i := range hi {
			c := all[i]
			in := map[string]any{"op": "vp8", "hex": hx(c.payload), "kind": c.kind, "config": c.desc}
			v.add(hangFinding("DecodeFrame", "lossy.DecodeFrame ("+c.kind+" "+c.desc+")", in))
			if strings.HasPrefix(lo[k], "ok ") {
				v.add(Finding{Kind: "property", Property: "C04", Signature: "vp8-accept:go-hang-spec-ok",
					Detail: fmt.Sprintf("the specification decodes the frame, lossy.DecodeFrame does not return (%s %s): spec=%q", c.kind, c.desc, lo[k]), Input: in})
			}
			rep.Eval(true, c.payload)
			rep.Count("outcome:go-hang")
		}
		v.stopped = true
		rep.Notes = append(rep.Notes, "suite stopped early: a Go decode call did not return (see the hang finding)")
		return nil
	}
	t0 = time.Now()
	lines := make([]string, len(all))
	for i, c := range all {
		lines[i] = "vp8 " + hx(c.payload)
	}
	leanOut, err := RunDriver(lines)
	if err != nil {
		return err
	}
	v.phase["lean-decode"] += time.Since(t0).Seconds()
	t0 = time.Now()
	var infoIdx []int
	var infoLines []string
	for i := range all {
		if infoAll || leanOut[i] != goOut[i] {
			infoIdx = append(infoIdx, i)
			infoLines = append(infoLines, "vp8info "+hx(all[i].payload))
		}
	}
	infoOut, err := RunDriver(infoLines)
	if err != nil {
		return err
	}
	info := map[int]string{}
	for k, i := range infoIdx {
		info[i] = infoOut[k]
	}
	v.phase["lean-info"] += time.Since(t0).Seconds()
	// classification queries for frames both accept but decode differently: the full planes from
	// Lean, and the frame decoded under the other readings of the format — one driver round for all
	var qLines []string
	qAt := map[int]int{}
	for i := range all {
		if strings.HasPrefix(goOut[i], "ok ") && strings.HasPrefix(leanOut[i], "ok ") && goOut[i] != leanOut[i] {
			qAt[i] = len(qLines)
			qLines = append(qLines, "vp8px "+hx(all[i].payload))
			for _, cv := range vp8Convs {
				qLines = append(qLines, "vp8 "+hx(all[i].payload)+" "+cv.flag)
			}
		}
	}
	qOut, err := RunDriver(qLines)
	if err != nil {
		return err
	}
	v.phase["lean-classify"] += time.Since(t0).Seconds()
	input := func(c vp8Case) map[string]any {
		return map[string]any{"op": "vp8", "hex": hx(c.payload), "kind": c.kind, "config": c.desc}
	}
	dash := func(s string) string { return strings.ReplaceAll(s, " ", "-") }

	for i, c := range all {
		g, l := goOut[i], leanOut[i]
		gOK, lOK := strings.HasPrefix(g, "ok "), strings.HasPrefix(l, "ok ")
		rep.Count("kind:" + c.kind)
		rep.Eval(l != "err header" && l != "bad-op", c.payload)
		if k := strings.Index(c.desc, " pad=part"); k >= 0 && c.kind == "syn" {
			rep.Count("syn:padded-non-final-partition:" + strings.SplitN(c.desc[k+1:], ":", 2)[1] + ":" + strings.SplitN(l, " ", 2)[0])
		}
		if c.kind == "enc" && len(c.payload) > 1<<17 {
			rep.Count("enc:payload>128KiB:parts=" + vp8InfoField(info[i], "parts"))
		}
		if infoAll && lOK {
			in := info[i]
			rep.Count(c.kind + ":" + vp8Class(in))
			if vp8InfoField(in, "skipen") == "1" {
				rep.Count(c.kind + ":skip-flags")
			}
			if vp8InfoField(in, "probupd") != "0" {
				rep.Count(c.kind + ":prob-updates")
			}
			if ym := strings.Split(vp8InfoField(in, "ymodes"), ","); len(ym) == 5 && ym[4] != "0" {
				rep.Count(c.kind + ":has-B_PRED")
			}
		}
		if g == "panic" {
			v.add(Finding{Kind: "property", Property: "C05", Signature: "panic:vp8:" + panicClass(goPanic[i]),
				Detail: "lossy.DecodeFrame panicked: " + goPanic[i] + " (" + c.kind + " " + c.desc + ")", Input: input(c)})
		}
		if l == "panic" || l == "hang" || l == "bad-op" || l == "" {
			v.add(Finding{Kind: "correspondence", Property: "C04", Signature: "vp8-spec-model:" + l,
				Detail: "Lean spec decoder answered " + l + " (" + c.kind + " " + c.desc + ")", Input: input(c)})
		}
		switch {
		case g != l && g != "panic" && (gOK || lOK) && vp8InfoField(info[i], "ff") == "1":
			// A partition that is read from begins with the byte 0xff. No boolean ENCODER can emit that
			// (its interval starts as [0, 255*2^k)); for a decoder it means value >= range*256, a state
			// in which the RFC's comparison and libwebp's wider-register comparison part ways. Such a
			// byte string is not a valid frame; C04 quantifies over valid frames. Counted, not filed.
			rep.Count("outcome:tolerated-partition-starts-with-0xff")
		case g == l:
			if gOK {
				rep.Count("outcome:agree-ok")
			} else {
				rep.Count("outcome:agree-" + dash(g))
			}
		case g == "panic":
		case gOK && lOK:
			rep.Count("outcome:planes-differ")
			qo := qOut[qAt[i] : qAt[i]+1+len(vp8Convs)]
			_, gp := goVP8Decode(c.payload)
			plane, mx, my, n := vp8FirstDiff(gp, vp8ParsePx(qo[0]))
			reading := "unexplained"
			for k, cv := range vp8Convs {
				if qo[1+k] == g {
					reading = "go=" + cv.name
					break
				}
			}
			pos := "interior"
			switch {
			case mx == 0 && my == 0:
				pos = "mb0"
			case my == 0:
				pos = "toprow"
			case mx == 0:
				pos = "leftcol"
			}
			if reading == "unexplained" && vp8InfoField(info[i], "big") != "0" {
				// some dequantised coefficient is outside +-2047: implementations with 16-bit SIMD
				// arithmetic (the amd64 IDCT of /repo among them) are not expected to agree there
				reading = "coefficients-beyond-12-bits"
			}
			sig := "vp8-planes:" + reading
			if reading == "unexplained" {
				sig = fmt.Sprintf("vp8-planes:unexplained:%s:%s:%s", vp8Class(info[i]), plane, pos)
			}
			rep.Count("planes-differ:" + reading)
			v.add(Finding{Kind: "property", Property: "C04", Signature: sig,
				Detail: fmt.Sprintf("Go decoder and spec decoder both accept but differ: plane %s, first differing macroblock (%d,%d), %d samples; %s (%s %s; %s): go=%q spec=%q",
					plane, mx, my, n, reading, c.kind, c.desc, info[i], g, l),
				Input: input(c)})
		case gOK && !lOK:
			rep.Count("outcome:go-ok-spec-err")
			v.add(Finding{Kind: "correspondence", Property: "C04", Signature: "vp8-accept:go-ok-spec-" + dash(l),
				Detail: fmt.Sprintf("Go accepts, spec rejects (%s; %s) (%s %s, %d bytes): go=%q", l, short(info[i], 400), c.kind, c.desc, len(c.payload), g), Input: input(c)})
		case !gOK && lOK:
			rep.Count("outcome:go-err-spec-ok")
			cls := "other"
			in := info[i]
			if g == "err truncated" {
				// a token partition of length 0 that is used by a macroblock row but never read
				pl := strings.Split(vp8InfoField(in, "partlen"), ",")
				mbh := 0
				var hh int
				fmt.Sscan(vp8InfoField(in, "h"), &hh)
				mbh = (hh + 15) / 16
				for k, s := range pl {
					if s == "0" && k < mbh {
						cls = "empty-token-partition-never-read"
					}
				}
			}
			if g == "err toolarge" {
				cls = "frame-too-large"
			}
			v.add(Finding{Kind: "property", Property: "C04", Signature: "vp8-accept:go-" + dash(g) + "-spec-ok:" + cls,
				Detail: fmt.Sprintf("spec accepts, Go rejects (%s %s; %s): go=%q spec=%q", c.kind, c.desc, short(in, 600), g, l), Input: input(c)})
		default:
			// both reject; the classes (header / truncated) are informative only
			rep.Count("outcome:both-reject:go-" + dash(g) + ":spec-" + dash(l))
		}
	}
	for i := 0; i < len(all) && infoAll; i += 97 {
		rep.Sample(map[string]any{"kind": all[i].kind, "config": all[i].desc, "info": short(info[i], 300), "go": goOut[i], "hex": short(hx(all[i].payload), 120)})
	}
	return nil
}

var vp8Sizes = [][2]int{{1, 1}, {2, 2}, {3, 5}, {15, 15}, {16, 16}, {17, 33}, {33, 17}, {31, 32}, {64, 48}, {48, 64}, {1, 40}, {40, 1}, {100, 20}}

// vp8EncCases: deterministic list of encoder configurations (a covering sample of the option product).
func vp8EncCases(seed uint64, tier string) []func() (vp8Case, []byte) {
	n := 700
	nBig := 1
	if tier == "thorough" {
		n = 9000
		nBig = 8
	}
	var gens []func() (vp8Case, []byte)
	mk := func(id uint64, w, h, cls, acls int, o *webp.EncoderOptions) func() (vp8Case, []byte) {
		return func() (vp8Case, []byte) {
			r := NewRNG(seed, 0x11000000+id)
			img := GenImage(r, w, h, cls, acls)
			desc := fmt.Sprintf("%s q=%d m=%d seg=%d parts=%d fs=%d sharp=%d ft=%d sns=%d", imgDesc(w, h, cls, acls), int(o.Quality), o.Method,
				o.Segments, o.Partitions, o.FilterStrength, o.FilterSharpness, o.FilterType, o.SNSStrength)
			var buf bytes.Buffer
			if err := webp.Encode(&buf, img, o); err != nil {
				return vp8Case{kind: "encfail", desc: desc + ": " + err.Error()}, nil
			}
			return vp8Case{payload: vp8Payload(buf.Bytes()), kind: "enc", desc: desc}, buf.Bytes()
		}
	}
	qs := []int{0, 20, 50, 75, 90, 100}
	fss := []int{0, 20, 60, 100}
	shs := []int{0, 3, 7}
	for k := 0; k < n; k++ {
		r := NewRNG(seed, 0x12000000+uint64(k))
		o := webp.DefaultOptions()
		o.Lossless = false
		// k walks quality x method; the other fields are drawn, so that all pairs occur
		o.Quality = float32(qs[k%len(qs)])
		o.Method = (k / len(qs)) % 7
		o.Segments = 1 + r.Intn(4)
		o.Partitions = r.Intn(4)
		o.FilterStrength = fss[r.Intn(len(fss))]
		o.FilterSharpness = shs[r.Intn(len(shs))]
		o.FilterType = r.Intn(2)
		o.SNSStrength = r.Pick([]int{0, 50, 100})
		sz := vp8Sizes[r.Intn(len(vp8Sizes))]
		cls := k % NumImgClasses
		acls := AlphaNone
		if r.Chance(1, 5) {
			acls = 1 + r.Intn(NumAlphaClasses-1)
		}
		gens = append(gens, mk(uint64(k), sz[0], sz[1], cls, acls, o))
	}
	for k := 0; k < nBig; k++ {
		r := NewRNG(seed, 0x13000000+uint64(k))
		o := webp.DefaultOptions()
		o.Quality = float32(r.Pick([]int{50, 75, 90}))
		o.Method = []int{4, 6, 2, 0, 3, 5, 1, 4}[k%8]
		o.Segments = 1 + k%4
		o.Partitions = (k + 1) % 4
		o.FilterStrength = []int{60, 20, 100, 0}[k%4]
		o.FilterType = (k + 1) % 2
		gens = append(gens, mk(0x900000+uint64(k), 320, 320, []int{ClsPhoto, ClsNoise, ClsGradient, ClsPal16}[k%4], AlphaNone, o))
	}
	// wide rows and threshold sizes (thresholds.go): widths 1023,1024,1025,1100,2047,2048,2049,4097 x heights
	// 1..4 (row buffers / stack scratch of the upsampler: heights 1..4 = single line, one line pair, pair +
	// single last line, two pairs) and pictures on the other numeric thresholds of the code; flat / gradient /
	// sparse content so that the payloads stay small; 2 of 3 with an alpha plane (leg (e) then compares the
	// NRGBA output with the specification's upsampling)
	{
		var tcs []ThresholdCase
		k := 0
		for wi, w := range WideWidths {
			for _, h := range WideHeights {
				k++
				if tier == "thorough" || (k+int(seed))%2 == 0 {
					tcs = append(tcs, ThresholdCase{W: w, H: h, T: Threshold{Value: []int{1024, 1024, 1024, 1024, 2048, 2048, 2048, 4096}[wi], Unit: "width"}})
				}
			}
		}
		nDraw := 10
		if tier == "thorough" {
			nDraw = 1 << 20
		}
		tcs = append(tcs, DrawThresholdCases(seed, 0x04, nDraw, ThresholdFilter{MaxPixels: 120000, MinValue: 200})...)
		for k, tc := range tcs {
			tc := tc
			id := 0x920000 + uint64(k)
			gens = append(gens, func() (vp8Case, []byte) {
				r := NewRNG(seed, 0x11000000+id)
				kind := r.Intn(NumCheapClasses)
				acls := []int{AlphaNone, AlphaGradient, AlphaBinary, AlphaSparse, AlphaSemiFlat, AlphaNone}[r.Intn(6)]
				img := GenCheapImage(r, tc.W, tc.H, kind, acls)
				o := webp.DefaultOptions()
				o.Quality = float32(qs[r.Intn(len(qs))])
				o.Method = r.Intn(7)
				o.Segments = 1 + r.Intn(4)
				o.Partitions = r.Intn(4)
				o.FilterStrength = fss[r.Intn(len(fss))]
				o.FilterSharpness = shs[r.Intn(len(shs))]
				o.FilterType = r.Intn(2)
				o.AlphaCompression = r.Intn(2)
				o.AlphaFiltering = r.Intn(3)
				desc := fmt.Sprintf("%s %s q=%d m=%d seg=%d parts=%d fs=%d sharp=%d ft=%d", cheapDesc(tc.W, tc.H, kind, acls), tc.Tag(), int(o.Quality), o.Method,
					o.Segments, o.Partitions, o.FilterStrength, o.FilterSharpness, o.FilterType)
				var buf bytes.Buffer
				if err := webp.Encode(&buf, img, o); err != nil {
					return vp8Case{kind: "encfail", desc: desc + ": " + err.Error()}, nil
				}
				return vp8Case{payload: vp8Payload(buf.Bytes()), kind: "enc", desc: desc}, buf.Bytes()
			})
		}
	}
	// token-count threshold (thresholds.go TokenCases: uniform noise at Quality 90 bracketing the 32768-token
	// page of the encoder's token buffer), Partitions 0..3: decoded by Go and by the Lean spec decoder like
	// every other encoder case
	for k, tc := range vp8TokenPicks(seed, tier) {
		o := webp.DefaultOptions()
		o.Quality = float32(tc.Quality)
		o.Method = []int{4, 2, 6, 0, 3, 5}[(k+int(seed))%6]
		o.Segments = 1 + (k+int(seed))%4
		o.Partitions = (k + int(seed)) % 4
		o.FilterStrength = []int{0, 20, 60}[k%3]
		g := mk(0x930000+uint64(k), tc.W, tc.H, ClsNoise, AlphaNone, o)
		est := tc.Est
		gens = append(gens, func() (vp8Case, []byte) {
			c, f := g()
			c.desc += fmt.Sprintf(" tokens-est=%d", est)
			return c, f
		})
	}
	// token partitions of 64 KiB and more (the 24-bit entries of the partition-size table need their
	// third byte): a 512x512 noise picture at quality 95 has about 240 KB of tokens. Quick: 2
	// partitions; thorough: 2, 4 and 8 (quality 100 so that every one of 4 partitions is that large).
	bigParts := []int{1}
	if tier == "thorough" {
		bigParts = []int{1, 2, 3}
	}
	for _, pp := range bigParts {
		o := webp.DefaultOptions()
		o.Quality = 95
		if pp > 1 {
			o.Quality = 100
		}
		o.Method = 2
		o.Segments = 1 + pp
		o.Partitions = pp
		o.FilterStrength = []int{0, 30, 60, 20}[pp]
		gens = append(gens, mk(0x910000+uint64(pp), 512, 512, ClsNoise, AlphaNone, o))
	}
	return gens
}

// vp8TokenPicks: the TokenCases of this run - one below and two above the estimate of 32768 tokens (all six
// in the thorough tier), rotated by the seed.
func vp8TokenPicks(seed uint64, tier string) []TokenCase {
	all := TokenCases()
	if tier == "thorough" || len(all) < 6 {
		return all
	}
	var below, above []TokenCase
	for _, c := range all {
		if c.Est < c.T.Value {
			below = append(below, c)
		} else {
			above = append(above, c)
		}
	}
	var out []TokenCase
	if len(below) > 0 {
		out = append(out, below[int(seed)%len(below)])
	}
	if len(above) > 0 {
		out = append(out, above[int(seed)%len(above)])
		if len(above) > 2 {
			out = append(out, above[(int(seed)+2)%len(above)])
		}
	}
	return out
}

// vp8Mutate derives a damaged stream from a valid one; header mutations that would declare a
// frame of more than 2^18 pixels are re-drawn (both decoders would only allocate).
func vp8Mutate(r *RNG, src []byte) ([]byte, string) {
	for try := 0; try < 20; try++ {
		b := append([]byte(nil), src...)
		kind := ""
		switch r.Intn(10) {
		case 0, 1:
			n := 1 + r.Intn(3)
			for i := 0; i < n && len(b) > 0; i++ {
				b[r.Intn(len(b))] ^= 1 << uint(r.Intn(8))
			}
			kind = "bit"
		case 2: // frame tag / start code / dimensions
			if len(b) >= 10 {
				b[r.Intn(10)] ^= 1 << uint(r.Intn(8))
			}
			kind = "hdrbit"
		case 3: // first-partition header area
			if len(b) > 12 {
				p := 10 + r.Intn(mini(len(b)-10, 16))
				b[p] ^= 1 << uint(r.Intn(8))
			}
			kind = "part0bit"
		case 4:
			if len(b) > 0 {
				b = b[:r.Intn(len(b))]
			}
			kind = "trunc"
		case 5:
			n := 1 + r.Intn(6)
			if n > len(b) {
				n = len(b)
			}
			b = b[:len(b)-n]
			kind = "tailcut"
		case 6:
			if len(b) > 0 {
				b[r.Intn(len(b))] = byte(r.Next())
			}
			kind = "byte"
		case 7:
			if len(b) > 11 {
				p := 10 + r.Intn(len(b)-10)
				val := byte(0)
				if r.Bool() {
					val = 0xff
				}
				for i := p; i < len(b) && i < p+1+r.Intn(16); i++ {
					b[i] = val
				}
			}
			kind = "fill"
		case 8:
			b = append(b, r.Bytes(1+r.Intn(8))...)
			kind = "append"
		case 9: // first-partition size field (bits 5.. of the tag)
			if len(b) >= 3 {
				tag := uint32(b[0]) | uint32(b[1])<<8 | uint32(b[2])<<16
				sz := int(tag >> 5)
				sz += r.Pick([]int{-3, -2, -1, 1, 2, 3, 100})
				if sz < 0 {
					sz = 0
				}
				tag = tag&31 | uint32(sz)<<5
				b[0], b[1], b[2] = byte(tag), byte(tag>>8), byte(tag>>16)
			}
			kind = "part0size"
		}
		if w, h, ok := vp8Dims(b); ok && w*h > 1<<18 {
			continue
		}
		return b, kind
	}
	return append([]byte(nil), src...), "none"
}

// vp8TablesLine is Go's answer to op vp8tables: digests of the decoder's constant tables (the intra-4x4
// probability table re-indexed to the RFC's mode numbering, as the Lean table is).
func vp8TablesLine() string {
	t := verifapi.VP8Tables()
	d := func(xs []int) string {
		b := make([]byte, 0, 2*len(xs))
		for _, x := range xs {
			b = append(b, byte(x), byte(x>>8))
		}
		return digest(b)
	}
	return fmt.Sprintf("ok coeff=%s upd=%s bmode=%s ymode=%s uvmode=%s dc=%s ac=%s zigzag=%s bands=%s cat=%s",
		d(t["coeff"]), d(t["upd"]), d(vp8BModeRFC(t["bmode"])), d(t["ymode"]), d(t["uvmode"]), d(t["dc"]), d(t["ac"]), d(t["zigzag"]), d(t["bands"]), d(t["cat"]))
}

func suiteVP8(rep *Report) error {
	rep.Rule = "frames: (a) VP8 payloads of webp.Encode lossy outputs over colour class x size (1x1 … 100x20, 320x320, widths 1023,1024,1025,1100,2047,2048,2049,4097 x heights 1..4 and ~10 pictures on the numeric thresholds of the code - thresholds.go - with flat/gradient/sparse content, 2 of 3 with alpha, and a 512x512 noise picture at quality 95 with 2 token partitions of > 64 KiB each; thorough: also 4 and 8 partitions at quality 100; 3 uniform-noise pictures at Quality 90 bracketing the 32768-token page - TokenCases - with Partitions 0..3) x Quality {0,20,50,75,90,100} x Method 0..6 x Segments 1..4 x Partitions 0..3 x FilterStrength {0,20,60,100} x FilterSharpness {0,3,7} x FilterType {0,1} x SNS {0,50,100} (quality x method walked, the rest drawn); (b) lossy testdata files and corpus/vp8/*.hex; (c) frames of a random VP8 writer (segment maps with absolute/delta quantiser and filter values, both filters with deltas and any sharpness, 1/2/4/8 partitions - 1 frame in 40 (thorough: 300) of those with several partitions has a NON-final partition padded with unread bytes to a declared size of 0x010000 … 0x020001, so that the 24-bit size entries use their third byte -, skip flags, all 5/10/4 intra modes uniformly, arbitrary tokens incl. categories 3-6 and zero runs, probability updates); (d) mutations of (a)-(c): bit flips, byte sets, truncations, fills, appended bytes, first-partition-size edits. Each frame is decoded by lossy.DecodeFrame (planes cropped as the public API does) and by the Lean spec decoder Webp.Spec.VP8.decode; lines (ok w h plane digests | err) are compared: ok-vs-err and planes; (e) lossy+alpha encoder outputs: webp.Decode NRGBA pixels vs the spec's fancy upsampling + YUV->RGB (op vp8nrgba) of the same VP8 payload with Go's decoded alpha plane; (f) constant tables Go vs Lean (op vp8tables); (g) results stay the caller's: webp.Decode of the opaque encoder outputs of (a) plus pictures whose width is a multiple of 16 (320x320, 1024x4, 2048x2, 128x16, 96x80, 64x64, 64x48, 48x64, 32x32, 32x16, 16x32, 16x16, 16x1, 16x7; no row padding in the decoder's planes), ordered by descending macroblock grid so that every picture is followed by decodes that fit the pooled decoder's slab, all on one goroutine and again under GOMAXPROCS(1): the last 6 returned *image.YCbCr are compared (rect, strides, Y/Cb/Cr samples) with copies taken at return after every further decode and at the end (vp8-planes:result-changed-after-later-decode, also filed as C11 history:immutable:lossy-dec), and every file is decoded twice with both results held - their backing arrays must be disjoint (vp8-planes:results-share-memory) and the pictures equal; every Go decode runs under a 20 s deadline: a call that does not return is a finding (C05 hang:DecodeFrame, and C04 when the spec decodes the frame) and ends the suite. non-trivial = the spec decoder got past the 10-byte frame header; distinct = FNV of the payload"
	v := &vp8Run{rep: rep, kept: map[string][]Finding{}, totals: map[string]int{}, phase: map[string]float64{}}
	finish := func() error {
		rep.Extra["finding_totals"] = v.totals
		rep.Extra["phase_s"] = v.phase
		var keys []string
		for k := range v.kept {
			keys = append(keys, k)
		}
		sort.Strings(keys)
		for _, k := range keys {
			for _, f := range v.kept[k] {
				rep.Add(f)
			}
		}
		sortFindings(rep)
		return nil
	}

	// (f) tables
	tl, err := RunDriver([]string{"vp8tables"})
	if err != nil {
		return err
	}
	gt := vp8TablesLine()
	rep.Eval(true, []byte("vp8tables"))
	if tl[0] != gt {
		rep.Count("tables:differ")
		gf, lf := strings.Fields(gt), strings.Fields(tl[0])
		for k := range gf {
			if k < len(lf) && gf[k] != lf[k] {
				v.add(Finding{Kind: "correspondence", Property: "C04", Signature: "vp8-tables:" + strings.SplitN(gf[k], "=", 2)[0],
					Detail: "constant table differs between Go and Lean: go " + gf[k] + " lean " + lf[k], Input: map[string]any{"op": "vp8tables", "hex": "-"}})
			}
		}
	} else {
		rep.Count("tables:equal")
	}

	// (a) encoder outputs
	t0 := time.Now()
	gens := vp8EncCases(rep.Seed, rep.Tier)
	cases := make([]vp8Case, len(gens))
	files := make([][]byte, len(gens))
	parallelDo(len(gens), func(i int) { cases[i], files[i] = gens[i]() })
	v.phase["encode"] = time.Since(t0).Seconds()
	var valid []vp8Case
	for _, tc := range vp8TokenPicks(rep.Seed, rep.Tier) {
		CountCount(rep, CountCase{N: tc.Est, T: tc.T})
	}
	for _, c := range cases {
		if c.kind == "encfail" || c.payload == nil {
			rep.Count("enc:failed")
			rep.Notes = append(rep.Notes, "encode failed or no VP8 chunk: "+c.desc)
			continue
		}
		if k := strings.Index(c.desc, "threshold:"); k >= 0 {
			rep.Count(strings.Fields(c.desc[k:])[0])
		}
		valid = append(valid, c)
	}
	// (b) testdata and corpus
	var tfiles []string
	for _, pat := range []string{"/repo/testdata/*.webp", "/repo/testdata/*/*.webp", "/repo/testdata/*/*/*.webp"} {
		m, _ := filepath.Glob(pat)
		tfiles = append(tfiles, m...)
	}
	sort.Strings(tfiles)
	for _, f := range tfiles {
		b, err := os.ReadFile(f)
		if err != nil {
			continue
		}
		if p := vp8Payload(b); p != nil {
			valid = append(valid, vp8Case{payload: p, kind: "testdata", desc: strings.TrimPrefix(f, "/repo/")})
		}
	}
	cfiles, _ := filepath.Glob(filepath.Join(CorpusDir, "vp8", "*.hex"))
	sort.Strings(cfiles)
	for _, f := range cfiles {
		b, err := os.ReadFile(f)
		if err != nil {
			continue
		}
		for _, ln := range strings.Split(string(b), "\n") {
			ln = strings.TrimSpace(ln)
			if ln == "" || strings.HasPrefix(ln, "#") {
				continue
			}
			valid = append(valid, vp8Case{payload: unhx(ln), kind: "corpus", desc: filepath.Base(f)})
		}
	}
	if err := v.batch(valid, true); err != nil {
		return err
	}
	if v.stopped {
		return finish()
	}

	// (e) NRGBA of lossy+alpha files
	t0 = time.Now()
	if err := v.nrgba(cases, files); err != nil {
		return err
	}
	v.phase["nrgba"] = time.Since(t0).Seconds()
	if v.stopped {
		return finish()
	}

	// (g) results of earlier decodes stay as they were returned
	t0 = time.Now()
	v.retained(cases, files)
	v.phase["retained"] = time.Since(t0).Seconds()

	var pool []vp8Case
	for _, c := range valid {
		if len(c.payload) <= 6000 && len(c.payload) >= 10 {
			pool = append(pool, vp8Case{payload: c.payload, desc: c.desc})
		}
	}
	valid = nil

	// (c) synthetic frames, (d) mutations
	nSyn, nMut := 2000, 2500
	if rep.Tier == "thorough" {
		nSyn, nMut = 20000, 30000
	}
	const batchSize = 5000
	for off := 0; off < nSyn; off += batchSize {
		n := mini(batchSize, nSyn-off)
		syn := make([]vp8Case, n)
		parallelDo(n, func(i int) {
			b, d := SynVP8(NewRNG(rep.Seed, 0x50000000+uint64(off+i)), rep.Tier)
			syn[i] = vp8Case{payload: b, kind: "syn", desc: d}
		})
		if off == 0 {
			for i := 0; i < n && i < 1500; i++ {
				if len(syn[i].payload) <= 6000 {
					pool = append(pool, vp8Case{payload: syn[i].payload, desc: "syn " + syn[i].desc})
				}
			}
		}
		if err := v.batch(syn, true); err != nil {
			return err
		}
		if v.stopped {
			return finish()
		}
	}
	for off := 0; off < nMut && len(pool) > 0; off += batchSize {
		n := mini(batchSize, nMut-off)
		mut := make([]vp8Case, n)
		parallelDo(n, func(i int) {
			r := NewRNG(rep.Seed, 0x40000000+uint64(off+i))
			s := pool[r.Intn(len(pool))]
			b, k := vp8Mutate(r, s.payload)
			mut[i] = vp8Case{payload: b, kind: "mut:" + k, desc: s.desc}
		})
		if err := v.batch(mut, false); err != nil {
			return err
		}
		if v.stopped {
			return finish()
		}
	}

	return finish()
}

// nrgba compares webp.Decode of lossy+alpha files with the spec's upsampling + conversion.
func (v *vp8Run) nrgba(cases []vp8Case, files [][]byte) error {
	rep := v.rep
	type job struct {
		i          int
		vp8, alpha []byte
		goLine     string
		desc       string
	}
	var jobs []job
	for i, f := range files {
		if f == nil || cases[i].payload == nil {
			continue
		}
		d, err := mux.NewDemuxer(f)
		if err != nil {
			continue
		}
		fr, err := d.Frame(0)
		if err != nil || len(fr.AlphaData) == 0 {
			continue
		}
		w, h, ok := vp8Dims(fr.Data)
		if !ok {
			continue
		}
		var plane []byte
		var img image.Image
		var aerr error
		st, pm := guardT(func() string {
			plane, aerr = verifapi.DecodeAlpha(fr.AlphaData, w, h)
			if aerr != nil {
				return "alpha-err"
			}
			img, err = webp.Decode(bytes.NewReader(f))
			return "done"
		})
		if st == "hang" || st == "panic" || st == "skipped" {
			in := map[string]any{"op": "vp8nrgba", "hex": hx(fr.Data), "alpha": hx(fr.AlphaData), "file": short(hx(f), 8000)}
			switch st {
			case "hang":
				v.add(hangFinding("Decode", "webp.Decode / DecodeAlpha of an encoder output with alpha ("+cases[i].desc+")", in))
				v.add(Finding{Kind: "property", Property: "C04", Signature: "vp8-nrgba:decode-hang", Detail: "webp.Decode does not return on an encoder output with alpha (" + cases[i].desc + ")", Input: in})
			case "panic":
				v.add(Finding{Kind: "property", Property: "C05", Signature: "panic:Decode:" + panicClass(pm), Detail: "webp.Decode / DecodeAlpha panicked on an encoder output: " + pm + " (" + cases[i].desc + ")", Input: in})
			}
			if hangSeen.Load() {
				v.stopped = true
				break
			}
			continue
		}
		if aerr != nil {
			rep.Count("nrgba:alpha-decode-failed")
			continue
		}
		if err != nil {
			v.add(Finding{Kind: "property", Property: "C04", Signature: "vp8-nrgba:decode-error", Detail: "webp.Decode failed on an encoder output with alpha: " + err.Error() + " (" + cases[i].desc + ")",
				Input: map[string]any{"op": "vp8nrgba", "hex": hx(fr.Data), "alpha": hx(plane)}})
			continue
		}
		n, ok := img.(*image.NRGBA)
		if !ok {
			rep.Count(fmt.Sprintf("nrgba:decoded-as-%T", img))
			continue
		}
		jobs = append(jobs, job{i: i, vp8: fr.Data, alpha: plane, desc: cases[i].desc,
			goLine: fmt.Sprintf("ok w=%d h=%d px=%s", n.Rect.Dx(), n.Rect.Dy(), digest(tightPix(n)))})
	}
	lines := make([]string, len(jobs))
	for k, j := range jobs {
		lines[k] = "vp8nrgba " + hx(j.vp8) + " " + hx(j.alpha)
	}
	out, err := RunDriver(lines)
	if err != nil {
		return err
	}
	for k, j := range jobs {
		rep.Eval(true, append([]byte("nrgba"), j.vp8...))
		w, h, _ := vp8Dims(j.vp8)
		rep.Count(fmt.Sprintf("nrgba:w%%2=%d,h%%2=%d", w%2, h%2))
		if out[k] == j.goLine {
			rep.Count("nrgba:agree")
			continue
		}
		rep.Count("nrgba:differ")
		v.add(Finding{Kind: "property", Property: "C04", Signature: fmt.Sprintf("vp8-nrgba:pixels:w%%2=%d:h%%2=%d", w%2, h%2),
			Detail: fmt.Sprintf("webp.Decode NRGBA pixels differ from fancy upsampling + YUV->RGB of the spec planes (%s): go=%q spec=%q", j.desc, j.goLine, out[k]),
			Input:  map[string]any{"op": "vp8nrgba", "hex": hx(j.vp8), "alpha": hx(j.alpha)}})
	}
	return nil
}

// ---------------------------------------------------------------------------------------------------
// (g) A picture returned by webp.Decode belongs to the caller: no later decode may change it, and two
// results never share memory. The lossy decoder is pooled (sync.Pool) and reconstructs into a slab that
// the next decode on the same Decoder clears and rewrites, so the whole leg runs on ONE goroutine (and a
// second time under GOMAXPROCS(1)): the Decoder released by one call is the one the next call gets.

type vp8Kept struct {
	img       *image.YCbCr
	y, cb, cr []byte // private copies taken right after the decode
	hdr       string
	idx       int
}

func vp8YCbCrHdr(m *image.YCbCr) string {
	return fmt.Sprintf("%v ystride=%d cstride=%d %v len=%d,%d,%d", m.Rect, m.YStride, m.CStride, m.SubsampleRatio, len(m.Y), len(m.Cb), len(m.Cr))
}

func vp8YCbCrDigest(m *image.YCbCr) string {
	return fmt.Sprintf("YCbCr %s Y=%s Cb=%s Cr=%s", vp8YCbCrHdr(m), digest(m.Y), digest(m.Cb), digest(m.Cr))
}

func vp8Keep(m *image.YCbCr, idx int) *vp8Kept {
	return &vp8Kept{img: m, y: append([]byte(nil), m.Y...), cb: append([]byte(nil), m.Cb...), cr: append([]byte(nil), m.Cr...), hdr: vp8YCbCrHdr(m), idx: idx}
}

// changed describes how the kept picture differs from what it was when it was returned ("" = unchanged).
func (k *vp8Kept) changed() string {
	m := k.img
	if h := vp8YCbCrHdr(m); h != k.hdr {
		return "header " + k.hdr + " -> " + h
	}
	var parts []string
	for _, p := range []struct {
		name     string
		now, was []byte
	}{{"Y", m.Y, k.y}, {"Cb", m.Cb, k.cb}, {"Cr", m.Cr, k.cr}} {
		if bytes.Equal(p.now, p.was) {
			continue
		}
		n, first := 0, -1
		for i := range p.now {
			if p.now[i] != p.was[i] {
				if first < 0 {
					first = i
				}
				n++
			}
		}
		parts = append(parts, fmt.Sprintf("%s: %d of %d samples differ (first at %d: %d -> %d; %s -> %s)", p.name, n, len(p.now), first, p.was[first], p.now[first], digest(p.was), digest(p.now)))
	}
	return strings.Join(parts, ", ")
}

// vp8SharedPlanes names two planes of different pictures whose backing arrays overlap ("" = disjoint).
func vp8SharedPlanes(a, b *image.YCbCr) string {
	type pl struct {
		name string
		s    []byte
	}
	rng := func(s []byte) (lo, hi uintptr) {
		if cap(s) == 0 {
			return 0, 0
		}
		lo = uintptr(unsafe.Pointer(unsafe.SliceData(s)))
		return lo, lo + uintptr(cap(s))
	}
	for _, p := range []pl{{"Y", a.Y}, {"Cb", a.Cb}, {"Cr", a.Cr}} {
		for _, q := range []pl{{"Y", b.Y}, {"Cb", b.Cb}, {"Cr", b.Cr}} {
			l1, h1 := rng(p.s)
			l2, h2 := rng(q.s)
			if h1 > l1 && h2 > l2 && l1 < h2 && l2 < h1 {
				return fmt.Sprintf("%s of the first result and %s of the second overlap in memory (%d bytes)", p.name, q.name, minU(h1, h2)-maxU(l1, l2))
			}
		}
	}
	return ""
}

func minU(a, b uintptr) uintptr {
	if a < b {
		return a
	}
	return b
}

func maxU(a, b uintptr) uintptr {
	if a > b {
		return a
	}
	return b
}

type vp8RetFile struct {
	file     []byte
	desc     string
	w, h     int
	mbw, mbh int
}

// vp8RetainSizes: widths that are whole numbers of macroblocks (no row padding in the decoder's planes).
var vp8RetainSizes = [][2]int{{320, 320}, {1024, 4}, {2048, 2}, {128, 16}, {96, 80}, {64, 64}, {64, 48}, {48, 64}, {32, 32}, {32, 16}, {16, 32}, {16, 16}, {16, 1}, {16, 7}}

func vp8DecodeYCbCr(file []byte) (*image.YCbCr, string) {
	var img image.Image
	var err error
	s, pm := guard(func() string { img, err = webp.Decode(bytes.NewReader(file)); return "done" })
	if s == "panic" {
		return nil, "panic " + pm
	}
	if err != nil {
		return nil, "err " + err.Error()
	}
	m, ok := img.(*image.YCbCr)
	if !ok {
		return nil, fmt.Sprintf("type %T", img)
	}
	return m, ""
}

// retainedWalk decodes list in order on the calling goroutine, keeping the last `window` results; after
// every decode all kept results are compared with the copies taken when they were returned. Every file is
// decoded a second time while the first result is held: the two results must not share memory.
func (v *vp8Run) retainedWalk(list []vp8RetFile, variant string, window int) {
	rep := v.rep
	var kept []*vp8Kept
	check := func(later int, what string) {
		for _, k := range kept {
			ch := k.changed()
			if ch == "" {
				continue
			}
			rep.Count("retained:result-changed")
			a, b := list[k.idx], list[later]
			in := map[string]any{"op": "vp8retain", "hex": hx(a.file), "hex2": hx(b.file), "first": a.desc, "second": b.desc, "variant": variant}
			det := fmt.Sprintf("the *image.YCbCr returned by webp.Decode of an opaque lossy file (%s) changed during a later webp.Decode (%s%s; %d decodes after it, %s): %s",
				a.desc, b.desc, what, later-k.idx, variant, ch)
			v.add(Finding{Kind: "property", Property: "C04", Signature: "vp8-planes:result-changed-after-later-decode", Detail: det, Input: in})
			v.add(Finding{Kind: "property", Property: "C11", Signature: "history:immutable:lossy-dec", Detail: det, Input: in})
			// report once per change: from here on compare with the present content
			*k = *vp8Keep(k.img, k.idx)
		}
	}
	for i, f := range list {
		m, why := vp8DecodeYCbCr(f.file)
		check(i, "")
		if m == nil {
			rep.Count("retained:not-ycbcr:" + strings.SplitN(why, " ", 2)[0])
			if strings.HasPrefix(why, "panic") {
				v.add(Finding{Kind: "property", Property: "C05", Signature: "panic:Decode:" + panicClass(why[6:]), Detail: "webp.Decode panicked on an encoder output: " + why + " (" + f.desc + ")",
					Input: map[string]any{"op": "vp8retain", "hex": hx(f.file), "hex2": hx(f.file)}})
			}
			continue
		}
		rep.Count("retained:decodes:" + variant)
		if variant == "procs=all" {
			rep.Eval(true, append([]byte("retain"), f.file...))
			if f.w%16 == 0 {
				rep.Count("retained:width%16=0")
			} else {
				rep.Count("retained:width%16!=0")
			}
		}
		me := vp8Keep(m, i)
		kept = append(kept, me)
		if len(kept) > window {
			kept = kept[1:]
		}
		// the same file again, first result held
		m2, _ := vp8DecodeYCbCr(f.file)
		check(i, ", the same file again")
		if m2 != nil {
			if sh := vp8SharedPlanes(m, m2); sh != "" {
				rep.Count("retained:results-share-memory")
				v.add(Finding{Kind: "property", Property: "C04", Signature: "vp8-planes:results-share-memory",
					Detail: fmt.Sprintf("two webp.Decode calls on the same opaque lossy file (%s), both results held: %s (%s)", f.desc, sh, variant),
					Input:  map[string]any{"op": "vp8retain", "hex": hx(f.file), "hex2": hx(f.file), "first": f.desc, "second": f.desc, "variant": variant}})
			} else {
				rep.Count("retained:pairs-disjoint")
			}
			if d1, d2 := vp8YCbCrDigest(m), vp8YCbCrDigest(m2); d1 != d2 {
				v.add(Finding{Kind: "property", Property: "C04", Signature: "vp8-planes:same-file-decodes-differ",
					Detail: fmt.Sprintf("two webp.Decode calls on the same opaque lossy file (%s) return different pictures: %s vs %s (%s)", f.desc, d1, d2, variant),
					Input:  map[string]any{"op": "vp8retain", "hex": hx(f.file), "hex2": hx(f.file), "first": f.desc, "second": f.desc, "variant": variant}})
			}
		}
	}
	if len(list) > 0 {
		check(len(list)-1, ", end of the walk")
	}
}

// retained: leg (g). Files: the opaque encoder outputs of leg (a) plus pictures whose width is a multiple
// of 16, ordered by descending macroblock grid (within one grid the multiples of 16 first), so that every
// picture is followed by pictures whose decode fits into the slab the pooled decoder already has.
func (v *vp8Run) retained(cases []vp8Case, files [][]byte) {
	rep := v.rep
	var list []vp8RetFile
	add := func(file []byte, desc string) {
		if len(file) < 30 || string(file[12:16]) != "VP8 " {
			return // extended file: alpha (NRGBA result) - leg (e)
		}
		w, h, ok := vp8Dims(file[20:])
		if !ok || w == 0 || h == 0 {
			return
		}
		list = append(list, vp8RetFile{file, desc, w, h, (w + 15) / 16, (h + 15) / 16})
	}
	for i, f := range files {
		if f != nil && cases[i].payload != nil {
			add(f, cases[i].desc)
		}
	}
	reps := 2
	if rep.Tier == "thorough" {
		reps = 6
	}
	type job struct {
		w, h, k int
	}
	var jobs []job
	for k := 0; k < reps; k++ {
		for _, sz := range vp8RetainSizes {
			jobs = append(jobs, job{sz[0], sz[1], k})
		}
	}
	extra := make([]vp8RetFile, len(jobs))
	parallelDo(len(jobs), func(i int) {
		j := jobs[i]
		r := NewRNG(rep.Seed, 0x14000000+uint64(i))
		o := webp.DefaultOptions()
		o.Quality = float32([]int{30, 75, 90, 50}[r.Intn(4)])
		o.Method = r.Intn(5)
		o.Partitions = r.Intn(4)
		o.Segments = 1 + r.Intn(4)
		var img image.Image
		desc := ""
		if j.w*j.h > 4096 && j.w > 512 {
			kind := r.Intn(NumCheapClasses)
			img, desc = GenCheapImage(r, j.w, j.h, kind, AlphaNone), cheapDesc(j.w, j.h, kind, AlphaNone)
		} else {
			cls := []int{ClsPhoto, ClsNoise, ClsGradient, ClsPal16}[r.Intn(4)]
			img, desc = GenImage(r, j.w, j.h, cls, AlphaNone), imgDesc(j.w, j.h, cls, AlphaNone)
		}
		var buf bytes.Buffer
		if err := webp.Encode(&buf, img, o); err == nil {
			extra[i] = vp8RetFile{file: buf.Bytes(), desc: fmt.Sprintf("%s q=%d m=%d parts=%d #%d", desc, int(o.Quality), o.Method, o.Partitions, j.k)}
		}
	})
	for _, e := range extra {
		if e.file != nil {
			add(e.file, e.desc)
		}
	}
	sort.SliceStable(list, func(i, j int) bool {
		a, b := list[i], list[j]
		if a.mbw*a.mbh != b.mbw*b.mbh {
			return a.mbw*a.mbh > b.mbw*b.mbh
		}
		if a.mbw != b.mbw {
			return a.mbw > b.mbw
		}
		return (a.w%16 == 0) && (b.w%16 != 0)
	})
	window := 6
	v.retainedWalk(list, "procs=all", window)
	// again with a single P: every sync.Pool Get finds what the previous Put left (multiples of 16 and every
	// 3rd other file)
	var sub []vp8RetFile
	for i, f := range list {
		if f.w%16 == 0 || i%3 == 0 {
			sub = append(sub, f)
		}
	}
	old := runtime.GOMAXPROCS(1)
	v.retainedWalk(sub, "procs=1", window)
	runtime.GOMAXPROCS(old)
}

// replayVP8Retain: decode file A (hex), keep the result, decode file B (hex2) a few times on the same
// goroutine with a single P - cold pool first, then with a pooled decoder whose slab is large enough for
// both; exit 1 when A's result changed or (A == B) the two results share memory.
func replayVP8Retain(in map[string]any) int {
	ha, _ := in["hex"].(string)
	hb, _ := in["hex2"].(string)
	a, b := unhx(ha), unhx(hb)
	if hb == "" {
		b = a
	}
	old := runtime.GOMAXPROCS(1)
	defer runtime.GOMAXPROCS(old)
	rc := 0
	for round := 0; round < 2; round++ {
		if round == 1 {
			// grow the pooled decoder's slab first
			var buf bytes.Buffer
			o := webp.DefaultOptions()
			if err := webp.Encode(&buf, image.NewNRGBA(image.Rect(0, 0, 1024, 512)), o); err == nil {
				_, _ = vp8DecodeYCbCr(buf.Bytes())
			}
		}
		m, why := vp8DecodeYCbCr(a)
		if m == nil {
			fmt.Printf("round %d: first file does not decode to YCbCr: %s\n", round, why)
			if strings.HasPrefix(why, "panic") {
				return 1
			}
			return 0
		}
		k := vp8Keep(m, 0)
		fmt.Printf("round %d: first result  %s\n", round, vp8YCbCrDigest(m))
		for i := 0; i < 3; i++ {
			m2, why := vp8DecodeYCbCr(b)
			if ch := k.changed(); ch != "" {
				fmt.Printf("round %d: first result changed during decode %d of the second file: %s\n", round, i+1, ch)
				rc = 1
				break
			}
			if m2 == nil {
				fmt.Printf("round %d: second file: %s\n", round, why)
				continue
			}
			if sh := vp8SharedPlanes(m, m2); sh != "" {
				fmt.Printf("round %d: %s\n", round, sh)
				rc = 1
				break
			}
		}
		if rc == 0 {
			fmt.Printf("round %d: first result unchanged, results disjoint\n", round)
		}
	}
	return rc
}

func replayVP8(in map[string]any) int {
	hs, _ := in["hex"].(string)
	data := unhx(hs)
	g, pm := guardT(func() string { return goVP8(data) })
	l, err := RunDriver([]string{"vp8 " + hs, "vp8info " + hs})
	fmt.Printf("go:   %s %s\n", g, pm)
	if err != nil {
		fmt.Println(err)
		return 2
	}
	fmt.Printf("lean: %s\ninfo: %s\n", l[0], l[1])
	gOK, lOK := strings.HasPrefix(g, "ok "), strings.HasPrefix(l[0], "ok ")
	if g == "panic" || g == "hang" || gOK != lOK || (gOK && l[0] != g) {
		return 1
	}
	return 0
}
