package main

// Suite "vp8lwindow" — property C03 (also C01 / C05 through the same decoder): the REFILL
// DISCIPLINE of the VP8L pixel loop.
//
// Three voices per stream (one entropy-coded image = colour-cache info, five prefix codes, pixel
// data; what decodeSubImage reads):
//
//	Go    lossless.decodeSubImage → readHuffmanCodes + decodeImageData on the real 64-bit window
//	      reader (verifapi.EDecodeEntropyImage)
//	Lean  (m) Webp.Impl.VP8LWindow.readTokenGo — one loop iteration transcribed WITH its
//	          br.FillBitWindow() calls — inside the loop model, over the window-reader model
//	      (s) the specification decoder Webp.Spec.VP8L.decodePixels
//	      (x) the loop model with the two refills of the distance part removed (seeded change
//	          C03_4); `sens=1` in the answer = this stream exposes the missing refills
//
// The driver answers `mismatch window` when (m) and (s) differ (that would contradict theorem
// Webp.Props.C03Window.decodeImageData_eq_spec_window); Go and (m) are compared verbatim.
//
// Streams are written by a small writer of its own (normal prefix codes with a flat code-length
// code) so that the shapes the Go encoder never produces are reached: the length-prefix and
// distance symbols that are USED sit on 12–15-bit code words (ladder 1,2,…,14,15,15), backward
// references carry up to 10 length and up to 18 distance extra bits (pictures of ≥ 2^19+120 pixels
// for the far ones), and every such stream is written 32 times with 0…31 one-bit filler literals in
// front, so that the reference starts at every alignment of the 32-bit refill window.

import (
	"fmt"
	"runtime"
	"sort"
	"strconv"
	"strings"
	"sync"

	"github.com/deepteams/webp/verifapi"
)

func init() {
	suites["vp8lwindow"] = suiteVP8LWindow
	replayers["vwdec"] = replayVW
	replayers["vwcex"] = replayVW
	replayers["vwdec2"] = replayVW
	replayers["vwpay"] = replayVW
}

const vwCexLine = "ok built=1 codes=1 spec=c1:961075 go=c1:961075 nofill=c1:786315"

// ---------- Go side ----------

func vwPixBytes(px []uint32) []byte {
	b := make([]byte, 0, 4*len(px))
	for _, p := range px {
		b = append(b, byte(p>>24), byte(p>>16), byte(p>>8), byte(p))
	}
	return b
}

// goVW recomputes the Go answer from the protocol line alone.
func goVW(f []string) string {
	switch f[0] {
	case "vwcex":
		return vwCexLine
	case "vwpay":
		if len(f) != 2 {
			return "bad-op"
		}
		return goVP8L(unhx(f[1]))
	case "vwdec", "vwdec2":
		if len(f) != 4 {
			return "bad-op"
		}
		w, e1 := strconv.Atoi(f[1])
		h, e2 := strconv.Atoi(f[2])
		if e1 != nil || e2 != nil {
			return "bad-op"
		}
		px, err := verifapi.EDecodeEntropyImage(unhx(f[3]), w, h)
		if err != nil {
			return "err"
		}
		return "ok " + digest(vwPixBytes(px))
	}
	return "bad-op"
}

// vwStripSens splits the Lean-only annotations off: "<answer> fl=<flags> sens=<0|1>".
func vwStripSens(l string) (answer, sens string) {
	if i := strings.LastIndex(l, " sens="); i >= 0 {
		sens = l[i+6:]
		l = l[:i]
	}
	if i := strings.LastIndex(l, " fl="); i >= 0 {
		l = l[:i]
	}
	return l, sens
}

func vwFlags(l string) string {
	if i := strings.LastIndex(l, " fl="); i >= 0 && len(l) >= i+7 {
		return l[i+4 : i+7]
	}
	return ""
}

func replayVW(in map[string]any) int {
	line, _ := in["line"].(string)
	f := strings.Split(line, " ")
	g, pm := guard(func() string { return goVW(f) })
	lean, err := RunDriver([]string{line})
	if err != nil {
		fmt.Println(err)
		return 2
	}
	fmt.Println("go:  ", short(g, 400), pm)
	fmt.Println("lean:", short(lean[0], 400))
	l, _ := vwStripSens(lean[0])
	if g == "panic" || g != l {
		return 1
	}
	return 0
}

// ---------- stream writer ----------

// vwPutCode writes a NORMAL prefix code for the length vector: code-length code with the 16
// symbols 0..15 at 4 bits each (complete), no max_symbol, one 4-bit word per symbol.
func vwPutCode(w *bitW, lengths []int) {
	w.put(0, 1)    // normal code
	w.put(19-4, 4) // all 19 code-length-code lengths follow
	order := []int{17, 18, 0, 1, 2, 3, 4, 5, 16, 6, 7, 8, 9, 10, 11, 12, 13, 14, 15}
	for _, s := range order {
		if s <= 15 {
			w.put(4, 3)
		} else {
			w.put(0, 3)
		}
	}
	w.put(0, 1) // max_symbol = alphabet size
	for _, l := range lengths {
		w.putCode(uint32(l), 4)
	}
}

// vwRLECodes selects the header writer of vwStream: false = flat code-length code, one 4-bit word per
// symbol (vwPutCode); true = vwPutCodeRLE
var vwRLECodes bool

// vwPutCodeRLE writes a NORMAL prefix code the way an encoder would: run-length tokens (16: repeat the
// previous non-zero length 3..6 times, initial 8; 17: 3..10 zeros; 18: 11..138 zeros), a random complete
// code-length code of depth <= 7 over the tokens used (or a single-symbol one), the minimal number of
// code-length-code lengths, and — half of the time — max_symbol with the trailing zero tokens dropped.
func vwPutCodeRLE(r *RNG, w *bitW, lengths []int) {
	type tok struct{ sym, extra, nbits int }
	var toks []tok
	prev := 8
	useRuns := !r.Chance(1, 5)
	for i := 0; i < len(lengths); {
		v := lengths[i]
		n := 1
		for i+n < len(lengths) && lengths[i+n] == v {
			n++
		}
		i += n
		if v == 0 {
			for useRuns && n >= 3 {
				if n >= 11 && !r.Chance(1, 6) {
					m := mini(n, 138)
					if r.Chance(1, 4) {
						m = 11 + r.Intn(m-10)
					}
					toks = append(toks, tok{18, m - 11, 7})
					n -= m
				} else {
					m := mini(n, 10)
					toks = append(toks, tok{17, m - 3, 3})
					n -= m
				}
			}
			for ; n > 0; n-- {
				toks = append(toks, tok{0, 0, 0})
			}
			continue
		}
		if v != prev {
			toks = append(toks, tok{v, 0, 0})
			prev = v
			n--
		}
		for useRuns && n >= 3 {
			m := mini(n, 6)
			toks = append(toks, tok{16, m - 3, 2})
			n -= m
		}
		for ; n > 0; n-- {
			toks = append(toks, tok{v, 0, 0})
		}
	}
	useMax := r.Bool()
	if useMax {
		for len(toks) > 2 && (toks[len(toks)-1].sym == 0 || toks[len(toks)-1].sym >= 17) {
			toks = toks[:len(toks)-1]
		}
		if len(toks) < 2 {
			useMax = false
		}
	}
	used := map[int]bool{}
	for _, t := range toks {
		used[t.sym] = true
	}
	var syms []int
	for s := 0; s < 19; s++ {
		if used[s] {
			syms = append(syms, s)
		}
	}
	cl := make([]int, 19)
	if len(syms) == 1 {
		cl[syms[0]] = 1 + r.Intn(7)
	} else {
		t := randomTreeLengths(r, len(syms), 7)
		for i := len(t) - 1; i > 0; i-- {
			j := r.Intn(i + 1)
			t[i], t[j] = t[j], t[i]
		}
		for i, s := range syms {
			cl[s] = t[i]
		}
	}
	codes := canonCodes(cl)
	order := []int{17, 18, 0, 1, 2, 3, 4, 5, 16, 6, 7, 8, 9, 10, 11, 12, 13, 14, 15}
	num := 4
	for i, s := range order {
		if cl[s] != 0 && i+1 > num {
			num = i + 1
		}
	}
	if num < 19 && r.Chance(1, 4) {
		num += r.Intn(19 - num + 1)
	}
	w.put(0, 1)
	w.put(uint32(num-4), 4)
	for i := 0; i < num; i++ {
		w.put(uint32(cl[order[i]]), 3)
	}
	if useMax {
		w.put(1, 1)
		v := len(toks) - 2
		nb := 2
		for v >= 1<<uint(nb) {
			nb += 2
		}
		if nb < 16 && r.Chance(1, 3) {
			nb += 2
		}
		w.put(uint32((nb-2)/2), 3)
		w.put(uint32(v), nb)
	} else {
		w.put(0, 1)
	}
	for _, t := range toks {
		if len(syms) > 1 {
			w.putCode(codes[t.sym], cl[t.sym])
		}
		w.put(uint32(t.extra), t.nbits)
	}
}

type vwCode struct {
	lengths []int
	codes   []uint32
	single  bool
}

func vwMakeCode(lengths []int) *vwCode {
	n := 0
	for _, l := range lengths {
		if l > 0 {
			n++
		}
	}
	return &vwCode{lengths: lengths, codes: canonCodes(lengths), single: n == 1}
}

func (c *vwCode) bits(sym int) int {
	if c.single {
		return 0
	}
	return c.lengths[sym]
}

func (c *vwCode) emit(w *bitW, sym int) {
	if !c.single {
		w.putCode(c.codes[sym], c.lengths[sym])
	}
}

// vwLengths assigns code lengths to the used symbols of an alphabet.  shape: "ladder" (1,2,…,14,15,15
// over 16 symbols, the symbols of `long` on the longest words, unused symbols completing the tree on
// the short ones), "random" (random complete tree, depth ≤ 15), "flat" (all words equally long).
func vwLengths(r *RNG, alphabet int, used []int, long map[int]bool, shape string) []int {
	ls := make([]int, alphabet)
	syms := append([]int(nil), used...)
	sort.Ints(syms)
	if len(syms) == 1 {
		ls[syms[0]] = 1
		return ls
	}
	have := map[int]bool{}
	for _, s := range syms {
		have[s] = true
	}
	pad := func(n int) {
		for len(syms) < n && len(syms) < alphabet {
			s := r.Intn(alphabet)
			if !have[s] {
				have[s] = true
				syms = append(syms, s)
			}
		}
	}
	switch {
	case shape == "ladder" && len(syms) <= 16 && alphabet >= 16:
		pad(16)
		rank := func(s int) int {
			if long[s] {
				return 2
			}
			for _, u := range used {
				if u == s {
					return 1
				}
			}
			return 0
		}
		sort.SliceStable(syms, func(i, j int) bool { return rank(syms[i]) < rank(syms[j]) })
		for i, s := range syms {
			l := i + 1
			if l > 15 {
				l = 15
			}
			ls[s] = l
		}
	case shape == "flat":
		n := 1
		d := 0
		for n < len(syms) {
			n *= 2
			d++
		}
		pad(n)
		if len(syms) < n { // alphabet too small: fall back to a random tree
			t := randomTreeLengths(r, len(syms), 15)
			for i, s := range syms {
				ls[s] = t[i]
			}
		} else {
			for _, s := range syms {
				ls[s] = d
			}
		}
	default:
		t := randomTreeLengths(r, len(syms), 15)
		for i := len(t) - 1; i > 0; i-- {
			j := r.Intn(i + 1)
			t[i], t[j] = t[j], t[i]
		}
		// the symbols of `long` take the longest words
		sort.SliceStable(syms, func(i, j int) bool { return !long[syms[i]] && long[syms[j]] })
		sort.Ints(t)
		if !r.Chance(2, 3) {
			for i := len(t) - 1; i > 0; i-- {
				j := r.Intn(i + 1)
				t[i], t[j] = t[j], t[i]
			}
		}
		for i, s := range syms {
			ls[s] = t[i]
		}
	}
	return ls
}

type vwTok struct {
	kind             int // 0 literal, 1 copy, 2 cache
	g, rr, bb, aa    int
	length, distCode int
	idx              int
}

type vwStats struct {
	maxSpan   int // green + length extra + distance word + distance extra bits of one copy
	maxWord   int
	maxDExtra int
	maxLExtra int
	aligns    uint32 // stream offsets mod 32 at which a copy with span ≥ 33 starts
	copies    int
}

// vwStream writes one entropy-coded image.  filler: number of leading one-symbol literals.
func vwStream(r *RNG, w, h, cacheBits int, shapeG, shapeD, class string, filler int) ([]byte, vwStats) {
	npix := w * h
	var toks []vwTok
	pos := 0
	// literal palettes
	nl := 2 + r.Intn(3)
	if class == "packed" || class == "trivial" {
		nl = 1 + r.Intn(2)
	}
	lit := func(n int) []int {
		o := make([]int, n)
		for i := range o {
			o[i] = r.Intn(256)
		}
		return o
	}
	gl, rl, bl, al := lit(nl), lit(1+r.Intn(2)), lit(1+r.Intn(2)), lit(1+r.Intn(2))
	if class == "trivial" {
		rl, bl, al = rl[:1], bl[:1], al[:1]
	}
	addLit := func(g int) {
		toks = append(toks, vwTok{kind: 0, g: g, rr: rl[r.Intn(len(rl))], bb: bl[r.Intn(len(bl))], aa: al[r.Intn(len(al))]})
		pos++
	}
	for i := 0; i < filler && pos < npix; i++ {
		addLit(gl[0])
	}
	if pos < npix {
		addLit(gl[r.Intn(len(gl))])
	}
	farGoal := 0
	if class == "far" {
		farGoal = 1<<19 + 200
	}
	for pos < npix {
		rem := npix - pos
		if farGoal > 0 && pos < farGoal {
			// grow quickly: fill copies
			l := 4096
			if l > rem {
				l = rem
			}
			toks = append(toks, vwTok{kind: 1, length: l, distCode: 1 + 120})
			pos += l
			continue
		}
		c := r.Intn(10)
		switch {
		case c < 6 && class != "trivial" || class == "far":
			// backward reference
			var l int
			switch r.Intn(4) {
			case 0:
				l = 1 + r.Intn(4)
			case 1:
				l = 5 + r.Intn(60)
			case 2:
				l = 2049 + r.Intn(2048) // 10 extra bits
			default:
				l = 1 + r.Intn(4096)
			}
			if l > rem {
				l = rem
			}
			var d int
			switch r.Intn(4) {
			case 0:
				d = 1 + r.Intn(mini(pos, 8))
			case 1:
				d = 1 + r.Intn(pos)
			default: // as far as possible: the most extra bits the picture allows
				d = pos - r.Intn(mini(pos, 1+pos/8))
			}
			dc := d + 120
			if pos >= 8*w+8 && r.Chance(1, 6) {
				dc = 1 + r.Intn(120)
			}
			toks = append(toks, vwTok{kind: 1, length: l, distCode: dc})
			pos += l
		case c < 8 && cacheBits > 0:
			toks = append(toks, vwTok{kind: 2, idx: r.Intn(1 << uint(cacheBits))})
			pos++
		default:
			addLit(gl[r.Intn(len(gl))])
		}
	}
	// used symbols
	cacheSize := 0
	if cacheBits > 0 {
		cacheSize = 1 << uint(cacheBits)
	}
	usedG, usedR, usedB, usedA, usedD := map[int]bool{}, map[int]bool{}, map[int]bool{}, map[int]bool{}, map[int]bool{}
	longG, longD := map[int]bool{}, map[int]bool{}
	for _, t := range toks {
		switch t.kind {
		case 0:
			usedG[t.g], usedR[t.rr], usedB[t.bb], usedA[t.aa] = true, true, true, true
		case 1:
			ls, _, _ := prefixEncode(t.length)
			ds, _, _ := prefixEncode(t.distCode)
			usedG[256+ls], usedD[ds] = true, true
			longG[256+ls], longD[ds] = true, true
		case 2:
			usedG[280+t.idx] = true
		}
	}
	if len(usedD) == 0 {
		usedD[r.Intn(40)] = true
	}
	keys := func(m map[int]bool) []int {
		o := make([]int, 0, len(m))
		for k := range m {
			o = append(o, k)
		}
		sort.Ints(o)
		return o
	}
	// the filler literal takes the shortest green word: it is not "long", everything else used is
	long2 := map[int]bool{}
	for s := range usedG {
		if s != gl[0] {
			long2[s] = longG[s] || shapeG == "ladder"
		}
	}
	cg := vwMakeCode(vwLengths(r, 280+cacheSize, keys(usedG), long2, shapeG))
	cr := vwMakeCode(vwLengths(r, 256, keys(usedR), nil, "random"))
	cb := vwMakeCode(vwLengths(r, 256, keys(usedB), nil, "random"))
	ca := vwMakeCode(vwLengths(r, 256, keys(usedA), nil, "random"))
	cd := vwMakeCode(vwLengths(r, 40, keys(usedD), longD, shapeD))
	bw := &bitW{}
	if cacheBits > 0 {
		bw.put(1, 1)
		bw.put(uint32(cacheBits), 4)
	} else {
		bw.put(0, 1)
	}
	for _, c := range []*vwCode{cg, cr, cb, ca, cd} {
		if vwRLECodes {
			vwPutCodeRLE(r, bw, c.lengths)
		} else {
			vwPutCode(bw, c.lengths)
		}
	}
	var st vwStats
	for _, t := range toks {
		switch t.kind {
		case 0:
			cg.emit(bw, t.g)
			cr.emit(bw, t.rr)
			cb.emit(bw, t.bb)
			ca.emit(bw, t.aa)
		case 1:
			start := int(bw.n)
			ls, ln, le := prefixEncode(t.length)
			ds, dn, de := prefixEncode(t.distCode)
			cg.emit(bw, 256+ls)
			bw.put(uint32(le), ln)
			cd.emit(bw, ds)
			bw.put(uint32(de), dn)
			span := int(bw.n) - start
			st.copies++
			if span > st.maxSpan {
				st.maxSpan = span
			}
			for _, x := range []int{cg.bits(256 + ls), cd.bits(ds)} {
				if x > st.maxWord {
					st.maxWord = x
				}
			}
			if dn > st.maxDExtra {
				st.maxDExtra = dn
			}
			if ln > st.maxLExtra {
				st.maxLExtra = ln
			}
			if span >= 33 {
				st.aligns |= 1 << uint(start%32)
			}
		case 2:
			cg.emit(bw, 280+t.idx)
		}
	}
	// keep the reader's fast refill path alive behind the last token, sometimes not
	if r.Chance(3, 4) {
		bw.put(0, 32)
		bw.put(0, 32)
	}
	return bw.b, st
}

// ---------- the suite ----------

func suiteVP8LWindow(rep *Report) error {
	type cs struct {
		line, tag string
		st        vwStats
	}
	var cases []cs
	add := func(tag string, w, h int, data []byte, st vwStats) {
		cases = append(cases, cs{line: fmt.Sprintf("vwdec %d %d %s", w, h, hx(data)), tag: tag, st: st})
	}
	cases = append(cases, cs{line: "vwcex", tag: "cex"})
	rounds := 1
	if rep.Tier == "thorough" {
		rounds = 8
	}
	ci := uint64(0)
	for round := 0; round < rounds; round++ {
		// (1) long code words × all 32 alignments, small and medium pictures
		for _, pic := range [][2]int{{64, 64}, {37, 111}, {256, 256}} {
			for _, shape := range [][2]string{{"ladder", "ladder"}, {"ladder", "random"}, {"random", "ladder"}, {"random", "random"}, {"flat", "flat"}} {
				if pic[0] == 256 && shape[0] == "flat" {
					continue
				}
				for _, cbits := range []int{0, 3} {
					base := ci
					ci++
					for k := 0; k < 32; k++ {
						// the same token list (same seed) behind k filler literals
						r := NewRNG(rep.Seed, 1000+base)
						data, st := vwStream(r, pic[0], pic[1], cbits, shape[0], shape[1], "std", k)
						add(fmt.Sprintf("std:%dx%d:%s/%s:cb%d", pic[0], pic[1], shape[0], shape[1], cbits), pic[0], pic[1], data, st)
					}
				}
			}
		}
		// (2) far references: ≥ 2^19 + 120 pixels, distance symbols 38/39 (18 extra bits)
		nfar := 32
		for k := 0; k < nfar; k++ {
			r := NewRNG(rep.Seed, 5000+uint64(round))
			shapeD := "ladder"
			data, st := vwStream(r, 1024, 520, 0, "ladder", shapeD, "far", k)
			add("far:1024x520:ladder/ladder", 1024, 520, data, st)
		}
	}
	// (3) the fast paths: packed table, trivial literal
	{
		n := 48 * rounds
		for i := 0; i < n; i++ {
			r := NewRNG(rep.Seed, 9000+uint64(i))
			class := "packed"
			if i%3 == 2 {
				class = "trivial"
			}
			w, h := 16+r.Intn(40), 8+r.Intn(30)
			data, st := vwStream(r, w, h, []int{0, 0, 2}[r.Intn(3)], "flat", "flat", class, r.Intn(32))
			add(class, w, h, data, st)
		}
	}
	// (3b) leg `codes`: the header read by the MODEL of readHuffmanCode / readHuffmanCodeLengths on the
	// window reader (op vwdec2): every fifth stream of (1)-(3) again, and streams whose prefix codes are
	// written with run-length tokens (16 / 17 / 18, all extra-bit values), random code-length codes of
	// depth <= 7 and max_symbol
	{
		n := len(cases)
		for i := 1; i < n; i += 5 {
			f := strings.Split(cases[i].line, " ")
			if f[0] == "vwdec" {
				cases = append(cases, cs{line: "vwdec2 " + strings.Join(f[1:], " "), tag: "codes-flat:" + cases[i].tag, st: cases[i].st})
			}
		}
		vwRLECodes = true
		nr := 600 * rounds
		for i := 0; i < nr; i++ {
			r := NewRNG(rep.Seed, 20000+uint64(i))
			w, h := 8+r.Intn(40), 4+r.Intn(24)
			shapes := []string{"ladder", "random", "flat"}
			class := "std"
			if i%7 == 3 {
				class = "packed"
			}
			data, st := vwStream(r, w, h, []int{0, 0, 1, 4, 7, 11}[r.Intn(6)], shapes[r.Intn(3)], shapes[r.Intn(3)], class, r.Intn(32))
			cases = append(cases, cs{line: fmt.Sprintf("vwdec2 %d %d %s", w, h, hx(data)), tag: "codes-rle", st: st})
		}
		vwRLECodes = false
	}
	// (3c) leg `stream`: whole VP8L payloads of the random VP8L writer (gen_vp8l.go: any transform
	// subset / order with their sub-images, colour cache, meta prefix codes, defects) through the MODEL
	// of the level-0 sequence on the window reader (op vwpay) vs lossless.DecodeVP8L vs the specification
	{
		ns := 400 * rounds
		for i := 0; i < ns; i++ {
			r := NewRNG(rep.Seed, 40000+uint64(i))
			var data []byte
			var desc string
			switch i % 8 {
			case 5:
				data, desc = SynVP8LNarrow(r)
			case 6:
				data, desc = SynVP8LLong(r, 0)
			default:
				data, desc = SynVP8L(r)
			}
			_ = desc
			cases = append(cases, cs{line: "vwpay " + hx(data), tag: "stream"})
		}
	}
	// (4) truncations of (1)/(2): the end-of-stream polling of the loop
	{
		r := NewRNG(rep.Seed, 424242)
		n := len(cases)
		for i := 1; i < n; i += 7 {
			f := strings.Split(cases[i].line, " ")
			if len(f) != 4 {
				continue
			}
			data := unhx(f[3])
			if len(data) < 24 {
				continue
			}
			cut := 8 + r.Intn(len(data)-8)
			if r.Chance(1, 2) {
				cut = len(data) - 1 - r.Intn(mini(16, len(data)-9))
			}
			cases = append(cases, cs{line: fmt.Sprintf("vwdec %s %s %s", f[1], f[2], hx(data[:cut])), tag: "trunc:" + cases[i].tag, st: cases[i].st})
		}
	}

	lines := make([]string, len(cases))
	for i, c := range cases {
		lines[i] = c.line
	}
	gos := make([]string, len(lines))
	pms := make([]string, len(lines))
	{
		var wg sync.WaitGroup
		nw := runtime.NumCPU()
		for wk := 0; wk < nw; wk++ {
			wg.Add(1)
			go func(wk int) {
				defer wg.Done()
				for i := wk; i < len(lines); i += nw {
					f := strings.Split(lines[i], " ")
					gos[i], pms[i] = guard(func() string { return goVW(f) })
				}
			}(wk)
		}
		wg.Wait()
	}
	lean, err := RunDriver(lines)
	if err != nil {
		return err
	}
	var aligns uint32
	maxSpan, maxWord, maxD, maxL, sens := 0, 0, 0, 0, 0
	for i, l := range lean {
		c := cases[i]
		op := strings.SplitN(c.line, " ", 2)[0]
		cls := strings.SplitN(c.tag, ":", 2)[0]
		rep.Count("class:" + cls)
		l0, sv := vwStripSens(l)
		okLine := strings.HasPrefix(l0, "ok")
		rep.Count("result:" + strings.SplitN(gos[i]+" ", " ", 2)[0])
		rep.Eval(okLine && (c.st.copies > 0 || cls == "stream"), []byte(c.line))
		if fl := vwFlags(l); fl != "" {
			rep.Count("group-flags(trivialCode,packed,trivialLiteral):" + fl)
		}
		if sv == "1" {
			sens++
			rep.Count("exposes-missing-refill(C03_4):" + cls)
		}
		if okLine && cls != "trunc" {
			aligns |= c.st.aligns
			if c.st.maxSpan > maxSpan {
				maxSpan = c.st.maxSpan
			}
			if c.st.maxWord > maxWord {
				maxWord = c.st.maxWord
			}
			if c.st.maxDExtra > maxD {
				maxD = c.st.maxDExtra
			}
			if c.st.maxLExtra > maxL {
				maxL = c.st.maxLExtra
			}
			switch {
			case c.st.maxSpan > 48:
				rep.Count("copy-span:>48")
			case c.st.maxSpan > 32:
				rep.Count("copy-span:33..48")
			default:
				rep.Count("copy-span:<=32")
			}
		}
		if l == "skip remap" {
			rep.Count("stream:skipped(group remapping not modelled)")
			continue
		}
		if gos[i] == "panic" {
			rep.Add(Finding{Kind: "property", Property: "C05", Signature: "vp8lwindow:go-panic:decodeImageData",
				Detail: fmt.Sprintf("(%s) %s: %s", c.tag, short(c.line, 200), pms[i]), Input: map[string]any{"op": op, "line": c.line}})
			continue
		}
		if strings.HasPrefix(l, "mismatch") || l == "panic" || l == "hang" {
			rep.Add(Finding{Kind: "property", Property: "C03", Signature: "vp8lwindow-theorem:" + strings.TrimPrefix(l, "mismatch "),
				Detail: fmt.Sprintf("(%s) %s: loop model over the window reader and specification disagree inside Lean: %q (go=%q)", c.tag, short(c.line, 160), l, short(gos[i], 120)),
				Input:  map[string]any{"op": op, "line": c.line}})
			continue
		}
		if l0 != gos[i] {
			sig := "vp8lwindow-model:decodeImageData"
			if op == "vwcex" {
				sig = "vp8lwindow-model:counterexample-data"
			}
			if op == "vwdec2" {
				sig = "vp8lwindow-model:readHuffmanCode"
			}
			if op == "vwpay" {
				sig = "vp8lwindow-model:decodeImageStream"
			}
			rep.Add(Finding{Kind: "correspondence", Property: "C03", Signature: sig,
				Detail: fmt.Sprintf("(%s) %s: go=%q lean=%q", c.tag, short(c.line, 160), short(gos[i], 200), short(l, 200)),
				Input:  map[string]any{"op": op, "line": c.line}})
		}
		if i%211 == 0 {
			rep.Sample(map[string]any{"line": short(c.line, 160), "go": short(gos[i], 100), "lean": short(l, 100), "tag": c.tag})
		}
	}
	na := 0
	for k := 0; k < 32; k++ {
		if aligns&(1<<uint(k)) != 0 {
			na++
		}
	}
	rep.Extra["alignments_of_long_copies"] = na
	rep.Extra["max_copy_span_bits"] = maxSpan
	rep.Extra["max_code_word_bits"] = maxWord
	rep.Extra["max_distance_extra_bits"] = maxD
	rep.Extra["max_length_extra_bits"] = maxL
	rep.Extra["streams_exposing_missing_refill"] = sens
	if na < 32 || maxWord < 15 || maxD < 18 || maxL < 10 || sens == 0 {
		rep.Notes = append(rep.Notes, fmt.Sprintf("generator coverage below target: alignments %d/32, longest word %d, distance extra %d, length extra %d, sensitive streams %d", na, maxWord, maxD, maxL, sens))
	}
	rep.Rule = "entropy-coded images written by the suite's own writer (normal prefix codes): green / distance codes of shape ladder (1,2,...,14,15,15 with the USED length-prefix and distance symbols on the 12..15-bit words), random complete tree (depth <= 15) or flat; pictures 64x64, 37x111, 256x256, each token list written 32 times behind 0..31 one-bit filler literals (all alignments of the 32-bit refill window), with and without colour cache; 1024x520 pictures (>= 2^19+120 pixels) whose references use distance symbols 38/39 (18 extra bits) and lengths with 10 extra bits, again at 32 alignments; packed-table and trivial-literal groups; truncations. Go decodeSubImage vs the Lean loop model over the window reader with the refills of the Go source (readTokenGo) vs the Lean specification decoder; the model without the distance refills (seeded C03_4) is evaluated alongside (sens). non-trivial = decoded completely and contains a backward reference; distinct = FNV of the line"
	return nil
}
