package main

// splitmix64: every random choice of a run derives from (seed, case index).
type RNG struct{ s uint64 }

func NewRNG(seed uint64, idx uint64) *RNG {
	r := &RNG{s: seed*0x9E3779B97F4A7C15 ^ (idx+1)*0xBF58476D1CE4E5B9}
	r.Next()
	return r
}

func (r *RNG) Next() uint64 {
	r.s += 0x9E3779B97F4A7C15
	z := r.s
	z = (z ^ (z >> 30)) * 0xBF58476D1CE4E5B9
	z = (z ^ (z >> 27)) * 0x94D049BB133111EB
	return z ^ (z >> 31)
}

// Intn returns a value in [0,n).
func (r *RNG) Intn(n int) int {
	if n <= 0 {
		return 0
	}
	return int(r.Next() % uint64(n))
}

func (r *RNG) Bool() bool { return r.Next()&1 == 1 }

// Chance returns true with probability num/den.
func (r *RNG) Chance(num, den int) bool { return r.Intn(den) < num }

func (r *RNG) Bytes(n int) []byte {
	b := make([]byte, n)
	for i := range b {
		b[i] = byte(r.Next())
	}
	return b
}

func (r *RNG) Pick(xs []int) int { return xs[r.Intn(len(xs))] }
