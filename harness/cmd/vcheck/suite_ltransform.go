package main

// Suite "ltransform" — property C01, transform layer and LZ77 value codes.
//
// Tie between the Lean models Webp.Impl.LTransform / Webp.Spec.LTransform and /repo
// (internal/lossless through verifapi, build tag verif).  Every protocol line is
// self-contained: the Go answer is recomputed from the line alone (goLT), so any
// finding replays from its line.
//
//   ltpix / ltpredict   addPixels, subPixels(+Enc), average2/avg2, selectPred/selectPredictor,
//                       clampAddSubFull/clampedAddSubtractFull, …Half, predictPixel,
//                       addGreenToBlueAndRed (1 px), SubtractGreen (1 px), applyColorTransformPixel,
//                       colorSpaceInverseTransform (1 px)
//   ltfwd               SubtractGreen, copyImageWithPrediction, applyColorTransformTile (all tiles),
//                       ApplyPaletteTransform — with EXPLICIT parameters
//   ltinv               inverseTransform (in ≠ out) for the four kinds
//   ltchainfwd/-inv     sequences of the above / (*Decoder).applyInverseTransforms
//   lttab               CodeToPlane, planeToCodeLUT
//   ltprefix/ltgetcopy  PrefixEncodeNoLUT, PrefixEncodeBitsNoLUT, getCopyDistance, getCopyLength
//   ltplane/ltplanedec  DistanceToPlaneCode, PlaneCodeToDistance
//
// The parameter searches are real: ResidualImage and ColorSpaceTransform run on every image, the
// chosen mode / multiplier images are read back and (1) checked against the explicit-parameter
// functions on the Go side (search+apply fused == apply with the chosen parameters), (2) fed to
// the Lean forward model, whose output must equal Go's, and (3) fed with Go's residuals to the
// Lean inverse, which must equal Go's inverse and the original pixels.

import (
	"fmt"
	"image"
	"runtime"
	"strconv"
	"strings"
	"sync"

	"github.com/deepteams/webp/verifapi"
)

func init() {
	suites["ltransform"] = suiteLTransform
	for _, op := range []string{"ltpix", "ltpredict", "ltfwd", "ltinv", "ltchainfwd", "ltchaininv", "lttab", "ltprefix", "ltgetcopy", "ltplane", "ltplanedec"} {
		replayers[op] = replayLT
	}
}

// ---------- wire form ----------

func ltPxHex(p []uint32) string {
	if len(p) == 0 {
		return "-"
	}
	var sb strings.Builder
	sb.Grow(8 * len(p))
	for _, v := range p {
		fmt.Fprintf(&sb, "%08x", v)
	}
	return sb.String()
}

func ltPxParse(s string) ([]uint32, bool) {
	if s == "-" {
		return nil, true
	}
	if len(s)%8 != 0 {
		return nil, false
	}
	out := make([]uint32, len(s)/8)
	for i := range out {
		v, err := strconv.ParseUint(s[8*i:8*i+8], 16, 32)
		if err != nil {
			return nil, false
		}
		out[i] = uint32(v)
	}
	return out, true
}

type ltXf struct {
	kind  string // sg | xc | pred | pal
	bits  int
	tiles []uint32
}

func (t ltXf) String() string { return fmt.Sprintf("%s:%d:%s", t.kind, t.bits, ltPxHex(t.tiles)) }

func ltXfsString(ts []ltXf) string {
	if len(ts) == 0 {
		return "-"
	}
	s := make([]string, len(ts))
	for i, t := range ts {
		s[i] = t.String()
	}
	return strings.Join(s, ";")
}

func ltParseXf(s string) (ltXf, bool) {
	p := strings.Split(s, ":")
	if len(p) != 3 {
		return ltXf{}, false
	}
	bits, err := strconv.Atoi(p[1])
	tiles, ok := ltPxParse(p[2])
	if err != nil || !ok || bits < 0 || bits > 20 {
		return ltXf{}, false
	}
	switch p[0] {
	case "sg", "xc", "pred", "pal":
		return ltXf{p[0], bits, tiles}, true
	}
	return ltXf{}, false
}

func ltParseXfs(s string) ([]ltXf, bool) {
	if s == "-" {
		return nil, true
	}
	var out []ltXf
	for _, f := range strings.Split(s, ";") {
		t, ok := ltParseXf(f)
		if !ok {
			return nil, false
		}
		out = append(out, t)
	}
	return out, true
}

func ltPaletteBits(n int) int {
	switch {
	case n <= 2:
		return 3
	case n <= 4:
		return 2
	case n <= 16:
		return 1
	}
	return 0
}

func (t ltXf) widthAfter(w int) int {
	if t.kind == "pal" {
		return verifapi.LSubSampleSize(w, ltPaletteBits(len(t.tiles)))
	}
	return w
}

// tilesOK: the Go forward functions index the tile image without a bounds check of their own
// beyond Go's; the generators always supply full tile images, the replay checks it.
func (t ltXf) tilesNeeded(w, h int) int {
	if t.kind == "pred" || t.kind == "xc" {
		return verifapi.LSubSampleSize(w, t.bits) * verifapi.LSubSampleSize(h, t.bits)
	}
	return 0
}

// ltGoForward1 applies one forward transform with explicit parameters through the real functions.
func ltGoForward1(t ltXf, w, h int, px []uint32) []uint32 {
	switch t.kind {
	case "sg":
		out := append([]uint32(nil), px...)
		verifapi.LSubtractGreen(out)
		return out
	case "pred":
		return verifapi.LCopyImageWithPrediction(px, w, h, t.bits, t.tiles)
	case "xc":
		return verifapi.LApplyColorTransform(px, w, h, t.bits, t.tiles)
	default:
		packed, _ := verifapi.LApplyPaletteTransform(px, w, h, t.tiles)
		return packed
	}
}

// ltDeltaPalette is what encodePalette writes: per-channel differences of consecutive entries.
func ltDeltaPalette(pal []uint32) []uint32 {
	out := make([]uint32, len(pal))
	for i := range pal {
		if i == 0 {
			out[i] = pal[i]
		} else {
			out[i] = verifapi.LSubPixelsEnc(pal[i], pal[i-1])
		}
	}
	return out
}

// ltDecoderTransform builds the Transform record the decoder would hold: for a palette the data is
// expandColorMap of the delta-coded palette (exercises the real expansion).
func ltDecoderTransform(t ltXf, w, h int) verifapi.LTransform {
	switch t.kind {
	case "sg":
		return verifapi.LTransform{Type: 2, XSize: w, YSize: h}
	case "pred":
		return verifapi.LTransform{Type: 0, Bits: t.bits, XSize: w, YSize: h, Data: t.tiles}
	case "xc":
		return verifapi.LTransform{Type: 1, Bits: t.bits, XSize: w, YSize: h, Data: t.tiles}
	default:
		bits := ltPaletteBits(len(t.tiles))
		return verifapi.LTransform{Type: 3, Bits: bits, XSize: w, YSize: h,
			Data: verifapi.LExpandColorMap(len(t.tiles), bits, ltDeltaPalette(t.tiles))}
	}
}

func ltGoInverse1(t ltXf, w, h int, in []uint32) []uint32 {
	d := ltDecoderTransform(t, w, h)
	return verifapi.LInverseTransform(int(d.Type), d.Bits, d.XSize, d.YSize, d.Data, in)
}

func ltHex8(v uint32) string { return fmt.Sprintf("%08x", v) }

func ltPairLine(name1 string, v1 uint32, name2 string, v2 uint32) string {
	if v1 == v2 {
		return "ok " + ltHex8(v1)
	}
	return fmt.Sprintf("godiff %s=%08x %s=%08x", name1, v1, name2, v2)
}

// goLT computes the implementation's canonical answer for one protocol line.
// The second result names the Go function(s) the line exercises (finding signature).
func goLT(f []string) (string, string) {
	bad := "bad-op"
	atoi := func(s string) (int, bool) { v, err := strconv.Atoi(s); return v, err == nil }
	switch f[0] {
	case "ltpix":
		if len(f) < 3 {
			return bad, "ltpix"
		}
		var ps []uint32
		for _, a := range f[2:] {
			p, ok := ltPxParse(a)
			if !ok || len(p) != 1 {
				return bad, "ltpix"
			}
			ps = append(ps, p[0])
		}
		switch {
		case f[1] == "add" && len(ps) == 2:
			return "ok " + ltHex8(verifapi.LAddPixels(ps[0], ps[1])), "addPixels"
		case f[1] == "sub" && len(ps) == 2:
			return ltPairLine("subPixels", verifapi.LSubPixels(ps[0], ps[1]), "subPixelsEnc", verifapi.LSubPixelsEnc(ps[0], ps[1])), "subPixels"
		case f[1] == "avg" && len(ps) == 2:
			return ltPairLine("average2", verifapi.LAverage2Dec(ps[0], ps[1]), "avg2", verifapi.LAvg2Enc(ps[0], ps[1])), "average2"
		case f[1] == "select" && len(ps) == 3:
			return ltPairLine("selectPredictor", verifapi.LSelectDec(ps[0], ps[1], ps[2]), "selectPred", verifapi.LSelectEnc(ps[0], ps[1], ps[2])), "selectPred"
		case f[1] == "clampfull" && len(ps) == 3:
			return ltPairLine("clampedAddSubtractFull", verifapi.LClampFullDec(ps[0], ps[1], ps[2]), "clampAddSubFull", verifapi.LClampFullEnc(ps[0], ps[1], ps[2])), "clampAddSubFull"
		case f[1] == "clamphalf" && len(ps) == 2:
			return ltPairLine("clampedAddSubtractHalf", verifapi.LClampHalfDec(ps[0], ps[1]), "clampAddSubHalf", verifapi.LClampHalfEnc(ps[0], ps[1])), "clampAddSubHalf"
		case f[1] == "addgreen" && len(ps) == 2:
			return "ok " + ltHex8(verifapi.LInverseTransform(2, 0, 1, 1, nil, []uint32{ps[0]})[0]), "addGreenToBlueAndRed"
		case f[1] == "subgreen" && len(ps) == 2:
			b := []uint32{ps[0]}
			verifapi.LSubtractGreen(b)
			return "ok " + ltHex8(b[0]), "SubtractGreen"
		case f[1] == "xcfwd" && len(ps) == 2:
			return "ok " + ltHex8(verifapi.LApplyColorTransformPixel(ps[0], ps[1])), "applyColorTransformPixel"
		case f[1] == "xcinv" && len(ps) == 2:
			// tile bits 2: a 1x1 image has one tile
			return "ok " + ltHex8(verifapi.LInverseTransform(1, 2, 1, 1, []uint32{ps[0]}, []uint32{ps[1]})[0]), "colorSpaceInverseTransform"
		}
		return bad, "ltpix"
	case "ltpredict":
		if len(f) != 6 {
			return bad, "predictPixel"
		}
		mode, ok := atoi(f[1])
		var ps []uint32
		for _, a := range f[2:] {
			p, ok2 := ltPxParse(a)
			if !ok2 || len(p) != 1 {
				return bad, "predictPixel"
			}
			ps = append(ps, p[0])
		}
		if !ok {
			return bad, "predictPixel"
		}
		return "ok " + ltHex8(verifapi.LPredictPixel(mode, ps[0], ps[1], ps[2], ps[3])), "predictPixel"
	case "ltfwd", "ltinv":
		if len(f) != 7 {
			return bad, f[0]
		}
		w, ok1 := atoi(f[2])
		h, ok2 := atoi(f[3])
		t, ok3 := ltParseXf(f[1] + ":" + f[4] + ":" + f[5])
		px, ok4 := ltPxParse(f[6])
		if !ok1 || !ok2 || !ok3 || !ok4 || w < 1 || h < 1 {
			return bad, f[0]
		}
		name := map[string]string{"sg": "SubtractGreen", "pred": "copyImageWithPrediction", "xc": "applyColorTransformTile", "pal": "ApplyPaletteTransform"}[t.kind]
		if f[0] == "ltinv" {
			name = map[string]string{"sg": "addGreenToBlueAndRed", "pred": "predictorInverseTransform", "xc": "colorSpaceInverseTransform", "pal": "colorIndexInverseTransform"}[t.kind]
		}
		if len(t.tiles) < t.tilesNeeded(w, h) || (t.kind == "pal" && len(t.tiles) == 0) {
			return bad, name
		}
		if f[0] == "ltfwd" {
			if len(px) != w*h {
				return bad, name
			}
			return fmt.Sprintf("ok %d %s", t.widthAfter(w), ltPxHex(ltGoForward1(t, w, h, px))), name
		}
		if len(px) != t.widthAfter(w)*h {
			return bad, name
		}
		return "ok " + ltPxHex(ltGoInverse1(t, w, h, px)), name
	case "ltchainfwd", "ltchaininv":
		if len(f) != 5 {
			return bad, f[0]
		}
		w, ok1 := atoi(f[1])
		h, ok2 := atoi(f[2])
		ts, ok3 := ltParseXfs(f[3])
		px, ok4 := ltPxParse(f[4])
		if !ok1 || !ok2 || !ok3 || !ok4 || w < 1 || h < 1 || len(ts) > verifapi.LMaxTransforms {
			return bad, f[0]
		}
		cw := w
		for _, t := range ts {
			if len(t.tiles) < t.tilesNeeded(cw, h) || (t.kind == "pal" && len(t.tiles) == 0) {
				return bad, f[0]
			}
			cw = t.widthAfter(cw)
		}
		if f[0] == "ltchainfwd" {
			if len(px) != w*h {
				return bad, "forward-chain"
			}
			cw = w
			cur := px
			for _, t := range ts {
				cur = ltGoForward1(t, cw, h, cur)
				cw = t.widthAfter(cw)
			}
			return fmt.Sprintf("ok %d %s", cw, ltPxHex(cur)), "forward-chain"
		}
		if len(px) != cw*h {
			return bad, "applyInverseTransforms"
		}
		var dts []verifapi.LTransform
		cw = w
		for _, t := range ts {
			dts = append(dts, ltDecoderTransform(t, cw, h))
			cw = t.widthAfter(cw)
		}
		buf := make([]uint32, w*h) // as DecodeVP8L: w*h entries, packed data at the front
		copy(buf, px)
		return "ok " + ltPxHex(verifapi.LApplyInverseTransforms(dts, buf)), "applyInverseTransforms"
	case "lttab":
		if len(f) == 2 && f[1] == "codetoplane" {
			return "ok " + hx(verifapi.LCodeToPlane()), "CodeToPlane"
		}
		if len(f) == 2 && f[1] == "planetocode" {
			return "ok " + hx(verifapi.LPlaneToCodeLUT()), "planeToCodeLUT"
		}
		return bad, "lttab"
	case "ltprefix":
		if len(f) != 2 {
			return bad, "PrefixEncodeNoLUT"
		}
		d, ok := atoi(f[1])
		if !ok || d < 1 {
			return bad, "PrefixEncodeNoLUT"
		}
		sym, nb, v := verifapi.LPrefixEncode(d)
		sym2, nb2 := verifapi.LPrefixEncodeBits(d)
		if sym2 != sym || nb2 != nb {
			return fmt.Sprintf("godiff PrefixEncodeNoLUT=%d,%d PrefixEncodeBitsNoLUT=%d,%d", sym, nb, sym2, nb2), "PrefixEncodeNoLUT"
		}
		dd := verifapi.LGetCopyDistance(sym, uint32(v))
		dl := verifapi.LGetCopyLength(sym, uint32(v))
		if dd != dl {
			return fmt.Sprintf("godiff getCopyDistance=%d getCopyLength=%d", dd, dl), "getCopyDistance"
		}
		return fmt.Sprintf("ok %d %d %d %d", sym, nb, v, dd), "PrefixEncodeNoLUT"
	case "ltgetcopy":
		if len(f) != 3 {
			return bad, "getCopyDistance"
		}
		sym, ok1 := atoi(f[1])
		ex, ok2 := atoi(f[2])
		if !ok1 || !ok2 || sym < 0 || ex < 0 {
			return bad, "getCopyDistance"
		}
		return fmt.Sprintf("ok %d", verifapi.LGetCopyDistance(sym, uint32(ex))), "getCopyDistance"
	case "ltplane":
		if len(f) != 3 {
			return bad, "DistanceToPlaneCode"
		}
		xs, ok1 := atoi(f[1])
		d, ok2 := atoi(f[2])
		if !ok1 || !ok2 || xs < 1 {
			return bad, "DistanceToPlaneCode"
		}
		code := verifapi.LDistanceToPlaneCode(xs, d)
		back := verifapi.LPlaneCodeToDistance(xs, code)
		// third field: the specification's decoding; the Go side has only one decoder
		return fmt.Sprintf("ok %d %d %d", code, back, back), "DistanceToPlaneCode"
	case "ltplanedec":
		if len(f) != 3 {
			return bad, "PlaneCodeToDistance"
		}
		xs, ok1 := atoi(f[1])
		c, ok2 := atoi(f[2])
		if !ok1 || !ok2 || xs < 0 {
			return bad, "PlaneCodeToDistance"
		}
		return fmt.Sprintf("ok %d", verifapi.LPlaneCodeToDistance(xs, c)), "PlaneCodeToDistance"
	}
	return bad, f[0]
}

// ---------- generators ----------

func ltNRGBAToARGB(img *image.NRGBA) []uint32 {
	w, h := img.Bounds().Dx(), img.Bounds().Dy()
	out := make([]uint32, w*h)
	for y := 0; y < h; y++ {
		for x := 0; x < w; x++ {
			c := img.NRGBAAt(x, y)
			out[y*w+x] = uint32(c.A)<<24 | uint32(c.R)<<16 | uint32(c.G)<<8 | uint32(c.B)
		}
	}
	return out
}

var ltEdge = []uint32{0, 0xffffffff, 0xff000000, 0x00ffffff, 0x80808080, 0x7f7f7f7f, 0x01010101, 0xfefefefe, 0xff00ff00, 0x00ff00ff, 0x80000000, 0x00000080}

func ltPx(r *RNG) uint32 {
	switch r.Intn(5) {
	case 0:
		return ltEdge[r.Intn(len(ltEdge))]
	case 1: // channels from the boundary set
		b := []uint32{0, 1, 2, 127, 128, 129, 254, 255}
		return b[r.Intn(8)]<<24 | b[r.Intn(8)]<<16 | b[r.Intn(8)]<<8 | b[r.Intn(8)]
	}
	return uint32(r.Next())
}

type ltBatch struct {
	rep   *Report
	lines []string
	tags  []string // extra context per line
}

func (b *ltBatch) add(tag string, format string, a ...any) {
	b.lines = append(b.lines, fmt.Sprintf(format, a...))
	b.tags = append(b.tags, tag)
}

// ltRandTiles: a full tile image of n words built by gen.
func ltRandTiles(n int, gen func() uint32) []uint32 {
	t := make([]uint32, n)
	for i := range t {
		t[i] = gen()
	}
	return t
}

func ltEqU32(a, b []uint32) bool {
	if len(a) != len(b) {
		return false
	}
	for i := range a {
		if a[i] != b[i] {
			return false
		}
	}
	return true
}

// imageCases emits all lines for one image; returns Go-internal inconsistencies as findings.
func (b *ltBatch) imageCases(r *RNG, desc string, w, h int, px []uint32) {
	rep := b.rep
	pxs := ltPxHex(px)
	nsub := func(bits int) int { return verifapi.LSubSampleSize(w, bits) * verifapi.LSubSampleSize(h, bits) }
	prop := func(sig, detail string, line string) {
		rep.Add(Finding{Kind: "property", Property: "C01", Signature: "ltransform:" + sig, Detail: detail,
			Input: map[string]any{"op": strings.SplitN(line, " ", 2)[0], "line": line}})
	}
	// ---- subtract green
	{
		fl := fmt.Sprintf("ltfwd sg %d %d 0 - %s", w, h, pxs)
		b.add(desc, "%s", fl)
		fw := ltGoForward1(ltXf{kind: "sg"}, w, h, px)
		il := fmt.Sprintf("ltinv sg %d %d 0 - %s", w, h, ltPxHex(fw))
		b.add(desc, "%s", il)
		if back := ltGoInverse1(ltXf{kind: "sg"}, w, h, fw); !ltEqU32(back, px) {
			prop("subtractGreen-roundtrip", "Go addGreenToBlueAndRed(SubtractGreen(px)) != px", il)
		}
	}
	// ---- predictor: real search, then forced modes
	bitsList := []int{2, 3, 4, 5 + r.Intn(5)}
	for _, bits := range bitsList {
		for _, q := range []int{0, 30, 75} {
			if q != 75 && r.Intn(3) != 0 {
				continue
			}
			modes, resid := verifapi.LResidualImage(px, w, h, bits, q)
			t := ltXf{"pred", bits, modes}
			if ex := ltGoForward1(t, w, h, px); !ltEqU32(ex, resid) {
				rep.Add(Finding{Kind: "correspondence", Property: "C01", Signature: "ltransform:ResidualImage",
					Detail: "ResidualImage residuals differ from copyImageWithPrediction with the modes it returned",
					Input:  map[string]any{"op": "ltfwd", "line": fmt.Sprintf("ltfwd pred %d %d %d %s %s", w, h, bits, ltPxHex(modes), pxs)}})
			}
			for _, m := range modes {
				rep.Count(fmt.Sprintf("pred-search-mode:%d", (m>>8)&0xff))
			}
			b.add(desc+"/search", "ltfwd pred %d %d %d %s %s", w, h, bits, ltPxHex(modes), pxs)
			il := fmt.Sprintf("ltinv pred %d %d %d %s %s", w, h, bits, ltPxHex(modes), ltPxHex(resid))
			b.add(desc+"/search", "%s", il)
			if back := ltGoInverse1(t, w, h, resid); !ltEqU32(back, px) {
				prop("predictor-roundtrip", fmt.Sprintf("Go predictorInverseTransform(ResidualImage(px)) != px (bits %d, quality %d)", bits, q), il)
			}
		}
		// forced: every tile gets a random mode; one line per "all tiles = mode m" as well
		kind := r.Intn(4)
		modes := ltRandTiles(nsub(bits), func() uint32 {
			switch kind {
			case 0: // valid modes, libwebp-style word
				return 0xff000000 | uint32(r.Intn(14))<<8
			case 1: // valid modes, garbage in the other bytes
				return uint32(r.Next())&0xffff00ff | uint32(r.Intn(14))<<8
			case 2: // modes 0..15
				return 0xff000000 | uint32(r.Intn(16))<<8
			}
			return uint32(r.Next()) // anything: encoder (& 0xff) and decoder (& 0xf) may disagree
		})
		t := ltXf{"pred", bits, modes}
		rep.Count(fmt.Sprintf("pred-forced-kind:%d", kind))
		b.add(desc+"/forced", "ltfwd pred %d %d %d %s %s", w, h, bits, ltPxHex(modes), pxs)
		resid := ltGoForward1(t, w, h, px)
		il := fmt.Sprintf("ltinv pred %d %d %d %s %s", w, h, bits, ltPxHex(modes), ltPxHex(resid))
		b.add(desc+"/forced", "%s", il)
		if kind <= 2 {
			if back := ltGoInverse1(t, w, h, resid); !ltEqU32(back, px) {
				prop("predictor-roundtrip", fmt.Sprintf("Go predictorInverseTransform(copyImageWithPrediction(px, modes)) != px (bits %d, forced modes < 16)", bits), il)
			}
		}
	}
	{ // each of the 14 modes on all tiles (bits 2)
		m := r.Intn(14)
		modes := ltRandTiles(nsub(2), func() uint32 { return 0xff000000 | uint32(m)<<8 })
		rep.Count(fmt.Sprintf("pred-uniform-mode:%d", m))
		b.add(desc+"/uniform", "ltfwd pred %d %d 2 %s %s", w, h, ltPxHex(modes), pxs)
		resid := ltGoForward1(ltXf{"pred", 2, modes}, w, h, px)
		il := fmt.Sprintf("ltinv pred %d %d 2 %s %s", w, h, ltPxHex(modes), ltPxHex(resid))
		b.add(desc+"/uniform", "%s", il)
		if back := ltGoInverse1(ltXf{"pred", 2, modes}, w, h, resid); !ltEqU32(back, px) {
			prop("predictor-roundtrip", fmt.Sprintf("Go inverse(forward) != px for uniform mode %d", m), il)
		}
	}
	// ---- cross colour: real search, then random multipliers
	for _, bits := range bitsList[:3] {
		cp := append([]uint32(nil), px...)
		tiles := verifapi.LColorSpaceTransform(cp, w, h, bits, 75)
		t := ltXf{"xc", bits, tiles}
		if ex := ltGoForward1(t, w, h, px); !ltEqU32(ex, cp) {
			rep.Add(Finding{Kind: "correspondence", Property: "C01", Signature: "ltransform:ColorSpaceTransform",
				Detail: "ColorSpaceTransform output differs from applyColorTransformTile with the multipliers it returned",
				Input:  map[string]any{"op": "ltfwd", "line": fmt.Sprintf("ltfwd xc %d %d %d %s %s", w, h, bits, ltPxHex(tiles), pxs)}})
		}
		b.add(desc+"/search", "ltfwd xc %d %d %d %s %s", w, h, bits, ltPxHex(tiles), pxs)
		il := fmt.Sprintf("ltinv xc %d %d %d %s %s", w, h, bits, ltPxHex(tiles), ltPxHex(cp))
		b.add(desc+"/search", "%s", il)
		if back := ltGoInverse1(t, w, h, cp); !ltEqU32(back, px) {
			prop("crossColor-roundtrip", fmt.Sprintf("Go colorSpaceInverseTransform(ColorSpaceTransform(px)) != px (bits %d)", bits), il)
		}
		rt := ltRandTiles(nsub(bits), func() uint32 {
			if r.Chance(1, 4) {
				e := []uint32{0x00, 0x7f, 0x80, 0x81, 0xff, 0x20, 0xe0}
				return e[r.Intn(7)] | e[r.Intn(7)]<<8 | e[r.Intn(7)]<<16 | uint32(r.Next())&0xff000000
			}
			return uint32(r.Next())
		})
		t = ltXf{"xc", bits, rt}
		b.add(desc+"/forced", "ltfwd xc %d %d %d %s %s", w, h, bits, ltPxHex(rt), pxs)
		fw := ltGoForward1(t, w, h, px)
		il = fmt.Sprintf("ltinv xc %d %d %d %s %s", w, h, bits, ltPxHex(rt), ltPxHex(fw))
		b.add(desc+"/forced", "%s", il)
		if back := ltGoInverse1(t, w, h, fw); !ltEqU32(back, px) {
			prop("crossColor-roundtrip", fmt.Sprintf("Go inverse(forward) != px for random multipliers (bits %d)", bits), il)
		}
	}
	// ---- palette (when the image has <= 256 colours)
	if pal, n, ok := verifapi.LColorIndexBuild(px, w, h); ok {
		rep.Count(fmt.Sprintf("palette-bits:%d", ltPaletteBits(n)))
		variants := [][]uint32{pal}
		// unsorted, with unused extra colours (may change the packing), with a duplicate
		sh := append([]uint32(nil), pal...)
		for i := len(sh) - 1; i > 0; i-- {
			j := r.Intn(i + 1)
			sh[i], sh[j] = sh[j], sh[i]
		}
		variants = append(variants, sh)
		if n < 250 {
			ext := append([]uint32(nil), sh...)
			for k := 0; k < 1+r.Intn(5); k++ {
				ext = append(ext, uint32(r.Next())|1)
			}
			variants = append(variants, ext)
			dup := append(append([]uint32(nil), sh...), sh[r.Intn(len(sh))])
			variants = append(variants, dup)
		}
		for vi, p := range variants {
			t := ltXf{"pal", 0, p}
			b.add(fmt.Sprintf("%s/pal%d/v%d", desc, len(p), vi), "ltfwd pal %d %d 0 %s %s", w, h, ltPxHex(p), pxs)
			packed := ltGoForward1(t, w, h, px)
			il := fmt.Sprintf("ltinv pal %d %d 0 %s %s", w, h, ltPxHex(p), ltPxHex(packed))
			b.add(fmt.Sprintf("%s/pal%d/v%d", desc, len(p), vi), "%s", il)
			if back := ltGoInverse1(t, w, h, packed); !ltEqU32(back, px) {
				prop("palette-roundtrip", fmt.Sprintf("Go colorIndexInverseTransform(ApplyPaletteTransform(px)) != px (palette %d entries, variant %d)", len(p), vi), il)
			}
		}
	}
	// ---- chains
	b.chainCases(r, desc, w, h, px)
}

// ltBuildChain applies a list of transform kinds, choosing parameters on the way (real searches
// for the encoder-like chains, random ones otherwise); returns nil if a palette step is
// impossible (> 256 colours).
func ltBuildChain(r *RNG, kinds []string, w, h int, px []uint32, search bool) []ltXf {
	var ts []ltXf
	cur, cw := px, w
	for _, k := range kinds {
		var t ltXf
		switch k {
		case "sg":
			t = ltXf{kind: "sg"}
		case "pred":
			bits := 2 + r.Intn(4)
			if search {
				modes, _ := verifapi.LResidualImage(cur, cw, h, bits, 75)
				t = ltXf{"pred", bits, modes}
			} else {
				n := verifapi.LSubSampleSize(cw, bits) * verifapi.LSubSampleSize(h, bits)
				t = ltXf{"pred", bits, ltRandTiles(n, func() uint32 { return 0xff000000 | uint32(r.Intn(14))<<8 })}
			}
		case "xc":
			bits := 2 + r.Intn(4)
			if search {
				cp := append([]uint32(nil), cur...)
				t = ltXf{"xc", bits, verifapi.LColorSpaceTransform(cp, cw, h, bits, 75)}
			} else {
				n := verifapi.LSubSampleSize(cw, bits) * verifapi.LSubSampleSize(h, bits)
				t = ltXf{"xc", bits, ltRandTiles(n, func() uint32 { return uint32(r.Next()) })}
			}
		case "pal":
			pal, _, ok := verifapi.LColorIndexBuild(cur, cw, h)
			if !ok {
				return nil
			}
			t = ltXf{"pal", 0, pal}
		}
		ts = append(ts, t)
		cur = ltGoForward1(t, cw, h, cur)
		cw = t.widthAfter(cw)
	}
	return ts
}

func (b *ltBatch) chainCases(r *RNG, desc string, w, h int, px []uint32) {
	rep := b.rep
	var lists [][]string
	// what webp.Encode can produce
	lists = append(lists, []string{"sg", "pred", "xc"}, []string{"sg", "pred"}, []string{"pred"}, []string{"pal"}, []string{"pal", "pred"})
	// everything else the format allows, and more (repeated kinds)
	all := []string{"sg", "pred", "xc", "pal"}
	for k := 0; k < 3; k++ {
		n := 1 + r.Intn(4)
		var l []string
		for i := 0; i < n; i++ {
			l = append(l, all[r.Intn(4)])
		}
		lists = append(lists, l)
	}
	for li, kinds := range lists {
		ts := ltBuildChain(r, kinds, w, h, px, li < 5)
		if ts == nil {
			rep.Count("chain:skipped->256-colours")
			continue
		}
		if li < 5 {
			rep.Count("chain:encoder:" + strings.Join(kinds, "+"))
		} else {
			rep.Count(fmt.Sprintf("chain:random:len=%d", len(kinds)))
			for _, k := range kinds {
				rep.Count("chain:random:uses:" + k)
			}
		}
		tss := ltXfsString(ts)
		fl := fmt.Sprintf("ltchainfwd %d %d %s %s", w, h, tss, ltPxHex(px))
		b.add(desc+"/chain", "%s", fl)
		g, _ := goLT(strings.Split(fl, " "))
		parts := strings.Split(g, " ")
		if len(parts) != 3 {
			continue
		}
		il := fmt.Sprintf("ltchaininv %d %d %s %s", w, h, tss, parts[2])
		b.add(desc+"/chain", "%s", il)
		gi, _ := goLT(strings.Split(il, " "))
		if gi != "ok "+ltPxHex(px) {
			rep.Add(Finding{Kind: "property", Property: "C01", Signature: "ltransform:applyInverseTransforms-roundtrip",
				Detail: fmt.Sprintf("Go applyInverseTransforms(forward chain %v) != original pixels (%s)", kinds, desc),
				Input:  map[string]any{"op": "ltchaininv", "line": il}})
		}
	}
}

// palettised image with exactly n colours (n ≤ w*h is the caller's job), all of them used
func ltPalImage(r *RNG, w, h, n int) []uint32 {
	pal := make([]uint32, 0, n)
	seen := map[uint32]bool{}
	for len(pal) < n {
		c := uint32(r.Next())
		if r.Chance(1, 2) {
			c |= 0xff000000
		}
		if !seen[c] {
			seen[c] = true
			pal = append(pal, c)
		}
	}
	px := make([]uint32, w*h)
	blk := 1 + r.Intn(4)
	for i := range px {
		x, y := i%w, i/w
		idx := ((x/blk)*5 + (y/blk)*3) % n
		if r.Chance(1, 5) {
			idx = r.Intn(n)
		}
		px[i] = pal[idx]
	}
	// make sure every colour occurs when there is room
	if w*h >= n {
		perm := make([]int, w*h)
		for i := range perm {
			perm[i] = i
		}
		for i := 0; i < n; i++ {
			j := i + r.Intn(w*h-i)
			perm[i], perm[j] = perm[j], perm[i]
			px[perm[i]] = pal[i]
		}
	}
	return px
}

func suiteLTransform(rep *Report) error {
	rich := rep.Tier == "thorough"
	rep.Rule = "pixel functions on random/boundary pixels (all 18 mode values for predictPixel); images of all GenImage colour x alpha classes plus exact palettes of 1,2,3,4,5,16,17,256 colours, sizes 1x1, 1xN, Nx1, widths around 2^bits*k±1, up to 64x64 (quick) / 160x120 (thorough); per image: SubtractGreen; ResidualImage (real search, quality 0/30/75, tile bits 2,3,4 and one of 5..9) and forced mode images (valid modes, modes 0..15, arbitrary words, one uniform mode); ColorSpaceTransform (real search) and random multipliers; ApplyPaletteTransform with sorted / shuffled / padded / duplicate-entry palettes; chains (the five transform lists webp.Encode can emit with the real searches, and three random lists of 1..4 transforms of any kind); every forward result fed to the Lean forward model with Go's chosen parameters, every Go residual image fed to the Lean inverse (specification and as-coded forms) and to Go's inverseTransform / applyInverseTransforms, which must also return the original; value codes: prefix code exhaustive 1..5000 and around every power of two up to 2^24, all 40 symbols x random extra bits, plane codes exhaustive for xsize 1..24 x dist 1..10*xsize+30 and boundary/random widths up to 16384, raw plane codes -3..130; tables CodeToPlane and planeToCodeLUT. non-trivial = image lines with at least 2 pixels, pixel/code lines always"
	b := &ltBatch{rep: rep}

	// ---- (1) pixel functions
	nPix := 2500
	if rich {
		nPix = 60000
	}
	for i := 0; i < nPix; i++ {
		r := NewRNG(rep.Seed, uint64(1000000+i))
		p, q, s := ltPx(r), ltPx(r), ltPx(r)
		b.add("pix", "ltpix add %08x %08x", p, q)
		b.add("pix", "ltpix sub %08x %08x", p, q)
		b.add("pix", "ltpix avg %08x %08x", p, q)
		b.add("pix", "ltpix select %08x %08x %08x", p, q, s)
		b.add("pix", "ltpix clampfull %08x %08x %08x", p, q, s)
		b.add("pix", "ltpix clamphalf %08x %08x", p, q)
		b.add("pix", "ltpix addgreen %08x %08x", p, q)
		b.add("pix", "ltpix subgreen %08x %08x", p, q)
		b.add("pix", "ltpix xcfwd %08x %08x", p, q)
		b.add("pix", "ltpix xcinv %08x %08x", p, q)
		b.add("pix", "ltpredict %d %08x %08x %08x %08x", i%18, p, q, s, ltPx(r))
	}
	// select: near-ties decide the branch
	for i := 0; i < nPix/2; i++ {
		r := NewRNG(rep.Seed, uint64(1500000+i))
		tl := ltPx(r)
		mk := func() uint32 {
			var v uint32
			for sh := uint(0); sh < 32; sh += 8 {
				c := int((tl>>sh)&0xff) + r.Intn(5) - 2
				if c < 0 {
					c = 0
				}
				if c > 255 {
					c = 255
				}
				v |= uint32(c) << sh
			}
			return v
		}
		b.add("pix", "ltpix select %08x %08x %08x", mk(), mk(), tl)
	}

	// ---- (2) images
	sizes := [][2]int{{1, 1}, {1, 2}, {2, 1}, {1, 7}, {7, 1}, {1, 64}, {64, 1}, {2, 2}, {3, 5}, {4, 4}, {5, 3}, {8, 8}, {9, 7}, {7, 9},
		{15, 17}, {16, 16}, {17, 15}, {31, 9}, {32, 8}, {33, 7}, {63, 5}, {64, 4}, {65, 3}, {33, 33}, {64, 64}}
	if rich {
		sizes = append(sizes, [2]int{127, 3}, [2]int{128, 5}, [2]int{129, 2}, [2]int{160, 120}, [2]int{3, 257}, [2]int{255, 9}, [2]int{256, 4}, [2]int{257, 3})
	}
	type ltImgCase struct {
		desc string
		w, h int
		px   []uint32
		seed uint64
	}
	var imgs []ltImgCase
	idx := uint64(2000000)
	for si, sz := range sizes {
		for cls := 0; cls < NumImgClasses; cls++ {
			for acls := 0; acls < NumAlphaClasses; acls++ {
				// quick: a diagonal of the class x alpha x size product, every pair (cls, acls) at least twice
				if !rich && (si+cls+acls)%6 != 0 && !(sz[0]*sz[1] <= 16) {
					continue
				}
				idx++
				r := NewRNG(rep.Seed, idx)
				img := GenImage(r, sz[0], sz[1], cls, acls)
				imgs = append(imgs, ltImgCase{imgDesc(sz[0], sz[1], cls, acls), sz[0], sz[1], ltNRGBAToARGB(img), idx})
			}
		}
		for _, n := range []int{1, 2, 3, 4, 5, 16, 17, 256} {
			idx++
			r := NewRNG(rep.Seed, idx)
			imgs = append(imgs, ltImgCase{fmt.Sprintf("%dx%d/exactpal%d", sz[0], sz[1], n), sz[0], sz[1], ltPalImage(r, sz[0], sz[1], n), idx})
		}
	}
	nr := 60
	if rich {
		nr = 1500
	}
	for i := 0; i < nr; i++ {
		idx++
		r := NewRNG(rep.Seed, idx)
		w, h := 1+r.Intn(40), 1+r.Intn(24)
		if r.Chance(1, 4) { // widths around tile / packing boundaries
			k := []int{4, 8, 16, 32}[r.Intn(4)]
			w = k*(1+r.Intn(3)) + r.Intn(3) - 1
		}
		if r.Chance(1, 2) {
			n := []int{1, 2, 3, 4, 5, 16, 17, 256}[r.Intn(8)]
			imgs = append(imgs, ltImgCase{fmt.Sprintf("%dx%d/exactpal%d", w, h, n), w, h, ltPalImage(r, w, h, n), idx})
		} else {
			cls, acls := r.Intn(NumImgClasses), r.Intn(NumAlphaClasses)
			imgs = append(imgs, ltImgCase{imgDesc(w, h, cls, acls), w, h, ltNRGBAToARGB(GenImage(r, w, h, cls, acls)), idx})
		}
	}
	// the image work runs the real searches: spread it over the cores, one batch per image
	subs := make([]*ltBatch, len(imgs))
	{
		var wg sync.WaitGroup
		nw := runtime.NumCPU()
		for wk := 0; wk < nw; wk++ {
			wg.Add(1)
			go func(wk int) {
				defer wg.Done()
				for i := wk; i < len(imgs); i += nw {
					c := imgs[i]
					sb := &ltBatch{rep: rep}
					_, pm := guard(func() string {
						sb.imageCases(NewRNG(rep.Seed, c.seed+7000000), c.desc, c.w, c.h, c.px)
						return ""
					})
					if pm != "" {
						rep.Add(Finding{Kind: "property", Property: "C01", Signature: "ltransform:go-panic",
							Detail: fmt.Sprintf("panic while transforming %s: %s", c.desc, pm),
							Input:  map[string]any{"op": "ltfwd", "line": fmt.Sprintf("ltfwd sg %d %d 0 - %s", c.w, c.h, ltPxHex(c.px))}})
					}
					subs[i] = sb
				}
			}(wk)
		}
		wg.Wait()
	}
	for i, sb := range subs {
		parts := strings.Split(imgs[i].desc, "/")
		rep.Count("image-class:" + strings.Join(parts[1:], "/"))
		rep.Count(fmt.Sprintf("image-size:%s", parts[0]))
		b.lines = append(b.lines, sb.lines...)
		b.tags = append(b.tags, sb.tags...)
	}

	// one image above minPixelsForParallel (100000): colorSpaceInverseTransformParallel and the
	// SIMD add-green on a long run
	{
		r := NewRNG(rep.Seed, 2999999)
		w, h := 320, 320
		px := ltNRGBAToARGB(GenImage(r, w, h, ClsPhoto, AlphaGradient))
		cp := append([]uint32(nil), px...)
		tiles := verifapi.LColorSpaceTransform(cp, w, h, 5, 75)
		b.add("320x320/photo/parallel", "ltfwd xc %d %d 5 %s %s", w, h, ltPxHex(tiles), ltPxHex(px))
		b.add("320x320/photo/parallel", "ltinv xc %d %d 5 %s %s", w, h, ltPxHex(tiles), ltPxHex(cp))
		if back := ltGoInverse1(ltXf{"xc", 5, tiles}, w, h, cp); !ltEqU32(back, px) {
			rep.Add(Finding{Kind: "property", Property: "C01", Signature: "ltransform:crossColor-roundtrip",
				Detail: "Go colorSpaceInverseTransform (parallel path) of ColorSpaceTransform != original, 320x320",
				Input:  map[string]any{"op": "ltinv", "line": fmt.Sprintf("ltinv xc %d %d 5 %s %s", w, h, ltPxHex(tiles), ltPxHex(cp))}})
		}
		sg := ltGoForward1(ltXf{kind: "sg"}, w, h, px)
		b.add("320x320/photo/parallel", "ltinv sg %d %d 0 - %s", w, h, ltPxHex(sg))
		rep.Count("image-size:320x320")
	}

	// ---- (3) value codes and tables
	b.add("tab", "lttab codetoplane")
	b.add("tab", "lttab planetocode")
	for d := 1; d <= 5000; d++ {
		b.add("prefix", "ltprefix %d", d)
	}
	for k := 1; k <= 24; k++ {
		for _, dd := range []int{-2, -1, 0, 1, 2} {
			if d := (1 << k) + dd; d >= 1 {
				b.add("prefix", "ltprefix %d", d)
				b.add("prefix", "ltprefix %d", d+(1<<k)/2)
			}
		}
	}
	np := 2000
	if rich {
		np = 200000
	}
	for i := 0; i < np; i++ {
		r := NewRNG(rep.Seed, uint64(3000000+i))
		b.add("prefix", "ltprefix %d", 1+r.Intn(1<<uint(1+r.Intn(24))))
	}
	for sym := 0; sym < 40; sym++ {
		eb := 0
		if sym >= 4 {
			eb = (sym - 2) >> 1
		}
		for k := 0; k < 6; k++ {
			r := NewRNG(rep.Seed, uint64(3500000+sym*10+k))
			ex := r.Intn(1 << uint(eb))
			if k == 0 {
				ex = 0
			}
			if k == 1 {
				ex = 1<<uint(eb) - 1
			}
			b.add("getcopy", "ltgetcopy %d %d", sym, ex)
		}
	}
	for xs := 1; xs <= 24; xs++ {
		for d := 1; d <= 10*xs+30; d++ {
			b.add("plane", "ltplane %d %d", xs, d)
		}
	}
	for _, xs := range []int{31, 32, 33, 63, 64, 65, 100, 255, 256, 257, 1000, 4095, 4096, 8191, 16383, 16384} {
		for y := 0; y <= 9; y++ {
			for dx := -10; dx <= 10; dx++ {
				if d := y*xs + dx; d >= 1 {
					b.add("plane", "ltplane %d %d", xs, d)
				}
			}
		}
		for k := 0; k < 20; k++ {
			r := NewRNG(rep.Seed, uint64(3600000+xs*100+k))
			b.add("plane", "ltplane %d %d", xs, 1+r.Intn(1<<20-120))
		}
	}
	for _, xs := range []int{1, 2, 3, 7, 8, 9, 15, 16, 17, 64, 16384} {
		for c := -3; c <= 130; c++ {
			b.add("planedec", "ltplanedec %d %d", xs, c)
		}
	}
	// the decoder's overflow guard (outside VP8L widths; theorem
	// planeCode_overflow_guard_counterexample): only the raw decoder is compared there, and the
	// failing round trips of the Go pair are counted
	for _, xs := range []int{153391689, 153391690, 1 << 30, 1<<30 + 1} {
		for c := 1; c <= 120; c += 7 {
			b.add("planedec", "ltplanedec %d %d", xs, c)
		}
		for _, d := range []int{xs, 7 * xs, 7*xs + 5, 3*xs - 2} {
			code := verifapi.LDistanceToPlaneCode(xs, d)
			b.add("planedec", "ltplanedec %d %d", xs, code)
			if verifapi.LPlaneCodeToDistance(xs, code) != d {
				rep.Count(fmt.Sprintf("plane:overflow-guard-breaks-roundtrip:xsize=%d", xs))
			}
		}
	}

	return b.run()
}

func (b *ltBatch) run() error {
	rep := b.rep
	gos := make([]string, len(b.lines))
	fns := make([]string, len(b.lines))
	pms := make([]string, len(b.lines))
	{
		var wg sync.WaitGroup
		nw := runtime.NumCPU()
		for wk := 0; wk < nw; wk++ {
			wg.Add(1)
			go func(wk int) {
				defer wg.Done()
				for i := wk; i < len(b.lines); i += nw {
					f := strings.Split(b.lines[i], " ")
					gos[i], pms[i] = guard(func() string {
						g, fn := goLT(f)
						fns[i] = fn
						return g
					})
				}
			}(wk)
		}
		wg.Wait()
	}
	lean, err := RunDriver(b.lines)
	if err != nil {
		return err
	}
	for i, l := range lean {
		f := strings.SplitN(b.lines[i], " ", 3)
		op := f[0]
		if op == "ltpix" || op == "ltfwd" || op == "ltinv" {
			rep.Count("op:" + op + ":" + f[1])
		} else {
			rep.Count("op:" + op)
		}
		nontrivial := true
		if op == "ltfwd" || op == "ltinv" || op == "ltchainfwd" || op == "ltchaininv" {
			nontrivial = len(b.lines[i]) > 60
		}
		rep.Eval(nontrivial, []byte(b.lines[i]))
		if gos[i] == "panic" {
			rep.Add(Finding{Kind: "property", Property: "C01", Signature: "ltransform:go-panic:" + fns[i],
				Detail: fmt.Sprintf("%s: %s", short(b.lines[i], 200), pms[i]), Input: map[string]any{"op": op, "line": b.lines[i]}})
			continue
		}
		if l != gos[i] {
			fn := fns[i]
			if fn == "" {
				fn = op
			}
			rep.Add(Finding{Kind: "correspondence", Property: "C01", Signature: "ltransform:" + fn,
				Detail: fmt.Sprintf("(%s) %s: go=%q lean=%q", b.tags[i], short(b.lines[i], 160), short(gos[i], 200), short(l, 200)),
				Input:  map[string]any{"op": op, "line": b.lines[i]}})
		}
		if i%4001 == 0 {
			rep.Sample(map[string]any{"line": short(b.lines[i], 160), "go": short(gos[i], 100), "tag": b.tags[i]})
		}
	}
	return nil
}

// replayLT re-executes one protocol line on Go and on the Lean driver.
func replayLT(in map[string]any) int {
	line, _ := in["line"].(string)
	f := strings.Split(line, " ")
	if len(f) < 2 {
		fmt.Println("bad replay line")
		return 2
	}
	g, pm := guard(func() string { s, _ := goLT(f); return s })
	lean, err := RunDriver([]string{line})
	if err != nil {
		fmt.Println(err)
		return 2
	}
	fmt.Println("go:  ", short(g, 400), pm)
	fmt.Println("lean:", short(lean[0], 400))
	if g == "panic" || g != lean[0] {
		return 1
	}
	// inverse lines produced by the suite carry residuals of a forward transform: nothing more
	// to check here; the round-trip property itself is re-checked by the suite run.
	return 0
}
