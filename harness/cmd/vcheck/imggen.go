package main

import (
	"fmt"
	"image"
	"image/color"
)

// Image classes for generators.
const (
	ClsPhoto = iota
	ClsNoise
	ClsFlat
	ClsPal2
	ClsPal4
	ClsPal16
	ClsPal256
	ClsGradient
	NumImgClasses
)

var imgClassNames = []string{"photo", "noise", "flat", "pal2", "pal4", "pal16", "pal256", "gradient"}

// Alpha patterns.
const (
	AlphaNone = iota // all 255
	AlphaBinary
	AlphaFewLevels
	AlphaGradient
	AlphaNoise
	AlphaAllZero
	AlphaSemiFlat // constant 128
	AlphaSparse   // opaque except 1..3 pixels at raster index 0, 1 or among the last 8 (see sparseAlphaDraw)
	NumAlphaClasses
)

var alphaClassNames = []string{"opaque", "binary", "few", "gradient", "noise", "allzero", "semiflat", "sparse"}

// sparseAlphaDraw chooses the non-opaque pixels of an AlphaSparse picture of n pixels: half of the time
// exactly one pixel among the last 8, otherwise 1..3 pixels from {0, 1, n-8 .. n-1}; alpha values from
// {0, 1, 100, 254}. (Scans for "is any pixel not opaque" that work in blocks, or skip a tail, are wrong
// exactly on such pictures.)
func sparseAlphaDraw(r *RNG, n int) map[int]byte {
	vals := []byte{0, 1, 100, 254}
	out := map[int]byte{}
	if r.Bool() {
		out[maxi(n-1-r.Intn(8), 0)] = vals[r.Intn(4)]
		return out
	}
	cand := []int{0, 1}
	for k := 1; k <= 8; k++ {
		cand = append(cand, n-k)
	}
	for k := 1 + r.Intn(3); k > 0; k-- {
		i := cand[r.Intn(len(cand))]
		if i < 0 || i >= n {
			i = n - 1
		}
		out[i] = vals[r.Intn(4)]
	}
	return out
}

// SparseAlphaSizes cover pixel counts N with N mod 4 = 0, 1, 2, 3 (and N < 8).
var SparseAlphaSizes = [][2]int{{4, 4}, {5, 3}, {3, 3}, {7, 1}, {2, 3}, {7, 2}, {1, 13}, {16, 16}, {17, 9}, {10, 3}}

// GenImageSparseAt: an opaque picture of colour class cls with the pixels at the given raster indices
// (negative = counted from the end: -1 is the last pixel) set to alpha a. Indices outside the picture
// are dropped; ok=false when none is left.
func GenImageSparseAt(r *RNG, w, h, cls int, idx []int, a byte) (*image.NRGBA, bool) {
	img := GenImage(r, w, h, cls, AlphaNone)
	n, ok := w*h, false
	for _, i := range idx {
		if i < 0 {
			i += n
		}
		if i >= 0 && i < n {
			img.Pix[4*i+3] = a
			ok = true
		}
	}
	return img, ok
}

// GenZeroRunImage builds a two-colour picture whose 8-pixel groups (the lossless encoder packs 8
// palette indices of a two-colour picture into one green sample) spell only a few byte values with
// controlled gaps between them, so that the code-length vector of the green alphabet has runs of
// unused symbols of chosen lengths: around the limits of the run-length codes (2/3: shortest run code
// 17 takes; 10/11: code 17 / code 18; 138/139/140: longest run of one code 18) and anywhere in 130..145.
// withAlpha makes one of the two colours fully transparent (the alpha plane of a lossy encode then has
// the same bit pattern). Returns the picture and a description of the byte set.
func GenZeroRunImage(r *RNG, withAlpha bool) (*image.NRGBA, int, int, string) {
	gaps := []int{1, 2, 3, 4, 9, 10, 11, 12, 137, 138, 139, 140, 141, 142}
	var set []int
	v := 0
	if r.Chance(1, 3) {
		v = r.Intn(4)
	}
	set = append(set, v)
	for k := 1 + r.Intn(4); k > 0; k-- {
		g := gaps[r.Intn(len(gaps))]
		switch r.Intn(4) {
		case 0:
			g = 130 + r.Intn(16)
		case 1:
			g = []int{138, 139, 140}[r.Intn(3)]
		}
		if v+g+1 > 255 {
			g = []int{1, 2, 3, 10, 11}[r.Intn(5)]
			if v+g+1 > 255 {
				break
			}
		}
		v += g + 1
		set = append(set, v)
		if r.Chance(1, 3) && v < 255 { // a neighbour, so that the run is bounded by two used symbols
			v++
			set = append(set, v)
		}
	}
	groupsPerRow := 1 + r.Intn(5)
	w := 8 * groupsPerRow
	h := 1 + r.Intn(12)
	for groupsPerRow*h < len(set) {
		h++
	}
	c := [2]color.NRGBA{{byte(r.Next()), byte(r.Next()), byte(r.Next()), 255}, {byte(r.Next()), byte(r.Next()), byte(r.Next()), 255}}
	if c[0] == c[1] {
		c[1].R ^= 0x80
	}
	if withAlpha {
		c[r.Intn(2)].A = 0
	}
	img := image.NewNRGBA(image.Rect(0, 0, w, h))
	for g := 0; g < groupsPerRow*h; g++ {
		b := set[r.Intn(len(set))]
		if g < len(set) {
			b = set[g] // every value occurs
		}
		x0, y := 8*(g%groupsPerRow), g/groupsPerRow
		for j := 0; j < 8; j++ {
			img.SetNRGBA(x0+j, y, c[(b>>uint(j))&1])
		}
	}
	return img, w, h, fmt.Sprintf("zero-runs:bytes=%v", set)
}

// GenImage builds a w×h NRGBA image of the given colour class and alpha pattern.
func GenImage(r *RNG, w, h, cls, acls int) *image.NRGBA {
	img := image.NewNRGBA(image.Rect(0, 0, w, h))
	var pal []color.NRGBA
	npal := 0
	switch cls {
	case ClsPal2:
		npal = 2
	case ClsPal4:
		npal = 3 + r.Intn(2)
	case ClsPal16:
		npal = 5 + r.Intn(12)
	case ClsPal256:
		npal = 17 + r.Intn(240)
	}
	for i := 0; i < npal; i++ {
		pal = append(pal, color.NRGBA{byte(r.Next()), byte(r.Next()), byte(r.Next()), 255})
	}
	flat := color.NRGBA{byte(r.Next()), byte(r.Next()), byte(r.Next()), 255}
	fx, fy := 1+r.Intn(7), 1+r.Intn(7)
	levels := []byte{0, 64, 128, 200, 255}
	blk := 1 + r.Intn(5)
	var sparse map[int]byte
	if acls == AlphaSparse {
		sparse = sparseAlphaDraw(r, w*h)
	}
	for y := 0; y < h; y++ {
		for x := 0; x < w; x++ {
			var c color.NRGBA
			switch cls {
			case ClsPhoto:
				c = color.NRGBA{
					byte(128 + 100*sinI(x*fx+y*2)/256 + int(r.Next()%7)),
					byte(128 + 100*sinI(y*fy+x)/256 + int(r.Next()%5)),
					byte((x*255/(w+1) + y*255/(h+1)) / 2), 255}
			case ClsNoise:
				c = color.NRGBA{byte(r.Next()), byte(r.Next()), byte(r.Next()), 255}
			case ClsFlat:
				c = flat
			case ClsGradient:
				c = color.NRGBA{byte(x * 255 / maxi(w-1, 1)), byte(y * 255 / maxi(h-1, 1)), byte((x + y) * 255 / maxi(w+h-2, 1)), 255}
			default:
				// blocky palette image: runs of the same colour with occasional noise
				idx := ((x/blk)*7 + (y/blk)*13) % npal
				if r.Chance(1, 9) {
					idx = r.Intn(npal)
				}
				c = pal[idx]
			}
			switch acls {
			case AlphaNone:
				c.A = 255
			case AlphaBinary:
				if ((x/blk)+(y/blk))%3 == 0 {
					c.A = 0
				} else {
					c.A = 255
				}
			case AlphaFewLevels:
				c.A = levels[((x/blk)*3+(y/blk))%len(levels)]
			case AlphaGradient:
				c.A = byte(x * 255 / maxi(w-1, 1))
			case AlphaNoise:
				c.A = byte(r.Next())
			case AlphaAllZero:
				c.A = 0
			case AlphaSemiFlat:
				c.A = 128
			case AlphaSparse:
				c.A = 255
				if a, ok := sparse[y*w+x]; ok {
					c.A = a
				}
			}
			img.SetNRGBA(x, y, c)
		}
	}
	return img
}

func maxi(a, b int) int {
	if a > b {
		return a
	}
	return b
}

func mini(a, b int) int {
	if a < b {
		return a
	}
	return b
}

// sinI is a cheap integer triangle wave in [-256,256].
func sinI(t int) int {
	t = ((t % 64) + 64) % 64
	if t < 32 {
		return t*16 - 256
	}
	return (64-t)*16 - 256
}

func imgDesc(w, h, cls, acls int) string {
	return fmt.Sprintf("%dx%d/%s/%s", w, h, imgClassNames[cls], alphaClassNames[acls])
}

// nrgbaEqual compares two images pixel by pixel; when zeroAlphaEqual, pixels with alpha 0 on both sides match.
func nrgbaEqual(a, b *image.NRGBA, zeroAlphaEqual bool) (bool, string) {
	if a.Bounds().Dx() != b.Bounds().Dx() || a.Bounds().Dy() != b.Bounds().Dy() {
		return false, fmt.Sprintf("size %v vs %v", a.Bounds(), b.Bounds())
	}
	w, h := a.Bounds().Dx(), a.Bounds().Dy()
	for y := 0; y < h; y++ {
		for x := 0; x < w; x++ {
			ca := a.NRGBAAt(a.Rect.Min.X+x, a.Rect.Min.Y+y)
			cb := b.NRGBAAt(b.Rect.Min.X+x, b.Rect.Min.Y+y)
			if ca == cb {
				continue
			}
			if zeroAlphaEqual && ca.A == 0 && cb.A == 0 {
				continue
			}
			return false, fmt.Sprintf("pixel (%d,%d): %v vs %v", x, y, ca, cb)
		}
	}
	return true, ""
}

func toNRGBA(src image.Image) *image.NRGBA {
	if n, ok := src.(*image.NRGBA); ok {
		return n
	}
	b := src.Bounds()
	dst := image.NewNRGBA(image.Rect(0, 0, b.Dx(), b.Dy()))
	for y := 0; y < b.Dy(); y++ {
		for x := 0; x < b.Dx(); x++ {
			dst.Set(x, y, color.NRGBAModel.Convert(src.At(b.Min.X+x, b.Min.Y+y)))
		}
	}
	return dst
}
