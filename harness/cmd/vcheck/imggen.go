package main

import (
	"fmt"
	"image"
	"image/color"
)

// Image classes for generators.
const (
	ClsPhoto = iota
	ClsNoise
	ClsFlat
	ClsPal2
	ClsPal4
	ClsPal16
	ClsPal256
	ClsGradient
	NumImgClasses
)

var imgClassNames = []string{"photo", "noise", "flat", "pal2", "pal4", "pal16", "pal256", "gradient"}

// Alpha patterns.
const (
	AlphaNone = iota // all 255
	AlphaBinary
	AlphaFewLevels
	AlphaGradient
	AlphaNoise
	AlphaAllZero
	AlphaSemiFlat // constant 128
	NumAlphaClasses
)

var alphaClassNames = []string{"opaque", "binary", "few", "gradient", "noise", "allzero", "semiflat"}

// GenImage builds a w×h NRGBA image of the given colour class and alpha pattern.
func GenImage(r *RNG, w, h, cls, acls int) *image.NRGBA {
	img := image.NewNRGBA(image.Rect(0, 0, w, h))
	var pal []color.NRGBA
	npal := 0
	switch cls {
	case ClsPal2:
		npal = 2
	case ClsPal4:
		npal = 3 + r.Intn(2)
	case ClsPal16:
		npal = 5 + r.Intn(12)
	case ClsPal256:
		npal = 17 + r.Intn(240)
	}
	for i := 0; i < npal; i++ {
		pal = append(pal, color.NRGBA{byte(r.Next()), byte(r.Next()), byte(r.Next()), 255})
	}
	flat := color.NRGBA{byte(r.Next()), byte(r.Next()), byte(r.Next()), 255}
	fx, fy := 1+r.Intn(7), 1+r.Intn(7)
	levels := []byte{0, 64, 128, 200, 255}
	blk := 1 + r.Intn(5)
	for y := 0; y < h; y++ {
		for x := 0; x < w; x++ {
			var c color.NRGBA
			switch cls {
			case ClsPhoto:
				c = color.NRGBA{
					byte(128 + 100*sinI(x*fx+y*2)/256 + int(r.Next()%7)),
					byte(128 + 100*sinI(y*fy+x)/256 + int(r.Next()%5)),
					byte((x*255/(w+1) + y*255/(h+1)) / 2), 255}
			case ClsNoise:
				c = color.NRGBA{byte(r.Next()), byte(r.Next()), byte(r.Next()), 255}
			case ClsFlat:
				c = flat
			case ClsGradient:
				c = color.NRGBA{byte(x * 255 / maxi(w-1, 1)), byte(y * 255 / maxi(h-1, 1)), byte((x + y) * 255 / maxi(w+h-2, 1)), 255}
			default:
				// blocky palette image: runs of the same colour with occasional noise
				idx := ((x/blk)*7 + (y/blk)*13) % npal
				if r.Chance(1, 9) {
					idx = r.Intn(npal)
				}
				c = pal[idx]
			}
			switch acls {
			case AlphaNone:
				c.A = 255
			case AlphaBinary:
				if ((x/blk)+(y/blk))%3 == 0 {
					c.A = 0
				} else {
					c.A = 255
				}
			case AlphaFewLevels:
				c.A = levels[((x/blk)*3+(y/blk))%len(levels)]
			case AlphaGradient:
				c.A = byte(x * 255 / maxi(w-1, 1))
			case AlphaNoise:
				c.A = byte(r.Next())
			case AlphaAllZero:
				c.A = 0
			case AlphaSemiFlat:
				c.A = 128
			}
			img.SetNRGBA(x, y, c)
		}
	}
	return img
}

func maxi(a, b int) int {
	if a > b {
		return a
	}
	return b
}

func mini(a, b int) int {
	if a < b {
		return a
	}
	return b
}

// sinI is a cheap integer triangle wave in [-256,256].
func sinI(t int) int {
	t = ((t % 64) + 64) % 64
	if t < 32 {
		return t*16 - 256
	}
	return (64-t)*16 - 256
}

func imgDesc(w, h, cls, acls int) string {
	return fmt.Sprintf("%dx%d/%s/%s", w, h, imgClassNames[cls], alphaClassNames[acls])
}

// nrgbaEqual compares two images pixel by pixel; when zeroAlphaEqual, pixels with alpha 0 on both sides match.
func nrgbaEqual(a, b *image.NRGBA, zeroAlphaEqual bool) (bool, string) {
	if a.Bounds().Dx() != b.Bounds().Dx() || a.Bounds().Dy() != b.Bounds().Dy() {
		return false, fmt.Sprintf("size %v vs %v", a.Bounds(), b.Bounds())
	}
	w, h := a.Bounds().Dx(), a.Bounds().Dy()
	for y := 0; y < h; y++ {
		for x := 0; x < w; x++ {
			ca := a.NRGBAAt(a.Rect.Min.X+x, a.Rect.Min.Y+y)
			cb := b.NRGBAAt(b.Rect.Min.X+x, b.Rect.Min.Y+y)
			if ca == cb {
				continue
			}
			if zeroAlphaEqual && ca.A == 0 && cb.A == 0 {
				continue
			}
			return false, fmt.Sprintf("pixel (%d,%d): %v vs %v", x, y, ca, cb)
		}
	}
	return true, ""
}

func toNRGBA(src image.Image) *image.NRGBA {
	if n, ok := src.(*image.NRGBA); ok {
		return n
	}
	b := src.Bounds()
	dst := image.NewNRGBA(image.Rect(0, 0, b.Dx(), b.Dy()))
	for y := 0; y < b.Dy(); y++ {
		for x := 0; x < b.Dx(); x++ {
			dst.Set(x, y, color.NRGBAModel.Convert(src.At(b.Min.X+x, b.Min.Y+y)))
		}
	}
	return dst
}
