package main

import (
	"encoding/json"
	"fmt"
	"os"
)

// runReplay re-executes the literal input of a replay file on the current /repo and on the Lean model.
func runReplay(path string) int {
	b, err := os.ReadFile(path)
	if err != nil {
		fmt.Fprintln(os.Stderr, err)
		return 2
	}
	var rp struct {
		Property string         `json:"property"`
		Finding  Finding        `json:"finding"`
		Input    map[string]any `json:"input"`
	}
	if err := json.Unmarshal(b, &rp); err != nil {
		fmt.Fprintln(os.Stderr, err)
		return 2
	}
	in := rp.Input
	if in == nil {
		in = rp.Finding.Input
	}
	op, _ := in["op"].(string)
	hs, _ := in["hex"].(string)
	data := unhx(hs)
	for _, o := range containerOps {
		if o.op == op {
			g, pm := guard(func() string { return o.f(data) })
			l, err := RunDriver([]string{op + " " + hs})
			fmt.Printf("go:   %s %s\n", g, pm)
			if err == nil {
				fmt.Printf("lean: %s\n", l[0])
			}
			if g == "panic" || (err == nil && l[0] != g) {
				return 1
			}
			return 0
		}
	}
	if f, ok := replayers[op]; ok {
		return f(in)
	}
	fmt.Fprintf(os.Stderr, "no replayer for op %q\n", op)
	return 2
}

var replayers = map[string]func(map[string]any) int{}
