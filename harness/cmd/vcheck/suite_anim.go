package main

import (
	"encoding/hex"
	"fmt"
	"image"
	"image/color"
	"math"
	"runtime"
	"strconv"
	"strings"
	"sync"

	"github.com/deepteams/webp/animation"
)

// Suite "animdec": AnimDecoder canvas reconstruction (property C09).
//
//	Go animation.AnimDecoder  ==  Lean Impl.AnimDec.playAll      (correspondence)
//	Go animation.AnimDecoder  ==  Lean Spec.Anim.play            (property C09)
//	Reset + replay, snapshot immutability                        (property C09, checked on Go)
//	Go alphaBlendNRGBA        ==  Lean Impl.alphaBlendNRGBA == Spec.blend on all 65536 alpha pairs
func init() {
	suites["animdec"] = suiteAnimDec
	replayers["animplay"] = replayAnim
	replayers["animreset"] = replayAnim
	replayers["animsub"] = replayAnim
	replayers["blend"] = replayAnim
	replayers["blendgrid"] = replayAnim
}

type aFrame struct {
	offX, offY, fw, fh             int
	blendNone, disposeBG, hasAlpha bool
	pix                            []byte // fw*fh*4 RGBA
}

type aCase struct {
	w, h   int
	frames []aFrame
	kind   string
	// subOrigin != 0: the Go side hands the frame pictures over as SubImages whose Rect.Min is
	// (subOrigin, subOrigin); the Lean side sees the same pixels at origin (0,0).
	subOrigin int
	// k for animreset (number of NextFrame calls before Reset); -1: none
	resetAt int
	// number of "draw the previous frame again" moves (random generator)
	repeats int
}

func (c *aCase) framesArg() string {
	if len(c.frames) == 0 {
		return "-"
	}
	var sb strings.Builder
	for i, f := range c.frames {
		if i > 0 {
			sb.WriteByte(';')
		}
		fmt.Fprintf(&sb, "%d,%d,%d,%d,%s,%s,%s,%s", f.offX, f.offY, f.fw, f.fh, b2s(f.blendNone), b2s(f.disposeBG), b2s(f.hasAlpha), hx(f.pix))
	}
	return sb.String()
}

func (c *aCase) line() string {
	return fmt.Sprintf("animplay %d %d %s", c.w, c.h, c.framesArg())
}

func (c *aCase) resetLine() string {
	return fmt.Sprintf("animreset %d %d %d %s", c.resetAt, c.w, c.h, c.framesArg())
}

func (c *aCase) flagsConsistent() bool {
	for _, f := range c.frames {
		if !f.hasAlpha {
			for i := 3; i < len(f.pix); i += 4 {
				if f.pix[i] != 255 {
					return false
				}
			}
		}
	}
	return true
}

func (c *aCase) build() *animation.Animation {
	a := &animation.Animation{CanvasWidth: c.w, CanvasHeight: c.h}
	for _, f := range c.frames {
		var img *image.NRGBA
		if c.subOrigin == 0 {
			img = image.NewNRGBA(image.Rect(0, 0, f.fw, f.fh))
			copy(img.Pix, f.pix)
		} else {
			o := c.subOrigin
			big := image.NewNRGBA(image.Rect(0, 0, f.fw+o+1, f.fh+o+1))
			for i := range big.Pix {
				big.Pix[i] = byte(0x55 + i) // surrounding garbage
			}
			for y := 0; y < f.fh; y++ {
				for x := 0; x < f.fw; x++ {
					p := f.pix[(y*f.fw+x)*4:]
					big.SetNRGBA(x+o, y+o, color.NRGBA{p[0], p[1], p[2], p[3]})
				}
			}
			img = big.SubImage(image.Rect(o, o, o+f.fw, o+f.fh)).(*image.NRGBA)
		}
		fr := animation.Frame{Image: img, OffsetX: f.offX, OffsetY: f.offY, HasAlpha: f.hasAlpha}
		if f.blendNone {
			fr.Blend = animation.BlendNone
		}
		if f.disposeBG {
			fr.Dispose = animation.DisposeBackground
		}
		a.Frames = append(a.Frames, fr)
	}
	return a
}

type aGoResult struct {
	line       string   // "ok [d,…]" | "err canvas" | "panic"
	digs       []string // per snapshot
	mutated    int      // index of an earlier snapshot that changed after a later call, -1 none
	resetOK    bool     // Reset + full replay gives the same digests
	resetLine  string   // result of k×NextFrame, Reset, replay ("" when resetAt < 0)
	aliasCurr  bool     // a returned snapshot shares memory with d.Canvas()
	panicMsg   string
	errAtFrame int
}

func digs(ds []string) string { return "[" + strings.Join(ds, ",") + "]" }

// goAnimPlay runs the real decoder.
func goAnimPlay(c *aCase) aGoResult {
	res := aGoResult{mutated: -1, resetOK: true, errAtFrame: -1}
	res.line, res.panicMsg = guard(func() string {
		anim := c.build()
		d, err := animation.NewAnimDecoder(anim)
		if err != nil {
			return "err canvas"
		}
		var snaps []*image.NRGBA
		for d.HasNext() {
			s, _, err := d.NextFrame()
			if err != nil {
				res.errAtFrame = len(snaps)
				return "err frame"
			}
			// snapshots already returned must not be modified by later calls
			for i, old := range snaps {
				if digest(old.Pix) != res.digs[i] && res.mutated < 0 {
					res.mutated = i
				}
			}
			if len(s.Pix) > 0 && len(d.Canvas().Pix) > 0 && &s.Pix[0] == &d.Canvas().Pix[0] {
				res.aliasCurr = true
			}
			snaps = append(snaps, s)
			res.digs = append(res.digs, digest(s.Pix))
		}
		if _, _, err := d.NextFrame(); err == nil {
			return "err no-ErrNoFrames-after-last"
		}
		// Reset replays identically (same decoder object)
		d.Reset()
		k := 0
		for d.HasNext() {
			s, _, err := d.NextFrame()
			if err != nil || k >= len(res.digs) || digest(s.Pix) != res.digs[k] {
				res.resetOK = false
			}
			k++
		}
		if k != len(res.digs) {
			res.resetOK = false
		}
		for i, old := range snaps {
			if digest(old.Pix) != res.digs[i] && res.mutated < 0 {
				res.mutated = i
			}
		}
		return "ok " + digs(res.digs)
	})
	if c.resetAt >= 0 && res.line != "panic" && !strings.HasPrefix(res.line, "err") {
		res.resetLine, _ = guard(func() string {
			d, err := animation.NewAnimDecoder(c.build())
			if err != nil {
				return "err canvas"
			}
			for i := 0; i < c.resetAt && d.HasNext(); i++ {
				d.NextFrame()
			}
			d.Reset()
			var ds []string
			for d.HasNext() {
				s, _, _ := d.NextFrame()
				ds = append(ds, digest(s.Pix))
			}
			return "ok " + digs(ds)
		})
	}
	return res
}

// parse "ok impl=[..] spec=[..] lib=[..]"
func splitLean(l string) (impl, spec, lib string, ok bool) {
	if !strings.HasPrefix(l, "ok impl=") {
		return "", "", "", false
	}
	parts := strings.Split(l[3:], " ")
	if len(parts) != 3 {
		return "", "", "", false
	}
	return strings.TrimPrefix(parts[0], "impl="), strings.TrimPrefix(parts[1], "spec="), strings.TrimPrefix(parts[2], "lib="), true
}

var animAlphaSet = []byte{0, 1, 127, 128, 254, 255}

var animTranslucent = []byte{1, 127, 128, 254}

func genPixels(r *RNG, n int, mode int) []byte {
	p := make([]byte, 4*n)
	flatA := animAlphaSet[r.Intn(len(animAlphaSet))]
	for i := 0; i < n; i++ {
		p[4*i], p[4*i+1], p[4*i+2] = byte(r.Next()), byte(r.Next()), byte(r.Next())
		if r.Chance(1, 6) { // boundary channel values
			p[4*i+r.Intn(3)] = []byte{0, 1, 254, 255}[r.Intn(4)]
		}
		switch mode {
		case 0: // opaque
			p[4*i+3] = 255
		case 1: // alphas from the boundary set
			p[4*i+3] = animAlphaSet[r.Intn(len(animAlphaSet))]
		case 2: // random
			p[4*i+3] = byte(r.Next())
		case 3: // flat
			p[4*i+3] = flatA
		default: // mostly opaque with holes
			p[4*i+3] = 255
			if r.Chance(1, 4) {
				p[4*i+3] = animAlphaSet[r.Intn(len(animAlphaSet))]
			}
		}
	}
	return p
}

func allOpaque(p []byte) bool {
	for i := 3; i < len(p); i += 4 {
		if p[i] != 255 {
			return false
		}
	}
	return true
}

// genAnimCase: random animation; consistent=false flips some HasAlpha flags to a lie.
func genAnimCase(r *RNG, maxCanvas, maxFrames int, consistent bool) *aCase {
	c := &aCase{w: 1 + r.Intn(maxCanvas), h: 1 + r.Intn(maxCanvas), kind: "random", resetAt: -1}
	if r.Chance(1, 5) {
		c.w, c.h = 1+r.Intn(3), 1+r.Intn(3)
	}
	n := 1 + r.Intn(maxFrames)
	for i := 0; i < n; i++ {
		var f aFrame
		if i > 0 && r.Chance(1, 6) {
			// "draw the previous frame again": same pixels at the same (or an overlapping) offset,
			// BlendAlpha over a canvas that still holds them (previous frame DisposeNone), with
			// translucent alphas — the source pixel then EQUALS the canvas pixel below it, and
			// blending must still accumulate coverage.
			p := &c.frames[i-1]
			switch r.Intn(3) {
			case 1: // per-pixel translucent alphas
				for k := 3; k < len(p.pix); k += 4 {
					p.pix[k] = animTranslucent[r.Intn(len(animTranslucent))]
				}
			case 2: // one flat translucent pixel value (coincides under any shift)
				a := animTranslucent[r.Intn(len(animTranslucent))]
				for k := 4; k < len(p.pix); k += 4 {
					copy(p.pix[k:k+3], p.pix[:3])
				}
				for k := 3; k < len(p.pix); k += 4 {
					p.pix[k] = a
				}
			}
			p.hasAlpha = p.hasAlpha || !allOpaque(p.pix)
			p.disposeBG = false
			f = *p
			f.pix = append([]byte(nil), p.pix...)
			f.blendNone, f.disposeBG = false, r.Chance(1, 4)
			if r.Chance(1, 3) {
				f.offX += r.Intn(3) - 1
				f.offY += r.Intn(3) - 1
			}
			c.frames = append(c.frames, f)
			c.repeats++
			continue
		}
		switch r.Intn(8) {
		case 0, 1: // exactly the canvas: candidates for the full-frame key-frame rule
			f.offX, f.offY, f.fw, f.fh = 0, 0, c.w, c.h
		case 2: // covers the canvas without being "full"
			f.offX, f.offY = -r.Intn(3), -r.Intn(3)
			f.fw, f.fh = c.w-f.offX+r.Intn(2), c.h-f.offY+r.Intn(2)
		case 3: // canvas-sized but shifted
			f.offX, f.offY, f.fw, f.fh = r.Intn(3)-1, r.Intn(3)-1, c.w, c.h
		default:
			f.offX, f.offY = r.Intn(c.w+6)-3, r.Intn(c.h+6)-3
			f.fw, f.fh = 1+r.Intn(c.w+2), 1+r.Intn(c.h+2)
			if r.Chance(1, 40) {
				f.fw = 0
			}
			if r.Chance(1, 40) {
				f.fh = 0
			}
		}
		f.blendNone, f.disposeBG = r.Bool(), r.Bool()
		f.pix = genPixels(r, f.fw*f.fh, r.Intn(5))
		if allOpaque(f.pix) {
			f.hasAlpha = r.Bool()
		} else {
			f.hasAlpha = true
		}
		c.frames = append(c.frames, f)
	}
	if !consistent {
		c.kind = "flags-lie"
		lied := false
		for i := range c.frames {
			if !allOpaque(c.frames[i].pix) && (r.Bool() || !lied) {
				c.frames[i].hasAlpha = false
				lied = true
			}
		}
		if !lied { // make one frame translucent and lie about it
			f := &c.frames[r.Intn(len(c.frames))]
			if len(f.pix) == 0 {
				f.fw, f.fh = 1, 1
				f.pix = []byte{9, 9, 9, 9}
			}
			f.pix[3] = 128
			f.hasAlpha = false
		}
	}
	if r.Chance(1, 3) {
		c.resetAt = r.Intn(n + 1)
	}
	return c
}

// exhaustive small domain: canvas 2x2
type frameOpt struct {
	offX, offY, fw, fh int
	bn, db             bool
	alpha              byte
	hasAlpha           bool
}

func (o frameOpt) frame(seq int) aFrame {
	n := o.fw * o.fh
	p := make([]byte, 4*n)
	for i := 0; i < n; i++ {
		p[4*i], p[4*i+1], p[4*i+2], p[4*i+3] = byte(40*seq+10*i+7), byte(200-30*seq-i), byte(seq*90+i*3), o.alpha
	}
	return aFrame{o.offX, o.offY, o.fw, o.fh, o.bn, o.db, o.hasAlpha, p}
}

// frameFixed: like frame, but the pixels do not depend on the frame's position in the sequence
// (flat: nor on the pixel index), so that a later frame can carry exactly the pixels an earlier
// one left on the canvas.
func (o frameOpt) frameFixed(flat bool) aFrame {
	n := o.fw * o.fh
	p := make([]byte, 4*n)
	for i := 0; i < n; i++ {
		if flat {
			p[4*i], p[4*i+1], p[4*i+2], p[4*i+3] = 200, 40, 90, o.alpha
		} else {
			p[4*i], p[4*i+1], p[4*i+2], p[4*i+3] = byte(10*i+7), byte(200-i), byte(i*3), o.alpha
		}
	}
	return aFrame{o.offX, o.offY, o.fw, o.fh, o.bn, o.db, o.hasAlpha, p}
}

func frameOpts(offs [][2]int, sizes [][2]int, alphas []struct {
	a  byte
	ha bool
}) []frameOpt {
	var out []frameOpt
	for _, of := range offs {
		for _, sz := range sizes {
			for bd := 0; bd < 4; bd++ {
				for _, al := range alphas {
					out = append(out, frameOpt{of[0], of[1], sz[0], sz[1], bd&1 != 0, bd&2 != 0, al.a, al.ha})
				}
			}
		}
	}
	return out
}

type animBatch struct {
	rep   *Report
	cases []*aCase
	gos   []aGoResult
	stats map[string]int
	err   error
}

func (b *animBatch) add(c *aCase) {
	if b.err != nil {
		return
	}
	b.cases = append(b.cases, c)
	if len(b.cases) >= 60000 {
		b.flush()
	}
}

func animInput(c *aCase, op, line string) map[string]any {
	return map[string]any{"op": op, "line": line, "suborigin": c.subOrigin}
}

func (b *animBatch) flush() {
	if len(b.cases) == 0 || b.err != nil {
		return
	}
	rep := b.rep
	lines := make([]string, 0, len(b.cases))
	owner := make([]int, 0, len(b.cases))
	isReset := make([]bool, 0, len(b.cases))
	gos := make([]aGoResult, len(b.cases))
	{
		var wg sync.WaitGroup
		nw := runtime.NumCPU()
		for wk := 0; wk < nw; wk++ {
			wg.Add(1)
			go func(wk int) {
				defer wg.Done()
				for i := wk; i < len(b.cases); i += nw {
					gos[i] = goAnimPlay(b.cases[i])
				}
			}(wk)
		}
		wg.Wait()
	}
	for i, c := range b.cases {
		lines = append(lines, c.line())
		owner = append(owner, i)
		isReset = append(isReset, false)
		if gos[i].resetLine != "" {
			lines = append(lines, c.resetLine())
			owner = append(owner, i)
			isReset = append(isReset, true)
		}
	}
	lean, err := RunDriver(lines)
	if err != nil {
		b.err = err
		return
	}
	for li, l := range lean {
		c := b.cases[owner[li]]
		g := gos[owner[li]]
		if isReset[li] {
			if l != g.resetLine {
				rep.Add(Finding{Kind: "correspondence", Signature: "animdec-model:animreset",
					Detail: fmt.Sprintf("(%s) go=%q lean=%q", c.kind, short(g.resetLine, 300), short(l, 300)), Input: animInput(c, "animreset", lines[li])})
			}
			// Reset replays identically: the result after Reset must equal a fresh full play
			if g.resetLine != g.line {
				rep.Add(Finding{Kind: "property", Property: "C09", Signature: "AnimDecoder.Reset:replay-differs",
					Detail: fmt.Sprintf("after %d frames + Reset: %q, fresh: %q", c.resetAt, short(g.resetLine, 300), short(g.line, 300)), Input: animInput(c, "animreset", lines[li])})
			}
			continue
		}
		rep.Count("kind:" + c.kind)
		rep.Count(fmt.Sprintf("frames:%d", len(c.frames)))
		if c.repeats > 0 {
			rep.Count("random:with-repeated-frame")
		}
		nontrivial := len(c.frames) >= 2
		rep.Eval(nontrivial, []byte(lines[li]))
		if g.line == "panic" {
			rep.Count("go:panic")
		}
		consistent := c.flagsConsistent()
		impl, spec, lib, ok := splitLean(l)
		if !ok {
			// err / panic lines are compared verbatim
			if l != g.line {
				rep.Add(Finding{Kind: "correspondence", Signature: "animdec-model:animplay",
					Detail: fmt.Sprintf("(%s) go=%q lean=%q %s", c.kind, short(g.line, 300), short(l, 300), g.panicMsg), Input: animInput(c, "animplay", lines[li])})
			}
			rep.Count("result:" + strings.SplitN(l, " ", 3)[0])
			continue
		}
		rep.Count("result:ok")
		goD := strings.TrimPrefix(g.line, "ok ")
		if c.subOrigin != 0 {
			// probe: frame pictures with a non-zero Rect.Min — the model does not claim to describe it
			if goD != spec {
				rep.Count("subimage:differs-from-spec")
				rep.Add(Finding{Kind: "property", Property: "C09", Signature: "compositeFrame:subimage-origin",
					Detail: fmt.Sprintf("frame pictures are *image.NRGBA sub-images with Rect.Min=(%d,%d): decoder returns %s, specification %s (compositeFrame reads src.NRGBAAt(sx,sy) relative to (0,0))", c.subOrigin, c.subOrigin, short(goD, 200), short(spec, 200)),
					Input:  animInput(c, "animsub", lines[li])})
			} else {
				rep.Count("subimage:same-as-spec")
			}
			continue
		}
		if goD != impl {
			rep.Add(Finding{Kind: "correspondence", Signature: "animdec-model:animplay",
				Detail: fmt.Sprintf("(%s) go=%q lean-impl=%q", c.kind, short(goD, 300), short(impl, 300)), Input: animInput(c, "animplay", lines[li])})
		}
		if consistent {
			if goD != spec {
				rep.Add(Finding{Kind: "property", Property: "C09", Signature: "AnimDecoder:snapshots-differ-from-spec",
					Detail: fmt.Sprintf("(%s) go=%q spec=%q", c.kind, short(goD, 300), short(spec, 300)), Input: animInput(c, "animplay", lines[li])})
			}
			if impl != spec {
				rep.Add(Finding{Kind: "correspondence", Signature: "animdec-theorem:impl_eq_spec",
					Detail: fmt.Sprintf("Lean impl model and spec differ on a flags-consistent animation (contradicts theorem impl_eq_spec): impl=%q spec=%q", short(impl, 300), short(spec, 300)), Input: animInput(c, "animplay", lines[li])})
			}
		} else {
			// HasAlpha=false on a translucent frame: excluded by FlagsConsistent; only counted
			if goD != spec {
				rep.Count("flags-lie:differs-from-spec")
			} else {
				rep.Count("flags-lie:same-as-spec")
			}
		}
		if lib != spec {
			rep.Count("libwebp-formula:differs-from-spec")
		} else {
			rep.Count("libwebp-formula:same-as-spec")
		}
		if g.mutated >= 0 {
			rep.Add(Finding{Kind: "property", Property: "C09", Signature: "AnimDecoder.NextFrame:snapshot-mutated",
				Detail: fmt.Sprintf("snapshot %d changed after a later NextFrame/Reset call", g.mutated), Input: animInput(c, "animplay", lines[li])})
		}
		if g.aliasCurr {
			rep.Add(Finding{Kind: "property", Property: "C09", Signature: "AnimDecoder.NextFrame:snapshot-aliases-canvas",
				Detail: "returned snapshot shares its pixel buffer with the live canvas", Input: animInput(c, "animplay", lines[li])})
		}
		if !g.resetOK {
			rep.Add(Finding{Kind: "property", Property: "C09", Signature: "AnimDecoder.Reset:replay-differs",
				Detail: "Reset on the same decoder followed by a full replay returned different snapshots", Input: animInput(c, "animplay", lines[li])})
		}
		if owner[li]%997 == 0 {
			rep.Sample(map[string]any{"kind": c.kind, "line": short(lines[li], 200), "go": short(g.line, 120)})
		}
	}
	b.cases = b.cases[:0]
}

func goBlendLine(s, d color.NRGBA) string {
	o := animation.VerifAlphaBlend(s, d)
	return hex.EncodeToString([]byte{o.R, o.G, o.B, o.A})
}

func goBlendGrid(s, d [3]byte) string {
	buf := make([]byte, 0, 4*65536)
	for sa := 0; sa < 256; sa++ {
		for da := 0; da < 256; da++ {
			o := animation.VerifAlphaBlend(color.NRGBA{s[0], s[1], s[2], byte(sa)}, color.NRGBA{d[0], d[1], d[2], byte(da)})
			buf = append(buf, o.R, o.G, o.B, o.A)
		}
	}
	return digest(buf)
}

func kv(line, key string) string {
	for _, p := range strings.Split(line, " ") {
		if strings.HasPrefix(p, key+"=") {
			return p[len(key)+1:]
		}
	}
	return ""
}

func suiteBlend(rep *Report) error {
	rich := rep.Tier == "thorough"
	// (a) all 65536 alpha pairs for a set of channel triples
	var trip [][2][3]byte
	edge := []byte{0, 1, 127, 128, 254, 255}
	for _, a := range edge {
		for _, b := range edge {
			trip = append(trip, [2][3]byte{{a, b, 255 - a}, {b, a, a ^ b}})
		}
	}
	nr := 28
	if rich {
		nr = 1000
	}
	r := NewRNG(rep.Seed, 424242)
	for i := 0; i < nr; i++ {
		trip = append(trip, [2][3]byte{{byte(r.Next()), byte(r.Next()), byte(r.Next())}, {byte(r.Next()), byte(r.Next()), byte(r.Next())}})
	}
	var lines []string
	var gos []string
	for _, t := range trip {
		lines = append(lines, fmt.Sprintf("blendgrid %s %s", hex.EncodeToString(t[0][:]), hex.EncodeToString(t[1][:])))
		gos = append(gos, goBlendGrid(t[0], t[1]))
	}
	ngrid := len(lines)
	// (b) individual pixels
	np := 30000
	if rich {
		np = 1000000
	}
	for i := 0; i < np; i++ {
		r := NewRNG(rep.Seed, uint64(9000000+i))
		s := color.NRGBA{byte(r.Next()), byte(r.Next()), byte(r.Next()), byte(r.Next())}
		d := color.NRGBA{byte(r.Next()), byte(r.Next()), byte(r.Next()), byte(r.Next())}
		if r.Chance(1, 3) {
			s.A = animAlphaSet[r.Intn(6)]
		}
		if r.Chance(1, 3) {
			d.A = animAlphaSet[r.Intn(6)]
		}
		lines = append(lines, fmt.Sprintf("blend %02x%02x%02x%02x %02x%02x%02x%02x", s.R, s.G, s.B, s.A, d.R, d.G, d.B, d.A))
		gos = append(gos, goBlendLine(s, d))
	}
	lean, err := RunDriver(lines)
	if err != nil {
		return err
	}
	for i, l := range lean {
		op := "blend"
		if i < ngrid {
			op = "blendgrid"
			rep.CountN("blend:alpha-pairs", 65536)
		} else {
			rep.Count("blend:pixels")
		}
		rep.Eval(true, []byte(lines[i]))
		impl, spec, lib := kv(l, "impl"), kv(l, "spec"), kv(l, "lib")
		in := map[string]any{"op": op, "line": lines[i]}
		if !strings.HasPrefix(l, "ok ") || impl != gos[i] {
			rep.Add(Finding{Kind: "correspondence", Signature: "animdec-model:" + op,
				Detail: fmt.Sprintf("%s: go=%s lean=%q", lines[i], gos[i], l), Input: in})
		}
		if spec != gos[i] {
			rep.Add(Finding{Kind: "property", Property: "C09", Signature: "alphaBlendNRGBA:differs-from-spec-blend",
				Detail: fmt.Sprintf("%s: go=%s spec=%s", lines[i], gos[i], spec), Input: in})
		}
		if lib != spec {
			rep.Count(op + ":libwebp-formula-differs")
		}
	}
	return nil
}

func suiteAnimDec(rep *Report) error {
	rich := rep.Tier == "thorough"
	rep.Rule = "animations built programmatically (frames are *image.NRGBA at origin 0,0): (1) exhaustive 2x2 canvas, 2 frames over offsets {-2,0,2}^2 x sizes {1x1,2x2,3x3,2x1} x blend x dispose x (alpha 255 flag off/on, 128, 0) and 3 frames over a reduced grid; (1b) 2 frames whose pixels do not depend on the frame number (per-index and flat), alphas {1,128,254}, offsets {(0,0),(1,0),(-1,-1)} x sizes {1x1,2x2,2x1} x blend x dispose — the second frame carries exactly the pixels the first left on the canvas; (1c) the blend grid through compositeFrame: 1x1 canvas, frame 0 = pixel d with BlendNone, frame 1 = pixel s with BlendAlpha, all 256 alphas for 24 channel triples on the s==d diagonal, with alpha^1 below, and with other channels below; (2) random canvases up to 16x16, up to 12 frames, offsets -3..canvas+2, sizes 0..canvas+2, per-pixel alphas from {0,1,127,128,254,255} or random, HasAlpha consistent with the pixels, with a 1-in-6 'draw the previous frame again' move (same pixels, same or overlapping offset, BlendAlpha over DisposeNone, alphas kept / redrawn from {1,127,128,254} / flat); (3) extreme int64 offsets; (4) NewAnimDecoder size errors; (5) a flags-lie stream (HasAlpha=false on translucent frames) compared with the model only and counted against the spec; (6) a sub-image-origin probe; (7) wide / tall canvases (widths 1023,1024,1025,1100,2049,4097 x heights 2,3 plus a few canvases drawn around the numeric thresholds of thresholds.go): canvas-filling frame, a non-key sub-frame wider than 1024 pixels (full width without the first row, or from x = 1000) with DisposeBackground, then a small BlendAlpha frame; every case: Go AnimDecoder snapshots vs Lean implementation model (correspondence) and vs Lean specification (C09), re-hash of all earlier snapshots after every call, Reset+replay on the same decoder, and k frames+Reset+replay vs the model; blend: all 65536 alpha pairs for 64+ channel triples plus random pixels. non-trivial = at least 2 frames"
	b := &animBatch{rep: rep}
	// (1) exhaustive
	offs := [][2]int{}
	for _, x := range []int{-2, 0, 2} {
		for _, y := range []int{-2, 0, 2} {
			offs = append(offs, [2]int{x, y})
		}
	}
	alphas := []struct {
		a  byte
		ha bool
	}{{255, false}, {255, true}, {128, true}, {0, true}}
	o2 := frameOpts(offs, [][2]int{{1, 1}, {2, 2}, {3, 3}, {2, 1}}, alphas)
	for _, f0 := range o2 {
		for _, f1 := range o2 {
			b.add(&aCase{w: 2, h: 2, frames: []aFrame{f0.frame(0), f1.frame(1)}, kind: "exh2", resetAt: -1})
		}
	}
	offs3 := [][2]int{{0, 0}, {-2, 0}, {1, 0}}
	sizes3 := [][2]int{{2, 2}, {1, 2}, {3, 3}}
	alphas3 := alphas[:3]
	if rich {
		offs3 = append(offs3, [2]int{0, 1}, [2]int{-1, -1})
		sizes3 = append(sizes3, [2]int{1, 1})
	} else {
		alphas3 = []struct {
			a  byte
			ha bool
		}{{255, false}, {128, true}}
	}
	o3 := frameOpts(offs3, sizes3, alphas3)
	for _, f0 := range o3 {
		for _, f1 := range o3 {
			for _, f2 := range o3 {
				b.add(&aCase{w: 2, h: 2, frames: []aFrame{f0.frame(0), f1.frame(1), f2.frame(2)}, kind: "exh3", resetAt: -1})
			}
		}
	}
	// (1b) exhaustive, sequence-independent pixels with translucent alphas {1,128,254}: the second
	// frame carries the very pixels the first one left on the canvas (source == canvas below it)
	alphasT := []struct {
		a  byte
		ha bool
	}{{1, true}, {128, true}, {254, true}}
	oRep := frameOpts([][2]int{{0, 0}, {1, 0}, {-1, -1}}, [][2]int{{1, 1}, {2, 2}, {2, 1}}, alphasT)
	for _, flat := range []bool{false, true} {
		for _, f0 := range oRep {
			for _, f1 := range oRep {
				b.add(&aCase{w: 2, h: 2, frames: []aFrame{f0.frameFixed(flat), f1.frameFixed(flat)}, kind: "exh2same", resetAt: -1})
			}
		}
	}
	// (1c) the blend grid THROUGH compositeFrame: canvas 1x1, frame 0 puts pixel d on the canvas
	// (BlendNone, DisposeNone), frame 1 blends pixel s over it; every alpha on the s == d diagonal,
	// the same channels with neighbouring alphas, and different channels with the same alpha
	{
		var trip [][3]byte
		for _, a := range []byte{0, 1, 128, 255} {
			for _, bb := range []byte{0, 127, 254, 255} {
				trip = append(trip, [3]byte{a, bb, 255 - a})
			}
		}
		r := NewRNG(rep.Seed, 515151)
		for len(trip) < 24 {
			trip = append(trip, [3]byte{byte(r.Next()), byte(r.Next()), byte(r.Next())})
		}
		px := func(t [3]byte, a byte) aFrame {
			return aFrame{0, 0, 1, 1, false, false, a != 255, []byte{t[0], t[1], t[2], a}}
		}
		for ti, t := range trip {
			t2 := trip[(ti+5)%len(trip)]
			for a := 0; a < 256; a++ {
				for v := 0; v < 3; v++ {
					d, sfr := px(t, byte(a)), px(t, byte(a))
					switch v {
					case 1:
						d = px(t, byte(a^1))
					case 2:
						d = px(t2, byte(a))
					}
					d.blendNone = true
					b.add(&aCase{w: 1, h: 1, frames: []aFrame{d, sfr}, kind: []string{"blend1x1:s==d", "blend1x1:alpha^1", "blend1x1:other-rgb"}[v], resetAt: -1})
				}
			}
		}
	}
	rep.Exhaustive = true
	// (2) random
	nRand := 4000
	if rich {
		nRand = 200000
	}
	for i := 0; i < nRand; i++ {
		b.add(genAnimCase(NewRNG(rep.Seed, uint64(100+i)), 16, 12, true))
	}
	// (3) extreme offsets (Frame.Bounds overflow guard, Intersect)
	ext := []int{math.MinInt64, math.MinInt64 + 1, math.MinInt64 + 3, -1 << 62, -1 << 32, -5, 0, 1, 1 << 31, 1 << 62, math.MaxInt64 - 3, math.MaxInt64 - 1, math.MaxInt64}
	for i := 0; i < 600; i++ {
		r := NewRNG(rep.Seed, uint64(7000000+i))
		c := genAnimCase(r, 4, 4, true)
		c.kind = "extreme-offsets"
		for j := range c.frames {
			if r.Bool() {
				c.frames[j].offX = ext[r.Intn(len(ext))]
			}
			if r.Bool() {
				c.frames[j].offY = ext[r.Intn(len(ext))]
			}
		}
		b.add(c)
	}
	// (4) constructor errors / panics
	for _, wh := range [][2]int{{0, 1}, {1, 0}, {-1, 5}, {5, -7}, {32768, 32769}, {1 << 31, 1}, {1 << 32, 1 << 32}, {1 << 33, 1 << 31}, {math.MaxInt64, 1}, {math.MaxInt64, math.MaxInt64}, {math.MinInt64, math.MinInt64}} {
		b.add(&aCase{w: wh[0], h: wh[1], kind: "constructor", resetAt: -1})
	}
	b.add(&aCase{w: 3, h: 2, kind: "constructor", resetAt: -1}) // no frames at all
	// (5) lying HasAlpha flags
	for i := 0; i < 1500; i++ {
		b.add(genAnimCase(NewRNG(rep.Seed, uint64(8000000+i)), 6, 5, false))
	}
	// (6) sub-image origin probe
	for i := 0; i < 300; i++ {
		r := NewRNG(rep.Seed, uint64(8500000+i))
		c := genAnimCase(r, 6, 4, true)
		c.kind = "subimage-origin"
		c.subOrigin = 1 + r.Intn(3)
		c.resetAt = -1
		b.add(c)
	}
	// (7) wide / tall canvases: rows longer than any per-row fast path's buffer (1024-pixel pages, 2048 /
	// 4096-entry scratch). Frame 0 fills the canvas; frame 1 is a NON-key sub-frame wider than the
	// threshold - full width without the first row, or starting at x = 1000 (x = 0 for canvases narrower
	// than 1100), or a row range of a tall canvas - with DisposeBackground on 3 of 4; frame 2 is a small
	// BlendAlpha frame, so that the canvas after the disposal is seen in a snapshot; sometimes a 4th frame.
	// Compared with the Lean model and specification like every other case (98 KB of pixels per frame at
	// 4097x3, so the number of cases is small).
	{
		type wh struct{ w, h int }
		var dims []wh
		for _, w := range []int{1023, 1024, 1025, 1100, 2049, 4097} {
			for _, h := range []int{2, 3} {
				dims = append(dims, wh{w, h})
			}
		}
		// threshold-crossing canvases drawn from the shared list (widths and heights, tiny other side)
		nDraw := 6
		if rich {
			nDraw = 40
		}
		for _, tc := range DrawThresholdCases(rep.Seed, 0x09, nDraw, ThresholdFilter{Units: []string{"width", "height"}, MinValue: 200, MaxW: 8200, MaxH: 4100, Tiny: []int{2, 3}}) {
			dims = append(dims, wh{tc.W, tc.H})
			CountThreshold(rep, tc)
		}
		for di, d := range dims {
			for variant := 0; variant < 2; variant++ {
				r := NewRNG(rep.Seed, uint64(8700000+di*4+variant))
				c := &aCase{w: d.w, h: d.h, kind: "wide", resetAt: -1}
				full := aFrame{0, 0, d.w, d.h, r.Bool(), false, false, nil}
				full.pix = genPixels(r, d.w*d.h, []int{0, 4, 1}[r.Intn(3)])
				full.hasAlpha = !allOpaque(full.pix)
				var sub aFrame
				wide := d.w >= d.h
				switch {
				case wide && variant == 0: // full width, all rows but the first
					sub = aFrame{offX: 0, offY: 1, fw: d.w, fh: d.h - 1}
				case wide: // starts at x = 1000 (or 0), a few columns short of the right edge sometimes
					ox := 1000
					if d.w < 1100 {
						ox = 0
					}
					sub = aFrame{offX: ox, offY: 0, fw: d.w - ox - r.Intn(2), fh: d.h - 1 + r.Intn(2)}
					if sub.offX == 0 && sub.fw == d.w && sub.fh == d.h {
						sub.fh = d.h - 1
					}
				case variant == 0: // tall canvas: all columns but the first
					sub = aFrame{offX: 1, offY: 0, fw: d.w - 1, fh: d.h}
					if d.w == 1 {
						sub = aFrame{offX: 0, offY: 1, fw: 1, fh: d.h - 1}
					}
				default:
					sub = aFrame{offX: 0, offY: 1000 % d.h, fw: d.w, fh: d.h - 1000%d.h - r.Intn(2)}
					if sub.offY == 0 && sub.fh == d.h {
						sub.offY, sub.fh = 1, d.h-1
					}
				}
				sub.disposeBG = r.Chance(3, 4)
				sub.blendNone = r.Bool()
				sub.pix = genPixels(r, sub.fw*sub.fh, []int{1, 4, 0, 3}[r.Intn(4)])
				sub.hasAlpha = !allOpaque(sub.pix) || r.Bool()
				small := aFrame{offX: r.Intn(maxi(d.w-3, 1)), offY: r.Intn(d.h), fw: mini(3, d.w), fh: 1, blendNone: false, disposeBG: r.Bool()}
				small.pix = genPixels(r, small.fw*small.fh, 1)
				small.hasAlpha = true
				c.frames = []aFrame{full, sub, small}
				if r.Chance(1, 3) { // once more: a second wide dispose after a non-key frame
					again := sub
					again.pix = append([]byte(nil), sub.pix...)
					again.disposeBG = true
					c.frames = append(c.frames, again, small)
				}
				if variant == 1 && di%3 == 0 {
					c.resetAt = 2
				}
				b.add(c)
				rep.Count(fmt.Sprintf("wide:canvas=%dx%d", d.w, d.h))
				if sub.disposeBG && sub.fw > 1024 {
					rep.Count("wide:dispose-background-rect-wider-than-1024")
				}
			}
		}
	}
	b.flush()
	if b.err != nil {
		return b.err
	}
	return suiteBlend(rep)
}

// replayAnim re-executes one protocol line of this suite on Go and on the Lean driver.
func replayAnim(in map[string]any) int {
	line, _ := in["line"].(string)
	f := strings.Split(line, " ")
	if len(f) < 3 {
		fmt.Println("bad replay line")
		return 2
	}
	lean, err := RunDriver([]string{line})
	if err != nil {
		fmt.Println(err)
		return 2
	}
	fmt.Println("lean:", lean[0])
	switch f[0] {
	case "blend", "blendgrid":
		var g string
		if f[0] == "blend" {
			s, _ := hex.DecodeString(f[1])
			d, _ := hex.DecodeString(f[2])
			g = goBlendLine(color.NRGBA{s[0], s[1], s[2], s[3]}, color.NRGBA{d[0], d[1], d[2], d[3]})
		} else {
			s, _ := hex.DecodeString(f[1])
			d, _ := hex.DecodeString(f[2])
			g = goBlendGrid([3]byte{s[0], s[1], s[2]}, [3]byte{d[0], d[1], d[2]})
		}
		fmt.Println("go:  ", g)
		if g != kv(lean[0], "impl") || g != kv(lean[0], "spec") {
			return 1
		}
		return 0
	}
	c, ok := parseAnimLine(f)
	if !ok {
		fmt.Println("bad replay line")
		return 2
	}
	if so, ok := in["suborigin"].(float64); ok {
		c.subOrigin = int(so)
	}
	g := goAnimPlay(c)
	fmt.Println("go:  ", g.line, g.panicMsg)
	if f[0] == "animreset" {
		fmt.Println("go after reset:", g.resetLine)
		if g.resetLine != lean[0] || g.resetLine != g.line {
			return 1
		}
		return 0
	}
	impl, spec, _, ok := splitLean(lean[0])
	if !ok {
		if lean[0] != g.line {
			return 1
		}
		return 0
	}
	goD := strings.TrimPrefix(g.line, "ok ")
	if goD != impl && c.subOrigin == 0 {
		return 1
	}
	if goD != spec && c.flagsConsistent() {
		return 1
	}
	if g.mutated >= 0 || g.aliasCurr || !g.resetOK {
		return 1
	}
	return 0
}

func parseAnimLine(f []string) (*aCase, bool) {
	c := &aCase{resetAt: -1, kind: "replay"}
	i := 1
	if f[0] == "animreset" {
		k, err := strconv.Atoi(f[1])
		if err != nil {
			return nil, false
		}
		c.resetAt = k
		i = 2
	}
	if len(f) != i+3 {
		return nil, false
	}
	var err1, err2 error
	c.w, err1 = strconv.Atoi(f[i])
	c.h, err2 = strconv.Atoi(f[i+1])
	if err1 != nil || err2 != nil {
		return nil, false
	}
	if f[i+2] == "-" {
		return c, true
	}
	for _, fs := range strings.Split(f[i+2], ";") {
		p := strings.Split(fs, ",")
		if len(p) != 8 {
			return nil, false
		}
		var fr aFrame
		var e [4]error
		fr.offX, e[0] = strconv.Atoi(p[0])
		fr.offY, e[1] = strconv.Atoi(p[1])
		fr.fw, e[2] = strconv.Atoi(p[2])
		fr.fh, e[3] = strconv.Atoi(p[3])
		for _, x := range e {
			if x != nil {
				return nil, false
			}
		}
		fr.blendNone, fr.disposeBG, fr.hasAlpha = p[4] == "1", p[5] == "1", p[6] == "1"
		fr.pix = unhx(p[7])
		if len(fr.pix) != 4*fr.fw*fr.fh {
			return nil, false
		}
		c.frames = append(c.frames, fr)
	}
	return c, true
}
