package main

import (
	"bytes"
	"fmt"
	"image"
	"runtime"
	"strings"
	"sync"
	"time"

	webp "github.com/deepteams/webp"
	"github.com/deepteams/webp/verifapi"
)

// Suite codecfront (property C05, codec part): the Lean models of the VP8 and VP8L decoder front
// ends (Webp/Impl/CodecFront*.lean) against the real decoders, observed through the verif hooks
// after header parsing: parsed header fields, token-partition offsets and lengths, quantiser
// matrices, coefficient probabilities, every buffer length after initFrame; VP8L: dimensions,
// transform list with sizes, colour-cache bits, number of groups, buffer lengths after the
// allocations of DecodeVP8L; plus the copy-index, distance-map and palette-expansion kernels.

func init() { suites["codecfront"] = suiteCodecFront }

type cfCase struct {
	op   string
	args []string
	kind string
	// raw bytes of the main argument (for replay / distinct counting)
	data []byte
}

func (c *cfCase) line() string { return c.op + " " + strings.Join(c.args, " ") }

func hxOrDash(b []byte) string {
	if len(b) == 0 {
		return "-"
	}
	return hx(b)
}

func intsBar(xs []int) string {
	s := make([]string, len(xs))
	for i, x := range xs {
		s[i] = fmt.Sprint(x)
	}
	return strings.Join(s, "|")
}

func i8s(xs [4]int8) []int {
	o := make([]int, 4)
	for i, x := range xs {
		o[i] = int(x)
	}
	return o
}

// goVP8Front prints the canonical line of op vp8front from the real decoder.
func goVP8Front(data []byte, dirty *verifapi.VP8Decoder) string {
	f, err := verifapi.VP8FrontOf(dirty, data)
	if err != nil {
		return "err " + verifapi.VP8FrontErrClass(err)
	}
	var parts []string
	for i := range f.PartOff {
		parts = append(parts, fmt.Sprintf("%d:%d", f.PartOff[i], f.PartLen[i]))
	}
	var dqm []string
	for _, m := range f.Dqm {
		dqm = append(dqm, fmt.Sprintf("%d.%d.%d.%d.%d.%d.%d", m.Y1Mat[0], m.Y1Mat[1], m.Y2Mat[0], m.Y2Mat[1], m.UVMat[0], m.UVMat[1], m.UVQuant))
	}
	s := f.Seg
	fl := f.Filter
	return "ok " + strings.Join([]string{
		fmt.Sprintf("w=%d h=%d xs=%d ys=%d prof=%d plen=%d", f.Width, f.Height, f.XScale, f.YScale, f.Profile, f.PartitionLength),
		fmt.Sprintf("cs=%d clamp=%d", f.Colorspace, f.ClampType),
		fmt.Sprintf("seg=%s,%s,%s,%s,%s,%s", b2s(s.UseSegment), b2s(s.UpdateMap), b2s(s.AbsoluteDelta), intsBar(i8s(s.Quantizer)), intsBar(i8s(s.FilterStrength)),
			intsBar([]int{int(f.SegProbs[0]), int(f.SegProbs[1]), int(f.SegProbs[2])})),
		fmt.Sprintf("flt=%s,%d,%d,%s,%s,%s", b2s(fl.Simple), fl.Level, fl.Sharpness, b2s(fl.UseLFDelta), intsBar(fl.RefLFDelta[:]), intsBar(fl.ModeLFDelta[:])),
		fmt.Sprintf("ftype=%d nparts=%d parts=%s dqm=%s probs=%s", f.FilterType, f.NumParts, strings.Join(parts, ","), strings.Join(dqm, ";"), digest(f.CoeffProbs)),
		fmt.Sprintf("skip=%s,%d mbw=%d mbh=%d", b2s(f.UseSkipProba), f.SkipP, f.MbW, f.MbH),
		fmt.Sprintf("bufs=%d,%d,%d,%d,%d,%d,%d,%d,%d,%d,%d,%d", f.YuvT, f.MbInfo, f.FInfo, f.MbData, f.Slab, f.IntraT, f.YuvB, f.CacheY, f.CacheU, f.CacheV, f.CacheYStride, f.CacheUVStride),
	}, " ")
}

// goVP8Img decodes vp8 (+ raw ALPH payload) through the public Decode and prints the image shape.
func goVP8Img(vp8, alph []byte) string {
	var file []byte
	if len(alph) == 0 {
		file = riff(chunk("VP8 ", vp8))
	} else {
		if len(vp8) < 10 {
			return "err short"
		}
		w := (int(vp8[6]) | int(vp8[7])<<8) & 0x3fff
		h := (int(vp8[8]) | int(vp8[9])<<8) & 0x3fff
		if w == 0 || h == 0 {
			return "err zerodim"
		}
		body := chunk("VP8X", vp8xPayload(0x10, w, h))
		body = append(body, chunk("ALPH", alph)...)
		body = append(body, chunk("VP8 ", vp8)...)
		file = riff(body)
	}
	img, err := webp.Decode(bytes.NewReader(file))
	if err != nil {
		return "err decode"
	}
	switch m := img.(type) {
	case *image.YCbCr:
		if m == nil {
			return "ok nil"
		}
		return fmt.Sprintf("ok ycbcr %d %d %d %d %d %d %d", m.Rect.Dx(), m.Rect.Dy(), len(m.Y), len(m.Cb), len(m.Cr), m.YStride, m.CStride)
	case *image.NRGBA:
		return fmt.Sprintf("ok nrgba %d %d %d %d", m.Rect.Dx(), m.Rect.Dy(), len(m.Pix), m.Stride)
	}
	return "ok other"
}

// goVP8LFront prints the canonical line of op vp8lfront from the real decoder.
func goVP8LFront(data []byte) string {
	f, err := verifapi.VP8LFrontOf(data)
	if f == nil {
		return "infra " + fmt.Sprint(err)
	}
	if !f.Reached {
		return "err " + verifapi.VP8LFrontErrClass(err)
	}
	var tf []string
	for _, t := range f.Transforms {
		tf = append(tf, fmt.Sprintf("%d:%d:%d:%d:%d", t.Type, t.XSize, t.YSize, t.Bits, t.DataLen))
	}
	tfs := strings.Join(tf, ",")
	if tfs == "" {
		tfs = "-"
	}
	cacheBits := 0
	for s := f.ColorCacheSize; s > 1; s >>= 1 {
		cacheBits++
	}
	numPixOrig := f.Width * f.Height
	numPixTrans := f.TransformWidth * f.Height
	return "ok " + strings.Join([]string{
		fmt.Sprintf("w=%d h=%d alpha=%s tw=%d cache=%d", f.Width, f.Height, b2s(f.HasAlpha), f.TransformWidth, cacheBits),
		fmt.Sprintf("hbits=%d groups=%d", f.HuffmanBits, f.NumHTreeGroups),
		"tf=" + tfs,
		// numPixOrig/numPixTrans are products of observed fields; needed = len(pixels), numAlloc = len(transformBuf)
		fmt.Sprintf("bufs=%d,%d,%d,%d,%d,%d,%d", numPixOrig, numPixTrans, f.TransformBuf, f.Pixels, f.Pixels, f.Pixels-f.TransformBuf-f.Width, f.TransformBuf),
	}, " ")
}

func goCopy(n, pos, dist, length int) string {
	// the guards of decodeImageData
	if pos < dist || n-pos < length {
		return "err bitstream"
	}
	data := make([]uint32, n)
	for i := range data {
		data[i] = uint32(i)
	}
	out := verifapi.ECopyBlock32(data, pos, dist, length)
	// what a pixel-by-pixel copy gives
	ref := append([]uint32(nil), data...)
	for i := 0; i < length; i++ {
		ref[pos+i] = ref[pos+i-dist]
	}
	for i := range ref {
		if out[i] != ref[i] {
			return fmt.Sprintf("bad-copy at %d", i)
		}
	}
	return fmt.Sprintf("ok %d", pos+length)
}

// vp8Payloads / vp8lPayloads: chunk payloads of the seed corpus (top level and inside ANMF).
func cfPayloads(seeds []Seed) (vp8, vp8l, alph [][]byte) {
	seen := map[string]bool{}
	add := func(dst *[][]byte, pl []byte) {
		k := string(pl)
		if len(pl) == 0 || len(pl) > 1<<17 || seen[k] {
			return
		}
		seen[k] = true
		*dst = append(*dst, append([]byte(nil), pl...))
	}
	var walk func(b []byte, off int)
	walk = func(b []byte, off int) {
		for off+8 <= len(b) {
			sz := int(b[off+4]) | int(b[off+5])<<8 | int(b[off+6])<<16 | int(b[off+7])<<24
			end := off + 8 + sz
			if sz < 0 || end > len(b) {
				return
			}
			pl := b[off+8 : end]
			switch string(b[off : off+4]) {
			case "VP8 ":
				add(&vp8, pl)
			case "VP8L":
				add(&vp8l, pl)
			case "ALPH":
				add(&alph, pl)
			case "ANMF":
				if len(pl) > 16 {
					walk(pl, 16)
				}
			}
			off = end + sz&1
		}
	}
	for _, s := range seeds {
		if len(s.Data) > 12 {
			walk(s.Data, 12)
		}
	}
	return
}

func setPartLen(p []byte, v int) []byte {
	b := append([]byte(nil), p...)
	bits := uint32(b[0]) | uint32(b[1])<<8 | uint32(b[2])<<16
	bits = bits&0x1f | uint32(v)<<5
	b[0], b[1], b[2] = byte(bits), byte(bits>>8), byte(bits>>16)
	return b
}

func cfMutate(r *RNG, src []byte, headerBias int) []byte {
	b := append([]byte(nil), src...)
	if len(b) == 0 {
		return b
	}
	n := 1 + r.Intn(3)
	for i := 0; i < n; i++ {
		span := len(b)
		if r.Chance(2, 3) && headerBias < span {
			span = headerBias
		}
		p := r.Intn(span)
		switch r.Intn(5) {
		case 0:
			b[p] ^= 1 << uint(r.Intn(8))
		case 1:
			b[p] = byte(r.Next())
		case 2:
			b[p] = []byte{0, 0xff, 0x7f, 0x80}[r.Intn(4)]
		case 3:
			b = b[:p] // truncate
			if len(b) == 0 {
				return b
			}
		case 4:
			b = append(b[:p], append(r.Bytes(1+r.Intn(4)), b[p:]...)...)
		}
	}
	return b
}

func suiteCodecFront(rep *Report) error {
	rep.Rule = "VP8: chunk payloads of the seed corpus, synthetic key frames (1/2/4/8 partitions, segments, filter deltas, probability updates), header-biased byte mutations and truncations, every value of the 19-bit first-partition length on two seeds, every partition count x garbage in the partition size table (random, 0, 0xffffff, exact, off-by-one), dimension fields; each through parseHeaders+initFrame of the real decoder (fresh and with larger pooled buffers) vs Lean `vp8front` (bit-exact BoolReader model), and through webp.Decode vs Lean `vp8img`. VP8L: seed payloads, synthetic streams (all transform subsets, palettes, meta prefix images, colour caches), mutations, width/height sweeps, sweeps of the two bytes after the header (transform flag/type/bits), through the real DecodeVP8L (state read back from the pooled decoder) vs Lean `vp8lfront`. Kernels: copyBlock32 under the decoder's guards (exhaustive small grid) vs `vp8lcopy`, PlaneCodeToDistance vs `vp8ldist`, expandColorMap for numColors 1..256 x palette lengths vs `vp8lpal`. non-trivial = the front end accepted the input"
	thorough := rep.Tier == "thorough"
	tStart := time.Now()
	seeds := BuildSeeds(rep.Seed, thorough)
	rep.Extra["t_seeds_s"] = time.Since(tStart).Seconds()
	vp8s, vp8ls, alphs := cfPayloads(seeds)
	if len(vp8s) == 0 || len(vp8ls) == 0 {
		return fmt.Errorf("no seed payloads")
	}
	var cases []cfCase
	// The decoders allocate in proportion to the DECLARED picture (that is what C05 allows): a
	// 16383x16383 VP8 header costs 400 MB, a 16384x16384 VP8L header 2 GB, whatever the payload.
	// Inputs declaring more than 4 M pixels are therefore rationed (a fixed quota per run).
	bigQuota := 2 // per input kind
	if thorough {
		bigQuota = 20
	}
	big := map[string]int{}
	addVP8 := func(b []byte, kind string) {
		if len(b) >= 10 && b[3] == 0x9d && b[4] == 0x01 && b[5] == 0x2a {
			w := (int(b[6]) | int(b[7])<<8) & 0x3fff
			h := (int(b[8]) | int(b[9])<<8) & 0x3fff
			if w*h > 1<<22 {
				if big[kind]++; big[kind] > bigQuota {
					return
				}
				kind += ":declared>4M"
			}
		}
		cases = append(cases, cfCase{"vp8front", []string{hxOrDash(b)}, kind, b})
	}
	addVP8L := func(b []byte, kind string) {
		if len(b) >= 5 && b[0] == 0x2f {
			v := uint32(b[1]) | uint32(b[2])<<8 | uint32(b[3])<<16 | uint32(b[4])<<24
			w, h := int(v&0x3fff)+1, int((v>>14)&0x3fff)+1
			if w*h > 1<<22 {
				// (a valid 16384x16384 stream of 8 bytes takes ~9 s and 3 GiB to decode)
				if big[kind]++; big[kind] > bigQuota || (!thorough && w*h > 1<<24) {
					return
				}
				kind += ":declared>4M"
			}
		}
		cases = append(cases, cfCase{"vp8lfront", []string{hxOrDash(b)}, kind, b})
	}
	// ---- VP8 ----
	for _, p := range vp8s {
		addVP8(p, "vp8:seed")
		cases = append(cases, cfCase{"vp8img", []string{hxOrDash(p), "-"}, "vp8img:seed", p})
	}
	nSyn := 250
	nMut := 6000
	if thorough {
		nSyn, nMut = 4000, 200000
	}
	var syn [][]byte
	for i := 0; i < nSyn; i++ {
		r := NewRNG(rep.Seed, uint64(0xCF000000+i))
		pl := SynVP8Plan(r, "quick")
		b := pl.Emit()
		syn = append(syn, b)
		addVP8(b, fmt.Sprintf("vp8:syn:parts=%d", 1<<uint(pl.log2parts)))
		if i%5 == 0 {
			cases = append(cases, cfCase{"vp8img", []string{hxOrDash(b), "-"}, "vp8img:syn", b})
		}
	}
	pool := append(append([][]byte{}, vp8s...), syn...)
	for i := 0; i < nMut; i++ {
		r := NewRNG(rep.Seed, uint64(0xCF100000+i))
		src := pool[r.Intn(len(pool))]
		plen := 0
		if len(src) >= 3 {
			plen = int((uint32(src[0])|uint32(src[1])<<8|uint32(src[2])<<16)>>5) + 16
		}
		if plen > 200 {
			plen = 200
		}
		addVP8(cfMutate(r, src, 10+plen), "vp8:mutation")
	}
	// raw alpha planes through Decode (buildNRGBA): method 0, every filter, exact and short payloads
	for i := 0; i < 60 && i < len(pool); i++ {
		r := NewRNG(rep.Seed, uint64(0xCF180000+i))
		src := pool[r.Intn(len(pool))]
		if len(src) < 10 {
			continue
		}
		w := (int(src[6]) | int(src[7])<<8) & 0x3fff
		h := (int(src[8]) | int(src[9])<<8) & 0x3fff
		if w*h == 0 || w*h > 1<<16 {
			continue
		}
		n := w * h
		if r.Chance(1, 6) {
			n -= 1 + r.Intn(3)
		}
		if n < 0 {
			n = 0
		}
		al := append([]byte{byte(r.Intn(4) << 2)}, r.Bytes(n)...)
		cases = append(cases, cfCase{"vp8img", []string{hx(src), hx(al)}, "vp8img:rawalpha", src})
	}
	_ = alphs
	// every value of the 19-bit partition length on two seeds (the two shortest payloads)
	shortest := func(ps [][]byte) [][]byte {
		var a, b []byte
		for _, p := range ps {
			if len(p) < 12 {
				continue
			}
			if a == nil || len(p) < len(a) {
				a, b = p, a
			} else if b == nil || len(p) < len(b) {
				b = p
			}
		}
		return [][]byte{a, b}
	}
	for si, p := range shortest(append(append([][]byte{}, vp8s...), syn[:min(20, len(syn))]...)) {
		if p == nil {
			continue
		}
		for v := 0; v < 1<<19; v++ {
			addVP8(setPartLen(p, v), fmt.Sprintf("vp8:partlen-sweep:seed%d", si))
		}
	}
	// every partition count x garbage in the size table
	nTab := 40
	if thorough {
		nTab = 400
	}
	for i := 0; i < nTab; i++ {
		for k := 0; k < 4; k++ {
			r := NewRNG(rep.Seed, uint64(0xCF200000+i*4+k))
			pl := SynVP8Plan(r, "quick")
			pl.log2parts = k
			pl.padPart = -1
			b := pl.Emit()
			addVP8(b, fmt.Sprintf("vp8:parts=%d:valid", 1<<uint(k)))
			if len(b) < 10 {
				continue
			}
			tbl := 10 + int((uint32(b[0])|uint32(b[1])<<8|uint32(b[2])<<16)>>5)
			np := (1 << uint(k)) - 1
			if tbl+3*np > len(b) {
				continue
			}
			rest := len(b) - tbl - 3*np
			for g := 0; g < 10; g++ {
				c := append([]byte(nil), b...)
				for q := 0; q < np; q++ {
					var v int
					switch g {
					case 0:
						v = 0
					case 1:
						v = 0xffffff
					case 2:
						v = rest // first takes all, the others must be 0
					case 3:
						v = rest + 1
					case 4:
						v = rest / max(np, 1)
					case 5:
						v = rest/max(np, 1) + 1
					default:
						v = r.Intn(rest + 3)
						if r.Chance(1, 4) {
							v = int(r.Next() & 0xffffff)
						}
					}
					copy(c[tbl+3*q:], le24(v))
				}
				if g >= 8 { // cut inside / right after the table
					c = c[:min(len(c), tbl+r.Intn(3*np+2))]
				}
				addVP8(c, fmt.Sprintf("vp8:parts=%d:table-garbage", 1<<uint(k)))
			}
		}
	}
	// dimension fields: all 14-bit extremes + scale bits on seeds
	for i := 0; i < 300; i++ {
		r := NewRNG(rep.Seed, uint64(0xCF300000+i))
		src := pool[r.Intn(len(pool))]
		if len(src) < 10 {
			continue
		}
		b := append([]byte(nil), src...)
		dims := []int{0, 1, 2, 15, 16, 17, 255, 256, 4095, 8191, 16382, 16383, 0x4001, 0xc000 | 33, 0xffff}
		w, h := dims[r.Intn(len(dims))], dims[r.Intn(len(dims))]
		if r.Bool() {
			w = int(r.Next() & 0xffff)
		}
		b[6], b[7], b[8], b[9] = byte(w), byte(w>>8), byte(h), byte(h>>8)
		addVP8(b, "vp8:dims")
	}
	// ---- VP8L ----
	for _, p := range vp8ls {
		addVP8L(p, "vp8l:seed")
	}
	nLSyn, nLMut := 300, 2500
	if thorough {
		nLSyn, nLMut = 6000, 100000
	}
	var lsyn [][]byte
	for i := 0; i < nLSyn; i++ {
		r := NewRNG(rep.Seed, uint64(0xCF400000+i))
		b, _ := SynVP8L(r)
		lsyn = append(lsyn, b)
		addVP8L(b, "vp8l:syn")
	}
	lpool := append(append([][]byte{}, vp8ls...), lsyn...)
	for i := 0; i < nLMut; i++ {
		r := NewRNG(rep.Seed, uint64(0xCF500000+i))
		addVP8L(cfMutate(r, lpool[r.Intn(len(lpool))], 24), "vp8l:mutation")
	}
	// width / height sweeps (14-bit fields) on small streams
	ldims := []int{1, 2, 3, 4, 5, 7, 8, 9, 15, 16, 17, 31, 32, 33, 63, 64, 65, 127, 128, 129, 255, 256, 257, 511, 512, 1023, 1024, 4095, 4096, 16383, 16384}
	for i := 0; i < 12 && i < len(lpool); i++ {
		r := NewRNG(rep.Seed, uint64(0xCF600000+i))
		src := lpool[r.Intn(len(lpool))]
		if len(src) < 6 || len(src) > 4096 {
			continue
		}
		for _, w := range ldims {
			for _, h := range []int{1, 2, 5, 16, 33, 256, 16384} {
				b := append([]byte(nil), src...)
				v := uint32(w-1) | uint32(h-1)<<14 | uint32(b[4]&0xf0)<<24
				b[1], b[2], b[3], b[4] = byte(v), byte(v>>8), byte(v>>16), byte(v>>24)
				addVP8L(b, "vp8l:dim-sweep")
			}
		}
	}
	// transform flag / type / size-bits sweep: all values of byte 5, and of byte 6 on a few
	for i := 0; i < 10 && i < len(lpool); i++ {
		r := NewRNG(rep.Seed, uint64(0xCF700000+i))
		src := lpool[r.Intn(len(lpool))]
		if len(src) < 8 || len(src) > 4096 {
			continue
		}
		for v := 0; v < 256; v++ {
			b := append([]byte(nil), src...)
			b[5] = byte(v)
			addVP8L(b, "vp8l:transform-bits-sweep")
			if i < 3 {
				c := append([]byte(nil), src...)
				c[6] = byte(v)
				addVP8L(c, "vp8l:transform-bits-sweep")
			}
		}
	}
	// ---- kernels ----
	for n := 1; n <= 9; n++ {
		for pos := 0; pos <= n; pos++ {
			for dist := 1; dist <= n+1; dist++ {
				for length := 1; length <= n+1; length++ {
					cases = append(cases, cfCase{"vp8lcopy", []string{fmt.Sprint(n), fmt.Sprint(pos), fmt.Sprint(dist), fmt.Sprint(length)}, "kernel:copy", nil})
				}
			}
		}
	}
	for i := 0; i < 400; i++ {
		r := NewRNG(rep.Seed, uint64(0xCF800000+i))
		n := 10 + r.Intn(3000)
		pos := r.Intn(n + 1)
		dist := 1 + r.Intn(n)
		if r.Bool() {
			dist = 1 + r.Intn(40)
		}
		length := 1 + r.Intn(n)
		cases = append(cases, cfCase{"vp8lcopy", []string{fmt.Sprint(n), fmt.Sprint(pos), fmt.Sprint(dist), fmt.Sprint(length)}, "kernel:copy", nil})
	}
	for _, xs := range []int{1, 2, 3, 7, 8, 9, 16, 100, 16384, 1 << 26, 1<<26 + 1, 1 << 30} {
		for code := -1; code <= 125; code++ {
			cases = append(cases, cfCase{"vp8ldist", []string{fmt.Sprint(xs), fmt.Sprint(code)}, "kernel:dist", nil})
		}
	}
	for nc := 1; nc <= 256; nc++ {
		for _, pl := range []int{nc, 0, 1, nc - 1, nc + 1, 300} {
			if pl < 0 {
				continue
			}
			cases = append(cases, cfCase{"vp8lpal", []string{fmt.Sprint(nc), fmt.Sprint(pl)}, "kernel:palette", nil})
		}
	}

	// ---- Go side ----
	rep.Extra["t_gen_s"] = time.Since(tStart).Seconds()
	t0 := time.Now()
	golines := make([]string, len(cases))
	gopanic := make([]string, len(cases))
	dirtyLines := make([]string, len(cases))
	var wg sync.WaitGroup
	nw := runtime.NumCPU()
	for w := 0; w < nw; w++ {
		wg.Add(1)
		go func(w int) {
			defer wg.Done()
			for i := w; i < len(cases); i += nw {
				c := &cases[i]
				switch c.op {
				case "vp8front":
					golines[i], gopanic[i] = guard(func() string { return goVP8Front(c.data, nil) })
					if !strings.Contains(c.kind, "sweep") || i%97 == 0 {
						dirtyLines[i], _ = guard(func() string { return goVP8Front(c.data, verifapi.VP8DirtyDecoder(40, 30)) })
					}
				case "vp8img":
					al := []byte(nil)
					if c.args[1] != "-" {
						al = unhx(c.args[1])
					}
					golines[i], gopanic[i] = guard(func() string { return goVP8Img(c.data, al) })
				case "vp8lcopy":
					var n, pos, dist, length int
					fmt.Sscan(strings.Join(c.args, " "), &n, &pos, &dist, &length)
					golines[i], gopanic[i] = guard(func() string { return goCopy(n, pos, dist, length) })
				case "vp8ldist":
					var xs, code int
					fmt.Sscan(strings.Join(c.args, " "), &xs, &code)
					golines[i], gopanic[i] = guard(func() string { return fmt.Sprintf("ok %d", verifapi.LPlaneCodeToDistance(xs, code)) })
				case "vp8lpal":
					var nc, pl int
					fmt.Sscan(strings.Join(c.args, " "), &nc, &pl)
					bits := 3
					switch {
					case nc > 16:
						bits = 0
					case nc > 4:
						bits = 1
					case nc > 2:
						bits = 2
					}
					golines[i], gopanic[i] = guard(func() string {
						return fmt.Sprintf("ok %d", len(verifapi.LExpandColorMap(nc, bits, make([]uint32, pl))))
					})
				}
			}
		}(w)
	}
	wg.Wait()
	rep.Extra["t_go_parallel_s"] = time.Since(t0).Seconds()
	// the VP8L hook swaps the package pool: strictly sequential
	for i := range cases {
		if cases[i].op == "vp8lfront" {
			c := &cases[i]
			golines[i], gopanic[i] = guard(func() string { return goVP8LFront(c.data) })
		}
	}

	rep.Extra["t_go_all_s"] = time.Since(t0).Seconds()
	// ---- Lean side ----
	lines := make([]string, len(cases))
	for i := range cases {
		lines[i] = cases[i].line()
	}
	lean, err := RunDriver(lines)
	if err != nil {
		return err
	}

	rep.Extra["t_go_lean_s"] = time.Since(t0).Seconds()
	normL := func(s string) string { // VP8L error classes on the wire
		switch s {
		case "err code", "err pixels":
			return "err bitstream"
		}
		return s
	}
	for i := range cases {
		c := &cases[i]
		g, l := golines[i], lean[i]
		rep.Count("kind:" + c.kind)
		ok := strings.HasPrefix(g, "ok")
		key := c.data
		if key == nil {
			key = []byte(c.line())
		}
		rep.Eval(ok, key)
		input := map[string]any{"op": c.op, "args": c.args, "kind": c.kind}
		if c.data != nil && len(c.data) <= 4096 {
			input["hex"] = hx(c.data)
		}
		if gopanic[i] != "" {
			// a panic of the real front end is a C05 violation in itself
			rep.Add(Finding{Kind: "property", Property: "C05", Signature: "codecfront-go:" + c.op + ":panic", Detail: fmt.Sprintf("go panicked: %s | lean: %s", short(gopanic[i], 200), short(l, 200)), Input: input})
			rep.Count("outcome:go-panic")
			continue
		}
		if l == "panic" || l == "hang" {
			rep.Add(Finding{Kind: "correspondence", Property: "C05", Signature: "codecfront-model:" + c.op + ":model-" + l, Detail: fmt.Sprintf("model says %s, go: %s", l, short(g, 200)), Input: input})
			continue
		}
		switch c.op {
		case "vp8front":
			if dirtyLines[i] != "" && dirtyLines[i] != g {
				rep.Add(Finding{Kind: "property", Property: "C05", Signature: "codecfront-go:vp8front:reuse-changes-lengths", Detail: fmt.Sprintf("fresh: %s | pooled: %s", short(g, 300), short(dirtyLines[i], 300)), Input: input})
			}
			if g != l {
				rep.Add(Finding{Kind: "correspondence", Property: "C05", Signature: "codecfront-model:vp8front", Detail: fmt.Sprintf("go:   %s | lean: %s", short(g, 600), short(l, 600)), Input: input})
				rep.Count("outcome:vp8front:differ")
			} else if ok {
				rep.Count("outcome:vp8front:ok")
			} else {
				rep.Count("outcome:vp8front:" + g)
			}
		case "vp8img":
			switch {
			case ok && g != l:
				rep.Add(Finding{Kind: "correspondence", Property: "C05", Signature: "codecfront-model:vp8img", Detail: fmt.Sprintf("go:   %s | lean: %s", g, l), Input: input})
			case ok:
				rep.Count("outcome:vp8img:" + strings.Fields(g)[1])
				if g == "ok nil" || g == "ok other" {
					rep.Add(Finding{Kind: "property", Property: "C05", Signature: "codecfront-go:vp8img:" + g, Detail: "Decode returned a malformed image without error", Input: input})
				}
			default:
				rep.Count("outcome:vp8img:go-" + g)
			}
		case "vp8lfront":
			l = normL(l)
			switch {
			case strings.HasPrefix(g, "infra"):
				return fmt.Errorf("vp8l hook: %s", g)
			case g == l:
				if ok {
					rep.Count("outcome:vp8lfront:ok")
				} else {
					rep.Count("outcome:vp8lfront:" + g)
				}
			case ok && lean[i] == "err code" || ok && lean[i] == "err pixels":
				// the oracle instance is the VP8L *spec* model: stricter prefix-code validity and
				// end-of-data rules than the Go reader (classified by suite vp8l / property C03)
				rep.Count("outcome:vp8lfront:tolerated:oracle-stricter(" + lean[i] + ")")
			case !ok && strings.HasPrefix(l, "ok") && g == "err bitstream":
				rep.Count("outcome:vp8lfront:tolerated:go-stricter")
			case !ok && !strings.HasPrefix(l, "ok"):
				// both reject, different class: only signature/version/toolarge are distinguishable in Go
				if (g == "err bitstream") != (l == "err bitstream") {
					rep.Add(Finding{Kind: "correspondence", Property: "C05", Signature: "codecfront-model:vp8lfront:class", Detail: fmt.Sprintf("go: %s | lean: %s", g, lean[i]), Input: input})
				} else {
					rep.Count("outcome:vp8lfront:" + g)
				}
			default:
				rep.Add(Finding{Kind: "correspondence", Property: "C05", Signature: "codecfront-model:vp8lfront", Detail: fmt.Sprintf("go:   %s | lean: %s", short(g, 500), short(lean[i], 500)), Input: input})
				rep.Count("outcome:vp8lfront:differ")
			}
		case "vp8lcopy":
			lf := strings.Fields(l)
			lnorm := l
			if len(lf) >= 2 && lf[0] == "ok" {
				lnorm = "ok " + lf[1]
			}
			if g != lnorm {
				sig, kind := "codecfront-model:copyBlock32", "correspondence"
				if strings.HasPrefix(g, "bad-copy") {
					sig, kind = "codecfront-go:copyBlock32:wrong-pixels", "property"
				}
				rep.Add(Finding{Kind: kind, Property: "C05", Signature: sig, Detail: fmt.Sprintf("go: %s | lean: %s", g, short(l, 200)), Input: input})
			} else {
				rep.Count("outcome:copy:" + strings.Fields(g)[0])
			}
		default:
			if g != l {
				rep.Add(Finding{Kind: "correspondence", Property: "C05", Signature: "codecfront-model:" + c.op, Detail: fmt.Sprintf("go: %s | lean: %s", g, l), Input: input})
			} else {
				rep.Count("outcome:" + c.op + ":agree")
			}
		}
	}
	for i := 0; i < len(cases) && len(rep.Samples) < 6; i += len(cases)/6 + 1 {
		rep.Sample(map[string]any{"line": short(cases[i].line(), 120), "go": short(golines[i], 160)})
	}
	return nil
}
